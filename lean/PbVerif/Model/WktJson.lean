/-
Engine `wktjson`, property C23 — "Well-known types use their JSON forms exactly".

Executable model (core Lean only) of `/repo/encoding/protojson/well_known_types.go`:

* `parseDuration` / `unmarshalDuration` / `fmtDuration` (= `marshalDuration`) — the hand-written scanner is
  mirrored step by step; next to it stands the *documented* grammar `DurationGrammar` as an independent
  declarative specification (`DurParts`), which the theorems of `Props/C23.lean` compare the scanner with.
* Timestamp: own civil-date arithmetic in `Int` (Hinnant's `days_from_civil` / `civil_from_days`),
  `fmtTimestamp` (= `marshalTimestamp`: `time.Unix(s, n).UTC().Format("2006-01-02T15:04:05.000000000")`,
  trailing zeros trimmed in groups of three, `Z`) and `unmarshalTimestamp` (=
  `time.Parse(time.RFC3339Nano, s)` followed by the range test and the "at most nine digits after the last '.'" test).
  `parseTime` mirrors the *general* parser of `$GOROOT/src/time/format.go` (go1.23) specialised to the layout
  `2006-01-02T15:04:05.999999999Z07:00`; Go first tries a strict fast path (`parseRFC3339`) whose accepted set
  is a subset with the same values, so the general parser alone determines the verdict.  What it accepts
  beyond RFC 3339 (determined by experiment against Go, all of it modelled): a one-digit hour (`T0:00:00Z`),
  `,` as fraction separator (`unmarshalTimestamp` rejects any string containing ','), zone offsets with hour 24
  and/or minute 60, any number of fraction digits (those after the ninth are dropped).  What it rejects although RFC 3339 allows it: lower-case `t`/`z`,
  second 60.  The standard library is not verified by proof; the model is tied to it by the harness.
* FieldMask: `marshalFieldMask` / `unmarshalFieldMask` with private copies of `strs.JSONCamelCase`,
  `strs.JSONSnakeCase`, `protoreflect.FullName.IsValid`, `strings.TrimSpace`, `strings.Split(·, ",")`.
* Struct / Value / ListValue against a JSON tree; the dispatch tables `wellKnownTypeMarshaler/Unmarshaler`.

Strings are `List Char`.  The Go code works on bytes of valid UTF-8 (the JSON decoder has validated the
token); every byte test in the modelled code is a test against an ASCII byte, a non-ASCII character fails
it exactly like each of its bytes does, so the verdicts coincide; byte offsets are only compared on
strings that `time.Parse` has accepted, which are pure ASCII.
-/
namespace WktJson

abbrev Str := List Char

/-! ## Decimal digits -/

def isDigit (c : Char) : Bool := 48 ≤ c.toNat && c.toNat ≤ 57
def digitVal (c : Char) : Nat := c.toNat - 48
def digitChar (n : Nat) : Char := Char.ofNat (48 + n)

/-- value of a digit string, most significant digit first (`acc` = value of the digits already read) -/
def natOfDigitsAux (acc : Nat) (ds : Str) : Nat := ds.foldl (fun a c => 10 * a + digitVal c) acc

def natOfDigits (ds : Str) : Nat := natOfDigitsAux 0 ds

/-- `%d` of a natural number -/
def decDigits (n : Nat) : Str :=
  if _h : n < 10 then [digitChar n] else decDigits (n / 10) ++ [digitChar (n % 10)]
decreasing_by omega

/-- `%0<w>d` of a natural number below `10^w` (the `w` low-order digits in general) -/
def padDigits : Nat → Nat → Str
  | 0, _ => []
  | w + 1, n => padDigits w (n / 10) ++ [digitChar (n % 10)]

/-- longest prefix of digits, and the rest -/
def takeDigits : Str → Str × Str
  | [] => ([], [])
  | c :: t => if isDigit c then ((takeDigits t).1.cons c, (takeDigits t).2) else ([], c :: t)

/-- at most `n` leading digits, and the rest
(`for len(b) > 0 && n < 9 && '0' <= b[0] && b[0] <= '9'`) -/
def takeDigitsN : Nat → Str → Str × Str
  | 0, s => ([], s)
  | _ + 1, [] => ([], [])
  | n + 1, c :: t => if isDigit c then ((takeDigitsN n t).1.cons c, (takeDigitsN n t).2) else ([], c :: t)

/-- `strings.TrimSuffix` -/
def trimSuffix (x suf : Str) : Str :=
  if x.drop (x.length - suf.length) = suf then x.take (x.length - suf.length) else x

/-- `bytes.TrimLeft(·, "0")` -/
def trimLeftZeros : Str → Str
  | [] => []
  | c :: t => if c = '0' then trimLeftZeros t else c :: t

/-! ## Duration -/

def maxSecondsInDuration : Int := 315576000000
def secondsInNanos : Int := 999999999
def maxInt64 : Nat := 9223372036854775807

/-- `strconv.ParseInt(string(digits), 10, 64)` on a non-empty string of digits: fails on overflow. -/
def parseInt64Digits (ds : Str) : Option Nat :=
  if natOfDigits ds ≤ maxInt64 then some (natOfDigits ds) else none

/-- The integer-part switch of `parseDuration`; input `b` is non-empty.  Result: (`intp`, remaining `b`). -/
def durIntPart : Str → Option (Str × Str)
  | [] => none
  | c :: t =>
    if c = '0' then some ([], t)                                       -- case b[0] == '0': b = b[1:]
    else if 49 ≤ c.toNat ∧ c.toNat ≤ 57 then                            -- case '1' <= b[0] && b[0] <= '9'
      some (c :: (takeDigits t).1, (takeDigits t).2)
    else if c = '.' then                                                -- case b[0] == '.':
      match t with                                                      --   len(b) < 2 || b[1] < '0' || '9' < b[1] → invalid
      | [] => none
      | d :: _ => if isDigit d then some ([], c :: t) else none
    else none                                                           -- default

/-- The fraction block of `parseDuration`: `none` = invalid, `some none` = no fraction (`hasFrac = false`),
`some (some digits)` = the digits read after the '.' (at most nine, possibly none at all). -/
def durFracPart : Str → Option (Option Str)
  | [] => some none
  | c :: t =>
    if c ≠ '.' then none
    else if (takeDigitsN 9 t).2 ≠ [] then none                          -- "not valid if there are more bytes left"
    else some (some (takeDigitsN 9 t).1)

/-- `frac` padded on the right with '0' to nine digits -/
def padFrac9 (ds : Str) : Str := ds ++ List.replicate (9 - ds.length) '0'

/-- the nanos of `parseDuration`: 0 without a fraction (`hasFrac == false`), else
`strconv.ParseInt(bytes.TrimLeft(frac[:], "0"), 10, 32)` of the nine padded digits (at most 999999999,
so the conversion never fails; the empty string left when all nine are '0' is skipped by the code and is 0 here) -/
def durNanos : Option Str → Nat
  | none => 0
  | some ds => natOfDigits (trimLeftZeros (padFrac9 ds))

/-- `parseDuration` after the suffix and the sign have been removed (`neg` = a '-' was read). -/
def durBody (neg : Bool) (b : Str) : Option (Int × Int) :=
  if b = [] then none
  else
    (durIntPart b).bind fun (intp, b) =>
    (durFracPart b).bind fun frac =>
    (if intp = [] then some 0 else parseInt64Digits intp).bind fun secs =>
    let nanos : Nat := durNanos frac
    some (if neg then -(secs : Int) else (secs : Int), if neg then -(nanos : Int) else (nanos : Int))

/-- `parseDuration(input)`: `none` for `ok == false`, else `(secs, nanos)`. -/
def parseDuration (input : Str) : Option (Int × Int) :=
  -- size < 2, or last byte is not 's'
  match input.reverse with
  | [] => none
  | last :: revb =>
    if revb = [] then none
    else if last ≠ 's' then none
    else
      -- optional sign
      if revb.reverse.head? = some '-' then durBody true revb.reverse.tail
      else if revb.reverse.head? = some '+' then durBody false revb.reverse.tail
      else durBody false revb.reverse

/-- `unmarshalDuration` on the parsed JSON string: `parseDuration` plus the range test on seconds. -/
def unmarshalDuration (input : Str) : Option (Int × Int) :=
  (parseDuration input).bind fun (secs, nanos) =>
  if secs < -maxSecondsInDuration ∨ secs > maxSecondsInDuration then none else some (secs, nanos)

/-- the three `TrimSuffix` calls shared by `marshalDuration` and `marshalTimestamp` -/
def trimFrac (x : Str) : Str :=
  trimSuffix (trimSuffix (trimSuffix x ['0', '0', '0']) ['0', '0', '0']) ['.', '0', '0', '0']

/-- `marshalDuration`: `none` = error, else the text of the JSON string. -/
def fmtDuration (secs nanos : Int) : Option Str :=
  if secs < -maxSecondsInDuration ∨ secs > maxSecondsInDuration then none
  else if nanos < -secondsInNanos ∨ nanos > secondsInNanos then none
  else if (secs > 0 ∧ nanos < 0) ∨ (secs < 0 ∧ nanos > 0) then none
  else
    let neg : Bool := secs < 0 ∨ nanos < 0
    let sign : Str := if neg then ['-'] else []
    let s := if neg then -secs else secs
    let n := if neg then -nanos else nanos
    -- fmt.Sprintf("%s%d.%09d", sign, secs, nanos)
    let x := sign ++ decDigits s.toNat ++ ['.'] ++ padDigits 9 n.toNat
    some (trimFrac x ++ ['s'])

/-! ### The documented Duration grammar (specification, not executed)

`parseDuration`'s doc comment: "The format is a decimal number with a suffix 's'. It can have optional
plus/minus sign. There needs to be at least an integer or fractional part. Fractional part is limited to
9 digits only for nanoseconds precision, regardless of whether there are trailing zero digits. Example
values are 1s, 0.1s, 1.s, .1s, +1s, -1s, -.1s."

    duration = [ "+" | "-" ] ( int [ "." digit{0,9} ] | "." digit{1,9} ) "s"
    int      = "0" | ( "1".."9" digit* )

The comment does not say whether the integer part may carry leading zeros; `int` is read as JSON reads
a number's integer part (which is what the code does: "01s" is rejected).  This reading is an
interpretation and is recorded as such in the check's `level_note`. -/

inductive Sign | none | plus | minus
deriving DecidableEq, Repr

def Sign.chars : Sign → Str
  | .none => [] | .plus => ['+'] | .minus => ['-']

/-- the parts of a Duration literal: sign, integer digits (if present), fraction digits (if a '.' is present) -/
structure DurParts where
  sign : Sign
  intp : Option Str
  frac : Option Str
deriving DecidableEq, Repr

def optChars : Option Str → Str
  | none => [] | some ds => ds

def fracChars : Option Str → Str
  | none => [] | some ds => '.' :: ds

def DurParts.render (p : DurParts) : Str :=
  p.sign.chars ++ optChars p.intp ++ fracChars p.frac ++ ['s']

def allDigits (ds : Str) : Prop := ∀ c ∈ ds, isDigit c = true

/-- `"0" | "1".."9" digit*` -/
def JsonInt (ds : Str) : Prop :=
  ds = ['0'] ∨ ∃ c t, ds = c :: t ∧ 49 ≤ c.toNat ∧ c.toNat ≤ 57 ∧ allDigits t

def DurParts.WF (p : DurParts) : Prop :=
  (∀ ds, p.intp = some ds → JsonInt ds) ∧
  (∀ ds, p.frac = some ds → allDigits ds ∧ ds.length ≤ 9) ∧
  -- "at least an integer or fractional part": without integer digits there must be fraction digits
  (p.intp = none → ∃ ds, p.frac = some ds ∧ ds ≠ [])

/-- the value the documentation assigns: seconds = integer part, nanos = fraction scaled to 9 digits,
the sign applying to both -/
def DurParts.value (p : DurParts) : Int × Int :=
  let s : Nat := natOfDigits (optChars p.intp)
  let n : Nat := natOfDigits (padFrac9 (optChars p.frac))
  if p.sign = .minus then (-(s : Int), -(n : Int)) else ((s : Int), (n : Int))

def DurationGrammar (s : Str) : Prop := ∃ p : DurParts, p.WF ∧ p.render = s

/-- `(secs, nanos)` is what the documentation says `s` denotes -/
def DurationDenotes (s : Str) (v : Int × Int) : Prop := ∃ p : DurParts, p.WF ∧ p.render = s ∧ p.value = v

/-- a valid `google.protobuf.Duration` (duration.proto; `marshalDuration`'s three tests) -/
def DurationValid (secs nanos : Int) : Prop :=
  -maxSecondsInDuration ≤ secs ∧ secs ≤ maxSecondsInDuration ∧
  -secondsInNanos ≤ nanos ∧ nanos ≤ secondsInNanos ∧
  ¬ (secs > 0 ∧ nanos < 0) ∧ ¬ (secs < 0 ∧ nanos > 0)

/-! ## Civil dates (proleptic Gregorian calendar), Howard Hinnant's algorithms, in `Int`.
`/` and `%` are Lean's Euclidean division; every divisor below is a positive literal, so they are floor
division and non-negative remainder (Hinnant's C++ needs the `y >= 0 ? y : y-399` adjustment only because
C++ truncates). -/

/-- days since 1970-01-01 of the civil date `y-m-d` -/
def daysFromCivil (y m d : Int) : Int :=
  let y' := if m ≤ 2 then y - 1 else y
  let era := y' / 400
  let yoe := y' - era * 400
  let mp := (m + 9) % 12
  let doy := (153 * mp + 2) / 5 + d - 1
  let doe := yoe * 365 + yoe / 4 - yoe / 100 + doy
  era * 146097 + doe - 719468

/-- civil date of the day number `z` (days since 1970-01-01) -/
def civilFromDays (z : Int) : Int × Int × Int :=
  let z := z + 719468
  let era := z / 146097
  let doe := z - era * 146097
  let yoe := (doe - doe / 1460 + doe / 36524 - doe / 146096) / 365
  let y := yoe + era * 400
  let doy := doe - (365 * yoe + yoe / 4 - yoe / 100)
  let mp := (5 * doy + 2) / 153
  let d := doy - (153 * mp + 2) / 5 + 1
  let m := if mp < 10 then mp + 3 else mp - 9
  (if m ≤ 2 then y + 1 else y, m, d)

def isLeap (y : Int) : Bool := y % 4 = 0 ∧ (y % 100 ≠ 0 ∨ y % 400 = 0)

/-- `time.daysIn` -/
def daysIn (y m : Int) : Int :=
  if m = 2 then (if isLeap y then 29 else 28)
  else if m = 4 ∨ m = 6 ∨ m = 9 ∨ m = 11 then 30 else 31

def ValidDate (y m d : Int) : Prop := 1 ≤ m ∧ m ≤ 12 ∧ 1 ≤ d ∧ d ≤ daysIn y m

/-! ## Timestamp -/

def maxTimestampSeconds : Int := 253402300799
def minTimestampSeconds : Int := -62135596800

/-- `t.Format("2006-01-02T15:04:05.000000000")` of `t = time.Unix(secs, nanos).UTC()` for years 1–9999 -/
def fmtTimeUTC (secs nanos : Int) : Str :=
  let days := secs / 86400
  let rem := secs % 86400
  let ymd := civilFromDays days
  padDigits 4 ymd.1.toNat ++ ['-'] ++ padDigits 2 ymd.2.1.toNat ++ ['-'] ++ padDigits 2 ymd.2.2.toNat ++ ['T'] ++
  padDigits 2 (rem / 3600).toNat ++ [':'] ++ padDigits 2 (rem % 3600 / 60).toNat ++ [':'] ++
  padDigits 2 (rem % 60).toNat ++ ['.'] ++ padDigits 9 nanos.toNat

/-- `marshalTimestamp`: `none` = error, else the text of the JSON string. -/
def fmtTimestamp (secs nanos : Int) : Option Str :=
  if secs < minTimestampSeconds ∨ secs > maxTimestampSeconds then none
  else if nanos < 0 ∨ nanos > secondsInNanos then none
  else some (trimFrac (fmtTimeUTC secs nanos) ++ ['Z'])

/-- `time.getnum(s, fixed)`: one or two digits (`fixed` forces two) -/
def getnum (fixed : Bool) : Str → Option (Nat × Str)
  | [] => none
  | [c] => if isDigit c ∧ ¬ fixed then some (digitVal c, []) else none
  | c :: d :: t =>
    if ¬ isDigit c then none
    else if ¬ isDigit d then (if fixed then none else some (digitVal c, d :: t))
    else some (digitVal c * 10 + digitVal d, t)

/-- `stdLongYear`: `len(value) >= 4 && isDigit(value, 0)`, then `atoi(value[0:4])` (which could read a sign
only in first position, where a digit is required): exactly four digits -/
def getYear : Str → Option (Nat × Str)
  | a :: b :: c :: d :: t =>
    if isDigit a ∧ isDigit b ∧ isDigit c ∧ isDigit d then some (natOfDigits [a, b, c, d], t) else none
  | _ => none

/-- `time.skip(value, prefix)` for a one-byte, non-space prefix -/
def skipChar (p : Char) : Str → Option Str
  | [] => none
  | c :: t => if c = p then some t else none

/-- `parseNanoseconds` applied to the digits after the separator: the first nine count -/
def nanosOfFrac (ds : Str) : Nat :=
  natOfDigits (ds.take 9) * 10 ^ (9 - (ds.take 9).length)

/-- `stdFracSecond9`: optional `[.,]digit+`; returns nanoseconds and the rest -/
def getFrac : Str → Nat × Str
  | c :: d :: t =>
    if (c = '.' ∨ c = ',') ∧ isDigit d then (nanosOfFrac (takeDigits (d :: t)).1, (takeDigits (d :: t)).2)
    else (0, c :: d :: t)
  | s => (0, s)

/-- `stdISO8601ColonTZ` ("Z07:00"): `Z`, or sign hh ':' mm with hh ≤ 24 and mm ≤ 60 (sic).
Returns the offset in seconds east of UTC and the rest. -/
def getZone : Str → Option (Int × Str)
  | [] => none
  | c :: t =>
    if c = 'Z' then some (0, t)
    else match t with
      | h1 :: h2 :: col :: m1 :: m2 :: rest =>
        if col ≠ ':' then none
        else if ¬ (isDigit h1 ∧ isDigit h2 ∧ isDigit m1 ∧ isDigit m2) then none
        else
          let hr := digitVal h1 * 10 + digitVal h2
          let mm := digitVal m1 * 10 + digitVal m2
          if hr > 24 then none
          else if mm > 60 then none
          else if c = '+' then some (((hr * 60 + mm) * 60 : Nat), rest)
          else if c = '-' then some (-(((hr * 60 + mm) * 60 : Nat) : Int), rest)
          else none
      | _ => none

/-- `time.Parse(time.RFC3339Nano, s)` as `(t.Unix(), t.Nanosecond())`; `none` = error. -/
def parseTime (s : Str) : Option (Int × Nat) :=
  (getYear s).bind fun (year, s) =>
  (skipChar '-' s).bind fun s =>
  (getnum true s).bind fun (month, s) =>
  if month = 0 ∨ 12 < month then none else
  (skipChar '-' s).bind fun s =>
  (getnum true s).bind fun (day, s) =>
  (skipChar 'T' s).bind fun s =>
  (getnum false s).bind fun (hour, s) =>
  if 24 ≤ hour then none else
  (skipChar ':' s).bind fun s =>
  (getnum true s).bind fun (min, s) =>
  if 60 ≤ min then none else
  (skipChar ':' s).bind fun s =>
  (getnum true s).bind fun (sec, s) =>
  if 60 ≤ sec then none else
  let (nsec, s) := getFrac s
  (getZone s).bind fun (off, s) =>
  if s ≠ [] then none                                                   -- "extra text"
  else if day < 1 ∨ (day : Int) > daysIn year month then none          -- "day out of range"
  else some (daysFromCivil year month day * 86400 + (hour * 3600 + min * 60 + sec : Nat) - off, nsec)

/-- index of the last element satisfying `p`, counting from `i` (`strings.LastIndexByte` / `LastIndexAny`;
`none` = -1) -/
def lastIndexAux (p : Char → Bool) : Str → Nat → Option Nat → Option Nat
  | [], _, acc => acc
  | c :: t, i, acc => lastIndexAux p t (i + 1) (if p c then some i else acc)

def lastIndex (p : Char → Bool) (s : Str) : Option Nat := lastIndexAux p s 0 none

/-- `i >= 0 && j >= i && j-i > len(".999999999")` -/
def tooManyFracDigits (s : Str) : Bool :=
  match lastIndex (· = '.') s, lastIndex (fun c => c = 'Z' ∨ c = '-' ∨ c = '+') s with
  | some i, some j => i ≤ j ∧ j - i > 10
  | _, _ => false

/-- `unmarshalTimestamp` on the parsed JSON string. -/
def unmarshalTimestamp (s : Str) : Option (Int × Int) :=
  (parseTime s).bind fun (secs, nsec) =>
  if secs < minTimestampSeconds ∨ secs > maxTimestampSeconds then none
  else if ',' ∈ s then none                                             -- strings.IndexByte(s, ',') >= 0
  else if tooManyFracDigits s then none
  else some (secs, (nsec : Int))

/-! ### The Timestamp grammar (specification, not executed)

RFC 3339 `date-time` as the Timestamp documentation quotes it
(`{year}-{month}-{day}T{hour}:{min}:{sec}[.{frac_sec}]Z`, or a numeric offset instead of `Z`), with upper-case
`T`/`Z` and without the leap second, together with what `time.Parse` accepts beyond it, so that the sets of
accepted strings can be stated exactly: a one-digit hour (`hour1`), ',' as the fraction separator
(`frac = some (true, _)`; accepted by `time.Parse`, rejected by `unmarshalTimestamp` since the repair of
DESIGN finding 9), an offset hour of 24 / minute of 60. -/

structure TsParts where
  year : Nat
  month : Nat
  day : Nat
  hour : Nat
  min : Nat
  sec : Nat
  /-- the hour is written with one digit -/
  hour1 : Bool
  /-- fraction: (separator is ',', digits) -/
  frac : Option (Bool × Str)
  /-- `none` = "Z"; `some (minus, hh, mm)` = numeric offset -/
  zone : Option (Bool × Nat × Nat)

def TsParts.hourChars (p : TsParts) : Str := if p.hour1 then [digitChar p.hour] else padDigits 2 p.hour

def tsFracChars : Option (Bool × Str) → Str
  | none => []
  | some (comma, ds) => (if comma then ',' else '.') :: ds

def tsZoneChars : Option (Bool × Nat × Nat) → Str
  | none => ['Z']
  | some (neg, hh, mm) => (if neg then '-' else '+') :: (padDigits 2 hh ++ ':' :: padDigits 2 mm)

def TsParts.render (p : TsParts) : Str :=
  padDigits 4 p.year ++ '-' :: (padDigits 2 p.month ++ '-' :: (padDigits 2 p.day ++ 'T' :: (p.hourChars ++ ':' ::
    (padDigits 2 p.min ++ ':' :: (padDigits 2 p.sec ++ (tsFracChars p.frac ++ tsZoneChars p.zone))))))

/-- offset east of UTC in seconds -/
def tsOffset : Option (Bool × Nat × Nat) → Int
  | none => 0
  | some (neg, hh, mm) => if neg then -(((hh * 60 + mm) * 60 : Nat) : Int) else (((hh * 60 + mm) * 60 : Nat) : Int)

def tsNanos : Option (Bool × Str) → Nat
  | none => 0
  | some (_, ds) => nanosOfFrac ds

/-- the instant the literal denotes: (seconds since 1970-01-01T00:00:00Z, nanoseconds; digits after the
ninth do not count) -/
def TsParts.value (p : TsParts) : Int × Int :=
  (daysFromCivil p.year p.month p.day * 86400 + ((p.hour * 3600 + p.min * 60 + p.sec : Nat) : Int) - tsOffset p.zone,
   (tsNanos p.frac : Int))

/-- field ranges common to RFC 3339 and to what the code accepts -/
def TsParts.Fields (p : TsParts) : Prop :=
  p.year < 10000 ∧ 1 ≤ p.month ∧ p.month ≤ 12 ∧ 1 ≤ p.day ∧ (p.day : Int) ≤ daysIn p.year p.month ∧
  p.hour < 24 ∧ (p.hour1 = true → p.hour < 10) ∧ p.min < 60 ∧ p.sec < 60 ∧
  (∀ comma ds, p.frac = some (comma, ds) → allDigits ds ∧ ds ≠ []) ∧
  (∀ neg hh mm, p.zone = some (neg, hh, mm) → hh ≤ 24 ∧ mm ≤ 60)

/-- what `unmarshalTimestamp` accepts: the separator is '.', at most nine fraction digits
(`time.Parse` alone would also take ','; `unmarshalTimestamp` rejects every string containing one) -/
def TsParts.Accepted (p : TsParts) : Prop :=
  p.Fields ∧ ∀ comma ds, p.frac = some (comma, ds) → comma = false ∧ ds.length ≤ 9

/-- RFC 3339 with at most nine fraction digits: two-digit hour, '.', offset 00..23 ':' 00..59 -/
def TsParts.Rfc3339 (p : TsParts) : Prop :=
  p.Fields ∧ p.hour1 = false ∧ (∀ comma ds, p.frac = some (comma, ds) → comma = false ∧ ds.length ≤ 9) ∧
  (∀ neg hh mm, p.zone = some (neg, hh, mm) → hh ≤ 23 ∧ mm ≤ 59)

/-! ## FieldMask

Private copies of `strs.JSONCamelCase`, `strs.JSONSnakeCase` (internal/strs/strings.go) and
`protoreflect.FullName.IsValid` (reflect/protoreflect/proto.go).  The Go functions work on bytes; a
non-ASCII character passes through the two converters unchanged (none of its bytes is '_' or an ASCII
letter) and makes `IsValid` false, exactly as here. -/

def isLower (c : Char) : Bool := 97 ≤ c.toNat && c.toNat ≤ 122
def isUpper (c : Char) : Bool := 65 ≤ c.toNat && c.toNat ≤ 90
def toUpper (c : Char) : Char := Char.ofNat (c.toNat - 32)   -- `c -= 'a' - 'A'`
def toLower (c : Char) : Char := Char.ofNat (c.toNat + 32)   -- `c += 'a' - 'A'`

/-- `strs.JSONCamelCase`; the flag is `wasUnderscore` -/
def jsonCamelCaseAux : Bool → Str → Str
  | _, [] => []
  | was, c :: t =>
    if c = '_' then jsonCamelCaseAux true t
    else (if was ∧ isLower c then toUpper c else c) :: jsonCamelCaseAux false t

def jsonCamelCase (s : Str) : Str := jsonCamelCaseAux false s

/-- `strs.JSONSnakeCase` -/
def jsonSnakeCase : Str → Str
  | [] => []
  | c :: t => if isUpper c then '_' :: toLower c :: jsonSnakeCase t else c :: jsonSnakeCase t

def isLetter (c : Char) : Bool := c.toNat = 95 || isLower c || isUpper c
def isLetterDigit (c : Char) : Bool := isLetter c || isDigit c

/-- `FullName.IsValid`: identifiers separated by single dots.  `start` = an identifier must begin here
(`consumeIdent` is about to be called); otherwise we are inside an identifier. -/
def fullNameValidAux : Bool → Str → Bool
  | start, [] => !start
  | true, c :: t => isLetter c && fullNameValidAux false t
  | false, c :: t => if c = '.' then fullNameValidAux true t else isLetterDigit c && fullNameValidAux false t

def fullNameValid (s : Str) : Bool := fullNameValidAux true s

/-- `unicode.IsSpace` (what `strings.TrimSpace` removes) -/
def isSpace (c : Char) : Bool :=
  (9 ≤ c.toNat && c.toNat ≤ 13) || c.toNat = 32 || c.toNat = 0x85 || c.toNat = 0xA0 || c.toNat = 0x1680 ||
  (0x2000 ≤ c.toNat && c.toNat ≤ 0x200A) || c.toNat = 0x2028 || c.toNat = 0x2029 || c.toNat = 0x202F ||
  c.toNat = 0x205F || c.toNat = 0x3000

def trimSpace (s : Str) : Str := ((s.dropWhile isSpace).reverse.dropWhile isSpace).reverse

def consHead (c : Char) : List Str → List Str
  | [] => [[c]]
  | h :: r => (c :: h) :: r

/-- `strings.Split(s, ",")` -/
def splitComma : Str → List Str
  | [] => [[]]
  | c :: t => if c = ',' then [] :: splitComma t else consHead c (splitComma t)

/-- `strings.Join(paths, ",")` -/
def joinComma : List Str → Str
  | [] => []
  | [x] => x
  | x :: y :: r => x ++ ',' :: joinComma (y :: r)

/-- the loop of `marshalFieldMask`: camel-cased paths, or `none` at the first invalid / irreversible path -/
def fmMarshalPaths : List Str → Option (List Str)
  | [] => some []
  | s :: r =>
    if ¬ fullNameValid s then none
    else if s ≠ jsonSnakeCase (jsonCamelCase s) then none
    else (fmMarshalPaths r).map (jsonCamelCase s :: ·)

/-- `marshalFieldMask`: `none` = error, else the text of the JSON string -/
def marshalFieldMask (paths : List Str) : Option Str := (fmMarshalPaths paths).map joinComma

/-- the loop of `unmarshalFieldMask` -/
def fmUnmarshalPaths : List Str → Option (List Str)
  | [] => some []
  | s0 :: r =>
    if '_' ∈ s0 ∨ ¬ fullNameValid (jsonSnakeCase s0) then none
    else (fmUnmarshalPaths r).map (jsonSnakeCase s0 :: ·)

/-- `unmarshalFieldMask` on the parsed JSON string: `none` = error, else the paths -/
def unmarshalFieldMask (str : Str) : Option (List Str) :=
  if trimSpace str = [] then some [] else fmUnmarshalPaths (splitComma (trimSpace str))

/-! ## Struct / Value / ListValue against a JSON tree

`PValue` is a `google.protobuf.Value` (`unset` = no member of the oneof is set), `PFields` the entries of a
`Struct.fields` map **in the order `marshalMap` emits them** (`order.GenericKeyOrder`: ascending by key,
bytewise = by code point for valid UTF-8), `PList` a `ListValue.values`.  `JValue` is a JSON document as
the decoder's token stream delimits it; object members are in text order.  A number is the bit pattern of
the `float64` that the literal denotes / that is printed (text ↔ float conversion belongs to C22); a literal
beyond the `float64` range denotes ±Inf and is rejected, as `strconv.ParseFloat` reports a range error. -/

mutual
inductive PValue where
  | unset
  | null
  | num (bits : Nat)
  | str (s : Str)
  | bool (b : Bool)
  | struct (fs : PFields)
  | list (vs : PList)
inductive PFields where
  | nil
  | cons (k : Str) (v : PValue) (rest : PFields)
inductive PList where
  | nil
  | cons (v : PValue) (rest : PList)
end

mutual
inductive JValue where
  | null
  | bool (b : Bool)
  | num (bits : Nat)
  | str (s : Str)
  | obj (ms : JMembers)
  | arr (es : JElems)
inductive JMembers where
  | nil
  | cons (k : Str) (v : JValue) (rest : JMembers)
inductive JElems where
  | nil
  | cons (v : JValue) (rest : JElems)
end

/-- `math.IsNaN(v) || math.IsInf(v, 0)` on the IEEE-754 binary64 bit pattern: exponent field all ones -/
def nonFinite (bits : Nat) : Bool := bits / 2 ^ 52 % 2 ^ 11 = 2047

mutual
/-- `marshalKnownValue` -/
def marshalValue : PValue → Option JValue
  | .unset => none                                            -- "none of the oneof fields is set"
  | .null => some .null
  | .num b => if nonFinite b then none else some (.num b)     -- "invalid %v value"
  | .str s => some (.str s)
  | .bool b => some (.bool b)
  | .struct fs => (marshalFields fs).map .obj
  | .list vs => (marshalList vs).map .arr
/-- `marshalStruct` = `marshalMap` -/
def marshalFields : PFields → Option JMembers
  | .nil => some .nil
  | .cons k v r => (marshalValue v).bind fun j => (marshalFields r).map (.cons k j)
/-- `marshalListValue` = `marshalList` -/
def marshalList : PList → Option JElems
  | .nil => some .nil
  | .cons v r => (marshalValue v).bind fun j => (marshalList r).map (.cons j)
end

/-- strict order of map keys: lexicographic by code point -/
def strLt : Str → Str → Bool
  | _, [] => false
  | [], _ :: _ => true
  | a :: s, b :: t => a.toNat < b.toNat || (a.toNat = b.toNat && strLt s t)

/-- store an entry in the map: `none` if the key is already present ("duplicate map key") -/
def insertField (k : Str) (v : PValue) : PFields → Option PFields
  | .nil => some (.cons k v .nil)
  | .cons k' v' r =>
    if strLt k k' then some (.cons k v (.cons k' v' r))
    else if k = k' then none
    else (insertField k v r).map (.cons k' v')

mutual
/-- `unmarshalKnownValue` -/
def unmarshalValue : JValue → Option PValue
  | .null => some .null
  | .bool b => some (.bool b)
  | .num b => if nonFinite b then none else some (.num b)   -- `unmarshalFloat(tok, 64)` fails on overflow
  | .str s => some (.str s)
  | .obj ms => (unmarshalMembers ms).map .struct
  | .arr es => (unmarshalElems es).map .list
/-- `unmarshalStruct` = `unmarshalMap`.  The resulting Go map has no order; the entries are kept here in
`marshalMap`'s order, so the order in which the members are stored does not matter and the recursion
stores the first member last. -/
def unmarshalMembers : JMembers → Option PFields
  | .nil => some .nil
  | .cons k j r => (unmarshalValue j).bind fun v => (unmarshalMembers r).bind fun fs => insertField k v fs
/-- `unmarshalListValue` = `unmarshalList` -/
def unmarshalElems : JElems → Option PList
  | .nil => some .nil
  | .cons j r => (unmarshalValue j).bind fun v => (unmarshalElems r).map (.cons v)
end

/-! ## Dispatch (`wellKnownTypeMarshaler` / `wellKnownTypeUnmarshaler`) -/

inductive Wkt where
  | any | timestamp | duration | wrapper | struct | listValue | value | fieldMask | empty
deriving DecidableEq, Repr

/-- the `switch name.Name()` of `wellKnownTypeMarshaler` -/
def marshalerTable : List (String × Wkt) :=
  [("Any", .any), ("Timestamp", .timestamp), ("Duration", .duration),
   ("BoolValue", .wrapper), ("Int32Value", .wrapper), ("Int64Value", .wrapper), ("UInt32Value", .wrapper),
   ("UInt64Value", .wrapper), ("FloatValue", .wrapper), ("DoubleValue", .wrapper), ("StringValue", .wrapper),
   ("BytesValue", .wrapper), ("Struct", .struct), ("ListValue", .listValue), ("Value", .value),
   ("FieldMask", .fieldMask)]

/-- `wellKnownTypeUnmarshaler` has one more case: `Empty` -/
def unmarshalerTable : List (String × Wkt) := marshalerTable ++ [("Empty", .empty)]

/-- `name.Parent() == "google.protobuf"` then the table; `parent`/`short` are `FullName.Parent()`/`Name()` -/
def wellKnownTypeMarshaler (parent short : String) : Option Wkt :=
  if parent = "google.protobuf" then marshalerTable.lookup short else none

def wellKnownTypeUnmarshaler (parent short : String) : Option Wkt :=
  if parent = "google.protobuf" then unmarshalerTable.lookup short else none

end WktJson
