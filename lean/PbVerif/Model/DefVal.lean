/-
Executable model of `internal/encoding/defval/default.go` of protobuf-go (core Lean only):

* `marshalBytes`      — `marshalBytes` (the C-escape switch, `fmt.Sprintf("\\%03o", c)` for the rest)
* `unmarshalBytes`    — `unmarshalBytes` = `ptext.UnmarshalString("\"" + s + "\"")`, i.e. one call of
                        `internal/encoding/text/decode_string.go: (*Decoder).parseString` (private copy
                        `parseString`/`parseLoop`; `\u`/`\U` escapes are *not* modelled: outcome `unsupported`)
* `formatInt/formatUint`, `parseInt/parseUint` — `strconv.FormatInt/FormatUint(v, 10)`,
                        `strconv.ParseInt/ParseUint(s, 10, bitSize)` with `err == nil` as `some`
* `marshal`, `unmarshal` — `Marshal`, `Unmarshal`: the `switch k` with both formats
* `FloatCodec`        — `strconv.FormatFloat(f,'g',-1,32|64)` / `strconv.ParseFloat(s,64|32)` as *parameters*
                        (Lean's `Float` is opaque to the kernel); the conversions `float64(float32)` (`widen`) and
                        `float32(float64)` (`narrow`, round to nearest even) and `math.IsInf/IsNaN` are concrete
                        functions on bit patterns.

Go `string`/`[]byte` are `List Byte`; `int32/uint32/int64/uint64`/`EnumNumber` are `BitVec 32/64`
(signed reading `toInt`); an error result is `none`.
-/
namespace Model.DefVal

abbrev Byte := BitVec 8

/-! ## marshalBytes -/

/-- ASCII digit for `d < 10` -/
def digit (d : Nat) : Byte := BitVec.ofNat 8 (0x30 + d)

/-- the body of the `for _, c := range b` loop of `marshalBytes`: what is appended for `c` -/
def escapeByte (c : Byte) : List Byte :=
  if c = 0x0a#8 then [0x5c#8, 0x6e#8]            -- '\n' → `\n`
  else if c = 0x0d#8 then [0x5c#8, 0x72#8]       -- '\r' → `\r`
  else if c = 0x09#8 then [0x5c#8, 0x74#8]       -- '\t' → `\t`
  else if c = 0x22#8 then [0x5c#8, 0x22#8]       -- '"'  → `\"`
  else if c = 0x27#8 then [0x5c#8, 0x27#8]       -- '\'' → `\'`
  else if c = 0x5c#8 then [0x5c#8, 0x5c#8]       -- '\\' → `\\`
  else if 0x20 ≤ c.toNat ∧ c.toNat ≤ 0x7e then [c]   -- printableASCII
  else [0x5c#8, digit (c.toNat / 64), digit (c.toNat / 8 % 8), digit (c.toNat % 8)]   -- `\%03o`

/-- `marshalBytes(b)` (its second result is always `true`) -/
def marshalBytes : List Byte → List Byte
  | [] => []
  | c :: t => escapeByte c ++ marshalBytes t

/-! ## unmarshalBytes: the text-format string parser (private copy) -/

/-- outcome of `parseString`: the two error kinds of the Go code, and `unsupported` for the
`\u`/`\U` escapes that this copy does not model (the harness does not compare those inputs). -/
inductive Res where
  | ok (v : List Byte)
  | eof            -- ErrUnexpectedEOF
  | syntax         -- d.newSyntaxError(…)
  | unsupported
  deriving Repr, DecidableEq

/-- `indexNeedEscapeInString`'s predicate: `c < ' ' || c == '"' || c == '\'' || c == '\\' || c >= 0x7f` -/
def needEscape (c : Byte) : Bool :=
  c.toNat < 0x20 || c == 0x22#8 || c == 0x27#8 || c == 0x5c#8 || 0x7f ≤ c.toNat

/-- `indexNeedEscapeInBytes(b)` -/
def indexNeedEscape : List Byte → Nat
  | [] => 0
  | c :: t => if needEscape c then 0 else indexNeedEscape t + 1

def isOct (c : Byte) : Bool := 0x30 ≤ c.toNat && c.toNat ≤ 0x37
def isHex (c : Byte) : Bool :=
  (0x30 ≤ c.toNat && c.toNat ≤ 0x39) || (0x61 ≤ c.toNat && c.toNat ≤ 0x66) || (0x41 ≤ c.toNat && c.toNat ≤ 0x46)
def hexVal (c : Byte) : Nat :=
  if c.toNat ≤ 0x39 then c.toNat - 0x30 else if 0x61 ≤ c.toNat then c.toNat - 0x57 else c.toNat - 0x37

/-- value of a digit string in `base` (all characters already known to be digits of that base) -/
def digitsValue (base : Nat) (val : Byte → Nat) (ds : List Byte) : Nat :=
  ds.foldl (fun acc d => acc * base + val d) 0

def inRange (lo hi : Nat) (c : Byte) : Bool := lo ≤ c.toNat && c.toNat ≤ hi

/-- `utf8.DecodeRune(c :: t)` for a lead byte `c ≥ 0x80`: `some k` = a valid encoding with `k`
continuation bytes (`n = k+1`), `none` = `(RuneError, 1)`.  Table of `unicode/utf8` (first/accept ranges). -/
def utf8Cont (c : Byte) (t : List Byte) : Option Nat :=
  let conts (lo hi : Nat) (k : Nat) : Option Nat :=
    match t with
    | a :: r => if inRange lo hi a && (r.take (k - 1)).all (inRange 0x80 0xBF) && k - 1 ≤ r.length
                then some k else none
    | [] => none
  let x := c.toNat
  if 0xC2 ≤ x ∧ x ≤ 0xDF then conts 0x80 0xBF 1
  else if x = 0xE0 then conts 0xA0 0xBF 2
  else if x = 0xED then conts 0x80 0x9F 2
  else if 0xE1 ≤ x ∧ x ≤ 0xEF then conts 0x80 0xBF 2
  else if x = 0xF0 then conts 0x90 0xBF 3
  else if x = 0xF4 then conts 0x80 0x8F 3
  else if 0xF1 ≤ x ∧ x ≤ 0xF3 then conts 0x80 0xBF 3
  else none

/-- the `for len(in) > 0` loop of `parseString`; `q` is the opening quote (`< 0x80`), `out` the
bytes collected so far.  `t.drop k` is the Go slice `in[k+1:]` of `in = c :: t`. -/
def parseLoop (q : Byte) (inp out : List Byte) : Res :=
  match inp with
  | [] => .eof                                            -- loop exit: ErrUnexpectedEOF
  | c :: t =>
    if 0x80 ≤ c.toNat then
      match utf8Cont c t with
      | none => .syntax                                    -- r == RuneError && n == 1: invalid UTF-8
      | some k =>                                          -- default: copy the rune and the run after it
        let i := indexNeedEscape (t.drop k)
        parseLoop q (t.drop (k + i)) (out ++ c :: t.take (k + i))
    else if c = 0x00#8 ∨ c = 0x0a#8 then .syntax           -- r == 0 || r == '\n'
    else if c = q then .ok out                             -- r == rune(quote)
    else if c = 0x5c#8 then                                -- r == '\\'
      match t with
      | [] => .eof                                         -- len(in) < 2
      | e :: t2 =>
        if e = 0x22#8 ∨ e = 0x27#8 ∨ e = 0x5c#8 ∨ e = 0x3f#8 then parseLoop q t2 (out ++ [e])
        else if e = 0x61#8 then parseLoop q t2 (out ++ [0x07#8])     -- a
        else if e = 0x62#8 then parseLoop q t2 (out ++ [0x08#8])     -- b
        else if e = 0x6e#8 then parseLoop q t2 (out ++ [0x0a#8])     -- n
        else if e = 0x72#8 then parseLoop q t2 (out ++ [0x0d#8])     -- r
        else if e = 0x74#8 then parseLoop q t2 (out ++ [0x09#8])     -- t
        else if e = 0x76#8 then parseLoop q t2 (out ++ [0x0b#8])     -- v
        else if e = 0x66#8 then parseLoop q t2 (out ++ [0x0c#8])     -- f
        else if isOct e then
          -- n := number of leading octal digits of in[1:], at most 3; ParseUint(in[1:1+n], 8, 8)
          let ds := ((e :: t2).takeWhile isOct).take 3
          let v := digitsValue 8 (fun d => d.toNat - 0x30) ds
          if 256 ≤ v then .syntax
          else parseLoop q ((e :: t2).drop ds.length) (out ++ [BitVec.ofNat 8 v])
        else if e = 0x78#8 then
          -- n := number of leading hex digits of in[2:], at most 2; ParseUint(in[2:2+n], 16, 8)
          let ds := (t2.takeWhile isHex).take 2
          if ds.isEmpty then .syntax
          else parseLoop q (t2.drop ds.length) (out ++ [BitVec.ofNat 8 (digitsValue 16 hexVal ds)])
        else if e = 0x75#8 ∨ e = 0x55#8 then .unsupported    -- \u, \U: not modelled here
        else .syntax                                         -- invalid escape code
    else
      let i := indexNeedEscape t                             -- default (n = 1)
      parseLoop q (t.drop i) (out ++ c :: t.take i)
termination_by inp.length
decreasing_by
  all_goals simp only [List.length_cons, List.length_drop]
  all_goals omega

/-- `(*Decoder).parseString` on the whole input (`in[0]` is taken as the quote; what follows the
closing quote is ignored by `UnmarshalString`). -/
def parseString : List Byte → Res
  | [] => .eof
  | q :: inp =>
    let i := indexNeedEscape inp
    parseLoop q (inp.drop i) (inp.take i)

/-- `unmarshalBytes(s)`: `none` = `(nil, false)`.  (`unsupported` is kept apart by `unmarshalBytesRes`.) -/
def unmarshalBytesRes (s : List Byte) : Res := parseString (0x22#8 :: (s ++ [0x22#8]))

def unmarshalBytes (s : List Byte) : Option (List Byte) :=
  match unmarshalBytesRes s with
  | .ok v => some v
  | _ => none

/-! ## Integers: strconv.FormatInt/FormatUint(·, 10), strconv.ParseInt/ParseUint(·, 10, bitSize) -/

/-- `strconv.FormatUint(n, 10)` -/
def formatUint (n : Nat) : List Byte :=
  if n < 10 then [digit n] else formatUint (n / 10) ++ [digit (n % 10)]
decreasing_by omega

/-- `strconv.FormatInt(v, 10)` -/
def formatInt (v : Int) : List Byte :=
  if v < 0 then 0x2d#8 :: formatUint v.natAbs else formatUint v.toNat

def isDigit (c : Byte) : Bool := 0x30 ≤ c.toNat && c.toNat ≤ 0x39

/-- the digit loop of `ParseUint` for base 10 (no underscores, no prefix): `none` = syntax error -/
def digitsVal : List Byte → Nat → Option Nat
  | [], acc => some acc
  | c :: t, acc => if isDigit c then digitsVal t (acc * 10 + (c.toNat - 0x30)) else none

/-- `strconv.ParseUint(s, 10, bits)` with `err == nil`: no sign, at least one digit, value `< 2^bits` -/
def parseUint (bits : Nat) (s : List Byte) : Option Nat :=
  match s with
  | [] => none
  | _ => (digitsVal s 0).bind fun n => if n < 2 ^ bits then some n else none

/-- `strconv.ParseInt(s, 10, bits)` with `err == nil`: optional `+`/`-`, then `ParseUint`, then the
cutoff test `un >= 1<<(bits-1)` (`>` when negative). -/
def parseInt (bits : Nat) (s : List Byte) : Option Int :=
  match s with
  | [] => none
  | c :: t =>
    let neg := c == 0x2d#8
    let d := if c = 0x2b#8 ∨ c = 0x2d#8 then t else s
    (parseUint bits d).bind fun un =>
      if !neg ∧ 2 ^ (bits - 1) ≤ un then none
      else if neg ∧ 2 ^ (bits - 1) < un then none
      else some (if neg then -(un : Int) else (un : Int))

/-! ## Floats -/

/-- `strconv` as a parameter.  `format32 f` is `strconv.FormatFloat(f, 'g', -1, 32)` (its argument is the
`float64` that `Value.Float()` returns), `format64 f` is `FormatFloat(f, 'g', -1, 64)`,
`parse64 s` is `ParseFloat(s, 64)` (`none` = `err != nil`), `parse32 s` is the `float64` value that
`v, _ = ParseFloat(s, 32)` leaves in `v` (the error is discarded by the code: ±Inf on a range error). -/
structure FloatCodec where
  format32 : BitVec 64 → List Byte
  format64 : BitVec 64 → List Byte
  parse64 : List Byte → Option (BitVec 64)
  parse32 : List Byte → BitVec 64

def exp32 (b : BitVec 32) : Nat := b.toNat / 2 ^ 23 % 256
def man32 (b : BitVec 32) : Nat := b.toNat % 2 ^ 23
def sign32 (b : BitVec 32) : Nat := b.toNat / 2 ^ 31
def exp64 (b : BitVec 64) : Nat := b.toNat / 2 ^ 52 % 2048
def man64 (b : BitVec 64) : Nat := b.toNat % 2 ^ 52
def sign64 (b : BitVec 64) : Nat := b.toNat / 2 ^ 63

def isNaN32 (b : BitVec 32) : Bool := exp32 b == 255 && man32 b != 0
def isInf32 (b : BitVec 32) : Bool := exp32 b == 255 && man32 b == 0
def isFinite32 (b : BitVec 32) : Bool := exp32 b != 255
/-- `math.IsNaN` -/
def isNaN64 (b : BitVec 64) : Bool := exp64 b == 2047 && man64 b != 0
def isFinite64 (b : BitVec 64) : Bool := exp64 b != 2047

def posInf64 : BitVec 64 := 0x7FF0000000000000#64   -- math.Inf(+1)
def negInf64 : BitVec 64 := 0xFFF0000000000000#64   -- math.Inf(-1)
def goNaN64 : BitVec 64 := 0x7FF8000000000001#64    -- math.NaN()
def posInf32 : BitVec 32 := 0x7F800000#32
def negInf32 : BitVec 32 := 0xFF800000#32

/-- `float64(x)` for a `float32` `x` (exact).  A NaN keeps its payload, quieted (what amd64/arm64 do). -/
def widen (b : BitVec 32) : BitVec 64 :=
  let s := sign32 b; let e := exp32 b; let m := man32 b
  BitVec.ofNat 64 <|
    if e = 255 then s * 2 ^ 63 + 2047 * 2 ^ 52 + (if m = 0 then 0 else 2 ^ 51 + m * 2 ^ 29 % 2 ^ 51)
    else if e = 0 then
      if m = 0 then s * 2 ^ 63
      else
        -- subnormal m·2^-149 = 1.f · 2^(k-149) with k = ⌊log2 m⌋ ≤ 22
        let k := Nat.log2 m
        s * 2 ^ 63 + (874 + k) * 2 ^ 52 + m * 2 ^ (52 - k) % 2 ^ 52
    else s * 2 ^ 63 + (e + 896) * 2 ^ 52 + m * 2 ^ 29

/-- `M / 2^sh` rounded to nearest, ties to even (`sh ≥ 1`) -/
def rne (M sh : Nat) : Nat :=
  let q := M / 2 ^ sh; let r := M % 2 ^ sh; let half := 2 ^ (sh - 1)
  if half < r ∨ (r = half ∧ q % 2 = 1) then q + 1 else q

/-- `float32(v)` for a `float64` `v`: IEEE round to nearest even, overflow to ±Inf, gradual underflow.
A NaN keeps the top payload bits, quieted. -/
def narrow (b : BitVec 64) : BitVec 32 :=
  let s := sign64 b; let e := exp64 b; let m := man64 b
  BitVec.ofNat 32 <|
    if e = 2047 then s * 2 ^ 31 + 255 * 2 ^ 23 + (if m = 0 then 0 else 2 ^ 22 + m / 2 ^ 29 % 2 ^ 22)
    else if e = 0 then s * 2 ^ 31          -- |v| < 2^-1022: rounds to ±0
    else
      let M := 2 ^ 52 + m
      -- biased float32 exponent would be e - 896
      let r := if 897 ≤ e then (e - 897) * 2 ^ 23 + rne M 29      -- normal range (mantissa carry moves into the exponent)
               else if 897 - e ≤ 25 then rne M (29 + (897 - e))   -- subnormal range
               else 0
      s * 2 ^ 31 + (if 255 * 2 ^ 23 ≤ r then 255 * 2 ^ 23 else r)

/-! ## Marshal / Unmarshal -/

inductive Format where
  | descriptor | goTag
  deriving Repr, DecidableEq

/-- `protoreflect.Kind` -/
inductive Kind where
  | bool | enum | int32 | sint32 | uint32 | int64 | sint64 | uint64
  | sfixed32 | fixed32 | float | sfixed64 | fixed64 | double | string | bytes | message | group
  deriving Repr, DecidableEq

/-- `protoreflect.Value` restricted to scalars (the Go type it holds) -/
inductive Value where
  | bool (b : Bool)
  | int32 (v : BitVec 32)
  | int64 (v : BitVec 64)
  | uint32 (v : BitVec 32)
  | uint64 (v : BitVec 64)
  | float32 (bits : BitVec 32)
  | float64 (bits : BitVec 64)
  | string (s : List Byte)
  | bytes (b : List Byte)
  | enum (n : BitVec 32)
  deriving Repr, DecidableEq

/-- an `EnumValueDescriptor`: name and number -/
structure EnumValue where
  name : List Byte
  number : BitVec 32
  deriving Repr, DecidableEq

/-- `EnumValueDescriptors.ByName`: names are unique in an enum; the first match -/
def byName (evs : List EnumValue) (s : List Byte) : Option EnumValue := evs.find? (·.name = s)
/-- `EnumValueDescriptors.ByNumber`: with aliases, the first declared value of that number
(`internal/filedesc`: `if _, ok := p.byNum[d.Number()]; !ok { p.byNum[d.Number()] = d }`) -/
def byNumber (evs : List EnumValue) (n : BitVec 32) : Option EnumValue := evs.find? (·.number = n)

def sTrue : List Byte := [0x74#8, 0x72#8, 0x75#8, 0x65#8]            -- "true"
def sFalse : List Byte := [0x66#8, 0x61#8, 0x6c#8, 0x73#8, 0x65#8]   -- "false"
def sOne : List Byte := [0x31#8]                                     -- "1"
def sZero : List Byte := [0x30#8]                                    -- "0"
def sInf : List Byte := [0x69#8, 0x6e#8, 0x66#8]                     -- "inf"
def sNegInf : List Byte := [0x2d#8, 0x69#8, 0x6e#8, 0x66#8]          -- "-inf"
def sNaN : List Byte := [0x6e#8, 0x61#8, 0x6e#8]                     -- "nan"

/-- `Value.Int()`: panics (here `none`) unless the value holds an `int32` or `int64` -/
def Value.int? : Value → Option Int
  | .int32 v => some v.toInt
  | .int64 v => some v.toInt
  | _ => none
/-- `Value.Uint()` -/
def Value.uint? : Value → Option Nat
  | .uint32 v => some v.toNat
  | .uint64 v => some v.toNat
  | _ => none
/-- `Value.Float()`: a `float32` is widened -/
def Value.float? : Value → Option (BitVec 64)
  | .float32 b => some (widen b)
  | .float64 b => some b
  | _ => none

/-- the `FloatKind, DoubleKind` case of `Marshal` on `f := v.Float()` -/
def marshalFloat (fc : FloatCodec) (k : Kind) (f : BitVec 64) : List Byte :=
  if f = negInf64 then sNegInf            -- math.IsInf(f, -1)
  else if f = posInf64 then sInf          -- math.IsInf(f, +1)
  else if isNaN64 f then sNaN             -- math.IsNaN(f)
  else if k = .float then fc.format32 f else fc.format64 f

/-- `Marshal(v, ev, k, f)`: `none` = error or a panic of a `Value` accessor (ill-typed value) -/
def marshal (fc : FloatCodec) (v : Value) (ev : Option EnumValue) (k : Kind) (f : Format) : Option (List Byte) :=
  match k with
  | .bool =>
    match v with
    | .bool b => some (if f = .goTag then (if b then sOne else sZero) else (if b then sTrue else sFalse))
    | _ => none
  | .enum =>
    if f = .goTag then
      match v with
      | .enum n => some (formatInt n.toInt)
      | _ => none
    else ev.map (·.name)
  | .int32 | .sint32 | .sfixed32 | .int64 | .sint64 | .sfixed64 => v.int?.map formatInt
  | .uint32 | .fixed32 | .uint64 | .fixed64 => v.uint?.map formatUint
  | .float | .double => v.float?.map (marshalFloat fc k)
  | .string =>
    match v with
    | .string s => some s
    | _ => none
  | .bytes =>
    match v with
    | .bytes b => some (marshalBytes b)
    | _ => none
  | .message | .group => none

/-- the `switch s` of the float case of `Unmarshal`: the `float64` `v` it leaves (`none` = `err != nil`).
`default:` parses at 64 bits for acceptance and, for `FloatKind`, takes the value from `ParseFloat(s, 32)`. -/
def parseFloatText (fc : FloatCodec) (k : Kind) (s : List Byte) : Option (BitVec 64) :=
  if s = sNegInf then some negInf64
  else if s = sInf then some posInf64
  else if s = sNaN then some goNaN64
  else (fc.parse64 s).map fun v => if k = .float then fc.parse32 s else v

/-- `Unmarshal(s, k, evs, f)`: value and enum value descriptor; `none` = error -/
def unmarshal (fc : FloatCodec) (s : List Byte) (k : Kind) (evs : List EnumValue) (f : Format) :
    Option (Value × Option EnumValue) :=
  match k with
  | .bool =>
    if f = .goTag then
      (if s = sOne then some (.bool true, none) else if s = sZero then some (.bool false, none) else none)
    else
      (if s = sTrue then some (.bool true, none) else if s = sFalse then some (.bool false, none) else none)
  | .enum =>
    if f = .goTag then
      (parseInt 32 s).bind fun n => (byNumber evs (BitVec.ofInt 32 n)).map fun ev => (.enum ev.number, some ev)
    else (byName evs s).map fun ev => (.enum ev.number, some ev)
  | .int32 | .sint32 | .sfixed32 => (parseInt 32 s).map fun v => (.int32 (BitVec.ofInt 32 v), none)
  | .int64 | .sint64 | .sfixed64 => (parseInt 64 s).map fun v => (.int64 (BitVec.ofInt 64 v), none)
  | .uint32 | .fixed32 => (parseUint 32 s).map fun v => (.uint32 (BitVec.ofNat 32 v), none)
  | .uint64 | .fixed64 => (parseUint 64 s).map fun v => (.uint64 (BitVec.ofNat 64 v), none)
  | .float => (parseFloatText fc k s).map fun v => (.float32 (narrow v), none)
  | .double => (parseFloatText fc k s).map fun v => (.float64 v, none)
  | .string => some (.string s, none)
  | .bytes => (unmarshalBytes s).map fun b => (.bytes b, none)
  | .message | .group => none

/-- the Go type a value of kind `k` holds (what `protoreflect` documents) -/
def wellTyped : Kind → Value → Bool
  | .bool, .bool _ => true
  | .enum, .enum _ => true
  | .int32, .int32 _ | .sint32, .int32 _ | .sfixed32, .int32 _ => true
  | .int64, .int64 _ | .sint64, .int64 _ | .sfixed64, .int64 _ => true
  | .uint32, .uint32 _ | .fixed32, .uint32 _ => true
  | .uint64, .uint64 _ | .fixed64, .uint64 _ => true
  | .float, .float32 _ => true
  | .double, .float64 _ => true
  | .string, .string _ => true
  | .bytes, .bytes _ => true
  | _, _ => false

/-- equality of values with all NaNs equal -/
def Value.same : Value → Value → Bool
  | .float32 a, .float32 b => a == b || (isNaN32 a && isNaN32 b)
  | .float64 a, .float64 b => a == b || (isNaN64 a && isNaN64 b)
  | a, b => a == b

/-! ## Hypotheses about `strconv` (never axioms: they are fields of structures that theorems take as arguments;
the harness validates them against Go's `strconv`, `Law32` over all 2^32 patterns in the thorough tier) -/

/-- the three tokens that `Unmarshal` intercepts before calling `ParseFloat` -/
def specials : List (List Byte) := [sNegInf, sInf, sNaN]

/-- `ParseFloat(FormatFloat(f,'g',-1,64), 64) == f` for finite `f`, and the text is not `inf`/`-inf`/`nan` -/
structure FloatCodec.Law64 (fc : FloatCodec) : Prop where
  notSpecial : ∀ b, isFinite64 b = true → fc.format64 b ∉ specials
  roundtrip : ∀ b, isFinite64 b = true → fc.parse64 (fc.format64 b) = some b

/-- for every finite float32 `x` with `s = FormatFloat(float64(x),'g',-1,32)`: `s` is not a special token,
`ParseFloat(s, 64)` accepts it, and `float32(ParseFloat(s, 32)) == x`. -/
structure FloatCodec.Law32 (fc : FloatCodec) : Prop where
  notSpecial : ∀ b, isFinite32 b = true → fc.format32 (widen b) ∉ specials
  accepted : ∀ b, isFinite32 b = true → (fc.parse64 (fc.format32 (widen b))).isSome = true
  roundtrip : ∀ b, isFinite32 b = true → narrow (fc.parse32 (fc.format32 (widen b))) = b

/-- "7.038531e-26" -/
def witnessText : List Byte :=
  [0x37#8, 0x2e#8, 0x30#8, 0x33#8, 0x38#8, 0x35#8, 0x33#8, 0x31#8, 0x65#8, 0x2d#8, 0x32#8, 0x36#8]


end Model.DefVal
