/-
Model.Registry — reflect/protoregistry/registry.go (`Files` and `Types`, local registries).

Part A: descriptors as plain trees (what the registry can observe of a FileDescriptor).
Part B: the concrete model — the code's maps (`descsByName`, `filesByPath`, `typesByName`,
        `extensionsByMessage`) as association lists, with the code's order of checks and insertions.
Part C: the abstract specification — a name table derived from the list of accepted files / types.

Go maps are association lists with distinct keys; a full name is the list of its dot-separated
components (`""` is `[]`), so `FullName.Parent` is `dropLast`.  Core Lean only.
-/
namespace Model.Registry

abbrev Name := String
abbrev FullName := List Name

/-! ## association lists (Go maps) -/

def alLookup {α β} [DecidableEq α] (k : α) : List (α × β) → Option β
  | [] => none
  | (k', v) :: r => if k' = k then some v else alLookup k r

/-- `m[k] = v`: overwrite in place, or append a new key. -/
def alSet {α β} [DecidableEq α] (k : α) (v : β) : List (α × β) → List (α × β)
  | [] => [(k, v)]
  | (k', v') :: r => if k' = k then (k, v) :: r else (k', v') :: alSet k v r

/-- `for _, (k, v) := range es { m[k] = v }` -/
def setAll {α β} [DecidableEq α] (m : List (α × β)) (es : List (α × β)) : List (α × β) :=
  es.foldl (fun m e => alSet e.1 e.2 m) m

/-! ## Part A: descriptors -/

inductive Kind
  | message | enum | enumValue | extension | field | oneof | service | method
  deriving DecidableEq, Repr, Inhabited

/-- What a lookup lets the caller observe of the descriptor it found. -/
structure Desc where
  kind : Kind
  full : FullName
  deriving DecidableEq, Repr

structure EnumD where
  name : Name
  values : List Name
  deriving DecidableEq, Repr

structure ExtD where
  name : Name
  extendee : FullName
  number : Nat
  deriving DecidableEq, Repr

structure SvcD where
  name : Name
  methods : List Name
  deriving DecidableEq, Repr

mutual
inductive MsgD
  | mk (name : Name) (enums : List EnumD) (msgs : MsgL) (exts : List ExtD)
       (fields : List Name) (oneofs : List Name)
inductive MsgL
  | nil
  | cons (m : MsgD) (ms : MsgL)
end

def MsgD.name : MsgD → Name | .mk n _ _ _ _ _ => n
def MsgD.enums : MsgD → List EnumD | .mk _ e _ _ _ _ => e
def MsgD.msgs : MsgD → MsgL | .mk _ _ m _ _ _ => m
def MsgD.exts : MsgD → List ExtD | .mk _ _ _ x _ _ => x
def MsgD.fields : MsgD → List Name | .mk _ _ _ _ f _ => f
def MsgD.oneofs : MsgD → List Name | .mk _ _ _ _ _ o => o

def MsgL.toList : MsgL → List MsgD
  | .nil => []
  | .cons m ms => m :: ms.toList

def MsgL.ofList : List MsgD → MsgL
  | [] => .nil
  | m :: ms => .cons m (MsgL.ofList ms)

/-- `Messages().ByName(name)`: the first message of that name. -/
def MsgL.byName : MsgL → Name → Option MsgD
  | .nil, _ => none
  | .cons m ms, n => if m.name = n then some m else ms.byName n

structure FileD where
  path : String
  pkg : FullName
  enums : List EnumD
  msgs : MsgL
  exts : List ExtD
  svcs : List SvcD

/-- what an enum puts into its *enclosing* scope: itself and its values -/
def EnumD.scope (e : EnumD) : List (Name × Kind) :=
  (e.name, .enum) :: e.values.map (fun v => (v, Kind.enumValue))

/-- the declarations directly inside a message scope, nested messages excepted -/
def leafScope (enums : List EnumD) (exts : List ExtD) (fields oneofs : List Name) : List (Name × Kind) :=
  enums.flatMap EnumD.scope ++ exts.map (fun x => (x.name, Kind.extension)) ++
    fields.map (fun f => (f, Kind.field)) ++ oneofs.map (fun o => (o, Kind.oneof))

/-- every name declared directly in the scope of a message, with its kind -/
def MsgD.scope (m : MsgD) : List (Name × Kind) :=
  leafScope m.enums m.exts m.fields m.oneofs ++ m.msgs.toList.map (fun n => (n.name, Kind.message))

mutual
/-- names are unique inside every message scope (what protodesc.NewFile enforces) -/
def MsgD.wf : MsgD → Bool
  | .mk n e ms x f o => decide (((MsgD.mk n e ms x f o).scope.map (·.1)).Nodup) && ms.wf
def MsgL.wf : MsgL → Bool
  | .nil => true
  | .cons m ms => m.wf && ms.wf
end

/-! ### all declarations of a file, with their full names -/

def enumDecls (scope : FullName) (e : EnumD) : List Desc :=
  ⟨.enum, scope ++ [e.name]⟩ :: e.values.map (fun v => ⟨.enumValue, scope ++ [v]⟩)

mutual
def MsgD.decls (scope : FullName) : MsgD → List Desc
  | .mk n e ms x f o =>
    ⟨.message, scope ++ [n]⟩ ::
      ((leafScope e x f o).map (fun p => ⟨p.2, scope ++ [n] ++ [p.1]⟩) ++ MsgL.decls (scope ++ [n]) ms)
def MsgL.decls (scope : FullName) : MsgL → List Desc
  | .nil => []
  | .cons m ms => m.decls scope ++ ms.decls scope
end

def svcDecls (scope : FullName) (s : SvcD) : List Desc :=
  ⟨.service, scope ++ [s.name]⟩ :: s.methods.map (fun m => ⟨.method, scope ++ [s.name] ++ [m]⟩)

def FileD.decls (f : FileD) : List Desc :=
  f.enums.flatMap (enumDecls f.pkg) ++ f.msgs.decls f.pkg ++
    f.exts.map (fun x => ⟨.extension, f.pkg ++ [x.name]⟩) ++ f.svcs.flatMap (svcDecls f.pkg)

/-! ## Part B: the concrete model of `Files` -/

/-- a value of `descsByName` -/
inductive Entry
  | pkg (files : List FileD)
  | enum (full : FullName)
  | enumValue (full : FullName)
  | message (full : FullName) (m : MsgD)
  | ext (full : FullName)
  | svc (full : FullName) (s : SvcD)

def Entry.isDecl : Entry → Bool
  | .pkg _ => false
  | _ => true

/-- `for name := pkg; name != ""; name = name.Parent()`: the non-empty prefixes, longest first -/
def prefixesAux : Nat → FullName → List FullName
  | 0, _ => []
  | fuel + 1, l => if l = [] then [] else l :: prefixesAux fuel l.dropLast

/-- (the loop runs at most `len(components)` times; the fuel makes the definition structural) -/
def prefixesDesc (l : FullName) : List FullName := prefixesAux l.length l

/-- `rangeTopLevelDescriptors`, as (full name, map value) pairs in the order of the Go loops -/
def topEntries (f : FileD) : List (FullName × Entry) :=
  f.enums.reverse.flatMap (fun e =>
      (f.pkg ++ [e.name], Entry.enum (f.pkg ++ [e.name])) ::
        e.values.reverse.map (fun v => (f.pkg ++ [v], Entry.enumValue (f.pkg ++ [v])))) ++
  f.msgs.toList.reverse.map (fun m => (f.pkg ++ [m.name], Entry.message (f.pkg ++ [m.name]) m)) ++
  f.exts.reverse.map (fun x => (f.pkg ++ [x.name], Entry.ext (f.pkg ++ [x.name]))) ++
  f.svcs.reverse.map (fun s => (f.pkg ++ [s.name], Entry.svc (f.pkg ++ [s.name]) s))

/-- a well-formed file: the full names it puts into the registry's namespace are pairwise distinct,
and names are unique inside every message scope -/
def FileD.wf (f : FileD) : Bool := decide (((topEntries f).map (·.1)).Nodup) && f.msgs.wf

structure Files where
  descs : List (FullName × Entry) := []
  filesByPath : List (String × List FileD) := []
  numFiles : Nat := 0

inductive FRes
  | regOk | errPath | errPkg (n : FullName) | errName (n : FullName) | panic
  | found (d : Desc) | notFound
  | file (f : FileD) | multiple
  | num (n : Nat)
  | files (fs : List FileD)

/-- `if r.descsByName == nil { r.descsByName = map{"": &packageDescriptor{}} }` -/
def initDescs : List (FullName × Entry) → List (FullName × Entry)
  | [] => [([], Entry.pkg [])]
  | D => D

/-- first loop of RegisterFile: the first (longest) package prefix that names a declaration -/
def pkgConflict (D : List (FullName × Entry)) (ps : List FullName) : Option FullName :=
  ps.find? (fun p => match alLookup p D with
    | some e => e.isDecl
    | none => false)

/-- second loop: `hasConflict`/`err` are overwritten, so the *last* conflicting name is reported -/
def nameConflict (D : List (FullName × Entry)) (T : List (FullName × Entry)) : Option FullName :=
  T.foldl (fun acc e => if (alLookup e.1 D).isSome then some e.1 else acc) none

/-- third loop: `if r.descsByName[name] == nil { r.descsByName[name] = &packageDescriptor{} }` -/
def insertPkgs (D : List (FullName × Entry)) (ps : List FullName) : List (FullName × Entry) :=
  ps.foldl (fun D p => if (alLookup p D).isSome then D else alSet p (Entry.pkg []) D) D

def Files.register (r : Files) (f : FileD) : Files × FRes :=
  let D0 := initDescs r.descs
  let r0 : Files := { r with descs := D0 }
  if (alLookup f.path r.filesByPath).getD [] ≠ [] then (r0, .errPath) else
  match pkgConflict D0 (prefixesDesc f.pkg) with
  | some p => (r0, .errPkg p)
  | none =>
  match nameConflict D0 (topEntries f) with
  | some k => (r0, .errName k)
  | none =>
    let D1 := insertPkgs D0 (prefixesDesc f.pkg)
    -- `p := r.descsByName[file.Package()].(*packageDescriptor)` panics unless it is a package
    match alLookup f.pkg D1 with
    | some (.pkg fs) =>
      let D2 := alSet f.pkg (Entry.pkg (fs ++ [f])) D1
      let D3 := setAll D2 (topEntries f)
      ({ descs := D3,
         filesByPath := alSet f.path ((alLookup f.path r.filesByPath).getD [] ++ [f]) r.filesByPath,
         numFiles := r.numFiles + 1 }, .regOk)
    | _ => (r0, .panic)

/-- `nameSuffix.Pop` on the component list (`Pop` of the empty string yields the empty name) -/
def popName : List Name → Name × List Name
  | [] => ("", [])
  | n :: r => (n, r)

/-- `findDescriptorInMessage` with `suffix == ""` after the Pop -/
def leafSearch (m : MsgD) (full : FullName) (name : Name) : Option Desc :=
  if m.enums.any (fun e => e.name = name) then some ⟨.enum, full ++ [name]⟩
  else if m.enums.reverse.any (fun e => name ∈ e.values) then some ⟨.enumValue, full ++ [name]⟩
  else if m.exts.any (fun x => x.name = name) then some ⟨.extension, full ++ [name]⟩
  else if name ∈ m.fields then some ⟨.field, full ++ [name]⟩
  else if name ∈ m.oneofs then some ⟨.oneof, full ++ [name]⟩
  else match m.msgs.byName name with
    | some m' => some ⟨.message, full ++ [m'.name]⟩
    | none => none

/-- `findDescriptorInMessage(md, name + "." + rest)`; `full` is `md.FullName()` -/
def findInMsg : MsgD → FullName → Name → List Name → Option Desc
  | m, full, name, [] => leafSearch m full name
  | m, full, name, n2 :: rest =>
    match m.msgs.byName name with
    | some m' => findInMsg m' (full ++ [m'.name]) n2 rest
    | none => none

/-- the type switch inside the loop of FindDescriptorByName (`none` = `return nil, NotFound`) -/
def resolve (e : Entry) (name : FullName) (suffix : List Name) : Option Desc :=
  match e with
  | .pkg _ => none
  | .enum full => if full = name then some ⟨.enum, full⟩ else none
  | .enumValue full => if full = name then some ⟨.enumValue, full⟩ else none
  | .message full m =>
    if full = name then some ⟨.message, full⟩ else
    match findInMsg m full (popName suffix).1 (popName suffix).2 with
    | some d => if d.full = name then some d else none
    | none => none
  | .ext full => if full = name then some ⟨.extension, full⟩ else none
  | .svc full s =>
    if full = name then some ⟨.service, full⟩ else
    if (popName suffix).1 ∈ s.methods then
      (if full ++ [(popName suffix).1] = name then some ⟨.method, full ++ [(popName suffix).1]⟩ else none)
    else none

/-- the loop `for prefix != ""` over the candidate prefixes, longest first -/
def findLoop (D : List (FullName × Entry)) (name : FullName) : List FullName → Option Desc
  | [] => none
  | p :: ps =>
    match alLookup p D with
    | some e => resolve e name (name.drop p.length)
    | none => findLoop D name ps

def Files.find (r : Files) (name : FullName) : Option Desc :=
  findLoop r.descs name (prefixesDesc name)

def Files.findPath (r : Files) (path : String) : FRes :=
  match (alLookup path r.filesByPath).getD [] with
  | [] => .notFound
  | [f] => .file f
  | _ => .multiple

/-- RangeFiles, in the order of the association list (Go: unspecified order) -/
def Files.rangeFiles (r : Files) : List FileD := r.filesByPath.flatMap (·.2)

def Files.rangeByPkg (r : Files) (n : FullName) : List FileD :=
  match alLookup n r.descs with
  | some (.pkg fs) => fs
  | _ => []

def Files.numByPkg (r : Files) (n : FullName) : Nat := (r.rangeByPkg n).length

inductive FOp
  | register (f : FileD)
  | find (n : FullName)
  | findPath (p : String)
  | numFiles
  | rangeFiles
  | numByPkg (n : FullName)
  | rangeByPkg (n : FullName)

def Files.step (r : Files) : FOp → Files × FRes
  | .register f => r.register f
  | .find n => (r, match r.find n with | some d => .found d | none => .notFound)
  | .findPath p => (r, r.findPath p)
  | .numFiles => (r, .num r.numFiles)
  | .rangeFiles => (r, .files r.rangeFiles)
  | .numByPkg n => (r, .num (r.numByPkg n))
  | .rangeByPkg n => (r, .files (r.rangeByPkg n))

/-- run a history: final state and the result of every call -/
def Files.run (r : Files) : List FOp → Files × List FRes
  | [] => (r, [])
  | op :: ops =>
    let (r', res) := r.step op
    let (r'', ress) := Files.run r' ops
    (r'', res :: ress)

/-! ## Part B': the concrete model of `Types` -/

inductive TKind | message | enum | extension
  deriving DecidableEq, Repr

/-- a registered Go type, as far as the registry looks at it -/
structure TypeD where
  kind : TKind
  full : FullName
  extendee : FullName := []
  number : Nat := 0
  deriving DecidableEq, Repr

structure Types where
  typesByName : List (FullName × TypeD) := []
  extensionsByMessage : List (FullName × List (Nat × TypeD)) := []
  numEnums : Nat := 0
  numMessages : Nat := 0
  numExtensions : Nat := 0

inductive TRes
  | regOk | errName | errExtNum
  | found (t : TypeD) | wrongType | notFound
  | num (n : Nat)
  | types (ts : List TypeD)

/-- `Types.register`: `none` = the name is taken -/
def Types.registerName (r : Types) (t : TypeD) : Option Types :=
  match alLookup t.full r.typesByName with
  | some _ => none
  | none => some { r with typesByName := alSet t.full t r.typesByName }

def Types.registerMessage (r : Types) (full : FullName) : Types × TRes :=
  match r.registerName { kind := .message, full := full } with
  | none => (r, .errName)
  | some r' => ({ r' with numMessages := r'.numMessages + 1 }, .regOk)

def Types.registerEnum (r : Types) (full : FullName) : Types × TRes :=
  match r.registerName { kind := .enum, full := full } with
  | none => (r, .errName)
  | some r' => ({ r' with numEnums := r'.numEnums + 1 }, .regOk)

def Types.registerExtension (r : Types) (full extendee : FullName) (number : Nat) : Types × TRes :=
  let t : TypeD := { kind := .extension, full := full, extendee := extendee, number := number }
  match alLookup number ((alLookup extendee r.extensionsByMessage).getD []) with
  | some _ => (r, .errExtNum)
  | none =>
  match r.registerName t with
  | none => (r, .errName)
  | some r' =>
    ({ r' with
        extensionsByMessage :=
          alSet extendee (alSet number t ((alLookup extendee r'.extensionsByMessage).getD []))
            r'.extensionsByMessage,
        numExtensions := r'.numExtensions + 1 }, .regOk)

/-- FindMessageByName / FindEnumByName / FindExtensionByName (without the protolegacy branch) -/
def Types.findKind (r : Types) (k : TKind) (n : FullName) : TRes :=
  match alLookup n r.typesByName with
  | some t => if t.kind = k then .found t else .wrongType
  | none => .notFound

def nameOfString (s : String) : FullName := if s = "" then [] else s.splitOn "."

/-- the part of a type URL after the last '/' -/
def urlName (url : String) : String :=
  match (url.splitOn "/").getLast? with
  | some s => s
  | none => url

def Types.findMessageByURL (r : Types) (url : String) : TRes :=
  r.findKind .message (nameOfString (urlName url))

def Types.findExtensionByNumber (r : Types) (m : FullName) (n : Nat) : TRes :=
  match alLookup n ((alLookup m r.extensionsByMessage).getD []) with
  | some t => .found t
  | none => .notFound

def Types.rangeKind (r : Types) (k : TKind) : List TypeD :=
  (r.typesByName.map (·.2)).filter (fun t => t.kind = k)

def Types.rangeExtensionsByMessage (r : Types) (m : FullName) : List TypeD :=
  ((alLookup m r.extensionsByMessage).getD []).map (·.2)

inductive TOp
  | regMessage (n : FullName)
  | regEnum (n : FullName)
  | regExtension (n extendee : FullName) (number : Nat)
  | findMessage (n : FullName)
  | findMessageURL (url : String)
  | findEnum (n : FullName)
  | findExtension (n : FullName)
  | findExtensionByNumber (m : FullName) (number : Nat)
  | numMessages | numEnums | numExtensions
  | rangeMessages | rangeEnums | rangeExtensions
  | numExtensionsByMessage (m : FullName)
  | rangeExtensionsByMessage (m : FullName)

def Types.step (r : Types) : TOp → Types × TRes
  | .regMessage n => r.registerMessage n
  | .regEnum n => r.registerEnum n
  | .regExtension n e k => r.registerExtension n e k
  | .findMessage n => (r, r.findKind .message n)
  | .findMessageURL u => (r, r.findMessageByURL u)
  | .findEnum n => (r, r.findKind .enum n)
  | .findExtension n => (r, r.findKind .extension n)
  | .findExtensionByNumber m k => (r, r.findExtensionByNumber m k)
  | .numMessages => (r, .num r.numMessages)
  | .numEnums => (r, .num r.numEnums)
  | .numExtensions => (r, .num r.numExtensions)
  | .rangeMessages => (r, .types (r.rangeKind .message))
  | .rangeEnums => (r, .types (r.rangeKind .enum))
  | .rangeExtensions => (r, .types (r.rangeKind .extension))
  | .numExtensionsByMessage m => (r, .num ((alLookup m r.extensionsByMessage).getD []).length)
  | .rangeExtensionsByMessage m => (r, .types (r.rangeExtensionsByMessage m))

def Types.run (r : Types) : List TOp → Types × List TRes
  | [] => (r, [])
  | op :: ops =>
    let (r', res) := r.step op
    let (r'', ress) := Types.run r' ops
    (r'', res :: ress)

/-! ## Part C: the abstract specification

The abstract state of a `Files` registry is the list `a` of accepted files (registration order).
The *name table* is a view of it: every full name is a declaration of exactly one accepted file,
or a package (a prefix of the package of an accepted file; the root package `[]` always exists),
or free. -/
namespace Spec

/-- full names of the declarations that occupy the registry's flat namespace -/
def declNames (a : List FileD) : List FullName := (a.flatMap topEntries).map (·.1)

/-- non-empty package names in use -/
def pkgNames (a : List FileD) : List FullName := a.flatMap (fun f => prefixesDesc f.pkg)

def paths (a : List FileD) : List String := a.map (·.path)

/-- the name table as a function: what a full name currently denotes -/
def entry (a : List FileD) (k : FullName) : Option Entry :=
  match alLookup k (a.flatMap topEntries) with
  | some e => some e
  | none =>
    if k = [] ∨ k ∈ pkgNames a then some (Entry.pkg (a.filter (fun f => f.pkg = k))) else none

inductive Tag | package | declaration
  deriving DecidableEq, Repr

/-- the name table, tags only -/
def tag (a : List FileD) (k : FullName) : Option Tag :=
  if k ∈ declNames a then some .declaration
  else if k = [] ∨ k ∈ pkgNames a then some .package else none

/-- the three kinds of conflict, declaratively -/
def PathConflict (a : List FileD) (f : FileD) : Prop := f.path ∈ paths a
def PkgConflict (a : List FileD) (f : FileD) : Prop := ∃ p ∈ prefixesDesc f.pkg, p ∈ declNames a
def NameConflict (a : List FileD) (f : FileD) : Prop :=
  ∃ k ∈ (topEntries f).map (·.1), k ∈ declNames a ∨ k ∈ pkgNames a
def NoConflict (a : List FileD) (f : FileD) : Prop :=
  ¬ PathConflict a f ∧ ¬ PkgConflict a f ∧ ¬ NameConflict a f

/-- abstract registration: same classes of error, reported in the order of the three checks -/
def register (a : List FileD) (f : FileD) : List FileD × FRes :=
  if f.path ∈ paths a then (a, .errPath) else
  match (prefixesDesc f.pkg).find? (fun p => decide (p ∈ declNames a)) with
  | some p => (a, .errPkg p)
  | none =>
  match ((topEntries f).map (·.1)).reverse.find? (fun k => decide (k ∈ declNames a ∨ k ∈ pkgNames a)) with
  | some k => (a, .errName k)
  | none => (a ++ [f], .regOk)

/-- abstract lookup: the declaration with that full name among all declarations of accepted files -/
def find (a : List FileD) (n : FullName) : Option Desc :=
  (a.flatMap FileD.decls).find? (fun d => d.full = n)

def findPath (a : List FileD) (p : String) : FRes :=
  match a.find? (fun f => f.path = p) with
  | some f => .file f
  | none => .notFound

def step (a : List FileD) : FOp → List FileD × FRes
  | .register f => register a f
  | .find n => (a, match find a n with | some d => .found d | none => .notFound)
  | .findPath p => (a, findPath a p)
  | .numFiles => (a, .num a.length)
  | .rangeFiles => (a, .files a)
  | .numByPkg n => (a, .num (a.filter (fun f => f.pkg = n)).length)
  | .rangeByPkg n => (a, .files (a.filter (fun f => f.pkg = n)))

def run (a : List FileD) : List FOp → List FileD × List FRes
  | [] => (a, [])
  | op :: ops =>
    let (a', res) := step a op
    let (a'', ress) := run a' ops
    (a'', res :: ress)

/-! ### Types: the abstract state is the list of accepted types -/

def ExtNumConflict (a : List TypeD) (t : TypeD) : Prop :=
  t.kind = .extension ∧ ∃ t' ∈ a, t'.kind = .extension ∧ t'.extendee = t.extendee ∧ t'.number = t.number
def TypeNameConflict (a : List TypeD) (t : TypeD) : Prop := t.full ∈ a.map (·.full)

def extsOf (a : List TypeD) (m : FullName) : List TypeD :=
  a.filter (fun t => t.kind = .extension ∧ t.extendee = m)

def registerT (a : List TypeD) (t : TypeD) : List TypeD × TRes :=
  if t.kind = .extension ∧ t.number ∈ (extsOf a t.extendee).map (·.number) then (a, .errExtNum)
  else if t.full ∈ a.map (·.full) then (a, .errName)
  else (a ++ [t], .regOk)

def findKind (a : List TypeD) (k : TKind) (n : FullName) : TRes :=
  match a.find? (fun t => t.full = n) with
  | some t => if t.kind = k then .found t else .wrongType
  | none => .notFound

def stepT (a : List TypeD) : TOp → List TypeD × TRes
  | .regMessage n => registerT a { kind := .message, full := n }
  | .regEnum n => registerT a { kind := .enum, full := n }
  | .regExtension n e k => registerT a { kind := .extension, full := n, extendee := e, number := k }
  | .findMessage n => (a, findKind a .message n)
  | .findMessageURL u => (a, findKind a .message (nameOfString (urlName u)))
  | .findEnum n => (a, findKind a .enum n)
  | .findExtension n => (a, findKind a .extension n)
  | .findExtensionByNumber m k =>
    (a, match (extsOf a m).find? (fun t => t.number = k) with
        | some t => .found t
        | none => .notFound)
  | .numMessages => (a, .num (a.filter (fun t => t.kind = .message)).length)
  | .numEnums => (a, .num (a.filter (fun t => t.kind = .enum)).length)
  | .numExtensions => (a, .num (a.filter (fun t => t.kind = .extension)).length)
  | .rangeMessages => (a, .types (a.filter (fun t => t.kind = .message)))
  | .rangeEnums => (a, .types (a.filter (fun t => t.kind = .enum)))
  | .rangeExtensions => (a, .types (a.filter (fun t => t.kind = .extension)))
  | .numExtensionsByMessage m => (a, .num (extsOf a m).length)
  | .rangeExtensionsByMessage m => (a, .types (extsOf a m))

def runT (a : List TypeD) : List TOp → List TypeD × List TRes
  | [] => (a, [])
  | op :: ops =>
    let (a', res) := stepT a op
    let (a'', ress) := runT a' ops
    (a'', res :: ress)

end Spec
end Model.Registry
