import PbVerif.Model.WireSpec
/-
Abstract protobuf message model: schemas (possibly cyclic, messages referenced by index),
message values, the binary codec (mirroring proto/encode.go, proto/encode_gen.go,
proto/decode.go, proto/decode_gen.go — the reflection-based "slow path", which is also what
dynamicpb runs), merge, equality, required-field checks.

The table-driven fast path of internal/impl is *not* modelled line by line: C08 is the
property that it is indistinguishable from this model, and it is tied behaviourally.
Core-only (linked into `pbmodel_msg`).
-/
namespace Pb
open Spec (Byte encVarint decVarint encFixed decFixed encTag decTag decBytes zigzagEnc zigzagDec)

inductive Kind where
  | bool | enum | int32 | sint32 | uint32 | int64 | sint64 | uint64
  | sfixed32 | fixed32 | float | sfixed64 | fixed64 | double
  | string | bytes | message | group
  deriving DecidableEq, Repr, Inhabited

/-- cardinality + presence discipline of a field -/
inductive Card where
  | optional   -- singular, explicit presence (proto2 optional, proto3 optional, oneof members, messages)
  | implicit   -- singular, implicit presence (proto3 / editions IMPLICIT scalars)
  | required   -- singular, explicit presence, required
  | repeated
  | map        -- repeated map-entry message; `sub` is the entry message (fields 1 = key, 2 = value)
  deriving DecidableEq, Repr, Inhabited

structure Field where
  num : Nat
  kind : Kind
  card : Card
  packed : Bool := false
  oneof : Option Nat := none   -- index of the containing (non-synthetic) oneof
  sub : Nat := 0               -- message index for kinds message/group (and the entry message of a map)
  utf8 : Bool := false         -- UTF-8 validation enforced (string kind only)
  ext : Bool := false          -- extension field
  dflt : Nat := 0              -- default number (first value) of an enum field; used for absent map values
  deriving Repr, Inhabited

structure MsgD where
  fields : List Field
  deriving Repr, Inhabited

structure Schema where
  msgs : List MsgD
  deriving Repr, Inhabited

def Schema.msg (S : Schema) (i : Nat) : MsgD := S.msgs.getD i ⟨[]⟩

def MsgD.find (d : MsgD) (num : Nat) : Option Field := d.fields.find? (·.num == num)

/-- wire type of a kind (proto/encode_gen.go `wireTypes`) -/
def Kind.wireType : Kind → Nat
  | .bool | .enum | .int32 | .sint32 | .uint32 | .int64 | .sint64 | .uint64 => 0
  | .sfixed32 | .fixed32 | .float => 5
  | .sfixed64 | .fixed64 | .double => 1
  | .string | .bytes | .message => 2
  | .group => 3

def Kind.isNumeric : Kind → Bool
  | .string | .bytes | .message | .group => false
  | _ => true

def Kind.isMessage : Kind → Bool
  | .message | .group => true
  | _ => false

/-! ### values -/

mutual
inductive Val where
  /-- every numeric scalar in canonical 64-bit form: int32/int64/sint*/sfixed*/enum sign-extended
  to 64 bits, uint*/fixed*/bool zero-extended, float = IEEE bits (32), double = IEEE bits (64) -/
  | num (n : Nat)
  | bytes (b : List Byte)
  | msg (m : Msg)
inductive Msg where
  | mk (fs : Fields) (unk : List Byte)
inductive Fields where
  | nil
  | cons (num : Nat) (fv : FVal) (tl : Fields)
inductive FVal where
  | one (v : Val)
  | many (vs : Vals)
inductive Vals where
  | nil
  | cons (v : Val) (tl : Vals)
end

instance : Inhabited Val := ⟨.num 0⟩
instance : Inhabited Msg := ⟨.mk .nil []⟩

def Msg.empty : Msg := .mk .nil []
def Msg.fields : Msg → Fields | .mk fs _ => fs
def Msg.unknown : Msg → List Byte | .mk _ u => u

def Vals.toList : Vals → List Val
  | .nil => []
  | .cons v tl => v :: tl.toList

def Vals.ofList : List Val → Vals
  | [] => .nil
  | v :: tl => .cons v (Vals.ofList tl)

def Vals.append : Vals → Vals → Vals
  | .nil, ys => ys
  | .cons v tl, ys => .cons v (tl.append ys)

def Vals.isNil : Vals → Bool
  | .nil => true
  | _ => false

def Fields.get? : Fields → Nat → Option FVal
  | .nil, _ => none
  | .cons n fv tl, k => if n = k then some fv else tl.get? k

/-- insert or replace, keeping ascending field-number order -/
def Fields.set : Fields → Nat → FVal → Fields
  | .nil, k, fv => .cons k fv .nil
  | .cons n x tl, k, fv =>
    if k < n then .cons k fv (.cons n x tl)
    else if k = n then .cons n fv tl
    else .cons n x (tl.set k fv)

def Fields.erase : Fields → Nat → Fields
  | .nil, _ => .nil
  | .cons n x tl, k => if n = k then tl.erase k else .cons n x (tl.erase k)

def Fields.nums : Fields → List Nat
  | .nil => []
  | .cons n _ tl => n :: tl.nums

/-- remove every member of oneof `o` other than field `keep` -/
def Fields.clearOneof (d : MsgD) (o : Nat) (keep : Nat) : Fields → Fields
  | .nil => .nil
  | .cons n x tl =>
    let rest := Fields.clearOneof d o keep tl
    match d.find n with
    | some f => if f.oneof = some o ∧ n ≠ keep then rest else .cons n x rest
    | none => .cons n x rest

/-! ### scalar canonicalisation (proto/decode_gen.go `unmarshalScalar`) -/

def signExt32 (w : Nat) : Nat :=
  let w := w % 2 ^ 32
  if w ≥ 2 ^ 31 then w + (2 ^ 64 - 2 ^ 32) else w

/-- value stored for a varint field of kind `k` when the wire carries `v` (< 2^64) -/
def canonVarint (k : Kind) (v : Nat) : Nat :=
  match k with
  | .bool => if v = 0 then 0 else 1
  | .enum => signExt32 v            -- EnumNumber(v): int32 conversion
  | .int32 => signExt32 v
  | .sint32 => signExt32 (zigzagDec (v % 2 ^ 32))
  | .uint32 => v % 2 ^ 32
  | .int64 => v
  | .sint64 => zigzagDec v
  | .uint64 => v
  | _ => v

/-- wire varint written for a stored canonical value (proto/encode_gen.go `marshalSingular`) -/
def wireVarint (k : Kind) (n : Nat) : Nat :=
  match k with
  | .sint32 => zigzagEnc (signExt32 n)
  | .sint64 => zigzagEnc n
  | _ => n

def canonFixed32 (k : Kind) (v : Nat) : Nat :=
  match k with
  | .sfixed32 => signExt32 v
  | _ => v % 2 ^ 32

/-- is the stored scalar the zero value (implicit presence ⇒ not populated)?
floats: `v != 0 || Signbit(v)` is "populated", i.e. only the all-zero bit pattern is zero -/
def Val.isZero : Val → Bool
  | .num n => n == 0
  | .bytes b => b.isEmpty
  | .msg _ => false

/-! ### UTF-8 (Go's utf8.Valid) -/

def utf8ValidAux : Nat → List Byte → Bool
  | 0, _ => false
  | _, [] => true
  | fuel + 1, x :: r =>
    let a := x.toNat
    if a < 0x80 then utf8ValidAux fuel r
    else if a < 0xC2 then false
    else if a < 0xE0 then
      match r with
      | b :: r' => (0x80 ≤ b.toNat && b.toNat ≤ 0xBF) && utf8ValidAux fuel r'
      | _ => false
    else if a < 0xF0 then
      match r with
      | b :: c :: r' =>
        let lo := if a = 0xE0 then 0xA0 else 0x80
        let hi := if a = 0xED then 0x9F else 0xBF
        (lo ≤ b.toNat && b.toNat ≤ hi) && (0x80 ≤ c.toNat && c.toNat ≤ 0xBF) && utf8ValidAux fuel r'
      | _ => false
    else if a < 0xF5 then
      match r with
      | b :: c :: d :: r' =>
        let lo := if a = 0xF0 then 0x90 else 0x80
        let hi := if a = 0xF4 then 0x8F else 0xBF
        (lo ≤ b.toNat && b.toNat ≤ hi) && (0x80 ≤ c.toNat && c.toNat ≤ 0xBF) &&
          (0x80 ≤ d.toNat && d.toNat ≤ 0xBF) && utf8ValidAux fuel r'
      | _ => false
    else false

def utf8Valid (b : List Byte) : Bool := utf8ValidAux (b.length + 1) b

/-! ### encoding (marshalMessageSlow in stored field order; `encodeDet` sorts first) -/

def tagBytes (num typ : Nat) : List Byte := encVarint (encTag num typ)

/-- payload of a non-message scalar (without tag) -/
def encScalar (k : Kind) : Val → List Byte
  | .num n =>
    match k.wireType with
    | 0 => encVarint (wireVarint k n)
    | 5 => encFixed 4 (n % 2 ^ 32)
    | 1 => encFixed 8 n
    | _ => []
  | .bytes b => encVarint b.length ++ b
  | .msg _ => []

mutual
/-- message body -/
def encMsg (S : Schema) (mi : Nat) : Msg → List Byte
  | .mk fs unk => encFields S (S.msg mi) fs ++ unk
def encFields (S : Schema) (d : MsgD) : Fields → List Byte
  | .nil => []
  | .cons num fv tl =>
    (match d.find num with
     | some f => encFVal S f fv
     | none => []) ++ encFields S d tl
def encFVal (S : Schema) (f : Field) : FVal → List Byte
  | .one v => encVal S f v
  | .many vs =>
    if f.packed && f.kind.isNumeric && !vs.isNil then
      let body := encPacked f.kind vs
      tagBytes f.num 2 ++ encVarint body.length ++ body
    else encVals S f vs
/-- one record (tag + value) of field `f` -/
def encVal (S : Schema) (f : Field) : Val → List Byte
  | .msg m =>
    let body := encMsg S f.sub m
    if f.kind = .group then tagBytes f.num 3 ++ body ++ tagBytes f.num 4
    else tagBytes f.num 2 ++ encVarint body.length ++ body
  | v => tagBytes f.num f.kind.wireType ++ encScalar f.kind v
def encVals (S : Schema) (f : Field) : Vals → List Byte
  | .nil => []
  | .cons v tl => encVal S f v ++ encVals S f tl
def encPacked (k : Kind) : Vals → List Byte
  | .nil => []
  | .cons v tl => encScalar k v ++ encPacked k tl
end

/-- `proto.Size`: computed without building bytes (proto/size.go, size_gen.go) -/
def sizeScalar (k : Kind) : Val → Nat
  | .num n =>
    match k.wireType with
    | 0 => Spec.sizeVarint (wireVarint k n)
    | 5 => 4
    | 1 => 8
    | _ => 0
  | .bytes b => Spec.sizeVarint b.length + b.length
  | .msg _ => 0

def sizeTag (num : Nat) : Nat := Spec.sizeVarint (encTag num 0)

mutual
def sizeMsg (S : Schema) (mi : Nat) : Msg → Nat
  | .mk fs unk => sizeFields S (S.msg mi) fs + unk.length
def sizeFields (S : Schema) (d : MsgD) : Fields → Nat
  | .nil => 0
  | .cons num fv tl =>
    (match d.find num with
     | some f => sizeFVal S f fv
     | none => 0) + sizeFields S d tl
def sizeFVal (S : Schema) (f : Field) : FVal → Nat
  | .one v => sizeVal S f v
  | .many vs =>
    if f.packed && f.kind.isNumeric && !vs.isNil then
      let n := sizePacked f.kind vs
      sizeTag f.num + Spec.sizeVarint n + n
    else sizeVals S f vs
def sizeVal (S : Schema) (f : Field) : Val → Nat
  | .msg m =>
    let n := sizeMsg S f.sub m
    if f.kind = .group then 2 * sizeTag f.num + n
    else sizeTag f.num + Spec.sizeVarint n + n
  | v => sizeTag f.num + sizeScalar f.kind v
def sizeVals (S : Schema) (f : Field) : Vals → Nat
  | .nil => 0
  | .cons v tl => sizeVal S f v + sizeVals S f tl
def sizePacked (k : Kind) : Vals → Nat
  | .nil => 0
  | .cons v tl => sizeScalar k v + sizePacked k tl
end

/-! marshal refuses invalid UTF-8 in enforced string fields -/
mutual
def badUtf8Msg (S : Schema) (mi : Nat) : Msg → Bool
  | .mk fs _ => badUtf8Fields S (S.msg mi) fs
def badUtf8Fields (S : Schema) (d : MsgD) : Fields → Bool
  | .nil => false
  | .cons num fv tl =>
    (match d.find num with
     | some f => badUtf8FVal S f fv
     | none => false) || badUtf8Fields S d tl
def badUtf8FVal (S : Schema) (f : Field) : FVal → Bool
  | .one v => badUtf8Val S f v
  | .many vs => badUtf8Vals S f vs
def badUtf8Val (S : Schema) (f : Field) : Val → Bool
  | .msg m => badUtf8Msg S f.sub m
  | .bytes b => f.kind = .string && f.utf8 && !utf8Valid b
  | .num _ => false
def badUtf8Vals (S : Schema) (f : Field) : Vals → Bool
  | .nil => false
  | .cons v tl => badUtf8Val S f v || badUtf8Vals S f tl
end

/-! ### decoding (unmarshalMessageSlow) -/

inductive DErr where
  | decode   -- errDecode: malformed wire data
  | depth    -- errRecursionDepth
  | utf8     -- invalid UTF-8 in an enforced string field
  | fuel     -- model artefact: out of fuel (unreachable with `fuelFor`)
  deriving DecidableEq, Repr

/-- outcome of interpreting one record against a field -/
inductive Step where
  | ok (m : Msg)
  | unknown          -- errUnknown: keep the raw record in the unknown fields
  | err (e : DErr)

def maxValidNumber : Nat := 536870911

/-- decode one scalar payload of kind `k` that arrived with wire type `wt`; `val` = bytes after the tag.
Returns none for errUnknown (wire type mismatch). -/
def decScalar (f : Field) (wt : Nat) (val : List Byte) : Option (Except DErr Val) :=
  if wt ≠ f.kind.wireType then none
  else match f.kind.wireType with
    | 0 => match decVarint val with
      | .ok (v, _) => some (.ok (.num (canonVarint f.kind v)))
      | .error _ => some (.error .decode)
    | 5 => match decFixed 4 val with
      | .ok (v, _) => some (.ok (.num (canonFixed32 f.kind v)))
      | .error _ => some (.error .decode)
    | 1 => match decFixed 8 val with
      | .ok (v, _) => some (.ok (.num v))
      | .error _ => some (.error .decode)
    | 2 => match decBytes val with
      | .ok (p, _) =>
        if f.kind = .string && f.utf8 && !utf8Valid p then some (.error .utf8)
        else some (.ok (.bytes p))
      | .error _ => some (.error .decode)
    | _ => none

/-- elements of a packed payload -/
def decPacked (k : Kind) : Nat → List Byte → Except DErr Vals
  | 0, _ => .error .fuel
  | _, [] => .ok .nil
  | fuel + 1, b =>
    match k.wireType with
    | 0 => match decVarint b with
      | .ok (v, n) => (decPacked k fuel (b.drop n)).map (Vals.cons (.num (canonVarint k v)))
      | .error _ => .error .decode
    | 5 => match decFixed 4 b with
      | .ok (v, n) => (decPacked k fuel (b.drop n)).map (Vals.cons (.num (canonFixed32 k v)))
      | .error _ => .error .decode
    | 1 => match decFixed 8 b with
      | .ok (v, n) => (decPacked k fuel (b.drop n)).map (Vals.cons (.num v))
      | .error _ => .error .decode
    | _ => .error .decode

/-- `m.Set(fd, v)` for a singular non-message field, with implicit-presence and oneof rules -/
def setSingular (d : MsgD) (f : Field) (fs : Fields) (v : Val) : Fields :=
  let fs := match f.oneof with
    | some o => Fields.clearOneof d o f.num fs
    | none => fs
  if f.card = .implicit && v.isZero then fs.erase f.num else fs.set f.num (.one v)

def appendList (fs : Fields) (num : Nat) (vs : Vals) : Fields :=
  if vs.isNil then fs else
  match fs.get? num with
  | some (.many old) => fs.set num (.many (old.append vs))
  | _ => fs.set num (.many vs)

/-- key of a map entry message (field 1) -/
def entryKey : Msg → Option Val
  | .mk fs _ => match fs.get? 1 with
    | some (.one v) => some v
    | _ => none

def valBEq : Val → Val → Bool
  | .num a, .num b => a == b
  | .bytes a, .bytes b => a == b
  | _, _ => false

/-- `mapv.Set(key, val)`: replace the entry with the same key, else append -/
def mapPut : Vals → Val → Msg → Vals
  | .nil, _, e => .cons (.msg e) .nil
  | .cons (.msg old) tl, k, e =>
    match entryKey old with
    | some k' => if valBEq k k' then .cons (.msg e) tl else .cons (.msg old) (mapPut tl k e)
    | none => .cons (.msg old) (mapPut tl k e)
  | .cons v tl, k, e => .cons v (mapPut tl k e)

def defaultScalar (f : Field) : Val :=
  match f.kind with
  | .string | .bytes => .bytes []
  | .enum => .num f.dflt
  | _ => .num 0

def fuelFor (b : List Byte) : Nat := b.length + 2

/-- payload bytes of a message (length-delimited) or group field; none = errUnknown -/
def decSubBytes (f : Field) (wt : Nat) (val : List Byte) : Option (Except DErr (List Byte)) :=
  if f.kind = .group then
    if wt ≠ 3 then none
    else match Spec.consumeGroup f.num val with
      | .ok (p, _) => some (.ok p)
      | .error _ => some (.error .decode)
  else
    if wt ≠ 2 then none
    else match decBytes val with
      | .ok (p, _) => some (.ok p)
      | .error _ => some (.error .decode)

mutual
/-- `unmarshalMessageSlow` into `m` (merge semantics); `depth` is `o.RecursionLimit` *after* the
decrement done by `unmarshal` for this message -/
def decMsg : Nat → Schema → Nat → Msg → List Byte → Int → Bool → Except DErr Msg
  | 0, _, _, _, _, _, _ => .error .fuel
  | fuel + 1, S, mi, m, b, depth, discard =>
    match b with
    | [] => .ok m
    | _ =>
      match decTag b with
      | .error _ => .error .decode
      | .ok (num, wt, tagLen) =>
        if num > maxValidNumber then .error .decode else
        let val := b.drop tagLen
        let step : Step :=
          match (S.msg mi).find num with
          | none => .unknown
          | some f => decField fuel S mi m f wt val depth discard
        match step with
        | .err e => .error e
        | .ok m' =>
          -- the value length is that of the wire-level field value
          match Spec.consumeFieldValue num wt val with
          | .error _ => .error .decode
          | .ok n => decMsg fuel S mi m' (val.drop n) depth discard
        | .unknown =>
          match Spec.consumeFieldValue num wt val with
          | .error _ => .error .decode
          | .ok n =>
            let m' := if discard then m else Msg.mk m.fields (m.unknown ++ b.take (tagLen + n))
            decMsg fuel S mi m' (val.drop n) depth discard
/-- one known field -/
def decField : Nat → Schema → Nat → Msg → Field → Nat → List Byte → Int → Bool → Step
  | 0, _, _, _, _, _, _, _, _ => .err .fuel
  | fuel + 1, S, mi, m, f, wt, val, depth, discard =>
    let d := S.msg mi
    match f.card with
    | .repeated =>
      if f.kind.isMessage then
        match decSubBytes f wt val with
        | none => .unknown
        | some (.error e) => .err e
        | some (.ok p) =>
          if depth - 1 < 0 then .err .depth else
          match decMsg fuel S f.sub Msg.empty p (depth - 1) discard with
          | .error e => .err e
          | .ok sub => .ok (.mk (appendList m.fields f.num (.cons (.msg sub) .nil)) m.unknown)
      else if f.kind.isNumeric && wt = 2 then
        match decBytes val with
        | .error _ => .err .decode
        | .ok (p, _) =>
          match decPacked f.kind (p.length + 1) p with
          | .error e => .err e
          | .ok vs => .ok (.mk (appendList m.fields f.num vs) m.unknown)
      else
        match decScalar f wt val with
        | none => .unknown
        | some (.error e) => .err e
        | some (.ok v) => .ok (.mk (appendList m.fields f.num (.cons v .nil)) m.unknown)
    | .map =>
      -- unmarshalMap: the limit is decremented before anything else
      if depth - 1 < 0 then .err .depth
      else if wt ≠ 2 then .unknown
      else match decBytes val with
        | .error _ => .err .decode
        | .ok (p, _) =>
          let ed := S.msg f.sub
          match ed.find 1, ed.find 2 with
          | some kf, some vf =>
            let val0 : Option Val := if vf.kind.isMessage then some (.msg Msg.empty) else none
            match decEntry fuel S kf vf none val0 p (depth - 1) discard with
            | .error e => .err e
            | .ok (k, v) =>
              let key := k.getD (defaultScalar kf)
              let value := v.getD (defaultScalar vf)
              let entry := Msg.mk (.cons 1 (.one key) (.cons 2 (.one value) .nil)) []
              let old := match m.fields.get? f.num with
                | some (.many vs) => vs
                | _ => .nil
              .ok (.mk (m.fields.set f.num (.many (mapPut old key entry))) m.unknown)
          | _, _ => .err .decode
    | _ =>  -- singular
      if f.kind.isMessage then
        match decSubBytes f wt val with
        | none => .unknown
        | some (.error e) => .err e
        | some (.ok p) =>
          -- m.Mutable(fd): the existing submessage, or a new one (clearing other oneof members)
          let fs0 := match f.oneof with
            | some o => Fields.clearOneof d o f.num m.fields
            | none => m.fields
          let cur : Msg := match fs0.get? f.num with
            | some (.one (.msg x)) => x
            | _ => Msg.empty
          if depth - 1 < 0 then
            -- Mutable has already materialised the (empty) submessage; the error aborts the decode
            .err .depth
          else match decMsg fuel S f.sub cur p (depth - 1) discard with
            | .error e => .err e
            | .ok sub => .ok (.mk (fs0.set f.num (.one (.msg sub))) m.unknown)
      else
        match decScalar f wt val with
        | none => .unknown
        | some (.error e) => .err e
        | some (.ok v) => .ok (.mk (setSingular d f m.fields v) m.unknown)
/-- the record loop of `unmarshalMap` over the entry payload; returns the last key and the value -/
def decEntry : Nat → Schema → Field → Field → Option Val → Option Val → List Byte → Int → Bool →
    Except DErr (Option Val × Option Val)
  | 0, _, _, _, _, _, _, _, _ => .error .fuel
  | fuel + 1, S, kf, vf, k, v, b, depth, discard =>
    match b with
    | [] => .ok (k, if vf.kind.isMessage then v else v)
    | _ =>
      match decTag b with
      | .error _ => .error .decode
      | .ok (num, wt, tagLen) =>
        if num > maxValidNumber then .error .decode else
        let val := b.drop tagLen
        -- every record is framed by the wire-level field value, known or not
        let next (k v : Option Val) : Except DErr (Option Val × Option Val) :=
          match Spec.consumeFieldValue num wt val with
          | .error _ => .error .decode
          | .ok n => decEntry fuel S kf vf k v (val.drop n) depth discard
        if num = 1 then
          match decScalar kf wt val with
          | none => next k v
          | some (.error e) => .error e
          | some (.ok kv) => next (some kv) v
        else if num = 2 then
          if vf.kind.isMessage then
            match decSubBytes vf wt val with
            | none => next k v
            | some (.error e) => .error e
            | some (.ok p) =>
              let cur : Msg := match v with
                | some (.msg x) => x
                | _ => Msg.empty
              if depth - 1 < 0 then .error .depth else
              match decMsg fuel S vf.sub cur p (depth - 1) discard with
              | .error e => .error e
              | .ok sub => next k (some (.msg sub))
          else
            match decScalar vf wt val with
            | none => next k v
            | some (.error e) => .error e
            | some (.ok vv) => next k (some vv)
        else next k v
end

/-- `proto.UnmarshalOptions{RecursionLimit: limit, Merge: true}.Unmarshal(b, m)` (AllowPartial) -/
def unmarshalInto (S : Schema) (mi : Nat) (m : Msg) (b : List Byte) (limit : Int) (discard : Bool) : Except DErr Msg :=
  if limit - 1 < 0 then .error .depth
  else decMsg (fuelFor b) S mi m b (limit - 1) discard

def unmarshal (S : Schema) (mi : Nat) (b : List Byte) (limit : Int := 10000) (discard : Bool := false) : Except DErr Msg :=
  unmarshalInto S mi Msg.empty b limit discard

/-! ### merge (proto/merge.go) -/

mutual
def mergeMsg (S : Schema) (mi : Nat) (dst : Msg) (src : Msg) : Msg :=
  match dst, src with
  | .mk dfs dunk, .mk sfs sunk => .mk (mergeFields S (S.msg mi) dfs sfs) (dunk ++ sunk)
termination_by structural src
/-- fold the populated fields of the source into the destination field list -/
def mergeFields (S : Schema) (d : MsgD) (dst : Fields) (src : Fields) : Fields :=
  match src with
  | .nil => dst
  | .cons num fv tl =>
    let dst' := match d.find num with
      | none => dst
      | some f => mergeFVal S d f dst fv
    mergeFields S d dst' tl
termination_by structural src
def mergeFVal (S : Schema) (d : MsgD) (f : Field) (dst : Fields) (src : FVal) : Fields :=
  match src with
  | .many vs =>
    if f.card = .map then
      let old := match dst.get? f.num with
        | some (.many o) => o
        | _ => .nil
      let merged := mergeMapVals S f.sub old vs
      if merged.isNil then dst else dst.set f.num (.many merged)
    else appendList dst f.num (cloneVals S f vs)
  | .one v => mergeVal S d f dst v
termination_by structural src
def mergeVal (S : Schema) (d : MsgD) (f : Field) (dst : Fields) (src : Val) : Fields :=
  match src with
  | .msg sm =>
    let fs0 := match f.oneof with
      | some o => Fields.clearOneof d o f.num dst
      | none => dst
    let cur : Msg := match fs0.get? f.num with
      | some (.one (.msg x)) => x
      | _ => Msg.empty
    fs0.set f.num (.one (.msg (mergeMsg S f.sub cur sm)))
  | v => setSingular d f dst v
termination_by structural src
/-- deep copy of list elements (message elements are merged into fresh messages) -/
def cloneVals (S : Schema) (f : Field) (src : Vals) : Vals :=
  match src with
  | .nil => .nil
  | .cons v tl => .cons (cloneVal S f v) (cloneVals S f tl)
termination_by structural src
def cloneVal (S : Schema) (f : Field) (src : Val) : Val :=
  match src with
  | .msg m => .msg (mergeMsg S f.sub Msg.empty m)
  | v => v
termination_by structural src
/-- map merge: every source entry replaces the destination entry with that key; the entry
(key and value) is deep-copied as a message of the entry type `ei` -/
def mergeMapVals (S : Schema) (ei : Nat) (dst : Vals) (src : Vals) : Vals :=
  match src with
  | .nil => dst
  | .cons v tl => mergeMapVals S ei (mergeMapVal S ei dst v) tl
termination_by structural src
def mergeMapVal (S : Schema) (ei : Nat) (dst : Vals) (src : Val) : Vals :=
  match src with
  | .msg e =>
    match entryKey e with
    | some k => mapPut dst k (mergeMsg S ei Msg.empty e)
    | none => dst
  | _ => dst
termination_by structural src
end

def clone (S : Schema) (mi : Nat) (m : Msg) : Msg := mergeMsg S mi Msg.empty m

/-! ### required fields (proto/checkinit.go `checkInitializedSlow`) -/

mutual
def initMsg (S : Schema) (mi : Nat) : Msg → Bool
  | .mk fs _ =>
    let d := S.msg mi
    (d.fields.all fun f => f.card ≠ .required || (fs.get? f.num).isSome) && initFields S d fs
def initFields (S : Schema) (d : MsgD) : Fields → Bool
  | .nil => true
  | .cons num fv tl =>
    (match d.find num with
     | some f => initFVal S f fv
     | none => true) && initFields S d tl
def initFVal (S : Schema) (f : Field) : FVal → Bool
  | .one v => initVal S f v
  | .many vs => initVals S f vs
def initVal (S : Schema) (f : Field) : Val → Bool
  | .msg m => initMsg S f.sub m
  | _ => true
def initVals (S : Schema) (f : Field) : Vals → Bool
  | .nil => true
  | .cons v tl => initVal S f v && initVals S f tl
end

/-! ### equality (proto.Equal / protoreflect.Value.Equal) -/

def isNaN32 (n : Nat) : Bool := (n / 2 ^ 23) % 256 == 255 && n % 2 ^ 23 != 0
def isNaN64 (n : Nat) : Bool := (n / 2 ^ 52) % 2048 == 2047 && n % 2 ^ 52 != 0

def numEq (k : Kind) (a b : Nat) : Bool :=
  match k with
  | .float => (isNaN32 a && isNaN32 b) || (!isNaN32 a && !isNaN32 b && (a == b || (a % 2 ^ 31 == 0 && b % 2 ^ 31 == 0)))
  | .double => (isNaN64 a && isNaN64 b) || (!isNaN64 a && !isNaN64 b && (a == b || (a % 2 ^ 63 == 0 && b % 2 ^ 63 == 0)))
  | _ => a == b

/-- split raw unknown bytes into records `(number, raw bytes incl. tag)`; none if malformed -/
def splitUnknown : Nat → List Byte → Option (List (Nat × List Byte))
  | 0, _ => none
  | _, [] => some []
  | fuel + 1, b =>
    match Spec.consumeField b with
    | .ok (num, _, n) =>
      if n = 0 then none else
      (splitUnknown fuel (b.drop n)).map fun r => (num, b.take n) :: r
    | .error _ => none

def unknownOf (num : Nat) (rs : List (Nat × List Byte)) : List Byte :=
  (rs.filter (·.1 == num)).foldr (fun r acc => r.2 ++ acc) []

/-- equalUnknown: byte-equal, or equal per field number -/
def unknownEq (x y : List Byte) : Bool :=
  if x.length ≠ y.length then false
  else if x == y then true
  else match splitUnknown (x.length + 1) x, splitUnknown (y.length + 1) y with
    | some rx, some ry =>
      let nums := (rx.map (·.1) ++ ry.map (·.1)).eraseDups
      nums.all fun n => unknownOf n rx == unknownOf n ry
    | _, _ => false

def lookupEntry : Vals → Val → Option Msg
  | .nil, _ => none
  | .cons (.msg e) tl, k =>
    match entryKey e with
    | some k' => if valBEq k k' then some e else lookupEntry tl k
    | none => lookupEntry tl k
  | .cons _ tl, k => lookupEntry tl k

mutual
def eqMsg (S : Schema) (mi : Nat) (x y : Msg) : Bool :=
  match x, y with
  | .mk xs xu, .mk ys yu =>
    eqFields S (S.msg mi) xs ys && xs.nums.length == ys.nums.length && unknownEq xu yu
termination_by structural x
/-- every field of `xs` is populated in `ys` with an equal value -/
def eqFields (S : Schema) (d : MsgD) (xs ys : Fields) : Bool :=
  match xs with
  | .nil => true
  | .cons num fv tl =>
    (match d.find num, ys.get? num with
     | some f, some fy => eqFVal S f fv fy
     | _, _ => false) && eqFields S d tl ys
termination_by structural xs
def eqFVal (S : Schema) (f : Field) (x y : FVal) : Bool :=
  match x, y with
  | .one a, .one b => eqVal S f a b
  | .many as, .many bs =>
    if f.card = .map then
      eqMapVals S f.sub as bs && as.toList.length == bs.toList.length
    else eqVals S f as bs
  | _, _ => false
termination_by structural x
def eqVal (S : Schema) (f : Field) (x y : Val) : Bool :=
  match x, y with
  | .num a, .num b => numEq f.kind a b
  | .bytes a, .bytes b => a == b
  | .msg a, .msg b => eqMsg S f.sub a b
  | _, _ => false
termination_by structural x
def eqVals (S : Schema) (f : Field) (xs ys : Vals) : Bool :=
  match xs, ys with
  | .nil, .nil => true
  | .cons a as, .cons b bs => eqVal S f a b && eqVals S f as bs
  | _, _ => false
termination_by structural xs
/-- every entry of `xs` has an equal entry (same key, equal value) in `ys`;
entries are compared as messages of the entry type `ei` -/
def eqMapVals (S : Schema) (ei : Nat) (xs ys : Vals) : Bool :=
  match xs with
  | .nil => true
  | .cons v tl => eqMapVal S ei v ys && eqMapVals S ei tl ys
termination_by structural xs
def eqMapVal (S : Schema) (ei : Nat) (x : Val) (ys : Vals) : Bool :=
  match x with
  | .msg e =>
    (match entryKey e with
     | some k =>
       match lookupEntry ys k with
       | some ey => eqMsg S ei e ey
       | none => false
     | none => false)
  | _ => true
termination_by structural x
end

end Pb
