import PbVerif.Gen.Wire
/-
Hand-written model of the looping part of encoding/protowire/wire.go (`consumeFieldValueD`,
`ConsumeField`, `ConsumeGroup`), built on top of the *translated* leaf functions of
`Gen.Wire`.  Tied to the Go code by the `wire` correspondence harness (T3).

Results: `none` = the Go code would panic (or the fuel ran out — excluded by `fuel_enough`
theorems); lengths/error codes are Go `int`s rendered as `Int`.
-/
namespace Model.Wire
open Gen.Wire
abbrev Byte := BitVec 8

/-- `b[n:]` for a non-negative Go int `n` given as `Int`. -/
def dropInt (b : List Byte) (n : Int) : Option (List Byte) :=
  if 0 ≤ n ∧ n.toNat ≤ b.length then some (b.drop n.toNat) else none

mutual
/-- `consumeFieldValueD num typ b depth` -/
def fieldValue : Nat → BitVec 32 → BitVec 8 → List Byte → Int → Option Int
  | 0, _, _, _, _ => none
  | fuel+1, num, typ, b, depth =>
    if typ = 0#8 then (consumeVarint b).map (·.2.toInt)
    else if typ = 5#8 then (consumeFixed32 b).map (·.2.toInt)
    else if typ = 1#8 then (consumeFixed64 b).map (·.2.toInt)
    else if typ = 2#8 then (consumeBytes b).map (·.2.toInt)
    else if typ = 3#8 then
      if depth < 0 then some errCodeRecursionDepth
      else groupLoop fuel num b depth b.length
    else if typ = 4#8 then some errCodeEndGroup
    else some errCodeReserved
/-- the `for` loop of the `StartGroupType` case; `n0` is `len(b)` at loop entry -/
def groupLoop : Nat → BitVec 32 → List Byte → Int → Nat → Option Int
  | 0, _, _, _, _ => none
  | fuel+1, num, b, depth, n0 =>
    (consumeTag b).bind fun (num2, typ2, n) =>
    if n.toInt < 0 then some n.toInt
    else (dropInt b n.toInt).bind fun b1 =>
      if typ2 = 4#8 then
        if num ≠ num2 then some errCodeEndGroup else some ((n0 : Int) - b1.length)
      else (fieldValue fuel num2 typ2 b1 (depth - 1)).bind fun m =>
        if m < 0 then some m
        else (dropInt b1 m).bind fun b2 => groupLoop fuel num b2 depth n0
end

/-- fuel that always suffices: every loop iteration and every recursive call consumes a tag byte -/
def fuelFor (b : List Byte) : Nat := 2 * b.length + 2

def consumeFieldValue (num : BitVec 32) (typ : BitVec 8) (b : List Byte) : Option Int :=
  fieldValue (fuelFor b) num typ b defaultRecursionLimit

def consumeFieldValueDepth (num : BitVec 32) (typ : BitVec 8) (b : List Byte) (depth : Int) : Option Int :=
  fieldValue (fuelFor b) num typ b depth

/-- `ConsumeField` -/
def consumeField (b : List Byte) : Option (BitVec 32 × BitVec 8 × Int) :=
  (consumeTag b).bind fun (num, typ, n) =>
  if n.toInt < 0 then some (0#32, 0#8, n.toInt)
  else (dropInt b n.toInt).bind fun b1 =>
    (consumeFieldValue num typ b1).bind fun m =>
    if m < 0 then some (0#32, 0#8, m) else some (num, typ, n.toInt + m)

/-- the trailing-zero stripping loop of `ConsumeGroup` -/
def stripZeros7 (b : List Byte) : List Byte :=
  (b.reverse.dropWhile (fun x => x &&& 0x7f#8 == 0#8)).reverse

/-- `ConsumeGroup` -/
def consumeGroup (num : BitVec 32) (b : List Byte) : Option (List Byte × Int) :=
  (consumeFieldValue num 3#8 b).bind fun n =>
  if n < 0 then some ([], n)
  else if n.toNat ≤ b.length then
    let b1 := stripZeros7 (b.take n.toNat)
    let st := (sizeTag num).toInt
    if 0 ≤ (b1.length : Int) - st ∧ st ≥ 0 then some (b1.take (b1.length - st.toNat), n) else none
  else none

end Model.Wire
