/-
Model of the hand-written part of /repo/types/known/fieldmaskpb/field_mask.pb.go
(generator text: /repo/cmd/protoc-gen-go/internal_gengo/well_known_types.go).  Core Lean only.

A Go `string` is a `List (BitVec 8)` (its bytes).  Each definition mirrors the Go function of the
same name, as coded (not an idealised spec):

  lessPath        byte loop; at the first differing index compares `(x[i]-'.') < (y[i]-'.')` with byte
                  wrap-around; otherwise `len(x) < len(y)`
  hasPathPrefix   `strings.HasPrefix(path, prefix) && (len(path) == len(prefix) || path[len(prefix)] == '.')`
  normalizePaths  `sort.Slice(paths, lessPath)`, then the in-place loop that skips a path when it has the
                  last *kept* path as a path-prefix
  Union           concatenate all inputs, normalizePaths
  Intersect       out := Union(...); out = intersect(out, m) for every input; normalizePaths(out), where
                  intersect normalizes both sides and runs the two-index loop with the four-way switch
  numValidPaths   rangeFields (= walk over strings.Split(path, ".")) with the closure that looks the field
                  up by name, applies the group-like rule (TextName), moves to fd.Message() and forbids a continuation
                  after a list or map field
  New/Append/IsValid  as coded on top of numValidPaths

`sort.Slice` is not stable and its algorithm is unspecified; the model uses `List.mergeSort` with
`le x y := !lessPath y x`.  Props/C44 proves that lessPath is a strict total order, hence the sorted
result is unique (`C44.sort_unique`), so any correct sort gives the same list.
-/
namespace Model.FieldMask

abbrev Byte := BitVec 8
abbrev Path := List Byte

/-- `'.'` -/
def dot : Byte := 46#8

/-- Go `lessPath(x, y)`. -/
def lessPath : Path → Path → Bool
  | [], [] => false            -- len(x) < len(y)
  | [], _ :: _ => true
  | _ :: _, [] => false
  | a :: x, b :: y =>
    if a != b then (a - dot).ult (b - dot)   -- byte arithmetic wraps modulo 256
    else lessPath x y

/-- Go `hasPathPrefix(path, prefix)`.  The index `path[len(prefix)]` cannot panic because it is
evaluated only when `prefix` is a proper string prefix of `path`; `[·]?` keeps that explicit. -/
def hasPathPrefix (path pre : Path) : Bool :=
  pre.isPrefixOf path && (path.length == pre.length || path[pre.length]? == some dot)

/-- comparator handed to the sort: "not greater" -/
def lePath (x y : Path) : Bool := !lessPath y x

/-- `sort.Slice(paths, func(i, j) bool { return lessPath(paths[i], paths[j]) })` -/
def sortPaths (ps : List Path) : List Path := ps.mergeSort lePath

/-- the loop of `normalizePaths` after sorting:
```
out := paths[:0]
for _, path := range paths {
    if len(out) > 0 && hasPathPrefix(path, out[len(out)-1]) { continue }
    out = append(out, path)
}
```
(`out` aliases `paths`, but the write index never passes the read index, so no unread element is
overwritten.) -/
def elide (out : List Path) : List Path → List Path
  | [] => out
  | path :: rest =>
    match out.getLast? with
    | some l => if hasPathPrefix path l then elide out rest else elide (out ++ [path]) rest
    | none => elide (out ++ [path]) rest

/-- Go `normalizePaths`. -/
def normalizePaths (ps : List Path) : List Path := elide [] (sortPaths ps)

/-- Go `Union(mx, my, ms...)` on the path lists (a nil mask has no paths). -/
def union (mx my : List Path) (ms : List (List Path)) : List Path :=
  normalizePaths (ms.foldl (fun out m => out ++ m) (mx ++ my))

/-- the `for i1, i2 := 0, 0; i1 < len(ss1) && i2 < len(ss2); { switch … }` loop of `intersect`.
Every arm of the switch advances one index, so `fuel = len(ss1)+len(ss2)` iterations are enough.
`none` stands for "the Go loop never terminates": the switch has no default, so if no arm matched
the loop would spin forever (`C44.intersectLoop_terminates` proves that this cannot happen). -/
def intersectLoop : Nat → List Path → List Path → Option (List Path)
  | _, [], _ => some []
  | _, _ :: _, [] => some []
  | 0, _ :: _, _ :: _ => none
  | fuel + 1, s1 :: t1, s2 :: t2 =>
    if hasPathPrefix s1 s2 then (intersectLoop fuel t1 (s2 :: t2)).map (s1 :: ·)
    else if hasPathPrefix s2 s1 then (intersectLoop fuel (s1 :: t1) t2).map (s2 :: ·)
    else if lessPath s1 s2 then intersectLoop fuel t1 (s2 :: t2)
    else if lessPath s2 s1 then intersectLoop fuel (s1 :: t1) t2
    else none

/-- the closure `intersect(out, in)` of Go `Intersect`. -/
def intersectStep (out inp : List Path) : Option (List Path) :=
  let ss1 := normalizePaths inp
  let ss2 := normalizePaths out
  intersectLoop (ss1.length + ss2.length) ss1 ss2

/-- `for _, m := range ms { out = intersect(out, m.GetPaths()) }` -/
def intersectFold : List Path → List (List Path) → Option (List Path)
  | out, [] => some out
  | out, m :: ms => (intersectStep out m).bind fun out' => intersectFold out' ms

/-- Go `Intersect(mx, my, ms...)` on the path lists. -/
def intersect (mx my : List Path) (ms : List (List Path)) : Option (List Path) :=
  (intersectFold (union mx my ms) (mx :: my :: ms)).map normalizePaths

/-! ### validity: numValidPaths / rangeFields over an abstract schema -/

/-- what `numValidPaths` reads from a `protoreflect.FieldDescriptor` -/
structure Field where
  /-- `fd.Name()` -/
  name : Path
  /-- `fd.Kind() == protoreflect.GroupKind` -/
  isGroup : Bool
  /-- `fd.TextName()`: the field name, or the message type name for a group-like field -/
  textName : Path
  /-- index of `fd.Message()` in the schema table; `none` when `fd.Message() == nil` -/
  target : Option Nat
  /-- `fd.IsList()` -/
  isList : Bool
  /-- `fd.IsMap()` -/
  isMap : Bool
deriving Repr, DecidableEq

/-- a message descriptor: its fields in declaration order -/
abbrev MsgDef := List Field
/-- message descriptors, referenced by index (so that recursive message types are finite) -/
abbrev Schema := List MsgDef

/-- `strings.ToLower` restricted to ASCII (descriptor names are ASCII identifiers). -/
def toLowerByte (b : Byte) : Byte :=
  if (65#8).ule b && b.ule 90#8 then b + 32#8 else b
def toLower (s : Path) : Path := s.map toLowerByte

/-- `md.Fields().ByName(name)`: the first field with that name -/
def byName (md : MsgDef) (name : Path) : Option Field := md.find? (fun fd => fd.name == name)

/-- the field that the closure of `numValidPaths` selects for the component `field`, or `none`
when it returns false with "message does not have this field":
```
fd := md.Fields().ByName(field)
if fd == nil {
    gd := md.Fields().ByName(strings.ToLower(field))
    if gd != nil && gd.Kind() == GroupKind && gd.TextName() == field { fd = gd }
} else if fd.Kind() == GroupKind && fd.TextName() != field { fd = nil }
``` -/
def lookupField (md : MsgDef) (field : Path) : Option Field :=
  match byName md field with
  | none =>
    match byName md (toLower field) with
    | some gd => if gd.isGroup && gd.textName == field then some gd else none
    | none => none
  | some fd => if fd.isGroup && fd.textName != field then none else some fd

/-- `md = fd.Message(); if fd.IsList() || fd.IsMap() { md = nil }` -/
def nextMsg (schema : Schema) (fd : Field) : Option MsgDef :=
  if fd.isList || fd.isMap then none else fd.target.bind (fun i => schema[i]?)

/-- one call of the closure: `none` = it returned false; `some md'` = it returned true and the
captured variable `md` is now `md'` (`none` inside = Go nil). -/
def stepField (schema : Schema) (md : Option MsgDef) (field : Path) : Option (Option MsgDef) :=
  match md with
  | none => none                       -- "not within a message"
  | some md =>
    match lookupField md field with
    | none => none                     -- "message does not have this field"
    | some fd => some (nextMsg schema fd)

/-- the fields `rangeFields(path, f)` hands to `f` when `f` keeps returning true: `strings.Split(path, ".")`
("a..b" ↦ a, "", b; "" ↦ ""; "a." ↦ a, ""). -/
def splitDots : Path → List Path
  | [] => [[]]
  | b :: rest =>
    if b == dot then [] :: splitDots rest
    else match splitDots rest with
      | f :: fs => (b :: f) :: fs
      | [] => [[b]]

/-- `rangeFields(path, f)` with the closure of `numValidPaths`: stop with false at the first component
that `f` rejects. -/
def walkFields (schema : Schema) : Option MsgDef → List Path → Bool
  | _, [] => true
  | md, f :: fs =>
    match stepField schema md f with
    | none => false
    | some md' => walkFields schema md' fs

/-- one iteration of the loop in `numValidPaths`; `root` is the index of `m`'s descriptor. -/
def pathValid (schema : Schema) (root : Nat) (path : Path) : Bool :=
  walkFields schema schema[root]? (splitDots path)

/-- Go `numValidPaths`: index of the first invalid path, or `len(paths)`. -/
def numValidPaths (schema : Schema) (root : Nat) : List Path → Nat
  | [] => 0
  | p :: ps => if pathValid schema root p then numValidPaths schema root ps + 1 else 0

/-- Go `(*FieldMask).Append`: new `x.Paths` and whether the error is nil. -/
def append (schema : Schema) (root : Nat) (xs paths : List Path) : List Path × Bool :=
  let numValid := numValidPaths schema root paths
  (xs ++ paths.take numValid, (paths.drop numValid).isEmpty)

/-- Go `New(m, paths...)`. -/
def new (schema : Schema) (root : Nat) (paths : List Path) : List Path × Bool :=
  append schema root [] paths

/-- Go `(*FieldMask).IsValid` for a non-nil receiver. -/
def isValid (schema : Schema) (root : Nat) (paths : List Path) : Bool :=
  numValidPaths schema root paths == paths.length

end Model.FieldMask
