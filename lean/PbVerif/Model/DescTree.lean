import PbVerif.Model.DescFeatures
/-
Model.DescTree — the abstract descriptor-proto tree (`FileP`, what `descriptorpb.FileDescriptorProto`
carries of names, numbers, labels, types, references, oneofs, ranges, reserved names, the option bits the
Go code promotes, feature overrides) and the descriptor tree `protodesc.FileOptions.New` builds from it
(`FileD`: steps 1 and 2 of desc.go — desc_init.go, desc_resolve.go).

Strings are byte lists (`Str`).  Type references are modelled for FULLY-QUALIFIED names (leading dot); a
relative reference makes the model answer `unsupported` (scoped lookup is tied by correspondence only).
Default-value literals are abstract: the harness says whether the literal parses for the declared scalar
kind (`defval.Unmarshal`, C39's subject); enum defaults are looked up by name here.
-/
namespace Desc
open Gen.EditionDefaults

abbrev Str := List Nat

/-! ## Names (reflect/protoreflect/proto.go) -/

def isLetter (c : Nat) : Bool := c == 95 || (97 ≤ c && c ≤ 122) || (65 ≤ c && c ≤ 90)
def isLetterDigit (c : Nat) : Bool := isLetter c || (48 ≤ c && c ≤ 57)

/-- `Name.IsValid`: `consumeIdent(s) == len(s)`. -/
def isValidName : Str → Bool
  | [] => false
  | c :: r => isLetter c && r.all isLetterDigit

/-- split at '.' -/
def splitDots : Str → List Str
  | [] => [[]]
  | c :: r =>
    match splitDots r with
    | [] => [[c]]          -- unreachable: splitDots never returns []
    | h :: t => if c == 46 then [] :: h :: t else (c :: h) :: t

/-- `FullName.IsValid`: non-empty, identifiers separated by single dots. -/
def isValidFullName (s : Str) : Bool := (splitDots s).all isValidName

/-- `strs.Builder.AppendFullName(prefix, name)`. -/
def fullAppend (pre name : Str) : Str := if pre.isEmpty then name else pre ++ 46 :: name

def dropLastSeg : List Str → List Str
  | [] => []
  | [_] => []
  | a :: b :: r => a :: dropLastSeg (b :: r)

def joinDots : List Str → Str
  | [] => []
  | [a] => a
  | a :: b :: r => a ++ 46 :: joinDots (b :: r)

/-- `FullName.Parent()`. -/
def fullParent (s : Str) : Str := joinDots (dropLastSeg (splitDots s))
/-- `FullName.Name()`. -/
def fullLast (s : Str) : Str := (splitDots s).getLast?.getD []

def toLowerAscii (c : Nat) : Nat := if 65 ≤ c && c ≤ 90 then c + 32 else c
def toUpperAscii (c : Nat) : Nat := if 97 ≤ c && c ≤ 122 then c - 32 else c

/-- `strs.JSONCamelCase`. -/
def jsonCamelAux : Bool → Str → Str
  | _, [] => []
  | was, c :: r =>
    if c != 95 then (if was && (97 ≤ c && c ≤ 122) then c - 32 else c) :: jsonCamelAux false r
    else jsonCamelAux true r
def jsonCamelCase (s : Str) : Str := jsonCamelAux false s

/-- `strs.MapEntryName` (ASCII). -/
def mapEntryAux : Bool → Str → Str
  | _, [] => [69, 110, 116, 114, 121]   -- "Entry"
  | up, c :: r =>
    if c == 95 then mapEntryAux true r
    else if up then toUpperAscii c :: mapEntryAux false r
    else c :: mapEntryAux false r
def mapEntryName (s : Str) : Str := mapEntryAux true s

def strKey : Str := [107, 101, 121]
def strValue : Str := [118, 97, 108, 117, 101]

/-! ## The proto level -/

structure FieldP where
  name : Str
  number : Option Int := none
  label : Option Nat := none        -- `GetLabel()` of an absent label is LABEL_OPTIONAL
  type : Nat := 0                   -- 0 = `Type == nil`
  typeName : Option Str := none
  extendee : Option Str := none
  oneofIndex : Option Int := none
  jsonName : Option Str := none
  proto3Optional : Bool := false
  /-- `some ok`: `default_value` present; `ok` = the literal parses as a scalar of the declared `type` -/
  defaultOk : Option Bool := none
  defaultLit : Str := []
  packed : Option Bool := none
  lazy : Bool := false
  features : Overrides := {}
deriving DecidableEq, Repr, Inhabited

structure EnumValueP where
  name : Str
  number : Option Int
deriving DecidableEq, Repr, Inhabited

structure EnumP where
  name : Str
  values : List EnumValueP := []
  resRanges : List (Int × Int) := []   -- inclusive
  resNames : List Str := []
  allowAlias : Bool := false
  features : Overrides := {}
deriving DecidableEq, Repr, Inhabited

structure OneofP where
  name : Str
  features : Overrides := {}
deriving DecidableEq, Repr, Inhabited

mutual
inductive MessageP where
  | mk (name : Str) (fields : List FieldP) (oneofs : List OneofP) (nested : MessagePList)
       (enums : List EnumP) (exts : List FieldP)
       (extRanges resRanges : List (Int × Int)) (resNames : List Str)
       (mapEntry messageSet : Bool) (features : Overrides)
inductive MessagePList where
  | nil
  | cons (m : MessageP) (ms : MessagePList)
end

deriving instance Repr for MessageP
deriving instance Repr for MessagePList
instance : Inhabited MessagePList := ⟨.nil⟩

def MessageP.name : MessageP → Str | .mk n .. => n
def MessageP.fields : MessageP → List FieldP | .mk _ f .. => f
def MessageP.oneofs : MessageP → List OneofP | .mk _ _ o .. => o
def MessageP.nested : MessageP → MessagePList | .mk _ _ _ n .. => n
def MessageP.enums : MessageP → List EnumP | .mk _ _ _ _ e .. => e
def MessageP.exts : MessageP → List FieldP | .mk _ _ _ _ _ x .. => x
def MessageP.extRanges : MessageP → List (Int × Int) | .mk _ _ _ _ _ _ xr .. => xr
def MessageP.resRanges : MessageP → List (Int × Int) | .mk _ _ _ _ _ _ _ rr .. => rr
def MessageP.resNames : MessageP → List Str | .mk _ _ _ _ _ _ _ _ rn .. => rn
def MessageP.mapEntry : MessageP → Bool | .mk _ _ _ _ _ _ _ _ _ me .. => me
def MessageP.messageSet : MessageP → Bool | .mk _ _ _ _ _ _ _ _ _ _ ms _ => ms
def MessageP.features : MessageP → Overrides | .mk _ _ _ _ _ _ _ _ _ _ _ f => f

def MessagePList.toList : MessagePList → List MessageP
  | .nil => []
  | .cons m ms => m :: ms.toList

def MessagePList.ofList : List MessageP → MessagePList
  | [] => .nil
  | m :: ms => .cons m (MessagePList.ofList ms)

structure MethodP where
  name : Str
  input : Str
  output : Str
deriving DecidableEq, Repr, Inhabited

structure ServiceP where
  name : Str
  methods : List MethodP := []
deriving DecidableEq, Repr, Inhabited

/-- What an imported file contributes: declarations by full name. -/
inductive ExternKind
  | msg (mapEntry messageSet : Bool) (extRanges : List (Int × Int))
  | enum (closed : Bool) (values : List (Str × Int))
  | other
deriving Repr, Inhabited

structure Extern where
  fullName : Str
  kind : ExternKind
  imported : Bool := true     -- `r.imports[d.ParentFile().Path()]`
deriving Repr, Inhabited

/-- `syntax`: 0 = absent, 2 = "proto2", 3 = "proto3", 9 = "editions", 1 = anything else. -/
structure FileP where
  path : Str
  pkg : Str := []
  syn : Nat := 0
  edition : Nat := 0
  features : Overrides := {}
  messages : MessagePList := .nil
  enums : List EnumP := []
  exts : List FieldP := []
  services : List ServiceP := []
deriving Repr, Inhabited

/-- `FileOptions` + build flags + resolver contents. -/
structure Env where
  allowUnresolvable : Bool := false
  protoLegacy : Bool := false
  externs : List Extern := []
deriving Repr, Inhabited

/-! ## Error sites (one constructor per `errors.New` of desc.go / desc_init.go / desc_resolve.go / desc_validate.go) -/

inductive Rule
  | invalidSyntax | emptyPath | unsupportedEdition | invalidPackage | editionPanic
  | invalidName | duplicateDecl
  | badOneofIndex | unresolvedType | badDefault | unresolvedExtendee | unresolvedMethod
  | enumReservedNames | enumReservedRanges | enumEmpty | enumAlias | enumNoAlias | enumOpenFirstZero
  | enumValueNoNumber | enumValueReservedName | enumValueReservedNumber
  | msgReservedNames | msgReservedRanges | msgExtensionRanges | msgRangesOverlap | fieldConflict
  | messageSetUnsupported | messageSetInvalid | proto3ExtensionRanges
  | fieldReservedName | fieldBadNumber | fieldBadCardinality | fieldReservedNumber | fieldInExtensionRange
  | fieldHasExtendee | proto3OptionalSyntax | proto3OptionalCardinality | proto3OptionalOneof
  | notPackable | badGroup | badMap | proto3Required | proto3ClosedEnum | implicitClosedEnum
  | oneofEmpty | oneofNotConsecutive | oneofAfterSynthetic | oneofMemberNotOptional
  | extBadNumber | extBadCardinality | extJsonName | extInOneof | extNotInRange | extMessageSetType
  | extBadNumberNonMessageSet | extMapEntry | extProto3Extendee
  | unsupported
deriving DecidableEq, Repr, Inhabited

/-- A validation verdict. -/
abbrev V := Except Rule Unit

def okV : V := Except.ok ()

/-- sequential composition: the first error wins -/
def seq (a b : V) : V :=
  match a with
  | .ok _ => b
  | .error e => .error e

def guardV (bad : Bool) (r : Rule) : V := if bad then .error r else .ok ()

def allV {α} (f : α → V) : List α → V
  | [] => .ok ()
  | x :: xs => seq (f x) (allV f xs)

def firstErr : List (Option Rule) → V
  | [] => .ok ()
  | none :: r => firstErr r
  | some e :: _ => .error e

end Desc
