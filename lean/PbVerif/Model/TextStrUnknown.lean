import PbVerif.Model.TextStr
/-
Executable model of `encoding/prototext/encode.go: (encoder).marshalUnknown` — the rendering of the
unknown fields of a message under `MarshalOptions{EmitUnknown: true}` / `Format` — together with the
parts of `encoding/protowire` and of `internal/encoding/text.Encoder` it calls (core Lean only).

* wire primitives (`consumeVarint`, `consumeTag`, `consumeFixed32/64`, `consumeBytes`, `fieldValue` =
  `consumeFieldValueD`, `consumeGroup`, `sizeVarint`) over `Nat` values; a negative Go length (error
  code) is an `Except.error`; the loops recurse on explicit fuel (`fuelFor`), as in `Model.Wire`.
* the text encoder in single-line mode (`indent == ""`, `detrand` disabled): `prepareNext`,
  `WriteName`, `WriteUint`, `WriteLiteral`, `WriteString`, `StartMessage`, `EndMessage`.
* `marshalUnknown`: `none` = the Go code panics (`b[n:]` with a negative `n`, the `default:` arm of the
  wire-type switch, a slice out of range inside `ConsumeGroup`).
-/
namespace Model.TextStr.Unknown
open Model.TextStr

/-! ## protowire -/

inductive WErr
  | truncated | fieldNumber | overflow | reserved | endGroup | recursionDepth
  deriving DecidableEq, Repr

/-- `protowire.DefaultRecursionLimit` -/
def recursionLimit : Int := 10000

/-- `ConsumeVarint`, byte `i` of at most ten; `acc` is the value of the bytes before. `(v, n)`. -/
def consumeVarintAux : Nat → Nat → List Byte → Except WErr (Nat × Nat)
  | _, _, [] => .error .truncated
  | i, acc, c :: t =>
    if i = 9 then
      if c.toNat < 2 then .ok (acc + c.toNat * 2 ^ 63, 10) else .error .overflow
    else if c.toNat < 0x80 then .ok (acc + c.toNat * 2 ^ (7 * i), i + 1)
    else consumeVarintAux (i + 1) (acc + (c.toNat - 0x80) * 2 ^ (7 * i)) t

def consumeVarint (b : List Byte) : Except WErr (Nat × Nat) := consumeVarintAux 0 0 b

/-- `SizeVarint`: `v |= 1; log2value := LeadingZeros64(v) ^ 63; (log2value*9 + 73) / 64` -/
def sizeVarint (v : Nat) : Nat := (Nat.log2 (v ||| 1) * 9 + 73) / 64

/-- `SizeTag(num) = SizeVarint(EncodeTag(num, 0))` -/
def sizeTag (num : Nat) : Nat := sizeVarint (num * 8)

/-- `ConsumeTag`: `(num, typ, n)`; `DecodeTag` maps `x>>3 > MaxInt32` to -1, and `num < 1` is an error -/
def consumeTag (b : List Byte) : Except WErr (Nat × Nat × Nat) :=
  match consumeVarint b with
  | .error e => .error e
  | .ok (v, n) =>
    if v / 8 > 0x7fffffff ∨ v / 8 < 1 then .error .fieldNumber else .ok (v / 8, v % 8, n)

def leValue : List Byte → Nat
  | [] => 0
  | c :: t => c.toNat + 256 * leValue t

def consumeFixed32 (b : List Byte) : Except WErr (Nat × Nat) :=
  if b.length < 4 then .error .truncated else .ok (leValue (b.take 4), 4)

def consumeFixed64 (b : List Byte) : Except WErr (Nat × Nat) :=
  if b.length < 8 then .error .truncated else .ok (leValue (b.take 8), 8)

/-- `ConsumeBytes`: `(b[n:][:m], n+m)` -/
def consumeBytes (b : List Byte) : Except WErr (List Byte × Nat) :=
  match consumeVarint b with
  | .error e => .error e
  | .ok (m, n) =>
    if m > (b.drop n).length then .error .truncated else .ok ((b.drop n).take m, n + m)

mutual
/-- `consumeFieldValueD(num, typ, b, depth)`: the length of the value -/
def fieldValue : Nat → Nat → Nat → List Byte → Int → Except WErr Nat
  | 0, _, _, _, _ => .error .truncated          -- out of fuel (excluded by `fuelFor`)
  | fuel+1, num, typ, b, depth =>
    if typ = 0 then (consumeVarint b).map (·.2)
    else if typ = 5 then (consumeFixed32 b).map (·.2)
    else if typ = 1 then (consumeFixed64 b).map (·.2)
    else if typ = 2 then (consumeBytes b).map (·.2)
    else if typ = 3 then
      if depth < 0 then .error .recursionDepth else groupLoop fuel num b depth b.length
    else if typ = 4 then .error .endGroup
    else .error .reserved
/-- the `for` loop of the `StartGroupType` case; `n0` is `len(b)` at loop entry -/
def groupLoop : Nat → Nat → List Byte → Int → Nat → Except WErr Nat
  | 0, _, _, _, _ => .error .truncated
  | fuel+1, num, b, depth, n0 =>
    match consumeTag b with
    | .error e => .error e
    | .ok (num2, typ2, n) =>
      let b1 := b.drop n
      if typ2 = 4 then
        if num ≠ num2 then .error .endGroup else .ok (n0 - b1.length)
      else match fieldValue fuel num2 typ2 b1 (depth - 1) with
        | .error e => .error e
        | .ok m => groupLoop fuel num (b1.drop m) depth n0
end

/-- fuel that always suffices for `fieldValue` on `b` -/
def fuelFor (b : List Byte) : Nat := 2 * b.length + 2

/-- `ConsumeFieldValue(num, typ, b)` -/
def consumeFieldValue (num typ : Nat) (b : List Byte) : Except WErr Nat :=
  fieldValue (fuelFor b) num typ b recursionLimit

/-- the loop of `ConsumeGroup` that drops trailing bytes whose low seven bits are zero -/
def stripZeros7 (b : List Byte) : List Byte :=
  (b.reverse.dropWhile (fun x => x.toNat % 128 == 0)).reverse

/-- `ConsumeGroup(num, b)`: `some (.ok (v, n))`, `some (.error _)` for a negative length, `none` when
`b[:len(b)-SizeTag(num)]` would panic. -/
def consumeGroup (num : Nat) (b : List Byte) : Option (Except WErr (List Byte × Nat)) :=
  match consumeFieldValue num 3 b with
  | .error e => some (.error e)
  | .ok n =>
    let b1 := stripZeros7 (b.take n)
    if sizeTag num ≤ b1.length then some (.ok (b1.take (b1.length - sizeTag num), n)) else none

/-! ## text.Encoder, single-line mode -/

/-- `strconv.AppendUint(nil, v, 10)` -/
def decStr (v : Nat) : List Byte :=
  if v < 10 then [BitVec.ofNat 8 (0x30 + v)] else decStr (v / 10) ++ [BitVec.ofNat 8 (0x30 + v % 10)]
decreasing_by omega

/-- `encType` values -/
def tName : Nat := 1
def tScalar : Nat := 2
def tOpen : Nat := 4
def tClose : Nat := 8

/-- `encoderState` (`indents` is unused in single-line mode) -/
structure Enc where
  lastType : Nat
  out : List Byte
  deriving Repr

/-- `prepareNext` with `len(e.indent) == 0` and `detrand.Bool() == false` -/
def prepareNext (e : Enc) (next : Nat) : Enc :=
  { lastType := next,
    out := if (e.lastType = tScalar ∨ e.lastType = tClose) ∧ next = tName then e.out ++ [0x20#8] else e.out }

def writeName (e : Enc) (s : List Byte) : Enc :=
  let e := prepareNext e tName; { e with out := e.out ++ s ++ [0x3a#8] }
def writeLiteral (e : Enc) (s : List Byte) : Enc :=
  let e := prepareNext e tScalar; { e with out := e.out ++ s }
def writeUint (e : Enc) (v : Nat) : Enc :=
  let e := prepareNext e tScalar; { e with out := e.out ++ decStr v }
def writeString (e : Enc) (s : List Byte) (ascii : Bool) : Option Enc :=
  let e := prepareNext e tScalar; (appendString s ascii).map fun o => { e with out := e.out ++ o }
def startMessage (e : Enc) : Enc :=
  let e := prepareNext e tOpen; { e with out := e.out ++ [0x7b#8] }
def endMessage (e : Enc) : Enc :=
  let e := prepareNext e tClose; { e with out := e.out ++ [0x7d#8] }

/-! ## marshalUnknown -/

/-- `(encoder).marshalUnknown(b)`; fuel ≥ `b.length` always suffices (each iteration consumes a tag,
each nested call gets a strictly shorter group payload).  `none` = panic. -/
def marshalUnknownF : Nat → Bool → List Byte → Enc → Option Enc
  | 0, _, b, e => if b.isEmpty then some e else none
  | fuel+1, ascii, b, e =>
    if b.isEmpty then some e else
    match consumeTag b with
    | .error _ => none                                   -- b[n:] with n < 0
    | .ok (num, wtype, n) =>
      let b := b.drop n
      let e := writeName e (decStr num)
      if wtype = 0 then
        match consumeVarint b with
        | .error _ => none
        | .ok (v, n) => marshalUnknownF fuel ascii (b.drop n) (writeUint e v)
      else if wtype = 5 then
        match consumeFixed32 b with
        | .error _ => none
        | .ok (v, n) => marshalUnknownF fuel ascii (b.drop n) (writeLiteral e (0x30#8 :: 0x78#8 :: hexStr v))
      else if wtype = 1 then
        match consumeFixed64 b with
        | .error _ => none
        | .ok (v, n) => marshalUnknownF fuel ascii (b.drop n) (writeLiteral e (0x30#8 :: 0x78#8 :: hexStr v))
      else if wtype = 2 then
        match consumeBytes b with
        | .error _ => none
        | .ok (v, n) => (writeString e v ascii).bind fun e => marshalUnknownF fuel ascii (b.drop n) e
      else if wtype = 3 then
        let e := startMessage e
        match consumeGroup num b with
        | none => none
        | some (.error _) => none                        -- marshalUnknown(nil), EndMessage, then b[n:] panics
        | some (.ok (v, n)) =>
          (marshalUnknownF fuel ascii v e).bind fun e =>
          marshalUnknownF fuel ascii (b.drop n) (endMessage e)
      else none                                          -- panic("... error parsing unknown field wire type")

/-- output of `prototext.MarshalOptions{EmitUnknown: true, EmitASCII: ascii}.Marshal(m)` for a message `m`
without populated known fields whose unknown fields are `b` (single-line mode, detrand disabled) -/
def marshalUnknown (b : List Byte) (ascii : Bool) : Option (List Byte) :=
  (marshalUnknownF b.length ascii b { lastType := 0, out := [] }).map (·.out)

end Model.TextStr.Unknown
