import PbVerif.Gen.FieldOrder
import PbVerif.Model.MsgDet
/-
The ORDER in which the table-driven coders emit fields (property C29, the pure-logic part of
"all API flavors are interchangeable").

* `internal/impl/codec_message.go` `makeCoderMethods` (open / hybrid API) and
  `internal/impl/codec_message_opaque.go` `makeOpaqueCoderMethods` (opaque API) build
  `mi.orderedCoderFields`: one entry per declared field in declaration order; `sort.Slice` by field number;
  `maxDense` and the dense lookup table `mi.denseCoderFields` are computed from that order; then
  `if mi.Desc.Oneofs().Len() > 0 { sort.Slice(…, order.LegacyFieldOrder) }` ("marshal oneofs last").
  `marshalAppendPointer` / `sizePointer` walk the table in this order.
* `internal/order/order.go` `LegacyFieldOrder` is what the reflection path (and therefore dynamicpb) sorts the
  populated fields with under `Deterministic`; `Model/MsgDet.lean` `legacyLess` is its model on field numbers.

The SHAPE of that code is not hand-copied: `bin/gen-fieldorder` extracts it from the current tree into
`Gen/FieldOrder.lean` (comparators, the guard of the second sort, the dense-table constants and guard, the
clause sequence of `LegacyFieldOrder`), and the configurations `openCfg`, `opaqueCfg` and the comparator
`legacyLt` below are built from those constants.  `sort.Slice` is not modelled as an algorithm: the theorems
of `Props/C29.lean` hold for ANY sorted permutation (`IsSortOf`), `sortBy` (insertion sort) is just one.
Core-only.
-/
namespace Pb.FieldOrder

/-- what the ordering code reads of a field -/
structure CF where
  num : Nat
  /-- index of the containing non-synthetic oneof (`inOneof`: `od != nil && !od.IsSynthetic()`) -/
  oneof : Option Nat := none
  ext : Bool := false
  deriving DecidableEq, Repr, Inhabited

def CF.inOneof (f : CF) : Bool := f.oneof.isSome
def CF.oneofIdx (f : CF) : Nat := f.oneof.getD 0

/-- one clause of `LegacyFieldOrder` (codes of `Gen.FieldOrder.legacyClauses`): `some b` = the clause returns `b` -/
def clause (c : Nat) (x y : CF) : Option Bool :=
  match c with
  | 1 => if x.ext != y.ext then some (x.ext && !y.ext) else none
  | 11 => if x.ext != y.ext then some (!x.ext && y.ext) else none
  | 2 => if x.inOneof != y.inOneof then some (!x.inOneof && y.inOneof) else none
  | 12 => if x.inOneof != y.inOneof then some (x.inOneof && !y.inOneof) else none
  | 3 => if x.inOneof && y.inOneof && x.oneof != y.oneof then some (Nat.blt x.oneofIdx y.oneofIdx) else none
  | 13 => if x.inOneof && y.inOneof && x.oneof != y.oneof then some (Nat.blt y.oneofIdx x.oneofIdx) else none
  | 4 => some (Nat.blt x.num y.num)
  | 14 => some (Nat.blt y.num x.num)
  | _ => some false

def lessBy : List Nat → CF → CF → Bool
  | [], _, _ => false
  | c :: cs, x, y =>
    match clause c x y with
    | some b => b
    | none => lessBy cs x y

/-- `order.LegacyFieldOrder`, as extracted from the current tree -/
def legacyLt (x y : CF) : Bool := lessBy Gen.FieldOrder.legacyClauses x y

/-- the comparator of the first sort: `a.num < b.num` -/
def numLt (x y : CF) : Bool := Nat.blt x.num y.num

/-- "not after": the relation a list sorted with `less` satisfies pairwise -/
def notAfter (lt : CF → CF → Bool) (a b : CF) : Bool := !lt b a

/-- what `sort.Slice(l, less)` guarantees about its result `r`, whatever the algorithm -/
def IsSortOf (lt : CF → CF → Bool) (l r : List CF) : Prop :=
  r.Perm l ∧ r.Pairwise (fun a b => notAfter lt a b = true)

/-- insertion into a sorted list -/
def insertBy (lt : CF → CF → Bool) (a : CF) : List CF → List CF
  | [] => [a]
  | b :: tl => if notAfter lt a b then a :: b :: tl else b :: insertBy lt a tl

/-- one sorting function (insertion sort: structural, so concrete instances evaluate in the kernel) -/
def sortBy (lt : CF → CF → Bool) : List CF → List CF
  | [] => []
  | a :: tl => insertBy lt a (sortBy lt tl)

/-- the message descriptor as the ordering code sees it -/
structure Desc where
  /-- `mi.Desc.Fields()`, in declaration order -/
  fields : List CF
  /-- `mi.Desc.Oneofs().Len()` (synthetic oneofs included) -/
  nOneofs : Nat
  deriving Repr

/-- the extracted shape of `make(Opaque)CoderMethods` -/
structure Cfg where
  firstByNumber : Bool
  resortCond : Nat        -- 1: `Oneofs().Len() > 0`, 2: unconditional, 0: no second sort
  resortLegacy : Bool
  denseBetween : Bool
  guardStrict : Bool
  minSparse : Nat
  factor : Nat
  soleWriter : Bool
  deriving DecidableEq, Repr

def openCfg : Cfg :=
  { firstByNumber := Gen.FieldOrder.open_firstSortByNumber, resortCond := Gen.FieldOrder.open_resortCond,
    resortLegacy := Gen.FieldOrder.open_resortByLegacyFieldOrder, denseBetween := Gen.FieldOrder.open_denseBetweenSorts,
    guardStrict := Gen.FieldOrder.open_denseGuardStrict, minSparse := Gen.FieldOrder.open_denseMinSparse,
    factor := Gen.FieldOrder.open_denseFactor,
    soleWriter := Gen.FieldOrder.open_noOtherWrites && Gen.FieldOrder.noWritersElsewhere }

def opaqueCfg : Cfg :=
  { firstByNumber := Gen.FieldOrder.opaque_firstSortByNumber, resortCond := Gen.FieldOrder.opaque_resortCond,
    resortLegacy := Gen.FieldOrder.opaque_resortByLegacyFieldOrder, denseBetween := Gen.FieldOrder.opaque_denseBetweenSorts,
    guardStrict := Gen.FieldOrder.opaque_denseGuardStrict, minSparse := Gen.FieldOrder.opaque_denseMinSparse,
    factor := Gen.FieldOrder.opaque_denseFactor,
    soleWriter := Gen.FieldOrder.opaque_noOtherWrites && Gen.FieldOrder.noWritersElsewhere }

/-- the shape the theorems are about (anything else: the extractor reports it and the proofs do not apply) -/
def Cfg.Canonical (c : Cfg) : Prop :=
  c.firstByNumber = true ∧ (c.resortCond = 1 ∨ c.resortCond = 2) ∧ c.resortLegacy = true ∧ c.denseBetween = true ∧
  c.minSparse = 16 ∧ c.factor = 2 ∧ c.soleWriter = true

instance (c : Cfg) : Decidable c.Canonical := by unfold Cfg.Canonical; infer_instance

/-- the table after the first sort -/
def phase1 (c : Cfg) (d : Desc) : List CF := if c.firstByNumber then sortBy numLt d.fields else d.fields

/-- does the second sort run? -/
def resortRuns (c : Cfg) (d : Desc) : Bool :=
  match c.resortCond with
  | 1 => decide (d.nOneofs > 0)
  | 2 => true
  | _ => false

/-- `mi.orderedCoderFields` as `marshalAppendPointer` walks it -/
def ordered (c : Cfg) (d : Desc) : List CF :=
  if resortRuns c d && c.resortLegacy then sortBy legacyLt (phase1 c d) else phase1 c d

/-! ### the dense table -/

/-- `for _, cf := range ordered { if cf.num >= A && cf.num >= B*maxDense { break }; maxDense = cf.num }` -/
def maxDenseLoop (A B : Nat) : List CF → Nat → Nat
  | [], m => m
  | cf :: tl, m => if cf.num ≥ A ∧ cf.num ≥ B * m then m else maxDenseLoop A B tl cf.num

/-- `for _, cf := range ordered { if int(cf.num) >= len(dense) { break }; dense[cf.num] = cf }` (`>` when
`strict`); `none` = the index expression panics -/
def fillLoop (strict : Bool) : List CF → List (Option CF) → Option (List (Option CF))
  | [], t => some t
  | cf :: tl, t =>
    if (if strict then decide (cf.num > t.length) else decide (cf.num ≥ t.length)) then some t
    else if cf.num < t.length then fillLoop strict tl (t.set cf.num (some cf))
    else none

def maxDense (c : Cfg) (d : Desc) : Nat := maxDenseLoop c.minSparse c.factor (phase1 c d) 0

/-- `mi.denseCoderFields` -/
def dense (c : Cfg) (d : Desc) : Option (List (Option CF)) :=
  fillLoop c.guardStrict (phase1 c d) (List.replicate (maxDense c d + 1) none)

/-- lookup of a field number as `unmarshalPointer` does it: dense table first, then the map `coderFields` -/
def lookup (fs : List CF) (n : Nat) : Option CF := fs.find? (·.num == n)

/-! ### the variant of the seeded change C29-1 (for the counter-example only) -/

/-- `oneofsFollowRegularFields(fields)`: in DECLARATION order no regular field follows a oneof member -/
def oneofsFollowRegular : List CF → Bool → Bool
  | [], _ => true
  | f :: tl, seen => if seen && !f.inOneof then false else oneofsFollowRegular tl (seen || f.inOneof)

/-- the table when the second sort is guarded by `Oneofs().Len() > 0 && !oneofsFollowRegularFields(fields)` -/
def orderedSkipVariant (d : Desc) : List CF :=
  let p := sortBy numLt d.fields
  if decide (d.nOneofs > 0) && !oneofsFollowRegular d.fields false then sortBy legacyLt p else p

/-! ### descriptors of the message model -/

/-- the coder-table view of a field of the message model (`Model/Msg.lean`) -/
def ofField (f : Pb.Field) : CF := { num := f.num, oneof := f.oneof, ext := f.ext }

/-- the declared (non-extension) fields of a message descriptor of the message model -/
def ofMsgD (d : Pb.MsgD) (nOneofs : Nat) : Desc :=
  { fields := (d.fields.filter fun f => !f.ext).map ofField, nOneofs := nOneofs }

end Pb.FieldOrder
