import PbVerif.Model.Msg
/-
The legacy struct-tag grammar (`internal/encoding/tag/tag.go`), property C46.

`protobuf:"varint,1,opt,name=foo,json=fooBar,proto3,enum=pkg.E,oneof,def=7"` is what the runtime
has for messages known only through old generated code: `aberrantLoadMessageDesc` derives every
field descriptor from `(tag, Go type)` through `tag.Unmarshal`.  `marshalTag` mirrors `tag.Marshal`,
`unmarshalTag` mirrors `tag.Unmarshal` (its byte loop, the order of its `switch`, the special
`def=` arm that swallows the rest, the `json=` arm that consults the name parsed *so far*, the
group lower-casing after the loop).

Strings are `List Char` with one `Char` per *byte* of the Go string (every operation of the Go code
on these strings is byte-wise — `IndexByte`, `HasPrefix`, `Trim` with an ASCII cutset,
`JSONCamelCase` — except `strings.ToLower`, which is modelled for ASCII; protobuf identifiers are
ASCII).  The default value after `def=` is kept as raw text (its own codec is `defval`, C39).
Core-only (linked into `pbmodel_flavors`).
-/
namespace Pb.Tag
open Pb (Kind)

abbrev Str := List Char

/-- `reflect.Kind` of the Go type handed to `tag.Unmarshal` (`bytes` = a slice of bytes;
`other` = pointer / struct / map / interface / anything else) -/
inductive GoKind where
  | bool | int32 | int64 | uint32 | uint64 | float32 | float64 | string | bytes | other
  deriving DecidableEq, Repr, Inhabited

/-- `protoreflect.Cardinality` -/
inductive Label where
  | optional | required | repeated
  deriving DecidableEq, Repr, Inhabited

/-- what `tag.Marshal` reads from a `protoreflect.FieldDescriptor` -/
structure FieldDesc where
  kind : Kind
  number : Nat
  label : Label
  packed : Bool            -- fd.IsPacked()
  name : Str               -- fd.Name()
  msgName : Str := []      -- fd.Message().Name() (read for groups only)
  json : Str               -- fd.JSONName()
  ext : Bool := false      -- fd.IsExtension()
  proto3 : Bool            -- fd.Syntax() == Proto3
  enumName : Str := []     -- the caller-supplied enum name
  oneof : Bool := false    -- fd.ContainingOneof() != nil
  dflt : Option Str := none -- fd.HasDefault() ↦ defval.Marshal(…, GoTag)
  deriving Repr, Inhabited

/-! ### literals (ASCII) -/
def VARINT : Str := ['v', 'a', 'r', 'i', 'n', 't']
def ZIGZAG32 : Str := ['z', 'i', 'g', 'z', 'a', 'g', '3', '2']
def ZIGZAG64 : Str := ['z', 'i', 'g', 'z', 'a', 'g', '6', '4']
def FIXED32 : Str := ['f', 'i', 'x', 'e', 'd', '3', '2']
def FIXED64 : Str := ['f', 'i', 'x', 'e', 'd', '6', '4']
def BYTES : Str := ['b', 'y', 't', 'e', 's']
def GROUP : Str := ['g', 'r', 'o', 'u', 'p']
def OPT : Str := ['o', 'p', 't']
def REQ : Str := ['r', 'e', 'q']
def REP : Str := ['r', 'e', 'p']
def PACKED : Str := ['p', 'a', 'c', 'k', 'e', 'd']
def PROTO3 : Str := ['p', 'r', 'o', 't', 'o', '3']
def ONEOF : Str := ['o', 'n', 'e', 'o', 'f']
def NAME_EQ : Str := ['n', 'a', 'm', 'e', '=']
def JSON_EQ : Str := ['j', 's', 'o', 'n', '=']
def ENUM_EQ : Str := ['e', 'n', 'u', 'm', '=']
def DEF_EQ : Str := ['d', 'e', 'f', '=']

/-! ### helpers of the Go code -/

/-- `strs.JSONCamelCase` (byte loop) -/
def jsonCamelGo (wasUnderscore : Bool) : Str → Str
  | [] => []
  | c :: rest =>
    if c ≠ '_' then
      (if wasUnderscore && decide ('a' ≤ c ∧ c ≤ 'z') then Char.ofNat (c.toNat - 32) else c) :: jsonCamelGo false rest
    else jsonCamelGo true rest

def jsonCamelCase (s : Str) : Str := jsonCamelGo false s

/-- `FullName.Name()`: the text after the last `.` -/
def lastName (s : Str) : Str := (s.reverse.takeWhile (· ≠ '.')).reverse

/-- `strings.ToLower` on ASCII -/
def toLower (s : Str) : Str := s.map Char.toLower

/-- `strconv.Itoa` of a non-negative number -/
def itoa (n : Nat) : Str := Nat.toDigits 10 n

/-- `n, _ := strconv.ParseUint(s, 10, 32)` on a string of decimal digits: the value, saturated at
2^32-1 (`ErrRange`); `0` for the empty string (`ErrSyntax`) -/
def parseUint32 (s : Str) : Nat := min (Nat.ofDigitChars 10 s 0) (2 ^ 32 - 1)

/-- `protoreflect.FieldNumber(n)`: conversion of a uint64 below 2^32 to int32 -/
def toInt32 (n : Nat) : Int := if n < 2 ^ 31 then (n : Int) else (n : Int) - 2 ^ 32

/-- `strings.Join(tag, ",")` -/
def joinComma : List Str → Str
  | [] => []
  | [t] => t
  | t :: t' :: ts => t ++ ',' :: joinComma (t' :: ts)

/-! ### tag.Marshal -/

def kindToken : Kind → Str
  | .bool | .enum | .int32 | .uint32 | .int64 | .uint64 => VARINT
  | .sint32 => ZIGZAG32
  | .sint64 => ZIGZAG64
  | .sfixed32 | .fixed32 | .float => FIXED32
  | .sfixed64 | .fixed64 | .double => FIXED64
  | .string | .bytes | .message => BYTES
  | .group => GROUP

def labelToken : Label → Str
  | .optional => OPT
  | .required => REQ
  | .repeated => REP

/-- the `name` variable of `tag.Marshal`: the message name for a group -/
def tagName (fd : FieldDesc) : Str := if fd.kind = .group then fd.msgName else fd.name

/-- is `json=` written? (`jsonName != "" && jsonName != name && !fd.IsExtension()`) -/
def emitsJson (fd : FieldDesc) : Bool := decide (fd.json ≠ []) && decide (fd.json ≠ tagName fd) && !fd.ext

/-- the tokens before `def=` -/
def plainTokens (fd : FieldDesc) : List Str :=
  [kindToken fd.kind, itoa fd.number, labelToken fd.label]
  ++ (if fd.packed then [PACKED] else [])
  ++ [NAME_EQ ++ tagName fd]
  ++ (if emitsJson fd then [JSON_EQ ++ fd.json] else [])
  ++ (if fd.proto3 && !fd.ext then [PROTO3] else [])
  ++ (if fd.kind = .enum ∧ fd.enumName ≠ [] then [ENUM_EQ ++ fd.enumName] else [])
  ++ (if fd.oneof then [ONEOF] else [])

def defTokens (fd : FieldDesc) : List Str :=
  match fd.dflt with
  | some d => [DEF_EQ ++ d]
  | none => []

def marshalTag (fd : FieldDesc) : Str := joinComma (plainTokens fd ++ defTokens fd)

/-! ### tag.Unmarshal -/

/-- the fields of `filedesc.Field` that `tag.Unmarshal` writes -/
structure St where
  name : Str := []             -- L0.FullName
  number : Int := 0            -- L1.Number
  label : Option Label := none -- L1.Cardinality (0 = unset)
  kind : Option Kind := none   -- L1.Kind (0 = unset)
  json : Option Str := none    -- L1.StringName.InitJSON (explicit JSON name)
  packed : Bool := false       -- the local `packed`
  proto3 : Bool := false       -- L0.ParentFile == SurrogateProto3
  dflt : Option Str := none    -- text handed to defval.Unmarshal
  deriving Repr, Inhabited, DecidableEq

/-- `i := strings.IndexByte(tag, ',')`: the token `tag[:i]` and, if a comma was found, `tag[i+1:]` -/
def cut : Str → Str × Option Str
  | [] => ([], none)
  | c :: cs => if c = ',' then ([], some cs) else ((c :: (cut cs).1), (cut cs).2)

def varintKind : GoKind → Option Kind
  | .bool => some .bool | .int32 => some .int32 | .int64 => some .int64
  | .uint32 => some .uint32 | .uint64 => some .uint64 | _ => none

def fixed32Kind : GoKind → Option Kind
  | .int32 => some .sfixed32 | .uint32 => some .fixed32 | .float32 => some .float | _ => none

def fixed64Kind : GoKind → Option Kind
  | .int64 => some .sfixed64 | .uint64 => some .fixed64 | .float64 => some .double | _ => none

def bytesKind : GoKind → Kind
  | .string => .string | .bytes => .bytes | _ => .message

def setKind (st : St) : Option Kind → St
  | some k => { st with kind := some k }
  | none => st

/-- the arms of the `switch` of `tag.Unmarshal` -/
inductive Arm where
  | name | number | opt | req | rep | varint | zigzag32 | zigzag64 | fixed32 | fixed64 | bytes | group
  | enum | json | packed | dflt | proto3 | ignored
  deriving DecidableEq, Repr

/-- which arm the token `s` selects: the `case` conditions in source order -/
def arm (s : Str) : Arm :=
  if NAME_EQ.isPrefixOf s then .name
  else if s.all Char.isDigit then .number      -- strings.Trim(s, "0123456789") == ""
  else if s = OPT then .opt
  else if s = REQ then .req
  else if s = REP then .rep
  else if s = VARINT then .varint
  else if s = ZIGZAG32 then .zigzag32
  else if s = ZIGZAG64 then .zigzag64
  else if s = FIXED32 then .fixed32
  else if s = FIXED64 then .fixed64
  else if s = BYTES then .bytes
  else if s = GROUP then .group
  else if ENUM_EQ.isPrefixOf s then .enum
  else if JSON_EQ.isPrefixOf s then .json
  else if s = PACKED then .packed
  else if DEF_EQ.isPrefixOf s then .dflt
  else if s = PROTO3 then .proto3
  else .ignored

/-- the statements of an arm, for the token `s` of the remaining text `tag`; the flag says that the
`def=` arm ran (`i = len(tag)`: nothing is left) -/
def runArm (g : GoKind) (tag s : Str) (st : St) : Arm → St × Bool
  | .name => ({ st with name := s.drop 5 }, false)
  | .number => ({ st with number := toInt32 (parseUint32 s) }, false)
  | .opt => ({ st with label := some .optional }, false)
  | .req => ({ st with label := some .required }, false)
  | .rep => ({ st with label := some .repeated }, false)
  | .varint => (setKind st (varintKind g), false)
  | .zigzag32 => (if g = .int32 then { st with kind := some .sint32 } else st, false)
  | .zigzag64 => (if g = .int64 then { st with kind := some .sint64 } else st, false)
  | .fixed32 => (setKind st (fixed32Kind g), false)
  | .fixed64 => (setKind st (fixed64Kind g), false)
  | .bytes => ({ st with kind := some (bytesKind g) }, false)
  | .group => ({ st with kind := some .group }, false)
  | .enum => ({ st with kind := some .enum }, false)
  | .json =>
    (if s.drop 5 ≠ jsonCamelCase (lastName st.name) then { st with json := some (s.drop 5) } else st, false)
  | .packed => ({ st with packed := true }, false)
  | .dflt => ({ st with dflt := some (tag.drop 4) }, true)
  | .proto3 => ({ st with proto3 := true }, false)
  | .ignored => (st, false)

/-- one iteration of the loop body -/
def body (g : GoKind) (tag s : Str) (st : St) : St × Bool := runArm g tag s st (arm s)

/-- `for len(tag) > 0 { … tag = strings.TrimPrefix(tag[i:], ",") }` -/
def parseLoop (g : GoKind) : Nat → Str → St → St
  | 0, _, st => st
  | fuel + 1, tag, st =>
    if tag = [] then st else
    let r := body g tag (cut tag).1 st
    if r.2 then r.1
    else match (cut tag).2 with
      | none => r.1
      | some rest => parseLoop g fuel rest r.1

/-- after the loop: a group's name is the lower-cased message name -/
def finish (st : St) : St :=
  if st.kind = some .group then { st with name := toLower st.name } else st

def unmarshalTag (g : GoKind) (tag : Str) : St := finish (parseLoop g (tag.length + 1) tag {})

/-! ### derived views of the resulting `filedesc.Field` -/

def packable : Option Kind → Bool
  | some .string | some .bytes | some .message | some .group => false
  | _ => true

/-- `fd.IsPacked()`: repeated ∧ packable kind ∧ `EditionFeatures.IsPacked` (proto3 surrogate default or `packed`) -/
def St.isPacked (st : St) : Bool :=
  decide (st.label = some .repeated) && packable st.kind && (st.packed || st.proto3)

/-- `fd.JSONName()`: the explicit name, else `JSONCamelCase(name)` computed lazily -/
def St.jsonName (st : St) : Str := st.json.getD (jsonCamelCase (lastName st.name))

/-- the attributes a struct tag can carry, as read back through the descriptor API -/
structure View where
  name : Str               -- Name()
  number : Int             -- Number()
  label : Option Label     -- Cardinality()
  kind : Option Kind       -- Kind()
  jsonName : Str           -- JSONName()
  isPacked : Bool          -- IsPacked()
  proto3 : Bool            -- Syntax() == Proto3
  dflt : Option Str        -- HasDefault() / default text
  deriving Repr, DecidableEq

def St.view (st : St) : View :=
  { name := st.name, number := st.number, label := st.label, kind := st.kind, jsonName := st.jsonName,
    isPacked := st.isPacked, proto3 := st.proto3, dflt := st.dflt }

def FieldDesc.view (fd : FieldDesc) : View :=
  { name := fd.name, number := fd.number, label := some fd.label, kind := some fd.kind, jsonName := fd.json,
    isPacked := fd.packed, proto3 := fd.proto3, dflt := fd.dflt }

/-- the Go type (as `reflect.Kind`) generated for a field of kind `k` -/
def goKindOf : Kind → GoKind
  | .bool => .bool
  | .enum | .int32 | .sint32 | .sfixed32 => .int32
  | .int64 | .sint64 | .sfixed64 => .int64
  | .uint32 | .fixed32 => .uint32
  | .uint64 | .fixed64 => .uint64
  | .float => .float32
  | .double => .float64
  | .string => .string
  | .bytes => .bytes
  | .message | .group => .other

end Pb.Tag
