import PbVerif.Model.DescTree
/-
Model.DescBuild — steps 0, 1 and 2 of `protodesc.FileOptions.New`:
  step 0  file header (syntax, path, edition window, package)                         desc.go
  step 1  `descsByName.init*Declarations` + `makeBase`: names in declaration order    desc_init.go
  step 2  `resolver.resolve*Dependencies`, `findTarget`, `unmarshalDefault`           desc_resolve.go
`build` is TOTAL: the descriptor tree is built even when a step fails, every node remembering the first
error of its own resolution (`resolveErr`); `check*` then reports the first error in Go's order.
-/
namespace Desc
open Gen.EditionDefaults

/-! ## Step 0 -/

def testdataPrefix : Str := "cmd/protoc-gen-go/testdata/".toList.map Char.toNat

/-- `f.L1.Edition` -/
def fileEdition (p : FileP) : Nat :=
  if p.syn == 9 then p.edition else if p.syn == 3 then editionProto3 else editionProto2

/-- `protodesc.isKnownEdition`: the editions the testdata exemption admits. -/
def isKnownEdition (ed : Nat) : Bool :=
  hatchEditions.contains ed && ((minimumEdition ≤ ed && ed ≤ maximumEdition) || ed == editionUnstable)

def checkHeader (p : FileP) : V :=
  seq (guardV (p.syn == 1) .invalidSyntax) <|
  seq (guardV p.path.isEmpty .emptyPath) <|
  -- `if !strings.HasPrefix(name, "cmd/protoc-gen-go/testdata/") || !isKnownEdition(edition) { return error }`
  seq (guardV (p.syn == 9 && (p.edition < supportMinimum || supportMaximum < p.edition) && p.edition != editionUnstable
        && (!(testdataPrefix.isPrefixOf p.path) || !isKnownEdition p.edition)) .unsupportedEdition) <|
  seq (guardV (!isValidFullName p.pkg && !p.pkg.isEmpty) .invalidPackage) <|
  -- initFileDescFromFeatureSet → getFeatureSetFor: `panic` / `os.Exit(1)` for editions outside the table
  guardV (defaultsFor (fileEdition p)).isNone .editionPanic

def fileFeatures (p : FileP) : GoFeatures :=
  mergeGo ((protodescDefaultsGo (fileEdition p)).getD {}) p.features

/-! ## Step 1: declarations in `makeBase` order -/

/-- (full name, short name) -/
abbrev Decl := Str × Str

def enumDecls (scope : Str) (e : EnumP) : List Decl :=
  (fullAppend scope e.name, e.name) :: e.values.map fun v => (fullAppend scope v.name, v.name)

mutual
def msgDecls (scope : Str) : MessageP → List Decl
  | .mk name fields oneofs nested enums exts _ _ _ _ _ _ =>
    let full := fullAppend scope name
    (full, name) ::
      (fields.map fun f => (fullAppend full f.name, f.name)) ++
      (oneofs.map fun o => (fullAppend full o.name, o.name)) ++
      (enums.flatMap (enumDecls full)) ++
      msgListDecls full nested ++
      (exts.map fun x => (fullAppend full x.name, x.name))
def msgListDecls (scope : Str) : MessagePList → List Decl
  | .nil => []
  | .cons m ms => msgDecls scope m ++ msgListDecls scope ms
end

def serviceDecls (scope : Str) (s : ServiceP) : List Decl :=
  let full := fullAppend scope s.name
  (full, s.name) :: s.methods.map fun m => (fullAppend full m.name, m.name)

def fileDecls (p : FileP) : List Decl :=
  p.enums.flatMap (enumDecls p.pkg) ++ msgListDecls p.pkg p.messages ++
  (p.exts.map fun x => (fullAppend p.pkg x.name, x.name)) ++ p.services.flatMap (serviceDecls p.pkg)

/-- `makeBase` over the declarations in order, `r` = the names registered so far. -/
def checkDecls : List Decl → List Str → V
  | [], _ => .ok ()
  | (full, name) :: rest, seen =>
    if !isValidName name then .error .invalidName
    else if seen.contains full then .error .duplicateDecl
    else checkDecls rest (full :: seen)

/-! ## Symbols: what `descsByName` / the remote resolver answer -/

inductive Sym
  | msg (mapEntry : Bool)
  | enum (closed : Bool) (values : List (Str × Int))
  | other
deriving Repr, Inhabited

structure SymEntry where
  fullName : Str
  sym : Sym
deriving Repr, Inhabited

def enumSyms (parent : GoFeatures) (scope : Str) (e : EnumP) : List SymEntry :=
  ⟨fullAppend scope e.name, .enum (isClosed (protodescEnumFeatures parent e.features))
      (e.values.map fun v => (v.name, v.number.getD 0))⟩ ::
    e.values.map fun v => ⟨fullAppend scope v.name, .other⟩

mutual
def msgSyms (parent : GoFeatures) (scope : Str) : MessageP → List SymEntry
  | .mk name fields oneofs nested enums exts _ _ _ mapEntry _ feat =>
    let full := fullAppend scope name
    let f := mergeGo parent feat
    ⟨full, .msg mapEntry⟩ ::
      (fields.map fun x => ⟨fullAppend full x.name, .other⟩) ++
      (oneofs.map fun o => ⟨fullAppend full o.name, .other⟩) ++
      (enums.flatMap (enumSyms f full)) ++
      msgListSyms f full nested ++
      (exts.map fun x => ⟨fullAppend full x.name, .other⟩)
def msgListSyms (parent : GoFeatures) (scope : Str) : MessagePList → List SymEntry
  | .nil => []
  | .cons m ms => msgSyms parent scope m ++ msgListSyms parent scope ms
end

def fileSyms (p : FileP) : List SymEntry :=
  let f := fileFeatures p
  p.enums.flatMap (enumSyms f p.pkg) ++ msgListSyms f p.pkg p.messages ++
  (p.exts.map fun x => ⟨fullAppend p.pkg x.name, .other⟩) ++
  p.services.flatMap fun s => (serviceDecls p.pkg s).map fun d => ⟨d.1, .other⟩

def lookupSym (syms : List SymEntry) (n : Str) : Option Sym :=
  (syms.find? fun e => e.fullName == n).map (·.sym)

/-! ## Step 2: references -/

structure TargetRef where
  fullName : Str
  placeholder : Bool := false
  isLocal : Bool := true
  sym : Sym := .other
deriving Repr, Inhabited

inductive Found
  | found (t : TargetRef)
  | notFound
  | err           -- invalid reference, "resolved but not imported", …
  | relative      -- outside the modelled subset
deriving Repr, Inhabited

structure Ctx where
  env : Env
  syms : List SymEntry
  edition : Nat
deriving Repr, Inhabited

def externSym : ExternKind → Sym
  | .msg me _ _ => .msg me
  | .enum c vs => .enum c vs
  | .other => .other

/-- `resolver.findDescriptor(scope, ref)` for a fully-qualified `ref`. -/
def findDescriptor (c : Ctx) (ref : Str) : Found :=
  match ref with
  | 46 :: full =>
    if !isValidFullName full then .err
    else match lookupSym c.syms full with
      | some s => .found { fullName := full, sym := s }
      | none =>
        match c.env.externs.find? fun e => e.fullName == full with
        | some e => if e.imported then .found { fullName := full, isLocal := false, sym := externSym e.kind } else .err
        | none => .notFound
  | _ => if !isValidFullName ref then .err else .relative

/-- `partialName.FullName()` of a fully-qualified reference -/
def refFullName (ref : Str) : Str := match ref with | 46 :: r => r | r => 42 :: 46 :: r

inductive Want | enum | msg
deriving DecidableEq

/-- `findEnumDescriptor` / `findMessageDescriptor`. -/
def findTyped (c : Ctx) (w : Want) (ref : Str) : Except Rule TargetRef :=
  match findDescriptor c ref with
  | .relative => .error .unsupported
  | .err => .error .unresolvedType
  | .notFound =>
    if c.env.allowUnresolvable then .ok { fullName := refFullName ref, placeholder := true, isLocal := false }
    else .error .unresolvedType
  | .found t =>
    match w, t.sym with
    | .enum, .enum .. => .ok t
    | .msg, .msg .. => .ok t
    | _, _ => .error .unresolvedType

structure Target where
  kind : Nat
  enumT : Option TargetRef := none
  messageT : Option TargetRef := none
deriving Repr, Inhabited

/-- `resolver.findTarget(k, scope, ref)`; `ref = ""` when `type_name` is absent. -/
def findTarget (c : Ctx) (k : Nat) (ref : Str) : Except Rule Target :=
  if k == kEnum then (findTyped c .enum ref).map fun t => { kind := k, enumT := some t }
  else if k == kMessage || k == kGroup then (findTyped c .msg ref).map fun t => { kind := k, messageT := some t }
  else if k == 0 then
    match findDescriptor c ref with
    | .relative => .error .unsupported
    | .err => .error .unresolvedType
    | .notFound =>
      if c.env.allowUnresolvable then
        let t : TargetRef := { fullName := refFullName ref, placeholder := true, isLocal := false }
        .ok { kind := 0, enumT := some t, messageT := some t }
      else .error .unresolvedType
    | .found t =>
      match t.sym with
      | .enum .. => .ok { kind := kEnum, enumT := some t }
      | .msg .. => .ok { kind := kMessage, messageT := some t }
      | .other => .error .unresolvedType
  else if !ref.isEmpty then .error .unresolvedType
  else if !(1 ≤ k && k ≤ 18) then .error .unresolvedType
  else .ok { kind := k }

def TargetRef.isMapEntry (t : TargetRef) : Bool :=
  match t.sym with | .msg me => me | _ => false

/-! ## The descriptor level -/

structure FieldD where
  p : FieldP
  fullName : Str
  index : Nat
  isExtension : Bool
  parentIsMapEntry : Bool
  features : GoFeatures
  cardinality : Nat
  kind : Nat
  enumT : Option TargetRef := none
  messageT : Option TargetRef := none
  extendeeT : Option TargetRef := none
  containingOneof : Option Nat := none
  hasDefault : Bool := false
  resolveErr : Option Rule := none
deriving Repr, Inhabited

def FieldD.number (f : FieldD) : Int := f.p.number.getD 0
def FieldD.name (f : FieldD) : Str := f.p.name
def FieldD.hasPresence (f : FieldD) : Bool :=
  Desc.hasPresence f.cardinality f.isExtension f.features f.messageT.isSome f.containingOneof.isSome
def FieldD.isPacked (f : FieldD) : Bool := Desc.isPacked f.cardinality f.kind f.features
def FieldD.isMap (f : FieldD) : Bool :=
  !f.isExtension && (match f.messageT with | some t => t.isMapEntry | none => false)
def FieldD.isList (f : FieldD) : Bool := f.cardinality == cRepeated && !f.isMap

structure EnumD where
  p : EnumP
  fullName : Str
  features : GoFeatures
deriving Repr, Inhabited

def EnumD.isClosed (e : EnumD) : Bool := Desc.isClosed e.features

structure OneofD where
  p : OneofP
  fullName : Str
  index : Nat
  /-- indexes (into the message's field list) of the members, in append order -/
  members : List Nat
deriving Repr, Inhabited

mutual
inductive MessageD where
  | mk (p : MessageP) (fullName : Str) (features : GoFeatures) (fields : List FieldD) (oneofs : List OneofD)
       (nested : MessageDList) (enums : List EnumD) (exts : List FieldD)
inductive MessageDList where
  | nil
  | cons (m : MessageD) (ms : MessageDList)
end

deriving instance Repr for MessageD
deriving instance Repr for MessageDList
instance : Inhabited MessageDList := ⟨.nil⟩

def MessageD.p : MessageD → MessageP | .mk p .. => p
def MessageD.fullName : MessageD → Str | .mk _ n .. => n
def MessageD.features : MessageD → GoFeatures | .mk _ _ f .. => f
def MessageD.fields : MessageD → List FieldD | .mk _ _ _ f .. => f
def MessageD.oneofs : MessageD → List OneofD | .mk _ _ _ _ o .. => o
def MessageD.nested : MessageD → MessageDList | .mk _ _ _ _ _ n .. => n
def MessageD.enums : MessageD → List EnumD | .mk _ _ _ _ _ _ e _ => e
def MessageD.exts : MessageD → List FieldD | .mk _ _ _ _ _ _ _ x => x

def MessageDList.toList : MessageDList → List MessageD
  | .nil => []
  | .cons m ms => m :: ms.toList

structure MethodD where
  p : MethodP
  input : Except Rule TargetRef
  output : Except Rule TargetRef
deriving Repr, Inhabited

structure FileD where
  p : FileP
  edition : Nat
  features : GoFeatures
  messages : MessageDList
  enums : List EnumD
  exts : List FieldD
  methods : List MethodD
deriving Repr, Inhabited

/-! ### building one field -/

/-- `unmarshalDefault` verdict: `none` = accepted. -/
def defaultErr (c : Ctx) (p : FieldP) (kind card : Nat) (enumT : Option TargetRef) (presence : Bool) : Option Rule :=
  match p.defaultOk with
  | none => none
  | some ok =>
    let parsed : Bool :=
      if kind == kEnum then
        match enumT with
        | some t => (match t.sym with
            | .enum _ vs => vs.any fun v => v.1 == p.defaultLit
            | _ => false)
        | none => false
      else if kind == kMessage || kind == kGroup || kind == 0 then false
      else ok
    -- `err != nil && allowUnresolvable && evs != nil && Name(s).IsValid()` → placeholder enum value
    let rescued := !parsed && c.env.allowUnresolvable && enumT.isSome && isValidName p.defaultLit
    if !parsed && !rescued then some .badDefault
    else if !presence then some .badDefault
    else if kind == kMessage || kind == kGroup || card == cRepeated then some .badDefault
    else none

/-- `initFieldsFromDescriptorProto` + the loop body of `resolveMessageDependencies` for one field. -/
def buildField (c : Ctx) (parent : GoFeatures) (scope : Str) (parentIsMapEntry : Bool) (numOneofs : Nat)
    (idx : Nat) (p : FieldP) : FieldD :=
  let feat := fieldFeatures parent p.features p.packed
  let card := cardinalityOf (p.label.getD cOptional) feat false
  let kind0 := if p.type == kMessage && feat.isDelimitedEncoded then kGroup else p.type
  let oneofErr : Option Rule := match p.oneofIndex with
    | some k => if 0 ≤ k && k < (numOneofs : Int) then none else some .badOneofIndex
    | none => none
  let oneof : Option Nat := match p.oneofIndex with
    | some k => if 0 ≤ k && k < (numOneofs : Int) then some k.toNat else none
    | none => none
  let tgt := findTarget c kind0 (p.typeName.getD [])
  let t : Target := match tgt with | .ok t => t | .error _ => { kind := kind0 }
  let tgtErr : Option Rule := match tgt with | .ok _ => none | .error e => some e
  -- `if fd.Type == nil && Kind == MessageKind && IsDelimitedEncoded { Kind = GroupKind }` (c4513e1)
  let k1 := if p.type == 0 && t.kind == kMessage && feat.isDelimitedEncoded then kGroup else t.kind
  let isMap := match t.messageT with | some m => m.isMapEntry | none => false
  let kind := if k1 == kGroup && (isMap || parentIsMapEntry) then kMessage else k1
  let presence := hasPresence card false feat t.messageT.isSome oneof.isSome
  let defErr := defaultErr c p kind card t.enumT presence
  { p := p, fullName := fullAppend scope p.name, index := idx, isExtension := false
    parentIsMapEntry := parentIsMapEntry, features := feat, cardinality := card, kind := kind
    enumT := t.enumT, messageT := t.messageT, containingOneof := oneof
    hasDefault := p.defaultOk.isSome
    resolveErr := oneofErr.orElse fun _ => tgtErr.orElse fun _ => defErr }

/-- `initExtensionDeclarations` + the loop body of `resolveExtensionDependencies`. -/
def buildExt (c : Ctx) (parent : GoFeatures) (scope : Str) (idx : Nat) (p : FieldP) : FieldD :=
  let feat := fieldFeatures parent p.features p.packed
  let card := p.label.getD cOptional
  let kind0 := if p.type == kMessage && feat.isDelimitedEncoded then kGroup else p.type
  let ext := findTyped c .msg (p.extendee.getD [])
  let extErr : Option Rule := match ext with
    | .ok _ => none | .error .unsupported => some .unsupported | .error _ => some .unresolvedExtendee
  let tgt := findTarget c kind0 (p.typeName.getD [])
  let t : Target := match tgt with | .ok t => t | .error _ => { kind := kind0 }
  let tgtErr : Option Rule := match tgt with | .ok _ => none | .error e => some e
  let kind := if p.type == 0 && t.kind == kMessage && feat.isDelimitedEncoded then kGroup else t.kind
  let presence := hasPresence card true feat t.messageT.isSome false
  let defErr := defaultErr c p kind card t.enumT presence
  { p := p, fullName := fullAppend scope p.name, index := idx, isExtension := true
    parentIsMapEntry := false, features := feat, cardinality := card, kind := kind
    enumT := t.enumT, messageT := t.messageT
    extendeeT := match ext with | .ok t => some t | .error _ => none
    hasDefault := p.defaultOk.isSome
    resolveErr := extErr.orElse fun _ => tgtErr.orElse fun _ => defErr }

def buildFields (c : Ctx) (parent : GoFeatures) (scope : Str) (me : Bool) (numOneofs : Nat) : Nat → List FieldP → List FieldD
  | _, [] => []
  | i, p :: ps => buildField c parent scope me numOneofs i p :: buildFields c parent scope me numOneofs (i + 1) ps

def buildExts (c : Ctx) (parent : GoFeatures) (scope : Str) : Nat → List FieldP → List FieldD
  | _, [] => []
  | i, p :: ps => buildExt c parent scope i p :: buildExts c parent scope (i + 1) ps

def buildEnum (parent : GoFeatures) (scope : Str) (e : EnumP) : EnumD :=
  { p := e, fullName := fullAppend scope e.name, features := protodescEnumFeatures parent e.features }

def buildOneofs (scope : Str) (fields : List FieldD) : Nat → List OneofP → List OneofD
  | _, [] => []
  | i, o :: os =>
    { p := o, fullName := fullAppend scope o.name, index := i
      members := (fields.filter fun f => f.containingOneof == some i).map (·.index) } :: buildOneofs scope fields (i + 1) os

mutual
def buildMsg (c : Ctx) (parent : GoFeatures) (scope : Str) : MessageP → MessageD
  | .mk name fields oneofs nested enums exts xr rr rn me ms feat =>
    let full := fullAppend scope name
    let f := mergeGo parent feat
    let fds := buildFields c f full me oneofs.length 0 fields
    .mk (.mk name fields oneofs nested enums exts xr rr rn me ms feat) full f fds
      (buildOneofs full fds 0 oneofs) (buildMsgs c f full nested) (enums.map (buildEnum f full))
      (buildExts c f full 0 exts)
def buildMsgs (c : Ctx) (parent : GoFeatures) (scope : Str) : MessagePList → MessageDList
  | .nil => .nil
  | .cons m ms => .cons (buildMsg c parent scope m) (buildMsgs c parent scope ms)
end

def buildMethod (c : Ctx) (m : MethodP) : MethodD :=
  { p := m, input := findTyped c .msg m.input, output := findTyped c .msg m.output }

def mkCtx (env : Env) (p : FileP) : Ctx := { env := env, syms := fileSyms p, edition := fileEdition p }

def build (env : Env) (p : FileP) : FileD :=
  let c := mkCtx env p
  let f := fileFeatures p
  { p := p, edition := fileEdition p, features := f
    messages := buildMsgs c f p.pkg p.messages
    enums := p.enums.map (buildEnum f p.pkg)
    exts := buildExts c f p.pkg 0 p.exts
    methods := p.services.flatMap fun s => s.methods.map (buildMethod c) }

/-! ### step 2 errors in Go's order: per message its fields, then its nested messages, then its extensions -/

mutual
def msgResolveErrs : MessageD → List (Option Rule)
  | .mk _ _ _ fields _ nested _ exts =>
    fields.map (·.resolveErr) ++ msgsResolveErrs nested ++ exts.map (·.resolveErr)
def msgsResolveErrs : MessageDList → List (Option Rule)
  | .nil => []
  | .cons m ms => msgResolveErrs m ++ msgsResolveErrs ms
end

def methodErr (m : MethodD) : Option Rule :=
  match m.input, m.output with
  | .error .unsupported, _ => some .unsupported
  | .error _, _ => some .unresolvedMethod
  | .ok _, .error .unsupported => some .unsupported
  | .ok _, .error _ => some .unresolvedMethod
  | .ok _, .ok _ => none

def checkResolve (d : FileD) : V :=
  firstErr (msgsResolveErrs d.messages ++ d.exts.map (·.resolveErr) ++ d.methods.map methodErr)

end Desc
