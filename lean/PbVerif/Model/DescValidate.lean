import PbVerif.Model.DescBuild
/-
Model.DescValidate — step 3 of `protodesc.FileOptions.New` (desc_validate.go, with the list checks of
internal/filedesc/desc_list.go), `newFile`, and `toProto` (proto.go) on the modelled accessors.
The checks are written in the order of the Go code; `seq` keeps the first error.
-/
namespace Desc
open Gen.EditionDefaults

/-! ## internal/filedesc/desc_list.go -/

/-- Go `int32(x)` -/
def wrap32 (x : Int) : Int := (x + 2147483648) % 4294967296 - 2147483648

/-- `Names.CheckValid`: a name listed twice. -/
def namesHaveDup : List Str → Bool
  | [] => false
  | n :: r => r.contains n || namesHaveDup r

/-- insertion of `r` into a list sorted by start (`sort.Slice(sorted, sorted[i][0] < sorted[j][0])`; when two
ranges share a start `CheckValid` fails whatever their order, see `Props/C35`). -/
def insertByStart (r : Int × Int) : List (Int × Int) → List (Int × Int)
  | [] => [r]
  | x :: xs => if r.1 < x.1 then r :: x :: xs else x :: insertByStart r xs

def sortByStart (l : List (Int × Int)) : List (Int × Int) := l.foldr insertByStart []

/-- `EnumRanges.CheckValid` over the sorted list (`rp` = previous range, `first` = `i == 0`). -/
def enumRangesBad : List (Int × Int) → Option (Int × Int) → Bool
  | [], _ => false
  | r :: rest, prev =>
    if !(r.1 ≤ r.2) then true
    else match prev with
      | some rp => if !(rp.2 < r.1) then true else enumRangesBad rest (some r)
      | none => enumRangesBad rest (some r)

def enumRangesHas (l : List (Int × Int)) (n : Int) : Bool := l.any fun r => r.1 ≤ n && n ≤ r.2

/-- `fieldRange.End()`: `r[1] - 1` in int32 arithmetic. -/
def fieldEnd (r : Int × Int) : Int := wrap32 (r.2 - 1)

def maxValidNumber : Int := 536870911
def firstReservedNumber : Int := 19000
def lastReservedNumber : Int := 19999

/-- `isValidFieldNumber(n, isMessageSet)` -/
def isValidFieldNumberMS (n : Int) (isMessageSet : Bool) : Bool := 1 ≤ n && (n ≤ maxValidNumber || isMessageSet)
/-- `protowire.Number.IsValid` -/
def numberIsValid (n : Int) : Bool := 1 ≤ n && n ≤ maxValidNumber

/-- `FieldRanges.CheckValid(isMessageSet)` over the sorted list. -/
def fieldRangesBad (ms : Bool) : List (Int × Int) → Option (Int × Int) → Bool
  | [], _ => false
  | r :: rest, prev =>
    if !isValidFieldNumberMS r.1 ms then true
    else if !isValidFieldNumberMS (fieldEnd r) ms then true
    else if !(r.1 ≤ fieldEnd r) then true
    else match prev with
      | some rp => if !(fieldEnd rp < r.1) then true else fieldRangesBad ms rest (some r)
      | none => fieldRangesBad ms rest (some r)

/-- `FieldRanges.Has` (after `CheckValid` succeeded the binary search finds a range iff one contains `n`). -/
def fieldRangesHas (l : List (Int × Int)) (n : Int) : Bool := l.any fun r => r.1 ≤ n && n ≤ fieldEnd r

/-- `FieldRanges.CheckOverlap`: the merge loop over the two sorted lists. -/
def rangesOverlap : List (Int × Int) → List (Int × Int) → Nat → Bool
  | _, _, 0 => false
  | [], _, _ => false
  | _, [], _ => false
  | rp :: ps, rq :: qs, fuel + 1 =>
    if !(fieldEnd rp < rq.1 || fieldEnd rq < rp.1) then true
    else if rp.1 < rq.1 then rangesOverlap ps (rq :: qs) fuel
    else rangesOverlap (rp :: ps) qs fuel

/-! ## target information -/

structure MsgInfo where
  fullName : Str
  placeholder : Bool := false
  mapEntry : Bool := false
  messageSet : Bool := false
  fields : List FieldD := []
  extRanges : List (Int × Int) := []
  nestedDecls : Nat := 0
deriving Repr, Inhabited

structure EnumInfo where
  placeholder : Bool := false
  closed : Bool := false
  values : List (Str × Int) := []
deriving Repr, Inhabited

mutual
def flattenMsg : MessageD → List MessageD
  | .mk p n f fs os nested es xs => .mk p n f fs os nested es xs :: flattenMsgs nested
def flattenMsgs : MessageDList → List MessageD
  | .nil => []
  | .cons m ms => flattenMsg m ++ flattenMsgs ms
end

def msgInfoOfD (m : MessageD) : MsgInfo :=
  { fullName := m.fullName, mapEntry := m.p.mapEntry, messageSet := m.p.messageSet, fields := m.fields
    extRanges := m.p.extRanges
    nestedDecls := m.enums.length + m.nested.toList.length + m.exts.length }

def msgInfo (env : Env) (all : List MessageD) (t : TargetRef) : MsgInfo :=
  if t.placeholder then { fullName := t.fullName, placeholder := true }
  else if t.isLocal then
    match all.find? fun m => m.fullName == t.fullName with
    | some m => msgInfoOfD m
    | none => { fullName := t.fullName }
  else
    match env.externs.find? fun e => e.fullName == t.fullName with
    | some ⟨_, .msg me ms xr, _⟩ => { fullName := t.fullName, mapEntry := me, messageSet := ms, extRanges := xr }
    | _ => { fullName := t.fullName }

def enumInfo (t : TargetRef) : EnumInfo :=
  if t.placeholder then { placeholder := true }
  else match t.sym with
    | .enum c vs => { closed := c, values := vs }
    | _ => {}

/-! ## validateEnumDeclarations -/

def hasDupNumber : List (Option Int) → Bool
  | [] => false
  | n :: r => r.contains n || hasDupNumber r

def validateEnumValue (e : EnumD) (v : EnumValueP) : V :=
  seq (guardV v.number.isNone .enumValueNoNumber) <|
  seq (guardV (e.p.resNames.contains v.name) .enumValueReservedName) <|
  guardV (enumRangesHas e.p.resRanges (v.number.getD 0)) .enumValueReservedNumber

def validateEnum (e : EnumD) : V :=
  let nums := e.p.values.map fun v => some (v.number.getD 0)
  seq (guardV (namesHaveDup e.p.resNames) .enumReservedNames) <|
  seq (guardV (enumRangesBad (sortByStart e.p.resRanges) none) .enumReservedRanges) <|
  seq (guardV e.p.values.isEmpty .enumEmpty) <|
  seq (guardV (hasDupNumber nums && !e.p.allowAlias) .enumAlias) <|
  seq (guardV (e.p.allowAlias && !hasDupNumber nums) .enumNoAlias) <|
  seq (guardV (!e.isClosed && (match e.p.values with | v :: _ => v.number.getD 0 != 0 | [] => false)) .enumOpenFirstZero) <|
  -- (the open-enum value-name prefix conflict rule is not modelled)
  allV (validateEnumValue e) e.p.values

/-! ## checkValidGroup / checkValidMap / isPackable -/

def isPackable (f : FieldD) : Bool :=
  if f.kind == kString || f.kind == kBytes || f.kind == kMessage || f.kind == kGroup then false
  else (if f.isExtension then f.cardinality == cRepeated else f.isList)

def isUpperAscii (c : Nat) : Bool := 65 ≤ c && c ≤ 90

def checkValidGroup (env : Env) (all : List MessageD) (edition : Nat) (f : FieldD) : Bool :=
  if f.kind != kGroup then false
  else if edition == editionProto3 then true
  else match f.messageT with
    | none => true
    | some t =>
      let md := msgInfo env all t
      if md.placeholder then true
      else if edition < edition2023 then
        if fullParent f.fullName != fullParent md.fullName then true
        else if !(match fullLast md.fullName with | c :: _ => isUpperAscii c | [] => false) then true
        else f.name != (fullLast md.fullName).map toLowerAscii
      else false

def validMapKeyKind (k : Nat) : Bool :=
  k == 8 || k == 5 || k == 17 || k == 15 || k == 3 || k == 18 || k == 16 || k == 13 || k == 7 || k == 4 || k == 6 || k == 9

def badEntryField (f : FieldD) (name : Str) (number : Int) : Bool :=
  f.name != name || f.number != number || f.cardinality != cOptional || f.containingOneof.isSome || f.hasDefault

def checkValidMap (env : Env) (all : List MessageD) (f : FieldD) : Bool :=
  match f.messageT with
  | none => false
  | some t =>
    let md := msgInfo env all t
    if !md.mapEntry then false
    else if fullParent f.fullName != fullParent md.fullName then true
    else if fullLast md.fullName != mapEntryName f.name then true
    else if f.cardinality != cRepeated then true
    else match md.fields with
      | [kf, vf] =>
        if md.extRanges.length > 0 then true
        else if md.nestedDecls > 0 then true
        else if badEntryField kf strKey 1 then true
        else if badEntryField vf strValue 2 then true
        else if !validMapKeyKind kf.kind then true
        else match vf.enumT with
          | some et => (match (enumInfo et).values with | v :: _ => v.2 != 0 | [] => false)
          | none => false
      | _ => true

/-! ## validateMessageDeclarations -/

structure VCtx where
  env : Env
  all : List MessageD
  edition : Nat
deriving Repr

def fieldNumbersConflict (fs : List FieldD) : Bool := hasDupNumber (fs.map fun f => some f.number)

def enumClosedNonPlaceholder (f : FieldD) : Bool :=
  match f.enumT with
  | some t => !t.placeholder && (enumInfo t).closed
  | none => false

def validateField (v : VCtx) (m : MessageD) (f : FieldD) : V :=
  let isProto3 := v.edition == editionProto3
  seq (guardV (m.p.resNames.contains f.name) .fieldReservedName) <|
  seq (guardV (!numberIsValid f.number) .fieldBadNumber) <|
  seq (guardV (!(1 ≤ f.cardinality && f.cardinality ≤ 3)) .fieldBadCardinality) <|
  seq (guardV (fieldRangesHas m.p.resRanges f.number) .fieldReservedNumber) <|
  seq (guardV (fieldRangesHas m.p.extRanges f.number) .fieldInExtensionRange) <|
  seq (guardV f.p.extendee.isSome .fieldHasExtendee) <|
  seq (guardV (f.p.proto3Optional && !isProto3) .proto3OptionalSyntax) <|
  seq (guardV (f.p.proto3Optional && f.cardinality != cOptional) .proto3OptionalCardinality) <|
  seq (guardV (f.p.proto3Optional && (match f.containingOneof with
        | some k => (match m.oneofs[k]? with | some o => o.members.length != 1 | none => false)
        | none => false)) .proto3OptionalOneof) <|
  -- `fd.GetOptions().GetPacked() && !isPackable(f)` (622c0ae: the option, not `IsPacked()`, is consulted)
  seq (guardV (f.p.packed == some true && !isPackable f) .notPackable) <|
  seq (guardV (checkValidGroup v.env v.all v.edition f) .badGroup) <|
  seq (guardV (checkValidMap v.env v.all f) .badMap) <|
  seq (guardV (isProto3 && f.cardinality == cRequired) .proto3Required) <|
  seq (guardV (isProto3 && enumClosedNonPlaceholder f) .proto3ClosedEnum) <|
  guardV (f.cardinality == cOptional && !f.hasPresence && enumClosedNonPlaceholder f) .implicitClosedEnum

/-- `Field.HasOptionalKeyword` -/
def hasOptionalKeyword (edition : Nat) (f : FieldD) : Bool :=
  (edition == editionProto2 && f.cardinality == cOptional && f.containingOneof.isNone) || f.p.proto3Optional

/-- `Oneof.IsSynthetic` -/
def oneofIsSynthetic (edition : Nat) (fields : List FieldD) (o : OneofD) : Bool :=
  edition == editionProto3 && (match o.members with
    | [i] => (match fields[i]? with | some f => hasOptionalKeyword edition f | none => false)
    | _ => false)

/-- the oneof loop of `validateMessageDeclarations`; `seenSynthetic` threads through -/
def validateOneofs (edition : Nat) (fields : List FieldD) : List OneofD → Bool → V
  | [], _ => .ok ()
  | o :: rest, seenSynthetic =>
    match o.members with
    | [] => .error .oneofEmpty
    | first :: more =>
      let last := (first :: more).getLast?.getD first
      if ((first :: more).length : Int) - 1 != (last : Int) - (first : Int) then .error .oneofNotConsecutive
      else if oneofIsSynthetic edition fields o then validateOneofs edition fields rest true
      else if seenSynthetic then .error .oneofAfterSynthetic
      else if (first :: more).any (fun i => match fields[i]? with | some f => f.cardinality != cOptional | none => false)
        then .error .oneofMemberNotOptional
      else validateOneofs edition fields rest seenSynthetic

def optionMessageNames : List Str :=
  ["google.protobuf.FileOptions", "google.protobuf.EnumOptions", "google.protobuf.EnumValueOptions",
   "google.protobuf.MessageOptions", "google.protobuf.FieldOptions", "google.protobuf.OneofOptions",
   "google.protobuf.ExtensionRangeOptions", "google.protobuf.ServiceOptions", "google.protobuf.MethodOptions"].map
    fun s => s.toList.map Char.toNat

def validateExtension (v : VCtx) (x : FieldD) : V :=
  let n := x.number
  seq (guardV (n < 0 || (firstReservedNumber ≤ n && n ≤ lastReservedNumber)) .extBadNumber) <|
  seq (guardV (!(1 ≤ x.cardinality && x.cardinality ≤ 3) || x.cardinality == cRequired) .extBadCardinality) <|
  seq (guardV (match x.p.jsonName with | some j => j != jsonCamelCase x.name | none => false) .extJsonName) <|
  seq (guardV x.p.oneofIndex.isSome .extInOneof) <|
  seq (match x.extendeeT with
    | none => .ok ()
    | some t =>
      let md := msgInfo v.env v.all t
      if md.placeholder then .ok ()
      else
        seq (guardV (!fieldRangesHas md.extRanges n) .extNotInRange) <|
        seq (guardV (md.messageSet && !((x.kind == 0 || x.kind == kMessage) && x.cardinality == cOptional)) .extMessageSetType) <|
        guardV (!md.messageSet && !numberIsValid n) .extBadNumberNonMessageSet) <|
  seq (guardV (x.p.packed == some true && !isPackable x) .notPackable) <|
  seq (guardV (checkValidGroup v.env v.all v.edition x) .badGroup) <|
  seq (guardV (match x.messageT with | some t => (msgInfo v.env v.all t).mapEntry | none => false) .extMapEntry) <|
  guardV (v.edition == editionProto3 && (match x.extendeeT with
    | some t => !optionMessageNames.contains t.fullName
    | none => true)) .extProto3Extendee

mutual
def validateMsg (v : VCtx) : MessageD → V
  | .mk p full feat fields oneofs nested enums exts =>
    let m : MessageD := .mk p full feat fields oneofs nested enums exts
    let ms := p.messageSet
    let isProto3 := v.edition == editionProto3
    seq (guardV (namesHaveDup p.resNames) .msgReservedNames) <|
    seq (guardV (fieldRangesBad ms (sortByStart p.resRanges) none) .msgReservedRanges) <|
    seq (guardV (fieldRangesBad ms (sortByStart p.extRanges) none) .msgExtensionRanges) <|
    seq (guardV (rangesOverlap (sortByStart p.resRanges) (sortByStart p.extRanges) (p.resRanges.length + p.extRanges.length)) .msgRangesOverlap) <|
    seq (guardV (fieldNumbersConflict fields) .fieldConflict) <|
    seq (guardV (ms && !v.env.protoLegacy) .messageSetUnsupported) <|
    seq (guardV (ms && (isProto3 || fields.length > 0 || p.extRanges.length == 0)) .messageSetInvalid) <|
    seq (guardV (isProto3 && p.extRanges.length > 0) .proto3ExtensionRanges) <|
    seq (allV (validateField v m) fields) <|
    seq (validateOneofs v.edition fields oneofs false) <|
    seq (allV validateEnum enums) <|
    seq (validateMsgs v nested) <|
    allV (validateExtension v) exts
def validateMsgs (v : VCtx) : MessageDList → V
  | .nil => .ok ()
  | .cons m ms => seq (validateMsg v m) (validateMsgs v ms)
end

def validateFile (env : Env) (d : FileD) : V :=
  let v : VCtx := { env := env, all := flattenMsgs d.messages, edition := d.edition }
  seq (allV validateEnum d.enums) <|
  seq (validateMsgs v d.messages) <|
  allV (validateExtension v) d.exts

/-! ## protodesc.FileOptions.New -/

def check (env : Env) (p : FileP) : V :=
  seq (checkHeader p) <|
  seq (checkDecls (fileDecls p) []) <|
  seq (checkResolve (build env p)) <|
  validateFile env (build env p)

def newFile (env : Env) (p : FileP) : Except Rule FileD :=
  match check env p with
  | .ok _ => .ok (build env p)
  | .error r => .error r

end Desc
