import PbVerif.Model.DescFeatures
/- Model.Desc — umbrella of the descriptor model (features; abstract descriptor-proto tree, build, check, toProto). -/
