import PbVerif.Model.DescFeatures
import PbVerif.Model.DescTree
import PbVerif.Model.DescBuild
import PbVerif.Model.DescValidate
/-
Model.Desc — umbrella of the descriptor model, plus `toProto`: `protodesc.ToFileDescriptorProto`
(reflect/protodesc/proto.go) on the modelled accessors.  `toProto` reads the DESCRIPTOR accessors only
(cardinality, kind, resolved references, oneof membership, …); option bits (`packed`, `lazy`, `features`,
`map_entry`, `message_set_wire_format`, `allow_alias`) are the cloned options messages and are copied.
Not modelled (correspondence only): source locations, imports, services' streaming flags, option messages
beyond the promoted bits, default-value literals beyond "present / parses", visibility.
-/
namespace Desc
open Gen.EditionDefaults

def unknownPrefix : Str := [42, 46]   -- "*."

/-- `fullNameOf(d)` -/
def fullNameOf (t : TargetRef) : Str :=
  if unknownPrefix.isPrefixOf t.fullName then t.fullName.drop 2 else 46 :: t.fullName

/-- `ToFieldDescriptorProto`; `syn` is the file's syntax code (2/0 proto2, 3 proto3, 9 editions). -/
def toProtoField (syn : Nat) (f : FieldD) : FieldP :=
  let edition := if syn == 9 then edition2023 else if syn == 3 then editionProto3 else editionProto2
  let type0 := if 1 ≤ f.kind && f.kind ≤ 18 then f.kind else 0
  let type := if syn == 9 && type0 == kGroup then kMessage else type0
  let label := if syn == 9 && f.cardinality == cRequired then cOptional else f.cardinality
  { name := f.name
    number := some f.number
    label := some label
    type := type
    typeName := match f.messageT with
      | some t => some (fullNameOf t)
      | none => f.enumT.map fullNameOf
    extendee := if f.isExtension then f.extendeeT.map fullNameOf else none
    oneofIndex := f.containingOneof.map fun k => (k : Int)
    jsonName := match f.p.jsonName with
      | some j => some (if f.isExtension then jsonCamelCase f.name else j)
      | none => none
    proto3Optional := syn == 3 && hasOptionalKeyword edition f
    defaultOk := if f.hasDefault then f.p.defaultOk else none
    defaultLit := if f.hasDefault then f.p.defaultLit else []
    packed := f.p.packed
    lazy := f.p.lazy
    features := f.p.features }

def toProtoEnum (e : EnumD) : EnumP :=
  { e.p with values := e.p.values.map fun v => { v with number := some (v.number.getD 0) } }

mutual
def toProtoMsg (syn : Nat) : MessageD → MessageP
  | .mk p _ _ fields oneofs nested enums exts =>
    .mk p.name (fields.map (toProtoField syn)) (oneofs.map (·.p)) (toProtoMsgs syn nested)
      (enums.map toProtoEnum) (exts.map (toProtoField syn)) p.extRanges p.resRanges p.resNames
      p.mapEntry p.messageSet p.features
def toProtoMsgs (syn : Nat) : MessageDList → MessagePList
  | .nil => .nil
  | .cons m ms => .cons (toProtoMsg syn m) (toProtoMsgs syn ms)
end

def toProto (d : FileD) : FileP :=
  let syn := d.p.syn
  { path := d.p.path
    pkg := d.p.pkg
    syn := if syn == 3 then 3 else if syn == 9 then 9 else 0
    edition := if syn == 9 then d.edition else 0
    features := d.p.features
    messages := toProtoMsgs syn d.messages
    enums := d.enums.map toProtoEnum
    exts := d.exts.map (toProtoField syn)
    services := d.p.services.map fun s =>
      { s with methods := s.methods.map fun m =>
          match d.methods.find? fun md => md.p == m with
          | some md => { m with
              input := (match md.input with | .ok t => fullNameOf t | .error _ => m.input)
              output := (match md.output with | .ok t => fullNameOf t | .error _ => m.output) }
          | none => m } }

end Desc
