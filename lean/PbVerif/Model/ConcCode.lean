import PbVerif.Model.Conc
import PbVerif.Gen.ConcFacts
/-
The protocol variants *of the code*: every parameter of the models is selected by a shape fact
that bin/gen-conc extracted from the Go sources of the current tree (Gen/ConcFacts.lean).  The
theorems of Props/C18.lean and Props/C19.lean are stated about these configurations; if the code
leaves the shape (plain store instead of CAS, flag stored before the body, accessor without the
lock, …) the selected variant is a different one and the safety side conditions (`decide`d from
the facts) no longer hold: the proof breaks.
-/
namespace Conc.Code
open Gen.ConcFacts

/-! ### C18 -/

/-- `lazyUnmarshal` decodes into a fresh object and its last action is `AtomicSetPointerIfNil`,
which is a CAS from nil -/
def lazyPublish : Lazy.Publish :=
  if setIfNilIsCAS && lazyUnmarshalDecodesIntoFresh && lazyUnmarshalPublishesViaSetIfNil then .cas else .store

/-- every getter (generator template, all generated instances, the reflection accessors) returns
the atomically re-loaded cell -/
def lazyResult : Lazy.Result :=
  if getterLoadsAreAtomic && generatorEmitsProtocolOrder
      && (0 < generatedLazyGetters) && (generatedLazyGettersConforming == generatedLazyGetters)
      && (0 < reflectLazySites) && (reflectLazySitesReloading == reflectLazySites) then .reload else .mine

/-- the one publishing CAS is the last action of `lazyUnmarshal`, after every index entry of the
field (non-contiguous wire occurrences) has been merged into the private object -/
def lazyTiming : Lazy.Timing :=
  if lazyUnmarshalPublishesAfterAllEntries then .afterAll else .insideLoop

/-- the lazy-field protocol of the code, for any presence bit, buffer, number of index entries and
(pure) decoder -/
def lazyCfg {β α : Type} (present : Bool) (buf : β) (entries : Nat) (decodeK : β → Nat → α) : Lazy.Cfg β α :=
  { publish := lazyPublish, result := lazyResult, timing := lazyTiming, present := present, buf := buf,
    entries := entries, decodeK := decodeK }

/-- the sync.Map caches of internal/impl/legacy_*.go are the same publish-once protocol
(`Load`; compute; `LoadOrStore`; return the stored value) -/
def legacyCachePublish : Lazy.Publish :=
  if (0 < legacyCaches) && (legacyCachesLoadOrStore == legacyCaches) then .cas else .store

def legacyCacheCfg {β α : Type} (key : β) (compute : β → α) : Lazy.Cfg β α :=
  { publish := legacyCachePublish, result := .reload, timing := .afterAll, present := true, buf := key,
    entries := 0, decodeK := fun b _ => compute b }

/-! ### C19 -/

/-- MessageInfo.init / initOnce (internal/impl/message.go, message_opaque.go); `n` body writes -/
def msgInfoCfg (n : Nat) : Dcl.Cfg :=
  { writes := n
    recheck := if msgInfoRecheckFlag then .flag else .started
    storeOnHit := false
    order := if msgInfoStoreAfterBody then .bodyThenStore else .storeThenBody
    locks := msgInfoFastPathAtomicLoad && msgInfoLocks }

/-- File.lazyInit / lazyInitOnce (internal/filedesc/desc.go); the body performs `n` writes after
`fd.L2 = new(FileL2)` -/
def fileCfg (n : Nat) : Dcl.Cfg :=
  { writes := if fileBodySetsL2First then n + 1 else n
    recheck := if fileRecheckL2Nil then .started else .flag
    storeOnHit := fileStoreOnHit
    order := if fileStoreAfterBody then .bodyThenStore else .storeThenBody
    locks := fileFastPathAtomicLoad && fileLocks }

/-- sync.Once as used by the lazily built tables of internal/filedesc/desc_list*.go -/
def onceCfg (n : Nat) : Dcl.Cfg :=
  { writes := n
    recheck := .flag
    storeOnHit := false
    order := if syncOnceIsDoubleChecked then .bodyThenStore else .storeThenBody
    locks := syncOnceIsDoubleChecked && (0 < onceTables) && (onceTablesGuarded == onceTables) }

/-- (*ExtensionInfo).TypeDescriptor / lazyInit / lazyInitSlow (internal/impl/extension.go): the stage word
xi.init is stored on the lazy path only by the deferred `atomic.StoreUint32(&xi.init, FullInit)` of
lazyInitSlow, after the body.  A PLAIN store of the stage word from inside the body (a helper written for
package initialisation) is not a release: it is unordered with the body's other plain writes and may become
visible before them — in this sequentially consistent model that is the variant in which the store takes
effect before the body (`storeThenBody`). -/
def extInfoCfg (n : Nat) : Dcl.Cfg :=
  { writes := n
    recheck := .flag
    storeOnHit := false
    order := if extInfoSlowPathShape && extInfoFlagOnlyAtomicOnLazyPath then .bodyThenStore else .storeThenBody
    locks := extInfoFastPathsAtomic && extInfoSlowPathShape }

/-- the global registries: every accessor takes globalMutex (writers exclusively) -/
def regCfg (prog : Nat → Reg.Op) (ndecl : Nat → Nat) : Reg.Cfg :=
  { prog := prog, ndecl := ndecl
    readerLocks := (0 < registryAccessors) && (registryAccessorsLocked == registryAccessors) && registryWritersExclusive }

/-- derivation of mutually recursive tag-only legacy messages (internal/impl/legacy_message.go):
descriptors under derivation are reachable only through the map guarded by aberrantMessageDescLock;
the lock-free cache receives nothing (or only complete descriptors, from the outermost caller) -/
def aberrantPublish : Nest.Publish :=
  if aberrantNoLockFreePublishWhileDeriving && aberrantLockedMapOnlyUnderLock then
    (if aberrantOutermostPublishes then .outermost else .never)
  else .nestedEarly

def aberrantCfg (fields : Bool → Nat) (prog : Nat → Bool) : Nest.Cfg :=
  { fields := fields, publish := aberrantPublish, prog := prog }

end Conc.Code
