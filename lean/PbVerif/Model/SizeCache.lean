import PbVerif.Model.WireSpec
/-
The size cache of the table-driven marshaler (internal/impl/encode.go `sizePointer`,
`sizePointerSlow`, `marshalAppendPointer`; internal/impl/codec_field.go `sizeMessageInfo`,
`appendMessageInfo`; proto/encode.go `MarshalOptions.marshal`).

A message is abstracted to a content tree `T`: its scalar/bytes/unknown content is the byte string
`own` (already encoded), each child is a length-delimited submessage with its (encoded) tag.
The int32 `sizeCache` words of the message structs form a second tree `C` of the same shape
(`0` = invalid, `k+1` = "the size is `k`"; a missing node reads as `0`).  A message in memory is a
pair `(t, c)`: `size`/`marshal` read `t` and read/write `c`; mutations change `t` and never touch
`c` — that is the point of the property.  (Keeping the two trees apart makes every function
structurally recursive on the content; it is the tree-with-a-cache-word-per-node, unzipped.)
`lim` is `math.MaxInt32 - 1` (a parameter so that the overflow escape can be exercised on small
examples; the real value is `maxSizeCached`).  Core-only.
-/
namespace SizeCache
open Spec (Byte encVarint)

/-- `math.MaxInt32 - 1`: sizes above it are not cached -/
def maxSizeCached : Nat := 2147483646

mutual
/-- content -/
inductive T where
  | node (own : List Byte) (kids : Ts)
  deriving DecidableEq
inductive Ts where
  | nil
  | cons (tag : List Byte) (t : T) (tl : Ts)
  deriving DecidableEq
end

mutual
/-- the `sizeCache` words -/
inductive C where
  | node (cache : Nat) (kids : Cs)
  deriving DecidableEq
inductive Cs where
  | nil
  | cons (c : C) (tl : Cs)
  deriving DecidableEq
end

instance : Inhabited T := ⟨.node [] .nil⟩
instance : Inhabited C := ⟨.node 0 .nil⟩

def C.cache : C → Nat | .node k _ => k
def C.kids : C → Cs | .node _ ks => ks
/-- head and tail of a cache list; a missing node reads as an invalid cache -/
def Cs.head : Cs → C | .nil => .node 0 .nil | .cons c _ => c
def Cs.tail : Cs → Cs | .nil => .nil | .cons _ tl => tl

mutual
/-- reference encoding -/
def encode : T → List Byte
  | .node own kids => own ++ encodeKids kids
def encodeKids : Ts → List Byte
  | .nil => []
  | .cons tag t tl => tag ++ encVarint (encode t).length ++ encode t ++ encodeKids tl
end

/-- the cache word stored by `sizePointerSlow` for a computed size -/
def cacheWord (lim size : Nat) : Nat := if size > lim then 0 else size + 1

mutual
/-- `sizePointer(p, opts)`: with `cached` (= `opts.UseCachedSize`) a non-zero cache word is
trusted; otherwise `sizePointerSlow`: the children are sized with the SAME options and the
result is stored.  Returns the updated caches and the size. -/
def sizeP (lim : Nat) (cached : Bool) : T → C → C × Nat
  | .node own kids, c =>
    if cached && c.cache > 0 then (c, c.cache - 1)
    else
      let r := sizeKids lim cached kids c.kids
      let size := own.length + r.2
      (.node (cacheWord lim size) r.1, size)
/-- `sizeMessageInfo` summed over the message-typed fields -/
def sizeKids (lim : Nat) (cached : Bool) : Ts → Cs → Cs × Nat
  | .nil, _ => (.nil, 0)
  | .cons tag t tl, cs =>
    let rc := sizeP lim cached t cs.head
    let rt := sizeKids lim cached tl cs.tail
    (.cons rc.1 rt.1, tag.length + Spec.sizeVarint rc.2 + rc.2 + rt.2)
end

/-- `proto.Size` and the size pass of `proto.Marshal`: full recomputation, refreshing every cache -/
def sizeSlow (lim : Nat) (t : T) (c : C) : C × Nat := sizeP lim false t c
/-- sizing with `UseCachedSize` -/
def sizeCached (lim : Nat) (t : T) (c : C) : C × Nat := sizeP lim true t c

inductive MErr where
  | mismatch (calculated measured : Nat)   -- errors.MismatchedSizeCalculation
  deriving Repr, DecidableEq

instance {α : Type} [DecidableEq α] : DecidableEq (Except MErr α) := fun a b =>
  match a, b with
  | .ok x, .ok y => if h : x = y then isTrue (by rw [h]) else isFalse (by intro e; cases e; exact h rfl)
  | .error x, .error y => if h : x = y then isTrue (by rw [h]) else isFalse (by intro e; cases e; exact h rfl)
  | .ok _, .error _ => isFalse (by intro e; cases e)
  | .error _, .ok _ => isFalse (by intro e; cases e)

mutual
/-- `marshalAppendPointer` with `UseCachedSize`: own fields, then every child through
`appendMessageInfo`.  Returns the (possibly updated) caches and the bytes. -/
def marshalP (lim : Nat) : T → C → Except MErr (C × List Byte)
  | .node own kids, c =>
    match marshalKids lim kids c.kids with
    | .error e => .error e
    | .ok (cs', bs) => .ok (.node c.cache cs', own ++ bs)
/-- `appendMessageInfo`: the length prefix is `sizePointer(child, opts)` (from the cache when it is
valid); the child is then marshaled and the prefix compared with the bytes actually written -/
def marshalKids (lim : Nat) : Ts → Cs → Except MErr (Cs × List Byte)
  | .nil, _ => .ok (.nil, [])
  | .cons tag t tl, cs =>
    let rc := sizeP lim true t cs.head
    match marshalP lim t rc.1 with
    | .error e => .error e
    | .ok (c', body) =>
      if rc.2 ≠ body.length then .error (.mismatch rc.2 body.length)
      else match marshalKids lim tl cs.tail with
        | .error e => .error e
        | .ok (tl', rest) => .ok (.cons c' tl', tag ++ encVarint rc.2 ++ body ++ rest)
end

/-- the marshal pass (`methods.Marshal` with `MarshalUseCachedSize`) -/
def marshalCached (lim : Nat) (t : T) (c : C) : Except MErr (C × List Byte) := marshalP lim t c

/-- `proto.Marshal` (default options): the size pass WITHOUT `UseCachedSize`, then the marshal pass -/
def marshal (lim : Nat) (t : T) (c : C) : Except MErr (C × List Byte) :=
  marshalCached lim t (sizeSlow lim t c).1

/-- `proto.MarshalOptions{UseCachedSize: true}.Marshal`: both passes trust the caches -/
def marshalUC (lim : Nat) (t : T) (c : C) : Except MErr (C × List Byte) :=
  marshalCached lim t (sizeCached lim t c).1

/-! ### histories -/

mutual
/-- replace the own payload of the node at `path` (child indices); caches are not an argument -/
def setOwn : T → List Nat → List Byte → T
  | .node _ kids, [], new => .node new kids
  | .node own kids, i :: p, new => .node own (setOwnKids kids i p new)
def setOwnKids : Ts → Nat → List Nat → List Byte → Ts
  | .nil, _, _, _ => .nil
  | .cons tag t tl, 0, p, new => .cons tag (setOwn t p new) tl
  | .cons tag t tl, i + 1, p, new => .cons tag t (setOwnKids tl i p new)
end

inductive Op where
  /-- a mutation of scalar content somewhere in the tree: no cache is touched -/
  | mutate (path : List Nat) (own : List Byte)
  /-- any other change of the message (fields set/cleared, submessages replaced, …): arbitrary new
  content; the caches of retained/installed message structs are whatever they were: arbitrary -/
  | replace (t : T) (c : C)
  | size
  | marshal
  | marshalUC

structure St where
  t : T
  c : C
  /-- results of the marshal calls so far: content at the time of the call, `UseCachedSize`?, result -/
  out : List (T × Bool × Except MErr (List Byte))

def step (lim : Nat) (s : St) : Op → St
  | .mutate p own => { s with t := setOwn s.t p own }
  | .replace t c => { s with t := t, c := c }
  | .size => { s with c := (sizeSlow lim s.t s.c).1 }
  | .marshal =>
    match marshal lim s.t s.c with
    | .ok (c', bs) => { s with c := c', out := s.out ++ [(s.t, false, .ok bs)] }
    | .error e => { s with out := s.out ++ [(s.t, false, .error e)] }
  | .marshalUC =>
    match marshalUC lim s.t s.c with
    | .ok (c', bs) => { s with c := c', out := s.out ++ [(s.t, true, .ok bs)] }
    | .error e => { s with out := s.out ++ [(s.t, true, .error e)] }

def run (lim : Nat) (s : St) (ops : List Op) : St := ops.foldl (step lim) s

end SizeCache
