import PbVerif.Gen.AliasFacts
/-
Abstract heap for property C14 ("decoded and cloned messages never alias caller memory").

Memory is a set of REGIONS (allocations); a message is a tree whose bytes / string leaves say which
region they point into.  What the model keeps of the Go code is exactly the question the property
asks: for every place where the code stores a value it read from the input buffer (decoding) or
from the source message (merge, clone), does the stored value point into a fresh allocation or into
the memory it was read from?  That answer is not written here: every leaf of the input carries the
`Coder` that the implementation dispatches to, and the region of the decoded / merged leaf is
computed from the coder's table entry (`Coder.dec`, `Coder.mrg`) and from the entry of the lazy
buffer — `Gen/AliasFacts.lean`, extracted from the Go sources on every run.

Mirrors:
  decodeF / decodeFs   internal/impl/decode.go unmarshalPointerEager, lazy.go unmarshalPointerLazy
                       (buffer retention `SetBuffer`, AliasBuffer flag set for the nested decoding,
                       lazy fields skipped and left as slices of the retained buffer),
                       proto/decode.go unmarshalMessageSlow (no lazy messages there)
  forceF / forceFs     lazy.go lazyUnmarshal (decodes `lazy.Buffer()[start:end]` with lazyUnmarshalOptions,
                       whose flags contain UnmarshalAliasBuffer)
  mergeF / mergeFs     internal/impl/merge.go mergePointer + the merge functions of the coders,
                       proto/merge.go mergeMessage / mergeList / mergeMap; Clone = merge into a new message
Core Lean only.
-/
namespace Heap
open Gen.AliasFacts (Cls Kind Coder)

/-- an allocation -/
inductive Region where
  /-- the caller's buffer handed to Unmarshal (for protodelim: the window of the reader's buffer) -/
  | input
  /-- an allocation made by the library during operation number `epoch`, for the value at `path` -/
  | fresh (epoch : Nat) (path : List Nat)
  /-- memory the caller allocated for a message it built itself (`Set`, `Append`, …) -/
  | src (n : Nat)
  deriving DecidableEq, Repr

/-- the content of memory: region → offset → byte -/
abbrev Store := Region → Nat → Nat

def read (s : Store) (r : Region) (off len : Nat) : List Nat :=
  (List.range len).map fun i => s r (off + i)

/-- `s` and `s'` differ at most inside the regions `rs` -/
def agreeOutside (rs : List Region) (s s' : Store) : Prop :=
  ∀ r, r ∉ rs → ∀ i, s r i = s' r i

/-- arbitrary writes into one region -/
def overwrite (s : Store) (r : Region) (f : Nat → Nat) : Store :=
  fun r' i => if r' = r then f i else s r' i

theorem agreeOutside_overwrite (s : Store) (r : Region) (f : Nat → Nat) :
    agreeOutside [r] s (overwrite s r f) := by
  intro r' h i
  have : r' ≠ r := by simpa using h
  simp [overwrite, this]

/-! ### what the decoder sees in its input -/

mutual
/-- the fields of one message as they lie in the input, keyed by field number -/
inductive WFields where
  | nil
  | cons (num : Nat) (f : WField) (rest : WFields)
inductive WField where
  /-- a bytes / string / unknown-field record at `[off, off+len)`, decoded by coder `c` -/
  | leaf (c : Coder) (off len : Nat)
  /-- a nested message at `[off, off+len)`. `msgLazy`: the nested message type has lazy fields and
  lazy decoding applies to it (it retains a buffer); `fieldLazy`: the field itself is `[lazy = true]` -/
  | sub (msgLazy fieldLazy : Bool) (off len : Nat) (fs : WFields)
  /-- all occurrences of a repeated field / all entries of a map field -/
  | list (elems : WFields)
end

/-- a top-level input -/
structure Wire where
  msgLazy : Bool
  fields : WFields

/-! ### messages in memory -/

mutual
inductive Fields where
  | nil
  | cons (num : Nat) (f : Field) (rest : Fields)
inductive Field where
  /-- a bytes / string value (or a chunk of the unknown-field buffer) stored by coder `c`:
  `len` bytes at offset `off` of region `r` -/
  | leaf (c : Coder) (r : Region) (off len : Nat)
  /-- a message; `buf` is the buffer it retains for lazy decoding, if any -/
  | sub (buf : Option Region) (fs : Fields)
  /-- a list / map -/
  | list (elems : Fields)
  /-- a lazy field that has not been decoded yet: a slice of the retained buffer -/
  | thunk (buf : Region) (off len : Nat) (msgLazy : Bool) (w : WFields)
end

structure Tree where
  buf : Option Region
  fields : Fields

/-- Go strings are immutable; everything else a leaf can hold is a `[]byte` -/
def isMutable (c : Coder) : Bool := c.kind != .string

/-! ### reachability and observation -/

mutual
/-- every reference a message holds: (can the holder of the message WRITE through it by way of the
API — `[]byte` values returned by getters, elements of bytes lists, map values, the unknown-field
buffer — ?, the region it points into).  Strings, retained buffers and undecoded lazy fields are
read-only references. -/
def refsFs : Fields → List (Bool × Region)
  | .nil => []
  | .cons _ f rest => refsF f ++ refsFs rest
def refsF : Field → List (Bool × Region)
  | .leaf c r _ _ => [(isMutable c, r)]
  | .sub buf fs => (buf.toList.map fun b => (false, b)) ++ refsFs fs
  | .list es => refsFs es
  | .thunk buf _ _ _ _ => [(false, buf)]
end

def Tree.refs (t : Tree) : List (Bool × Region) := (t.buf.toList.map fun b => (false, b)) ++ refsFs t.fields

/-- every region a message can reach -/
def reachFs (fs : Fields) : List Region := (refsFs fs).map Prod.snd
def reachable (t : Tree) : List Region := t.refs.map Prod.snd

/-- the regions the holder of the message can write into -/
def mreachFs (fs : Fields) : List Region := ((refsFs fs).filter fun x => x.1).map Prod.snd
def writable (t : Tree) : List Region := (t.refs.filter fun x => x.1).map Prod.snd

/-- the regions the message only reads (string storage, retained buffers) -/
def ireachFs (fs : Fields) : List Region := ((refsFs fs).filter fun x => !x.1).map Prod.snd
def readOnly (t : Tree) : List Region := (t.refs.filter fun x => !x.1).map Prod.snd

mutual
/-- what is seen through a store: the content of every leaf, in field order (an undecoded lazy
field is seen as its raw bytes) -/
def viewFs (s : Store) : Fields → List (List Nat)
  | .nil => []
  | .cons _ f rest => viewF s f ++ viewFs s rest
def viewF (s : Store) : Field → List (List Nat)
  | .leaf _ r off len => [read s r off len]
  | .sub _ fs => viewFs s fs
  | .list es => viewFs s es
  | .thunk buf off len _ _ => [read s buf off len]
end

def view (s : Store) (t : Tree) : List (List Nat) := viewFs s t.fields

mutual
def noThunksFs : Fields → Bool
  | .nil => true
  | .cons _ f rest => noThunksF f && noThunksFs rest
def noThunksF : Field → Bool
  | .leaf _ _ _ _ => true
  | .sub _ fs => noThunksFs fs
  | .list es => noThunksFs es
  | .thunk _ _ _ _ _ => false
end

/-! ### decoding -/

/-- where a decoded value lives, given the table class of the coder that stored it:
`cur` is the memory being decoded from, `fr` a new allocation. Every class other than the two
copying ones keeps pointing into `cur`. -/
def place (cls : Cls) (flag : Bool) (cur fr : Region) (off : Nat) : Region × Nat :=
  match cls with
  | .copy => (fr, 0)
  | .aliasOnlyUnderFlag => if flag then (cur, off) else (fr, 0)
  | _ => (cur, off)

/-- lazy.go unmarshalPointerLazy, beginning: which buffer is retained, and with which flag and from
which memory the rest of the message is decoded.
`aliasOnlyUnderFlag` is the code as it is: `if !opts.AliasBuffer() { b = append([]byte{}, b...);
opts.flags |= UnmarshalAliasBuffer }; SetBuffer(b)`. -/
def lazyEnter (cls : Cls) (flag : Bool) (cur fr : Region) : Region × Bool × Region :=
  match cls with
  | .aliasOnlyUnderFlag => if flag then (cur, true, cur) else (fr, true, fr)
  | .copy => (fr, flag, cur)
  | _ => (cur, flag, cur)

mutual
/-- `lb`: table class of the lazy buffer; `e`: allocation epoch; `defer`: leave lazy fields undecoded;
`flag`: UnmarshalAliasBuffer; `cur`: the memory being decoded; `lbuf`: the buffer retained by the
enclosing message, if it decodes lazily; `p`: position (names the allocations). -/
def decodeFs (lb : Cls) (e : Nat) (defer : Bool) (flag : Bool) (cur : Region) (lbuf : Option Region) (p : List Nat) :
    WFields → Fields
  | .nil => .nil
  | .cons n f rest => .cons n (decodeF lb e defer flag cur lbuf (n :: p) f) (decodeFs lb e defer flag cur lbuf p rest)
def decodeF (lb : Cls) (e : Nat) (defer : Bool) (flag : Bool) (cur : Region) (lbuf : Option Region) (p : List Nat) :
    WField → Field
  | .leaf c off len =>
    let (r, o) := place c.dec flag cur (.fresh e p) off
    .leaf c r o len
  | .list es => .list (decodeFs lb e defer flag cur lbuf (0 :: p) es)
  | .sub msgLazy fieldLazy off len fs =>
    match defer && fieldLazy, lbuf with
    | true, some b =>
      -- validated and skipped; decoded on first access from the retained buffer
      .thunk b off len msgLazy fs
    | _, _ =>
      if msgLazy then
        let (buf, flag', cur') := lazyEnter lb flag cur (.fresh e (0 :: p))
        .sub (some buf) (decodeFs lb e defer flag' cur' (some buf) (1 :: p) fs)
      else
        .sub none (decodeFs lb e defer flag cur none (1 :: p) fs)
end

/-- the message-level entry (decode.go unmarshalPointer) -/
def decode (lb : Cls) (e : Nat) (defer : Bool) (flag : Bool) (cur : Region) (w : Wire) : Tree :=
  if w.msgLazy then
    let (buf, flag', cur') := lazyEnter lb flag cur (.fresh e [0])
    { buf := some buf, fields := decodeFs lb e defer flag' cur' (some buf) [1] w.fields }
  else
    { buf := none, fields := decodeFs lb e defer flag cur none [1] w.fields }

/-- proto.Unmarshal: the flag is whatever the public options can set; the table entry of the lazy
buffer is the extracted one -/
def unmarshal (e : Nat) (defer : Bool) (w : Wire) : Tree :=
  decode Gen.AliasFacts.lazyBuffer e defer Gen.AliasFacts.publicUnmarshalSetsAlias .input w

/-- protodelim.UnmarshalFrom through a `*bufio.Reader`: the message is decoded from the Peek window
(region `input`); the window is referenced afterwards only if the extracted entry says that
UnmarshalFrom does more with it than handing it to Unmarshal -/
def delimUnmarshal (e : Nat) (defer : Bool) (w : Wire) : Tree :=
  match Gen.AliasFacts.delimWindow with
  | .transient | .copy => unmarshal e defer w
  | _ => { unmarshal e defer w with buf := some .input }

mutual
/-- lazyUnmarshal on every lazy field that is still a slice of the buffer -/
def forceFs (lb : Cls) (e : Nat) (p : List Nat) : Fields → Fields
  | .nil => .nil
  | .cons n f rest => .cons n (forceF lb e (n :: p) f) (forceFs lb e p rest)
def forceF (lb : Cls) (e : Nat) (p : List Nat) : Field → Field
  | .leaf c r off len => .leaf c r off len
  | .sub buf fs => .sub buf (forceFs lb e (1 :: p) fs)
  | .list es => .list (forceFs lb e (0 :: p) es)
  | .thunk buf off len msgLazy w =>
    -- lazyUnmarshalOptions: flags contain UnmarshalAliasBuffer; the data is the retained buffer
    decodeF lb e false true buf none p (.sub msgLazy false off len w)
end

def force (lb : Cls) (e : Nat) (t : Tree) : Tree := { t with fields := forceFs lb e [1] t.fields }

/-! ### the coders an input uses -/

mutual
def wcodersFs : WFields → List Coder
  | .nil => []
  | .cons _ f rest => wcodersF f ++ wcodersFs rest
def wcodersF : WField → List Coder
  | .leaf c _ _ => [c]
  | .sub _ _ _ _ fs => wcodersFs fs
  | .list es => wcodersFs es
end

mutual
/-- coders of the leaves of a message in memory (including the inputs of undecoded lazy fields) -/
def codersFs : Fields → List Coder
  | .nil => []
  | .cons _ f rest => codersF f ++ codersFs rest
def codersF : Field → List Coder
  | .leaf c _ _ _ => [c]
  | .sub _ fs => codersFs fs
  | .list es => codersFs es
  | .thunk _ _ _ _ w => wcodersFs w
end

/-- the decode function of the coder copies (or aliases only when the flag allows it) -/
def DecOK (c : Coder) : Prop := c.dec = .copy ∨ c.dec = .aliasOnlyUnderFlag
/-- the merge function of the coder copies, or shares an immutable string -/
def MrgOK (c : Coder) : Prop := c.mrg = .copy ∨ (c.kind = .string ∧ c.mrg = .immutableShare)
/-- the lazy buffer is a copy, or the caller's buffer only when the flag allows it -/
def LazyOK (lb : Cls) : Prop := lb = .copy ∨ lb = .aliasOnlyUnderFlag

instance (c : Coder) : Decidable (DecOK c) := by unfold DecOK; infer_instance
instance (c : Coder) : Decidable (MrgOK c) := by unfold MrgOK; infer_instance
instance (lb : Cls) : Decidable (LazyOK lb) := by unfold LazyOK; infer_instance

/-! ### merge and clone -/

def Fields.get? : Fields → Nat → Option Field
  | .nil, _ => none
  | .cons n f rest, k => if n = k then some f else rest.get? k

def Fields.set : Fields → Nat → Field → Fields
  | .nil, k, v => .cons k v .nil
  | .cons n f rest, k, v => if n = k then .cons n v rest else .cons n f (rest.set k v)

def Fields.append : Fields → Fields → Fields
  | .nil, ys => ys
  | .cons n f rest, ys => .cons n f (rest.append ys)

/-- where a merged value lives: a copy, or the memory of the source value -/
def mplace (cls : Cls) (sr fr : Region) (off : Nat) : Region × Nat :=
  match cls with
  | .copy => (fr, 0)
  | _ => (sr, off)

mutual
/-- merge.go mergePointer / proto/merge.go mergeMessage: every populated field of the source is
merged into the destination -/
def mergeFs (e : Nat) (p : List Nat) (dst : Fields) : Fields → Fields
  | .nil => dst
  | .cons n sf rest => mergeFs e p (dst.set n (mergeF e (n :: p) (dst.get? n) sf)) rest
/-- `d`: the current value of the field in the destination -/
def mergeF (e : Nat) (p : List Nat) (d : Option Field) : Field → Field
  | .leaf c r off len =>
    -- scalar-like fields are replaced (mergeBytes, mergeString, …, cloneBytes)
    let (r', o) := mplace c.mrg r (.fresh e p) off
    .leaf c r' o len
  | .sub _ sfs =>
    -- mergeMessage: merge into the existing message, or into a new one
    match d with
    | some (.sub dbuf dfs) => .sub dbuf (mergeFs e (1 :: p) dfs sfs)
    | _ => .sub none (mergeFs e (1 :: p) .nil sfs)
  | .list ses =>
    -- lists append copies of the source elements; map entries are replaced by copies
    -- (mergeBytesSlice, mergeMessageSlice, mergeMapOfBytes, mergeMapOfMessage, mergeList, mergeMap):
    -- every element is merged into a NEW value
    match d with
    | some (.list des) => .list (des.append (mergeFs e (0 :: p) .nil ses))
    | _ => .list (mergeFs e (0 :: p) .nil ses)
  | .thunk buf off len ml w =>
    -- mergePointer decodes a lazy source field before merging it (`mi.lazyUnmarshal(src, f.num)`),
    -- so this case does not occur for the trees the theorems are about (`noThunksFs`); the model keeps
    -- the slice, i.e. the worst case
    .thunk buf off len ml w
end

def merge (e : Nat) (dst src : Tree) : Tree := { dst with fields := mergeFs e [1] dst.fields src.fields }

/-- proto.Clone: `dst := src.New(); mergeMessage(dst, src)` -/
def clone (e : Nat) (src : Tree) : Tree := merge e { buf := none, fields := .nil } src

end Heap
