/-
Model of the import handling of `protogen.GeneratedFile` (compiler/protogen/protogen.go), the only place
where protoc-gen-go iterates over Go maps on the way to its output.

Go code modelled (line by line):

```go
type GeneratedFile struct {
    goImportPath     GoImportPath
    packageNames     map[GoImportPath]GoPackageName
    usedPackageNames map[GoPackageName]bool
    manualImports    map[GoImportPath]bool
    ...
}

func (g *GeneratedFile) QualifiedGoIdent(ident GoIdent) string {
    if ident.GoImportPath == g.goImportPath { return ident.GoName }
    if packageName, ok := g.packageNames[ident.GoImportPath]; ok { return string(packageName) + "." + ident.GoName }
    packageName := cleanPackageName(path.Base(string(ident.GoImportPath)))
    for i, orig := 1, packageName; g.usedPackageNames[packageName]; i++ {
        packageName = orig + GoPackageName(strconv.Itoa(i))
    }
    g.packageNames[ident.GoImportPath] = packageName
    g.usedPackageNames[packageName] = true
    return string(packageName) + "." + ident.GoName
}

func (g *GeneratedFile) Import(importPath GoImportPath) { g.manualImports[importPath] = true }

// Content():
for importPath := range g.packageNames {                       // map iteration: arbitrary order
    importPaths = append(importPaths, [2]string{pkgName, pkgPath})
}
for importPath := range g.manualImports {                      // map iteration: arbitrary order
    if _, ok := g.packageNames[importPath]; !ok { importPaths = append(importPaths, [2]string{"_", pkgPath}) }
}
sort.Slice(importPaths, func(i, j int) bool { return importPaths[i][1] < importPaths[j][1] })
```

Modelling decisions
* strings are byte lists (`List Nat`); Go's `<` on strings is the bytewise lexicographic order `strLt`;
* a Go map is an association list with pairwise distinct keys *in an arbitrary order*: theorems that must
  hold whatever the iteration order quantify over `List.Perm`;
* `cleanPackageName(path.Base(·))` is a parameter `clean : Str → Str` (it is property C42's subject);
* `ImportRewriteFunc` is nil for protoc-gen-go (a fact checked by the genscan tie), so `rewriteImport` is the
  identity;
* the `for` loop that looks for an unused package name becomes recursion on fuel and returns `Option`;
  `freshName_isSome` (Props/C40) shows that the fuel `used.length + 1` always suffices, i.e. the Go loop
  terminates;
* `sort.Slice` is unstable and unspecified; the model uses `List.mergeSort`, and `importBlock_unique` shows
  that *any* sorted permutation is the same list (paths are distinct), so the choice does not matter.

Core Lean only.
-/

namespace PbVerif.GenOrder

abbrev Str := List Nat

/-- Go `a < b` on strings. -/
def strLt : Str → Str → Bool
  | [], [] => false
  | [], _ :: _ => true
  | _ :: _, [] => false
  | a :: as, b :: bs => decide (a < b) || (a == b && strLt as bs)

/-- the comparator handed to the sort, as "not greater" -/
def strLe (a b : Str) : Bool := !strLt b a

/-- decimal digits of `n`, least significant first; structural recursion on fuel so that it reduces in the kernel -/
def digitsFuel : Nat → Nat → List Nat
  | 0, _ => []
  | fuel + 1, n => if n < 10 then [n] else (n % 10) :: digitsFuel fuel (n / 10)

/-- `n + 1` steps always suffice (`ofDigitsLE_digitsLE`) -/
def digitsLE (n : Nat) : List Nat := digitsFuel (n + 1) n

/-- `strconv.Itoa(n)` for `n ≥ 0` as bytes -/
def itoa (n : Nat) : Str := ((digitsLE n).map (· + 48)).reverse

/-- the `i`-th candidate of the renaming loop: `orig`, `orig1`, `orig2`, … -/
def cand (orig : Str) : Nat → Str
  | 0 => orig
  | i + 1 => orig ++ itoa (i + 1)

/-- the loop `for i, orig := 1, name; used[name]; i++ { name = orig + Itoa(i) }`, started at candidate `i` -/
def freshFrom (used : List Str) (orig : Str) : Nat → Nat → Option Str
  | 0, _ => none
  | fuel + 1, i =>
    if used.contains (cand orig i) then freshFrom used orig fuel (i + 1) else some (cand orig i)

def freshName (used : List Str) (orig : Str) : Option Str := freshFrom used orig (used.length + 1) 0

/-- the three maps of a `GeneratedFile` -/
structure GenFile where
  /-- `packageNames`, in insertion order (the order is an artefact of the model: see `importBlock_perm_invariant`) -/
  names : List (Str × Str)
  /-- `usedPackageNames` (initially the predeclared identifiers of Go) -/
  used : List Str
  /-- `manualImports` -/
  manual : List Str
deriving Repr

def lookup (names : List (Str × Str)) (p : Str) : Option Str :=
  match names.find? (fun e => e.1 == p) with
  | some e => some e.2
  | none => none

/-- `QualifiedGoIdent`: the package qualifier used for import path `p` (`some []` stands for "same package,
no qualifier") and the new state; `none` iff the renaming loop ran out of fuel (never: `qualify_isSome`). -/
def qualify (clean : Str → Str) (self : Str) (g : GenFile) (p : Str) : Option (GenFile × Str) :=
  if p = self then some (g, []) else
  match lookup g.names p with
  | some n => some (g, n)
  | none =>
    match freshName g.used (clean p) with
    | some n => some ({ g with names := g.names ++ [(p, n)], used := n :: g.used }, n)
    | none => none

/-- all references of one generated file, in the order in which the generator emits them -/
def assign (clean : Str → Str) (self : Str) (g : GenFile) : List Str → Option GenFile
  | [] => some g
  | p :: ps =>
    match qualify clean self g p with
    | some (g', _) => assign clean self g' ps
    | none => none

def underscore : Str := [95]

/-- the list collected by the two `range` loops of `Content`, for one iteration order of the two maps -/
def entries (names : List (Str × Str)) (manual : List Str) : List (Str × Str) :=
  names.map (fun e => (e.2, e.1)) ++
    (manual.filter (fun p => !(names.map Prod.fst).contains p)).map (fun p => (underscore, p))

/-- comparator of the `sort.Slice` call: by import path only -/
def entryLe (a b : Str × Str) : Bool := strLe a.2 b.2

/-- the import block: (package name, import path) pairs sorted by path -/
def importBlock (names : List (Str × Str)) (manual : List Str) : List (Str × Str) :=
  (entries names manual).mergeSort entryLe

end PbVerif.GenOrder
