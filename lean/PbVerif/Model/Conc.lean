/-
Model.Conc — protocol-level models of the concurrency mechanisms of protobuf-go (C18, C19).

Small-step interleaving semantics: a state holds the shared memory cells and `pc : Nat → PC`, the
program counter of every thread (ANY number of threads: thread ids are all of `Nat`; a thread that
never moves is indistinguishable from one that does not exist).  One `Step` is one atomic action of
one thread; `Reachable` is the inductive closure over all schedules.  Atomics are sequentially
consistent (one step = one atomic memory action); non-atomic multi-word writes are modelled as
several steps so that "a reader sees a half-written structure" is a reachable-state question.

  Lazy      internal/impl/lazy.go lazyUnmarshal + generated getter (cmd/protoc-gen-go/internal_gengo/opaque.go):
            Present → AtomicCheckPointerIsNil → UnmarshalField (decode into a fresh object;
            AtomicSetPointerIfNil = CAS(nil→p)) → AtomicLoadPointer
  Dcl       internal/impl/message.go MessageInfo.init/initOnce, internal/filedesc/desc.go
            File.lazyInit/lazyInitOnce, sync.Once (desc_list.go tables): atomic load of the done
            flag; lock; re-check; body (several plain writes); atomic store; unlock; read
  Reg       reflect/protoregistry/registry.go: globalMutex (RWMutex) around every access of the
            global registries' maps; RegisterFile inserts one declaration after the other

Each model also has an executable `next` (one labelled action) with `next_sound : next … = some t → Step … t`;
`exec`/`acceptsTrace` replay recorded event traces of the real code and build the non-vacuity
examples and the counterexamples for the broken protocol variants.  Core Lean only.
-/
namespace Conc

/-- function update -/
def upd {α} (f : Nat → α) (i : Nat) (v : α) : Nat → α := fun j => if j = i then v else f j

/-! ## (a) the lazy-field protocol -/
namespace Lazy

/-- how `lazyUnmarshal` publishes the decoded object: `AtomicSetPointerIfNil` (compare-and-swap
from nil) — or, the broken variant, a plain atomic store. -/
inductive Publish | cas | store
  deriving DecidableEq, Repr

/-- what the getter returns after `UnmarshalField`: the re-loaded cell (`AtomicLoadPointer`) — or,
the broken variant, the object it decoded itself. -/
inductive Result | reload | mine
  deriving DecidableEq, Repr

structure Cfg (β α : Type) where
  publish : Publish
  result  : Result
  present : Bool          -- presence bit of the field; read-only operations never change it
  buf     : β             -- the immutable lazy buffer
  decode  : β → α         -- decoding is a pure function of the buffer

inductive PC where
  | checkPresent
  | checkNil
  | decode
  | publish (mine : Nat)
  | load
  | done (res : Option Nat)   -- `none`: field absent, getter returned nil
  deriving DecidableEq, Repr

structure State (α : Type) where
  cell : Option Nat        -- xxx_hidden_F: nil or the identity of the published object
  next : Nat               -- allocator: next fresh object identity
  heap : Nat → Option α    -- contents of allocated objects
  lost : Nat → Bool        -- history variable: objects whose CAS failed
  pc   : Nat → PC

def init {α} : State α :=
  { cell := none, next := 0, heap := fun _ => none, lost := fun _ => false, pc := fun _ => .checkPresent }

variable {β α : Type}

/-- where a thread continues after the publish step -/
def afterPublish (cfg : Cfg β α) (m : Nat) : PC :=
  match cfg.result with
  | .reload => .load
  | .mine => .done (some m)

/-- one atomic step of thread `i` -/
inductive Step (cfg : Cfg β α) : State α → State α → Prop where
  | present_no (s i) : s.pc i = .checkPresent → cfg.present = false →
      Step cfg s { s with pc := upd s.pc i (.done none) }
  | present_yes (s i) : s.pc i = .checkPresent → cfg.present = true →
      Step cfg s { s with pc := upd s.pc i .checkNil }
  | checkNil_nil (s i) : s.pc i = .checkNil → s.cell = none →
      Step cfg s { s with pc := upd s.pc i .decode }
  | checkNil_set (s i v) : s.pc i = .checkNil → s.cell = some v →
      Step cfg s { s with pc := upd s.pc i .load }
  | decode (s i) : s.pc i = .decode →
      Step cfg s { s with next := s.next + 1, heap := upd s.heap s.next (some (cfg.decode cfg.buf)),
                          pc := upd s.pc i (.publish s.next) }
  | cas_win (s i m) : s.pc i = .publish m → cfg.publish = .cas → s.cell = none →
      Step cfg s { s with cell := some m, pc := upd s.pc i (afterPublish cfg m) }
  | cas_lose (s i m v) : s.pc i = .publish m → cfg.publish = .cas → s.cell = some v →
      Step cfg s { s with lost := upd s.lost m true, pc := upd s.pc i (afterPublish cfg m) }
  | store (s i m) : s.pc i = .publish m → cfg.publish = .store →
      Step cfg s { s with cell := some m, pc := upd s.pc i (afterPublish cfg m) }
  | load (s i v) : s.pc i = .load → s.cell = some v →
      Step cfg s { s with pc := upd s.pc i (.done (some v)) }

inductive Reachable (cfg : Cfg β α) : State α → Prop where
  | init : Reachable cfg init
  | step {s t} : Reachable cfg s → Step cfg s t → Reachable cfg t

/-- reflexive-transitive closure: `t` is a later state of `s` -/
inductive Steps (cfg : Cfg β α) : State α → State α → Prop where
  | refl (s) : Steps cfg s s
  | tail {s t u} : Steps cfg s t → Step cfg t u → Steps cfg s u

/-- the sequential result: what a single-threaded getter call returns (contents of the object) -/
def seqResult (cfg : Cfg β α) : Option α :=
  if cfg.present then some (cfg.decode cfg.buf) else none

/-! ### executable form: one recorded event of the real code -/

/-- Events as recorded from the real code (object identities renumbered by first decode). -/
inductive Ev where
  | present (i : Nat) (b : Bool)        -- X.Present returned b
  | checkNil (i : Nat) (isNil : Bool)   -- X.AtomicCheckPointerIsNil returned isNil
  | decode (i : Nat) (obj : Nat)        -- lazyUnmarshal decoded into the fresh object obj
  | publish (i : Nat) (won : Bool)      -- AtomicSetPointerIfNil: CAS succeeded / failed
  | load (i : Nat) (obj : Nat)          -- AtomicLoadPointer returned obj (the getter's result)
  deriving DecidableEq, Repr

def next (cfg : Cfg β α) (s : State α) : Ev → Option (State α)
  | .present i b =>
    if s.pc i = .checkPresent ∧ cfg.present = b then
      some { s with pc := upd s.pc i (if b then .checkNil else .done none) }
    else none
  | .checkNil i isNil =>
    if s.pc i = .checkNil ∧ s.cell.isNone = isNil then
      some { s with pc := upd s.pc i (if isNil then .decode else .load) }
    else none
  | .decode i obj =>
    if s.pc i = .decode ∧ obj = s.next then
      some { s with next := s.next + 1, heap := upd s.heap s.next (some (cfg.decode cfg.buf)),
                    pc := upd s.pc i (.publish s.next) }
    else none
  | .publish i won =>
    match s.pc i, cfg.publish with
    | .publish m, .cas =>
      if s.cell.isNone = won then
        (if won then some { s with cell := some m, pc := upd s.pc i (afterPublish cfg m) }
         else some { s with lost := upd s.lost m true, pc := upd s.pc i (afterPublish cfg m) })
      else none
    | .publish m, .store =>
      if won then some { s with cell := some m, pc := upd s.pc i (afterPublish cfg m) } else none
    | _, _ => none
  | .load i obj =>
    if s.pc i = .load ∧ s.cell = some obj then
      some { s with pc := upd s.pc i (.done (some obj)) }
    else none

def exec (cfg : Cfg β α) (s : State α) : List Ev → Option (State α)
  | [] => some s
  | e :: es => (next cfg s e).bind fun t => exec cfg t es

/-- index of the first event that is not enabled (or whose recorded observation differs from the
model's), `none` if the whole trace is a run of the model -/
def firstReject (cfg : Cfg β α) (s : State α) : List Ev → Nat → Option Nat
  | [], _ => none
  | e :: es, k => match next cfg s e with
    | none => some k
    | some t => firstReject cfg t es (k + 1)

/-- a recorded trace is accepted iff it is a run of the model from the initial state -/
def acceptsTrace (cfg : Cfg β α) (tr : List Ev) : Bool := (exec cfg init tr).isSome

theorem next_sound (cfg : Cfg β α) {s t : State α} {e : Ev} (h : next cfg s e = some t) : Step cfg s t := by
  cases e with
  | present i b =>
    simp only [next] at h
    split at h
    · rename_i hc; cases h
      cases b with
      | true => exact Step.present_yes s i hc.1 hc.2
      | false => exact Step.present_no s i hc.1 hc.2
    · cases h
  | checkNil i isNil =>
    simp only [next] at h
    split at h
    · rename_i hc; cases h
      cases isNil with
      | true =>
        have : s.cell = none := by
          cases hcell : s.cell with
          | none => rfl
          | some v => have := hc.2; simp [hcell] at this
        exact Step.checkNil_nil s i hc.1 this
      | false =>
        cases hcell : s.cell with
        | none => have := hc.2; simp [hcell] at this
        | some v => exact Step.checkNil_set s i v hc.1 hcell
    · cases h
  | decode i obj =>
    simp only [next] at h
    split at h
    · rename_i hc; cases h; exact Step.decode s i hc.1
    · cases h
  | publish i won =>
    simp only [next] at h
    split at h
    · rename_i m hpc hpub
      split at h
      · rename_i hc
        cases won with
        | true =>
          simp only [if_true] at h; cases h
          have : s.cell = none := by
            cases hcell : s.cell with
            | none => rfl
            | some v => simp [hcell] at hc
          exact Step.cas_win s i m hpc hpub this
        | false =>
          simp only [Bool.false_eq_true, if_false] at h; cases h
          cases hcell : s.cell with
          | none => simp [hcell] at hc
          | some v => exact Step.cas_lose s i m v hpc hpub hcell
      · cases h
    · rename_i m hpc hpub
      split at h
      · cases h; exact Step.store s i m hpc hpub
      · cases h
    · cases h
  | load i obj =>
    simp only [next] at h
    split at h
    · rename_i hc; cases h; exact Step.load s i obj hc.1 hc.2
    · cases h

theorem exec_steps (cfg : Cfg β α) : ∀ (tr : List Ev) {s t : State α}, exec cfg s tr = some t → Steps cfg s t
  | [], s, t, h => by simp only [exec] at h; cases h; exact Steps.refl s
  | e :: es, s, t, h => by
    simp only [exec] at h
    cases hn : next cfg s e with
    | none => simp [hn] at h
    | some u =>
      simp only [hn, Option.bind_some] at h
      have h1 := next_sound cfg hn
      have h2 := exec_steps cfg es h
      clear h hn
      induction h2 with
      | refl => exact Steps.tail (Steps.refl _) h1
      | tail _ st ih => exact Steps.tail (ih h1) st

theorem steps_reachable {cfg : Cfg β α} {s t : State α} (r : Reachable cfg s) (h : Steps cfg s t) : Reachable cfg t := by
  induction h with
  | refl => exact r
  | tail _ st ih => exact Reachable.step ih st

/-- every accepted trace is a schedule of the model -/
theorem exec_reachable (cfg : Cfg β α) {tr : List Ev} {t : State α} (h : exec cfg init tr = some t) : Reachable cfg t :=
  steps_reachable Reachable.init (exec_steps cfg tr h)

end Lazy

end Conc
