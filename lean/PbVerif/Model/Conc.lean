/-
Model.Conc — protocol-level models of the concurrency mechanisms of protobuf-go (C18, C19).

Small-step interleaving semantics: a state holds the shared memory cells and `pc : Nat → PC`, the
program counter of every thread (ANY number of threads: thread ids are all of `Nat`; a thread that
never moves is indistinguishable from one that does not exist).  One `Step` is one atomic action of
one thread; `Reachable` is the inductive closure over all schedules.  Atomics are sequentially
consistent (one step = one atomic memory action); non-atomic multi-word writes are modelled as
several steps so that "a reader sees a half-written structure" is a reachable-state question.

  Lazy      internal/impl/lazy.go lazyUnmarshal + generated getter (cmd/protoc-gen-go/internal_gengo/opaque.go):
            Present → AtomicCheckPointerIsNil → UnmarshalField (allocate a fresh object; merge every
            index entry of the field into it; AtomicSetPointerIfNil = CAS(nil→p)) → AtomicLoadPointer
  Dcl       internal/impl/message.go MessageInfo.init/initOnce, internal/filedesc/desc.go
            File.lazyInit/lazyInitOnce, sync.Once (desc_list.go tables): atomic load of the done
            flag; lock; re-check; body (several plain writes); atomic store; unlock; read
  Reg       reflect/protoregistry/registry.go: globalMutex (RWMutex) around every access of the
            global registries' maps; RegisterFile inserts one declaration after the other

Each model also has an executable `next` (one labelled action) with `next_sound : next … = some t → Step … t`;
`exec`/`acceptsTrace` replay recorded event traces of the real code and build the non-vacuity
examples and the counterexamples for the broken protocol variants.  Core Lean only.
-/
namespace Conc

/-- function update -/
def upd {α} (f : Nat → α) (i : Nat) (v : α) : Nat → α := fun j => if j = i then v else f j

/-! ## (a) the lazy-field protocol -/
namespace Lazy

/-- how `lazyUnmarshal` publishes the decoded object: `AtomicSetPointerIfNil` (compare-and-swap
from nil) — or, the broken variant, a plain atomic store. -/
inductive Publish | cas | store
  deriving DecidableEq, Repr

/-- what the getter returns after `UnmarshalField`: the re-loaded cell (`AtomicLoadPointer`) — or,
the broken variant, the object it decoded itself. -/
inductive Result | reload | mine
  deriving DecidableEq, Repr

/-- when `lazyUnmarshal` publishes: as its last action, after ALL index entries (non-contiguous
wire occurrences of the field) have been merged into the private object — or, the broken variant
"publish-then-mutate", inside the loop over the entries (after each entry). -/
inductive Timing | afterAll | insideLoop
  deriving DecidableEq, Repr

structure Cfg (β α : Type) where
  publish : Publish
  result  : Result
  timing  : Timing
  present : Bool            -- presence bit of the field; read-only operations never change it
  buf     : β               -- the immutable lazy buffer
  entries : Nat             -- number of index entries of the field (lazy.FindFieldInProto: 1, or len(multipleEntries))
  decodeK : β → Nat → α     -- contents of the object after merging the first k entries: a pure function of the buffer

/-- the complete decoding of the field -/
def Cfg.full {β α : Type} (cfg : Cfg β α) : α := cfg.decodeK cfg.buf cfg.entries

inductive PC where
  | checkPresent
  | checkNil
  | decode                                  -- about to allocate the fresh object (`reflect.New(f.ft)`)
  | own (mine : Nat) (k : Nat) (pub : Bool)  -- owns object `mine`, k entries merged; pub: at the publishing CAS
  | load
  | done (res : Option Nat)                 -- `none`: field absent, getter returned nil
  deriving DecidableEq, Repr

structure State (α : Type) where
  cell : Option Nat        -- xxx_hidden_F: nil or the identity of the published object
  next : Nat               -- allocator: next fresh object identity
  heap : Nat → Option α    -- contents of allocated objects
  lost : Nat → Bool        -- history variable: objects whose CAS failed
  pc   : Nat → PC

def init {α} : State α :=
  { cell := none, next := 0, heap := fun _ => none, lost := fun _ => false, pc := fun _ => .checkPresent }

variable {β α : Type}

/-- where a thread continues after `lazyUnmarshal` -/
def afterPublish (cfg : Cfg β α) (m : Nat) : PC :=
  match cfg.result with
  | .reload => .load
  | .mine => .done (some m)

/-- after merging one more entry (k entries merged now) -/
def afterMerge (cfg : Cfg β α) (m k : Nat) : PC :=
  match cfg.timing with
  | .afterAll => .own m k false
  | .insideLoop => .own m k true

/-- when all entries are merged -/
def afterLoop (cfg : Cfg β α) (m k : Nat) : PC :=
  match cfg.timing with
  | .afterAll => .own m k true
  | .insideLoop => afterPublish cfg m

/-- after the publishing step -/
def afterCas (cfg : Cfg β α) (m k : Nat) : PC :=
  match cfg.timing with
  | .afterAll => afterPublish cfg m
  | .insideLoop => .own m k false

/-- one atomic step of thread `i` -/
inductive Step (cfg : Cfg β α) : State α → State α → Prop where
  | present_no (s i) : s.pc i = .checkPresent → cfg.present = false →
      Step cfg s { s with pc := upd s.pc i (.done none) }
  | present_yes (s i) : s.pc i = .checkPresent → cfg.present = true →
      Step cfg s { s with pc := upd s.pc i .checkNil }
  | checkNil_nil (s i) : s.pc i = .checkNil → s.cell = none →
      Step cfg s { s with pc := upd s.pc i .decode }
  | checkNil_set (s i v) : s.pc i = .checkNil → s.cell = some v →
      Step cfg s { s with pc := upd s.pc i .load }
  | alloc (s i) : s.pc i = .decode →
      Step cfg s { s with next := s.next + 1, heap := upd s.heap s.next (some (cfg.decodeK cfg.buf 0)),
                          pc := upd s.pc i (.own s.next 0 false) }
  | merge (s i m k) : s.pc i = .own m k false → k < cfg.entries →
      Step cfg s { s with heap := upd s.heap m (some (cfg.decodeK cfg.buf (k + 1))),
                          pc := upd s.pc i (afterMerge cfg m (k + 1)) }
  | merge_end (s i m k) : s.pc i = .own m k false → ¬ k < cfg.entries →
      Step cfg s { s with pc := upd s.pc i (afterLoop cfg m k) }
  | cas_win (s i m k) : s.pc i = .own m k true → cfg.publish = .cas → s.cell = none →
      Step cfg s { s with cell := some m, pc := upd s.pc i (afterCas cfg m k) }
  | cas_lose (s i m k v) : s.pc i = .own m k true → cfg.publish = .cas → s.cell = some v →
      Step cfg s { s with lost := upd s.lost m true, pc := upd s.pc i (afterCas cfg m k) }
  | store (s i m k) : s.pc i = .own m k true → cfg.publish = .store →
      Step cfg s { s with cell := some m, pc := upd s.pc i (afterCas cfg m k) }
  | load (s i v) : s.pc i = .load → s.cell = some v →
      Step cfg s { s with pc := upd s.pc i (.done (some v)) }

inductive Reachable (cfg : Cfg β α) : State α → Prop where
  | init : Reachable cfg init
  | step {s t} : Reachable cfg s → Step cfg s t → Reachable cfg t

/-- reflexive-transitive closure: `t` is a later state of `s` -/
inductive Steps (cfg : Cfg β α) : State α → State α → Prop where
  | refl (s) : Steps cfg s s
  | tail {s t u} : Steps cfg s t → Step cfg t u → Steps cfg s u

/-- the sequential result: what a single-threaded getter call returns (contents of the object) -/
def seqResult (cfg : Cfg β α) : Option α :=
  if cfg.present then some cfg.full else none

/-! ### executable form: one recorded event of the real code -/

/-- Events as recorded from the real code (object identities renumbered by allocation order). -/
inductive Ev where
  | present (i : Nat) (b : Bool)        -- X.Present returned b
  | checkNil (i : Nat) (isNil : Bool)   -- X.AtomicCheckPointerIsNil returned isNil
  | alloc (i : Nat) (obj : Nat)         -- lazyUnmarshal allocated the fresh object obj
  | merge (i : Nat)                     -- merged one more index entry into its object
  | mergeEnd (i : Nat)                  -- left the loop over the entries
  | publish (i : Nat) (won : Bool)      -- AtomicSetPointerIfNil: CAS succeeded / failed
  | load (i : Nat) (obj : Nat)          -- AtomicLoadPointer returned obj (the getter's result)
  deriving DecidableEq, Repr

def next (cfg : Cfg β α) (s : State α) : Ev → Option (State α)
  | .present i b =>
    if s.pc i = .checkPresent ∧ cfg.present = b then
      some { s with pc := upd s.pc i (if b then .checkNil else .done none) }
    else none
  | .checkNil i isNil =>
    if s.pc i = .checkNil ∧ s.cell.isNone = isNil then
      some { s with pc := upd s.pc i (if isNil then .decode else .load) }
    else none
  | .alloc i obj =>
    if s.pc i = .decode ∧ obj = s.next then
      some { s with next := s.next + 1, heap := upd s.heap s.next (some (cfg.decodeK cfg.buf 0)),
                    pc := upd s.pc i (.own s.next 0 false) }
    else none
  | .merge i =>
    match s.pc i with
    | .own m k false =>
      if k < cfg.entries then
        some { s with heap := upd s.heap m (some (cfg.decodeK cfg.buf (k + 1))),
                      pc := upd s.pc i (afterMerge cfg m (k + 1)) }
      else none
    | _ => none
  | .mergeEnd i =>
    match s.pc i with
    | .own m k false =>
      if k < cfg.entries then none else some { s with pc := upd s.pc i (afterLoop cfg m k) }
    | _ => none
  | .publish i won =>
    match s.pc i, cfg.publish with
    | .own m k true, .cas =>
      if s.cell.isNone = won then
        (if won then some { s with cell := some m, pc := upd s.pc i (afterCas cfg m k) }
         else some { s with lost := upd s.lost m true, pc := upd s.pc i (afterCas cfg m k) })
      else none
    | .own m k true, .store =>
      if won then some { s with cell := some m, pc := upd s.pc i (afterCas cfg m k) } else none
    | _, _ => none
  | .load i obj =>
    if s.pc i = .load ∧ s.cell = some obj then
      some { s with pc := upd s.pc i (.done (some obj)) }
    else none

def exec (cfg : Cfg β α) (s : State α) : List Ev → Option (State α)
  | [] => some s
  | e :: es => (next cfg s e).bind fun t => exec cfg t es

/-- index of the first event that is not enabled (or whose recorded observation differs from the
model's), `none` if the whole trace is a run of the model -/
def firstReject (cfg : Cfg β α) (s : State α) : List Ev → Nat → Option Nat
  | [], _ => none
  | e :: es, k => match next cfg s e with
    | none => some k
    | some t => firstReject cfg t es (k + 1)

/-- a recorded trace is accepted iff it is a run of the model from the initial state -/
def acceptsTrace (cfg : Cfg β α) (tr : List Ev) : Bool := (exec cfg init tr).isSome

/-- `lazyUnmarshal` up to (excluding) the CAS as the hooks record it: allocation and all merges -/
def decodeEvents (cfg : Cfg β α) (i obj : Nat) : List Ev :=
  .alloc i obj :: (List.replicate cfg.entries (.merge i) ++ [.mergeEnd i])

theorem isNone_true {o : Option Nat} (h : o.isNone = true) : o = none := by
  cases o with
  | none => rfl
  | some v => simp at h

theorem isNone_false {o : Option Nat} (h : o.isNone = false) : ∃ v, o = some v := by
  cases o with
  | none => simp at h
  | some v => exact ⟨v, rfl⟩

theorem Steps.head {cfg : Cfg β α} {s t u : State α} (h1 : Step cfg s t) (h2 : Steps cfg t u) : Steps cfg s u := by
  induction h2 with
  | refl => exact Steps.tail (Steps.refl _) h1
  | tail _ st ih => exact Steps.tail ih st

theorem next_sound (cfg : Cfg β α) {s t : State α} {e : Ev} (h : next cfg s e = some t) : Step cfg s t := by
  cases e with
  | present i b =>
    simp only [next] at h
    split at h
    · rename_i hc; cases h
      cases b with
      | true => exact Step.present_yes s i hc.1 hc.2
      | false => exact Step.present_no s i hc.1 hc.2
    · cases h
  | checkNil i isNil =>
    simp only [next] at h
    split at h
    · rename_i hc; cases h
      cases isNil with
      | true => exact Step.checkNil_nil s i hc.1 (isNone_true hc.2)
      | false =>
        obtain ⟨v, hv⟩ := isNone_false hc.2
        exact Step.checkNil_set s i v hc.1 hv
    · cases h
  | alloc i obj =>
    simp only [next] at h
    split at h
    · rename_i hc; cases h; exact Step.alloc s i hc.1
    · cases h
  | merge i =>
    simp only [next] at h
    split at h
    · rename_i m k hpc
      split at h
      · rename_i hk; cases h; exact Step.merge s i m k hpc hk
      · cases h
    · cases h
  | mergeEnd i =>
    simp only [next] at h
    split at h
    · rename_i m k hpc
      split at h
      · cases h
      · rename_i hk; cases h; exact Step.merge_end s i m k hpc hk
    · cases h
  | publish i won =>
    simp only [next] at h
    split at h
    · rename_i m k hpc hpub
      split at h
      · rename_i hc
        cases won with
        | true =>
          simp only [if_true] at h; cases h
          exact Step.cas_win s i m k hpc hpub (isNone_true hc)
        | false =>
          simp only [Bool.false_eq_true, if_false] at h; cases h
          obtain ⟨v, hv⟩ := isNone_false hc
          exact Step.cas_lose s i m k v hpc hpub hv
      · cases h
    · rename_i m k hpc hpub
      split at h
      · cases h; exact Step.store s i m k hpc hpub
      · cases h
    · cases h
  | load i obj =>
    simp only [next] at h
    split at h
    · rename_i hc; cases h; exact Step.load s i obj hc.1 hc.2
    · cases h

theorem exec_steps (cfg : Cfg β α) : ∀ (tr : List Ev) {s t : State α}, exec cfg s tr = some t → Steps cfg s t
  | [], s, t, h => by simp only [exec] at h; cases h; exact Steps.refl s
  | e :: es, s, t, h => by
    simp only [exec] at h
    cases hn : next cfg s e with
    | none => simp [hn] at h
    | some u =>
      simp only [hn, Option.bind_some] at h
      exact Steps.head (next_sound cfg hn) (exec_steps cfg es h)

theorem steps_reachable {cfg : Cfg β α} {s t : State α} (r : Reachable cfg s) (h : Steps cfg s t) : Reachable cfg t := by
  induction h with
  | refl => exact r
  | tail _ st ih => exact Reachable.step ih st

/-- every accepted trace is a schedule of the model -/
theorem exec_reachable (cfg : Cfg β α) {tr : List Ev} {t : State α} (h : exec cfg init tr = some t) : Reachable cfg t :=
  steps_reachable Reachable.init (exec_steps cfg tr h)

/-- the state after a schedule (the initial state if the schedule is not a run) — always reachable -/
def run (cfg : Cfg β α) (tr : List Ev) : State α := (exec cfg init tr).getD init

theorem run_reachable (cfg : Cfg β α) (tr : List Ev) : Reachable cfg (run cfg tr) := by
  unfold run
  cases h : exec cfg init tr with
  | none => exact Reachable.init
  | some t => exact exec_reachable cfg h

end Lazy

/-! ## (b), (c) double-checked initialisation and sync.Once -/
namespace Dcl

/-- the re-check under the lock: `if mi.initDone == 1 { return }` (MessageInfo.initOnce,
sync.Once.doSlow) reads the done flag; `if fd.L2 == nil { … }` (File.lazyInitOnce) reads the
structure itself, whose first body write (`fd.L2 = new(FileL2)`) makes it non-nil. -/
inductive Recheck | flag | started
  deriving DecidableEq, Repr

/-- `bodyThenStore`: the code's order.  `storeThenBody`: the broken variant in which the done flag is
published before the body has run. -/
inductive Order | bodyThenStore | storeThenBody
  deriving DecidableEq, Repr

structure Cfg where
  writes     : Nat      -- the body performs this many plain (non-atomic) writes, one step each
  recheck    : Recheck
  storeOnHit : Bool     -- File.lazyInitOnce stores the flag again when the re-check finds L2 set
  order      : Order
  locks      : Bool     -- the slow path is bracketed by mu.Lock()/mu.Unlock() (broken variant: it is not)
  deriving DecidableEq, Repr

inductive PC where
  | fast                      -- atomic.LoadUint32(&done) == 0 ?
  | lock                      -- mu.Lock()
  | recheck
  | body (k : Nat)            -- about to perform write number k
  | store (thenBody : Bool)   -- atomic.StoreUint32(&done, 1)
  | unlock                    -- mu.Unlock()
  | read                      -- the caller uses the initialised structure
  | done (obs : List Nat)     -- what it observed
  deriving DecidableEq, Repr

structure State where
  flag  : Bool            -- initDone / once / sync.Once.done
  mutex : Option Nat      -- holder of initMu / mu / Once.m
  data  : List Nat        -- the shared structure: the writes performed so far, in order
  runs  : Nat             -- history variable: how many times the body was entered
  pc    : Nat → PC

def init : State := { flag := false, mutex := none, data := [], runs := 0, pc := fun _ => .fast }

/-- the structure after a complete run of the body -/
def complete (cfg : Cfg) : List Nat := List.range cfg.writes

def initialised (cfg : Cfg) (s : State) : Bool :=
  match cfg.recheck with
  | .flag => s.flag
  | .started => !s.data.isEmpty

def afterHit (cfg : Cfg) : PC := if cfg.storeOnHit then .store false else .unlock
def afterMiss (cfg : Cfg) : PC := match cfg.order with | .bodyThenStore => .body 0 | .storeThenBody => .store true
def afterBody (cfg : Cfg) : PC := match cfg.order with | .bodyThenStore => .store false | .storeThenBody => .unlock
def afterStore (thenBody : Bool) : PC := if thenBody then .body 0 else .unlock

inductive Step (cfg : Cfg) : State → State → Prop where
  | fast_hit (s i) : s.pc i = .fast → s.flag = true →
      Step cfg s { s with pc := upd s.pc i .read }
  | fast_miss (s i) : s.pc i = .fast → s.flag = false →
      Step cfg s { s with pc := upd s.pc i .lock }
  | lock (s i) : s.pc i = .lock → cfg.locks = true → s.mutex = none →
      Step cfg s { s with mutex := some i, pc := upd s.pc i .recheck }
  | nolock (s i) : s.pc i = .lock → cfg.locks = false →
      Step cfg s { s with mutex := some i, pc := upd s.pc i .recheck }
  | recheck_hit (s i) : s.pc i = .recheck → initialised cfg s = true →
      Step cfg s { s with pc := upd s.pc i (afterHit cfg) }
  | recheck_miss (s i) : s.pc i = .recheck → initialised cfg s = false →
      Step cfg s { s with runs := s.runs + 1, pc := upd s.pc i (afterMiss cfg) }
  | write (s i k) : s.pc i = .body k → k < cfg.writes →
      Step cfg s { s with data := s.data ++ [k], pc := upd s.pc i (.body (k + 1)) }
  | body_end (s i k) : s.pc i = .body k → ¬ k < cfg.writes →
      Step cfg s { s with pc := upd s.pc i (afterBody cfg) }
  | store (s i b) : s.pc i = .store b →
      Step cfg s { s with flag := true, pc := upd s.pc i (afterStore b) }
  | unlock (s i) : s.pc i = .unlock →
      Step cfg s { s with mutex := none, pc := upd s.pc i .read }
  | read (s i) : s.pc i = .read →
      Step cfg s { s with pc := upd s.pc i (.done s.data) }

inductive Reachable (cfg : Cfg) : State → Prop where
  | init : Reachable cfg init
  | step {s t} : Reachable cfg s → Step cfg s t → Reachable cfg t

inductive Steps (cfg : Cfg) : State → State → Prop where
  | refl (s) : Steps cfg s s
  | tail {s t u} : Steps cfg s t → Step cfg t u → Steps cfg s u

/-- inside the critical section -/
def inCS : PC → Bool
  | .recheck | .body _ | .store _ | .unlock => true
  | _ => false

inductive Ev where
  | fast (i : Nat) (hit : Bool)
  | lock (i : Nat)
  | recheck (i : Nat) (hit : Bool)
  | write (i : Nat) (k : Nat)
  | bodyEnd (i : Nat)
  | store (i : Nat)
  | unlock (i : Nat)
  | read (i : Nat)
  deriving DecidableEq, Repr

def next (cfg : Cfg) (s : State) : Ev → Option State
  | .fast i hit =>
    if s.pc i = .fast ∧ s.flag = hit then some { s with pc := upd s.pc i (if hit then .read else .lock) } else none
  | .lock i =>
    if s.pc i = .lock ∧ (cfg.locks = false ∨ s.mutex = none) then some { s with mutex := some i, pc := upd s.pc i .recheck } else none
  | .recheck i hit =>
    if s.pc i = .recheck ∧ initialised cfg s = hit then
      (if hit then some { s with pc := upd s.pc i (afterHit cfg) }
       else some { s with runs := s.runs + 1, pc := upd s.pc i (afterMiss cfg) })
    else none
  | .write i k =>
    if s.pc i = .body k ∧ k < cfg.writes then
      some { s with data := s.data ++ [k], pc := upd s.pc i (.body (k + 1)) }
    else none
  | .bodyEnd i =>
    match s.pc i with
    | .body k => if k < cfg.writes then none else some { s with pc := upd s.pc i (afterBody cfg) }
    | _ => none
  | .store i =>
    match s.pc i with
    | .store b => some { s with flag := true, pc := upd s.pc i (afterStore b) }
    | _ => none
  | .unlock i =>
    if s.pc i = .unlock then some { s with mutex := none, pc := upd s.pc i .read } else none
  | .read i =>
    if s.pc i = .read then some { s with pc := upd s.pc i (.done s.data) } else none

def exec (cfg : Cfg) (s : State) : List Ev → Option State
  | [] => some s
  | e :: es => (next cfg s e).bind fun t => exec cfg t es

def firstReject (cfg : Cfg) (s : State) : List Ev → Nat → Option Nat
  | [], _ => none
  | e :: es, k => match next cfg s e with
    | none => some k
    | some t => firstReject cfg t es (k + 1)

def acceptsTrace (cfg : Cfg) (tr : List Ev) : Bool := (exec cfg init tr).isSome

theorem Steps.head {cfg : Cfg} {s t u : State} (h1 : Step cfg s t) (h2 : Steps cfg t u) : Steps cfg s u := by
  induction h2 with
  | refl => exact Steps.tail (Steps.refl _) h1
  | tail _ st ih => exact Steps.tail ih st

theorem next_sound (cfg : Cfg) {s t : State} {e : Ev} (h : next cfg s e = some t) : Step cfg s t := by
  cases e with
  | fast i hit =>
    simp only [next] at h
    split at h
    · rename_i hc; cases h
      cases hit with
      | true => exact Step.fast_hit s i hc.1 hc.2
      | false => exact Step.fast_miss s i hc.1 hc.2
    · cases h
  | lock i =>
    simp only [next] at h
    split at h
    · rename_i hc; cases h
      cases hl : cfg.locks with
      | true => exact Step.lock s i hc.1 hl (by simpa [hl] using hc.2)
      | false => exact Step.nolock s i hc.1 hl
    · cases h
  | recheck i hit =>
    simp only [next] at h
    split at h
    · rename_i hc
      cases hit with
      | true => simp only [if_true] at h; cases h; exact Step.recheck_hit s i hc.1 hc.2
      | false => simp only [Bool.false_eq_true, if_false] at h; cases h; exact Step.recheck_miss s i hc.1 hc.2
    · cases h
  | write i k =>
    simp only [next] at h
    split at h
    · rename_i hc; cases h; exact Step.write s i k hc.1 hc.2
    · cases h
  | bodyEnd i =>
    simp only [next] at h
    split at h
    · rename_i k hpc
      split at h
      · cases h
      · rename_i hk; cases h; exact Step.body_end s i k hpc hk
    · cases h
  | store i =>
    simp only [next] at h
    split at h
    · rename_i b hpc; cases h; exact Step.store s i b hpc
    · cases h
  | unlock i =>
    simp only [next] at h
    split at h
    · rename_i hc; cases h; exact Step.unlock s i hc
    · cases h
  | read i =>
    simp only [next] at h
    split at h
    · rename_i hc; cases h; exact Step.read s i hc
    · cases h

theorem exec_steps (cfg : Cfg) : ∀ (tr : List Ev) {s t : State}, exec cfg s tr = some t → Steps cfg s t
  | [], s, t, h => by simp only [exec] at h; cases h; exact Steps.refl s
  | e :: es, s, t, h => by
    simp only [exec] at h
    cases hn : next cfg s e with
    | none => simp [hn] at h
    | some u =>
      simp only [hn, Option.bind_some] at h
      exact Steps.head (next_sound cfg hn) (exec_steps cfg es h)

theorem steps_reachable {cfg : Cfg} {s t : State} (r : Reachable cfg s) (h : Steps cfg s t) : Reachable cfg t := by
  induction h with
  | refl => exact r
  | tail _ st ih => exact Reachable.step ih st

theorem exec_reachable (cfg : Cfg) {tr : List Ev} {t : State} (h : exec cfg init tr = some t) : Reachable cfg t :=
  steps_reachable Reachable.init (exec_steps cfg tr h)

def run (cfg : Cfg) (tr : List Ev) : State := (exec cfg init tr).getD init

theorem run_reachable (cfg : Cfg) (tr : List Ev) : Reachable cfg (run cfg tr) := by
  unfold run
  cases h : exec cfg init tr with
  | none => exact Reachable.init
  | some t => exact exec_reachable cfg h

end Dcl

/-! ## (d) a registry protected by a readers/writer mutex -/
namespace Reg

/-- an operation on the global registry: `RegisterFile(f)` or a lookup (`Find*`, `Range*`, `Num*`) -/
inductive Op | register (f : Nat) | lookup
  deriving DecidableEq, Repr

/-- registry contents: the name table (`descsByName`: one entry per declaration, inserted one
after the other) and `filesByPath` (appended last). -/
structure Tab where
  entries : List (Nat × Nat)    -- (file, index of the declaration inside the file)
  files   : List Nat
  deriving DecidableEq, Repr

/-- result of an operation; a lookup returns everything it could possibly see: a snapshot -/
inductive Res | ok | conflict | snap (t : Tab)
  deriving DecidableEq, Repr

structure Cfg where
  prog  : Nat → Op       -- the operation performed by thread i (any program)
  ndecl : Nat → Nat      -- number of declarations of file f
  readerLocks : Bool     -- lookups hold globalMutex.RLock (the broken variant does not)

inductive PC where
  | idle
  | wcheck                 -- holds the write lock; conflict checks
  | ins (k : Nat)          -- about to insert declaration k
  | wunlock (r : Res)
  | rread                  -- holds the read lock; about to read the maps
  | runlock (r : Res)
  | done (r : Res)
  deriving DecidableEq, Repr

structure State where
  tab     : Tab
  writer  : Option Nat     -- holder of globalMutex.Lock
  readers : List Nat       -- holders of globalMutex.RLock
  log     : List Nat       -- history variable: threads in the order in which they acquired the lock
  pc      : Nat → PC

def init : State := { tab := ⟨[], []⟩, writer := none, readers := [], log := [], pc := fun _ => .idle }

def decls (cfg : Cfg) (f : Nat) : List (Nat × Nat) := (List.range (cfg.ndecl f)).map fun k => (f, k)

/-- the sequential registry: one whole operation at a time -/
def seqApply (cfg : Cfg) (t : Tab) : Op → Tab × Res
  | .register f =>
    if f ∈ t.files then (t, .conflict)
    else ({ entries := t.entries ++ decls cfg f, files := t.files ++ [f] }, .ok)
  | .lookup => (t, .snap t)

def seqRun (cfg : Cfg) (ops : List Op) : Tab := ops.foldl (fun t op => (seqApply cfg t op).1) ⟨[], []⟩

inductive Step (cfg : Cfg) : State → State → Prop where
  | wlock (s i f) : s.pc i = .idle → cfg.prog i = .register f → s.writer = none → s.readers = [] →
      Step cfg s { s with writer := some i, log := s.log ++ [i], pc := upd s.pc i .wcheck }
  | wcheck_dup (s i f) : s.pc i = .wcheck → cfg.prog i = .register f → f ∈ s.tab.files →
      Step cfg s { s with pc := upd s.pc i (.wunlock .conflict) }
  | wcheck_new (s i f) : s.pc i = .wcheck → cfg.prog i = .register f → f ∉ s.tab.files →
      Step cfg s { s with pc := upd s.pc i (.ins 0) }
  | ins (s i f k) : s.pc i = .ins k → cfg.prog i = .register f → k < cfg.ndecl f →
      Step cfg s { s with tab := { s.tab with entries := s.tab.entries ++ [(f, k)] }, pc := upd s.pc i (.ins (k + 1)) }
  | ins_end (s i f k) : s.pc i = .ins k → cfg.prog i = .register f → ¬ k < cfg.ndecl f →
      Step cfg s { s with tab := { s.tab with files := s.tab.files ++ [f] }, pc := upd s.pc i (.wunlock .ok) }
  | wunlock (s i r) : s.pc i = .wunlock r →
      Step cfg s { s with writer := none, pc := upd s.pc i (.done r) }
  | rlock (s i) : s.pc i = .idle → cfg.prog i = .lookup → cfg.readerLocks = true → s.writer = none →
      Step cfg s { s with readers := i :: s.readers, log := s.log ++ [i], pc := upd s.pc i .rread }
  | rskip (s i) : s.pc i = .idle → cfg.prog i = .lookup → cfg.readerLocks = false →
      Step cfg s { s with log := s.log ++ [i], pc := upd s.pc i .rread }
  | rread (s i) : s.pc i = .rread →
      Step cfg s { s with pc := upd s.pc i (.runlock (.snap s.tab)) }
  | runlock (s i r) : s.pc i = .runlock r →
      Step cfg s { s with readers := s.readers.filter (· ≠ i), pc := upd s.pc i (.done r) }

inductive Reachable (cfg : Cfg) : State → Prop where
  | init : Reachable cfg init
  | step {s t} : Reachable cfg s → Step cfg s t → Reachable cfg t

inductive Steps (cfg : Cfg) : State → State → Prop where
  | refl (s) : Steps cfg s s
  | tail {s t u} : Steps cfg s t → Step cfg t u → Steps cfg s u

/-- scheduler choice: which thread takes its (unique) next step -/
def next (cfg : Cfg) (s : State) (i : Nat) : Option State :=
  match s.pc i, cfg.prog i with
  | .idle, .register _ =>
    if s.writer = none ∧ s.readers = [] then
      some { s with writer := some i, log := s.log ++ [i], pc := upd s.pc i .wcheck }
    else none
  | .idle, .lookup =>
    if cfg.readerLocks then
      (if s.writer = none then some { s with readers := i :: s.readers, log := s.log ++ [i], pc := upd s.pc i .rread } else none)
    else some { s with log := s.log ++ [i], pc := upd s.pc i .rread }
  | .wcheck, .register f =>
    if f ∈ s.tab.files then some { s with pc := upd s.pc i (.wunlock .conflict) }
    else some { s with pc := upd s.pc i (.ins 0) }
  | .ins k, .register f =>
    if k < cfg.ndecl f then
      some { s with tab := { s.tab with entries := s.tab.entries ++ [(f, k)] }, pc := upd s.pc i (.ins (k + 1)) }
    else some { s with tab := { s.tab with files := s.tab.files ++ [f] }, pc := upd s.pc i (.wunlock .ok) }
  | .wunlock r, _ => some { s with writer := none, pc := upd s.pc i (.done r) }
  | .rread, _ => some { s with pc := upd s.pc i (.runlock (.snap s.tab)) }
  | .runlock r, _ => some { s with readers := s.readers.filter (· ≠ i), pc := upd s.pc i (.done r) }
  | _, _ => none

def exec (cfg : Cfg) (s : State) : List Nat → Option State
  | [] => some s
  | i :: is => (next cfg s i).bind fun t => exec cfg t is

theorem Steps.head {cfg : Cfg} {s t u : State} (h1 : Step cfg s t) (h2 : Steps cfg t u) : Steps cfg s u := by
  induction h2 with
  | refl => exact Steps.tail (Steps.refl _) h1
  | tail _ st ih => exact Steps.tail ih st

theorem next_sound (cfg : Cfg) {s t : State} {i : Nat} (h : next cfg s i = some t) : Step cfg s t := by
  unfold next at h
  split at h
  · rename_i f hpc hprog
    split at h
    · rename_i hc; cases h; exact Step.wlock s i f hpc hprog hc.1 hc.2
    · cases h
  · rename_i hpc hprog
    split at h
    · rename_i hl
      split at h
      · rename_i hw; cases h; exact Step.rlock s i hpc hprog hl hw
      · cases h
    · rename_i hl; cases h; exact Step.rskip s i hpc hprog (by simpa using hl)
  · rename_i f hpc hprog
    split at h
    · rename_i hf; cases h; exact Step.wcheck_dup s i f hpc hprog hf
    · rename_i hf; cases h; exact Step.wcheck_new s i f hpc hprog hf
  · rename_i k f hpc hprog
    split at h
    · rename_i hk; cases h; exact Step.ins s i f k hpc hprog hk
    · rename_i hk; cases h; exact Step.ins_end s i f k hpc hprog hk
  · rename_i r hpc; cases h; exact Step.wunlock s i r hpc
  · rename_i hpc; cases h; exact Step.rread s i hpc
  · rename_i r hpc; cases h; exact Step.runlock s i r hpc
  · cases h

theorem exec_steps (cfg : Cfg) : ∀ (tr : List Nat) {s t : State}, exec cfg s tr = some t → Steps cfg s t
  | [], s, t, h => by simp only [exec] at h; cases h; exact Steps.refl s
  | e :: es, s, t, h => by
    simp only [exec] at h
    cases hn : next cfg s e with
    | none => simp [hn] at h
    | some u =>
      simp only [hn, Option.bind_some] at h
      exact Steps.head (next_sound cfg hn) (exec_steps cfg es h)

theorem steps_reachable {cfg : Cfg} {s t : State} (r : Reachable cfg s) (h : Steps cfg s t) : Reachable cfg t := by
  induction h with
  | refl => exact r
  | tail _ st ih => exact Reachable.step ih st

theorem exec_reachable (cfg : Cfg) {tr : List Nat} {t : State} (h : exec cfg init tr = some t) : Reachable cfg t :=
  steps_reachable Reachable.init (exec_steps cfg tr h)

def run (cfg : Cfg) (tr : List Nat) : State := (exec cfg init tr).getD init

theorem run_reachable (cfg : Cfg) (tr : List Nat) : Reachable cfg (run cfg tr) := by
  unfold run
  cases h : exec cfg init tr with
  | none => exact Reachable.init
  | some t => exact exec_reachable cfg h

end Reg

/-! ## (e) re-entrant derivation of mutually recursive descriptors behind a lock, with a lock-free cache

internal/impl/legacy_message.go: `legacyLoadMessageDesc` first looks into the lock-free sync.Map
`legacyMessageDescCache`; on a miss, tag-derived ("aberrant") types go through
`aberrantLoadMessageDesc` (takes `aberrantMessageDescLock`) into the RE-ENTRANT
`aberrantLoadMessageDescReentrant`, which enters the new descriptor into the locked map
`aberrantMessageDescCache` before filling it in (so that reference cycles resolve) and derives the
types of message fields by calling itself.  Two mutually recursive types x ↔ y: deriving x creates
x, then (field 1) creates and completes y — whose field points back to the still empty x — and only
then fills in the remaining fields of x.  A descriptor that becomes reachable WITHOUT the lock
before its cycle partner is complete exposes the partner half-built. -/
namespace Nest

/-- when a derived descriptor is stored into the lock-free cache: never (the code), by the
outermost caller after the whole derivation (also safe), or — the broken variant — by the
re-entrant function itself as soon as that (nested) descriptor is finished. -/
inductive Publish | never | outermost | nestedEarly
  deriving DecidableEq, Repr

structure Cfg where
  fields  : Bool → Nat     -- number of fields of the two types (`false`, `true`), each written in its own step
  publish : Publish
  prog    : Nat → Bool     -- the type thread i makes first use of

inductive PC where
  | fast                      -- legacyMessageDescCache.Load(x)
  | lock
  | check                     -- under the lock: already in aberrantMessageDescCache?
  | buildInner (k : Nat)      -- x created and registered; the partner y created, k of its fields written
  | pubInner                  -- y finished (the re-entrant call for y returns)
  | buildOuter (k : Nat)      -- back in x: k of its fields written
  | finish                    -- x finished; the outermost call returns
  | unlock
  | walk                      -- use: read the descriptor of x and, through its field, the partner's
  | done (obs : Nat × Nat)    -- observed numbers of fields of (x, its partner y)
  deriving DecidableEq, Repr

structure State where
  bx    : Bool             -- the type x whose first use started the (one) derivation; its partner is y
  kOut  : Nat              -- number of fields of x, of y (fixed when the derivation starts)
  kIn   : Nat
  dOut  : Nat              -- fields written so far into the descriptor of x, of y
  dIn   : Nat
  lfOut : Bool             -- x, y present in the lock-free cache
  lfIn  : Bool
  made  : Bool             -- both descriptors are in the locked map and their derivation has returned
  mutex : Option Nat
  pc    : Nat → PC

def init : State :=
  { bx := false, kOut := 0, kIn := 0, dOut := 0, dIn := 0, lfOut := false, lfIn := false, made := false,
    mutex := none, pc := fun _ => .fast }

/-- `legacyMessageDescCache.Load(t)` for a thread that uses type t -/
def lfHit (s : State) (t : Bool) : Bool := if t = s.bx then s.lfOut else s.lfIn

inductive Step (cfg : Cfg) : State → State → Prop where
  | fast_hit (s i) : s.pc i = .fast → lfHit s (cfg.prog i) = true →
      Step cfg s { s with pc := upd s.pc i .walk }
  | fast_miss (s i) : s.pc i = .fast → lfHit s (cfg.prog i) = false →
      Step cfg s { s with pc := upd s.pc i .lock }
  | lock (s i) : s.pc i = .lock → s.mutex = none →
      Step cfg s { s with mutex := some i, pc := upd s.pc i .check }
  | check_hit (s i) : s.pc i = .check → s.made = true →
      Step cfg s { s with pc := upd s.pc i .unlock }
  | check_miss (s i) : s.pc i = .check → s.made = false →
      Step cfg s { s with bx := cfg.prog i, kOut := cfg.fields (cfg.prog i), kIn := cfg.fields (!cfg.prog i),
                          pc := upd s.pc i (.buildInner 0) }
  | inner_write (s i k) : s.pc i = .buildInner k → k < s.kIn →
      Step cfg s { s with dIn := k + 1, pc := upd s.pc i (.buildInner (k + 1)) }
  | inner_end (s i k) : s.pc i = .buildInner k → ¬ k < s.kIn →
      Step cfg s { s with pc := upd s.pc i .pubInner }
  | inner_pub (s i) : s.pc i = .pubInner →
      Step cfg s { s with lfIn := (if cfg.publish = .nestedEarly then true else s.lfIn),
                          pc := upd s.pc i (.buildOuter 0) }
  | outer_write (s i k) : s.pc i = .buildOuter k → k < s.kOut →
      Step cfg s { s with dOut := k + 1, pc := upd s.pc i (.buildOuter (k + 1)) }
  | outer_end (s i k) : s.pc i = .buildOuter k → ¬ k < s.kOut →
      Step cfg s { s with pc := upd s.pc i .finish }
  | finish (s i) : s.pc i = .finish →
      Step cfg s { s with made := true,
                          lfOut := (if cfg.publish = .never then s.lfOut else true),
                          pc := upd s.pc i .unlock }
  | unlock (s i) : s.pc i = .unlock →
      Step cfg s { s with mutex := none, pc := upd s.pc i .walk }
  | walk (s i) : s.pc i = .walk →
      Step cfg s { s with pc := upd s.pc i (.done (s.dOut, s.dIn)) }

inductive Reachable (cfg : Cfg) : State → Prop where
  | init : Reachable cfg init
  | step {s t} : Reachable cfg s → Step cfg s t → Reachable cfg t

inductive Steps (cfg : Cfg) : State → State → Prop where
  | refl (s) : Steps cfg s s
  | tail {s t u} : Steps cfg s t → Step cfg t u → Steps cfg s u

/-- scheduler choice: thread i takes its (unique) next step -/
def next (cfg : Cfg) (s : State) (i : Nat) : Option State :=
  match s.pc i with
  | .fast => some { s with pc := upd s.pc i (if lfHit s (cfg.prog i) then .walk else .lock) }
  | .lock => if s.mutex = none then some { s with mutex := some i, pc := upd s.pc i .check } else none
  | .check =>
    if s.made then some { s with pc := upd s.pc i .unlock }
    else some { s with bx := cfg.prog i, kOut := cfg.fields (cfg.prog i), kIn := cfg.fields (!cfg.prog i),
                       pc := upd s.pc i (.buildInner 0) }
  | .buildInner k =>
    if k < s.kIn then some { s with dIn := k + 1, pc := upd s.pc i (.buildInner (k + 1)) }
    else some { s with pc := upd s.pc i .pubInner }
  | .pubInner =>
    some { s with lfIn := (if cfg.publish = .nestedEarly then true else s.lfIn), pc := upd s.pc i (.buildOuter 0) }
  | .buildOuter k =>
    if k < s.kOut then some { s with dOut := k + 1, pc := upd s.pc i (.buildOuter (k + 1)) }
    else some { s with pc := upd s.pc i .finish }
  | .finish =>
    some { s with made := true, lfOut := (if cfg.publish = .never then s.lfOut else true), pc := upd s.pc i .unlock }
  | .unlock => some { s with mutex := none, pc := upd s.pc i .walk }
  | .walk => some { s with pc := upd s.pc i (.done (s.dOut, s.dIn)) }
  | .done _ => none

def exec (cfg : Cfg) (s : State) : List Nat → Option State
  | [] => some s
  | i :: is => (next cfg s i).bind fun t => exec cfg t is

theorem Steps.head {cfg : Cfg} {s t u : State} (h1 : Step cfg s t) (h2 : Steps cfg t u) : Steps cfg s u := by
  induction h2 with
  | refl => exact Steps.tail (Steps.refl _) h1
  | tail _ st ih => exact Steps.tail ih st

theorem next_sound (cfg : Cfg) {s t : State} {i : Nat} (h : next cfg s i = some t) : Step cfg s t := by
  unfold next at h
  split at h
  · rename_i hpc; cases h
    cases hl : lfHit s (cfg.prog i) with
    | true => simpa [hl] using Step.fast_hit s i hpc hl
    | false => simpa [hl] using Step.fast_miss s i hpc hl
  · rename_i hpc
    split at h
    · rename_i hm; cases h; exact Step.lock s i hpc hm
    · cases h
  · rename_i hpc
    split at h
    · rename_i hm; cases h; exact Step.check_hit s i hpc hm
    · rename_i hm; cases h; exact Step.check_miss s i hpc (by simpa using hm)
  · rename_i k hpc
    split at h
    · rename_i hk; cases h; exact Step.inner_write s i k hpc hk
    · rename_i hk; cases h; exact Step.inner_end s i k hpc hk
  · rename_i hpc; cases h; exact Step.inner_pub s i hpc
  · rename_i k hpc
    split at h
    · rename_i hk; cases h; exact Step.outer_write s i k hpc hk
    · rename_i hk; cases h; exact Step.outer_end s i k hpc hk
  · rename_i hpc; cases h; exact Step.finish s i hpc
  · rename_i hpc; cases h; exact Step.unlock s i hpc
  · rename_i hpc; cases h; exact Step.walk s i hpc
  · cases h

theorem exec_steps (cfg : Cfg) : ∀ (tr : List Nat) {s t : State}, exec cfg s tr = some t → Steps cfg s t
  | [], s, t, h => by simp only [exec] at h; cases h; exact Steps.refl s
  | e :: es, s, t, h => by
    simp only [exec] at h
    cases hn : next cfg s e with
    | none => simp [hn] at h
    | some u =>
      simp only [hn, Option.bind_some] at h
      exact Steps.head (next_sound cfg hn) (exec_steps cfg es h)

theorem steps_reachable {cfg : Cfg} {s t : State} (r : Reachable cfg s) (h : Steps cfg s t) : Reachable cfg t := by
  induction h with
  | refl => exact r
  | tail _ st ih => exact Reachable.step ih st

def run (cfg : Cfg) (tr : List Nat) : State := (exec cfg init tr).getD init

theorem run_reachable (cfg : Cfg) (tr : List Nat) : Reachable cfg (run cfg tr) := by
  unfold run
  cases h : exec cfg init tr with
  | none => exact Reachable.init
  | some t => exact steps_reachable Reachable.init (exec_steps cfg tr h)

end Nest

end Conc
