import PbVerif.Gen.WktTime
/-
Model of the hand-written helpers of `durationpb` and `timestamppb` (engine `wkttime`, C43).

The arithmetic is NOT re-typed here: `Gen.WktTime.*` is regenerated on every check run from
`types/known/durationpb/duration.pb.go` and `types/known/timestamppb/timestamp.pb.go` by
`/verif/go/gen-wkttime` (int64/time.Duration ↦ `BitVec 64`, int32 ↦ `BitVec 32`, Go's truncating
`/` ↦ `BitVec.sdiv`, wrap-around `* + -`, the overflow tests and the MinInt64/MaxInt64 clamp exactly
as coded).  This file only adds the message-level view that the generated, receiver-flattened
definitions lack: the two messages as structures, a nil receiver as `none` (the generated getters
return 0 on nil — shape checked by the extractor), `check`'s result as an enumeration, and the
readable specifications (`Int`-valued) that `Props/C43.lean` relates the generated code to.
Core Lean only.
-/
namespace Model.WktTime
open Gen.WktTime

/-- `durationpb.Duration` (the two data fields; unknown fields play no role in the helpers) -/
structure Duration where
  seconds : BitVec 64
  nanos : BitVec 32
deriving DecidableEq, Repr

/-- `timestamppb.Timestamp` -/
structure Timestamp where
  seconds : BitVec 64
  nanos : BitVec 32
deriving DecidableEq, Repr

/-! ### nil-safe getters (`if x != nil { return x.F }; return 0`) -/
def Duration.getSeconds : Option Duration → BitVec 64
  | none => 0#64
  | some x => x.seconds
def Duration.getNanos : Option Duration → BitVec 32
  | none => 0#32
  | some x => x.nanos
def Timestamp.getSeconds : Option Timestamp → BitVec 64
  | none => 0#64
  | some x => x.seconds
def Timestamp.getNanos : Option Timestamp → BitVec 32
  | none => 0#32
  | some x => x.nanos

/-! ### Duration -/

/-- `durationpb.New(d)` -/
def Duration.new (d : BitVec 64) : Duration :=
  let r := durationNew d
  { seconds := r.1, nanos := r.2 }

/-- `x.AsDuration()` (nil receiver allowed: the getters return 0) -/
def Duration.asDuration (x : Option Duration) : BitVec 64 :=
  durationAsDuration (Duration.getSeconds x) (Duration.getNanos x)

/-- `x.check()` -/
def Duration.check (x : Option Duration) : BitVec 64 :=
  durationCheck x.isNone (Duration.getSeconds x) (Duration.getNanos x)

/-- `x.IsValid()` -/
def Duration.isValid (x : Option Duration) : Bool :=
  durationIsValid x.isNone (Duration.getSeconds x) (Duration.getNanos x)

/-- `x.CheckValid()`: 0 = nil error, k = the k-th message of the generated switch
(1 nil, 2 "exceeds -10000 years", 3 "exceeds +10000 years", 4 "out-of-range nanos", 5 "different signs") -/
def Duration.checkValid (x : Option Duration) : Nat :=
  durationCheckValid x.isNone (Duration.getSeconds x) (Duration.getNanos x)

/-! ### Timestamp -/

/-- `timestamppb.New(t)` -/
def Timestamp.new (t : GoTime.Time) : Timestamp :=
  let r := timestampNew t
  { seconds := r.1, nanos := r.2 }

/-- `x.AsTime()` -/
def Timestamp.asTime (x : Option Timestamp) : GoTime.Time :=
  timestampAsTime (Timestamp.getSeconds x) (Timestamp.getNanos x)

def Timestamp.check (x : Option Timestamp) : BitVec 64 :=
  timestampCheck x.isNone (Timestamp.getSeconds x) (Timestamp.getNanos x)

def Timestamp.isValid (x : Option Timestamp) : Bool :=
  timestampIsValid x.isNone (Timestamp.getSeconds x) (Timestamp.getNanos x)

/-- `x.CheckValid()`: 0 = nil error, 1 nil, 2 "before 0001-01-01", 3 "after 9999-12-31", 4 "out-of-range nanos" -/
def Timestamp.checkValid (x : Option Timestamp) : Nat :=
  timestampCheckValid x.isNone (Timestamp.getSeconds x) (Timestamp.getNanos x)

/-! ### Specifications (what the property list asks the code to compute), over `Int` -/

abbrev minInt64 : Int := -9223372036854775808
abbrev maxInt64 : Int := 9223372036854775807

/-- the exact number of nanoseconds denoted by `(seconds, nanos)` -/
def exactNanos (s : BitVec 64) (n : BitVec 32) : Int := s.toInt * 1000000000 + n.toInt

/-- clamp to the int64 range ("the closest duration value in the event of overflow") -/
def clamp64 (v : Int) : Int := max (min v maxInt64) minInt64

abbrev inInt64 (v : Int) : Prop := minInt64 ≤ v ∧ v ≤ maxInt64

/-- documented validity of a Duration: within ±10000 years (±315 576 000 000 s), |nanos| < 10^9,
and nanos has the sign of seconds unless one of them is zero -/
def Duration.Valid (x : Duration) : Prop :=
  -315576000000 ≤ x.seconds.toInt ∧ x.seconds.toInt ≤ 315576000000 ∧
  -1000000000 < x.nanos.toInt ∧ x.nanos.toInt < 1000000000 ∧
  ¬ (0 < x.seconds.toInt ∧ x.nanos.toInt < 0) ∧ ¬ (x.seconds.toInt < 0 ∧ 0 < x.nanos.toInt)

/-- documented validity of a Timestamp: 0001-01-01T00:00:00Z … 9999-12-31T23:59:59Z as Unix seconds
(−62135596800 … 253402300799) and 0 ≤ nanos < 10^9 -/
def Timestamp.Valid (x : Timestamp) : Prop :=
  -62135596800 ≤ x.seconds.toInt ∧ x.seconds.toInt ≤ 253402300799 ∧
  0 ≤ x.nanos.toInt ∧ x.nanos.toInt < 1000000000

/-- days from 0001-01-01 to 1970-01-01 in the proleptic Gregorian calendar:
1969 years of 365 days plus the leap days of years 1…1969 -/
def daysBeforeUnixEpoch : Int := 1969 * 365 + (1969 / 4 - 1969 / 100 + 1969 / 400)
/-- days from 1970-01-01 to 10000-01-01 -/
def daysUnixEpochToYear10000 : Int :=
  (9999 * 365 + (9999 / 4 - 9999 / 100 + 9999 / 400)) - daysBeforeUnixEpoch

end Model.WktTime
