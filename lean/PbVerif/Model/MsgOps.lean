import PbVerif.Model.Msg
/-
Reflection-level operations on the abstract message (protoreflect.Message contract):
Set / Clear / Mutable / list and map edits / SetUnknown / Reset, and the observers
Has / Get / WhichOneof / Range.  `Op` + `step` give the history semantics used by
C11 (presence), C12 (oneofs), C15 (reset) and C28 (reflection contract).
-/
namespace Pb
open Spec (Byte)

inductive Op where
  | set (num : Nat) (v : Val)            -- m.Set(fd, v) on a singular field (scalar, bytes or whole message)
  | clear (num : Nat)                    -- m.Clear(fd)
  | mutable (num : Nat)                  -- m.Mutable(fd) on a singular message field
  | append (num : Nat) (v : Val)         -- list.Append
  | listSet (num : Nat) (i : Nat) (v : Val)
  | truncate (num : Nat) (n : Nat)
  | mapPut (num : Nat) (k v : Val)
  | mapDel (num : Nat) (k : Val)
  | setUnknown (b : List Byte)
  | reset

def Vals.setAt : Vals → Nat → Val → Vals
  | .nil, _, _ => .nil
  | .cons _ tl, 0, v => .cons v tl
  | .cons x tl, i + 1, v => .cons x (tl.setAt i v)

def Vals.takeN : Vals → Nat → Vals
  | .nil, _ => .nil
  | _, 0 => .nil
  | .cons x tl, n + 1 => .cons x (tl.takeN n)

def mapErase : Vals → Val → Vals
  | .nil, _ => .nil
  | .cons (.msg e) tl, k =>
    match entryKey e with
    | some k' => if valBEq k k' then tl else .cons (.msg e) (mapErase tl k)
    | none => .cons (.msg e) (mapErase tl k)
  | .cons x tl, k => .cons x (mapErase tl k)

/-- `Has(fd)`: the field is populated -/
def has (m : Msg) (num : Nat) : Bool := (m.fields.get? num).isSome

/-- `WhichOneof(o)`: the populated member of oneof `o`, if any -/
def whichOneof (d : MsgD) (m : Msg) (o : Nat) : Option Nat :=
  (d.fields.find? fun f => f.oneof == some o && has m f.num).map (·.num)

def clearOneofFor (d : MsgD) (f : Field) (fs : Fields) : Fields :=
  match f.oneof with
  | some o => Fields.clearOneof d o f.num fs
  | none => fs

/-- one reflection operation on a message of descriptor `d` -/
def step (d : MsgD) (m : Msg) : Op → Msg
  | .set num v =>
    match d.find num with
    | some f =>
      (match v with
       | .msg _ => .mk ((clearOneofFor d f m.fields).set num (.one v)) m.unknown
       | _ => .mk (setSingular d f m.fields v) m.unknown)
    | none => m
  | .clear num => .mk (m.fields.erase num) m.unknown
  | .mutable num =>
    match d.find num with
    | some f =>
      let fs := clearOneofFor d f m.fields
      (match fs.get? num with
       | some _ => .mk fs m.unknown
       | none => .mk (fs.set num (.one (.msg Msg.empty))) m.unknown)
    | none => m
  | .append num v => .mk (appendList m.fields num (.cons v .nil)) m.unknown
  | .listSet num i v =>
    match m.fields.get? num with
    | some (.many vs) => .mk (m.fields.set num (.many (vs.setAt i v))) m.unknown
    | _ => m
  | .truncate num n =>
    match m.fields.get? num with
    | some (.many vs) =>
      let vs' := vs.takeN n
      if vs'.isNil then .mk (m.fields.erase num) m.unknown else .mk (m.fields.set num (.many vs')) m.unknown
    | _ => m
  | .mapPut num k v =>
    let old := match m.fields.get? num with
      | some (.many vs) => vs
      | _ => .nil
    let entry := Msg.mk (.cons 1 (.one k) (.cons 2 (.one v) .nil)) []
    .mk (m.fields.set num (.many (mapPut old k entry))) m.unknown
  | .mapDel num k =>
    match m.fields.get? num with
    | some (.many vs) =>
      let vs' := mapErase vs k
      if vs'.isNil then .mk (m.fields.erase num) m.unknown else .mk (m.fields.set num (.many vs')) m.unknown
    | _ => m
  | .setUnknown b => .mk m.fields b
  | .reset => Msg.empty

def run (d : MsgD) (m : Msg) (ops : List Op) : Msg := ops.foldl (step d) m

end Pb
