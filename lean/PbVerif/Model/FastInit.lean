import PbVerif.Model.Msg
/-
The parts of the table-driven fast path of /repo/internal/impl (and of proto/decode.go) that decide
*required-field initialisation* and take shortcuts the reflection path (`Pb.initMsg`, Model/Msg.lean)
does not.

THE CODE AS IT STANDS (/repo at 2af26fa):
(a) `walk` / `queryFixed` / `runFixed` = internal/impl/checkinit.go `needsInitCheckWalk` /
                   `needsInitCheckLocked` (since 78c9443): a DFS over the message-descriptor graph with a
                   local visited set; the global map holds exact `bool`s only;
(b) `initFastMsg`  = `checkInitializedPointer` and the `isInit` coder table, pruned by `needsInitCheck`;
(c) `flagLoop` with `MapRule.andOcc` / `decFlag` = the `initialized` flag computed while decoding
                   (decode.go `unmarshalPointerEager`, codec_field.go `consumeMessageInfo` /
                   `consumeMessageSliceInfo`, codec_map.go `consumeMapOfMessage` since 6c2b514), layered over
                   the decoder of Model/Msg.lean;
    `unmarshalTop` = proto/decode.go `UnmarshalOptions.unmarshal` (since 2af26fa): the flag is trusted only
                   when the caller did not ask for `Merge`.

HISTORICAL (kept as regression witnesses, Props/C08.lean namespace `C08.Old`):
    `needs` / `query` / `run` = `needsInitCheckLocked` before 78c9443 (in-progress marker, every node
                   stores its result on exit);
    `MapRule.orOcc`           = `consumeMapOfMessage` before 6c2b514;
    `decFlagInto`             = a merging Unmarshal trusting the flag, before 2af26fa.

Core-only.  Messages are indices into `Pb.Schema`; "has extension ranges" is a Bool per message
index (`xr`), because `Pb.Schema` lists only the extension *fields* that are known.
-/
namespace FastInit
open Pb
open Spec (Byte decTag decBytes)

/-! ### the message-descriptor graph walked by `needsInitCheckLocked` -/

/-- `md.RequiredNumbers().Len() > 0` -/
def hasRequired (d : MsgD) : Bool := d.fields.any fun f => decide (f.card = .required)

/-- the node's own reason to need a check: required fields or extension ranges -/
def own (S : Schema) (xr : Nat → Bool) (i : Nat) : Bool := hasRequired (S.msg i) || xr i

/-- the message a declared field leads to in the walk (`fd.Message()`, after `fd = fd.MapValue()` for
maps; in `Pb.Schema` a map field points at its entry message, whose field 2 is the value).
`md.Fields()` does not contain extension fields. -/
def target (S : Schema) (f : Field) : Option Nat :=
  if f.ext then none
  else if f.card = .map then
    match (S.msg f.sub).find 2 with
    | some vf => if vf.kind.isMessage then some vf.sub else none
    | none => none
  else if f.kind.isMessage then some f.sub else none

/-- successors of a message in declaration order (`for i := 0; i < md.Fields().Len(); i++`) -/
def succs (S : Schema) (i : Nat) : List Nat := (S.msg i).fields.filterMap (target S)

/-- `for … { if needsInitCheckLocked(fmd) { return true } }; return false` — left to right, stops at
the first `true`, threads the state through -/
def orList {σ : Type} (f : σ → Nat → Option (Bool × σ)) : σ → List Nat → Option (Bool × σ)
  | s, [] => some (false, s)
  | s, t :: ts =>
    match f s t with
    | none => none
    | some (true, s') => some (true, s')
    | some (false, s') => orList f s' ts

/-! ### (a) HISTORICAL: `needsInitCheckLocked` before /repo 78c9443 -/

/-- an entry of `needsInitCheckMap`: `struct{}{}` (in progress) or a `bool` -/
inductive Ent where
  | busy
  | done (b : Bool)
  deriving DecidableEq, Repr

abbrev Cache := Nat → Option Ent

def Cache.empty : Cache := fun _ => none
def Cache.set (c : Cache) (i : Nat) (e : Ent) : Cache := fun j => if j = i then some e else c j

/-- the old `needsInitCheckLocked`.  `none` = out of fuel (never with the fuel of `query`, see
`FastInit.query_total`).  The deferred `Store(md, has)` runs on every exit after the marker was set. -/
def needs (S : Schema) (xr : Nat → Bool) : Nat → Cache → Nat → Option (Bool × Cache)
  | 0, _, _ => none
  | fuel + 1, c, i =>
    match c i with
    | some (.done b) => some (b, c)          -- `has, ok := v.(bool); return ok && has`
    | some .busy => some (false, c)          -- a cycle: "it is safe to return false"
    | none =>
      let c1 := c.set i .busy                -- `Store(md, struct{}{})`
      if hasRequired (S.msg i) then some (true, c1.set i (.done true))
      else if xr i then some (true, c1.set i (.done true))
      else
        match orList (needs S xr fuel) c1 (succs S i) with
        | none => none
        | some (r, c2) => some (r, c2.set i (.done r))

/-- `needsInitCheck(md)` (the lock-free pre-check reads the same map, so sequentially it is
`needsInitCheckLocked`); fuel = number of messages + 1 bounds the depth of the walk -/
def query (S : Schema) (xr : Nat → Bool) (c : Cache) (i : Nat) : Option (Bool × Cache) :=
  needs S xr (S.msgs.length + 1) c i

/-- a sequence of calls of `needsInitCheck`, as made by `MessageInfo.init` and the coder tables -/
def run (S : Schema) (xr : Nat → Bool) : List Nat → Cache → Option Cache
  | [], c => some c
  | q :: qs, c =>
    match query S xr c q with
    | none => none
    | some (_, c') => run S xr qs c'

/-! ### (a) the code as it stands (/repo 78c9443 = fixes/needsinitcheck-cycle.diff)

The global map only ever holds exact `bool`s.  The walk keeps a local visited set; a `true` result is
stored at once (a `true` is always right); `false` is stored only by the outermost call, and then
for every message the walk visited (when the whole walk finds nothing, none of them reaches
anything). -/

abbrev BCache := Nat → Option Bool

def BCache.empty : BCache := fun _ => none
def BCache.set (g : BCache) (i : Nat) (b : Bool) : BCache := fun j => if j = i then some b else g j
def BCache.setAll (g : BCache) (l : List Nat) (b : Bool) : BCache := l.foldl (fun g i => g.set i b) g

/-- `needsInitCheckWalk(md, visited)` -/
def walk (S : Schema) (xr : Nat → Bool) : Nat → BCache × List Nat → Nat → Option (Bool × (BCache × List Nat))
  | 0, _, _ => none
  | fuel + 1, (g, vis), i =>
    match g i with
    | some b => some (b, (g, vis))
    | none =>
      if vis.contains i then some (false, (g, vis))
      else
        if own S xr i then some (true, (g.set i true, i :: vis))
        else
          match orList (walk S xr fuel) (g, i :: vis) (succs S i) with
          | none => none
          | some (true, (g2, vis2)) => some (true, (g2.set i true, vis2))
          | some (false, st) => some (false, st)

/-- `needsInitCheckLocked` -/
def queryFixed (S : Schema) (xr : Nat → Bool) (g : BCache) (i : Nat) : Option (Bool × BCache) :=
  match g i with
  | some b => some (b, g)
  | none =>
    match walk S xr (S.msgs.length + 1) (g, []) i with
    | none => none
    | some (true, (g', _)) => some (true, g')
    | some (false, (g', vis)) => some (false, g'.setAll vis false)

def runFixed (S : Schema) (xr : Nat → Bool) : List Nat → BCache → Option BCache
  | [], g => some g
  | q :: qs, g =>
    match queryFixed S xr g q with
    | none => none
    | some (_, g') => runFixed S xr qs g'

/-! ### (b) `checkInitializedPointer`, pruned by the `needsInitCheck` results `nd`

* `checkInitializedPointer`: `if !mi.needsInitCheck { return nil }`;
* a message/group (list) field has `funcs.isInit` only `if needsInitCheck(mi.Desc)` (codec_field.go);
* `isInitMap`: `if !mi.needsInitCheck { return nil }` for the *value* message, else every value is
  checked; the entry itself is walked as a message without a flag of its own;
* extensions (`isInitExtensions`) call the callee's `checkInitializedPointer`, which prunes at its top;
  that gives the same result as pruning at the field. -/

/-- `f.mi.needsInitCheck` for the value message of a map field -/
def ndMapValue (S : Schema) (nd : Nat → Bool) (f : Field) : Bool :=
  match (S.msg f.sub).find 2 with
  | some vf => vf.kind.isMessage && nd vf.sub
  | none => false

mutual
def initFastMsg (S : Schema) (nd : Nat → Bool) (mi : Nat) : Msg → Bool
  | .mk fs _ =>
    if nd mi then
      let d := S.msg mi
      (d.fields.all fun f => f.card ≠ .required || (fs.get? f.num).isSome) && initFastFields S nd d fs
    else true
def initFastFields (S : Schema) (nd : Nat → Bool) (d : MsgD) : Fields → Bool
  | .nil => true
  | .cons num fv tl =>
    (match d.find num with
     | some f => initFastFVal S nd f fv
     | none => true) && initFastFields S nd d tl
def initFastFVal (S : Schema) (nd : Nat → Bool) (f : Field) : FVal → Bool
  | .one v =>
    if f.kind.isMessage && nd f.sub then initFastVal S nd f v else true
  | .many vs =>
    if f.card = .map then
      if ndMapValue S nd f then initFastEntries S nd (S.msg f.sub) vs else true
    else if f.kind.isMessage && nd f.sub then initFastVals S nd f vs else true
def initFastVal (S : Schema) (nd : Nat → Bool) (f : Field) : Val → Bool
  | .msg m => initFastMsg S nd f.sub m
  | _ => true
def initFastVals (S : Schema) (nd : Nat → Bool) (f : Field) : Vals → Bool
  | .nil => true
  | .cons v tl => initFastVal S nd f v && initFastVals S nd f tl
/-- the entries of a map whose value message needs a check -/
def initFastEntries (S : Schema) (nd : Nat → Bool) (ed : MsgD) : Vals → Bool
  | .nil => true
  | .cons (.msg (.mk fs _)) tl => initFastFields S nd ed fs && initFastEntries S nd ed tl
  | .cons _ tl => initFastEntries S nd ed tl
end

/-! ### (c) the `initialized` flag computed while decoding

The flag depends on the input bytes and the coder tables only, never on the message being filled, so
it is modelled as a function of the bytes that walks the records exactly as `Pb.decMsg` /
`Pb.decField` / `Pb.decEntry` do (same order of tests); `decFlag` pairs it with the decoder.
Where the decoder fails the flag is irrelevant (Go returns the error); the model answers `true` there
and when out of fuel, the worst case for soundness. -/

/-- how `consumeMapOfMessage` combines the flags of the occurrences of the value field in one entry -/
inductive MapRule where
  | orOcc    -- HISTORICAL, before /repo 6c2b514: "initialized so long as we see an initialized value"
  | andOcc   -- the code as it stands: `seenValue && allInitialized`
  deriving DecidableEq, Repr

/-- `f.funcs.isInit != nil`: the field's `o.initialized` is honoured by `unmarshalPointerEager`.
Message and group fields get `isInit` only `if needsInitCheck(mi.Desc)`; a map field gets it whenever
its value is a message (`valFuncs.isInit` of `coderMessageValue`); a message extension always
(`unmarshalExtension`: `if !o.initialized { initialized = false }`); oneof members report `true`
themselves when their coder has no `isInit`, which amounts to the same. -/
def considered (S : Schema) (nd : Nat → Bool) (f : Field) : Bool :=
  if f.card = .map then
    match (S.msg f.sub).find 2 with
    | some vf => vf.kind.isMessage
    | none => false
  else if f.ext then f.kind.isMessage
  else f.kind.isMessage && nd f.sub

/-- `mi.numRequiredFields > 0 && bits.OnesCount64(requiredMask) != int(mi.numRequiredFields)` is false:
every required field has its own bit as long as there are at most 64 of them (validate.go: beyond that
`requiredBit` is 0 and the count can never match); `seen` = required fields whose bit is set -/
def reqDone (d : MsgD) (seen : List Nat) : Bool :=
  let req := d.fields.filter fun f => decide (f.card = .required)
  req.isEmpty || (decide (req.length ≤ 64) && req.all fun f => seen.contains f.num)

mutual
/-- the record loop of `unmarshalPointerEager`: `init` = `initialized`, `seen` = `requiredMask` -/
def flagLoop (S : Schema) (nd : Nat → Bool) (rule : MapRule) : Nat → Nat → Bool → List Nat → List Byte → Bool
  | 0, _, _, _, _ => true
  | fuel + 1, mi, init, seen, b =>
    match b with
    | [] => init && reqDone (S.msg mi) seen
    | _ =>
      match decTag b with
      | .error _ => true
      | .ok (num, wt, tagLen) =>
        let val := b.drop tagLen
        match Spec.consumeFieldValue num wt val with
        | .error _ => true
        | .ok n =>
          match (S.msg mi).find num with
          | none => flagLoop S nd rule fuel mi init seen (val.drop n)
          | some f =>
            match flagField S nd rule fuel f wt val with
            | none => flagLoop S nd rule fuel mi init seen (val.drop n)   -- errUnknown
            | some c =>
              -- `requiredMask |= f.validation.requiredBit; if f.funcs.isInit != nil && !o.initialized { initialized = false }`
              flagLoop S nd rule fuel mi (init && (!considered S nd f || c))
                (if f.card = .required then f.num :: seen else seen) (val.drop n)
/-- `f.funcs.unmarshal`: `none` = errUnknown, `some c` = success with `o.initialized = c` -/
def flagField (S : Schema) (nd : Nat → Bool) (rule : MapRule) : Nat → Field → Nat → List Byte → Option Bool
  | 0, _, _, _ => some true
  | fuel + 1, f, wt, val =>
    match f.card with
    | .repeated =>
      if f.kind.isMessage then
        match decSubBytes f wt val with
        | none => none
        | some (.error _) => some true
        | some (.ok p) => some (flagLoop S nd rule fuel f.sub true [] p)   -- consumeMessageSliceInfo
      else if f.kind.isNumeric && wt = 2 then some true
      else
        match decScalar f wt val with
        | none => none
        | some _ => some true
    | .map =>
      if wt ≠ 2 then none
      else match decBytes val with
        | .error _ => some true
        | .ok (p, _) =>
          match (S.msg f.sub).find 1, (S.msg f.sub).find 2 with
          | some kf, some vf => some (flagEntry S nd rule fuel kf vf p false false true)
          | _, _ => some true
    | _ =>
      if f.kind.isMessage then
        match decSubBytes f wt val with
        | none => none
        | some (.error _) => some true
        | some (.ok p) => some (flagLoop S nd rule fuel f.sub true [] p)   -- consumeMessageInfo: `out.initialized = o.initialized`
      else
        match decScalar f wt val with
        | none => none
        | some _ => some true
/-- the record loop of `consumeMapOfMessage` (`consumeMap` for scalar values, where the result is not
honoured): `anyInit` = some occurrence of the value was initialized, `seenVal` = the value field
occurred, `allInit` = every occurrence was initialized -/
def flagEntry (S : Schema) (nd : Nat → Bool) (rule : MapRule) : Nat → Field → Field → List Byte → Bool → Bool → Bool → Bool
  | 0, _, _, _, _, _, _ => true
  | fuel + 1, kf, vf, b, anyInit, seenVal, allInit =>
    match b with
    | [] =>
      (match rule with
       | .orOcc => anyInit
       | .andOcc => seenVal && allInit)
    | _ =>
      match decTag b with
      | .error _ => true
      | .ok (num, wt, tagLen) =>
        let val := b.drop tagLen
        match Spec.consumeFieldValue num wt val with
        | .error _ => true
        | .ok n =>
          if num = 2 && vf.kind.isMessage then
            match decSubBytes vf wt val with
            | some (.ok p) =>
              let o := flagLoop S nd rule fuel vf.sub true [] p
              flagEntry S nd rule fuel kf vf (val.drop n) (anyInit || o) true (allInit && o)
            | _ => flagEntry S nd rule fuel kf vf (val.drop n) anyInit seenVal allInit
          else flagEntry S nd rule fuel kf vf (val.drop n) anyInit seenVal allInit
end

/-- the fast path's `Unmarshal` of `b` into a new message: the decoded message and the
`UnmarshalInitialized` flag (`proto.Unmarshal` skips `checkInitialized` when it is set) -/
def decFlag (S : Schema) (nd : Nat → Bool) (rule : MapRule) (mi : Nat) (b : List Byte) : Except DErr (Msg × Bool) :=
  (unmarshal S mi b).map fun m => (m, flagLoop S nd rule (fuelFor b) mi true [] b)

/-- HISTORICAL, before /repo 2af26fa: `proto.UnmarshalOptions{Merge: true}.Unmarshal(b, m0)` trusting the
flag, which is computed from the input alone -/
def decFlagInto (S : Schema) (nd : Nat → Bool) (rule : MapRule) (mi : Nat) (m0 : Msg) (b : List Byte) :
    Except DErr (Msg × Bool) :=
  (unmarshalInto S mi m0 b 10000 false).map fun m => (m, flagLoop S nd rule (fuelFor b) mi true [] b)

/-- `proto.UnmarshalOptions{Merge: merge, RecursionLimit: limit, DiscardUnknown: dis}.Unmarshal(b, m0)` on the
fast path, without AllowPartial (proto/decode.go `unmarshal`): `Reset` unless merging; decode; when merging
`out.Flags &^= UnmarshalInitialized`; if the flag is (still) set return nil, else `checkInitialized(m)`, which
is the pruned fast check.  Result: the message and the verdict (`true` = no required-field error). -/
def unmarshalTop (S : Schema) (nd : Nat → Bool) (mi : Nat) (merge : Bool) (m0 : Msg) (b : List Byte)
    (limit : Int := 10000) (dis : Bool := false) : Except DErr (Msg × Bool) :=
  (unmarshalInto S mi (if merge then m0 else Msg.empty) b limit dis).map fun m =>
    let flag := flagLoop S nd .andOcc (fuelFor b) mi true [] b
    (m, (!merge && flag) || initFastMsg S nd mi m)

end FastInit
