import PbVerif.Gen.EditionDefaults
/-
Model.DescFeatures — editions feature resolution as coded in
`reflect/protodesc/editions.go` (getFeatureSetFor, mergeEditionFeatures, initFileDescFromFeatureSet),
`internal/filedesc/editions.go` (unmarshalFeatureSet, unmarshalGoFeature, getFeaturesFor) and the derived
attributes of `internal/filedesc/desc.go` (HasPresence, IsPacked, EnforceUTF8, IsClosed, Kind, Cardinality).
Core Lean only (linked into `pbmodel_desc`).

Two levels:
* `FeatureSet` / `Overrides` — the proto level: one enum NUMBER per feature (the spec the property talks about).
* `GoFeatures` — `filedesc.EditionFeatures`, the lossy boolean view the Go code actually stores and merges.
`view_merge` (Props/C38) shows that merging in the view is the view of merging.
-/
namespace Desc
open Gen.EditionDefaults

/-- The features the Go runtime looks at (`FeatureSet` fields 1..8 and the three `pb.go` features). -/
inductive Feature
  | fieldPresence | enumType | repeatedFieldEncoding | utf8Validation | messageEncoding | jsonFormat
  | enforceNamingStyle | defaultSymbolVisibility
  | goLegacyUnmarshalJsonEnum | goApiLevel | goStripEnumPrefix
deriving DecidableEq, Repr

def Feature.all : List Feature :=
  [.fieldPresence, .enumType, .repeatedFieldEncoding, .utf8Validation, .messageEncoding, .jsonFormat,
   .enforceNamingStyle, .defaultSymbolVisibility, .goLegacyUnmarshalJsonEnum, .goApiLevel, .goStripEnumPrefix]

/-- number used on the line protocol and in `Gen.EditionDefaults.defaults` -/
def Feature.code : Feature → Nat
  | .fieldPresence => fnFieldPresence | .enumType => fnEnumType
  | .repeatedFieldEncoding => fnRepeatedFieldEncoding | .utf8Validation => fnUtf8Validation
  | .messageEncoding => fnMessageEncoding | .jsonFormat => fnJsonFormat
  | .enforceNamingStyle => fnEnforceNamingStyle | .defaultSymbolVisibility => fnDefaultSymbolVisibility
  | .goLegacyUnmarshalJsonEnum => fnGoExt * 100 + fnGoLegacyUnmarshalJsonEnum
  | .goApiLevel => fnGoExt * 100 + fnGoApiLevel
  | .goStripEnumPrefix => fnGoExt * 100 + fnGoStripEnumPrefix

/-- A fully resolved feature set (enum numbers; the bool feature is 0/1). -/
structure FeatureSet where
  fieldPresence : Nat := 0
  enumType : Nat := 0
  repeatedFieldEncoding : Nat := 0
  utf8Validation : Nat := 0
  messageEncoding : Nat := 0
  jsonFormat : Nat := 0
  enforceNamingStyle : Nat := 0
  defaultSymbolVisibility : Nat := 0
  goLegacyUnmarshalJsonEnum : Nat := 0
  goApiLevel : Nat := 0
  goStripEnumPrefix : Nat := 0
deriving DecidableEq, Repr, Inhabited

/-- A `FeatureSet` message as written in an options message: only some fields are mentioned. -/
structure Overrides where
  fieldPresence : Option Nat := none
  enumType : Option Nat := none
  repeatedFieldEncoding : Option Nat := none
  utf8Validation : Option Nat := none
  messageEncoding : Option Nat := none
  jsonFormat : Option Nat := none
  enforceNamingStyle : Option Nat := none
  defaultSymbolVisibility : Option Nat := none
  goLegacyUnmarshalJsonEnum : Option Nat := none
  goApiLevel : Option Nat := none
  goStripEnumPrefix : Option Nat := none
deriving DecidableEq, Repr, Inhabited

def FeatureSet.get (s : FeatureSet) : Feature → Nat
  | .fieldPresence => s.fieldPresence | .enumType => s.enumType
  | .repeatedFieldEncoding => s.repeatedFieldEncoding | .utf8Validation => s.utf8Validation
  | .messageEncoding => s.messageEncoding | .jsonFormat => s.jsonFormat
  | .enforceNamingStyle => s.enforceNamingStyle | .defaultSymbolVisibility => s.defaultSymbolVisibility
  | .goLegacyUnmarshalJsonEnum => s.goLegacyUnmarshalJsonEnum | .goApiLevel => s.goApiLevel
  | .goStripEnumPrefix => s.goStripEnumPrefix

def Overrides.get (o : Overrides) : Feature → Option Nat
  | .fieldPresence => o.fieldPresence | .enumType => o.enumType
  | .repeatedFieldEncoding => o.repeatedFieldEncoding | .utf8Validation => o.utf8Validation
  | .messageEncoding => o.messageEncoding | .jsonFormat => o.jsonFormat
  | .enforceNamingStyle => o.enforceNamingStyle | .defaultSymbolVisibility => o.defaultSymbolVisibility
  | .goLegacyUnmarshalJsonEnum => o.goLegacyUnmarshalJsonEnum | .goApiLevel => o.goApiLevel
  | .goStripEnumPrefix => o.goStripEnumPrefix

def Overrides.set (o : Overrides) (f : Feature) (v : Nat) : Overrides :=
  match f with
  | .fieldPresence => { o with fieldPresence := some v } | .enumType => { o with enumType := some v }
  | .repeatedFieldEncoding => { o with repeatedFieldEncoding := some v }
  | .utf8Validation => { o with utf8Validation := some v }
  | .messageEncoding => { o with messageEncoding := some v } | .jsonFormat => { o with jsonFormat := some v }
  | .enforceNamingStyle => { o with enforceNamingStyle := some v }
  | .defaultSymbolVisibility => { o with defaultSymbolVisibility := some v }
  | .goLegacyUnmarshalJsonEnum => { o with goLegacyUnmarshalJsonEnum := some v }
  | .goApiLevel => { o with goApiLevel := some v } | .goStripEnumPrefix => { o with goStripEnumPrefix := some v }

/-- the empty `FeatureSet` message (also: `features` absent, `child == nil`) -/
def Overrides.empty : Overrides := {}

/-- Proto-level merge: a child `FeatureSet` overrides exactly the fields it mentions
(the meaning of `proto.Merge(parent, child)` on singular fields). -/
def merge (p : FeatureSet) (o : Overrides) : FeatureSet :=
  { fieldPresence := o.fieldPresence.getD p.fieldPresence
    enumType := o.enumType.getD p.enumType
    repeatedFieldEncoding := o.repeatedFieldEncoding.getD p.repeatedFieldEncoding
    utf8Validation := o.utf8Validation.getD p.utf8Validation
    messageEncoding := o.messageEncoding.getD p.messageEncoding
    jsonFormat := o.jsonFormat.getD p.jsonFormat
    enforceNamingStyle := o.enforceNamingStyle.getD p.enforceNamingStyle
    defaultSymbolVisibility := o.defaultSymbolVisibility.getD p.defaultSymbolVisibility
    goLegacyUnmarshalJsonEnum := o.goLegacyUnmarshalJsonEnum.getD p.goLegacyUnmarshalJsonEnum
    goApiLevel := o.goApiLevel.getD p.goApiLevel
    goStripEnumPrefix := o.goStripEnumPrefix.getD p.goStripEnumPrefix }

/-- Overrides composed: `b` after `a` (the later one wins). -/
def Overrides.comp (a b : Overrides) : Overrides :=
  { fieldPresence := b.fieldPresence.orElse fun _ => a.fieldPresence
    enumType := b.enumType.orElse fun _ => a.enumType
    repeatedFieldEncoding := b.repeatedFieldEncoding.orElse fun _ => a.repeatedFieldEncoding
    utf8Validation := b.utf8Validation.orElse fun _ => a.utf8Validation
    messageEncoding := b.messageEncoding.orElse fun _ => a.messageEncoding
    jsonFormat := b.jsonFormat.orElse fun _ => a.jsonFormat
    enforceNamingStyle := b.enforceNamingStyle.orElse fun _ => a.enforceNamingStyle
    defaultSymbolVisibility := b.defaultSymbolVisibility.orElse fun _ => a.defaultSymbolVisibility
    goLegacyUnmarshalJsonEnum := b.goLegacyUnmarshalJsonEnum.orElse fun _ => a.goLegacyUnmarshalJsonEnum
    goApiLevel := b.goApiLevel.orElse fun _ => a.goApiLevel
    goStripEnumPrefix := b.goStripEnumPrefix.orElse fun _ => a.goStripEnumPrefix }

/-- `resolve`: fold the chain file → message → … → node over the edition defaults. -/
def resolveSpec (base : FeatureSet) (chain : List Overrides) : FeatureSet := chain.foldl merge base

/-- The value of the nearest override on the chain that mentions `f` (the chain is outermost first). -/
def nearest (f : Feature) (chain : List Overrides) : Option Nat :=
  chain.reverse.findSome? (·.get f)

/-! ## The Go representation: `filedesc.EditionFeatures` -/

structure GoFeatures where
  stripEnumPrefix : Nat := 0
  isFieldPresence : Bool := false
  isLegacyRequired : Bool := false
  isOpenEnum : Bool := false
  isPacked : Bool := false
  isUTF8Validated : Bool := false
  isDelimitedEncoded : Bool := false
  isJSONCompliant : Bool := false
  generateLegacyUnmarshalJSON : Bool := false
  apiLevel : Nat := 0
deriving DecidableEq, Repr, Inhabited

/-- `mergeEditionFeatures(parent, child)` of reflect/protodesc/editions.go and, on the same abstract input,
`unmarshalFeatureSet(b, parent)` of internal/filedesc/editions.go (each field at most once on the wire):
every `if x := child.X; x != nil { parentFS.IsX = *x == CONST }`. -/
def mergeGo (p : GoFeatures) (o : Overrides) : GoFeatures :=
  let p := match o.fieldPresence with
    | some v => { p with isFieldPresence := v == evLegacyRequired || v == evExplicit, isLegacyRequired := v == evLegacyRequired }
    | none => p
  let p := match o.enumType with | some v => { p with isOpenEnum := v == evOpen } | none => p
  let p := match o.repeatedFieldEncoding with | some v => { p with isPacked := v == evPacked } | none => p
  let p := match o.utf8Validation with | some v => { p with isUTF8Validated := v == evVerify } | none => p
  let p := match o.messageEncoding with | some v => { p with isDelimitedEncoded := v == evDelimited } | none => p
  let p := match o.jsonFormat with | some v => { p with isJSONCompliant := v == evAllow } | none => p
  -- enforce_naming_style, default_symbol_visibility: "runtimes should not inspect this value"
  let p := match o.goLegacyUnmarshalJsonEnum with | some v => { p with generateLegacyUnmarshalJSON := v != 0 } | none => p
  let p := match o.goStripEnumPrefix with | some v => { p with stripEnumPrefix := v } | none => p
  match o.goApiLevel with | some v => { p with apiLevel := v } | none => p

/-- What `EditionFeatures` records of a resolved `FeatureSet`. -/
def view (s : FeatureSet) : GoFeatures :=
  { stripEnumPrefix := s.goStripEnumPrefix
    isFieldPresence := s.fieldPresence == evLegacyRequired || s.fieldPresence == evExplicit
    isLegacyRequired := s.fieldPresence == evLegacyRequired
    isOpenEnum := s.enumType == evOpen
    isPacked := s.repeatedFieldEncoding == evPacked
    isUTF8Validated := s.utf8Validation == evVerify
    isDelimitedEncoded := s.messageEncoding == evDelimited
    isJSONCompliant := s.jsonFormat == evAllow
    generateLegacyUnmarshalJSON := s.goLegacyUnmarshalJsonEnum != 0
    apiLevel := s.goApiLevel }

def resolveGo (base : GoFeatures) (chain : List Overrides) : GoFeatures := chain.foldl mergeGo base

/-! ## Edition defaults (`editions_defaults.binpb`) -/

def Overrides.ofPairs (ps : List (Nat × Nat)) : Overrides :=
  ps.foldl (fun o (p : Nat × Nat) =>
    match Feature.all.find? (fun f => f.code == p.1) with
    | some f => o.set f p.2
    | none => o) Overrides.empty

/-- The table entry chosen by `getFeatureSetFor` / `getFeaturesFor`: the LAST entry whose edition is `≤ ed`
(both loops run over the entries in file order and `break` at the first larger one). -/
def pickDefault (ed : Nat) : List (Nat × List (Bool × List (Nat × Nat))) → Option (Nat × List (Bool × List (Nat × Nat))) → Option (Nat × List (Bool × List (Nat × Nat)))
  | [], acc => acc
  | e :: rest, acc => if e.1 ≤ ed then pickDefault ed rest (some e) else acc

/-- protodesc: `fs := Clone(fixed); Merge(fs, overridable)` — fixed first, overridable wins. -/
def protodescDefaultOverrides (segs : List (Bool × List (Nat × Nat))) : Overrides :=
  let fixed := (segs.filter (·.1)).foldl (fun o s => o.comp (Overrides.ofPairs s.2)) Overrides.empty
  let over := (segs.filter (! ·.1)).foldl (fun o s => o.comp (Overrides.ofPairs s.2)) Overrides.empty
  fixed.comp over

/-- filedesc: both feature sets are unmarshalled into the same struct in WIRE order. -/
def filedescDefaultChain (segs : List (Bool × List (Nat × Nat))) : List Overrides :=
  segs.map fun s => Overrides.ofPairs s.2

/-- `protodesc.getFeatureSetFor(ed)` as a spec-level feature set; `none` = the `os.Exit(1)` / `panic` branches. -/
def defaultsFor (ed : Nat) : Option FeatureSet :=
  if !knownEditions.contains ed then none   -- toEditionProto: panic("unknown value for edition")
  else if (ed < minimumEdition || maximumEdition < ed) && ed != editionUnstable then none  -- os.Exit(1)
  else match pickDefault ed defaults none with
    | some e => some (merge {} (protodescDefaultOverrides e.2))
    | none => none    -- defaults.GetDefaults()[0] would be used; cannot happen inside [minimum, maximum]

/-- `initFileDescFromFeatureSet`: `mergeEditionFeatures(fd /* zero */, dfs)`. -/
def protodescDefaultsGo (ed : Nat) : Option GoFeatures :=
  (defaultsFor ed).map fun _ =>
    match pickDefault ed defaults none with
    | some e => mergeGo {} (protodescDefaultOverrides e.2)
    | none => {}

/-- `filedesc.getFeaturesFor(ed)`: `none` = `panic("unsupported edition")`. -/
def filedescDefaultsGo (ed : Nat) : Option GoFeatures :=
  match pickDefault ed defaults none with
  | some e => some (resolveGo {} (filedescDefaultChain e.2))
  | none => none

/-! ## Derived descriptor attributes (internal/filedesc/desc.go, protodesc/desc_init.go) -/

/-- `protoreflect.Kind` / `FieldDescriptorProto.Type` numbers -/
def kString : Nat := 9
def kGroup : Nat := 10
def kMessage : Nat := 11
def kBytes : Nat := 12
def kEnum : Nat := 14
/-- `protoreflect.Cardinality` / `Label` numbers -/
def cOptional : Nat := 1
def cRequired : Nat := 2
def cRepeated : Nat := 3

/-- Field-level feature resolution (`initFieldsFromDescriptorProto`, `Field.unmarshalFull`+`unmarshalOptions`):
merge the field's own `features`, then the legacy `packed` option overrides `IsPacked`. -/
def fieldFeatures (parent : GoFeatures) (ov : Overrides) (packedOpt : Option Bool) : GoFeatures :=
  let f := mergeGo parent ov
  match packedOpt with
  | some b => { f with isPacked := b }
  | none => f

/-- The same field as `internal/filedesc` resolves it (`Field.unmarshalFull` → `unmarshalOptions`): the options are
consumed in WIRE order, `packed` (field 2) before `features` (field 21) in canonical encodings, so here the
`features` override is applied AFTER the legacy option. -/
def filedescFieldFeatures (parent : GoFeatures) (ov : Overrides) (packedOpt : Option Bool) : GoFeatures :=
  let p := match packedOpt with
    | some b => { parent with isPacked := b }
    | none => parent
  mergeGo p ov

/-- `IsLazy()` of an extension: `filedesc.(*Extension).unmarshalOptions` records `lazy`, and (since 5c0ecc9)
`protodesc.initExtensionDeclarations` sets `x.L1.IsLazy = opts.GetLazy()`. -/
def filedescExtIsLazy (lazyOpt : Bool) : Bool := lazyOpt
def protodescExtIsLazy (lazyOpt : Bool) : Bool := lazyOpt

/-- `if f.L1.EditionFeatures.IsLegacyRequired { f.L1.Cardinality = Required }` (message fields only). -/
def cardinalityOf (label : Nat) (f : GoFeatures) (isExtension : Bool) : Nat :=
  if !isExtension && f.isLegacyRequired then cRequired else label

/-- `if Kind == MessageKind && IsDelimitedEncoded { Kind = GroupKind }` at init; in resolveMessageDependencies
`if Kind == GroupKind && (IsMap() || IsMapEntry()) { Kind = MessageKind }` (message fields only). -/
def kindOf (type : Nat) (f : GoFeatures) (isExtension mapish : Bool) : Nat :=
  let k := if type == kMessage && f.isDelimitedEncoded then kGroup else type
  if !isExtension && k == kGroup && mapish then kMessage else k

/-- `Field.HasPresence` / `Extension.HasPresence`. -/
def hasPresence (card : Nat) (isExtension : Bool) (f : GoFeatures) (hasMessage inOneof : Bool) : Bool :=
  if card == cRepeated then false
  else isExtension || f.isFieldPresence || hasMessage || inOneof

def packableKind (kind : Nat) : Bool :=
  !(kind == kString || kind == kBytes || kind == kMessage || kind == kGroup)

/-- `Field.IsPacked` / `Extension.IsPacked`. -/
def isPacked (card kind : Nat) (f : GoFeatures) : Bool :=
  if card != cRepeated then false
  else if !packableKind kind then false
  else f.isPacked

def enforceUTF8 (f : GoFeatures) : Bool := f.isUTF8Validated

/-- `(*filedesc.Field).EnforceUTF8()` and (since c1ca555) `(*filedesc.Extension).EnforceUTF8()`. -/
def descriptorEnforceUTF8 (f : GoFeatures) : Bool := f.isUTF8Validated

/-- `strs.EnforceUTF8(fd)` AS THE CODECS CALL IT (build tag protolegacy, or an editions file):
```
if xtd, ok := fd.(protoreflect.ExtensionTypeDescriptor); ok { fd = xtd.Descriptor() }   // c7b40f5
if fd, ok := fd.(interface{ EnforceUTF8() bool }); ok { return fd.EnforceUTF8() }
return fd.Syntax() == Proto3
```
A message field reaches it as `*filedesc.Field`; an extension reaches it wrapped in an `ExtensionTypeDescriptor`
(`impl` / `dynamicpb`), is unwrapped to its `*filedesc.Extension`, and the method (c1ca555) answers. -/
def runtimeEnforceUTF8 (_edition : Nat) (_isExtension : Bool) (f : GoFeatures) : Bool := descriptorEnforceUTF8 f
def isClosed (f : GoFeatures) : Bool := !f.isOpenEnum

/-- `protodesc.initEnumDeclarations`: the enum's own `features` are merged. -/
def protodescEnumFeatures (parent : GoFeatures) (ov : Overrides) : GoFeatures := mergeGo parent ov
/-- `filedesc.(*Enum).unmarshalSeed`: `ed.L1.EditionFeatures = featuresFromParentDesc(ed.Parent())`, then (since
e5f41ee) `unmarshalSeedOptions` merges `EnumOptions.features` with `unmarshalFeatureSet`. -/
def filedescEnumFeatures (parent : GoFeatures) (ov : Overrides) : GoFeatures := mergeGo parent ov

/-! ## The pre-editions rules (protobuf-go ≤ v1.31, `internal/filedesc/desc.go`) -/

/-- `syn`: 2 = proto2, 3 = proto3. -/
def legacyHasPresence (syn card : Nat) (isExtension hasMessage inOneof : Bool) : Bool :=
  if isExtension then card != cRepeated
  else card != cRepeated && (syn == 2 || hasMessage || inOneof)

/-- `if !HasPacked && Syntax != Proto2 && Cardinality == Repeated { packable kinds → true }; return IsPacked`. -/
def legacyIsPacked (syn card kind : Nat) (packedOpt : Option Bool) : Bool :=
  match packedOpt with
  | none => syn != 2 && card == cRepeated && packableKind kind
  | some b => b

def legacyEnforceUTF8 (syn : Nat) : Bool := syn == 3
def legacyIsClosed (syn : Nat) : Bool := syn == 2

end Desc
