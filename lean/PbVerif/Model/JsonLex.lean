/-
Engine `jsonlex` (C21 "protojson speaks exactly JSON", C22 "JSON scalar values decode exactly").

Part 1 — an RFC 8259 grammar written from the RFC text (inductive predicates over `List Byte`,
          independent of the Go code) plus an executable reference recogniser `rfcValid` that the
          harness compares with Go's `encoding/json.Valid`.
Part 2 — executable models that mirror /repo/internal/encoding/json (decode_number.go,
          decode_string.go, decode.go, encode.go) and the integer conversions of
          /repo/encoding/protojson/decode.go and internal/encoding/json/decode_token.go.

Core Lean only.  Bytes are `BitVec 8`; a Go `string`/`[]byte` is `List Byte`; Go `int` results are
`Nat`/`Int` (no wrap-around can occur: every count is bounded by an input length).
Character codes are written as hex literals with the character in a comment.
-/
namespace JsonLex
abbrev Byte := BitVec 8
abbrev Bytes := List Byte

/-! ## Lexical classes -/

/-- `DIGIT = %x30-39` -/
def isDigit (c : Byte) : Bool := 0x30#8 ≤ c && c ≤ 0x39#8
/-- `digit1-9 = %x31-39` -/
def isDigit19 (c : Byte) : Bool := 0x31#8 ≤ c && c ≤ 0x39#8
/-- `ws = *( %x20 / %x09 / %x0A / %x0D )` -/
def isWs (c : Byte) : Bool := c = 0x20#8 || c = 0x09#8 || c = 0x0a#8 || c = 0x0d#8
/-- `HEXDIG` (either case, RFC 5234 + RFC 8259 §7) -/
def isHex (c : Byte) : Bool :=
  (0x30#8 ≤ c && c ≤ 0x39#8) || (0x41#8 ≤ c && c ≤ 0x46#8) || (0x61#8 ≤ c && c ≤ 0x66#8)
/-- UTF8-tail = %x80-BF (RFC 3629 §4) -/
def isCont (b : Byte) : Bool := 0x80#8 ≤ b && b ≤ 0xBF#8

def AllDigits (ds : Bytes) : Prop := ∀ d ∈ ds, isDigit d = true
def AllWs (ds : Bytes) : Prop := ∀ d ∈ ds, isWs d = true

/-! ## Part 1a — RFC 8259 §6 numbers -/
namespace RFC

/-- `int = zero / ( digit1-9 *DIGIT )` -/
inductive IntPart : Bytes → Prop
  | zero : IntPart [0x30#8]
  | nonzero (c : Byte) (ds : Bytes) : isDigit19 c = true → AllDigits ds → IntPart (c :: ds)

/-- `[ frac ]`, `frac = decimal-point 1*DIGIT` -/
inductive FracOpt : Bytes → Prop
  | none : FracOpt []
  | some (d : Byte) (ds : Bytes) : isDigit d = true → AllDigits ds → FracOpt (0x2e#8 :: d :: ds)

/-- `[ minus / plus ]` -/
inductive SignOpt : Bytes → Prop
  | none : SignOpt []
  | plus : SignOpt [0x2b#8]
  | minus : SignOpt [0x2d#8]

/-- `[ exp ]`, `exp = e [ minus / plus ] 1*DIGIT`, `e = %x65 / %x45` -/
inductive ExpOpt : Bytes → Prop
  | none : ExpOpt []
  | some (e : Byte) (sg : Bytes) (d : Byte) (ds : Bytes) :
      (e = 0x65#8 ∨ e = 0x45#8) → SignOpt sg → isDigit d = true → AllDigits ds →
      ExpOpt (e :: (sg ++ d :: ds))

/-- `[ minus ]` -/
inductive MinusOpt : Bytes → Prop
  | none : MinusOpt []
  | minus : MinusOpt [0x2d#8]

/-- `number = [ minus ] int [ frac ] [ exp ]` -/
inductive Number : Bytes → Prop
  | mk (m i f e : Bytes) : MinusOpt m → IntPart i → FracOpt f → ExpOpt e → Number (m ++ (i ++ (f ++ e)))

/-! ## Part 1b — RFC 8259 §7 strings over UTF-8 (RFC 3629 §4) -/

/-- One UTF-8 encoded character, RFC 3629 §4:
```
UTF8-1 = %x00-7F
UTF8-2 = %xC2-DF UTF8-tail
UTF8-3 = %xE0 %xA0-BF UTF8-tail / %xE1-EC 2( UTF8-tail ) / %xED %x80-9F UTF8-tail / %xEE-EF 2( UTF8-tail )
UTF8-4 = %xF0 %x90-BF 2( UTF8-tail ) / %xF1-F3 3( UTF8-tail ) / %xF4 %x80-8F 2( UTF8-tail )
``` -/
inductive Utf8Char : Bytes → Prop
  | one (a : Byte) : a ≤ 0x7F#8 → Utf8Char [a]
  | two (a b : Byte) : 0xC2#8 ≤ a → a ≤ 0xDF#8 → isCont b = true → Utf8Char [a, b]
  | threeE0 (b c : Byte) : 0xA0#8 ≤ b → b ≤ 0xBF#8 → isCont c = true → Utf8Char [0xE0#8, b, c]
  | threeE1 (a b c : Byte) : 0xE1#8 ≤ a → a ≤ 0xEC#8 → isCont b = true → isCont c = true → Utf8Char [a, b, c]
  | threeED (b c : Byte) : 0x80#8 ≤ b → b ≤ 0x9F#8 → isCont c = true → Utf8Char [0xED#8, b, c]
  | threeEE (a b c : Byte) : 0xEE#8 ≤ a → a ≤ 0xEF#8 → isCont b = true → isCont c = true → Utf8Char [a, b, c]
  | fourF0 (b c d : Byte) : 0x90#8 ≤ b → b ≤ 0xBF#8 → isCont c = true → isCont d = true → Utf8Char [0xF0#8, b, c, d]
  | fourF1 (a b c d : Byte) : 0xF1#8 ≤ a → a ≤ 0xF3#8 → isCont b = true → isCont c = true → isCont d = true →
      Utf8Char [a, b, c, d]
  | fourF4 (b c d : Byte) : 0x80#8 ≤ b → b ≤ 0x8F#8 → isCont c = true → isCont d = true → Utf8Char [0xF4#8, b, c, d]

/-- the one-letter escapes `%x22 / %x5C / %x2F / %x62 / %x66 / %x6E / %x72 / %x74` -/
def isSimpleEscape (c : Byte) : Bool :=
  c = 0x22#8 || c = 0x5c#8 || c = 0x2f#8 || c = 0x62#8 || c = 0x66#8 || c = 0x6e#8 || c = 0x72#8 || c = 0x74#8

/-- `char = unescaped / escape ( one-letter / %x75 4HEXDIG )`,
`unescaped = %x20-21 / %x23-5B / %x5D-10FFFF` (a UTF-8 character other than a control character,
the quotation mark and the reverse solidus). -/
inductive JChar : Bytes → Prop
  | unescaped (u : Bytes) : Utf8Char u → (∀ a, u = [a] → 0x20#8 ≤ a ∧ a ≠ 0x22#8 ∧ a ≠ 0x5c#8) → JChar u
  | simple (c : Byte) : isSimpleEscape c = true → JChar [0x5c#8, c]
  | hex (h1 h2 h3 h4 : Byte) : isHex h1 = true → isHex h2 = true → isHex h3 = true → isHex h4 = true →
      JChar [0x5c#8, 0x75#8, h1, h2, h3, h4]

/-- `*char` -/
inductive JChars : Bytes → Prop
  | nil : JChars []
  | cons (c cs : Bytes) : JChar c → JChars cs → JChars (c ++ cs)

/-- `string = quotation-mark *char quotation-mark` -/
inductive JString : Bytes → Prop
  | mk (cs : Bytes) : JChars cs → JString (0x22#8 :: (cs ++ [0x22#8]))

/-! ## Part 1c — RFC 8259 §2–§5 values, over tokens -/

/-- the six structural characters and the value tokens; numbers and strings carry their spelling -/
inductive Tok
  | null | true_ | false_
  | number (raw : Bytes)
  | string (raw : Bytes)
  | lbrace | rbrace | lbrack | rbrack | comma | colon
  deriving DecidableEq, Repr

/- `member *( value-separator member )`, `value *( value-separator value )`, and
`value = false / null / true / object / array / number / string` as derivations over token lists. -/
mutual
inductive Value : List Tok → Prop
  | null : Value [.null]
  | true_ : Value [.true_]
  | false_ : Value [.false_]
  | number (raw : Bytes) : Value [.number raw]
  | string (raw : Bytes) : Value [.string raw]
  | emptyObject : Value [.lbrace, .rbrace]
  | object (ms : List Tok) : Members ms → Value (.lbrace :: (ms ++ [.rbrace]))
  | emptyArray : Value [.lbrack, .rbrack]
  | array (es : List Tok) : Elems es → Value (.lbrack :: (es ++ [.rbrack]))
inductive Members : List Tok → Prop
  | one (k : Bytes) (v : List Tok) : Value v → Members (.string k :: .colon :: v)
  | snoc (ms : List Tok) (k : Bytes) (v : List Tok) : Members ms → Value v →
      Members (ms ++ (.comma :: .string k :: .colon :: v))
inductive Elems : List Tok → Prop
  | one (v : List Tok) : Value v → Elems v
  | snoc (es v : List Tok) : Elems es → Value v → Elems (es ++ (.comma :: v))
end

/-- the spelling of a token; the lexical grammars of numbers and strings are parameters so that the
same definition serves the RFC (`Number`, `JString`) and "what the decoder accepts" -/
inductive Spells (Num Str : Bytes → Prop) : Tok → Bytes → Prop
  | null : Spells Num Str .null [0x6e#8, 0x75#8, 0x6c#8, 0x6c#8]
  | true_ : Spells Num Str .true_ [0x74#8, 0x72#8, 0x75#8, 0x65#8]
  | false_ : Spells Num Str .false_ [0x66#8, 0x61#8, 0x6c#8, 0x73#8, 0x65#8]
  | number (b : Bytes) : Num b → Spells Num Str (.number b) b
  | string (b : Bytes) : Str b → Spells Num Str (.string b) b
  | lbrace : Spells Num Str .lbrace [0x7b#8]
  | rbrace : Spells Num Str .rbrace [0x7d#8]
  | lbrack : Spells Num Str .lbrack [0x5b#8]
  | rbrack : Spells Num Str .rbrack [0x5d#8]
  | comma : Spells Num Str .comma [0x2c#8]
  | colon : Spells Num Str .colon [0x3a#8]

/-- `ws tok ws tok … ws` (RFC 8259 §2: insignificant whitespace is allowed before or after any of
the six structural characters, and around the top-level value) -/
inductive LexesTo (Num Str : Bytes → Prop) : Bytes → List Tok → Prop
  | nil (w : Bytes) : AllWs w → LexesTo Num Str w []
  | cons (w b rest : Bytes) (t : Tok) (ts : List Tok) : AllWs w → Spells Num Str t b →
      LexesTo Num Str rest ts → LexesTo Num Str (w ++ (b ++ rest)) (t :: ts)

/-- `JSON-text = ws value ws` with given lexical grammars -/
def JsonTextG (Num Str : Bytes → Prop) (b : Bytes) : Prop := ∃ ts, LexesTo Num Str b ts ∧ Value ts

/-- RFC 8259 JSON text -/
def JsonText (b : Bytes) : Prop := JsonTextG Number JString b

end RFC

/-! ## Part 1d — executable reference recogniser (independent of the Go code; compared with
`encoding/json.Valid` by the harness; strings must be valid UTF-8) -/
namespace Ref

def digitsLen (s : Bytes) : Nat := (s.takeWhile isDigit).length

/-- length of the `int` at the start of `s` -/
def intLen : Bytes → Option Nat
  | [] => none
  | c :: t => if c = 0x30#8 then some 1 else if isDigit19 c then some (1 + digitsLen t) else none

def fracLen : Bytes → Nat
  | c :: d :: t => if c = 0x2e#8 ∧ isDigit d = true then 2 + digitsLen t else 0
  | _ => 0

def expLen : Bytes → Nat
  | e :: t =>
    if e = 0x65#8 ∨ e = 0x45#8 then
      match t with
      | s :: d :: t2 =>
        if (s = 0x2b#8 ∨ s = 0x2d#8) ∧ isDigit d = true then 3 + digitsLen t2
        else if isDigit s = true then 1 + digitsLen t
        else 0
      | [d] => if isDigit d = true then 2 else 0
      | [] => 0
    else 0
  | [] => 0

/-- length of the longest RFC number at the start of `s` -/
def numberLen (s : Bytes) : Option Nat :=
  let m := match s with
    | c :: _ => if c = 0x2d#8 then 1 else 0
    | [] => 0
  match intLen (s.drop m) with
  | none => none
  | some i =>
    let f := fracLen (s.drop (m + i))
    let e := expLen (s.drop (m + i + f))
    some (m + i + f + e)

/-- is the whole of `s` an RFC 8259 number -/
def isNumber (s : Bytes) : Bool := numberLen s == some s.length

/-- length of the UTF-8 character at the start of `s` (RFC 3629 §4 table), `0` if there is none -/
def utf8Len : Bytes → Nat
  | [] => 0
  | a :: t =>
    if a ≤ 0x7F#8 then 1
    else if 0xC2#8 ≤ a ∧ a ≤ 0xDF#8 then
      match t with
      | b :: _ => if isCont b then 2 else 0
      | _ => 0
    else if 0xE0#8 ≤ a ∧ a ≤ 0xEF#8 then
      match t with
      | b :: c :: _ =>
        let lo : Byte := if a = 0xE0#8 then 0xA0#8 else 0x80#8
        let hi : Byte := if a = 0xED#8 then 0x9F#8 else 0xBF#8
        if lo ≤ b ∧ b ≤ hi ∧ isCont c = true then 3 else 0
      | _ => 0
    else if 0xF0#8 ≤ a ∧ a ≤ 0xF4#8 then
      match t with
      | b :: c :: d :: _ =>
        let lo : Byte := if a = 0xF0#8 then 0x90#8 else 0x80#8
        let hi : Byte := if a = 0xF4#8 then 0x8F#8 else 0xBF#8
        if lo ≤ b ∧ b ≤ hi ∧ isCont c = true ∧ isCont d = true then 4 else 0
      | _ => 0
    else 0

/-- `s` is at a position inside a string (after the opening quote); returns what follows the
closing quote.  Fuel: one unit per character. -/
def stringBody : Nat → Bytes → Option Bytes
  | 0, _ => none
  | _, [] => none
  | fuel+1, a :: t =>
    if a = 0x22#8 then some t
    else if a = 0x5c#8 then
      match t with
      | [] => none
      | e :: t2 =>
        if RFC.isSimpleEscape e then stringBody fuel t2
        else if e = 0x75#8 then
          match t2 with
          | h1 :: h2 :: h3 :: h4 :: t3 =>
            if isHex h1 ∧ isHex h2 ∧ isHex h3 ∧ isHex h4 then stringBody fuel t3 else none
          | _ => none
        else none
    else if a < 0x20#8 then none
    else
      let n := utf8Len (a :: t)
      if n = 0 then none else stringBody fuel ((a :: t).drop n)

/-- what follows the RFC string at the start of `s` -/
def stringRest : Bytes → Option Bytes
  | c :: t => if c = 0x22#8 then stringBody (t.length + 1) t else none
  | [] => none

def isString (s : Bytes) : Bool := stringRest s == some []

def skipWs (s : Bytes) : Bytes := s.dropWhile isWs

def litNull : Bytes := [0x6e#8, 0x75#8, 0x6c#8, 0x6c#8]
def litTrue : Bytes := [0x74#8, 0x72#8, 0x75#8, 0x65#8]
def litFalse : Bytes := [0x66#8, 0x61#8, 0x6c#8, 0x73#8, 0x65#8]

def stripPrefix (p s : Bytes) : Option Bytes :=
  if p.isPrefixOf s then some (s.drop p.length) else none

/- recursive descent; every function expects no leading whitespace and returns the rest with
leading whitespace removed -/
mutual
def value : Nat → Bytes → Option Bytes
  | 0, _ => none
  | _, [] => none
  | fuel+1, c :: t =>
    if c = 0x7b#8 then
      match skipWs t with
      | d :: t2 => if d = 0x7d#8 then some (skipWs t2) else members fuel (d :: t2)
      | [] => none
    else if c = 0x5b#8 then
      match skipWs t with
      | d :: t2 => if d = 0x5d#8 then some (skipWs t2) else elems fuel (d :: t2)
      | [] => none
    else if c = 0x22#8 then (stringRest (c :: t)).map skipWs
    else if c = 0x6e#8 then (stripPrefix litNull (c :: t)).map skipWs
    else if c = 0x74#8 then (stripPrefix litTrue (c :: t)).map skipWs
    else if c = 0x66#8 then (stripPrefix litFalse (c :: t)).map skipWs
    else match numberLen (c :: t) with
      | some n => some (skipWs ((c :: t).drop n))
      | none => none
/-- after `{ ws` or `, ws` inside an object: `string ws : ws value ws ( , ws members | } ws )` -/
def members : Nat → Bytes → Option Bytes
  | 0, _ => none
  | fuel+1, s =>
    match stringRest s with
    | none => none
    | some r =>
      match skipWs r with
      | c :: t =>
        if c = 0x3a#8 then
          match value fuel (skipWs t) with
          | some (d :: t2) =>
            if d = 0x2c#8 then members fuel (skipWs t2)
            else if d = 0x7d#8 then some (skipWs t2) else none
          | _ => none
        else none
      | [] => none
def elems : Nat → Bytes → Option Bytes
  | 0, _ => none
  | fuel+1, s =>
    match value fuel s with
    | some (d :: t2) =>
      if d = 0x2c#8 then elems fuel (skipWs t2)
      else if d = 0x5d#8 then some (skipWs t2) else none
    | _ => none
end

/-- RFC 8259 `JSON-text = ws value ws` -/
def rfcValid (s : Bytes) : Bool :=
  match value (2 * s.length + 2) (skipWs s) with
  | some [] => true
  | _ => false

end Ref

/-! ## Part 2a — decode_number.go -/

/-- `isNotDelim` (decode.go) -/
def isNotDelim (c : Byte) : Bool :=
  c = 0x2d#8 || c = 0x2b#8 || c = 0x2e#8 || c = 0x5f#8 ||
  (0x61#8 ≤ c && c ≤ 0x7a#8) || (0x41#8 ≤ c && c ≤ 0x5a#8) || (0x30#8 ≤ c && c ≤ 0x39#8)

/-- the number of iterations of `for len(s) > 0 && '0' <= s[0] && s[0] <= '9' { s = s[1:]; n++ }` -/
def digitsLen (s : Bytes) : Nat := (s.takeWhile isDigit).length
/-- `s` after that loop -/
def dropDigits (s : Bytes) : Bytes := s.dropWhile isDigit

/-- the final check of `parseNumber`: `if n < len(input) && isNotDelim(input[n]) { return 0, false }` -/
def numDelim (input : Bytes) (n : Nat) : Option Nat :=
  match input[n]? with
  | some c => if isNotDelim c then none else some n
  | none => some n

/-- `parseNumber` from "e or E followed by an optional - or + and 1 or more digits" on; `s` is the
unconsumed input and `n` the count so far.  At least one digit is required after the exponent marker
and sign (`if s[0] < '0' || '9' < s[0] { return 0, false }`, repo commit be83e9c). -/
def numExp (input s : Bytes) (n : Nat) : Option Nat :=
  match s with
  | c0 :: c1 :: t =>                                   -- len(s) >= 2
    if c0 = 0x65#8 ∨ c0 = 0x45#8 then                   -- 'e' 'E';  s = s[1:]; n++
      if c1 = 0x2b#8 ∨ c1 = 0x2d#8 then                 -- '+' '-';  s = s[1:]; n++
        match t with
        | [] => none                                    -- if len(s) == 0 { return 0, false }
        | d :: _ => if isDigit d then numDelim input (n + 2 + digitsLen t) else none
      else if isDigit c1 then numDelim input (n + 1 + digitsLen (c1 :: t)) else none
    else numDelim input n
  | _ => numDelim input n

/-- `parseNumber` from ". followed by 1 or more digits" on.  The stage that follows (the exponent, `numExp`)
is a parameter, which lets the lemmas about the stages be stated once for any exponent stage. -/
def numFracG (expF : Bytes → Bytes → Nat → Option Nat) (input s : Bytes) (n : Nat) : Option Nat :=
  match s with
  | c0 :: c1 :: t =>
    if c0 = 0x2e#8 ∧ isDigit c1 = true then expF input (dropDigits t) (n + 2 + digitsLen t)
    else expF input s n
  | _ => expF input s n

/-- `parseNumber` from "Digits" on -/
def numIntG (expF : Bytes → Bytes → Nat → Option Nat) (input s : Bytes) (n : Nat) : Option Nat :=
  match s with
  | [] => none
  | c :: t =>
    if c = 0x30#8 then numFracG expF input t (n + 1)
    else if isDigit19 c then numFracG expF input (dropDigits t) (n + 1 + digitsLen t)
    else none

def parseNumberG (expF : Bytes → Bytes → Nat → Option Nat) (input : Bytes) : Option Nat :=
  match input with
  | [] => none
  | c :: t =>
    if c = 0x2d#8 then                                   -- Optional -
      match t with
      | [] => none
      | _ :: _ => numIntG expF input t 1
    else numIntG expF input input 0

/-- `parseNumber(input []byte) (int, bool)` -/
def parseNumber (input : Bytes) : Option Nat := parseNumberG numExp input

/-- `numberParts` -/
structure NumberParts where
  neg : Bool
  intp : Bytes
  frac : Bytes
  exp : Bytes
  deriving DecidableEq, Repr

/-- `bytes.TrimRight(frac, "0")` -/
def trimRightZeros (s : Bytes) : Bytes := (s.reverse.dropWhile (· == 0x30#8)).reverse

/-- exponent part of `parseNumberParts`; returns `exp` -/
def partsExp (s : Bytes) : Option Bytes :=
  match s with
  | c0 :: c1 :: t =>
    if c0 = 0x65#8 ∨ c0 = 0x45#8 then                   -- s = s[1:]; exp = s; n := 0
      if c1 = 0x2b#8 ∨ c1 = 0x2d#8 then
        match t with
        | [] => none
        | d :: _ => if isDigit d then some (c1 :: t.takeWhile isDigit) else none    -- exp[:1+digits]
      else if isDigit c1 then some ((c1 :: t).takeWhile isDigit) else none
    else some []
  | _ => some []

/-- fraction part of `parseNumberParts`; returns `(frac, rest)` -/
def partsFrac (s : Bytes) : Bytes × Bytes :=
  match s with
  | c0 :: c1 :: t =>
    if c0 = 0x2e#8 ∧ isDigit c1 = true then (c1 :: t.takeWhile isDigit, dropDigits t) else ([], s)
  | _ => ([], s)

/-- `parseNumberParts(input []byte) (numberParts, bool)` -/
def parseNumberParts (input : Bytes) : Option NumberParts :=
  match input with
  | [] => none
  | c0 :: t0 =>
    let neg : Bool := c0 = 0x2d#8
    let s := if neg then t0 else input
    match s with
    | [] => none
    | c :: t =>
      let intpRest : Option (Bytes × Bytes) :=
        if c = 0x30#8 then some ([], t)                  -- Skip first 0 and no need to store.
        else if isDigit19 c then some (c :: t.takeWhile isDigit, dropDigits t)
        else none
      match intpRest with
      | none => none
      | some (intp, s1) =>
        let fr := partsFrac s1
        match partsExp fr.2 with
        | none => none
        | some exp => some { neg := neg, intp := intp, frac := trimRightZeros fr.1, exp := exp }

/-- value of a string of decimal digits (callers check that the bytes are digits) -/
def natOfDigits (ds : Bytes) : Nat := ds.foldl (fun a d => 10 * a + (d.toNat - 48)) 0

/-- `strconv.ParseUint(s, 10, bits)` from its documented contract: a non-empty string of decimal
digits (no sign, no underscores in base 10) whose value fits in `bits` bits. -/
def parseUintBits (bits : Nat) (s : Bytes) : Option Nat :=
  if s.isEmpty then none
  else if s.all isDigit then
    let v := natOfDigits s
    if v < 2 ^ bits then some v else none
  else none

/-- `strconv.ParseInt(s, 10, bits)`: optional `+`/`-`, then as `ParseUint`; range
`-2^(bits-1) … 2^(bits-1)-1`. -/
def parseIntBits (bits : Nat) (s : Bytes) : Option Int :=
  match s with
  | [] => none
  | c :: t =>
    let neg : Bool := c = 0x2d#8
    let ds := if c = 0x2b#8 ∨ c = 0x2d#8 then t else s
    if ds.isEmpty then none
    else if ds.all isDigit then
      let v := natOfDigits ds
      if neg then (if v ≤ 2 ^ (bits - 1) then some (-(v : Int)) else none)
      else (if v < 2 ^ (bits - 1) then some (v : Int) else none)
    else none

/-- `for lead < fracSize && n.frac[lead] == '0' { lead++ }` -/
def leadZeros (s : Bytes) : Nat := (s.takeWhile (· == 0x30#8)).length

/-- `normalizeToIntString(n numberParts) (string, bool)` (repo commit 265c3c0) -/
def normalizeToIntString (n : NumberParts) : Option Bytes :=
  let intpSize := n.intp.length
  let fracSize := n.frac.length
  if intpSize = 0 ∧ fracSize = 0 then some [0x30#8]
  else
    let expo : Option Int := if n.exp.length > 0 then parseIntBits 32 n.exp else some 0
    match expo with
    | none => none
    | some exp =>
      let sign : Bytes := if n.neg then [0x2d#8] else []
      if exp ≥ 0 then
        if (fracSize : Int) > exp then none
        else
          -- leading zeros of the fraction are not digits of the result when there is no integer part
          let lead := if intpSize = 0 then leadZeros n.frac else 0
          if (intpSize : Int) + exp - (lead : Int) > 20 then none   -- maxDigits
          else some (sign ++ (n.intp ++ (n.frac.drop lead ++ List.replicate (exp.toNat - fracSize) 0x30#8)))
      else
        if fracSize > 0 then none
        else
          let index : Int := (intpSize : Int) + exp
          if index < 0 then none
          else if (n.intp.drop index.toNat).all (· == 0x30#8) then some (sign ++ n.intp.take index.toNat)
          else none

/-- `Token.getIntStr` for a token of kind Number with the given raw bytes -/
def getIntStr (raw : Bytes) : Option Bytes :=
  (parseNumberParts raw).bind normalizeToIntString

/-- `Token.Int(bitSize)` for a Number token -/
def tokenInt (bits : Nat) (raw : Bytes) : Option Int :=
  (getIntStr raw).bind (parseIntBits bits)

/-- `Token.Uint(bitSize)` for a Number token -/
def tokenUint (bits : Nat) (raw : Bytes) : Option Nat :=
  (getIntStr raw).bind (parseUintBits bits)

/-! ## Part 2b — unicode/utf8, unicode/utf16 (from their documented contracts) and decode_string.go -/

def runeError : Nat := 0xFFFD

/-- `utf8.DecodeRune`: `(rune, size)`; `(RuneError, 1)` for an invalid or short encoding and
`(RuneError, 0)` for empty input. -/
def decodeRune : Bytes → Nat × Nat
  | [] => (runeError, 0)
  | a :: t =>
    if a < 0x80#8 then (a.toNat, 1)
    else if 0xC2#8 ≤ a ∧ a ≤ 0xDF#8 then
      match t with
      | b :: _ => if isCont b then ((a.toNat - 0xC0) * 64 + (b.toNat - 0x80), 2) else (runeError, 1)
      | _ => (runeError, 1)
    else if 0xE0#8 ≤ a ∧ a ≤ 0xEF#8 then
      match t with
      | b :: c :: _ =>
        let lo : Byte := if a = 0xE0#8 then 0xA0#8 else 0x80#8
        let hi : Byte := if a = 0xED#8 then 0x9F#8 else 0xBF#8
        if lo ≤ b ∧ b ≤ hi ∧ isCont c = true then
          ((a.toNat - 0xE0) * 4096 + (b.toNat - 0x80) * 64 + (c.toNat - 0x80), 3)
        else (runeError, 1)
      | _ => (runeError, 1)
    else if 0xF0#8 ≤ a ∧ a ≤ 0xF4#8 then
      match t with
      | b :: c :: d :: _ =>
        let lo : Byte := if a = 0xF0#8 then 0x90#8 else 0x80#8
        let hi : Byte := if a = 0xF4#8 then 0x8F#8 else 0xBF#8
        if lo ≤ b ∧ b ≤ hi ∧ isCont c = true ∧ isCont d = true then
          ((a.toNat - 0xF0) * 262144 + (b.toNat - 0x80) * 4096 + (c.toNat - 0x80) * 64 + (d.toNat - 0x80), 4)
        else (runeError, 1)
      | _ => (runeError, 1)
    else (runeError, 1)

/-- `utf8.AppendRune(nil, r)` / `string(rune(r))`: surrogates and values above U+10FFFF encode U+FFFD -/
def encodeRune (r : Nat) : Bytes :=
  if r < 0x80 then [BitVec.ofNat 8 r]
  else if r < 0x800 then [BitVec.ofNat 8 (0xC0 + r / 64), BitVec.ofNat 8 (0x80 + r % 64)]
  else if (0xD800 ≤ r ∧ r < 0xE000) ∨ r > 0x10FFFF then [0xEF#8, 0xBF#8, 0xBD#8]
  else if r < 0x10000 then
    [BitVec.ofNat 8 (0xE0 + r / 4096), BitVec.ofNat 8 (0x80 + r / 64 % 64), BitVec.ofNat 8 (0x80 + r % 64)]
  else
    [BitVec.ofNat 8 (0xF0 + r / 262144), BitVec.ofNat 8 (0x80 + r / 4096 % 64),
     BitVec.ofNat 8 (0x80 + r / 64 % 64), BitVec.ofNat 8 (0x80 + r % 64)]

/-- `utf16.IsSurrogate` -/
def isSurrogate (r : Nat) : Bool := 0xD800 ≤ r && r < 0xE000

/-- `utf16.DecodeRune(r1, r2)` -/
def decodeSurrogates (r1 r2 : Nat) : Nat :=
  if 0xD800 ≤ r1 ∧ r1 < 0xDC00 ∧ 0xDC00 ≤ r2 ∧ r2 < 0xE000 then
    (r1 - 0xD800) * 1024 + (r2 - 0xDC00) + 0x10000
  else runeError

def hexVal (c : Byte) : Option Nat :=
  if 0x30#8 ≤ c ∧ c ≤ 0x39#8 then some (c.toNat - 0x30)
  else if 0x61#8 ≤ c ∧ c ≤ 0x66#8 then some (c.toNat - 0x61 + 10)
  else if 0x41#8 ≤ c ∧ c ≤ 0x46#8 then some (c.toNat - 0x41 + 10)
  else none

/-- `strconv.ParseUint(string(s[0:4]), 16, 16)` for a slice with at least four bytes:
four hexadecimal digits, either case, nothing else. -/
def parseHex4 : Bytes → Option Nat
  | h1 :: h2 :: h3 :: h4 :: _ =>
    match hexVal h1, hexVal h2, hexVal h3, hexVal h4 with
    | some a, some b, some c, some d => some (a * 4096 + b * 256 + c * 16 + d)
    | _, _, _, _ => none
  | _ => none

inductive Err
  | eof      -- ErrUnexpectedEOF
  | syntax   -- any error made by newSyntaxError
  deriving DecidableEq, Repr

/-- The `case 'u'` block of the loop of `Decoder.parseString`; `t2` is the input after `\\u`.
Result: the bytes appended to `out` and the new `in`. -/
def strEscapeU (t2 : Bytes) : Except Err (Bytes × Bytes) :=
  if t2.length < 4 then .error .eof                           -- len(in) < 6
  else
    match parseHex4 t2 with
    | none => .error .syntax
    | some v =>
      let in6 := t2.drop 4
      if isSurrogate v then
        if in6.length < 6 then .error .eof
        else
          match in6 with
          | b0 :: b1 :: t3 =>
            match parseHex4 t3 with
            | none => .error .syntax
            | some v2 =>
              let r := decodeSurrogates v v2
              if b0 ≠ 0x5c#8 ∨ b1 ≠ 0x75#8 ∨ r = runeError then .error .syntax
              else .ok (encodeRune r, t3.drop 4)
          | _ => .error .eof
      else .ok (encodeRune v, in6)

/-- The `case r == '\\'` block of the loop of `Decoder.parseString`; `t` is the input after the
backslash.  Result: the bytes appended to `out` and the new `in`. -/
def strEscape (t : Bytes) : Except Err (Bytes × Bytes) :=
  match t with
  | [] => .error .eof                                         -- len(in) < 2
  | e :: t2 =>
    if e = 0x22#8 ∨ e = 0x5c#8 ∨ e = 0x2f#8 then .ok ([e], t2)
    else if e = 0x62#8 then .ok ([0x08#8], t2)                -- \b
    else if e = 0x66#8 then .ok ([0x0c#8], t2)                -- \f
    else if e = 0x6e#8 then .ok ([0x0a#8], t2)                -- \n
    else if e = 0x72#8 then .ok ([0x0d#8], t2)                -- \r
    else if e = 0x74#8 then .ok ([0x09#8], t2)                -- \t
    else if e = 0x75#8 then strEscapeU t2                     -- \u
    else .error .syntax

/-- The `for len(in) > 0` loop of `Decoder.parseString`; `inp` is the unconsumed input, `out` the
unescaped content so far; result: `(content, unconsumed input after the closing quote)`.
One iteration per character or escape (the `indexNeedEscapeInBytes` fast path, which only copies a
run of characters that this loop would copy one by one, is not modelled separately).
Fuel: one unit per iteration; `parseString` supplies `len(in) + 1`. -/
def strLoop : Nat → Bytes → Bytes → Except Err (Bytes × Bytes)
  | 0, _, _ => .error .eof
  | _, [], _ => .error .eof                                   -- loop exit: return "", 0, ErrUnexpectedEOF
  | fuel+1, a :: t, out =>
    let rn := decodeRune (a :: t)
    if rn.1 = runeError ∧ rn.2 = 1 then .error .syntax         -- invalid UTF-8 in string
    else if rn.1 < 0x20 then .error .syntax                    -- invalid character in string
    else if rn.1 = 0x22 then .ok (out, t)                      -- '"'
    else if rn.1 = 0x5c then                                   -- '\\'
      match strEscape t with
      | .error e => .error e
      | .ok (d, rest) => strLoop fuel rest (out ++ d)
    else strLoop fuel ((a :: t).drop rn.2) (out ++ (a :: t).take rn.2)

/-- `Decoder.parseString(in) (string, int, error)`: `(content, n)` -/
def parseString (inp : Bytes) : Except Err (Bytes × Nat) :=
  match inp with
  | [] => .error .eof
  | q :: t =>
    if q ≠ 0x22#8 then .error .syntax
    else
      match strLoop (t.length + 1) t [] with
      | .error e => .error e
      | .ok (out, rest) => .ok (out, inp.length - rest.length)

/-! ## Part 2c — decode.go: the token automaton of `Decoder.Read` -/

inductive Kind
  | none | eof | null | bool | number | string | name | objOpen | objClose | arrOpen | arrClose | comma
  deriving DecidableEq, Repr

/-- an element of `openStack` (only `ObjectOpen` and `ArrayOpen` are ever pushed) -/
inductive Open
  | obj | arr
  deriving DecidableEq, Repr

structure Token where
  kind : Kind
  raw : Bytes := []
  boo : Bool := false
  str : Bytes := []
  deriving DecidableEq, Repr

/-- the state of a `Decoder` that matters for `Read` (positions, `orig` and the `Peek` cache are not
modelled); the top of `openStack` is the head of `stack` -/
structure DState where
  lastKind : Kind := .none
  stack : List Open := []
  inp : Bytes
  deriving Repr

/-- `Decoder.consume(0)`; `consume(n)` is `dropWs (in.drop n)` -/
def dropWs (s : Bytes) : Bytes := s.dropWhile isWs

def litNull : Bytes := [0x6e#8, 0x75#8, 0x6c#8, 0x6c#8]
def litTrue : Bytes := [0x74#8, 0x72#8, 0x75#8, 0x65#8]
def litFalse : Bytes := [0x66#8, 0x61#8, 0x6c#8, 0x73#8, 0x65#8]

/-- `matchWithDelim(s, b)` -/
def matchWithDelim (s b : Bytes) : Nat :=
  if s.isPrefixOf b then
    match b[s.length]? with
    | some c => if isNotDelim c then 0 else s.length
    | none => s.length
  else 0

/-- the `'n'`, `'t'`, `'f'` cases of `parseNext`: `matchWithDelim(lit, in)`, then `consumeToken` -/
def lexLit (k : Kind) (lit : Bytes) (boo : Bool) (inp : Bytes) : Except Err (Token × Nat) :=
  if matchWithDelim lit inp ≠ 0 then .ok ({ kind := k, raw := lit, boo := boo }, lit.length)
  else .error .syntax

/-- the number case of `parseNext`; `pn` is `parseNumber` (a parameter of the lexer and of `Read`, so
that the automaton lemmas need only know what `pn` accepts) -/
def lexNumber (pn : Bytes → Option Nat) (inp : Bytes) : Except Err (Token × Nat) :=
  match pn inp with
  | some n => .ok ({ kind := .number, raw := inp.take n }, n)
  | none => .error .syntax

/-- the string case of `parseNext` -/
def lexString (inp : Bytes) : Except Err (Token × Nat) :=
  match parseString inp with
  | .error e => .error e
  | .ok (s, n) => .ok ({ kind := .string, raw := inp.take n, str := s }, n)

/-- the one-byte tokens of `parseNext` -/
def lexPunct (c : Byte) : Except Err (Token × Nat) :=
  if c = 0x7b#8 then .ok ({ kind := .objOpen, raw := [c] }, 1)
  else if c = 0x7d#8 then .ok ({ kind := .objClose, raw := [c] }, 1)
  else if c = 0x5b#8 then .ok ({ kind := .arrOpen, raw := [c] }, 1)
  else if c = 0x5d#8 then .ok ({ kind := .arrClose, raw := [c] }, 1)
  else if c = 0x2c#8 then .ok ({ kind := .comma, raw := [c] }, 1)
  else .error .syntax

/-- the `switch in[0]` of `parseNext` for a non-empty, whitespace-trimmed input `inp` whose first
byte is `c`: the token and its size in bytes -/
def lexTokG (pn : Bytes → Option Nat) (c : Byte) (inp : Bytes) : Except Err (Token × Nat) :=
  if c = 0x6e#8 then lexLit .null litNull false inp                 -- 'n'
  else if c = 0x74#8 then lexLit .bool litTrue true inp             -- 't'
  else if c = 0x66#8 then lexLit .bool litFalse false inp           -- 'f'
  else if c = 0x2d#8 ∨ isDigit c = true then lexNumber pn inp       -- '-', '0' … '9'
  else if c = 0x22#8 then lexString inp                             -- '"'
  else lexPunct c

/-- `Decoder.parseNext`: the token and the new `d.in` (`consumeToken` trims the whitespace that
follows the token) -/
def parseNextG (pn : Bytes → Option Nat) (inp0 : Bytes) : Except Err (Token × Bytes) :=
  match dropWs inp0 with
  | [] => .ok ({ kind := .eof }, [])
  | c :: t =>
    match lexTokG pn c (c :: t) with
    | .error e => .error e
    | .ok (tok, n) => .ok (tok, dropWs ((c :: t).drop n))

def parseNext (inp0 : Bytes) : Except Err (Token × Bytes) := parseNextG parseNumber inp0

def Kind.isScalar : Kind → Bool
  | .null | .bool | .number | .string => true
  | _ => false

/-- `Decoder.isValueNext` -/
def isValueNext (last : Kind) (stack : List Open) : Bool :=
  match stack with
  | [] => last = .none
  | .obj :: _ => last = .name
  | .arr :: _ => last = .arrOpen || last = .comma

/-- The sequencing check of `Decoder.Read` for a token of kind `k` that is not a String:
`none` = error, `some stack'` = accepted with the new open stack.
NB the EOF case: in the Go source the second disjunct
`d.lastToken.kind&scalar|ObjectClose|ArrayClose == 0` parses as `((kind&scalar)|ObjectClose|ArrayClose) == 0`
and is therefore always false, so only the stack is checked. -/
def checkSeq (last : Kind) (stack : List Open) (k : Kind) : Option (List Open) :=
  match k with
  | .eof => if stack ≠ [] then none else some stack
  | .null | .bool | .number => if isValueNext last stack then some stack else none
  | .objOpen => if isValueNext last stack then some (.obj :: stack) else none
  | .arrOpen => if isValueNext last stack then some (.arr :: stack) else none
  | .objClose =>
    match stack with
    | .obj :: rest => if last = .name ∨ last = .comma then none else some rest
    | _ => none
  | .arrClose =>
    match stack with
    | .arr :: rest => if last = .comma then none else some rest
    | _ => none
  | .comma =>
    if stack = [] then none
    else if last.isScalar || last = .objClose || last = .arrClose then some stack else none
  | _ => none

/-- the String case of `Decoder.Read`: a value, or a field name followed by `:` -/
def readString (st : DState) (tok : Token) (rest : Bytes) : Except Err (Token × DState) :=
  if isValueNext st.lastKind st.stack then
    .ok (tok, { st with lastKind := .string, inp := rest })
  else if ¬ (st.lastKind = .objOpen ∨ st.lastKind = .comma) then .error .syntax
  else
    match rest with
    | [] => .error .eof
    | c :: t =>
      if c ≠ 0x3a#8 then .error .syntax                       -- missing ":" after field name
      else .ok ({ tok with kind := .name }, { st with lastKind := .name, inp := dropWs t })

/-- `Decoder.Read` (without the Peek cache).  Fuel: the recursion `if d.lastToken.kind == comma
{ return d.Read() }` consumes at least one byte per level; `len(in) + 1` always suffices. -/
def readG (pn : Bytes → Option Nat) : Nat → DState → Except Err (Token × DState)
  | 0, _ => .error .syntax
  | fuel+1, st =>
    match parseNextG pn st.inp with
    | .error e => .error e
    | .ok (tok, rest) =>
      if tok.kind = .string then readString st tok rest
      else
        match checkSeq st.lastKind st.stack tok.kind with
        | none => if tok.kind = .eof then .error .eof else .error .syntax
        | some stack' =>
          if tok.kind = .comma then readG pn fuel { lastKind := tok.kind, stack := stack', inp := rest }
          else .ok (tok, { lastKind := tok.kind, stack := stack', inp := rest })

def read (fuel : Nat) (st : DState) : Except Err (Token × DState) := readG parseNumber fuel st

/-- `for { tok := d.Read(); if err → stop; if tok is EOF → stop }` — the tokens read before EOF -/
def readAllG (pn : Bytes → Option Nat) : Nat → DState → Except (Err × List Token) (List Token)
  | 0, _ => .error (.syntax, [])
  | fuel+1, st =>
    match readG pn (st.inp.length + 1) st with
    | .error e => .error (e, [])
    | .ok (tok, st') =>
      if tok.kind = .eof then .ok []
      else
        match readAllG pn fuel st' with
        | .ok ts => .ok (tok :: ts)
        | .error (e, ts) => .error (e, tok :: ts)

/-- run a fresh `Decoder` over `b` until EOF or the first error -/
def decodeAllG (pn : Bytes → Option Nat) (b : Bytes) : Except (Err × List Token) (List Token) :=
  readAllG pn (b.length + 2) { inp := b }

def decodeAll (b : Bytes) : Except (Err × List Token) (List Token) := decodeAllG parseNumber b

/-! ## Part 2d — protojson/decode.go: integers -/

/-- the encodings of the code points for which `unicode.IsSpace` holds (what `strings.TrimSpace` trims):
U+0009–000D, U+0020, U+0085, U+00A0, U+1680, U+2000–200A, U+2028, U+2029, U+202F, U+205F, U+3000 -/
def spaceEncodings : List Bytes :=
  [[0x09#8], [0x0a#8], [0x0b#8], [0x0c#8], [0x0d#8], [0x20#8], [0xC2#8, 0x85#8], [0xC2#8, 0xA0#8],
   [0xE1#8, 0x9A#8, 0x80#8],
   [0xE2#8, 0x80#8, 0x80#8], [0xE2#8, 0x80#8, 0x81#8], [0xE2#8, 0x80#8, 0x82#8], [0xE2#8, 0x80#8, 0x83#8],
   [0xE2#8, 0x80#8, 0x84#8], [0xE2#8, 0x80#8, 0x85#8], [0xE2#8, 0x80#8, 0x86#8], [0xE2#8, 0x80#8, 0x87#8],
   [0xE2#8, 0x80#8, 0x88#8], [0xE2#8, 0x80#8, 0x89#8], [0xE2#8, 0x80#8, 0x8A#8],
   [0xE2#8, 0x80#8, 0xA8#8], [0xE2#8, 0x80#8, 0xA9#8], [0xE2#8, 0x80#8, 0xAF#8], [0xE2#8, 0x81#8, 0x9F#8],
   [0xE3#8, 0x80#8, 0x80#8]]

/-- `len(strings.TrimSpace(s)) == len(s)`: neither the first nor the last character is a space -/
def trimSpaceUnchanged (s : Bytes) : Bool :=
  !(spaceEncodings.any fun e => e.isPrefixOf s) && !(spaceEncodings.any fun e => e.reverse.isPrefixOf s.reverse)

/-- what `unmarshalInt`/`unmarshalUint`/`unmarshalFloat` see of a token -/
inductive ScalarTok
  | number (raw : Bytes)
  | string (parsed : Bytes)
  | other
  deriving Repr

/-- the String case of `unmarshalInt`/`unmarshalUint`: the raw bytes of the number token to convert.
```
s := strings.TrimSpace(tok.ParsedString()); if len(s) != len(tok.ParsedString()) { return false }
dec := json.NewDecoder([]byte(s)); tok, err := dec.Read(); if err != nil { return false }
if next, err := dec.Read(); err != nil || next.Kind() != json.EOF { return false }
return getInt(tok, bitSize)        // fails unless tok.Kind() == Number
``` -/
def quotedNumber (s : Bytes) : Option Bytes :=
  if ¬ trimSpaceUnchanged s then none
  else
    match read (s.length + 1) { inp := s } with
    | .error _ => none
    | .ok (tok, st1) =>
      match read (st1.inp.length + 1) st1 with
      | .error _ => none
      | .ok (next, _) =>
        if next.kind ≠ .eof then none
        else if tok.kind = .number then some tok.raw else none

/-- `unmarshalInt(tok, bitSize)` (the value before the final `int32(n)` conversion, which is exact
because `Token.Int(32)` already enforced the range) -/
def unmarshalInt (bits : Nat) : ScalarTok → Option Int
  | .number raw => tokenInt bits raw
  | .string s => (quotedNumber s).bind (tokenInt bits)
  | .other => none

/-- `unmarshalUint(tok, bitSize)` -/
def unmarshalUint (bits : Nat) : ScalarTok → Option Nat
  | .number raw => tokenUint bits raw
  | .string s => (quotedNumber s).bind (tokenUint bits)
  | .other => none

/-! ## Part 2e — encode.go -/

def hexDigitLower (n : Nat) : Byte := if n < 10 then BitVec.ofNat 8 (0x30 + n) else BitVec.ofNat 8 (0x57 + n)

/-- the escape written by `appendString` for a rune `r` with `r < ' ' || r == '"' || r == '\\'` -/
def escapeOf (r : Nat) : Bytes :=
  if r = 0x22 then [0x5c#8, 0x22#8]
  else if r = 0x5c then [0x5c#8, 0x5c#8]
  else if r = 0x08 then [0x5c#8, 0x62#8]
  else if r = 0x0c then [0x5c#8, 0x66#8]
  else if r = 0x0a then [0x5c#8, 0x6e#8]
  else if r = 0x0d then [0x5c#8, 0x72#8]
  else if r = 0x09 then [0x5c#8, 0x74#8]
  else [0x5c#8, 0x75#8, 0x30#8, 0x30#8, hexDigitLower (r / 16), hexDigitLower (r % 16)]

/-- the loop of `appendString` (one iteration per character; the fast path is not modelled
separately): `(out, ok)`; `ok = false` is `errInvalidUTF8`, with the partial output as in Go. -/
def appendLoop : Nat → Bytes → Bytes → Bytes × Bool
  | 0, _, out => (out, false)
  | _, [], out => (out ++ [0x22#8], true)
  | fuel+1, a :: t, out =>
    let rn := decodeRune (a :: t)
    if rn.1 = runeError ∧ rn.2 = 1 then (out, false)
    else if rn.1 < 0x20 ∨ rn.1 = 0x22 ∨ rn.1 = 0x5c then appendLoop fuel ((a :: t).drop rn.2) (out ++ escapeOf rn.1)
    else appendLoop fuel ((a :: t).drop rn.2) (out ++ (a :: t).take rn.2)

/-- `appendString(out, in)` -/
def appendString (out inp : Bytes) : Bytes × Bool := appendLoop (inp.length + 1) inp (out ++ [0x22#8])

inductive EKind
  | zero | name | scalar | objOpen | objClose | arrOpen | arrClose
  deriving DecidableEq, Repr

structure Enc where
  indent : Bytes
  lastKind : EKind := .zero
  indents : Bytes := []
  out : Bytes := []
  deriving Repr

def EKind.isValueEnd : EKind → Bool
  | .scalar | .objClose | .arrClose => true
  | _ => false
def EKind.isStart : EKind → Bool
  | .name | .scalar | .objOpen | .arrOpen => true
  | _ => false
def EKind.isOpen : EKind → Bool
  | .objOpen | .arrOpen => true
  | _ => false
def EKind.isClose : EKind → Bool
  | .objClose | .arrClose => true
  | _ => false

/-- `Encoder.prepareNext(next)`; `rnd` is the value `detrand.Bool()` returns (constant per binary);
`none` = the slice expression `e.indents[:len(e.indents)-len(e.indent)]` panics. -/
def prepareNext (rnd : Bool) (e : Enc) (next : EKind) : Option Enc :=
  if e.indent.isEmpty then
    if e.lastKind.isValueEnd && next.isStart then
      some { e with lastKind := next, out := e.out ++ [0x2c#8] ++ (if rnd then [0x20#8] else []) }
    else some { e with lastKind := next }
  else if e.lastKind.isOpen then
    if !next.isClose then
      let ind := e.indents ++ e.indent
      some { e with lastKind := next, indents := ind, out := e.out ++ [0x0a#8] ++ ind }
    else some { e with lastKind := next }
  else if e.lastKind.isValueEnd then
    if next.isStart then
      some { e with lastKind := next, out := e.out ++ [0x2c#8, 0x0a#8] ++ e.indents }
    else if next.isClose then
      if e.indents.length < e.indent.length then none
      else
        let ind := e.indents.take (e.indents.length - e.indent.length)
        some { e with lastKind := next, indents := ind, out := e.out ++ [0x0a#8] ++ ind }
    else some { e with lastKind := next, out := e.out ++ e.indents }
  else if e.lastKind = .name then
    some { e with lastKind := next, out := e.out ++ [0x20#8] ++ (if rnd then [0x20#8] else []) }
  else some { e with lastKind := next }

/-- digits of `n`, least significant first, pushed in front of `acc` (fuel: one unit per digit) -/
def decimalAux : Nat → Nat → Bytes → Bytes
  | 0, _, acc => acc
  | fuel+1, n, acc =>
    let acc' := BitVec.ofNat 8 (0x30 + n % 10) :: acc
    if n / 10 = 0 then acc' else decimalAux fuel (n / 10) acc'

/-- decimal digits of a natural number (`strconv.AppendUint(out, n, 10)`, from its contract) -/
def decimal (n : Nat) : Bytes := decimalAux (n + 1) n []

/-- the calls a user of `Encoder` can make.  `WriteFloat` is represented by the literal it appends
(`strconv.AppendFloat` is not modelled): `float lit`. -/
inductive Op
  | null | bool (b : Bool) | str (s : Bytes) | int (n : Int) | uint (n : Nat) | float (lit : Bytes)
  | startObject | endObject | name (s : Bytes) | startArray | endArray
  deriving Repr

/-- one `Encoder` call: `(encoder, err)`; `none` = panic -/
def encStep (rnd : Bool) (e : Enc) : Op → Option (Enc × Bool)
  | .null => (prepareNext rnd e .scalar).map fun e => ({ e with out := e.out ++ litNull }, true)
  | .bool b => (prepareNext rnd e .scalar).map fun e => ({ e with out := e.out ++ (if b then litTrue else litFalse) }, true)
  | .str s => (prepareNext rnd e .scalar).map fun e =>
      let r := appendString e.out s
      ({ e with out := r.1 }, r.2)
  | .int n => (prepareNext rnd e .scalar).map fun e =>
      ({ e with out := e.out ++ (if n < 0 then 0x2d#8 :: decimal n.natAbs else decimal n.natAbs) }, true)
  | .uint n => (prepareNext rnd e .scalar).map fun e => ({ e with out := e.out ++ decimal n }, true)
  | .float lit => (prepareNext rnd e .scalar).map fun e => ({ e with out := e.out ++ lit }, true)
  | .startObject => (prepareNext rnd e .objOpen).map fun e => ({ e with out := e.out ++ [0x7b#8] }, true)
  | .endObject => (prepareNext rnd e .objClose).map fun e => ({ e with out := e.out ++ [0x7d#8] }, true)
  | .name s => (prepareNext rnd e .name).map fun e =>
      let r := appendString e.out s
      ({ e with out := r.1 ++ [0x3a#8] }, r.2)
  | .startArray => (prepareNext rnd e .arrOpen).map fun e => ({ e with out := e.out ++ [0x5b#8] }, true)
  | .endArray => (prepareNext rnd e .arrClose).map fun e => ({ e with out := e.out ++ [0x5d#8] }, true)

/-- a sequence of calls; stops at the first error (as protojson does) -/
def encRun (rnd : Bool) (e : Enc) : List Op → Option (Enc × Bool)
  | [] => some (e, true)
  | op :: ops =>
    match encStep rnd e op with
    | none => none
    | some (e', true) => encRun rnd e' ops
    | some (e', false) => some (e', false)

/-! ## Part 2f — JSON values as trees and the call sequence that writes them (what protojson's
`encoder.marshalMessage/marshalSingular/marshalList/marshalMap` do, abstractly: one `StartObject`,
`WriteName`+value per member, `EndObject`, …).  Numbers are given by their literal. -/

mutual
inductive JVal
  | null
  | bool (b : Bool)
  | num (lit : Bytes)
  | str (s : Bytes)
  | obj (ms : JMembers)
  | arr (es : JElems)
inductive JMembers
  | nil
  | cons (k : Bytes) (v : JVal) (rest : JMembers)
inductive JElems
  | nil
  | cons (v : JVal) (rest : JElems)
end

mutual
def opsOf : JVal → List Op
  | .null => [.null]
  | .bool b => [.bool b]
  | .num lit => [.float lit]
  | .str s => [.str s]
  | .obj ms => .startObject :: (opsOfMembers ms ++ [.endObject])
  | .arr es => .startArray :: (opsOfElems es ++ [.endArray])
def opsOfMembers : JMembers → List Op
  | .nil => []
  | .cons k v rest => .name k :: (opsOf v ++ opsOfMembers rest)
def opsOfElems : JElems → List Op
  | .nil => []
  | .cons v rest => opsOf v ++ opsOfElems rest
end

/-- `Encoder` output for the value `v` with the given indent (`""` = compact) -/
def encodeValue (rnd : Bool) (indent : Bytes) (v : JVal) : Option (Bytes × Bool) :=
  (encRun rnd { indent := indent } (opsOf v)).map fun r => (r.1.out, r.2)

end JsonLex
