/-
Executable model of the identifier derivation of protobuf-go (property C42):

* `internal/strs/strings.go`: `GoCamelCase`, `GoSanitized`, `JSONCamelCase`, `JSONSnakeCase`
* `reflect/protoreflect/proto.go`: `FullName.IsValid`; `encoding/protojson/well_known_types.go`:
  the path test of `marshalFieldMask` / `unmarshalFieldMask`
* `compiler/protogen/protogen.go:newMessage`: `usedNames` / `makeNameUnique` (open API field, getter and
  oneof names) and the oneof wrapper-type rename loop
* `compiler/protogen/protogen_opaque.go`: `opaqueNewMessageHook` / `resolveCamelCaseConflicts`
  (opaque API camelCase names, `hasConflictHybrid`)

Strings are `List Nat`: a list of *bytes* for the functions that index bytes in Go (`GoCamelCase`,
`JSONCamelCase`, `JSONSnakeCase`, `FullName.IsValid`, all name resolution — protobuf names are ASCII),
a list of *code points* for `GoSanitized` (which ranges over runes; an invalid UTF-8 byte reads as
U+FFFD in Go and is passed as 65533 here).  `unicode.IsLetter` / `unicode.IsDigit` are parameters
`isL isD : Nat → Bool`.  Core Lean only.  Tied to the Go code by the `names` harness.
-/
namespace Model.Names

abbrev Str := List Nat

/-- a string literal as bytes (ASCII literals only) -/
def str (s : String) : Str := s.toList.map Char.toNat

def DOT : Nat := 46   -- '.'
def US : Nat := 95    -- '_'
def CX : Nat := 88    -- 'X'

def isLower (c : Nat) : Bool := decide (97 ≤ c) && decide (c ≤ 122)
def isUpper (c : Nat) : Bool := decide (65 ≤ c) && decide (c ≤ 90)
def isDigit (c : Nat) : Bool := decide (48 ≤ c) && decide (c ≤ 57)

/-! ### GoCamelCase -/

/-- `i+1 < len(s) && isASCIILower(s[i+1])` where `rest = s[i+1:]` -/
def nextLower : Str → Bool
  | c :: _ => isLower c
  | [] => false

/-- The loop of `GoCamelCase`.  `start` is `i == 0 || s[i-1] == '.'`; `inWord` says that the previous
byte was emitted by the `default` case or by its inner loop, i.e. that we are inside
`for ; i+1 < len(s) && isASCIILower(s[i+1]); i++ { b = append(b, s[i+1]) }`. -/
def camelGo (start inWord : Bool) : Str → Str
  | [] => []
  | c :: rest =>
    if inWord && isLower c then c :: camelGo false true rest
    else if c == DOT && nextLower rest then camelGo true false rest
    else if c == DOT then US :: camelGo true false rest
    else if c == US && start then CX :: camelGo false false rest
    else if c == US && nextLower rest then camelGo false false rest
    else if isDigit c then c :: camelGo false false rest
    else (if isLower c then c - 32 else c) :: camelGo false true rest

def goCamelCase (s : Str) : Str := camelGo true false s

/-! ### GoSanitized (over code points) -/

def runeError : Nat := 65533

/-- `go/token`'s keyword table (`keyword_beg … keyword_end`), cross-checked by the harness on every run -/
def keywords : List Str :=
  [str "break", str "case", str "chan", str "const", str "continue",
   str "default", str "defer", str "else", str "fallthrough", str "for",
   str "func", str "go", str "goto", str "if", str "import",
   str "interface", str "map", str "package", str "range", str "return",
   str "select", str "struct", str "switch", str "type", str "var"]

def isKeyword (s : Str) : Bool := keywords.contains s

/-- `utf8.DecodeRuneInString` of a string given by its code points -/
def firstRune : Str → Nat
  | [] => runeError
  | r :: _ => r

def sanitizeMap (isL isD : Nat → Bool) (s : Str) : Str :=
  s.map fun r => if isL r || isD r then r else US

def goSanitized (isL isD : Nat → Bool) (s : Str) : Str :=
  let t := sanitizeMap isL isD s
  if isKeyword t || !isL (firstRune t) then US :: t else t

/-- the loop of `go/token.IsIdentifier`; `first` is `i == 0` -/
def identRunes (isL isD : Nat → Bool) (first : Bool) : Str → Bool
  | [] => true
  | c :: r => (isL c || c == US || (!first && isD c)) && identRunes isL isD false r

/-- `go/token.IsIdentifier` -/
def isGoIdent (isL isD : Nat → Bool) (s : Str) : Bool :=
  !s.isEmpty && !isKeyword s && identRunes isL isD true s

/-- `unicode.IsLetter` / `unicode.IsDigit` restricted to ASCII -/
def asciiLetter (c : Nat) : Bool := isLower c || isUpper c
def asciiDigit (c : Nat) : Bool := isDigit c

/-! ### JSONCamelCase / JSONSnakeCase -/

def jsonCamelGo (wasUnderscore : Bool) : Str → Str
  | [] => []
  | c :: rest =>
    if c != US then
      (if wasUnderscore && isLower c then c - 32 else c) :: jsonCamelGo false rest
    else jsonCamelGo true rest

def jsonCamelCase (s : Str) : Str := jsonCamelGo false s

def jsonSnakeCase : Str → Str
  | [] => []
  | c :: rest => if isUpper c then US :: (c + 32) :: jsonSnakeCase rest else c :: jsonSnakeCase rest

/-! ### FullName.IsValid and the FieldMask path tests -/

def isLetter (c : Nat) : Bool := c == US || isLower c || isUpper c
def isLetterDigit (c : Nat) : Bool := isLetter c || isDigit c

/-- `FullName.IsValid`; `segStart` says that an identifier must start here -/
def fullNameGo (segStart : Bool) : Str → Bool
  | [] => !segStart
  | c :: r =>
    if segStart then isLetter c && fullNameGo false r
    else if c == DOT then fullNameGo true r
    else isLetterDigit c && fullNameGo false r

def fullNameValid (s : Str) : Bool := fullNameGo true s

/-- `Name.IsValid` -/
def nameValid (s : Str) : Bool := fullNameValid s && !s.contains DOT

/-- `marshalFieldMask` accepts path `s` -/
def fieldMaskAccepts (s : Str) : Bool :=
  fullNameValid s && (jsonSnakeCase (jsonCamelCase s) == s)

/-- `unmarshalFieldMask` accepts the JSON path `s0` (and stores `jsonSnakeCase s0`) -/
def fieldMaskParses (s0 : Str) : Bool :=
  !s0.contains US && fullNameValid (jsonSnakeCase s0)

/-! ### newMessage: field name conflict resolution (open API) -/

def GET : Str := str "Get"

/-- the keys preset to `true` in `usedNames` -/
def reserved : List Str :=
  [str "Reset", str "String", str "ProtoMessage", str "ProtoReflect", str "Marshal", str "Unmarshal",
   str "ExtensionRangeArray", str "ExtensionMap", str "Descriptor"]

/-- the methods the generator really puts on every open-API message type -/
def fixedMethods : List Str :=
  [str "Reset", str "String", str "ProtoMessage", str "ProtoReflect", str "Descriptor"]

/-- what a name handed to `makeNameUnique` belongs to -/
inductive Kind | plain | member | oneof
  deriving DecidableEq, Repr

def Kind.hasGetter : Kind → Bool
  | .oneof => false
  | _ => true

/-- loop condition of `makeNameUnique`; `used` is the set of keys of `usedNames` mapped to `true` -/
def clash (used : List Str) (g : Bool) (name : Str) : Bool :=
  used.contains name || (g && used.contains (GET ++ name))

/-- `for usedNames[name] || (hasGetter && usedNames["Get"+name]) { name += "_" }`, at most `fuel+1` tests;
`none` = fuel exhausted (never with `fuelFor`, theorem `C42.mkUnique_isSome`) -/
def mkUniqueAux (used : List Str) (g : Bool) : Nat → Str → Option Str
  | 0, name => if clash used g name then none else some name
  | fuel+1, name => if clash used g name then mkUniqueAux used g fuel (name ++ [US]) else some name

def maxLen (l : List Str) : Nat := l.foldr (fun s m => max s.length m) 0

def mkUnique (used : List Str) (g : Bool) (name : Str) : Option Str :=
  mkUniqueAux used g (maxLen used + 1) name

/-- the state change of `makeNameUnique`:
`usedNames[name] = true; if hasGetter { usedNames["Get"+name] = true }` -/
def markUsed (used : List Str) (g : Bool) (r : Str) : List Str :=
  if g then (GET ++ r) :: r :: used else r :: used

/-- the calls of `makeNameUnique` made by the field loop of `newMessage`, in order -/
def resolveOps (used : List Str) : List (Str × Kind) → Option (List (Str × Kind))
  | [] => some []
  | (n, k) :: ops =>
    (mkUnique used k.hasGetter n).bind fun r =>
    (resolveOps (markUsed used k.hasGetter r) ops).bind fun rs =>
    some ((r, k) :: rs)

/-- what the generator declares on the message type in the open API from the resolved names:
struct fields (plain fields and oneofs) and `Get` methods (every field, every oneof) -/
def openMembers (rs : List (Str × Kind)) : List Str :=
  ((rs.filter (·.2 != Kind.member)).map (·.1)) ++ rs.map (GET ++ ·.1)

/-! ### messages -/

structure Field where
  name : Str
  num : Nat
  oneof : Option Nat
  presence : Bool

structure Msg where
  name : Str
  fields : List Field
  oneofs : List Str
  nmsgs : List Str
  nenums : List Str

/-- the `makeNameUnique` calls for a message: each field, and after the first member of a oneof that oneof -/
def opsOf (oneofs : List Str) : List Nat → List Field → List (Str × Kind)
  | _, [] => []
  | seen, f :: fs =>
    match f.oneof with
    | none => (goCamelCase f.name, Kind.plain) :: opsOf oneofs seen fs
    | some k =>
      if seen.contains k then (goCamelCase f.name, Kind.member) :: opsOf oneofs seen fs
      else (goCamelCase f.name, Kind.member) :: (goCamelCase (oneofs.getD k []), Kind.oneof)
             :: opsOf oneofs (k :: seen) fs

/-- `for { if ident ∈ nested idents { ident += "_"; continue }; break }` -/
def wrapperAux (nested : List Str) : Nat → Str → Option Str
  | 0, w => if nested.contains w then none else some w
  | fuel+1, w => if nested.contains w then wrapperAux nested fuel (w ++ [US]) else some w

def wrapperName (nested : List Str) (w : Str) : Option Str := wrapperAux nested (maxLen nested + 1) w

def msgIdent (m : Msg) : Str := goCamelCase m.name
def nestedIdents (m : Msg) : List Str :=
  (m.nmsgs ++ m.nenums).map fun n => goCamelCase (m.name ++ DOT :: n)

/-- distribute the resolved names: per field its Go name and (oneof members) its wrapper type; the oneof
Go names in resolution order -/
def splitOpen (mi : Str) (nested : List Str) :
    List (Str × Kind) → Option (List (Str × Option Str) × List Str)
  | [] => some ([], [])
  | (r, k) :: rs =>
    (splitOpen mi nested rs).bind fun (fs, os) =>
    match k with
    | .plain => some ((r, none) :: fs, os)
    | .member => (wrapperName nested (mi ++ US :: r)).bind fun w => some ((r, some w) :: fs, os)
    | .oneof => some (fs, r :: os)

/-- the oneof indices in the order in which their first member occurs (= order of their resolution) -/
def oneofOrder : List Nat → List Field → List Nat
  | _, [] => []
  | seen, f :: fs =>
    match f.oneof with
    | none => oneofOrder seen fs
    | some k => if seen.contains k then oneofOrder seen fs else k :: oneofOrder (k :: seen) fs

/-- names of the open API: (Go name, wrapper type) per field; (oneof index, Go name) per resolved oneof -/
def resolveOpen (m : Msg) : Option (List (Str × Option Str) × List (Nat × Str)) :=
  (resolveOps reserved (opsOf m.oneofs [] m.fields)).bind fun rs =>
  (splitOpen (msgIdent m) (nestedIdents m) rs).bind fun (fs, os) =>
  some (fs, (oneofOrder [] m.fields).zip os)

/-- the member names (struct fields and `Get` methods) of the open-API message type -/
def openMembersOf (m : Msg) : Option (List Str) :=
  (resolveOps reserved (opsOf m.oneofs [] m.fields)).map openMembers

/-- the wrapper types of the oneof members -/
def wrappersOf (m : Msg) : Option (List Str) :=
  (resolveOpen m).map fun r => r.1.filterMap (·.2)

/-! ### opaque API (protogen_opaque.go) -/

/-- `strconv.Itoa` of a positive field number -/
def itoa (n : Nat) : Str := (Nat.toDigits 10 n).map Char.toNat

def suffix (num : Nat) : Str := US :: itoa num

def BUILD : Str := str "Build"

/-- `if field.camelCase == "Build" { field.camelCase += "_" }` -/
def fixBuild (c : Str) : Str := if c == BUILD then c ++ [US] else c

/-- `resolveCamelCaseConflicts`: the indices of the fields that receive a suffix, in the order of the
`resolveCamelCaseConflict` calls.  `tbl` is `camel2field`.  (A field's own camelCase is first changed
in its own iteration, so the key looked up for field `i` is its initial camelCase.) -/
def conflictEvents : Nat → List (Str × Nat) → List Str → List Nat
  | _, _, [] => []
  | i, tbl, c :: rest =>
    match tbl.lookup c with
    | some j => j :: i :: conflictEvents (i+1) tbl rest
    | none => conflictEvents (i+1) ((c, i) :: tbl) rest

/-- concatenation of the suffixes that the events selected by `p` append -/
def suffixes (fields : List Field) (p : Nat → Bool) : List Nat → Str
  | [] => []
  | e :: es =>
    if p e then (match fields[e]? with | some f => suffix f.num | none => []) ++ suffixes fields p es
    else suffixes fields p es

def mapIdxFrom {α β : Type} (f : Nat → α → β) : Nat → List α → List β
  | _, [] => []
  | i, a :: t => f i a :: mapIdxFrom f (i+1) t

/-- camelCase of the fields after the `Build` special case, before `resolveCamelCaseConflicts` -/
def initCamels (m : Msg) : List Str := m.fields.map fun f => fixBuild (goCamelCase f.name)

/-- the suffix events of `resolveCamelCaseConflicts(message)` -/
def events (m : Msg) : List Nat := conflictEvents 0 [] (initCamels m)

/-- final camelCase of field `i`: every event on `i` appends `_<number of field i>` -/
def fieldCamel (m : Msg) (ev : List Nat) (i : Nat) (f : Field) : Str :=
  fixBuild (goCamelCase f.name) ++ suffixes m.fields (· == i) ev

/-- final camelCase of oneof `k`: every event on one of its members appends that member's suffix -/
def oneofCamel (m : Msg) (ev : List Nat) (k : Nat) (name : Str) : Str :=
  goCamelCase name ++
    suffixes m.fields (fun e => match m.fields[e]? with | some f => f.oneof == some k | none => false) ev

def hasMember (m : Msg) (k : Nat) : Bool := m.fields.any fun f => f.oneof == some k

def fieldMethods (presence : Bool) : List Str :=
  if presence then [str "Set", str "Get", str "Has", str "Clear"] else [str "Set", str "Get"]

def oneofMethods : List Str := [str "Has", str "Clear", str "Which"]

/-- one row per field and per oneof with members: (method prefixes, camelCase), given the suffix events -/
def camelRows (m : Msg) (ev : List Nat) : List (List Str × Str) :=
  mapIdxFrom (fun i f => (fieldMethods f.presence, fieldCamel m ev i f)) 0 m.fields ++
  ((mapIdxFrom (fun k n => (k, oneofCamel m ev k n)) 0 m.oneofs).filter (fun r => hasMember m r.1)).map
    fun r => (oneofMethods, r.2)

/-- method names built from (prefix list, camelCase) rows -/
def methodsOf (tbl : List (List Str × Str)) : List Str :=
  (tbl.map fun (ps, c) => ps.map (· ++ c)).flatten

/-- the accessor method names of the opaque API: Get/Set(/Has/Clear)<camelCase> per field,
Has/Clear/Which<camelCase> per oneof -/
def opaqueMethods (m : Msg) : List Str := methodsOf (camelRows m (events m))

/-- the set `camelCases` of `opaqueNewMessageHook` -/
def camelSet (m : Msg) : List Str := (camelRows m (events m)).map (·.2)

structure OpaqueNames where
  fields : List (Str × Bool)     -- camelCase, hasConflictHybrid
  oneofs : List (Str × Bool)

def resolveOpaque (m : Msg) : OpaqueNames :=
  let ev := events m
  let cs := camelSet m
  { fields := mapIdxFrom (fun i f =>
      let c := fieldCamel m ev i f
      (c, (fieldMethods f.presence).any fun p => cs.contains (p ++ c))) 0 m.fields
    oneofs := mapIdxFrom (fun k n =>
      let c := oneofCamel m ev k n
      (c, hasMember m k && oneofMethods.any fun p => cs.contains (p ++ c))) 0 m.oneofs }

end Model.Names
