/-
Standard-library contracts used by the well-known-type helpers of `durationpb`/`timestamppb`
(engine `wkttime`, property C43).  Hand-written from `$GOROOT/src/time/time.go`, core-only.
NOT verified against the Go standard library by proof: tied by the correspondence harness
(`go/harness/wkttime`), which runs `time.Unix(sec, nsec)` on every generated pair and compares
`.Unix()` / `.Nanosecond()` with `GoTime.unix`.

A `time.Time` is represented by what the helpers can observe of it: `t.Unix()` (int64 seconds
since 1970-01-01T00:00:00Z) and `t.Nanosecond()` (Go `int`, documented range [0, 999999999]).
`Time.Equal` compares exactly this pair (`t.sec() == u.sec() && t.nsec() == u.nsec()`, `sec()`
being `Unix()` shifted by a constant with wrap-around); location and monotonic reading are not
represented (`UTC()` changes only the location).
-/
namespace GoTime

/-- `time.Second` in units of `time.Duration` -/
def second : BitVec 64 := 1000000000#64
/-- `time.Nanosecond` -/
def nanosecond : BitVec 64 := 1#64

/-- `(t.Unix(), t.Nanosecond())` -/
structure Time where
  unix : BitVec 64
  nsec : BitVec 64
deriving DecidableEq, Repr

/-- invariant of every `time.Time`: `0 ≤ t.Nanosecond() < 1e9` -/
def Time.WF (t : Time) : Prop := 0 ≤ t.nsec.toInt ∧ t.nsec.toInt < 1000000000

/-- `time.Unix(sec, nsec)`, as coded (two's complement wrap-around included):
```go
if nsec < 0 || nsec >= 1e9 {
	n := nsec / 1e9
	sec += n
	nsec -= n * 1e9
	if nsec < 0 { nsec += 1e9; sec-- }
}
return unixTime(sec, int32(nsec))
``` -/
def unix (sec nsec : BitVec 64) : Time :=
  if BitVec.slt nsec 0#64 || BitVec.sle 1000000000#64 nsec then
    let n := BitVec.sdiv nsec 1000000000#64
    let sec := sec + n
    let nsec := nsec - n * 1000000000#64
    if BitVec.slt nsec 0#64 then
      { unix := sec - 1#64, nsec := nsec + 1000000000#64 }
    else
      { unix := sec, nsec := nsec }
  else
    { unix := sec, nsec := nsec }

/-- `t.UTC()`: same instant, location UTC -/
def Time.utc (t : Time) : Time := t

/-- `d.Nanoseconds()` is `int64(d)` -/
def durationNanoseconds (d : BitVec 64) : BitVec 64 := d

end GoTime
