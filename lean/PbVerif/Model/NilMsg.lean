import PbVerif.Model.Msg
/-
Typed nil messages (property C31).

A generated message is used through a pointer; the read-only API accepts the typed nil pointer
`(*T)(nil)`.  Model: a message *reference* is `Option Msg`, `none` being the typed nil.  Every
read-only entry point is written the way the Go code guards it:

* `internal/impl/encode.go`   `marshalAppendPointer`: `if p.IsNil() { return b, nil }`;
                              `sizePointer`:          `if p.IsNil() { return 0 }`
* `internal/impl/checkinit.go` `checkInitializedPointer`: `if p.IsNil() { for … f.isRequired → RequiredNotSet }`
* `internal/impl/message_reflect_field.go` / `message_opaque.go`: every `has`/`get` closure starts with
  `if p.IsNil() { return false | conv.Zero() }`; `oneofInfo.which`: `if p.IsNil() { return 0 }`
* `internal/impl/message_reflect_gen.go` `Range`/`GetUnknown`: `rangeMessage` visits `has` fields only,
  `getUnknownBytes`: nil for a nil pointer
* `internal/impl/merge.go` `mergePointer`: `if src.IsNil() { return }`
* `proto/merge.go` `Clone`: `if !src.IsValid() { return src.Type().Zero().Interface() }`
* `proto/equal.go` `Equal`: `if mx.IsValid() != my.IsValid() { return false }`
* `proto/encode.go` `emptyBytesForMessage`: a nil buffer iff the message is invalid
* `encoding/prototext`/`protojson` `Format`: `if m == nil || !m.ProtoReflect().IsValid() { return "<nil>" }`

so `none` is *not* defined as "the empty message": each observer has its own nil branch, and the
theorems of `Props/C31.lean` state that the nil branch agrees with the empty message.
Core-only (linked into `pbmodel_flavors`).
-/
namespace Pb.Nil
open Pb
open Spec (Byte)

/-- a message reference: `none` = typed nil pointer of the message type -/
abbrev Ref := Option Msg

/-- `m.ProtoReflect().IsValid()` -/
def isValid : Ref → Bool
  | none => false
  | some _ => true

/-- `checkInitializedPointer`: a nil pointer lacks every required field of its own message -/
def checkInit (S : Schema) (mi : Nat) : Ref → Bool
  | none => (S.msg mi).fields.all fun f => f.card ≠ .required
  | some m => initMsg S mi m

/-- `marshalAppendPointer` (bytes only) -/
def encode (S : Schema) (mi : Nat) : Ref → List Byte
  | none => []
  | some m => encMsg S mi m

/-- `sizePointer` -/
def size (S : Schema) (mi : Nat) : Ref → Nat
  | none => 0
  | some m => sizeMsg S mi m

inductive MarshalErr where
  | required   -- proto: required field not set
  | utf8       -- string field contains invalid UTF-8
  deriving DecidableEq, Repr

/-- `proto.MarshalOptions{AllowPartial: partial}.Marshal`: encode, then the required-field check -/
def marshal (S : Schema) (mi : Nat) (allowPartial : Bool) (r : Ref) : Except MarshalErr (List Byte) :=
  let bad := match r with
    | none => false
    | some m => badUtf8Msg S mi m
  if bad then .error .utf8
  else if !allowPartial && !checkInit S mi r then .error .required
  else .ok (encode S mi r)

/-- `emptyBytesForMessage`: is the returned buffer the nil slice? -/
def marshalBufIsNil (S : Schema) (mi : Nat) (r : Ref) : Bool :=
  (encode S mi r).isEmpty && !isValid r

/-- `m.Has(fd)` -/
def has (r : Ref) (num : Nat) : Bool :=
  match r with
  | none => false
  | some m => (m.fields.get? num).isSome

/-- `m.Get(fd)`: `none` stands for the default value / empty read-only list / invalid submessage -/
def get (r : Ref) (num : Nat) : Option FVal :=
  match r with
  | none => none
  | some m => m.fields.get? num

/-- `m.Range`: the populated field numbers -/
def range : Ref → List Nat
  | none => []
  | some m => m.fields.nums

/-- `m.WhichOneof(od)`: the populated member of oneof `o` (first in stored order) -/
def whichIn (d : MsgD) (o : Nat) : Fields → Option Nat
  | .nil => none
  | .cons n _ tl =>
    match d.find n with
    | some f => if f.oneof = some o then some n else whichIn d o tl
    | none => whichIn d o tl

def whichOneof (S : Schema) (mi : Nat) (o : Nat) : Ref → Option Nat
  | none => none
  | some m => whichIn (S.msg mi) o m.fields

/-- `m.GetUnknown()` -/
def getUnknown : Ref → List Byte
  | none => []
  | some m => m.unknown

/-- `proto.Clone`: an invalid message clones to the typed nil of its type -/
def clone (S : Schema) (mi : Nat) : Ref → Ref
  | none => none
  | some m => some (Pb.clone S mi m)

/-- `proto.Merge(dst, src)` with a possibly nil *source* (a nil destination panics: not read-only) -/
def mergeFrom (S : Schema) (mi : Nat) (dst : Msg) : Ref → Msg
  | none => dst
  | some src => mergeMsg S mi dst src

/-- `proto.Equal` on two references of the same message type -/
def equal (S : Schema) (mi : Nat) : Ref → Ref → Bool
  | none, none => true
  | some x, some y => eqMsg S mi x y
  | _, _ => false

/-- `Format` (prototext/protojson/`String()`): the literal `<nil>` for an invalid message, else the
rendering `render` of the content -/
def format (render : Msg → List Char) : Ref → List Char
  | none => ['<', 'n', 'i', 'l', '>']
  | some m => render m

/-! ### one type for "every read-only observer" -/

/-- the read-only entry points whose result depends on the content only -/
inductive Obs where
  | marshal (allowPartial : Bool)
  | size
  | checkInit
  | has (num : Nat)
  | get (num : Nat)
  | range
  | whichOneof (o : Nat)
  | getUnknown
  | mergeFrom (dst : Msg)   -- `Merge(dst, m)`: the resulting destination

inductive Res where
  | bytes (r : Except MarshalErr (List Byte))
  | nat (n : Nat)
  | bool (b : Bool)
  | fval (v : Option FVal)
  | nums (l : List Nat)
  | optNat (o : Option Nat)
  | raw (b : List Byte)
  | msg (m : Msg)

/-- result of a content observer -/
def observe (S : Schema) (mi : Nat) (r : Ref) : Obs → Res
  | .marshal p => .bytes (marshal S mi p r)
  | .size => .nat (size S mi r)
  | .checkInit => .bool (checkInit S mi r)
  | .has n => .bool (has r n)
  | .get n => .fval (get r n)
  | .range => .nums (range r)
  | .whichOneof o => .optNat (whichOneof S mi o r)
  | .getUnknown => .raw (getUnknown r)
  | .mergeFrom dst => .msg (mergeFrom S mi dst r)

end Pb.Nil
