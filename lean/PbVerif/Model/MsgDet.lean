import PbVerif.Model.Msg
/-
Deterministic marshalling order (proto/encode.go with Deterministic, internal/order):
fields in `LegacyFieldOrder` (extensions first, then non-oneof fields, then oneof members by
oneof index; ties by field number), map entries in `GenericKeyOrder`.  The model normalises a
message into that order and then encodes it in stored order.  Sorting is insertion sort; since
the keys that can occur are distinct and the comparators are strict total orders, the result is
the unique sorted permutation — whatever algorithm Go's `sort.Slice` uses.
-/
namespace Pb
open Spec (Byte)

/-- sort key of `LegacyFieldOrder`, compared lexicographically -/
def legacyKey (d : MsgD) (num : Nat) : Nat × Nat × Nat × Nat :=
  match d.find num with
  | some f =>
    (if f.ext then 0 else 1,
     match f.oneof with | some _ => 1 | none => 0,
     match f.oneof with | some o => o | none => 0,
     num)
  | none => (2, 0, 0, num)

def legacyLess (d : MsgD) (a b : Nat) : Bool :=
  let (a1, a2, a3, a4) := legacyKey d a
  let (b1, b2, b3, b4) := legacyKey d b
  a1 < b1 || (a1 == b1 && (a2 < b2 || (a2 == b2 && (a3 < b3 || (a3 == b3 && a4 < b4)))))

def Fields.insertBy (less : Nat → Nat → Bool) (num : Nat) (fv : FVal) : Fields → Fields
  | .nil => .cons num fv .nil
  | .cons n x tl => if less num n then .cons num fv (.cons n x tl) else .cons n x (Fields.insertBy less num fv tl)

def Fields.sortBy (less : Nat → Nat → Bool) : Fields → Fields
  | .nil => .nil
  | .cons n x tl => Fields.insertBy less n x (Fields.sortBy less tl)

def signed64 (n : Nat) : Int := if n < 2 ^ 63 then (n : Int) else (n : Int) - 2 ^ 64

def bytesLess : List Byte → List Byte → Bool
  | [], [] => false
  | [], _ :: _ => true
  | _ :: _, [] => false
  | a :: as, b :: bs => a.toNat < b.toNat || (a.toNat == b.toNat && bytesLess as bs)

/-- `GenericKeyOrder` on canonical key values of kind `k` -/
def keyLess (k : Kind) : Val → Val → Bool
  | .num a, .num b =>
    (match k with
     | .int32 | .int64 | .sint32 | .sint64 | .sfixed32 | .sfixed64 => signed64 a < signed64 b
     | _ => a < b)
  | .bytes a, .bytes b => bytesLess a b
  | _, _ => false

def entryLess (k : Kind) (a b : Val) : Bool :=
  match a, b with
  | .msg ea, .msg eb =>
    (match entryKey ea, entryKey eb with
     | some ka, some kb => keyLess k ka kb
     | _, _ => false)
  | _, _ => false

def Vals.insertBy (less : Val → Val → Bool) (v : Val) : Vals → Vals
  | .nil => .cons v .nil
  | .cons x tl => if less v x then .cons v (.cons x tl) else .cons x (Vals.insertBy less v tl)

def Vals.sortBy (less : Val → Val → Bool) : Vals → Vals
  | .nil => .nil
  | .cons x tl => Vals.insertBy less x (Vals.sortBy less tl)

mutual
def detMsg (S : Schema) (mi : Nat) (m : Msg) : Msg :=
  match m with
  | .mk fs unk => .mk (Fields.sortBy (legacyLess (S.msg mi)) (detFields S (S.msg mi) fs)) unk
termination_by structural m
def detFields (S : Schema) (d : MsgD) (fs : Fields) : Fields :=
  match fs with
  | .nil => .nil
  | .cons num fv tl =>
    .cons num (match d.find num with
               | some f => detFVal S f fv
               | none => fv) (detFields S d tl)
termination_by structural fs
def detFVal (S : Schema) (f : Field) (fv : FVal) : FVal :=
  match fv with
  | .one v => .one (detVal S f v)
  | .many vs =>
    let vs' := detVals S f vs
    if f.card = .map then
      match (S.msg f.sub).find 1 with
      | some kf => .many (Vals.sortBy (entryLess kf.kind) vs')
      | none => .many vs'
    else .many vs'
termination_by structural fv
def detVal (S : Schema) (f : Field) (v : Val) : Val :=
  match v with
  | .msg m => .msg (detMsg S f.sub m)
  | v => v
termination_by structural v
def detVals (S : Schema) (f : Field) (vs : Vals) : Vals :=
  match vs with
  | .nil => .nil
  | .cons v tl => .cons (detVal S f v) (detVals S f tl)
termination_by structural vs
end

/-- `proto.MarshalOptions{Deterministic: true}.Marshal` -/
def encodeDet (S : Schema) (mi : Nat) (m : Msg) : List Byte := encMsg S mi (detMsg S mi m)

end Pb
