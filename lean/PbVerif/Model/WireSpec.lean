/-
Readable specification of the protobuf wire primitives over `Nat` and `List Byte`.

This is what the message-level models (`Model.Msg`, …) are built on.  `Props/C02.lean` proves
that the functions translated from encoding/protowire/wire.go (`Gen.Wire`, regenerated on every
run) agree with this specification, so theorems about the specification transfer to the code.
Core-only.
-/
namespace Spec
abbrev Byte := BitVec 8

inductive WErr where
  | truncated | fieldNumber | overflow | reserved | endGroup | recursionDepth
  deriving DecidableEq, Repr

/-- Go error code of an error (wire.go: errCodeTruncated = -1, …). -/
def WErr.code : WErr → Int
  | .truncated => -1 | .fieldNumber => -2 | .overflow => -3
  | .reserved => -4 | .endGroup => -5 | .recursionDepth => -6

/-! ### varint -/

/-- shortest base-128 little-endian encoding (well-founded on `n`) -/
def encVarint (n : Nat) : List Byte :=
  if h : n < 128 then [BitVec.ofNat 8 n]
  else BitVec.ofNat 8 (n % 128 + 128) :: encVarint (n / 128)
termination_by n
decreasing_by omega

/-- `decVarintAux i b`: decode a varint whose first byte is the `i`-th (0-based) byte of the
encoding; at most 10 bytes, the tenth must be 0 or 1.  Returns (value contribution, length). -/
def decVarintAux : Nat → List Byte → Except WErr (Nat × Nat)
  | _, [] => .error .truncated
  | i, x :: r =>
    if i ≥ 9 then
      if x.toNat < 2 then .ok (x.toNat * 2 ^ (7 * i), 1) else .error .overflow
    else if x.toNat < 128 then .ok (x.toNat * 2 ^ (7 * i), 1)
    else match decVarintAux (i + 1) r with
      | .ok (v, n) => .ok ((x.toNat - 128) * 2 ^ (7 * i) + v, n + 1)
      | .error e => .error e

/-- `ConsumeVarint`: value (< 2^64) and number of bytes consumed. -/
def decVarint (b : List Byte) : Except WErr (Nat × Nat) := decVarintAux 0 b

def sizeVarint (n : Nat) : Nat := (encVarint n).length

/-! ### fixed-width -/

def encFixed (k : Nat) (v : Nat) : List Byte :=
  match k with
  | 0 => []
  | k + 1 => BitVec.ofNat 8 (v % 256) :: encFixed k (v / 256)

def leValue : List Byte → Nat
  | [] => 0
  | x :: r => x.toNat + 256 * leValue r

def decFixed (k : Nat) (b : List Byte) : Except WErr (Nat × Nat) :=
  if b.length < k then .error .truncated else .ok (leValue (b.take k), k)

/-! ### zigzag (on 64-bit patterns as Nat < 2^64) -/

def zigzagEnc (x : Nat) : Nat :=   -- x is the two's-complement pattern of an int64
  if x < 2 ^ 63 then 2 * x else 2 * (2 ^ 64 - x) - 1

def zigzagDec (u : Nat) : Nat :=
  if u % 2 = 0 then u / 2 else (2 ^ 64 - (u + 1) / 2) % 2 ^ 64

/-! ### tags -/

def encTag (num typ : Nat) : Nat := num * 8 + typ % 8

/-- `ConsumeTag`: (field number, wire type, length).  Field numbers up to 2^31-1 are accepted
(MessageSet), 0 and numbers ≥ 2^31 are rejected. -/
def decTag (b : List Byte) : Except WErr (Nat × Nat × Nat) :=
  match decVarint b with
  | .error e => .error e
  | .ok (v, n) =>
    let num := v / 8
    if num > 2147483647 then .error .fieldNumber     -- DecodeTag returns -1, ConsumeTag: num < 1
    else if num < 1 then .error .fieldNumber
    else .ok (num, v % 8, n)

/-! ### length-delimited -/

def encBytes (p : List Byte) : List Byte := encVarint p.length ++ p

/-- `ConsumeBytes`: (payload, total length). -/
def decBytes (b : List Byte) : Except WErr (List Byte × Nat) :=
  match decVarint b with
  | .error e => .error e
  | .ok (m, n) =>
    if m > (b.drop n).length then .error .truncated
    else .ok ((b.drop n).take m, n + m)

/-! ### field values and groups

`fieldValueLen fuel num typ b depth` = `consumeFieldValueD`: length of the value of a field
whose tag `(num, typ)` has already been read.  `depth : Int` as in the Go code (a group is
rejected when `depth < 0`).  `fuel` bounds the number of loop iterations plus recursive calls;
`2 * b.length + 2` always suffices (`fuelFor`). -/

mutual
def fieldValueLen : Nat → Nat → Nat → List Byte → Int → Option (Except WErr Nat)
  | 0, _, _, _, _ => none
  | fuel + 1, num, typ, b, depth =>
    match typ with
    | 0 => some ((decVarint b).map (·.2))
    | 5 => some ((decFixed 4 b).map (·.2))
    | 1 => some ((decFixed 8 b).map (·.2))
    | 2 => some ((decBytes b).map (·.2))
    | 3 => if depth < 0 then some (.error .recursionDepth) else groupLen fuel num b depth 0
    | 4 => some (.error .endGroup)
    | _ => some (.error .reserved)
/-- the group loop: `acc` bytes of the group have been consumed so far -/
def groupLen : Nat → Nat → List Byte → Int → Nat → Option (Except WErr Nat)
  | 0, _, _, _, _ => none
  | fuel + 1, num, b, depth, acc =>
    match decTag b with
    | .error e => some (.error e)
    | .ok (num2, typ2, n) =>
      let b1 := b.drop n
      if typ2 = 4 then
        if num ≠ num2 then some (.error .endGroup) else some (.ok (acc + n))
      else match fieldValueLen fuel num2 typ2 b1 (depth - 1) with
        | none => none
        | some (.error e) => some (.error e)
        | some (.ok m) => groupLen fuel num (b1.drop m) depth (acc + n + m)
end

def fuelFor (b : List Byte) : Nat := 2 * b.length + 2

def defaultRecursionLimit : Int := 10000

/-- `ConsumeFieldValue` -/
def consumeFieldValue (num typ : Nat) (b : List Byte) (depth : Int := defaultRecursionLimit) : Except WErr Nat :=
  match fieldValueLen (fuelFor b) num typ b depth with
  | some r => r
  | none => .error .truncated   -- unreachable (see `fieldValueLen_fuel` in Props/C02)

/-- `ConsumeField`: (number, type, total length) -/
def consumeField (b : List Byte) (depth : Int := defaultRecursionLimit) : Except WErr (Nat × Nat × Nat) :=
  match decTag b with
  | .error e => .error e
  | .ok (num, typ, n) =>
    match consumeFieldValue num typ (b.drop n) depth with
    | .error e => .error e
    | .ok m => .ok (num, typ, n + m)

/-- drop trailing bytes whose low 7 bits are zero (non-minimal end-group tags) -/
def stripZeros7 (b : List Byte) : List Byte :=
  (b.reverse.dropWhile (fun x => x.toNat % 128 == 0)).reverse

/-- `ConsumeGroup`: (group body without the end tag, total length incl. end tag) -/
def consumeGroup (num : Nat) (b : List Byte) (depth : Int := defaultRecursionLimit) : Except WErr (List Byte × Nat) :=
  match consumeFieldValue num 3 b depth with
  | .error e => .error e
  | .ok n =>
    let b1 := stripZeros7 (b.take n)
    .ok (b1.take (b1.length - sizeVarint (encTag num 0)), n)

def encGroup (num : Nat) (body : List Byte) : List Byte := body ++ encVarint (encTag num 4)

end Spec
