/-
Model of `reflect/protorange/range.go` (`Options{Stable: true}.Range`) — property C32.

The model is written from the Go source, function by function:

  Go                                   model
  -----------------------------------  ------------------------------------------
  amendError                           `amend`
  pushStep / push / … / pop / popStep  `visit`   (the block that occurs six times in range.go)
  Options.Range                        `range`
  rangeMessage                         `rangeMessage`  (+ `rangeFields` = the RangeFields closure,
                                                        `rangeValue`  = the `switch` in that closure)
  rangeAnyMessage                      first arm of `rangeMessage` (the message is a *resolvable* Any)
  rangeList                            `rangeList`  = `absorbBreak (rangeElems …)`
  rangeMap                             `rangeMap`   = `absorbBreak (rangeEntries …)`

Callbacks.  `push` and `pop` are modelled by ONE oracle `o : Nat → Res`: `o i` is what the
`i`-th callback invocation (pushes and pops counted together, from 0) returns.  Every callback
invocation produces exactly one event, so "the index of the next invocation" is always
"number of events so far"; instead of threading a counter the functions shift the oracle
(`Oracle.drop`).  For a fixed message any pair of deterministic, non-mutating Go callbacks is such
an oracle, whatever state the callbacks keep.

Not modelled (tied only by the correspondence harness / assumed): that the callbacks do not mutate
the message; the two `proto.Marshal` calls around the expansion of an Any (they can only fail or
differ if the callbacks mutate the expanded message); *whether* an Any is resolvable (the tree
says so: constructor `Msg.any`), `Stable: false` ordering.
-/
namespace Model.Range

/-- A map key. `str` holds the bytes of the Go string. -/
inductive Key where
  | bool (b : Bool)
  | int (i : Int)
  | uint (n : Nat)
  | str (s : List Nat)
  deriving DecidableEq, Repr

/-- A scalar value; opaque to the traversal.  `tok` is a canonical rendering made by the harness,
`bytes` a byte string (bytes fields and the unknown-field set: `protoreflect.ValueOfBytes`). -/
inductive Scalar where
  | tok (s : String)
  | bytes (b : List Nat)
  deriving DecidableEq, Repr

mutual
  /-- A populated field value. -/
  inductive Val where
    | scalar (s : Scalar)
    | msg (m : Msg)
    | list (es : Elems)
    | map (kvs : Entries)
  /-- A message: descriptor full name, populated known+extension fields (in the order in which
  `order.RangeFields(m, NumberFieldOrder, …)` presents them), raw unknown bytes.  `any` is a
  `google.protobuf.Any` whose type URL resolves and whose value unmarshals: `body` is the
  expanded message (`m2` in rangeAnyMessage); its own fields are still there but are not visited. -/
  inductive Msg where
    | plain (ty : String) (fs : Fields) (unk : List Nat)
    | any (ty : String) (fs : Fields) (unk : List Nat) (body : Msg)
  inductive Fields where
    | nil
    | cons (num : Nat) (v : Val) (rest : Fields)
  /-- A list element or map value: protobuf has no lists of lists. -/
  inductive Elem where
    | scalar (s : Scalar)
    | msg (m : Msg)
  inductive Elems where
    | nil
    | cons (e : Elem) (rest : Elems)
  inductive Entries where
    | nil
    | cons (k : Key) (e : Elem) (rest : Entries)
end

deriving instance DecidableEq for Val, Msg, Fields, Elem, Elems, Entries

def Msg.ty : Msg → String
  | .plain ty _ _ => ty
  | .any ty _ _ _ => ty

def Elem.toVal : Elem → Val
  | .scalar s => .scalar s
  | .msg m => .msg m

/-- `protopath.Step` (kind + payload). -/
inductive Step where
  | root (ty : String)
  | field (num : Nat)
  | unknown
  | listIndex (i : Nat)
  | mapIndex (k : Key)
  | anyExpand (ty : String)
  deriving DecidableEq, Repr

/-- What a callback returns / what `err` holds: `ok` is Go's `nil`. -/
inductive Res where
  | ok
  | brk
  | term
  | err (code : Nat)
  deriving DecidableEq, Repr

/-- One callback invocation: the step and value on top of `protopath.Values`. -/
inductive Event where
  | push (s : Step) (v : Val)
  | pop (s : Step) (v : Val)
  deriving DecidableEq

abbrev Oracle := Nat → Res

/-- The oracle seen after `n` callback invocations. -/
def Oracle.drop (o : Oracle) (n : Nat) : Oracle := fun i => o (n + i)

/-- The callbacks that always return nil. -/
def Oracle.cont : Oracle := fun _ => .ok

/-- `amendError(prev, curr)`: nil < Break < Terminate < previous non-nil < current non-nil. -/
def amend (prev curr : Res) : Res :=
  match curr with
  | .ok => prev                                            -- case curr == nil
  | .brk => if prev ≠ .ok then prev else curr              -- case curr == Break && prev != nil
  | .term => if prev ≠ .ok ∧ prev ≠ .brk then prev else curr  -- case curr == Terminate && prev != nil && prev != Break
  | .err _ => curr                                         -- default

abbrev Out := List Event × Res

/--
```
pushStep(p, s, v)
err = amendError(err, push(*p))      // err is nil here at every call site
if err == nil { err = <sub> }
err = amendError(err, pop(*p))
popStep(p)
```
`sub` is the outcome of the nested traversal *if it runs*, computed with the oracle shifted by one.
-/
def visit (o : Oracle) (s : Step) (v : Val) (sub : Out) : Out :=
  let e1 := amend .ok (o 0)
  let r : Out := if e1 = .ok then sub else ([], e1)
  (Event.push s v :: (r.1 ++ [Event.pop s v]), amend r.2 (o (1 + r.1.length)))

/-- `if err == Break { err = nil }; return err` -/
def absorbBreak (r : Out) : Out := (r.1, if r.2 = .brk then .ok else r.2)

mutual
  /-- rangeMessage (first arm: rangeAnyMessage returned ok = true). -/
  def rangeMessage (o : Oracle) : Msg → Out
    | .any _ _ _ body =>
      absorbBreak (visit o (.anyExpand body.ty) (.msg body) (rangeMessage (o.drop 1) body))
    | .plain _ fs unk =>
      let r1 := rangeFields o fs
      -- if b := m.GetUnknown(); len(b) > 0 && err == nil { push; pop }
      let r2 : Out :=
        if unk ≠ [] ∧ r1.2 = .ok then
          let u := visit (o.drop r1.1.length) .unknown (.scalar (.bytes unk)) ([], .ok)
          (r1.1 ++ u.1, u.2)
        else r1
      absorbBreak r2
  /-- The closure passed to order.RangeFields, applied to the populated fields in order. -/
  def rangeFields (o : Oracle) : Fields → Out
    | .nil => ([], .ok)
    | .cons num v rest =>
      let r := visit o (.field num) v (rangeValue (o.drop 1) v)
      if r.2 = .ok then
        let r' := rangeFields (o.drop r.1.length) rest
        (r.1 ++ r'.1, r'.2)
      else r
  /-- `switch { case fd.IsMap(): … case fd.IsList(): … case fd.Message() != nil: … }` -/
  def rangeValue (o : Oracle) : Val → Out
    | .scalar _ => ([], .ok)
    | .msg m => rangeMessage o m
    | .list es => absorbBreak (rangeElems o 0 es)        -- rangeList
    | .map kvs => absorbBreak (rangeEntries o kvs)       -- rangeMap
  /-- the `for i := 0; i < ls.Len() && err == nil; i++` loop of rangeList, from index `i` -/
  def rangeElems (o : Oracle) (i : Nat) : Elems → Out
    | .nil => ([], .ok)
    | .cons e rest =>
      let r := visit o (.listIndex i) e.toVal (rangeElem (o.drop 1) e)
      if r.2 = .ok then
        let r' := rangeElems (o.drop r.1.length) (i + 1) rest
        (r.1 ++ r'.1, r'.2)
      else r
  /-- `if err == nil && fd.Message() != nil { err = o.rangeMessage(…) }` -/
  def rangeElem (o : Oracle) : Elem → Out
    | .scalar _ => ([], .ok)
    | .msg m => rangeMessage o m
  /-- The closure passed to order.RangeEntries, applied to the entries in key order. -/
  def rangeEntries (o : Oracle) : Entries → Out
    | .nil => ([], .ok)
    | .cons k e rest =>
      let r := visit o (.mapIndex k) e.toVal (rangeElem (o.drop 1) e)
      if r.2 = .ok then
        let r' := rangeEntries (o.drop r.1.length) rest
        (r.1 ++ r'.1, r'.2)
      else r
end

def rangeList (o : Oracle) (es : Elems) : Out := absorbBreak (rangeElems o 0 es)
def rangeMap (o : Oracle) (kvs : Entries) : Out := absorbBreak (rangeEntries o kvs)

/-- `Options{Stable: true}.Range(m, push, pop)`: events and the returned error. -/
def range (o : Oracle) (m : Msg) : Out :=
  let r := visit o (.root m.ty) (.msg m) (rangeMessage (o.drop 1) m)
  (r.1, if r.2 = .brk ∨ r.2 = .term then .ok else r.2)

/-! ## The populated-value tree (specification side)

`kidsMsg m` lists, as a forest, everything the property calls a *populated value* of `m` together
with the step that leads to it: every populated field in order, then the unknown-field set if it
is non-empty; for a resolvable Any only the expanded body.  List elements and map entries are the
children of their list / map. -/

mutual
  inductive Tree where
    | node (s : Step) (v : Val) (kids : Forest)
  inductive Forest where
    | nil
    | cons (t : Tree) (ts : Forest)
end

def Forest.append : Forest → Forest → Forest
  | .nil, g => g
  | .cons t ts, g => .cons t (Forest.append ts g)

def unknownKids (unk : List Nat) : Forest :=
  if unk ≠ [] then .cons (.node .unknown (.scalar (.bytes unk)) .nil) .nil else .nil

mutual
  def kidsMsg : Msg → Forest
    | .any _ _ _ body => .cons (.node (.anyExpand body.ty) (.msg body) (kidsMsg body)) .nil
    | .plain _ fs unk => kidsFields fs (unknownKids unk)
  /-- the fields, followed by `tail` -/
  def kidsFields : Fields → Forest → Forest
    | .nil, tail => tail
    | .cons num v rest, tail => .cons (.node (.field num) v (kidsVal v)) (kidsFields rest tail)
  def kidsVal : Val → Forest
    | .scalar _ => .nil
    | .msg m => kidsMsg m
    | .list es => kidsElems 0 es
    | .map kvs => kidsEntries kvs
  def kidsElems (i : Nat) : Elems → Forest
    | .nil => .nil
    | .cons e rest => .cons (.node (.listIndex i) e.toVal (kidsElem e)) (kidsElems (i + 1) rest)
  def kidsElem : Elem → Forest
    | .scalar _ => .nil
    | .msg m => kidsMsg m
  def kidsEntries : Entries → Forest
    | .nil => .nil
    | .cons k e rest => .cons (.node (.mapIndex k) e.toVal (kidsElem e)) (kidsEntries rest)
end

/-- The whole tree of `m`, rooted at the Root step. -/
def treeOf (m : Msg) : Tree := .node (.root m.ty) (.msg m) (kidsMsg m)

/- Depth-first pre-order listing of (step, value). -/
mutual
  def preTree : Tree → List (Step × Val)
    | .node s v kids => (s, v) :: preKids kids
  def preKids : Forest → List (Step × Val)
    | .nil => []
    | .cons t ts => preTree t ++ preKids ts
end

/-! The same listing written directly on messages: the pre-order of the populated values of `m`
(without the Root step).  `Lemmas/Range.lean`: `preKids (kidsMsg m) = preMsg m`. -/
mutual
  def preMsg : Msg → List (Step × Val)
    | .any _ _ _ body => (.anyExpand body.ty, .msg body) :: preMsg body
    | .plain _ fs unk =>
      preFields fs ++ (if unk ≠ [] then [(Step.unknown, Val.scalar (.bytes unk))] else [])
  def preFields : Fields → List (Step × Val)
    | .nil => []
    | .cons num v rest => (.field num, v) :: (preVal v ++ preFields rest)
  def preVal : Val → List (Step × Val)
    | .scalar _ => []
    | .msg m => preMsg m
    | .list es => preElems 0 es
    | .map kvs => preEntries kvs
  def preElems (i : Nat) : Elems → List (Step × Val)
    | .nil => []
    | .cons e rest => (.listIndex i, e.toVal) :: (preElem e ++ preElems (i + 1) rest)
  def preElem : Elem → List (Step × Val)
    | .scalar _ => []
    | .msg m => preMsg m
  def preEntries : Entries → List (Step × Val)
    | .nil => []
    | .cons k e rest => (.mapIndex k, e.toVal) :: (preElem e ++ preEntries rest)
end

/-! The same traversal written once, over the populated-value tree.  `Lemmas/Range.lean` proves
`rangeMessage o m = walkForest o (kidsMsg m)` for every oracle; the property theorems are proved
on `walk*` and transported. -/
mutual
  def walkTree (o : Oracle) : Tree → Out
    | .node s v kids => visit o s v (absorbBreak (walkKids (o.drop 1) kids))
  def walkKids (o : Oracle) : Forest → Out
    | .nil => ([], .ok)
    | .cons t ts =>
      let r := walkTree o t
      if r.2 = .ok then
        let r' := walkKids (o.drop r.1.length) ts
        (r.1 ++ r'.1, r'.2)
      else r
end

def walkForest (o : Oracle) (f : Forest) : Out := absorbBreak (walkKids o f)

/-! ## Applying a step to a value (`protoreflect` accessors) and well-formedness -/

def Fields.lookup (n : Nat) : Fields → Option Val
  | .nil => none
  | .cons num v rest => if num = n then some v else Fields.lookup n rest

def Elems.get? : Elems → Nat → Option Elem
  | .nil, _ => none
  | .cons e _, 0 => some e
  | .cons _ rest, i + 1 => Elems.get? rest i

def Entries.lookup (k : Key) : Entries → Option Elem
  | .nil => none
  | .cons k' e rest => if k' = k then some e else Entries.lookup k rest

/-- `m.Get(fd)` for a populated field, `m.GetUnknown()` when non-empty, expansion of a resolvable
Any, `list.Get(i)`, `map.Get(k)`; `none` when the step does not apply to the value. -/
def applyStep : Val → Step → Option Val
  | .msg (.plain _ fs _), .field n => Fields.lookup n fs
  | .msg (.any _ fs _ _), .field n => Fields.lookup n fs
  | .msg (.plain _ _ unk), .unknown => if unk ≠ [] then some (.scalar (.bytes unk)) else none
  | .msg (.any _ _ unk _), .unknown => if unk ≠ [] then some (.scalar (.bytes unk)) else none
  | .msg (.any _ _ _ body), .anyExpand ty => if ty = body.ty then some (.msg body) else none
  | .list es, .listIndex i => (Elems.get? es i).map Elem.toVal
  | .map kvs, .mapIndex k => (Entries.lookup k kvs).map Elem.toVal
  | _, _ => none

def ltBytes : List Nat → List Nat → Bool
  | [], [] => false
  | [], _ :: _ => true
  | _ :: _, [] => false
  | a :: as, b :: bs => if a < b then true else if b < a then false else ltBytes as bs

/-- `order.GenericKeyOrder`: false < true, numeric order, Go string `<` (bytewise). -/
def Key.lt : Key → Key → Bool
  | .bool x, .bool y => !x && y
  | .int x, .int y => decide (x < y)
  | .uint x, .uint y => decide (x < y)
  | .str x, .str y => ltBytes x y
  | _, _ => false

def Fields.allGt (n : Nat) : Fields → Bool
  | .nil => true
  | .cons num _ rest => decide (n < num) && Fields.allGt n rest

def Entries.allGt (k : Key) : Entries → Bool
  | .nil => true
  | .cons k' _ rest => Key.lt k k' && Entries.allGt k rest

/- Well-formed trees: field numbers strictly ascending (`order.NumberFieldOrder`), map keys
strictly ascending in `order.GenericKeyOrder` — i.e. the order `Stable: true` must present. -/
mutual
  def wfVal : Val → Bool
    | .scalar _ => true
    | .msg m => wfMsg m
    | .list es => wfElems es
    | .map kvs => wfEntries kvs
  def wfMsg : Msg → Bool
    | .plain _ fs _ => wfFields fs
    | .any _ fs _ body => wfFields fs && wfMsg body
  def wfFields : Fields → Bool
    | .nil => true
    | .cons num v rest => Fields.allGt num rest && wfVal v && wfFields rest
  def wfElem : Elem → Bool
    | .scalar _ => true
    | .msg m => wfMsg m
  def wfElems : Elems → Bool
    | .nil => true
    | .cons e rest => wfElem e && wfElems rest
  def wfEntries : Entries → Bool
    | .nil => true
    | .cons k e rest => Entries.allGt k rest && wfElem e && wfEntries rest
end

end Model.Range
