import PbVerif.Model.Msg
/-
Message-level model of `encoding/protojson` and `encoding/prototext` over the abstract messages of
`Model/Msg.lean` (`Pb.Msg`), at the level of *trees*:

  * `JV`  — a JSON value tree (what `internal/encoding/json.Decoder` delivers token by token,
            what `json.Encoder` is asked to write);           `jMsg` = protojson `marshalMessage`,
                                                               `dMsg` = protojson `unmarshalMessage`
  * `TV`  — a text-format token tree (`internal/encoding/text`); `tMsg` = prototext `marshalMessage`,
                                                               `tdMsg` = prototext `unmarshalMessage`
  * `Ints` — `internal/set.Ints` (`seenNums`, `seenOneofs`).

The lexical layers (JSON numbers/strings, text literals, float formatting, base64) are *below* this
model: they enter through the codec records `JCodec` / `TCodec` (functions only here; their
round-trip laws are hypotheses of the theorems in Props/C20, C24 — never axioms — and are the
subject of the engines jsonlex (C21/C22), textstr (C25), defval (C39) and of this engine's harness).
Well-known types with a special JSON form and `google.protobuf.Any` are *delegated*: the model
answers `delegated` where the Go code calls `wellKnownTypeMarshaler/Unmarshaler`, `marshalAny`,
`unmarshalAny` (engine wktjson covers their forms).
Core-only (linked into `pbmodel_jsontext`).
-/
namespace JT
open Pb

abbrev Byte := Spec.Byte
abbrev Str := List Byte

def ascii (cs : List Char) : Str := cs.map fun c => BitVec.ofNat 8 c.toNat

/-! ## (c) internal/set/ints.go -/

/-- `int64s.Has`: `uint64(*bs)&(uint64(1)<<n) > 0` -/
def loHas (lo : BitVec 64) (n : Nat) : Bool := (lo &&& (1#64 <<< n)) != 0#64
/-- `int64s.Set`: `|= uint64(1) << n` -/
def loSet (lo : BitVec 64) (n : Nat) : BitVec 64 := lo ||| (1#64 <<< n)
/-- `int64s.Clear`: `&^= uint64(1) << n` -/
def loClear (lo : BitVec 64) (n : Nat) : BitVec 64 := lo &&& ~~~(1#64 <<< n)
/-- `bits.OnesCount64` -/
def popcount (x : BitVec 64) : Nat := (List.range 64).countP fun i => x.getLsbD i

/-- `set.Ints`: a 64-bit mask for 0..63 and a Go map (here: its key list, pairwise distinct) above -/
structure Ints where
  lo : BitVec 64 := 0#64
  hi : List Nat := []
  deriving Repr

def Ints.has (s : Ints) (n : Nat) : Bool :=
  if n < 64 then loHas s.lo n else s.hi.contains n

def Ints.set (s : Ints) (n : Nat) : Ints :=
  if n < 64 then { s with lo := loSet s.lo n }
  else if s.hi.contains n then s else { s with hi := n :: s.hi }

def Ints.clear (s : Ints) (n : Nat) : Ints :=
  if n < 64 then { s with lo := loClear s.lo n }
  else { s with hi := s.hi.filter (· != n) }

def Ints.len (s : Ints) : Nat := popcount s.lo + s.hi.length

/-! ## schema extension -/

structure EnumVal where
  name : Str
  num : Int
  deriving Repr, Inhabited

/-- a field descriptor as the two text codecs see it -/
structure FieldX where
  f : Field
  /-- every key of `Fields.byJSON` that maps to this field; the head is `JSONName()` -/
  jsonNames : List Str
  /-- every key of `Fields.byText` that maps to this field; the head is `TextName()`
  (extensions: `[full.name]` in both lists) -/
  textNames : List Str
  /-- `fd.Enum().Values()` in declaration order (kind enum) -/
  enums : List EnumVal := []
  /-- `fd.HasPresence()` -/
  presence : Bool := false
  /-- `fd.ContainingOneof().Index()` — *including* synthetic oneofs (proto3 optional) -/
  oneofIdx : Option Nat := none
  /-- message type is google.protobuf.Value (`isKnownValue`) -/
  valueMsg : Bool := false
  /-- enum type is google.protobuf.NullValue (`isNullValue`) -/
  nullEnum : Bool := false
  deriving Repr, Inhabited

structure MsgX where
  /-- declared fields in index order followed by the known extensions in full-name order
  (= `order.IndexNameFieldOrder`) -/
  fields : List FieldX
  /-- has a `wellKnownTypeMarshaler` (special JSON form): delegated -/
  wkt : Bool := false
  /-- google.protobuf.Any (text: `marshalAny`/`unmarshalAny`): delegated; MessageSet likewise -/
  any : Bool := false
  /-- `ReservedNames()` -/
  reserved : List Str := []
  deriving Repr, Inhabited

structure SchemaX where
  msgs : List MsgX
  /-- `[full.name]` of every extension the resolver knows (whatever the extendee) -/
  extNames : List Str := []
  deriving Repr, Inhabited

def SchemaX.msg (X : SchemaX) (i : Nat) : MsgX := X.msgs.getD i { fields := [] }
def MsgX.find (d : MsgX) (num : Nat) : Option FieldX := d.fields.find? (·.f.num == num)
def MsgX.pb (d : MsgX) : MsgD := ⟨d.fields.map (·.f)⟩
def SchemaX.pb (X : SchemaX) : Schema := ⟨X.msgs.map MsgX.pb⟩

def byNumber (evs : List EnumVal) (i : Int) : Option Str := (evs.find? (·.num == i)).map (·.name)
def byName (evs : List EnumVal) (s : Str) : Option Int := (evs.find? (·.name == s)).map (·.num)

/-! ## numbers -/

def signed64 (n : Nat) : Int := if n < 2 ^ 63 then (n : Int) else (n : Int) - 2 ^ 64
/-- two's complement canonical form (as stored in `Pb.Val.num`) -/
def unsigned64 (i : Int) : Nat := (i % 2 ^ 64).toNat

def isSigned : Kind → Bool
  | .int32 | .sint32 | .sfixed32 | .int64 | .sint64 | .sfixed64 | .enum => true
  | _ => false

def is32 : Kind → Bool
  | .int32 | .sint32 | .sfixed32 | .uint32 | .fixed32 | .enum => true
  | _ => false

/-- the Go value (`val.Int()` / `val.Uint()` / `val.Enum()`) of a stored canonical number -/
def goInt (k : Kind) (n : Nat) : Int := if isSigned k then signed64 n else (n : Int)

/-- range of the Go type of an integer kind -/
def inRange (k : Kind) (i : Int) : Bool :=
  if isSigned k then
    (if is32 k then decide (-(2 : Int) ^ 31 ≤ i ∧ i < 2 ^ 31) else decide (-(2 : Int) ^ 63 ≤ i ∧ i < 2 ^ 63))
  else (if is32 k then decide (0 ≤ i ∧ i < 2 ^ 32) else decide (0 ≤ i ∧ i < 2 ^ 64))

def nan32 : Nat := 0x7fc00000            -- float32(math.NaN())
def nan64 : Nat := 0x7ff8000000000001    -- math.NaN()
def inf32 : Nat := 0x7f800000
def ninf32 : Nat := 0xff800000
def inf64 : Nat := 0x7ff0000000000000
def ninf64 : Nat := 0xfff0000000000000

/-- all NaNs are one value for both formats -/
def normNum (k : Kind) (n : Nat) : Nat :=
  match k with
  | .float => if isNaN32 n then nan32 else n
  | .double => if isNaN64 n then nan64 else n
  | _ => n

/-! ## JSON trees -/

mutual
inductive JV where
  | null
  | bool (b : Bool)
  | num (lit : Str)        -- the number literal as written
  | str (s : Str)          -- the *parsed* string
  | arr (es : JElems)
  | obj (ms : JMembers)
inductive JElems where
  | nil
  | cons (v : JV) (tl : JElems)
inductive JMembers where
  | nil
  | cons (k : Str) (v : JV) (tl : JMembers)
end

instance : Inhabited JV := ⟨.null⟩

def JElems.ofList : List JV → JElems
  | [] => .nil
  | v :: tl => .cons v (JElems.ofList tl)

def JMembers.ofList : List (Str × JV) → JMembers
  | [] => .nil
  | (k, v) :: tl => .cons k v (JMembers.ofList tl)

def JV.isNull : JV → Bool
  | .null => true
  | _ => false

/-- the JSON lexical layer, delegated -/
structure JCodec where
  /-- `strconv.AppendInt/AppendUint(…, 10)` and `protoreflect.Value.String()` of an integer -/
  fmtInt : Int → Str
  /-- `json.appendFloat(…, 32/64)` of a finite value given by its bits -/
  fmtF32 : Nat → Str
  fmtF64 : Nat → Str
  /-- `base64.StdEncoding.EncodeToString` -/
  b64enc : Str → Str
  /-- `Token.Int(64)` else `Token.Uint(64)` of a Number token with this text -/
  numInt : Str → Option Int
  /-- `Token.Float(32/64)` of a Number token: the bits -/
  numF32 : Str → Option Nat
  numF64 : Str → Option Nat
  /-- `unmarshalInt/unmarshalUint` on a String token (TrimSpace rule, inner decoder, one number, EOF) -/
  strInt : Str → Option Int
  /-- `unmarshalFloat` on a String token other than NaN, Infinity, -Infinity -/
  strF32 : Str → Option Nat
  strF64 : Str → Option Nat
  /-- `strconv.ParseInt/ParseUint(name, 10, 64)` of a map key -/
  keyInt : Str → Option Int
  /-- `unmarshalBytes`: standard or URL alphabet, with or without padding -/
  b64dec : Str → Option Str

structure JOpts where
  multiline : Bool := false        -- below tree level
  indent : Bool := false           -- below tree level
  useProtoNames : Bool := false
  useEnumNumbers : Bool := false
  emitUnpopulated : Bool := false
  emitDefaultValues : Bool := false
  deriving Repr, DecidableEq

/-- why `Marshal` fails (`delegated`/`shape` are model artefacts: content outside the model,
values that no Go message can hold) -/
inductive EErr where
  | utf8 | delegated | shape
  deriving DecidableEq, Repr

def sNaN : Str := ascii ['N', 'a', 'N']
def sInf : Str := ascii ['I', 'n', 'f', 'i', 'n', 'i', 't', 'y']
def sNegInf : Str := ascii ['-', 'I', 'n', 'f', 'i', 'n', 'i', 't', 'y']
def sTrue : Str := ascii ['t', 'r', 'u', 'e']
def sFalse : Str := ascii ['f', 'a', 'l', 's', 'e']

/-- `json.Encoder.WriteFloat` -/
def jFloat (C : JCodec) (k : Kind) (n : Nat) : JV :=
  match k with
  | .float =>
    if isNaN32 n then .str sNaN else if n = inf32 then .str sInf else if n = ninf32 then .str sNegInf
    else .num (C.fmtF32 n)
  | _ =>
    if isNaN64 n then .str sNaN else if n = inf64 then .str sInf else if n = ninf64 then .str sNegInf
    else .num (C.fmtF64 n)

/-- protojson `marshalSingular`, non-message kinds -/
def jScalar (C : JCodec) (o : JOpts) (fx : FieldX) : Val → Except EErr JV
  | .num n =>
    match fx.f.kind with
    | .bool => .ok (.bool (n != 0))
    | .int32 | .sint32 | .sfixed32 => .ok (.num (C.fmtInt (signed64 n)))
    | .uint32 | .fixed32 => .ok (.num (C.fmtInt n))
    | .int64 | .sint64 | .sfixed64 => .ok (.str (C.fmtInt (signed64 n)))
    | .uint64 | .fixed64 => .ok (.str (C.fmtInt n))
    | .float => .ok (jFloat C .float n)
    | .double => .ok (jFloat C .double n)
    | .enum =>
      if fx.nullEnum then .ok .null
      else match byNumber fx.enums (signed64 n) with
        | some name => if o.useEnumNumbers then .ok (.num (C.fmtInt (signed64 n))) else .ok (.str name)
        | none => .ok (.num (C.fmtInt (signed64 n)))
    | _ => .error .shape
  | .bytes b =>
    match fx.f.kind with
    | .string => if utf8Valid b then .ok (.str b) else .error .utf8   -- `WriteString` refuses invalid UTF-8 whatever the field says
    | .bytes => .ok (.str (C.b64enc b))
    | _ => .error .shape
  | .msg _ => .error .shape

/-- `GenericKeyOrder` on canonical key values -/
def bytesLess : List Byte → List Byte → Bool
  | [], [] => false
  | [], _ :: _ => true
  | _ :: _, [] => false
  | a :: as, b :: bs => a.toNat < b.toNat || (a.toNat == b.toNat && bytesLess as bs)

def keyLess (k : Kind) : Val → Val → Bool
  | .num a, .num b => if isSigned k then signed64 a < signed64 b else a < b
  | .bytes a, .bytes b => bytesLess a b
  | _, _ => false

/-- insertion sort by key (stable); with pairwise distinct keys the result is *the* sorted permutation -/
def insertK {α : Type} (less : Val → Val → Bool) (x : Val × α) : List (Val × α) → List (Val × α)
  | [] => [x]
  | y :: tl => if less x.1 y.1 then x :: y :: tl else y :: insertK less x tl

def sortK {α : Type} (less : Val → Val → Bool) : List (Val × α) → List (Val × α)
  | [] => []
  | x :: tl => insertK less x (sortK less tl)

/-- `k.String()` of a map key from its JSON scalar rendering -/
def keyString : JV → Option Str
  | .bool b => some (if b then sTrue else sFalse)
  | .num l => some l
  | .str s => some s
  | _ => none

def lookupN {α : Type} (r : List (Nat × α)) (n : Nat) : Option α := (r.find? (·.1 == n)).map (·.2)

/-- the value printed for a field that is not populated (`unpopulatedFieldRanger`) -/
def unpopulated (C : JCodec) (o : JOpts) (fx : FieldX) : Option JV :=
  if !(o.emitUnpopulated || o.emitDefaultValues) then none
  else if fx.f.ext then none                      -- only `Descriptor().Fields()` is scanned
  else if fx.oneofIdx.isSome then none            -- fields within oneofs (synthetic ones too) are ignored
  else if fx.presence then (if o.emitUnpopulated then some .null else none)
  else match fx.f.card with
    | .repeated => some (.arr .nil)
    | .map => some (.obj .nil)
    | _ =>
      match jScalar C o fx (defaultScalar fx.f) with
      | .ok v => some v
      | .error _ => none

def outName (o : JOpts) (fx : FieldX) : Str :=
  if o.useProtoNames then fx.textNames.headD [] else fx.jsonNames.headD []

/-- `order.RangeFields(fields, IndexNameFieldOrder, …)`: the rendered populated fields `r`
(number ↦ value) and the unpopulated ones, in descriptor order -/
def assemble (C : JCodec) (o : JOpts) (d : MsgX) (r : List (Nat × JV)) : List (Str × JV) :=
  d.fields.filterMap fun fx =>
    match lookupN r fx.f.num with
    | some v => some (outName o fx, v)
    | none => (unpopulated C o fx).map fun v => (outName o fx, v)

/-- a map entry from the rendered fields of the entry message -/
def entryMember (r : List (Nat × JV)) : Option (Str × JV) :=
  match lookupN r 1, lookupN r 2 with
  | some k, some v => (keyString k).map fun ks => (ks, v)
  | _, _ => none

def sequenceE {ε α : Type} : List (Option α) → ε → Except ε (List α)
  | [], _ => .ok []
  | none :: _, e => .error e
  | some x :: tl, e => (sequenceE tl e).map (x :: ·)

mutual
/-- protojson `marshalMessage` -/
def jMsg (C : JCodec) (o : JOpts) (X : SchemaX) (mi : Nat) : Msg → Except EErr JV
  | .mk fs _ =>
    if (X.msg mi).wkt then .error .delegated else
    match jFields C o X (X.msg mi) fs with
    | .error e => .error e
    | .ok r => .ok (.obj (JMembers.ofList (assemble C o (X.msg mi) r)))
/-- the populated fields: number ↦ rendered value, in the order of the message -/
def jFields (C : JCodec) (o : JOpts) (X : SchemaX) (d : MsgX) : Fields → Except EErr (List (Nat × JV))
  | .nil => .ok []
  | .cons num fv tl =>
    match d.find num with
    | none => jFields C o X d tl
    | some fx =>
      match jFVal C o X fx fv with
      | .error e => .error e
      | .ok v =>
        match jFields C o X d tl with
        | .error e => .error e
        | .ok r => .ok ((num, v) :: r)
/-- `marshalValue` -/
def jFVal (C : JCodec) (o : JOpts) (X : SchemaX) (fx : FieldX) : FVal → Except EErr JV
  | .one v => jVal C o X fx v
  | .many vs =>
    if fx.f.card = .map then
      -- `marshalMap`: entries in `GenericKeyOrder`
      match jEntries C o X (X.msg fx.f.sub) vs with
      | .error e => .error e
      | .ok es =>
        let kk := ((X.msg fx.f.sub).find 1).map (·.f.kind) |>.getD .int32
        match sequenceE ((sortK (keyLess kk) es).map fun e => entryMember e.2) EErr.shape with
        | .error e => .error e
        | .ok ms => .ok (.obj (JMembers.ofList ms))
    else
      match jVals C o X fx vs with
      | .error e => .error e
      | .ok es => .ok (.arr (JElems.ofList es))
/-- `marshalSingular` -/
def jVal (C : JCodec) (o : JOpts) (X : SchemaX) (fx : FieldX) : Val → Except EErr JV
  | .msg m => if fx.f.kind.isMessage then jMsg C o X fx.f.sub m else .error .shape
  | .num n => jScalar C o fx (.num n)
  | .bytes b => jScalar C o fx (.bytes b)
def jVals (C : JCodec) (o : JOpts) (X : SchemaX) (fx : FieldX) : Vals → Except EErr (List JV)
  | .nil => .ok []
  | .cons v tl =>
    match jVal C o X fx v with
    | .error e => .error e
    | .ok x =>
      match jVals C o X fx tl with
      | .error e => .error e
      | .ok r => .ok (x :: r)
/-- map entries: key value ↦ rendered fields of the entry message `ed` -/
def jEntries (C : JCodec) (o : JOpts) (X : SchemaX) (ed : MsgX) : Vals → Except EErr (List (Val × List (Nat × JV)))
  | .nil => .ok []
  | .cons v tl =>
    match jEntry C o X ed v with
    | .error e => .error e
    | .ok x =>
      match jEntries C o X ed tl with
      | .error e => .error e
      | .ok r => .ok (x :: r)
def jEntry (C : JCodec) (o : JOpts) (X : SchemaX) (ed : MsgX) : Val → Except EErr (Val × List (Nat × JV))
  | .msg m => jEntryMsg C o X ed m
  | _ => .error .shape
def jEntryMsg (C : JCodec) (o : JOpts) (X : SchemaX) (ed : MsgX) : Msg → Except EErr (Val × List (Nat × JV))
  | .mk efs u =>
    match entryKey (.mk efs u) with
    | none => .error .shape
    | some k =>
      match jFields C o X ed efs with
      | .error e => .error e
      | .ok r => .ok (k, r)
end

/-! ## JSON decoding -/

inductive Err where
  | syntax      -- "unexpected token"
  | value       -- "invalid value for …"
  | unknown     -- "unknown field"
  | dup         -- JSON "duplicate field" / text "non-repeated field … is repeated"
  | dupOneof    -- "oneof … is already set"
  | dupKey      -- JSON "duplicate map key"
  | dupEntry    -- text "map entry … cannot be repeated"
  | depth       -- "exceeded max(imum) recursion depth"
  | badExt      -- "message … cannot be extended by …"
  | byNumber    -- text "cannot specify field by number"
  | badNum      -- text "invalid field number"
  | noSep       -- text "missing field separator :"
  | utf8        -- text "contains invalid UTF-8"
  | delegated   -- model artefact: well-known type / Any
  | panic       -- the Go code would panic here ("invalid scalar kind", "invalid kind for map key"): proved unreachable
  deriving DecidableEq, Repr

structure DOpts where
  discard : Bool := false
  deriving Repr

inductive Res where
  | found (fx : FieldX)
  | unknown
  | badExt

def lbr : Byte := 0x5b#8
def rbr : Byte := 0x5d#8

/-- `strings.HasPrefix(name, "[") && strings.HasSuffix(name, "]")` -/
def isBracketed (s : Str) : Bool := s.head? == some lbr && s.getLast? == some rbr

/-- field lookup of protojson `unmarshalMessage` -/
def resolveJSON (X : SchemaX) (d : MsgX) (name : Str) : Res :=
  if isBracketed name then
    match d.fields.find? fun fx => fx.f.ext && fx.textNames.contains name with
    | some fx => .found fx
    | none => if X.extNames.contains name then .badExt else .unknown
  else
    match d.fields.find? fun fx => !fx.f.ext && fx.jsonNames.contains name with
    | some fx => .found fx
    | none =>
      match d.fields.find? fun fx => !fx.f.ext && fx.textNames.contains name with
      | some fx => .found fx
      | none => .unknown

def intVal (k : Kind) (i : Option Int) : Except Err (Option Val) :=
  match i with
  | some i => if inRange k i then .ok (some (.num (unsigned64 i))) else .error .value
  | none => .error .value

def bitsVal (b : Option Nat) : Except Err (Option Val) :=
  match b with
  | some b => .ok (some (.num b))
  | none => .error .value

/-- protojson `unmarshalScalar`; `ok none` = the invalid `protoreflect.Value{}` (nothing is set) -/
def dScalar (C : JCodec) (D : DOpts) (fx : FieldX) (v : JV) : Except Err (Option Val) :=
  match fx.f.kind with
  | .bool =>
    (match v with
     | .bool b => .ok (some (.num (if b then 1 else 0)))
     | _ => .error .value)
  | .int32 | .sint32 | .sfixed32 | .int64 | .sint64 | .sfixed64
  | .uint32 | .fixed32 | .uint64 | .fixed64 =>
    (match v with
     | .num l => intVal fx.f.kind (C.numInt l)
     | .str s => intVal fx.f.kind (C.strInt s)
     | _ => .error .value)
  | .float =>
    (match v with
     | .num l => bitsVal (C.numF32 l)
     | .str s =>
       if s = sNaN then .ok (some (.num nan32)) else if s = sInf then .ok (some (.num inf32))
       else if s = sNegInf then .ok (some (.num ninf32)) else bitsVal (C.strF32 s)
     | _ => .error .value)
  | .double =>
    (match v with
     | .num l => bitsVal (C.numF64 l)
     | .str s =>
       if s = sNaN then .ok (some (.num nan64)) else if s = sInf then .ok (some (.num inf64))
       else if s = sNegInf then .ok (some (.num ninf64)) else bitsVal (C.strF64 s)
     | _ => .error .value)
  | .string =>
    (match v with
     | .str s => .ok (some (.bytes s))
     | _ => .error .value)
  | .bytes =>
    (match v with
     | .str s => (match C.b64dec s with
                  | some b => .ok (some (.bytes b))
                  | none => .error .value)
     | _ => .error .value)
  | .enum =>
    (match v with
     | .str s =>
       (match byName fx.enums s with
        | some i => .ok (some (.num (unsigned64 i)))
        | none => if D.discard then .ok none else .error .value)
     | .num l => intVal .enum (C.numInt l)
     | .null => if fx.nullEnum then .ok (some (.num 0)) else .error .value
     | _ => .error .value)
  | .message | .group => .error .panic     -- `panic("unmarshalScalar: invalid scalar kind")`

/-- protojson `unmarshalMapKey` -/
def dKey (C : JCodec) (kf : FieldX) (name : Str) : Except Err Val :=
  match kf.f.kind with
  | .string => .ok (.bytes name)
  | .bool => if name = sTrue then .ok (.num 1) else if name = sFalse then .ok (.num 0) else .error .value
  | .int32 | .sint32 | .sfixed32 | .int64 | .sint64 | .sfixed64
  | .uint32 | .fixed32 | .uint64 | .fixed64 =>
    (match C.keyInt name with
     | some i => if inRange kf.f.kind i then .ok (.num (unsigned64 i)) else .error .value
     | none => .error .value)
  | _ => .error .panic                     -- `panic("invalid kind for map key")`

def clearOneofFor (d : MsgD) (f : Field) (fs : Fields) : Fields :=
  match f.oneof with
  | some o => Fields.clearOneof d o f.num fs
  | none => fs

def mkEntry (k v : Val) : Msg := .mk (.cons 1 (.one k) (.cons 2 (.one v) .nil)) []

def curVals (fs : Fields) (num : Nat) : Vals :=
  match fs.get? num with
  | some (.many vs) => vs
  | _ => .nil

/-- store a decoded map (`m.Mutable(fd).Map()` + `Set`s): populated only when non-empty -/
def setMap (fs : Fields) (num : Nat) (vs : Vals) : Fields :=
  if vs.isNil then fs else fs.set num (.many vs)

mutual
/-- `skipJSONValue`: `open` counts the currently open arrays/objects; the limit is compared
when one is opened -/
def skipJ (limit : Int) (opn : Nat) : JV → Except Err Unit
  | .arr es => if ((opn + 1 : Nat) : Int) > limit then .error .depth else skipJElems limit (opn + 1) es
  | .obj ms => if ((opn + 1 : Nat) : Int) > limit then .error .depth else skipJMembers limit (opn + 1) ms
  | _ => .ok ()
def skipJElems (limit : Int) (opn : Nat) : JElems → Except Err Unit
  | .nil => .ok ()
  | .cons v tl =>
    match skipJ limit opn v with
    | .error e => .error e
    | .ok _ => skipJElems limit opn tl
def skipJMembers (limit : Int) (opn : Nat) : JMembers → Except Err Unit
  | .nil => .ok ()
  | .cons _ v tl =>
    match skipJ limit opn v with
    | .error e => .error e
    | .ok _ => skipJMembers limit opn tl
end

/-- `list.Append` of the decoded elements (`m.Mutable(fd).List()`) -/
def storeList (m : Msg) (fx : FieldX) (r : Except Err Vals) : Except Err Msg :=
  match r with
  | .error e => .error e
  | .ok vs => .ok (.mk (appendList m.fields fx.f.num vs) m.unknown)

/-- the decoded map (`m.Mutable(fd).Map()` + `Set`s) -/
def storeMap (m : Msg) (fx : FieldX) (r : Except Err Vals) : Except Err Msg :=
  match r with
  | .error e => .error e
  | .ok vs => .ok (.mk (setMap m.fields fx.f.num vs) m.unknown)

/-- `m.Set(fd, val)` of a freshly decoded submessage (replaces; clears the other oneof members) -/
def storeMsg (d : MsgX) (m : Msg) (fx : FieldX) (r : Except Err Msg) : Except Err Msg :=
  match r with
  | .error e => .error e
  | .ok sub => .ok (.mk ((clearOneofFor d.pb fx.f m.fields).set fx.f.num (.one (.msg sub))) m.unknown)

/-- `if val.IsValid() { m.Set(fd, val) }` -/
def storeScalar (d : MsgX) (m : Msg) (fx : FieldX) (r : Except Err (Option Val)) : Except Err Msg :=
  match r with
  | .error e => .error e
  | .ok none => .ok m
  | .ok (some x) => .ok (.mk (setSingular d.pb fx.f m.fields x) m.unknown)

/-- what the field loop decides about one member *before* reading its value -/
inductive Head where
  | error (e : Err)
  /-- nothing is stored: JSON null (the number is marked as seen), or a discarded unknown member -/
  | skip (sn : Ints)
  /-- the value is to be decoded for field `fx`; the updated `seenNums` / `seenOneofs` -/
  | value (fx : FieldX) (sn so : Ints)

/-- protojson `unmarshalMessage`, one iteration up to the value: name lookup, unknown members,
duplicate check on `seenNums`, null, duplicate check on `seenOneofs` -/
def dHead (D : DOpts) (X : SchemaX) (d : MsgX) (limit : Int) (key : Str) (v : JV) (sn so : Ints) : Head :=
  match resolveJSON X d key with
  | .badExt => .error .badExt
  | .unknown =>
    if D.discard then
      match skipJ limit 0 v with
      | .error e => .error e
      | .ok _ => .skip sn
    else .error .unknown
  | .found fx =>
    if sn.has fx.f.num then .error .dup else
    if v.isNull && !fx.valueMsg && !fx.nullEnum then .skip (sn.set fx.f.num) else
    match fx.f.card with
    | .repeated => .value fx (sn.set fx.f.num) so
    | .map => .value fx (sn.set fx.f.num) so
    | _ =>
      match fx.oneofIdx with
      | some o => if so.has o then .error .dupOneof else .value fx (sn.set fx.f.num) (so.set o)
      | none => .value fx (sn.set fx.f.num) so

mutual
/-- protojson `unmarshalMessage`; `limit` is `d.opts.RecursionLimit` on entry (before `--`) -/
def dMsg (C : JCodec) (D : DOpts) (X : SchemaX) (mi : Nat) (limit : Int) : JV → Except Err Msg
  | .obj ms =>
    if limit - 1 < 0 then .error .depth
    else if (X.msg mi).wkt then .error .delegated
    else dMembers C D X mi (limit - 1) ms {} {} Msg.empty
  | _ =>
    if limit - 1 < 0 then .error .depth
    else if (X.msg mi).wkt then .error .delegated
    else .error .syntax
/-- the field loop; `limit` is the decremented limit of this message -/
def dMembers (C : JCodec) (D : DOpts) (X : SchemaX) (mi : Nat) (limit : Int) :
    JMembers → Ints → Ints → Msg → Except Err Msg
  | .nil, _, _, m => .ok m
  | .cons key v tl, sn, so, m =>
    match dHead D X (X.msg mi) limit key v sn so with
    | .error e => .error e
    | .skip sn' => dMembers C D X mi limit tl sn' so m
    | .value fx sn' so' =>
      match (match fx.f.card with
             | .repeated => storeList m fx (dList C D X fx limit v)
             | .map => storeMap m fx (dMap C D X fx limit (curVals m.fields fx.f.num) v)
             | _ =>
               if fx.f.kind.isMessage then storeMsg (X.msg mi) m fx (dMsg C D X fx.f.sub limit v)
               else storeScalar (X.msg mi) m fx (dScalar C D fx v)) with
      | .error e => .error e
      | .ok m' => dMembers C D X mi limit tl sn' so' m'
/-- `unmarshalList`: the limit is *not* touched for lists -/
def dList (C : JCodec) (D : DOpts) (X : SchemaX) (fx : FieldX) (limit : Int) : JV → Except Err Vals
  | .arr es => dElems C D X fx limit es
  | _ => .error .syntax
def dElems (C : JCodec) (D : DOpts) (X : SchemaX) (fx : FieldX) (limit : Int) : JElems → Except Err Vals
  | .nil => .ok .nil
  | .cons v tl =>
    if fx.f.kind.isMessage then
      match dMsg C D X fx.f.sub limit v with
      | .error e => .error e
      | .ok sub => (dElems C D X fx limit tl).map (Vals.cons (.msg sub))
    else
      match dScalar C D fx v with
      | .error e => .error e
      | .ok none => dElems C D X fx limit tl
      | .ok (some x) => (dElems C D X fx limit tl).map (Vals.cons x)
/-- `unmarshalMap`: the limit is *not* touched for maps; `cur` is the map so far -/
def dMap (C : JCodec) (D : DOpts) (X : SchemaX) (fx : FieldX) (limit : Int) (cur : Vals) : JV → Except Err Vals
  | .obj ms => dEntries C D X fx limit ms cur
  | _ => .error .syntax
def dEntries (C : JCodec) (D : DOpts) (X : SchemaX) (fx : FieldX) (limit : Int) : JMembers → Vals → Except Err Vals
  | .nil, cur => .ok cur
  | .cons key v tl, cur =>
    match (X.msg fx.f.sub).find 1, (X.msg fx.f.sub).find 2 with
    | some kf, some vf =>
      match dKey C kf key with
      | .error e => .error e
      | .ok k =>
        if (lookupEntry cur k).isSome then .error .dupKey else
        if vf.f.kind.isMessage then
          match dMsg C D X vf.f.sub limit v with
          | .error e => .error e
          | .ok sub => dEntries C D X fx limit tl (mapPut cur k (mkEntry k (.msg sub)))
        else
          match dScalar C D vf v with
          | .error e => .error e
          | .ok none => dEntries C D X fx limit tl cur
          | .ok (some x) => dEntries C D X fx limit tl (mapPut cur k (mkEntry k x))
    | _, _ => .error .delegated
end

/-- the value of a resolved, accepted member stored into `m`
(`unmarshalList` / `unmarshalMap` / `unmarshalSingular`): what `dMembers` does with `.value` -/
def dFieldVal (C : JCodec) (D : DOpts) (X : SchemaX) (mi : Nat) (fx : FieldX) (limit : Int) (m : Msg) (v : JV) : Except Err Msg :=
  match fx.f.card with
  | .repeated => storeList m fx (dList C D X fx limit v)
  | .map => storeMap m fx (dMap C D X fx limit (curVals m.fields fx.f.num) v)
  | _ =>
    if fx.f.kind.isMessage then storeMsg (X.msg mi) m fx (dMsg C D X fx.f.sub limit v)
    else storeScalar (X.msg mi) m fx (dScalar C D fx v)

/-- `protojson.UnmarshalOptions{RecursionLimit: limit, DiscardUnknown: …}.Unmarshal` at tree level
(`AllowPartial`; the trailing-EOF check is lexical) -/
def fromJSON (C : JCodec) (D : DOpts) (X : SchemaX) (mi : Nat) (limit : Int) (v : JV) : Except Err Msg :=
  dMsg C D X mi limit v

def toJSON (C : JCodec) (o : JOpts) (X : SchemaX) (mi : Nat) (m : Msg) : Except EErr JV :=
  jMsg C o X mi m

/-! ## normal form: unknown fields dropped, map entries in key order, one NaN -/

def sortVals (less : Val → Val → Bool) (vs : Vals) : Vals :=
  Vals.ofList ((sortK less (vs.toList.map fun v =>
    ((match v with | .msg e => (entryKey e).getD (.num 0) | _ => .num 0), v))).map (·.2))

mutual
def normMsg (X : SchemaX) (mi : Nat) : Msg → Msg
  | .mk fs _ => .mk (normFields X (X.msg mi) fs) []
def normFields (X : SchemaX) (d : MsgX) : Fields → Fields
  | .nil => .nil
  | .cons num fv tl =>
    match d.find num with
    | some fx => .cons num (normFVal X fx fv) (normFields X d tl)
    | none => normFields X d tl
def normFVal (X : SchemaX) (fx : FieldX) : FVal → FVal
  | .one v => .one (normVal X fx v)
  | .many vs =>
    if fx.f.card = .map then
      let kk := ((X.msg fx.f.sub).find 1).map (·.f.kind) |>.getD .int32
      .many (sortVals (keyLess kk) (normVals X fx vs))
    else .many (normVals X fx vs)
def normVal (X : SchemaX) (fx : FieldX) : Val → Val
  | .msg m => .msg (normMsg X fx.f.sub m)
  | .num n => .num (normNum fx.f.kind n)
  | .bytes b => .bytes b
def normVals (X : SchemaX) (fx : FieldX) : Vals → Vals
  | .nil => .nil
  | .cons v tl => .cons (normVal X fx v) (normVals X fx tl)
end

/-! ## text format trees -/

/-- a `text.Scalar` token: string literal(s) (parsed), number, or bare literal -/
inductive TTok where
  | str (s : Str)
  | num (raw : Str)
  | lit (raw : Str)
  deriving DecidableEq, Repr

/-- a `text.Name` token -/
inductive TName where
  | ident (s : Str)      -- IdentName
  | type (s : Str)       -- TypeName: `[s]`
  | number (n : Nat)     -- FieldNumber
  deriving DecidableEq, Repr

mutual
inductive TV where
  | scalar (t : TTok)
  | msg (fs : TFields)       -- `{ … }` / `< … >`
  | list (es : TElems)       -- `[ … ]`
inductive TFields where
  | nil
  | cons (name : TName) (sep : Bool) (v : TV) (tl : TFields)
inductive TElems where
  | nil
  | cons (v : TV) (tl : TElems)
end

instance : Inhabited TV := ⟨.list .nil⟩

def TFields.ofList : List (TName × Bool × TV) → TFields
  | [] => .nil
  | (n, s, v) :: tl => .cons n s v (TFields.ofList tl)

def TElems.ofList : List TV → TElems
  | [] => .nil
  | v :: tl => .cons v (TElems.ofList tl)

def TFields.append : TFields → TFields → TFields
  | .nil, ys => ys
  | .cons n s v tl, ys => .cons n s v (TFields.append tl ys)

/-- the text lexical layer, delegated -/
structure TCodec where
  /-- `strconv.AppendInt/AppendUint(…, 10)` -/
  fmtInt : Int → Str
  /-- `text.appendFloat` of a finite value -/
  fmtF32 : Nat → Str
  fmtF64 : Nat → Str
  /-- `Token.Int64()` of a number token -/
  numInt : Str → Option Int
  /-- `Token.Uint64()` -/
  numUint : Str → Option Nat
  /-- `Token.Bool()` of a number token -/
  numBool : Str → Option Bool
  /-- `Token.Float32()/Float64()` of a number token: the bits -/
  numF32 : Str → Option Nat
  numF64 : Str → Option Nat

structure TOpts where
  multiline : Bool := false        -- below tree level
  indent : Bool := false           -- below tree level
  emitASCII : Bool := false        -- below tree level (string escaping only)
  deriving Repr, DecidableEq

def sKey : Str := ascii ['k', 'e', 'y']
def sValue : Str := ascii ['v', 'a', 'l', 'u', 'e']
def sNan : Str := ascii ['n', 'a', 'n']
def sInfT : Str := ascii ['i', 'n', 'f']
def sNegInfT : Str := ascii ['-', 'i', 'n', 'f']
def sInfinityT : Str := ascii ['i', 'n', 'f', 'i', 'n', 'i', 't', 'y']
def sNegInfinityT : Str := ascii ['-', 'i', 'n', 'f', 'i', 'n', 'i', 't', 'y']
def sT : Str := ascii ['t']
def sTrueC : Str := ascii ['T', 'r', 'u', 'e']
def sF : Str := ascii ['f']
def sFalseC : Str := ascii ['F', 'a', 'l', 's', 'e']

/-- `text.Encoder.WriteFloat` -/
def tFloat (C : TCodec) (k : Kind) (n : Nat) : TTok :=
  match k with
  | .float =>
    if isNaN32 n then .lit sNan else if n = inf32 then .lit sInfT else if n = ninf32 then .lit sNegInfT
    else .num (C.fmtF32 n)
  | _ =>
    if isNaN64 n then .lit sNan else if n = inf64 then .lit sInfT else if n = ninf64 then .lit sNegInfT
    else .num (C.fmtF64 n)

/-- prototext `marshalSingular`, non-message kinds -/
def tScalar (C : TCodec) (fx : FieldX) : Val → Except EErr TTok
  | .num n =>
    match fx.f.kind with
    | .bool => .ok (.lit (if n != 0 then sTrue else sFalse))
    | .int32 | .sint32 | .sfixed32 | .int64 | .sint64 | .sfixed64 => .ok (.num (C.fmtInt (signed64 n)))
    | .uint32 | .fixed32 | .uint64 | .fixed64 => .ok (.num (C.fmtInt n))
    | .float => .ok (tFloat C .float n)
    | .double => .ok (tFloat C .double n)
    | .enum =>
      (match byNumber fx.enums (signed64 n) with
       | some name => .ok (.lit name)
       | none => .ok (.num (C.fmtInt (signed64 n))))
    | _ => .error .shape
  | .bytes b =>
    match fx.f.kind with
    | .string => if fx.f.utf8 && !utf8Valid b then .error .utf8 else .ok (.str b)
    | .bytes => .ok (.str b)
    | _ => .error .shape
  | .msg _ => .error .shape

def fieldName (fx : FieldX) : TName :=
  -- `WriteName(fd.TextName())`: an identifier, or `[full.name]` which the decoder reads as a TypeName
  if fx.f.ext then .type ((fx.textNames.headD []).drop 1 |>.dropLast) else .ident (fx.textNames.headD [])

/-- `{key: k value: v}` from the rendered fields of the entry message -/
def entryTV (r : List (Nat × List TV)) : Option TV :=
  match lookupN r 1, lookupN r 2 with
  | some [k], some [v] =>
    some (.msg (.cons (.ident sKey) true k (.cons (.ident sValue) true v .nil)))
  | _, _ => none

/-- fields in descriptor order; every value under its own `name:` -/
def assembleT (d : MsgX) (r : List (Nat × List TV)) : List (TName × Bool × TV) :=
  d.fields.flatMap fun fx =>
    match lookupN r fx.f.num with
    | some vs => vs.map fun v => (fieldName fx, true, v)
    | none => []

mutual
/-- prototext `marshalMessage` (fields only; EmitUnknown is off) -/
def tMsg (C : TCodec) (X : SchemaX) (mi : Nat) : Msg → Except EErr TFields
  | .mk fs _ =>
    if (X.msg mi).any then .error .delegated else
    match tFields C X (X.msg mi) fs with
    | .error e => .error e
    | .ok r => .ok (TFields.ofList (assembleT (X.msg mi) r))
def tFields (C : TCodec) (X : SchemaX) (d : MsgX) : Fields → Except EErr (List (Nat × List TV))
  | .nil => .ok []
  | .cons num fv tl =>
    match d.find num with
    | none => tFields C X d tl
    | some fx =>
      match tFVal C X fx fv with
      | .error e => .error e
      | .ok vs =>
        match tFields C X d tl with
        | .error e => .error e
        | .ok r => .ok ((num, vs) :: r)
/-- the values written under the field's name, one `name: value` each -/
def tFVal (C : TCodec) (X : SchemaX) (fx : FieldX) : FVal → Except EErr (List TV)
  | .one v => (tVal C X fx v).map fun x => [x]
  | .many vs =>
    if fx.f.card = .map then
      match tEntries C X (X.msg fx.f.sub) vs with
      | .error e => .error e
      | .ok es =>
        let kk := ((X.msg fx.f.sub).find 1).map (·.f.kind) |>.getD .int32
        sequenceE ((sortK (keyLess kk) es).map fun e => entryTV e.2) EErr.shape
    else tVals C X fx vs
def tVal (C : TCodec) (X : SchemaX) (fx : FieldX) : Val → Except EErr TV
  | .msg m =>
    if fx.f.kind.isMessage then (tMsg C X fx.f.sub m).map TV.msg else .error .shape
  | .num n => (tScalar C fx (.num n)).map TV.scalar
  | .bytes b => (tScalar C fx (.bytes b)).map TV.scalar
def tVals (C : TCodec) (X : SchemaX) (fx : FieldX) : Vals → Except EErr (List TV)
  | .nil => .ok []
  | .cons v tl =>
    match tVal C X fx v with
    | .error e => .error e
    | .ok x =>
      match tVals C X fx tl with
      | .error e => .error e
      | .ok r => .ok (x :: r)
def tEntries (C : TCodec) (X : SchemaX) (ed : MsgX) : Vals → Except EErr (List (Val × List (Nat × List TV)))
  | .nil => .ok []
  | .cons v tl =>
    match tEntry C X ed v with
    | .error e => .error e
    | .ok x =>
      match tEntries C X ed tl with
      | .error e => .error e
      | .ok r => .ok (x :: r)
def tEntry (C : TCodec) (X : SchemaX) (ed : MsgX) : Val → Except EErr (Val × List (Nat × List TV))
  | .msg m => tEntryMsg C X ed m
  | _ => .error .shape
def tEntryMsg (C : TCodec) (X : SchemaX) (ed : MsgX) : Msg → Except EErr (Val × List (Nat × List TV))
  | .mk efs u =>
    match entryKey (.mk efs u) with
    | none => .error .shape
    | some k =>
      match tFields C X ed efs with
      | .error e => .error e
      | .ok r => .ok (k, r)
end

def toText (C : TCodec) (X : SchemaX) (mi : Nat) (m : Msg) : Except EErr TFields := tMsg C X mi m

/-! ## text decoding -/

def bracket (s : Str) : Str := lbr :: s ++ [rbr]

inductive TRes where
  | found (fx : FieldX)
  | unknown (name : Str)     -- `name` is the identifier (empty for the other name kinds)
  | badExt
  | byNumber
  | badNum

/-- field lookup of prototext `unmarshalMessage` -/
def resolveText (X : SchemaX) (d : MsgX) : TName → TRes
  | .ident s =>
    match d.fields.find? fun fx => !fx.f.ext && fx.textNames.contains s with
    | some fx => .found fx
    | none => .unknown s
  | .type s =>
    match d.fields.find? fun fx => fx.f.ext && fx.textNames.contains (bracket s) with
    | some fx => .found fx
    | none => if X.extNames.contains (bracket s) then .badExt else .unknown []
  | .number n =>
    if !(1 ≤ n && n ≤ maxValidNumber) then .badNum
    else if d.fields.any (·.f.num == n) then .byNumber
    else .unknown []

def lower (b : Byte) : Byte := if 0x41 ≤ b.toNat ∧ b.toNat ≤ 0x5a then b + 0x20#8 else b

/-- `floatLits[strings.ToLower(raw)]` -/
def floatLit (raw : Str) : Option (Nat × Nat) :=
  let l := raw.map lower
  if l = sNan then some (nan32, nan64)
  else if l = sInfT || l = sInfinityT then some (inf32, inf64)
  else if l = sNegInfT || l = sNegInfinityT then some (ninf32, ninf64)
  else none

/-- `boolLits` -/
def boolLit (raw : Str) : Option Bool :=
  if raw = sT || raw = sTrue || raw = sTrueC then some true
  else if raw = sF || raw = sFalse || raw = sFalseC then some false
  else none

def dash : Byte := 0x2d#8

/-- prototext `unmarshalScalar` on a `text.Scalar` token -/
def tdTok (C : TCodec) (fx : FieldX) (t : TTok) : Except Err Val :=
  match fx.f.kind with
  | .bool =>
    (match t with
     | .lit raw => (match boolLit raw with | some b => .ok (.num (if b then 1 else 0)) | none => .error .value)
     | .num raw => (match C.numBool raw with | some b => .ok (.num (if b then 1 else 0)) | none => .error .value)
     | .str _ => .error .value)
  | .int32 | .sint32 | .sfixed32 | .int64 | .sint64 | .sfixed64 =>
    (match t with
     | .num raw => (match C.numInt raw with
                    | some i => if inRange fx.f.kind i then .ok (.num (unsigned64 i)) else .error .value
                    | none => .error .value)
     | _ => .error .value)
  | .uint32 | .fixed32 | .uint64 | .fixed64 =>
    (match t with
     | .num raw => (match C.numUint raw with
                    | some n => if inRange fx.f.kind (n : Int) then .ok (.num n) else .error .value
                    | none => .error .value)
     | _ => .error .value)
  | .float =>
    (match t with
     | .lit raw => (match floatLit raw with | some (b, _) => .ok (.num b) | none => .error .value)
     | .num raw => (match C.numF32 raw with | some b => .ok (.num b) | none => .error .value)
     | .str _ => .error .value)
  | .double =>
    (match t with
     | .lit raw => (match floatLit raw with | some (_, b) => .ok (.num b) | none => .error .value)
     | .num raw => (match C.numF64 raw with | some b => .ok (.num b) | none => .error .value)
     | .str _ => .error .value)
  | .string =>
    (match t with
     | .str s => if fx.f.utf8 && !utf8Valid s then .error .utf8 else .ok (.bytes s)
     | _ => .error .value)
  | .bytes =>
    (match t with
     | .str s => .ok (.bytes s)
     | _ => .error .value)
  | .enum =>
    -- `tok.Enum()` (a literal not starting with '-') looked up by name, else `tok.Int32()`
    (match t with
     | .lit raw =>
       if raw.head? == some dash then .error .value
       else (match byName fx.enums raw with
             | some i => .ok (.num (unsigned64 i))
             | none => .error .value)
     | .num raw => (match C.numInt raw with
                    | some i => if inRange .enum i then .ok (.num (unsigned64 i)) else .error .value
                    | none => .error .value)
     | .str _ => .error .value)
  | .message | .group => .error .panic     -- `panic("invalid scalar kind")`

/-- `unmarshalScalar` on a value: anything but a scalar token is "unexpected token" -/
def tdScalar (C : TCodec) (fx : FieldX) : TV → Except Err Val
  | .scalar t => tdTok C fx t
  | _ => .error .syntax

/-! ### `skipValue` / `skipMessageValue`: skipped messages count towards the recursion limit like parsed ones
(since /repo 5d21ab7, the repair of DESIGN finding 10; the result of `skipValue` is returned by all callers) -/

mutual
/-- prototext `skipValue` -/
def skipT (limit : Int) : TV → Except Err Unit
  | .scalar _ => .ok ()
  | .msg fs => if limit - 1 < 0 then .error .depth else skipTFields (limit - 1) fs
  | .list es => skipTElems limit es
/-- `skipMessageValue` after its `RecursionLimit--` check -/
def skipTFields (limit : Int) : TFields → Except Err Unit
  | .nil => .ok ()
  | .cons _ _ v tl =>
    match skipT limit v with
    | .error e => .error e
    | .ok _ => skipTFields limit tl
def skipTElems (limit : Int) : TElems → Except Err Unit
  | .nil => .ok ()
  | .cons v tl =>
    match v with
    | .msg fs =>
      if limit - 1 < 0 then .error .depth else
      (match skipTFields (limit - 1) fs with
       | .error e => .error e
       | .ok _ => skipTElems limit tl)
    | .scalar _ => skipTElems limit tl
    | .list _ => skipTElems limit tl
end

/-! ### HISTORICAL: `skipValue` before /repo 5d21ab7 (DESIGN finding 10) — no recursion limit.  Not used by the
model of the current code; kept for the labelled regression examples `C26.Old.old_*` only. -/

mutual
/-- prototext `skipValue` as it was: **no recursion limit** -/
def skipTOld : TV → Except Err Unit
  | .scalar _ => .ok ()
  | .msg fs => skipTFieldsOld fs
  | .list es => skipTElemsOld es
/-- `skipMessageValue` as it was -/
def skipTFieldsOld : TFields → Except Err Unit
  | .nil => .ok ()
  | .cons _ _ v tl =>
    match skipTOld v with
    | .error e => .error e
    | .ok _ => skipTFieldsOld tl
def skipTElemsOld : TElems → Except Err Unit
  | .nil => .ok ()
  | .cons v tl =>
    match v with
    | .msg fs =>
      (match skipTFieldsOld fs with
       | .error e => .error e
       | .ok _ => skipTElemsOld tl)
    | .scalar _ => skipTElemsOld tl
    | .list _ => skipTElemsOld tl
end

/-- prototext `unmarshalMessage`, one iteration up to the value: name lookup, unknown / reserved names
(the value is skipped), separator rule, `seenOneofs`, `seenNums` (singular fields only; the number is
recorded after the value has been read, which is the same thing when an error aborts everything) -/
def tdHead (D : DOpts) (X : SchemaX) (d : MsgX) (limit : Int) (name : TName) (sep : Bool) (v : TV) (sn so : Ints) : Head :=
  match resolveText X d name with
  | .badNum => .error .badNum
  | .badExt => .error .badExt
  | .byNumber => .error .byNumber
  | .unknown s =>
    if D.discard || d.reserved.contains s then
      -- `if err := d.skipValue(); err != nil { return err }; continue`
      match skipT limit v with
      | .error e => .error e
      | .ok _ => .skip sn
    else .error .unknown
  | .found fx =>
    match fx.f.card with
    | .repeated => if !fx.f.kind.isMessage && !sep then .error .noSep else .value fx sn so
    | .map => .value fx sn so
    | _ =>
      if !fx.f.kind.isMessage && !sep then .error .noSep else
      match fx.oneofIdx with
      | some o =>
        if so.has o then .error .dupOneof
        else if sn.has fx.f.num then .error .dup else .value fx (sn.set fx.f.num) (so.set o)
      | none => if sn.has fx.f.num then .error .dup else .value fx (sn.set fx.f.num) so

/-- state of `unmarshalMapEntry` -/
structure EntrySt where
  key : Option Val := none
  val : Option Val := none

/-- what `unmarshalMapEntry` decides about one field of the entry before reading its value -/
inductive EHead where
  | error (e : Err)
  | skip                       -- unknown entry field with DiscardUnknown: the value is skipped
  | key (kf : FieldX)
  | valMsg (vf : FieldX)
  | valScalar (vf : FieldX)

/-- an unknown field inside a map entry -/
def entryUnknown (D : DOpts) (limit : Int) (v : TV) : EHead :=
  if !D.discard then .error .unknown
  else
    match skipT limit v with
    | .error e => .error e
    | .ok _ => .skip

def tdEntryHead (D : DOpts) (ed : MsgX) (limit : Int) (name : TName) (sep : Bool) (v : TV) (st : EntrySt) : EHead :=
  match ed.find 1, ed.find 2 with
  | some kf, some vf =>
    (match name with
     | .ident s =>
       if s = sKey then
         if !sep then .error .noSep
         else if st.key.isSome then .error .dupEntry
         else .key kf
       else if s = sValue then
         if !vf.f.kind.isMessage && !sep then .error .noSep
         else if st.val.isSome then .error .dupEntry
         else if vf.f.kind.isMessage then .valMsg vf else .valScalar vf
       else entryUnknown D limit v
     | .type _ => entryUnknown D limit v
     | .number _ => entryUnknown D limit v)
  | _, _ => .error .delegated

mutual
/-- prototext `unmarshalMessage(…, checkDelims = true)` on a field value;
`limit` is `d.opts.RecursionLimit` on entry -/
def tdMsgV (C : TCodec) (D : DOpts) (X : SchemaX) (mi : Nat) (limit : Int) : TV → Except Err Msg
  | .msg fs =>
    if limit - 1 < 0 then .error .depth
    else if (X.msg mi).any then .error .delegated
    else tdFields C D X mi (limit - 1) fs {} {} Msg.empty
  | _ =>
    if limit - 1 < 0 then .error .depth
    else if (X.msg mi).any then .error .delegated
    else .error .syntax
/-- the field loop -/
def tdFields (C : TCodec) (D : DOpts) (X : SchemaX) (mi : Nat) (limit : Int) :
    TFields → Ints → Ints → Msg → Except Err Msg
  | .nil, _, _, m => .ok m
  | .cons name sep v tl, sn, so, m =>
    match tdHead D X (X.msg mi) limit name sep v sn so with
    | .error e => .error e
    | .skip sn' => tdFields C D X mi limit tl sn' so m
    | .value fx sn' so' =>
      match (match fx.f.card with
             | .repeated => storeList m fx (tdList C D X fx limit v)
             | .map => storeMap m fx (tdMap C D X fx limit (curVals m.fields fx.f.num) v)
             | _ =>
               if fx.f.kind.isMessage then storeMsg (X.msg mi) m fx (tdMsgV C D X fx.f.sub limit v)
               else storeScalar (X.msg mi) m fx ((tdScalar C fx v).map some)) with
      | .error e => .error e
      | .ok m' => tdFields C D X mi limit tl sn' so' m'
/-- `unmarshalList`: `[a, b]` or a single value -/
def tdList (C : TCodec) (D : DOpts) (X : SchemaX) (fx : FieldX) (limit : Int) : TV → Except Err Vals
  | .list es => tdElems C D X fx limit es
  | .msg fs =>
    if fx.f.kind.isMessage then
      if limit - 1 < 0 then .error .depth
      else if (X.msg fx.f.sub).any then .error .delegated
      else (tdFields C D X fx.f.sub (limit - 1) fs {} {} Msg.empty).map fun sub => Vals.cons (.msg sub) .nil
    else .error .syntax
  | .scalar t =>
    if fx.f.kind.isMessage then .error .syntax
    else (tdTok C fx t).map fun x => Vals.cons x .nil
def tdElems (C : TCodec) (D : DOpts) (X : SchemaX) (fx : FieldX) (limit : Int) : TElems → Except Err Vals
  | .nil => .ok .nil
  | .cons v tl =>
    if fx.f.kind.isMessage then
      match v with
      | .msg fs =>
        if limit - 1 < 0 then .error .depth
        else if (X.msg fx.f.sub).any then .error .delegated
        else (match tdFields C D X fx.f.sub (limit - 1) fs {} {} Msg.empty with
         | .error e => .error e
         | .ok sub => (tdElems C D X fx limit tl).map (Vals.cons (.msg sub)))
      | .scalar _ => .error .syntax
      | .list _ => .error .syntax
    else
      match v with
      | .scalar t =>
        (match tdTok C fx t with
         | .error e => .error e
         | .ok x => (tdElems C D X fx limit tl).map (Vals.cons x))
      | .msg _ => .error .syntax
      | .list _ => .error .syntax
/-- `unmarshalMap`: the limit is decremented **once per map field occurrence** -/
def tdMap (C : TCodec) (D : DOpts) (X : SchemaX) (fx : FieldX) (limit : Int) (cur : Vals) : TV → Except Err Vals
  | .msg fs =>
    if limit - 1 < 0 then .error .depth
    else match tdEntry C D X fx (limit - 1) fs {} with
      | .error e => .error e
      | .ok (k, x) => .ok (mapPut cur k (mkEntry k x))
  | .list es =>
    if limit - 1 < 0 then .error .depth
    else tdEntryList C D X fx (limit - 1) es cur
  | .scalar _ =>
    if limit - 1 < 0 then .error .depth else .error .syntax
def tdEntryList (C : TCodec) (D : DOpts) (X : SchemaX) (fx : FieldX) (limit : Int) : TElems → Vals → Except Err Vals
  | .nil, cur => .ok cur
  | .cons v tl, cur =>
    match v with
    | .msg fs =>
      (match tdEntry C D X fx limit fs {} with
       | .error e => .error e
       | .ok (k, x) => tdEntryList C D X fx limit tl (mapPut cur k (mkEntry k x)))
    | .scalar _ => .error .syntax
    | .list _ => .error .syntax
/-- `unmarshalMapEntry`: returns key and value (defaults filled in) -/
def tdEntry (C : TCodec) (D : DOpts) (X : SchemaX) (fx : FieldX) (limit : Int) : TFields → EntrySt → Except Err (Val × Val)
  | .nil, st =>
    match (X.msg fx.f.sub).find 1, (X.msg fx.f.sub).find 2 with
    | some kf, some vf =>
      .ok (st.key.getD (defaultScalar kf.f),
           st.val.getD (if vf.f.kind.isMessage then .msg Msg.empty else defaultScalar vf.f))
    | _, _ => .error .delegated
  | .cons name sep v tl, st =>
    match tdEntryHead D (X.msg fx.f.sub) limit name sep v st with
    | .error e => .error e
    | .skip => tdEntry C D X fx limit tl st
    | .key kf =>
      (match tdScalar C kf v with
       | .error e => .error e
       | .ok k => tdEntry C D X fx limit tl { st with key := some k })
    | .valMsg vf =>
      (match tdMsgV C D X vf.f.sub limit v with
       | .error e => .error e
       | .ok sub => tdEntry C D X fx limit tl { st with val := some (.msg sub) })
    | .valScalar vf =>
      (match tdScalar C vf v with
       | .error e => .error e
       | .ok x => tdEntry C D X fx limit tl { st with val := some x })
end

/-- the value of a resolved, accepted field stored into `m`: what `tdFields` does with `.value` -/
def tdFieldVal (C : TCodec) (D : DOpts) (X : SchemaX) (mi : Nat) (fx : FieldX) (limit : Int) (m : Msg) (v : TV) : Except Err Msg :=
  match fx.f.card with
  | .repeated => storeList m fx (tdList C D X fx limit v)
  | .map => storeMap m fx (tdMap C D X fx limit (curVals m.fields fx.f.num) v)
  | _ =>
    if fx.f.kind.isMessage then storeMsg (X.msg mi) m fx (tdMsgV C D X fx.f.sub limit v)
    else storeScalar (X.msg mi) m fx ((tdScalar C fx v).map some)

/-- `prototext.UnmarshalOptions{RecursionLimit: limit, DiscardUnknown: …}.Unmarshal` at tree level:
the top-level message has no delimiters -/
def fromText (C : TCodec) (D : DOpts) (X : SchemaX) (mi : Nat) (limit : Int) (fs : TFields) : Except Err Msg :=
  tdMsgV C D X mi limit (.msg fs)

end JT
