import PbVerif.Model.Msg
/-
Lazy decoding (internal/impl/lazy.go: unmarshalPointerLazy, skipField, lazyUnmarshal,
unmarshalField; internal/protolazy/lazy.go: the index) on top of the abstract message model.

A lazily decoded message = the eagerly decoded part (`base`: every record that is not a deferred
record of a lazy field — including the records that went to the unknown fields) + the deferred
records of lazy fields (`pend`: field number and raw submessage payload, in input order).

What is modelled of validation (`MessageInfo.validate`): a record of a lazy field is deferred when
`protowire.ConsumeBytes` succeeds on it and *the eager decode of its payload into an empty submessage
succeeds within the remaining recursion budget* (ValidationValid); if that decode fails, Unmarshal
fails with its error (ValidationInvalid); a wrong wire type sends the record to the unknown fields
(ValidationWrongWireType).  ValidationUnknown (validator cannot decide → eager fallback for that
field) is not modelled: the model validator is total.  That impl.Validate agrees with Unmarshal is
what C06's correspondence stream compares.
Lazy fields are singular length-delimited message fields outside oneofs (`isLazyField`).
Core-only.
-/
namespace Pb
open Spec (Byte decTag decBytes)

structure LMsg where
  base : Msg
  pend : List (Nat × List Byte)

def LMsg.empty : LMsg := ⟨Msg.empty, []⟩

/-- `f.isLazy`: selected by `lazy`, singular, kind message (not group), not a oneof member -/
def isLazyField (lazy : Nat → Bool) (f : Field) : Bool :=
  lazy f.num && f.kind == .message && f.card != .repeated && f.card != .map && f.oneof.isNone

/-- one iteration of the eager record loop (`decMsg`): the updated message and the rest of the buffer -/
def decOne (fuel : Nat) (S : Schema) (mi : Nat) (m : Msg) (b : List Byte) (num wt tagLen : Nat) (depth : Int)
    (discard : Bool) : Except DErr (Msg × List Byte) :=
  let val := b.drop tagLen
  let step : Step :=
    match (S.msg mi).find num with
    | none => .unknown
    | some f => decField fuel S mi m f wt val depth discard
  match step with
  | .err e => .error e
  | .ok m' =>
    match Spec.consumeFieldValue num wt val with
    | .error _ => .error .decode
    | .ok n => .ok (m', val.drop n)
  | .unknown =>
    match Spec.consumeFieldValue num wt val with
    | .error _ => .error .decode
    | .ok n => .ok (if discard then m else Msg.mk m.fields (m.unknown ++ b.take (tagLen + n)), val.drop n)

/-- `unmarshalPointerLazy` with `lazyDecode = true` (the destination is empty) -/
def decLazyLoop : Nat → Schema → Nat → (Nat → Bool) → LMsg → List Byte → Int → Bool → Except DErr LMsg
  | 0, _, _, _, _, _, _, _ => .error .fuel
  | fuel + 1, S, mi, lazy, l, b, depth, discard =>
    match b with
    | [] => .ok l
    | _ =>
      match decTag b with
      | .error _ => .error .decode
      | .ok (num, wt, tagLen) =>
        if num > maxValidNumber then .error .decode else
        let val := b.drop tagLen
        let deferred : Option Field :=
          match (S.msg mi).find num with
          | some f => if isLazyField lazy f && wt == 2 then some f else none
          | none => none
        match deferred with
        | some f =>
          -- skipField: ConsumeBytes, then validate the payload
          match decBytes val with
          | .error _ => .error .decode
          | .ok (p, n) =>
            if depth - 1 < 0 then .error .depth else
            match decMsg fuel S f.sub Msg.empty p (depth - 1) discard with
            | .error e => .error e
            | .ok _ => decLazyLoop fuel S mi lazy ⟨l.base, l.pend ++ [(num, p)]⟩ (val.drop n) depth discard
        | none =>
          match decOne fuel S mi l.base b num wt tagLen depth discard with
          | .error e => .error e
          | .ok (m', rest) => decLazyLoop fuel S mi lazy ⟨m', l.pend⟩ rest depth discard

/-- `Unmarshal` with lazy decoding allowed, into an empty message -/
def decLazy (S : Schema) (mi : Nat) (lazy : Nat → Bool) (b : List Byte) (limit : Int := 10000) (discard : Bool := false) :
    Except DErr LMsg :=
  if limit - 1 < 0 then .error .depth
  else decLazyLoop (fuelFor b) S mi lazy LMsg.empty b (limit - 1) discard

/-! ### forcing (lazyUnmarshal / unmarshalField) -/

/-- payloads of the deferred records of field `k`, in input order -/
def occurrences (pend : List (Nat × List Byte)) (k : Nat) : List (List Byte) :=
  (pend.filter (·.1 == k)).map (·.2)

/-- decode the occurrences in order, each merging into the submessage built so far -/
def decodeOcc (S : Schema) (sub : Nat) (depth : Int) (discard : Bool) : List (List Byte) → Msg → Except DErr Msg
  | [], acc => .ok acc
  | p :: ps, acc =>
    match decMsg (fuelFor p) S sub acc p depth discard with
    | .error e => .error e
    | .ok acc' => decodeOcc S sub depth discard ps acc'

/-- field numbers with deferred records, each once (order of first occurrence) -/
def pendNums (pend : List (Nat × List Byte)) : List Nat := (pend.map (·.1)).eraseDups

/-- `lazyUnmarshal(num)`: materialise field `k` from its deferred records -/
def forceField (S : Schema) (mi : Nat) (depth : Int) (discard : Bool) (pend : List (Nat × List Byte)) (m : Msg) (k : Nat) :
    Except DErr Msg :=
  match (S.msg mi).find k with
  | none => .ok m
  | some f =>
    match decodeOcc S f.sub (depth - 1) discard (occurrences pend k) Msg.empty with
    | .error e => .error e
    | .ok sub => .ok (.mk (m.fields.set k (.one (.msg sub))) m.unknown)

def forceAll (S : Schema) (mi : Nat) (depth : Int) (discard : Bool) (pend : List (Nat × List Byte)) :
    List Nat → Msg → Except DErr Msg
  | [], m => .ok m
  | k :: ks, m =>
    match forceField S mi depth discard pend m k with
    | .error e => .error e
    | .ok m' => forceAll S mi depth discard pend ks m'

/-- access every lazy field: the fully decoded message.  Every observer (getters, Has, Range, Equal,
CheckInitialized, Marshal, JSON/text) of a lazily decoded message is by definition the observer of
the eager model applied to `force` — accessing a field forces it first. -/
def force (S : Schema) (mi : Nat) (l : LMsg) (limit : Int := 10000) (discard : Bool := false) : Except DErr Msg :=
  forceAll S mi (limit - 1) discard l.pend (pendNums l.pend) l.base

/-! ### the lazy index (protolazy.IndexEntry, built in unmarshalPointerLazy) -/

structure IndexEntry where
  num : Nat
  start : Nat
  stop : Nat
  deriving DecidableEq, Repr

/-- how the record loop treated a record -/
inductive RecKind where
  | deferred      -- record of a lazy field, validated and skipped
  | lazyUnknown   -- record of a lazy field that went to the unknown fields (wrong wire type)
  | other         -- any other record
  deriving DecidableEq, Repr

/-- the records of the input, in order: field number, total length (tag + value), treatment -/
abbrev LRec := Nat × Nat × RecKind

/-- loop state: index so far (reversed), lastNum, splitIndex, pos -/
def indexStep (st : List IndexEntry × Nat × Bool × Nat) (r : LRec) : List IndexEntry × Nat × Bool × Nat :=
  let (idx, lastNum, split, pos) := st
  let (num, len, kind) := r
  let stop := pos + len
  match kind with
  | .lazyUnknown => (idx, num, true, stop)
  | .deferred =>
    if num ≠ lastNum || split then (⟨num, pos, stop⟩ :: idx, num, false, stop)
    else
      match idx with
      | e :: tl => (⟨e.num, e.start, stop⟩ :: tl, num, false, stop)
      | [] => (⟨num, pos, stop⟩ :: idx, num, false, stop)   -- unreachable: lastNum starts at 0, numbers are ≥ 1
  | .other => (idx, num, split, stop)

def idxLess (a b : IndexEntry) : Bool := a.num < b.num || (a.num == b.num && a.start < b.start)

def insEntry (e : IndexEntry) : List IndexEntry → List IndexEntry
  | [] => [e]
  | x :: tl => if idxLess e x then e :: x :: tl else x :: insEntry e tl

/-- `sort.Slice` by (FieldNum, Start): keys are pairwise distinct, so every sorting algorithm
returns this list -/
def sortIndex : List IndexEntry → List IndexEntry
  | [] => []
  | e :: tl => insEntry e (sortIndex tl)

/-- index built by the record loop, in input order -/
def rawIndex (rs : List LRec) : List IndexEntry := (rs.foldl indexStep ([], 0, false, 0)).1.reverse

/-- `SetIndex`: sorted (the code sorts only when the input was out of order; sorting an in-order
index changes nothing) -/
def buildIndex (rs : List LRec) : List IndexEntry := sortIndex (rawIndex rs)

/-- `FindFieldInProto`: the byte ranges recorded for field `k`, in index order -/
def lookup (idx : List IndexEntry) (k : Nat) : List (Nat × Nat) :=
  (idx.filter (·.num == k)).map fun e => (e.start, e.stop)

end Pb
