import PbVerif.Driver.Util
import PbVerif.Model.TextStrUnknown
/- `pbmodel_textstr`: executes Model.Utf8, Model.TextStr and Model.TextStr.Unknown on request lines.

  append <hex> <0|1>        appendString(nil, s, ascii)            → <hex> | panic
  parse <hex>               (*Decoder).parseString on d.in = hex   → ok <value hex> <len(rest)> | eof | syntax
  parsev <hex>              (*Decoder).parseStringValue            → ok <value hex> <len(rest)> | eof | syntax
  decoderune <hex>          utf8.DecodeRune                        → <rune> <size>
  encoderune <n>            utf8.AppendRune(nil, rune(n))          → <hex>
  valid <hex>               utf8.Valid                             → 0 | 1
  unknown <hex> <0|1>       prototext Marshal, EmitUnknown, of unknown fields <hex> (single line) → <hex> | panic
  skipws <hex>              consume(b, 0)                          → <len(rest)>
-/
open Driver Model.Utf8 Model.TextStr Model.TextStr.Unknown

def flag (s : String) : Option Bool :=
  if s == "1" then some true else if s == "0" then some false else none

def showRes : Model.TextStr.Res → String
  | .ok (v, rest) => s!"ok {hexOfBytes v} {rest.length}"
  | .error .eof => "eof"
  | .error .syntax => "syntax"

def textStep : List String → String
  | ["append", h, a] => match bytesOfHex h, flag a with
    | some s, some a => (match appendString s a with | some o => hexOfBytes o | none => "panic")
    | _, _ => "bad-op"
  | ["parse", h] => match bytesOfHex h with
    | some s => showRes (parseString s) | none => "bad-op"
  | ["parsev", h] => match bytesOfHex h with
    | some s => showRes (parseStringValue s) | none => "bad-op"
  | ["decoderune", h] => match bytesOfHex h with
    | some s => let d := decodeRune s; s!"{d.1} {d.2}" | none => "bad-op"
  | ["encoderune", n] => match n.toNat? with
    | some r => hexOfBytes (encodeRune r) | none => "bad-op"
  | ["valid", h] => match bytesOfHex h with
    | some s => (if valid s then "1" else "0") | none => "bad-op"
  | ["unknown", h, a] => match bytesOfHex h, flag a with
    | some s, some a => (match marshalUnknown s a with | some o => hexOfBytes o | none => "panic")
    | _, _ => "bad-op"
  | ["skipws", h] => match bytesOfHex h with
    | some s => toString (skipWs s).length | none => "bad-op"
  | _ => "bad-op"

def main : IO Unit := Driver.run textStep
