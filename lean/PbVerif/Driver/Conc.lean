import PbVerif.Driver.Util
import PbVerif.Model.ConcCode
/- `pbmodel_conc`: replays recorded event traces of the real code through the protocol models of
Model.Conc.  Traces are checked against the SAFE protocol variants — the ones the theorems of
Props/C18.lean and Props/C19.lean are about — so "accept" means: this execution is a run of the
proved protocol, and the theorems' conclusions hold for it.  `facts` reports which variants the
shape extractor selected from the current tree (Model.ConcCode).

  facts                                   → the selected variants
  lazy <ev>*                              → accept done=<n> cell=<id|nil> | reject <index>
      ev: P i b | N i b | D i obj | A i obj | M i | E i | C i won | L i obj       (b, won ∈ {0,1})
      D i obj = one LazyDecoded record: allocation of obj and the merge of ALL index entries (A i obj, M i …, E i);
      the number of entries is not recorded — the model is run with 2 (any number gives the same verdicts)
  lazyn <n> <ev>*                         → same, for a tree whose hooks record every merged index entry (verifhook.LazyEntry):
      the model is run with n entries; A i obj, one M i per LazyEntry record, E i at the LazyDecoded record — accepted only
      if entries 0..n-1 precede the LazyDecoded record and the CAS (do not use D here)
  lazyobs <present> <r>*                  → consistent | inconsistent <thread>
      the observations (returned object per reader, `nil` = none) are those of some run of the model
  dcl <msginfo|file|once> <n> <ev>*       → accept runs=<r> flag=<0|1> written=<k> done=<d> | reject <index>
      ev: F i hit | K i | R i hit | W i k | E i | S i | U i | G i
  reg <ndecl> <prog>* ; <thread>*         → accept log=<…> | reject <index>     (prog: r<f> | l)
-/
open Driver Conc Conc.Code

def bool? (s : String) : Option Bool := if s == "1" then some true else if s == "0" then some false else none

/-! ### lazy -/

/-- the proved protocol: CAS from nil, re-load, publication after all entries -/
def demoCfgN (present : Bool) (n : Nat) : Lazy.Cfg Unit Unit :=
  { publish := .cas, result := .reload, timing := .afterAll, present := present, buf := (), entries := n, decodeK := fun _ _ => () }

def demoCfg (present : Bool) : Lazy.Cfg Unit Unit := demoCfgN present 2

def parseLazy : List String → Option (List Lazy.Ev)
  | [] => some []
  | "P" :: i :: b :: r => do pure (.present (← i.toNat?) (← bool? b) :: (← parseLazy r))
  | "N" :: i :: b :: r => do pure (.checkNil (← i.toNat?) (← bool? b) :: (← parseLazy r))
  | "D" :: i :: o :: r => do pure (Lazy.decodeEvents (demoCfg true) (← i.toNat?) (← o.toNat?) ++ (← parseLazy r))
  | "A" :: i :: o :: r => do pure (.alloc (← i.toNat?) (← o.toNat?) :: (← parseLazy r))
  | "M" :: i :: r => do pure (.merge (← i.toNat?) :: (← parseLazy r))
  | "E" :: i :: r => do pure (.mergeEnd (← i.toNat?) :: (← parseLazy r))
  | "C" :: i :: b :: r => do pure (.publish (← i.toNat?) (← bool? b) :: (← parseLazy r))
  | "L" :: i :: o :: r => do pure (.load (← i.toNat?) (← o.toNat?) :: (← parseLazy r))
  | _ => none

def lazyThreads (tr : List Lazy.Ev) : List Nat :=
  (tr.map fun | .present i _ => i | .checkNil i _ => i | .alloc i _ => i | .merge i => i | .mergeEnd i => i
              | .publish i _ => i | .load i _ => i).eraseDups

def runLazy (n : Nat) (tr : List Lazy.Ev) : String :=
  -- the presence bit is whatever the first `P` event observed (it is constant during a read-only phase)
  let present := match tr.find? (fun | .present _ _ => true | _ => false) with
    | some (.present _ b) => b
    | _ => true
  let cfg := demoCfgN present n
  match Lazy.firstReject cfg Lazy.init tr 0 with
  | some k => s!"reject {k}"
  | none =>
    match Lazy.exec cfg Lazy.init tr with
    | none => "reject ?"
    | some s =>
      let done := (lazyThreads tr).filter fun i => match s.pc i with | .done _ => true | _ => false
      let cell := match s.cell with | some v => toString v | none => "nil"
      s!"accept done={done.length} cell={cell}"

/-- the canonical run with `n` readers: reader 0 decodes and wins, the others find the cell set -/
def canonical (present : Bool) (n : Nat) : List Lazy.Ev :=
  if present then
    (if n = 0 then [] else [.present 0 true, .checkNil 0 true] ++ Lazy.decodeEvents (demoCfg true) 0 0 ++ [.publish 0 true, .load 0 0]) ++
    ((List.range n).drop 1).flatMap fun i => [.present i true, .checkNil i false, .load i 0]
  else (List.range n).map fun i => .present i false

def runLazyObs (present : Bool) (obs : List (Option Nat)) : String :=
  let cfg := demoCfg present
  match Lazy.exec cfg Lazy.init (canonical present obs.length) with
  | none => "model-error"
  | some s =>
    let bad := (List.range obs.length).find? fun i =>
      match s.pc i, obs[i]? with
      | .done r, some o => r != o
      | _, _ => true
    match bad with
    | some i => s!"inconsistent {i}"
    | none => "consistent"

/-! ### dcl -/

def parseDcl : List String → Option (List Dcl.Ev)
  | [] => some []
  | "F" :: i :: b :: r => do pure (.fast (← i.toNat?) (← bool? b) :: (← parseDcl r))
  | "K" :: i :: r => do pure (.lock (← i.toNat?) :: (← parseDcl r))
  | "R" :: i :: b :: r => do pure (.recheck (← i.toNat?) (← bool? b) :: (← parseDcl r))
  | "W" :: i :: k :: r => do pure (.write (← i.toNat?) (← k.toNat?) :: (← parseDcl r))
  | "E" :: i :: r => do pure (.bodyEnd (← i.toNat?) :: (← parseDcl r))
  | "S" :: i :: r => do pure (.store (← i.toNat?) :: (← parseDcl r))
  | "U" :: i :: r => do pure (.unlock (← i.toNat?) :: (← parseDcl r))
  | "G" :: i :: r => do pure (.read (← i.toNat?) :: (← parseDcl r))
  | _ => none

def dclThreads (tr : List Dcl.Ev) : List Nat :=
  (tr.map fun | .fast i _ => i | .lock i => i | .recheck i _ => i | .write i _ => i | .bodyEnd i => i
              | .store i => i | .unlock i => i | .read i => i).eraseDups

/-- the proved shapes of the three initialisers (n body writes; File: n+1, the first sets L2) -/
def dclCfg? (which : String) (n : Nat) : Option Dcl.Cfg :=
  if which == "msginfo" || which == "once" then
    some { writes := n, recheck := .flag, storeOnHit := false, order := .bodyThenStore, locks := true }
  else if which == "file" then
    some { writes := n + 1, recheck := .started, storeOnHit := true, order := .bodyThenStore, locks := true }
  else none

def runDcl (cfg : Dcl.Cfg) (tr : List Dcl.Ev) : String :=
  match Dcl.firstReject cfg Dcl.init tr 0 with
  | some k => s!"reject {k}"
  | none =>
    match Dcl.exec cfg Dcl.init tr with
    | none => "reject ?"
    | some s =>
      let done := (dclThreads tr).filter fun i => match s.pc i with | .done o => o == Dcl.complete cfg | _ => false
      s!"accept runs={s.runs} flag={if s.flag then 1 else 0} written={s.data.length} done={done.length}"

/-! ### reg -/

def parseProg : List String → Option (List Reg.Op)
  | [] => some []
  | w :: r => do
    let op ← (if w == "l" then some Reg.Op.lookup
              else if w.startsWith "r" then (w.drop 1).toNat?.map Reg.Op.register else none)
    pure (op :: (← parseProg r))

def regFirstReject (cfg : Reg.Cfg) (s : Reg.State) : List Nat → Nat → Option Nat
  | [], _ => none
  | i :: is, k => match Reg.next cfg s i with
    | none => some k
    | some t => regFirstReject cfg t is (k + 1)

def showRes : Reg.Res → String
  | .ok => "ok" | .conflict => "conflict"
  | .snap t => s!"snap:{t.files.length}:{t.entries.length}"

def runReg (ndecl : Nat) (prog : List Reg.Op) (sched : List Nat) : String :=
  let cfg := regCfg (fun i => prog.getD i .lookup) (fun _ => ndecl)
  match regFirstReject cfg Reg.init sched 0 with
  | some k => s!"reject {k}"
  | none =>
    match Reg.exec cfg Reg.init sched with
    | none => "reject ?"
    | some s =>
      let res := (List.range prog.length).map fun i => match s.pc i with | .done r => showRes r | _ => "-"
      s!"accept log={" ".intercalate (s.log.map toString)} res={",".intercalate res}"

def splitAt (sep : String) (ws : List String) : List String × List String :=
  (ws.takeWhile (· != sep), (ws.dropWhile (· != sep)).drop 1)

def showOrder : Dcl.Order → String | .bodyThenStore => "bodyThenStore" | .storeThenBody => "storeThenBody"
def showRecheck : Dcl.Recheck → String | .flag => "flag" | .started => "started"
def showDcl (c : Dcl.Cfg) : String := s!"{showRecheck c.recheck}/{showOrder c.order}/locks={c.locks}/storeOnHit={c.storeOnHit}"

def concStep : List String → String
  | ["facts"] =>
    let pub := match lazyPublish with | .cas => "cas" | .store => "store"
    let res := match lazyResult with | .reload => "reload" | .mine => "mine"
    let leg := match legacyCachePublish with | .cas => "cas" | .store => "store"
    let ab := match aberrantPublish with | .never => "never" | .outermost => "outermost" | .nestedEarly => "nestedEarly"
    let tim := match lazyTiming with | .afterAll => "afterAll" | .insideLoop => "insideLoop"
    s!"lazy={pub}/{res}/{tim} legacy={leg} msginfo={showDcl (msgInfoCfg 0)} file={showDcl (fileCfg 0)} once={showDcl (onceCfg 0)} reg=locks:{(regCfg (fun _ => .lookup) (fun _ => 0)).readerLocks} aberrant={ab} extinfo={showDcl (extInfoCfg 0)}"
  | "lazy" :: evs => match parseLazy evs with
    | some tr => runLazy 2 tr
    | none => "bad-op"
  | "lazyn" :: n :: evs => match n.toNat?, parseLazy evs with
    | some n, some tr => runLazy n tr
    | _, _ => "bad-op"
  | "lazyobs" :: p :: obs => match bool? p, obs.mapM (fun w => if w == "nil" then some none else w.toNat?.map some) with
    | some p, some obs => runLazyObs p obs
    | _, _ => "bad-op"
  | "dcl" :: which :: n :: evs => match n.toNat?.bind (dclCfg? which), parseDcl evs with
    | some cfg, some tr => runDcl cfg tr
    | _, _ => "bad-op"
  | "reg" :: nd :: rest =>
    let (p, sch) := splitAt ";" rest
    match nd.toNat?, parseProg p, sch.mapM String.toNat? with
    | some nd, some prog, some sched => runReg nd prog sched
    | _, _, _ => "bad-op"
  | _ => "bad-op"

def main : IO Unit := Driver.run concStep
