import PbVerif.Driver.Util
import PbVerif.Gen.Wire
import PbVerif.Model.WireSpec
/- `pbmodel_wire`: executes Gen.Wire (translated from wire.go) for the leaf functions and the
specification scanner `Spec.*` (hand-written model of the looping consumeFieldValueD) on request
lines; `spec*` verbs expose the specification of the leaves too, so that the harness ties both
to the Go code. -/
open Driver Gen.Wire

def u64 (s : String) : Option (BitVec 64) := s.toNat?.map (BitVec.ofNat 64)
def i32 (s : String) : Option (BitVec 32) := s.toInt?.map (BitVec.ofInt 32)
def i8 (s : String) : Option (BitVec 8) := s.toInt?.map (BitVec.ofInt 8)

def showOpt {α} (f : α → String) : Option α → String
  | none => "panic"
  | some a => f a

def wireStep : List String → String
  | ["appendVarint", v] => match u64 v with
    | some v => hexOfBytes (appendVarint [] v) | none => "bad-op"
  | ["consumeVarint", h] => match bytesOfHex h with
    | some b => showOpt (fun (v, n) => s!"{v.toNat} {n.toInt}") (consumeVarint b) | none => "bad-op"
  | ["sizeVarint", v] => match u64 v with
    | some v => toString (sizeVarint v).toInt | none => "bad-op"
  | ["encodeZigZag", v] => match u64 v with
    | some v => toString (encodeZigZag v).toNat | none => "bad-op"
  | ["decodeZigZag", v] => match u64 v with
    | some v => toString (decodeZigZag v).toNat | none => "bad-op"
  | ["encodeBool", v] => toString (encodeBool (v == "1")).toNat
  | ["decodeBool", v] => match u64 v with
    | some v => (if decodeBool v then "1" else "0") | none => "bad-op"
  | ["encodeTag", n, t] => match i32 n, i8 t with
    | some n, some t => toString (encodeTag n t).toNat | _, _ => "bad-op"
  | ["decodeTag", x] => match u64 x with
    | some x => let (n, t) := decodeTag x; s!"{n.toInt} {t.toInt}" | none => "bad-op"
  | ["isValid", n] => match i32 n with
    | some n => (if number_IsValid n then "1" else "0") | none => "bad-op"
  | ["appendFixed32", v] => match v.toNat? with
    | some v => hexOfBytes (appendFixed32 [] (BitVec.ofNat 32 v)) | none => "bad-op"
  | ["appendFixed64", v] => match u64 v with
    | some v => hexOfBytes (appendFixed64 [] v) | none => "bad-op"
  | ["consumeFixed32", h] => match bytesOfHex h with
    | some b => showOpt (fun (v, n) => s!"{v.toNat} {n.toInt}") (consumeFixed32 b) | none => "bad-op"
  | ["consumeFixed64", h] => match bytesOfHex h with
    | some b => showOpt (fun (v, n) => s!"{v.toNat} {n.toInt}") (consumeFixed64 b) | none => "bad-op"
  | ["appendBytes", h] => match bytesOfHex h with
    | some b => hexOfBytes (appendBytes [] b) | none => "bad-op"
  | ["consumeBytes", h] => match bytesOfHex h with
    | some b => showOpt (fun (v, n) => s!"{hexOfBytes v} {n.toInt}") (consumeBytes b) | none => "bad-op"
  | ["sizeBytes", n] => match u64 n with
    | some n => toString (sizeBytes n).toInt | none => "bad-op"
  | ["sizeTag", n] => match i32 n with
    | some n => toString (sizeTag n).toInt | none => "bad-op"
  | ["sizeGroup", n, k] => match i32 n, u64 k with
    | some n, some k => toString (sizeGroup n k).toInt | _, _ => "bad-op"
  | ["appendTag", n, t] => match i32 n, i8 t with
    | some n, some t => hexOfBytes (appendTag [] n t) | _, _ => "bad-op"
  | ["consumeTag", h] => match bytesOfHex h with
    | some b => showOpt (fun (num, typ, n) => s!"{num.toInt} {typ.toInt} {n.toInt}") (consumeTag b) | none => "bad-op"
  | ["appendGroup", n, h] => match i32 n, bytesOfHex h with
    | some n, some b => hexOfBytes (appendGroup [] n b) | _, _ => "bad-op"
  | ["consumeField", h] => match bytesOfHex h with
    | some b => (match Spec.consumeField b with
      | .ok (num, typ, n) => s!"{num} {typ} {n}"
      | .error e => s!"0 0 {e.code}")
    | none => "bad-op"
  | ["consumeFieldValue", n, t, h] => match n.toNat?, t.toNat?, bytesOfHex h with
    | some n, some t, some b => (match Spec.consumeFieldValue n t b with
      | .ok m => toString m
      | .error e => toString e.code)
    | _, _, _ => "bad-op"
  | ["consumeGroup", n, h] => match n.toNat?, bytesOfHex h with
    | some n, some b => (match Spec.consumeGroup n b with
      | .ok (v, m) => s!"{hexOfBytes v} {m}"
      | .error e => s!"- {e.code}")
    | _, _ => "bad-op"
  | ["specVarint", h] => match bytesOfHex h with
    | some b => (match Spec.decVarint b with
      | .ok (v, n) => s!"{v} {n}"
      | .error e => s!"0 {e.code}")
    | none => "bad-op"
  | ["specTag", h] => match bytesOfHex h with
    | some b => (match Spec.decTag b with
      | .ok (num, typ, n) => s!"{num} {typ} {n}"
      | .error e => s!"0 0 {e.code}")
    | none => "bad-op"
  | ["specBytes", h] => match bytesOfHex h with
    | some b => (match Spec.decBytes b with
      | .ok (p, n) => s!"{hexOfBytes p} {n}"
      | .error e => s!"- {e.code}")
    | none => "bad-op"
  | ["specEncVarint", v] => match v.toNat? with
    | some v => hexOfBytes (Spec.encVarint v)
    | none => "bad-op"
  | ["errCodes"] => s!"{errCodeTruncated} {errCodeFieldNumber} {errCodeOverflow} {errCodeReserved} {errCodeEndGroup} {errCodeRecursionDepth} {defaultRecursionLimit}"
  | _ => "bad-op"

def main : IO Unit := Driver.run wireStep
