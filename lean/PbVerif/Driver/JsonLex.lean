import PbVerif.Driver.Util
import PbVerif.Model.JsonLex
/- `pbmodel_jsonlex`: executes Model.JsonLex on request lines (see go/harness/jsonlex/main.go). -/
open Driver JsonLex

namespace JsonLexDriver

def hx (b : Bytes) : String := hexOfBytes b

def showErr : Err → String
  | .eof => "eof"
  | .syntax => "syntax"

def showTok (t : Token) : String :=
  match t.kind with
  | .null => "n"
  | .bool => if t.boo then "t" else "f"
  | .number => "#" ++ hx t.raw
  | .string => "s" ++ hx t.str
  | .name => "k" ++ hx t.str
  | .objOpen => "{"
  | .objClose => "}"
  | .arrOpen => "["
  | .arrClose => "]"
  | .eof => "E"
  | .comma => ","
  | .none => "?"

def showToks (ts : List Token) : String := " ".intercalate (ts.map showTok)

def join (a b : String) : String := if a.isEmpty then b else a ++ " " ++ b

/-- `n` `T` `F` `s<hex>` `i<int>` `u<nat>` `r<hex>` `{` `}` `k<hex>` `[` `]` -/
def parseOp (w : String) : Option Op :=
  match w.toList with
  | ['n'] => some .null
  | ['T'] => some (.bool true)
  | ['F'] => some (.bool false)
  | ['{'] => some .startObject
  | ['}'] => some .endObject
  | ['['] => some .startArray
  | [']'] => some .endArray
  | 's' :: r => (bytesOfHex (String.ofList r)).map .str
  | 'k' :: r => (bytesOfHex (String.ofList r)).map .name
  | 'r' :: r => (bytesOfHex (String.ofList r)).map .float
  | 'i' :: r => (String.ofList r).toInt?.map .int
  | 'u' :: r => (String.ofList r).toNat?.map .uint
  | _ => none

def parseOps : List String → Option (List Op)
  | [] => some []
  | w :: ws => do
    let o ← parseOp w
    let r ← parseOps ws
    pure (o :: r)

def bool01 (b : Bool) : String := if b then "1" else "0"

/-- the token `unmarshalScalar` reads for the JSON value text `text` when it is followed by `}` -/
def scalarTokOf (text : Bytes) : ScalarTok :=
  match parseNext (text ++ [0x7d#8]) with
  | .ok (tok, rest) =>
    if rest ≠ [0x7d#8] then .other
    else if tok.kind = .number then .number tok.raw
    else if tok.kind = .string then .string tok.str
    else .other
  | .error _ => .other

def step : List String → String
  | ["fieldint", bits, h] => match bits.toNat?, bytesOfHex h with
    | some n, some b => (match unmarshalInt n (scalarTokOf b) with | some v => toString v | none => "none")
    | _, _ => "bad-op"
  | ["fielduint", bits, h] => match bits.toNat?, bytesOfHex h with
    | some n, some b => (match unmarshalUint n (scalarTokOf b) with | some v => toString v | none => "none")
    | _, _ => "bad-op"
  | ["parsenumber", h] => match bytesOfHex h with
    | some b => (match parseNumber b with | some n => toString n | none => "none")
    | none => "bad-op"
  | "parsenumbers" :: hs =>
    " ".intercalate (hs.map fun h => match bytesOfHex h with
      | some b => (match parseNumber b with | some n => toString n | none => "none")
      | none => "bad-op")
  | ["numall", h] => match bytesOfHex h with
    -- parseNumber on s followed by each of `,` `]` `}` space, nothing, `a`; then the two grammar voices on s
    | some b =>
      let one (d : Bytes) : String := match parseNumber (b ++ d) with | some n => toString n | none => "none"
      " ".intercalate [one [0x2c#8], one [0x5d#8], one [0x7d#8], one [0x20#8], one [], one [0x61#8],
        bool01 (parseNumber b == some b.length) ++ bool01 (Ref.isNumber b)]
    | none => "bad-op"
  | ["parts", h] => match bytesOfHex h with
    | some b => (match parseNumberParts b with
      | some p => s!"{bool01 p.neg} {hx p.intp} {hx p.frac} {hx p.exp}"
      | none => "none")
    | none => "bad-op"
  | ["intstr", h] => match bytesOfHex h with
    | some b => (match getIntStr b with | some s => hx s | none => "none")
    | none => "bad-op"
  | ["int", bits, h] => match bits.toNat?, bytesOfHex h with
    | some n, some b => (match tokenInt n b with | some v => toString v | none => "none")
    | _, _ => "bad-op"
  | ["uint", bits, h] => match bits.toNat?, bytesOfHex h with
    | some n, some b => (match tokenUint n b with | some v => toString v | none => "none")
    | _, _ => "bad-op"
  | ["qint", bits, h] => match bits.toNat?, bytesOfHex h with
    | some n, some b => (match unmarshalInt n (.string b) with | some v => toString v | none => "none")
    | _, _ => "bad-op"
  | ["quint", bits, h] => match bits.toNat?, bytesOfHex h with
    | some n, some b => (match unmarshalUint n (.string b) with | some v => toString v | none => "none")
    | _, _ => "bad-op"
  | ["parseint", bits, h] => match bits.toNat?, bytesOfHex h with
    | some n, some b => (match parseIntBits n b with | some v => toString v | none => "none")
    | _, _ => "bad-op"
  | ["parseuint", bits, h] => match bits.toNat?, bytesOfHex h with
    | some n, some b => (match parseUintBits n b with | some v => toString v | none => "none")
    | _, _ => "bad-op"
  | ["trimspace", h] => match bytesOfHex h with
    | some b => bool01 (trimSpaceUnchanged b)
    | none => "bad-op"
  | ["parsestring", h] => match bytesOfHex h with
    | some b => (match parseString b with
      | .ok (s, n) => s!"ok {hx s} {n}"
      | .error e => showErr e)
    | none => "bad-op"
  | ["decoderune", h] => match bytesOfHex h with
    | some b => let r := decodeRune b; s!"{r.1} {r.2}"
    | none => "bad-op"
  | ["encoderune", r] => match r.toNat? with
    | some r => hx (encodeRune r)
    | none => "bad-op"
  | ["tokens", h] => match bytesOfHex h with
    | some b => (match decodeAll b with
      | .ok ts => join (showToks ts) "E"
      | .error (e, ts) => join (showToks ts) ("!" ++ showErr e))
    | none => "bad-op"
  | ["rfcvalid", h] => match bytesOfHex h with
    | some b => bool01 (Ref.rfcValid b)
    | none => "bad-op"
  | ["rfcnumber", h] => match bytesOfHex h with
    | some b => bool01 (parseNumber b == some b.length)   -- = RFC.Number b (C21.number_iff)
    | none => "bad-op"
  | ["numspec", h] => match bytesOfHex h with
    | some b => bool01 (parseNumber b == some b.length) ++ bool01 (Ref.isNumber b)
    | none => "bad-op"
  | ["rfcstring", h] => match bytesOfHex h with
    | some b => bool01 (Ref.isString b)
    | none => "bad-op"
  | ["appendstring", h] => match bytesOfHex h with
    | some b => let r := appendString [] b; (if r.2 then "ok " else "err ") ++ hx r.1
    | none => "bad-op"
  | "encode" :: ind :: rnd :: ops => match bytesOfHex ind, parseOps ops with
    | some ind, some ops =>
      if rnd ≠ "0" ∧ rnd ≠ "1" then "bad-op" else
      (match encRun (rnd == "1") { indent := ind } ops with
       | none => "panic"
       | some (e, ok) => (if ok then "ok " else "err ") ++ hx e.out)
    | _, _ => "bad-op"
  | _ => "bad-op"

end JsonLexDriver

def main : IO Unit := Driver.run JsonLexDriver.step
