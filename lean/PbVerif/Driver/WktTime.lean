import PbVerif.Driver.Util
import PbVerif.Model.WktTime
/- `pbmodel_wkttime`: executes Model.WktTime (wrappers around the generated Gen.WktTime) on request lines.
   Integers are signed decimals; a nil message is the token `nil` in place of `<seconds> <nanos>`. -/
open Driver Model.WktTime

def i64 (s : String) : Option (BitVec 64) :=
  s.toInt?.bind fun v => if -9223372036854775808 ≤ v ∧ v ≤ 9223372036854775807 then some (BitVec.ofInt 64 v) else none
def i32 (s : String) : Option (BitVec 32) :=
  s.toInt?.bind fun v => if -2147483648 ≤ v ∧ v ≤ 2147483647 then some (BitVec.ofInt 32 v) else none

def b2s (b : Bool) : String := if b then "1" else "0"

def durAll (x : Option Duration) : String :=
  s!"{(Duration.asDuration x).toInt} {(Duration.check x).toNat} {b2s (Duration.isValid x)} {Duration.checkValid x}"

def tsAll (x : Option Timestamp) : String :=
  let t := Timestamp.asTime x
  s!"{t.unix.toInt} {t.nsec.toInt} {(Timestamp.check x).toNat} {b2s (Timestamp.isValid x)} {Timestamp.checkValid x}"

def wktStep : List String → String
  | ["dur", "nil"] => durAll none
  | ["dur", s, n] => match i64 s, i32 n with
    | some s, some n => durAll (some ⟨s, n⟩) | _, _ => "bad-op"
  | ["ts", "nil"] => tsAll none
  | ["ts", s, n] => match i64 s, i32 n with
    | some s, some n => tsAll (some ⟨s, n⟩) | _, _ => "bad-op"
  -- both messages over the same pair, one round trip
  | ["pair", s, n] => match i64 s, i32 n with
    | some s, some n => durAll (some ⟨s, n⟩) ++ " " ++ tsAll (some ⟨s, n⟩) | _, _ => "bad-op"
  | ["dur.new", d] => match i64 d with
    | some d => let x := Duration.new d; s!"{x.seconds.toInt} {x.nanos.toInt}" | none => "bad-op"
  | ["ts.new", u, ns] => match i64 u, i64 ns with
    | some u, some ns => let x := Timestamp.new ⟨u, ns⟩; s!"{x.seconds.toInt} {x.nanos.toInt}" | _, _ => "bad-op"
  | ["time.unix", s, ns] => match i64 s, i64 ns with
    | some s, some ns => let t := GoTime.unix s ns; s!"{t.unix.toInt} {t.nsec.toInt}" | _, _ => "bad-op"
  | ["consts"] =>
    s!"{Gen.WktTime.durationAbsDuration} {Gen.WktTime.timestampMinTimestamp} {Gen.WktTime.timestampMaxTimestamp} {GoTime.second.toInt} {GoTime.nanosecond.toInt}"
  | _ => "bad-op"

def main : IO Unit := Driver.run wktStep
