import PbVerif.Driver.Util
import PbVerif.Model.JsonText
/-
`pbmodel_jsontext`: line protocol for the message-level JSON / text model (Model/JsonText.lean).

  schema <n>                                   reset: n empty message descriptors, no extension names
  msgflags <mi> <wkt> <any>
  reserved <mi> <hex>
  extname <hex>                                `[full.name]` known to the resolver
  field <mi> <num> <kind> <card> <packed> <oneof|-1> <sub> <utf8> <ext> <dflt>
        <presence> <oneofIdx|-1> <valueMsg> <nullEnum> <jsonNames> <textNames> <enums>
        (name lists: hex,hex,… or `-`; enums: hex:num,… or `-`)
  ffmt j|t <32|64> <bits> <hex>                float formatting table (delegated lexical layer)
  fclear
  tojson <opts> MSG                            opts = 4 bits: useProtoNames useEnumNumbers emitUnpopulated emitDefaultValues, then <mi>
  fromjson <mi> <limit> <discard> JV
  totext <mi> MSG
  fromtext <mi> <limit> <discard> TFIELDS
  rtjson <opts> <mi> MSG                       fromJSON (toJSON m) == norm m ? (model-level round trip, executed)
  rttext <mi> MSG
  norm <mi> MSG
  namesok <mi>                                 every output name resolves to its own field (JSON, both name options, and text)
  ints OP*                                     set.Ints trace: s<n> c<n> h<n> l  → results of h / l

  MSG   := "(" FIELD* "u" HEX ")"     FIELD := NUM "s" VAL | NUM "r" COUNT VAL*     VAL := "n" DEC | "b" HEX | MSG
  JV    := N | T | F | n HEX INT F32 F64 | s HEX INT F32 F64 B64 | [ JV* ] | { (k HEX KEYINT JV)* }
           (INT/F32/F64/KEYINT: the interpretation of the token by the real lexical layer, `-` = none;
            B64: hex of the decoded bytes, `!` = not base64)
  TFIELDS := (NAME SEP TV)*   NAME := i HEX | t HEX | # NUM   SEP := 0|1
  TV    := s HEX | n HEX INT UINT BOOL F32 F64 | l HEX | { TFIELDS } | [ TV* ]
Answers: trees in the same grammars without the interpretation columns, `ok MSG`, `err <class>`, `bad-op`.
-/
open Driver Pb JT

def kindOf : String → Option Kind
  | "bool" => some .bool | "enum" => some .enum | "int32" => some .int32 | "sint32" => some .sint32
  | "uint32" => some .uint32 | "int64" => some .int64 | "sint64" => some .sint64 | "uint64" => some .uint64
  | "sfixed32" => some .sfixed32 | "fixed32" => some .fixed32 | "float" => some .float
  | "sfixed64" => some .sfixed64 | "fixed64" => some .fixed64 | "double" => some .double
  | "string" => some .string | "bytes" => some .bytes | "message" => some .message | "group" => some .group
  | _ => none

def cardOf : String → Option Card
  | "optional" => some .optional | "implicit" => some .implicit | "required" => some .required
  | "repeated" => some .repeated | "map" => some .map
  | _ => none

def revFields : Fields → Fields → Fields
  | .nil, acc => acc
  | .cons n x tl, acc => revFields tl (.cons n x acc)

/-! parsing MSG tokens (same grammar as pbmodel_msg) -/
mutual
partial def pMsg : List String → Option (Msg × List String)
  | "(" :: r => pFields r .nil
  | _ => none
partial def pFields (ts : List String) (acc : Fields) : Option (Msg × List String) :=
  match ts with
  | "u" :: h :: ")" :: r => (bytesOfHex h).map fun u => (Msg.mk (revFields acc .nil) u, r)
  | n :: "s" :: r => do
    let num ← n.toNat?
    let (v, r') ← pVal r
    pFields r' (.cons num (.one v) acc)
  | n :: "r" :: c :: r => do
    let num ← n.toNat?
    let cnt ← c.toNat?
    let (vs, r') ← pVals cnt r []
    pFields r' (.cons num (.many (Vals.ofList vs.reverse)) acc)
  | _ => none
partial def pVal : List String → Option (Val × List String)
  | "n" :: d :: r => d.toNat?.map fun n => (Val.num n, r)
  | "b" :: h :: r => (bytesOfHex h).map fun b => (Val.bytes b, r)
  | ts => (pMsg ts).map fun (m, r) => (Val.msg m, r)
partial def pVals (cnt : Nat) (ts : List String) (acc : List Val) : Option (List Val × List String) :=
  if cnt = 0 then some (acc, ts) else do
    let (v, r) ← pVal ts
    pVals (cnt - 1) r (v :: acc)
end

def insertF (num : Nat) (fv : FVal) : Fields → Fields
  | .nil => .cons num fv .nil
  | .cons n x tl => if num < n then .cons num fv (.cons n x tl) else .cons n x (insertF num fv tl)

def sortF : Fields → Fields
  | .nil => .nil
  | .cons n x tl => insertF n x (sortF tl)

def printKeyLess (a b : Val) : Bool :=
  match a, b with
  | .num x, .num y => x < y
  | .bytes x, .bytes y => JT.bytesLess x y
  | _, _ => false

mutual
partial def sMsg (X : SchemaX) (mi : Nat) : Msg → String
  | .mk fs unk => "( " ++ sFields X (X.msg mi) (sortF fs) ++ "u " ++ hexOfBytes unk ++ " )"
partial def sFields (X : SchemaX) (d : MsgX) : Fields → String
  | .nil => ""
  | .cons num fv tl =>
    let fx := (d.find num).getD { f := { num := num, kind := .bytes, card := .optional }, jsonNames := [], textNames := [] }
    (match fv with
     | .one v => s!"{num} s {sVal X fx v} "
     | .many vs =>
       let vs := if fx.f.card = .map then sortVals printKeyLess vs else vs
       s!"{num} r {vs.toList.length} " ++ String.join (vs.toList.map fun v => sVal X fx v ++ " ")) ++ sFields X d tl
partial def sVal (X : SchemaX) (fx : FieldX) : Val → String
  | .num n => s!"n {n}"
  | .bytes b => s!"b {hexOfBytes b}"
  | .msg m => sMsg X fx.f.sub m
end

/-! tables of the delegated lexical layer -/

structure Tabs where
  jnum : List (Str × (Option Int × Option Nat × Option Nat)) := []
  jstr : List (Str × (Option Int × Option Nat × Option Nat × Option Str)) := []
  jkey : List (Str × Option Int) := []
  tnum : List (Str × (Option Int × Option Nat × Option Bool × Option Nat × Option Nat)) := []
  jf32 : List (Nat × Str) := []
  jf64 : List (Nat × Str) := []
  tf32 : List (Nat × Str) := []
  tf64 : List (Nat × Str) := []

def look {α β : Type} [BEq α] (l : List (α × β)) (a : α) : Option β := (l.find? (·.1 == a)).map (·.2)

def strOfString (s : String) : Str := s.toUTF8.toList.map fun b => BitVec.ofNat 8 b.toNat

def optInt (s : String) : Option (Option Int) := if s == "-" then some none else s.toInt?.map some
def optNat (s : String) : Option (Option Nat) := if s == "-" then some none else s.toNat?.map some
def optBool (s : String) : Option (Option Bool) :=
  if s == "-" then some none else if s == "1" then some (some true) else if s == "0" then some (some false) else none
def optB64 (s : String) : Option (Option Str) := if s == "!" then some none else (bytesOfHex s).map some

def b64chars : Array Char := "ABCDEFGHIJKLMNOPQRSTUVWXYZabcdefghijklmnopqrstuvwxyz0123456789+/".toList.toArray
def b64c (n : Nat) : BitVec 8 := BitVec.ofNat 8 (b64chars.getD n 'A').toNat
def eqc : BitVec 8 := 0x3d#8

/-- base64.StdEncoding.EncodeToString -/
def b64enc : Str → Str
  | a :: b :: c :: tl =>
    let n := a.toNat * 65536 + b.toNat * 256 + c.toNat
    b64c (n / 262144) :: b64c (n / 4096 % 64) :: b64c (n / 64 % 64) :: b64c (n % 64) :: b64enc tl
  | [a, b] =>
    let n := a.toNat * 65536 + b.toNat * 256
    [b64c (n / 262144), b64c (n / 4096 % 64), b64c (n / 64 % 64), eqc]
  | [a] =>
    let n := a.toNat * 65536
    [b64c (n / 262144), b64c (n / 4096 % 64), eqc, eqc]
  | [] => []

def symF (tag : String) (b : Nat) : Str := strOfString s!"{tag}:{b}"

def jcodec (T : Tabs) : JCodec where
  fmtInt i := strOfString (toString i)
  fmtF32 b := (look T.jf32 b).getD (symF "f32" b)
  fmtF64 b := (look T.jf64 b).getD (symF "f64" b)
  b64enc := b64enc
  numInt t := (look T.jnum t).bind (·.1)
  numF32 t := match look T.jnum t with
    | some x => x.2.1
    | none => (T.jf32.find? (·.2 == t)).map (·.1)      -- the inverse of the formatting table (model-level round trip)
  numF64 t := match look T.jnum t with
    | some x => x.2.2
    | none => (T.jf64.find? (·.2 == t)).map (·.1)
  strInt t := (look T.jstr t).bind (·.1)
  strF32 t := (look T.jstr t).bind (·.2.1)
  strF64 t := (look T.jstr t).bind (·.2.2.1)
  keyInt t := (look T.jkey t).bind id
  b64dec t := (look T.jstr t).bind (·.2.2.2)

def tcodec (T : Tabs) : TCodec where
  fmtInt i := strOfString (toString i)
  fmtF32 b := (look T.tf32 b).getD (symF "f32" b)
  fmtF64 b := (look T.tf64 b).getD (symF "f64" b)
  numInt t := (look T.tnum t).bind (·.1)
  numUint t := (look T.tnum t).bind (·.2.1)
  numBool t := (look T.tnum t).bind (·.2.2.1)
  numF32 t := match look T.tnum t with
    | some x => x.2.2.2.1
    | none => (T.tf32.find? (·.2 == t)).map (·.1)
  numF64 t := match look T.tnum t with
    | some x => x.2.2.2.2
    | none => (T.tf64.find? (·.2 == t)).map (·.1)

/-- decimal parser for the model-level round trip: interpretations of the model's own output -/
def selfInt (t : Str) : Option Int := (String.ofList (t.map fun b => Char.ofNat b.toNat)).toInt?

def b64val (c : BitVec 8) : Option Nat :=
  let n := c.toNat
  if 65 ≤ n ∧ n ≤ 90 then some (n - 65) else if 97 ≤ n ∧ n ≤ 122 then some (n - 71)
  else if 48 ≤ n ∧ n ≤ 57 then some (n + 4) else if n = 43 then some 62 else if n = 47 then some 63 else none

/-- decoder for the model's own `b64enc` output (padded standard alphabet) -/
def b64decStd : Str → Option Str
  | [] => some []
  | a :: b :: c :: d :: tl => do
    let x ← b64val a
    let y ← b64val b
    if c == eqc then
      if d == eqc && tl.isEmpty then some [BitVec.ofNat 8 ((x * 64 + y) / 16)] else none
    else
      let z ← b64val c
      if d == eqc then
        if tl.isEmpty then
          let n := (x * 64 + y) * 64 + z
          some [BitVec.ofNat 8 (n / 1024), BitVec.ofNat 8 (n / 4 % 256)]
        else none
      else
        let w ← b64val d
        let n := ((x * 64 + y) * 64 + z) * 64 + w
        let r ← b64decStd tl
        some (BitVec.ofNat 8 (n / 65536) :: BitVec.ofNat 8 (n / 256 % 256) :: BitVec.ofNat 8 (n % 256) :: r)
  | _ => none

/-! parsing JV / TV tokens -/
mutual
partial def pJV (ts : List String) (T : Tabs) : Option (JV × List String × Tabs) :=
  match ts with
  | "N" :: r => some (.null, r, T)
  | "T" :: r => some (.bool true, r, T)
  | "F" :: r => some (.bool false, r, T)
  | "n" :: h :: i :: f32 :: f64 :: r => do
    let t ← bytesOfHex h
    let i ← optInt i
    let a ← optNat f32
    let b ← optNat f64
    some (.num t, r, { T with jnum := (t, (i, a, b)) :: T.jnum })
  | "s" :: h :: i :: f32 :: f64 :: b64 :: r => do
    let t ← bytesOfHex h
    let i ← optInt i
    let a ← optNat f32
    let b ← optNat f64
    let d ← optB64 b64
    some (.str t, r, { T with jstr := (t, (i, a, b, d)) :: T.jstr })
  | "[" :: r => pJElems r T []
  | "{" :: r => pJMembers r T []
  | _ => none
partial def pJElems (ts : List String) (T : Tabs) (acc : List JV) : Option (JV × List String × Tabs) :=
  match ts with
  | "]" :: r => some (.arr (JElems.ofList acc.reverse), r, T)
  | _ => do
    let (v, r, T) ← pJV ts T
    pJElems r T (v :: acc)
partial def pJMembers (ts : List String) (T : Tabs) (acc : List (Str × JV)) : Option (JV × List String × Tabs) :=
  match ts with
  | "}" :: r => some (.obj (JMembers.ofList acc.reverse), r, T)
  | "k" :: h :: ki :: r => do
    let k ← bytesOfHex h
    let ki ← optInt ki
    let (v, r, T) ← pJV r { T with jkey := (k, ki) :: T.jkey }
    pJMembers r T ((k, v) :: acc)
  | _ => none
end

mutual
partial def pTV (ts : List String) (T : Tabs) : Option (TV × List String × Tabs) :=
  match ts with
  | "s" :: h :: r => (bytesOfHex h).map fun s => (.scalar (.str s), r, T)
  | "l" :: h :: r => (bytesOfHex h).map fun s => (.scalar (.lit s), r, T)
  | "n" :: h :: i :: u :: b :: f32 :: f64 :: r => do
    let t ← bytesOfHex h
    let i ← optInt i
    let u ← optNat u
    let b ← optBool b
    let x ← optNat f32
    let y ← optNat f64
    some (.scalar (.num t), r, { T with tnum := (t, (i, u, b, x, y)) :: T.tnum })
  | "{" :: r => do
    let (fs, r, T) ← pTFields r T []
    match r with
    | "}" :: r => some (.msg fs, r, T)
    | _ => none
  | "[" :: r => pTElems r T []
  | _ => none
partial def pTFields (ts : List String) (T : Tabs) (acc : List (TName × Bool × TV)) : Option (TFields × List String × Tabs) :=
  let name : Option (TName × List String) :=
    match ts with
    | "i" :: h :: r => (bytesOfHex h).map fun s => (.ident s, r)
    | "t" :: h :: r => (bytesOfHex h).map fun s => (.type s, r)
    | "#" :: n :: r => n.toNat?.map fun n => (.number n, r)
    | _ => none
  match name with
  | none => some (TFields.ofList acc.reverse, ts, T)
  | some (nm, sep :: r) => do
    let (v, r, T) ← pTV r T
    pTFields r T ((nm, sep == "1", v) :: acc)
  | some (_, []) => none
partial def pTElems (ts : List String) (T : Tabs) (acc : List TV) : Option (TV × List String × Tabs) :=
  match ts with
  | "]" :: r => some (.list (TElems.ofList acc.reverse), r, T)
  | _ => do
    let (v, r, T) ← pTV ts T
    pTElems r T (v :: acc)
end

/-! printing trees -/
mutual
partial def sJV : JV → String
  | .null => "N"
  | .bool true => "T"
  | .bool false => "F"
  | .num l => "n " ++ hexOfBytes l
  | .str s => "s " ++ hexOfBytes s
  | .arr es => "[ " ++ sJElems es ++ "]"
  | .obj ms => "{ " ++ sJMembers ms ++ "}"
partial def sJElems : JElems → String
  | .nil => ""
  | .cons v tl => sJV v ++ " " ++ sJElems tl
partial def sJMembers : JMembers → String
  | .nil => ""
  | .cons k v tl => "k " ++ hexOfBytes k ++ " " ++ sJV v ++ " " ++ sJMembers tl
end

def sTName : TName → String
  | .ident s => "i " ++ hexOfBytes s
  | .type s => "t " ++ hexOfBytes s
  | .number n => s!"# {n}"

mutual
partial def sTV : TV → String
  | .scalar (.str s) => "s " ++ hexOfBytes s
  | .scalar (.num s) => "n " ++ hexOfBytes s
  | .scalar (.lit s) => "l " ++ hexOfBytes s
  | .msg fs => "{ " ++ sTFields fs ++ "}"
  | .list es => "[ " ++ sTElems es ++ "]"
partial def sTFields : TFields → String
  | .nil => ""
  | .cons n sep v tl => sTName n ++ (if sep then " 1 " else " 0 ") ++ sTV v ++ " " ++ sTFields tl
partial def sTElems : TElems → String
  | .nil => ""
  | .cons v tl => sTV v ++ " " ++ sTElems tl
end

def sEErr : EErr → String
  | .utf8 => "err utf8" | .delegated => "err delegated" | .shape => "err shape"

def sErr : Err → String
  | .syntax => "err syntax" | .value => "err value" | .unknown => "err unknown" | .dup => "err dup"
  | .dupOneof => "err dupOneof" | .dupKey => "err dupKey" | .dupEntry => "err dupEntry" | .depth => "err depth"
  | .badExt => "err badExt" | .byNumber => "err byNumber" | .badNum => "err badNum" | .noSep => "err noSep"
  | .utf8 => "err utf8" | .delegated => "err delegated" | .panic => "err panic"

structure St where
  X : SchemaX := { msgs := [] }
  T : Tabs := {}

def updMsg (X : SchemaX) (mi : Nat) (f : MsgX → MsgX) : SchemaX :=
  { X with msgs := X.msgs.mapIdx fun i d => if i = mi then f d else d }

def hexList (s : String) : Option (List Str) :=
  if s == "-" then some [] else (s.splitOn ",").mapM fun h => bytesOfHex (if h == "" then "-" else h)

def enumList (s : String) : Option (List EnumVal) :=
  if s == "-" then some [] else
  (s.splitOn ",").mapM fun e =>
    match e.splitOn ":" with
    | [h, n] => do
      let name ← bytesOfHex h
      let num ← n.toInt?
      some { name := name, num := num }
    | _ => none

def optsOf (s : String) : Option JOpts :=
  match s.toList with
  | [a, b, c, d] =>
    some { useProtoNames := a == '1', useEnumNumbers := b == '1', emitUnpopulated := c == '1', emitDefaultValues := d == '1' }
  | _ => none

/-- every output name resolves to the field that printed it -/
def namesOK (X : SchemaX) (mi : Nat) : Bool :=
  let d := X.msg mi
  d.fields.all fun fx =>
    (match resolveJSON X d (fx.jsonNames.headD []) with | .found g => g.f.num == fx.f.num | _ => false) &&
    (match resolveJSON X d (fx.textNames.headD []) with | .found g => g.f.num == fx.f.num | _ => false) &&
    (match resolveText X d (fieldName fx) with | .found g => g.f.num == fx.f.num | _ => false)

def msgBEq (X : SchemaX) (mi : Nat) (a b : Msg) : Bool := sMsg X mi a == sMsg X mi b

def intsRun : List String → Ints → List String → Option (List String)
  | [], _, acc => some acc.reverse
  | op :: r, s, acc =>
    if op == "l" then intsRun r s (toString s.len :: acc) else
    match op.toList with
    | [] => none
    | k :: ds =>
      match (String.ofList ds).toNat? with
      | none => none
      | some n =>
        if k == 's' then intsRun r (s.set n) acc
        else if k == 'c' then intsRun r (s.clear n) acc
        else if k == 'h' then intsRun r s ((if s.has n then "1" else "0") :: acc)
        else none

def bit (s : String) : Bool := s == "1"

def step (st : St) : List String → St × String
  | ["schema", n] => match n.toNat? with
    | some n => ({ st with X := { msgs := List.replicate n { fields := [] }, extNames := [] } }, "ok")
    | none => (st, "bad-op")
  | ["msgflags", mi, wkt, any] => match mi.toNat? with
    | some mi => ({ st with X := updMsg st.X mi fun d => { d with wkt := bit wkt, any := bit any } }, "ok")
    | none => (st, "bad-op")
  | ["reserved", mi, h] => match mi.toNat?, bytesOfHex h with
    | some mi, some s => ({ st with X := updMsg st.X mi fun d => { d with reserved := d.reserved ++ [s] } }, "ok")
    | _, _ => (st, "bad-op")
  | ["extname", h] => match bytesOfHex h with
    | some s => ({ st with X := { st.X with extNames := st.X.extNames ++ [s] } }, "ok")
    | none => (st, "bad-op")
  | ["field", mi, num, kind, card, packed, oneof, sub, utf8, ext, dflt, presence, oneofIdx, valueMsg, nullEnum, jn, tn, en] =>
    match mi.toNat?, num.toNat?, kindOf kind, cardOf card, sub.toNat?, oneof.toInt?, dflt.toNat?, oneofIdx.toInt?,
          hexList jn, hexList tn, enumList en with
    | some mi, some num, some k, some c, some sub, some oo, some dflt, some oi, some jn, some tn, some en =>
      let f : Field := { num := num, kind := k, card := c, packed := bit packed,
                         oneof := if oo < 0 then none else some oo.toNat, sub := sub,
                         utf8 := bit utf8, ext := bit ext, dflt := dflt }
      let fx : FieldX := { f := f, jsonNames := jn, textNames := tn, enums := en, presence := bit presence,
                           oneofIdx := if oi < 0 then none else some oi.toNat, valueMsg := bit valueMsg, nullEnum := bit nullEnum }
      ({ st with X := updMsg st.X mi fun d => { d with fields := d.fields ++ [fx] } }, "ok")
    | _, _, _, _, _, _, _, _, _, _, _ => (st, "bad-op")
  | ["fclear"] => ({ st with T := {} }, "ok")
  | ["ffmt", which, size, bits, h] =>
    match bits.toNat?, bytesOfHex h with
    | some b, some t =>
      let T := st.T
      let T' : Option Tabs := match which, size with
        | "j", "32" => some { T with jf32 := (b, t) :: T.jf32 }
        | "j", "64" => some { T with jf64 := (b, t) :: T.jf64 }
        | "t", "32" => some { T with tf32 := (b, t) :: T.tf32 }
        | "t", "64" => some { T with tf64 := (b, t) :: T.tf64 }
        | _, _ => none
      (match T' with
       | some T' => ({ st with T := T' }, "ok")
       | none => (st, "bad-op"))
    | _, _ => (st, "bad-op")
  | "tojson" :: o :: mi :: ts => match optsOf o, mi.toNat?, pMsg ts with
    | some o, some mi, some (m, []) =>
      (st, match toJSON (jcodec st.T) o st.X mi m with
           | .ok v => sJV v
           | .error e => sEErr e)
    | _, _, _ => (st, "bad-op")
  | "fromjson" :: mi :: limit :: discard :: ts => match mi.toNat?, limit.toInt? with
    | some mi, some limit =>
      (match pJV ts st.T with
       | some (v, [], T) =>
         (st, match fromJSON (jcodec T) { discard := bit discard } st.X mi limit v with
              | .ok m => "ok " ++ sMsg st.X mi m
              | .error e => sErr e)
       | _ => (st, "bad-op"))
    | _, _ => (st, "bad-op")
  | "totext" :: mi :: ts => match mi.toNat?, pMsg ts with
    | some mi, some (m, []) =>
      (st, match toText (tcodec st.T) st.X mi m with
           | .ok fs => sTFields fs
           | .error e => sEErr e)
    | _, _ => (st, "bad-op")
  | "fromtext" :: mi :: limit :: discard :: ts => match mi.toNat?, limit.toInt? with
    | some mi, some limit =>
      (match pTFields ts st.T [] with
       | some (fs, [], T) =>
         (st, match fromText (tcodec T) { discard := bit discard } st.X mi limit fs with
              | .ok m => "ok " ++ sMsg st.X mi m
              | .error e => sErr e)
       | _ => (st, "bad-op"))
    | _, _ => (st, "bad-op")
  | "norm" :: mi :: ts => match mi.toNat?, pMsg ts with
    | some mi, some (m, []) => (st, sMsg st.X mi (normMsg st.X mi m))
    | _, _ => (st, "bad-op")
  | "rtjson" :: o :: mi :: ts => match optsOf o, mi.toNat?, pMsg ts with
    | some o, some mi, some (m, []) =>
      let C := jcodec st.T
      -- the decode side reads the model's own output: decimal integers, its own base64
      let C' : JCodec := { C with numInt := selfInt, strInt := selfInt, keyInt := selfInt, b64dec := b64decStd }
      (st, match toJSON C' o st.X mi m with
           | .error e => sEErr e
           | .ok v =>
             match fromJSON C' {} st.X mi 10000 v with
             | .error e => sErr e
             | .ok m' => if msgBEq st.X mi m' (normMsg st.X mi m) then "1" else "0 " ++ sMsg st.X mi m')
    | _, _, _ => (st, "bad-op")
  | "rttext" :: mi :: ts => match mi.toNat?, pMsg ts with
    | some mi, some (m, []) =>
      let C := tcodec st.T
      let C' : TCodec := { C with numInt := selfInt, numUint := fun t => (selfInt t).bind fun i => if i < 0 then none else some i.toNat }
      (st, match toText C' st.X mi m with
           | .error e => sEErr e
           | .ok fs =>
             match fromText C' {} st.X mi 10000 fs with
             | .error e => sErr e
             | .ok m' => if msgBEq st.X mi m' (normMsg st.X mi m) then "1" else "0 " ++ sMsg st.X mi m')
    | _, _ => (st, "bad-op")
  | ["namesok", mi] => match mi.toNat? with
    | some mi => (st, if namesOK st.X mi then "1" else "0")
    | none => (st, "bad-op")
  | "ints" :: ops => match intsRun ops {} [] with
    | some out => (st, "r " ++ " ".intercalate out)
    | none => (st, "bad-op")
  | _ => (st, "bad-op")

partial def loopSt (h : IO.FS.Stream) (out : IO.FS.Stream) (st : St) : IO Unit := do
  let line ← h.getLine
  if line.isEmpty then
    out.flush
    return ()
  let ws := words (line.trimAscii.toString)
  let (st', ans) := step st ws
  out.putStrLn ans
  out.flush
  loopSt h out st'

def main : IO Unit := do
  loopSt (← IO.getStdin) (← IO.getStdout) {}
