import PbVerif.Driver.Util
import PbVerif.Model.FieldMask
/-
`pbmodel_fieldmask`: executes Model.FieldMask on request lines (C44).

Paths are hex tokens (`-` = the empty string).  A list of paths is answered as `<n> <p1> … <pn>`.
  less <x> <y>                              → 0|1
  prefix <path> <prefix>                    → 0|1
  normalize <p>*                            → list
  union <p>* | <p>* ( | <p>* )*             → list                    (at least two masks)
  intersect <p>* | <p>* ( | <p>* )*         → list, or `diverge` when the model's loop does not end
  split <path>                              → list (the fields rangeFields visits)
  valid <root> <schema> ; <p>*              → one 0|1 per path (`-` when there is none)
  numvalid <root> <schema> ; <p>*           → n
  isvalid <root> <schema> ; <p>*            → 0|1
  append <root> <schema> ; <x>* ; <p>*      → <err==nil 0|1> list
<schema> is `<field>* ( / <field>* )*`, one group per message descriptor, and
<field> is `name:isGroup:textName:target:isList:isMap` (hex names, 0|1 flags, target = index or `n`).
Anything else → `bad-op`.
-/
open Driver Model.FieldMask

namespace FieldMaskDriver

def pathsOf (ws : List String) : Option (List Path) := ws.mapM bytesOfHex

def showPaths (ps : List Path) : String :=
  String.intercalate " " (toString ps.length :: ps.map hexOfBytes)

def bit (b : Bool) : String := if b then "1" else "0"

/-- split a token list on a separator token (`a | | b` ↦ [[a],[],[b]]) -/
def splitTok (sep : String) : List String → List (List String)
  | [] => [[]]
  | w :: ws =>
    if w == sep then [] :: splitTok sep ws
    else match splitTok sep ws with
      | g :: gs => (w :: g) :: gs
      | [] => [[w]]

def flagOf (s : String) : Option Bool :=
  if s == "1" then some true else if s == "0" then some false else none

def fieldOf (tok : String) : Option Field :=
  match tok.splitOn ":" with
  | [name, g, txt, tgt, l, m] => do
    let name ← bytesOfHex name
    let g ← flagOf g
    let txt ← bytesOfHex txt
    let tgt ← (if tgt == "n" then some none else tgt.toNat?.map some)
    let l ← flagOf l
    let m ← flagOf m
    pure { name := name, isGroup := g, textName := txt, target := tgt, isList := l, isMap := m }
  | _ => none

def schemaOf (ws : List String) : Option Schema :=
  (splitTok "/" ws).mapM (fun grp => grp.mapM fieldOf)

def masksOf (ws : List String) : Option (List (List Path)) :=
  (splitTok "|" ws).mapM pathsOf

def step : List String → String
  | ["less", x, y] => match bytesOfHex x, bytesOfHex y with
    | some x, some y => bit (lessPath x y) | _, _ => "bad-op"
  | ["prefix", x, y] => match bytesOfHex x, bytesOfHex y with
    | some x, some y => bit (hasPathPrefix x y) | _, _ => "bad-op"
  | ["split", x] => match bytesOfHex x with
    | some x => showPaths (splitDots x) | none => "bad-op"
  | "normalize" :: ws => match pathsOf ws with
    | some ps => showPaths (normalizePaths ps) | none => "bad-op"
  | "union" :: ws => match masksOf ws with
    | some (mx :: my :: ms) => showPaths (union mx my ms) | _ => "bad-op"
  | "intersect" :: ws => match masksOf ws with
    | some (mx :: my :: ms) => (match intersect mx my ms with
        | some r => showPaths r | none => "diverge")
    | _ => "bad-op"
  | op :: root :: ws =>
    match root.toNat?, splitTok ";" ws with
    | some root, schemaToks :: rest =>
      match schemaOf schemaToks, rest.mapM pathsOf with
      | some schema, some lists =>
        match op, lists with
        | "valid", [ps] =>
          if ps.isEmpty then "-" else String.join (ps.map (fun p => bit (pathValid schema root p)))
        | "numvalid", [ps] => toString (numValidPaths schema root ps)
        | "isvalid", [ps] => bit (isValid schema root ps)
        | "append", [xs, ps] =>
          let (out, ok) := append schema root xs ps
          bit ok ++ " " ++ showPaths out
        | _, _ => "bad-op"
      | _, _ => "bad-op"
    | _, _ => "bad-op"
  | _ => "bad-op"

end FieldMaskDriver

def main : IO Unit := Driver.run FieldMaskDriver.step
