import PbVerif.Driver.Util
import PbVerif.Model.MSet
/- `pbmodel_mset`: line protocol over Model/MSet.lean (engine `mset`, property C47).

  item <n> <hex>                       encodeItem
  start <n> | end                      AppendFieldStart(nil, n) | AppendFieldEnd(nil)
  sizefield <n>                        SizeField
  consume <0|1> <hex>                  ConsumeFieldValue(b, wantLen)   → ok <typeid> <hex> <n> | err <e>
  items <0|1> <hex>                    Unmarshal(b, wantLen, fn)       → ok <t>:<hex>,… | err <e>
  decode <0|1> <ids|-> <hex>           decodeSet, 1 = fast path, 0 = reflection path (known = listed ids)  → ok <t>:<hex>,… <unknownhex> | err <e>
  encode <0|1> <t>:<hex>,…|- <hex>     encodeSet det                   → ok <hex> | err <e>
  size <t>:<hex>,…|- <hex>             sizeSet
  appendunknown <hex> | sizeunknown <hex>
  lazyitem <t> <hex> | lazysize <t> <hex>
-/
open Driver MSet

def errStr : Err → String
  | .wire e => toString e.code
  | .typeId => "typeid"
  | .unknownData => "unknowndata"
  | .panic => "panic"
  | .fuel => "fuel"

def boolOf (s : String) : Option Bool :=
  if s == "1" then some true else if s == "0" then some false else none

def itemStr (x : Nat × MSet.Bytes) : String := s!"{x.1}:{hexOfBytes x.2}"

def itemsStr (l : List (Nat × MSet.Bytes)) : String :=
  if l.isEmpty then "-" else ",".intercalate (l.map itemStr)

def parseItem (s : String) : Option (Nat × MSet.Bytes) :=
  match s.splitOn ":" with
  | [a, b] => do
    let t ← a.toNat?
    let p ← bytesOfHex b
    pure (t, p)
  | _ => none

def parseItems (s : String) : Option (List (Nat × MSet.Bytes)) :=
  if s == "-" then some [] else (s.splitOn ",").mapM parseItem

def parseIds (s : String) : Option (List Nat) :=
  if s == "-" then some [] else (s.splitOn ",").mapM (·.toNat?)

def msetStep : List String → String
  | ["item", n, h] => match n.toNat?, bytesOfHex h with
    | some n, some p => hexOfBytes (encodeItem n p) | _, _ => "bad-op"
  | ["start", n] => match n.toNat? with
    | some n => hexOfBytes (appendFieldStart [] n) | none => "bad-op"
  | ["end"] => hexOfBytes (appendFieldEnd [])
  | ["sizefield", n] => match n.toNat? with
    | some n => toString (sizeField n) | none => "bad-op"
  | ["consume", w, h] => match boolOf w, bytesOfHex h with
    | some w, some b => (match consumeItem w b with
      | .ok (t, m, n) => s!"ok {t} {hexOfBytes m} {n}"
      | .error e => s!"err {errStr e}")
    | _, _ => "bad-op"
  | ["items", w, h] => match boolOf w, bytesOfHex h with
    | some w, some b => (match unmarshalItems w b with
      | .ok l => s!"ok {itemsStr l}"
      | .error e => s!"err {errStr e}")
    | _, _ => "bad-op"
  | ["decode", w, ids, h] => match boolOf w, parseIds ids, bytesOfHex h with
    | some w, some ids, some b => (match decodeSet (fun t => ids.contains t) w b with
      | .ok s => s!"ok {itemsStr s.items} {hexOfBytes s.unknown}"
      | .error e => s!"err {errStr e}")
    | _, _, _ => "bad-op"
  | ["encode", d, its, u] => match boolOf d, parseItems its, bytesOfHex u with
    | some d, some its, some u => (match encodeSet d ⟨its, u⟩ with
      | .ok b => s!"ok {hexOfBytes b}"
      | .error e => s!"err {errStr e}")
    | _, _, _ => "bad-op"
  | ["size", its, u] => match parseItems its, bytesOfHex u with
    | some its, some u => toString (sizeSet ⟨its, u⟩)
    | _, _ => "bad-op"
  | ["appendunknown", u] => match bytesOfHex u with
    | some u => (match appendUnknown [] u with
      | .ok b => s!"ok {hexOfBytes b}"
      | .error e => s!"err {errStr e}")
    | none => "bad-op"
  | ["sizeunknown", u] => match bytesOfHex u with
    | some u => toString (sizeUnknown u) | none => "bad-op"
  | ["lazyitem", t, h] => match t.toNat?, bytesOfHex h with
    | some t, some lb => (match encodeLazyItem t lb with
      | .ok b => s!"ok {hexOfBytes b}"
      | .error e => s!"err {errStr e}")
    | _, _ => "bad-op"
  | ["lazysize", t, h] => match t.toNat?, bytesOfHex h with
    | some t, some lb => (match sizeLazyItem t lb with
      | .ok n => s!"ok {n}"
      | .error e => s!"err {errStr e}")
    | _, _ => "bad-op"
  | _ => "bad-op"

def main : IO Unit := Driver.run msetStep
