import PbVerif.Driver.Util
import PbVerif.Model.Desc
import PbVerif.Driver.DescWire
/- `pbmodel_desc`: line-protocol driver of the descriptor model (C34, C35, C37, C38).

  resolve <edition> <chain>                     spec-level resolved FeatureSet + Go view        (C38)
  attrs <edition> <ext> <label> <type> <hasMsg> <inOneof> <mapish> <packed> <chain> <fieldov>   (C38)
  enum <edition> <chain> <enumov>               IsClosed as protodesc / as internal/filedesc    (C38, C37)
  file … / validate / newfile                   abstract schema (see DescWire.lean)             (C35, C34)

  chain   = `-` | ov(/ov)*        outermost first
  ov      = `-` | code=value(,code=value)*      code as in Gen.EditionDefaults (Go features 100201..100203)
-/
open Driver Desc

def parseOv (s : String) : Option Overrides :=
  if s == "-" then some Overrides.empty else
  (s.splitOn ",").foldl (fun acc kv => acc.bind fun o =>
    match kv.splitOn "=" with
    | [k, v] => match k.toNat?, v.toNat? with
      | some k, some v => (Feature.all.find? (fun f => f.code == k)).map fun f => o.set f v
      | _, _ => none
    | _ => none) (some Overrides.empty)

def parseChain (s : String) : Option (List Overrides) :=
  if s == "-" then some [] else (s.splitOn "/").mapM parseOv

def b01 (b : Bool) : String := if b then "1" else "0"
def parseB (s : String) : Option Bool := if s == "1" then some true else if s == "0" then some false else none
def parseOptB (s : String) : Option (Option Bool) :=
  if s == "-" then some none else (parseB s).map some

def showGo (g : GoFeatures) : String :=
  s!"strip={g.stripEnumPrefix} fp={b01 g.isFieldPresence} lr={b01 g.isLegacyRequired} oe={b01 g.isOpenEnum} pk={b01 g.isPacked} u8={b01 g.isUTF8Validated} de={b01 g.isDelimitedEncoded} jc={b01 g.isJSONCompliant} lj={b01 g.generateLegacyUnmarshalJSON} api={g.apiLevel}"

def showSpec (s : FeatureSet) : String :=
  " ".intercalate (Feature.all.map fun f => toString (s.get f))

def featStep : List String → Option String
  | ["resolve", ed, chain] => do
    let ed ← ed.toNat?
    let c ← parseChain chain
    match defaultsFor ed, protodescDefaultsGo ed, filedescDefaultsGo ed with
    | some b, some g, some g' =>
      pure s!"spec {showSpec (resolveSpec b c)} | protodesc {showGo (resolveGo g c)} | filedesc {showGo (resolveGo g' c)}"
    | _, _, _ => pure "panic"
  | ["attrs", ed, ext, label, type, hasMsg, inOneof, mapish, packed, chain, fov] => do
    let ed ← ed.toNat?
    let ext ← parseB ext
    let label ← label.toNat?
    let type ← type.toNat?
    let hasMsg ← parseB hasMsg
    let inOneof ← parseB inOneof
    let mapish ← parseB mapish
    let packed ← parseOptB packed
    let c ← parseChain chain
    let fov ← parseOv fov
    match protodescDefaultsGo ed with
    | some g =>
      let f := fieldFeatures (resolveGo g c) fov packed
      let card := cardinalityOf label f ext
      let kind := kindOf type f ext mapish
      pure s!"card={card} kind={kind} presence={b01 (hasPresence card ext f hasMsg inOneof)} packed={b01 (isPacked card kind f)} utf8={b01 (runtimeEnforceUTF8 ed ext f)}"
    | none => pure "panic"
  | ["enum", ed, chain, eov] => do
    let ed ← ed.toNat?
    let c ← parseChain chain
    let eov ← parseOv eov
    match protodescDefaultsGo ed with
    | some g =>
      let p := resolveGo g c
      pure s!"protodesc={b01 (isClosed (protodescEnumFeatures p eov))} filedesc={b01 (isClosed (filedescEnumFeatures p eov))}"
    | none => pure "panic"
  | _ => none

def descStep (ws : List String) : String :=
  match ws with
  | "newfile" :: rest => DescWire.newfileStep rest
  | _ =>
  match featStep ws with
  | some r => r
  | none => "bad-op"

def main : IO Unit := Driver.run descStep
