/-
Line-protocol helpers shared by every `pbmodel_*` driver (core-only).
One request per line: `verb arg …`; one response line per request.  Byte strings are lower-case
hex (`-` for the empty string), integers are decimal.
-/
namespace Driver
abbrev Byte := BitVec 8

def hexDigit (n : Nat) : Char :=
  if n < 10 then Char.ofNat (48 + n) else Char.ofNat (87 + n)

def hexOfBytes (bs : List Byte) : String :=
  if bs.isEmpty then "-" else
  String.ofList (bs.foldr (fun b acc => hexDigit (b.toNat / 16) :: hexDigit (b.toNat % 16) :: acc) [])

def hexVal (c : Char) : Option Nat :=
  if '0' ≤ c ∧ c ≤ '9' then some (c.toNat - 48)
  else if 'a' ≤ c ∧ c ≤ 'f' then some (c.toNat - 87)
  else if 'A' ≤ c ∧ c ≤ 'F' then some (c.toNat - 55)
  else none

def bytesOfHexAux : List Char → Option (List Byte)
  | [] => some []
  | [_] => none
  | a :: b :: r => do
    let x ← hexVal a
    let y ← hexVal b
    let t ← bytesOfHexAux r
    pure (BitVec.ofNat 8 (x * 16 + y) :: t)

def bytesOfHex (s : String) : Option (List Byte) :=
  if s == "-" then some [] else bytesOfHexAux s.toList

def words (line : String) : List String :=
  (line.splitOn " ").filter (· ≠ "")

/-- signed decimal -/
def intOfString (s : String) : Option Int := s.toInt?

partial def loop (h : IO.FS.Stream) (out : IO.FS.Stream) (step : List String → String) : IO Unit := do
  let line ← h.getLine
  if line.isEmpty then
    out.flush
    return ()
  let ws := words (line.trimAscii.toString)
  out.putStrLn (step ws)
  out.flush
  loop h out step

def run (step : List String → String) : IO Unit := do
  loop (← IO.getStdin) (← IO.getStdout) step

end Driver
