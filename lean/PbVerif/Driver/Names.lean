import PbVerif.Driver.Util
import PbVerif.Model.Names
/- `pbmodel_names`: executes Model.Names on request lines (see go/harness/names). -/
open Driver Model.Names

def natsOfHex (h : String) : Option Str := (bytesOfHex h).map (·.map BitVec.toNat)
def hexOfNats (s : Str) : String := hexOfBytes (s.map (BitVec.ofNat 8))
def showStr (s : Str) : String := String.ofList (s.map Char.ofNat)
def ofAscii (s : String) : Str := s.toList.map Char.toNat
def bit (b : Bool) : String := if b then "1" else "0"

/-- a rune token `<codepoint>.<l|d|o>` (class as reported by Go's `unicode` package) -/
def runeTok (t : String) : Option (Nat × Char) :=
  match t.splitOn "." with
  | [n, c] => match n.toNat?, c.toList with
    | some n, [c] => if c == 'l' || c == 'd' || c == 'o' then some (n, c) else none
    | _, _ => none
  | _ => none

def runeToks : List String → Option (List (Nat × Char))
  | [] => some []
  | t :: ts => (runeTok t).bind fun r => (runeToks ts).bind fun rs => some (r :: rs)

def classOf (tbl : List (Nat × Char)) (cls : Char) (r : Nat) : Bool :=
  tbl.any fun (n, c) => n == r && c == cls

def showRunes (s : Str) : String :=
  if s.isEmpty then "-" else ",".intercalate (s.map toString)

/-- `F name num oneof pres … O name … N name … E name …` -/
def parseMsg (name : String) : List String → Msg → Option Msg
  | [], m => some m
  | "F" :: n :: num :: o :: p :: rest, m =>
    match num.toNat?, (if o == "-" then some none else o.toNat?.map some), p with
    | some num, some o, "0" => parseMsg name rest { m with fields := m.fields ++ [⟨ofAscii n, num, o, false⟩] }
    | some num, some o, "1" => parseMsg name rest { m with fields := m.fields ++ [⟨ofAscii n, num, o, true⟩] }
    | _, _, _ => none
  | "O" :: n :: rest, m => parseMsg name rest { m with oneofs := m.oneofs ++ [ofAscii n] }
  | "N" :: n :: rest, m => parseMsg name rest { m with nmsgs := m.nmsgs ++ [ofAscii n] }
  | "E" :: n :: rest, m => parseMsg name rest { m with nenums := m.nenums ++ [ofAscii n] }
  | _, _ => none

def validMsg (m : Msg) : Bool :=
  m.fields.all fun f => match f.oneof with | none => true | some k => k < m.oneofs.length

def showMsg (m : Msg) : String :=
  match resolveOpen m with
  | none => "diverge"
  | some (fs, os) =>
    let oq := resolveOpaque m
    if fs.length != oq.fields.length then "internal-length-mismatch" else
    let mi := msgIdent m
    let fl := (fs.zip oq.fields).map fun ((g, w), (c, h)) =>
      s!"f:{showStr g}:{match w with | some w => showStr w | none => "-"}:{showStr c}:{bit h}"
    let ol := ((List.range m.oneofs.length).zip oq.oneofs).map fun (k, (c, h)) =>
      let g := match os.lookup k with
        | some g => g
        | none => goCamelCase (m.oneofs.getD k [])
      s!"o:{showStr g}:{showStr (mi ++ US :: g)}:{showStr c}:{bit h}"
    let nl := (nestedIdents m).map fun n => s!"n:{showStr n}"
    " ".intercalate (fl ++ ol ++ nl)

def namesStep : List String → String
  | ["camel", h] => match natsOfHex h with
    | some s => hexOfNats (goCamelCase s) | none => "bad-op"
  | ["jcamel", h] => match natsOfHex h with
    | some s => hexOfNats (jsonCamelCase s) | none => "bad-op"
  | ["jsnake", h] => match natsOfHex h with
    | some s => hexOfNats (jsonSnakeCase s) | none => "bad-op"
  | ["fullname", h] => match natsOfHex h with
    | some s => bit (fullNameValid s) | none => "bad-op"
  | ["fmaccept", h] => match natsOfHex h with
    | some s => bit (fieldMaskAccepts s) | none => "bad-op"
  | ["fmparse", h] => match natsOfHex h with
    | some s => bit (fieldMaskParses s) | none => "bad-op"
  | "sanitize" :: toks => match runeToks toks with
    | some tbl => showRunes (goSanitized (classOf tbl 'l') (classOf tbl 'd') (tbl.map (·.1)))
    | none => "bad-op"
  | "goident" :: toks => match runeToks toks with
    | some tbl => bit (isGoIdent (classOf tbl 'l') (classOf tbl 'd') (tbl.map (·.1)))
    | none => "bad-op"
  | ["keywords"] => ",".intercalate (keywords.map showStr)
  | ["reserved"] => ",".intercalate (reserved.map showStr)
  | "msg" :: name :: rest =>
    match parseMsg name rest ⟨ofAscii name, [], [], [], []⟩ with
    | some m => if validMsg m then showMsg m else "bad-op"
    | none => "bad-op"
  | "methods" :: name :: rest =>
    match parseMsg name rest ⟨ofAscii name, [], [], [], []⟩ with
    | some m => if validMsg m then " ".intercalate ((opaqueMethods m).map showStr) else "bad-op"
    | none => "bad-op"
  | _ => "bad-op"

def main : IO Unit := Driver.run namesStep
