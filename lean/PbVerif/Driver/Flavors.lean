import PbVerif.Driver.Util
import PbVerif.Model.MsgDet
import PbVerif.Model.NilMsg
import PbVerif.Model.StructTag
/-
`pbmodel_flavors`: line protocol of the `flavors` engine (C31, C46; C29 uses `pbmodel_msg`).

  (1) the basic verbs of `pbmodel_msg` — the message-model part of this file (`kindOf` … `msgStep`) is a
      copy from `Driver/Msg.lean` (that module defines `main`, so it cannot be imported):
        schema <n> | field … | enc|encdet|size|init|canon <mi> MSG | dec <mi> <limit> <discard> <hex> | equal <mi> MSG | MSG
  (2) nilobs <mi> none|empty        the observers of `Model/NilMsg.lean` on the typed nil / the empty message:
        valid= marshal= size= init= range= has= unknown= clonevalid= eqself= eqempty=
  (3) tagm <kind> <number> <opt|req|rep> <packed> <nameHex> <msgNameHex> <jsonHex> <ext> <proto3> <enumHex> <oneof> <hasDef> <defHex>
                                    `tag.Marshal`: the tag as hex
      tagu <gokind> <tagHex>        `tag.Unmarshal`: name= number= label= kind= json= packed= proto3= def= jsonname= ispacked=
Strings travel as hex, one `Char` per byte.
-/
open Driver Pb

namespace Flavors

def kindOf : String → Option Kind
  | "bool" => some .bool | "enum" => some .enum | "int32" => some .int32 | "sint32" => some .sint32
  | "uint32" => some .uint32 | "int64" => some .int64 | "sint64" => some .sint64 | "uint64" => some .uint64
  | "sfixed32" => some .sfixed32 | "fixed32" => some .fixed32 | "float" => some .float
  | "sfixed64" => some .sfixed64 | "fixed64" => some .fixed64 | "double" => some .double
  | "string" => some .string | "bytes" => some .bytes | "message" => some .message | "group" => some .group
  | _ => none

def cardOf : String → Option Card
  | "optional" => some .optional | "implicit" => some .implicit | "required" => some .required
  | "repeated" => some .repeated | "map" => some .map
  | _ => none

def revFields : Fields → Fields → Fields
  | .nil, acc => acc
  | .cons n x tl, acc => revFields tl (.cons n x acc)

/-! parsing MSG tokens -/
mutual
partial def pMsg : List String → Option (Msg × List String)
  | "(" :: r => pFields r .nil
  | _ => none
partial def pFields (ts : List String) (acc : Fields) : Option (Msg × List String) :=
  match ts with
  | "u" :: h :: ")" :: r => (bytesOfHex h).map fun u => (Msg.mk (revFields acc .nil) u, r)
  | n :: "s" :: r => do
    let num ← n.toNat?
    let (v, r') ← pVal r
    pFields r' (.cons num (.one v) acc)
  | n :: "r" :: c :: r => do
    let num ← n.toNat?
    let cnt ← c.toNat?
    let (vs, r') ← pVals cnt r []
    pFields r' (.cons num (.many (Vals.ofList vs.reverse)) acc)
  | _ => none
partial def pVal : List String → Option (Val × List String)
  | "n" :: d :: r => d.toNat?.map fun n => (Val.num n, r)
  | "b" :: h :: r => (bytesOfHex h).map fun b => (Val.bytes b, r)
  | ts => (pMsg ts).map fun (m, r) => (Val.msg m, r)
partial def pVals (cnt : Nat) (ts : List String) (acc : List Val) : Option (List Val × List String) :=
  if cnt = 0 then some (acc, ts) else do
    let (v, r) ← pVal ts
    pVals (cnt - 1) r (v :: acc)
end

/-- canonical ordering of map entries for printing: by canonical key (numbers as Nat, bytes lexicographic) -/
def printKeyLess : Val → Val → Bool
  | .msg a, .msg b =>
    (match entryKey a, entryKey b with
     | some (.num x), some (.num y) => x < y
     | some (.bytes x), some (.bytes y) => bytesLess x y
     | _, _ => false)
  | _, _ => false

mutual
partial def sMsg (S : Schema) (mi : Nat) : Msg → String
  | .mk fs unk => "( " ++ sFields S (S.msg mi) (Fields.sortBy (fun a b => a < b) fs) ++ "u " ++ hexOfBytes unk ++ " )"
partial def sFields (S : Schema) (d : MsgD) : Fields → String
  | .nil => ""
  | .cons num fv tl =>
    let f := (d.find num).getD { num := num, kind := .bytes, card := .optional }
    (match fv with
     | .one v => s!"{num} s {sVal S f v} "
     | .many vs =>
       let vs := if f.card = .map then Vals.sortBy printKeyLess vs else vs
       s!"{num} r {vs.toList.length} " ++ String.join (vs.toList.map fun v => sVal S f v ++ " ")) ++ sFields S d tl
partial def sVal (S : Schema) (f : Field) : Val → String
  | .num n => s!"n {n}"
  | .bytes b => s!"b {hexOfBytes b}"
  | .msg m => sMsg S f.sub m
end

def setField (S : Schema) (mi : Nat) (f : Field) : Schema :=
  { msgs := S.msgs.mapIdx fun i d => if i = mi then { fields := d.fields ++ [f] } else d }

def sErr : DErr → String
  | .decode => "err decode" | .depth => "err depth" | .utf8 => "err utf8" | .fuel => "err fuel"

def splitBar (ts : List String) : List String × List String :=
  (ts.takeWhile (· ≠ "|"), (ts.dropWhile (· ≠ "|")).drop 1)

def msgStep (S : Schema) : List String → Schema × String
  | ["schema", n] => match n.toNat? with
    | some n => ({ msgs := List.replicate n ⟨[]⟩ }, "ok")
    | none => (S, "bad-op")
  | ["field", mi, num, kind, card, packed, oneof, sub, utf8, ext, dflt] =>
    match mi.toNat?, num.toNat?, kindOf kind, cardOf card, sub.toNat?, oneof.toInt?, dflt.toNat? with
    | some mi, some num, some k, some c, some sub, some oo, some dflt =>
      let f : Field := { num := num, kind := k, card := c, packed := packed == "1",
                         oneof := if oo < 0 then none else some oo.toNat, sub := sub,
                         utf8 := utf8 == "1", ext := ext == "1", dflt := dflt }
      (setField S mi f, "ok")
    | _, _, _, _, _, _, _ => (S, "bad-op")
  | "enc" :: mi :: ts => match mi.toNat?, pMsg ts with
    | some mi, some (m, []) => (S, if badUtf8Msg S mi m then "err utf8" else hexOfBytes (encMsg S mi m))
    | _, _ => (S, "bad-op")
  | "encdet" :: mi :: ts => match mi.toNat?, pMsg ts with
    | some mi, some (m, []) => (S, if badUtf8Msg S mi m then "err utf8" else hexOfBytes (encodeDet S mi m))
    | _, _ => (S, "bad-op")
  | "size" :: mi :: ts => match mi.toNat?, pMsg ts with
    | some mi, some (m, []) => (S, toString (sizeMsg S mi m))
    | _, _ => (S, "bad-op")
  | "init" :: mi :: ts => match mi.toNat?, pMsg ts with
    | some mi, some (m, []) => (S, if initMsg S mi m then "ok" else "missing")
    | _, _ => (S, "bad-op")
  | "canon" :: mi :: ts => match mi.toNat?, pMsg ts with
    | some mi, some (m, []) => (S, sMsg S mi m)
    | _, _ => (S, "bad-op")
  | ["dec", mi, limit, discard, h] => match mi.toNat?, limit.toInt?, bytesOfHex h with
    | some mi, some limit, some b =>
      (S, match unmarshal S mi b limit (discard == "1") with
          | .ok m => "ok " ++ sMsg S mi m
          | .error e => sErr e)
    | _, _, _ => (S, "bad-op")
  | "equal" :: mi :: ts =>
    let (a, b) := splitBar ts
    match mi.toNat?, pMsg a, pMsg b with
    | some mi, some (x, []), some (y, []) => (S, if eqMsg S mi x y then "1" else "0")
    | _, _, _ => (S, "bad-op")
  | _ => (S, "bad-op")

/-! ### C31 -/

def nilObs (S : Schema) (mi : Nat) (r : Nil.Ref) : String :=
  let b2 (b : Bool) : String := if b then "1" else "0"
  let mres := match Nil.marshal S mi false r with
    | .ok b => hexOfBytes b
    | .error _ => "err-required"
  let hasCount := ((S.msg mi).fields.filter fun f => Nil.has r f.num).length
  s!"valid={b2 (Nil.isValid r)} marshal={mres} size={Nil.size S mi r} init={if Nil.checkInit S mi r then "ok" else "missing"} range={(Nil.range r).length} has={hasCount} unknown={hexOfBytes (Nil.getUnknown r)} clonevalid={b2 (Nil.isValid (Nil.clone S mi r))} eqself={b2 (Nil.equal S mi r r)} eqempty={b2 (Nil.equal S mi r (some Msg.empty))}"

/-! ### C46: struct tags -/

def strOfHex (h : String) : Option Tag.Str := (bytesOfHex h).map fun bs => bs.map fun b => Char.ofNat b.toNat
def hexOfStr (s : Tag.Str) : String := hexOfBytes (s.map fun c => BitVec.ofNat 8 c.toNat)

def labelOf : String → Option Tag.Label
  | "opt" => some .optional | "req" => some .required | "rep" => some .repeated | _ => none

def labelName : Option Tag.Label → String
  | some .optional => "opt" | some .required => "req" | some .repeated => "rep" | none => "unset"

def goKindOfName : String → Option Tag.GoKind
  | "bool" => some .bool | "int32" => some .int32 | "int64" => some .int64 | "uint32" => some .uint32
  | "uint64" => some .uint64 | "float32" => some .float32 | "float64" => some .float64
  | "string" => some .string | "bytes" => some .bytes | "other" => some .other | _ => none

def kindName : Option Kind → String
  | none => "unset"
  | some k => match k with
    | .bool => "bool" | .enum => "enum" | .int32 => "int32" | .sint32 => "sint32" | .uint32 => "uint32"
    | .int64 => "int64" | .sint64 => "sint64" | .uint64 => "uint64" | .sfixed32 => "sfixed32"
    | .fixed32 => "fixed32" | .float => "float" | .sfixed64 => "sfixed64" | .fixed64 => "fixed64"
    | .double => "double" | .string => "string" | .bytes => "bytes" | .message => "message" | .group => "group"

def optHex : Option Tag.Str → String
  | none => "none"
  | some s => hexOfStr s

def tagStep : List String → Option String
  | ["tagm", kind, number, label, packed, name, msgName, json, ext, proto3, enumName, oneof, hasDef, dflt] => do
    let k ← kindOf kind
    let n ← number.toNat?
    let l ← labelOf label
    let name ← strOfHex name
    let msgName ← strOfHex msgName
    let json ← strOfHex json
    let enumName ← strOfHex enumName
    let d ← strOfHex dflt
    let fd : Tag.FieldDesc :=
      { kind := k, number := n, label := l, packed := packed == "1", name := name, msgName := msgName, json := json,
        ext := ext == "1", proto3 := proto3 == "1", enumName := enumName, oneof := oneof == "1",
        dflt := if hasDef == "1" then some d else none }
    pure (hexOfStr (Tag.marshalTag fd))
  | ["tagu", gk, tag] => do
    let g ← goKindOfName gk
    let t ← strOfHex tag
    let st := Tag.unmarshalTag g t
    let b2 (b : Bool) : String := if b then "1" else "0"
    pure s!"name={hexOfStr st.name} number={st.number} label={labelName st.label} kind={kindName st.kind} json={optHex st.json} packed={b2 st.packed} proto3={b2 st.proto3} def={optHex st.dflt} jsonname={hexOfStr st.jsonName} ispacked={b2 st.isPacked}"
  | _ => none

def step (S : Schema) (ws : List String) : Schema × String :=
  match ws with
  | ["nilobs", mi, which] =>
    match mi.toNat?, which with
    | some mi, "none" => (S, nilObs S mi none)
    | some mi, "empty" => (S, nilObs S mi (some Msg.empty))
    | _, _ => (S, "bad-op")
  | "tagm" :: _ | "tagu" :: _ => (S, (tagStep ws).getD "bad-op")
  | _ => msgStep S ws

partial def loop (h out : IO.FS.Stream) (S : Schema) : IO Unit := do
  let line ← h.getLine
  if line.isEmpty then
    out.flush
    return ()
  let (S', ans) := step S (words (line.trimAscii.toString))
  out.putStrLn ans
  out.flush
  loop h out S'

end Flavors

def main : IO Unit := do
  Flavors.loop (← IO.getStdin) (← IO.getStdout) { msgs := [] }
