import PbVerif.Driver.Util
import PbVerif.Model.MsgDet
import PbVerif.Model.MsgOps
import PbVerif.Lemmas.MsgWF
/-
`pbmodel_msg`: line protocol for the message model.

  schema <n>                                            reset: n empty message descriptors
  field <mi> <num> <kind> <card> <packed> <oneof|-1> <sub> <utf8> <ext> <dflt>
  enc|encdet|size|init|clone|canon <mi> MSG
  dec <mi> <limit> <discard> <hex>                      unmarshal into a fresh message
  decinto <mi> <limit> <discard> <hex> MSG              unmarshal with Merge into MSG
  merge|equal <mi> MSG | MSG

  MSG   := "(" FIELD* "u" HEX ")"
  FIELD := NUM "s" VAL | NUM "r" COUNT VAL*
  VAL   := "n" DEC | "b" HEX | MSG
Answers: hex / number / MSG (fields ascending, map entries sorted by canonical key) /
`err decode|depth|utf8|fuel` / `bad-op`.
-/
open Driver Pb

def kindOf : String → Option Kind
  | "bool" => some .bool | "enum" => some .enum | "int32" => some .int32 | "sint32" => some .sint32
  | "uint32" => some .uint32 | "int64" => some .int64 | "sint64" => some .sint64 | "uint64" => some .uint64
  | "sfixed32" => some .sfixed32 | "fixed32" => some .fixed32 | "float" => some .float
  | "sfixed64" => some .sfixed64 | "fixed64" => some .fixed64 | "double" => some .double
  | "string" => some .string | "bytes" => some .bytes | "message" => some .message | "group" => some .group
  | _ => none

def cardOf : String → Option Card
  | "optional" => some .optional | "implicit" => some .implicit | "required" => some .required
  | "repeated" => some .repeated | "map" => some .map
  | _ => none

def revFields : Fields → Fields → Fields
  | .nil, acc => acc
  | .cons n x tl, acc => revFields tl (.cons n x acc)

/-! parsing MSG tokens -/
mutual
partial def pMsg : List String → Option (Msg × List String)
  | "(" :: r => pFields r .nil
  | _ => none
partial def pFields (ts : List String) (acc : Fields) : Option (Msg × List String) :=
  match ts with
  | "u" :: h :: ")" :: r => (bytesOfHex h).map fun u => (Msg.mk (revFields acc .nil) u, r)
  | n :: "s" :: r => do
    let num ← n.toNat?
    let (v, r') ← pVal r
    pFields r' (.cons num (.one v) acc)
  | n :: "r" :: c :: r => do
    let num ← n.toNat?
    let cnt ← c.toNat?
    let (vs, r') ← pVals cnt r []
    pFields r' (.cons num (.many (Vals.ofList vs.reverse)) acc)
  | _ => none
partial def pVal : List String → Option (Val × List String)
  | "n" :: d :: r => d.toNat?.map fun n => (Val.num n, r)
  | "b" :: h :: r => (bytesOfHex h).map fun b => (Val.bytes b, r)
  | ts => (pMsg ts).map fun (m, r) => (Val.msg m, r)
partial def pVals (cnt : Nat) (ts : List String) (acc : List Val) : Option (List Val × List String) :=
  if cnt = 0 then some (acc, ts) else do
    let (v, r) ← pVal ts
    pVals (cnt - 1) r (v :: acc)
end

/-- canonical ordering of map entries for printing: by canonical key (numbers as Nat, bytes lexicographic) -/
def printKeyLess : Val → Val → Bool
  | .msg a, .msg b =>
    (match entryKey a, entryKey b with
     | some (.num x), some (.num y) => x < y
     | some (.bytes x), some (.bytes y) => bytesLess x y
     | _, _ => false)
  | _, _ => false

mutual
partial def sMsg (q : Bool) (S : Schema) (mi : Nat) : Msg → String
  | .mk fs unk => "( " ++ sFields q S (S.msg mi) (Fields.sortBy (fun a b => a < b) fs) ++ "u " ++ hexOfBytes unk ++ " )"
partial def sFields (q : Bool) (S : Schema) (d : MsgD) : Fields → String
  | .nil => ""
  | .cons num fv tl =>
    let f := (d.find num).getD { num := num, kind := .bytes, card := .optional }
    (match fv with
     | .one v => s!"{num} s {sVal q S f v} "
     | .many vs =>
       let vs := if f.card = .map then Vals.sortBy printKeyLess vs else vs
       s!"{num} r {vs.toList.length} " ++ String.join (vs.toList.map fun v => sVal q S f v ++ " ")) ++ sFields q S d tl
partial def sVal (q : Bool) (S : Schema) (f : Field) : Val → String
  | .num n =>
    -- canonical output only: the Go harness reads float32 fields through protoreflect (float64), which turns a
    -- signalling NaN into the quiet NaN with the same payload; print the same canonical pattern here
    let n := if q ∧ f.kind = .float ∧ (n / 8388608) % 256 = 255 ∧ n % 8388608 ≠ 0 then n ||| 4194304 else n
    s!"n {n}"
  | .bytes b => s!"b {hexOfBytes b}"
  | .msg m => sMsg q S f.sub m
end

def setField (S : Schema) (mi : Nat) (f : Field) : Schema :=
  { msgs := S.msgs.mapIdx fun i d => if i = mi then { fields := d.fields ++ [f] } else d }

def sErr : DErr → String
  | .decode => "err decode" | .depth => "err depth" | .utf8 => "err utf8" | .fuel => "err fuel"

def splitBar (ts : List String) : List String × List String :=
  (ts.takeWhile (· ≠ "|"), (ts.dropWhile (· ≠ "|")).drop 1)

def msgStep (q : Bool) (S : Schema) : List String → Schema × String
  | ["schema", n] => match n.toNat? with
    | some n => ({ msgs := List.replicate n ⟨[]⟩ }, "ok")
    | none => (S, "bad-op")
  | ["field", mi, num, kind, card, packed, oneof, sub, utf8, ext, dflt] =>
    match mi.toNat?, num.toNat?, kindOf kind, cardOf card, sub.toNat?, oneof.toInt?, dflt.toNat? with
    | some mi, some num, some k, some c, some sub, some oo, some dflt =>
      let f : Field := { num := num, kind := k, card := c, packed := packed == "1",
                         oneof := if oo < 0 then none else some oo.toNat, sub := sub,
                         utf8 := utf8 == "1", ext := ext == "1", dflt := dflt }
      (setField S mi f, "ok")
    | _, _, _, _, _, _, _ => (S, "bad-op")
  | "enc" :: mi :: ts => match mi.toNat?, pMsg ts with
    | some mi, some (m, []) => (S, if badUtf8Msg S mi m then "err utf8" else hexOfBytes (encMsg S mi m))
    | _, _ => (S, "bad-op")
  | "wf" :: mi :: ts => match mi.toNat?, pMsg ts with
    | some mi, some (m, []) => (S, if cwfMsg S mi 10000 m then "1" else "0")
    | _, _ => (S, "bad-op")
  | "encraw" :: mi :: ts => match mi.toNat?, pMsg ts with
    | some mi, some (m, []) => (S, hexOfBytes (encMsg S mi m))
    | _, _ => (S, "bad-op")
  | "encdet" :: mi :: ts => match mi.toNat?, pMsg ts with
    | some mi, some (m, []) => (S, if badUtf8Msg S mi m then "err utf8" else hexOfBytes (encodeDet S mi m))
    | _, _ => (S, "bad-op")
  | "size" :: mi :: ts => match mi.toNat?, pMsg ts with
    | some mi, some (m, []) => (S, toString (sizeMsg S mi m))
    | _, _ => (S, "bad-op")
  | "init" :: mi :: ts => match mi.toNat?, pMsg ts with
    | some mi, some (m, []) => (S, if initMsg S mi m then "ok" else "missing")
    | _, _ => (S, "bad-op")
  | "clone" :: mi :: ts => match mi.toNat?, pMsg ts with
    | some mi, some (m, []) => (S, sMsg q S mi (clone S mi m))
    | _, _ => (S, "bad-op")
  | "canon" :: mi :: ts => match mi.toNat?, pMsg ts with
    | some mi, some (m, []) => (S, sMsg q S mi m)
    | _, _ => (S, "bad-op")
  | ["dec", mi, limit, discard, h] => match mi.toNat?, limit.toInt?, bytesOfHex h with
    | some mi, some limit, some b =>
      (S, match unmarshal S mi b limit (discard == "1") with
          | .ok m => "ok " ++ sMsg q S mi m
          | .error e => sErr e)
    | _, _, _ => (S, "bad-op")
  | "decinto" :: mi :: limit :: discard :: h :: ts =>
    match mi.toNat?, limit.toInt?, bytesOfHex h, pMsg ts with
    | some mi, some limit, some b, some (m, []) =>
      (S, match unmarshalInto S mi m b limit (discard == "1") with
          | .ok m => "ok " ++ sMsg q S mi m
          | .error e => sErr e)
    | _, _, _, _ => (S, "bad-op")
  | "op" :: mi :: opname :: ts =>
    -- op <mi> <name> <args…> MSG   (the message is always last)
    match mi.toNat? with
    | none => (S, "bad-op")
    | some mi =>
      let d := S.msg mi
      let fin (op : Option Op) (rest : List String) : String :=
        match op, pMsg rest with
        | some op, some (m, []) => sMsg q S mi (step d m op)
        | _, _ => "bad-op"
      let r : String := match opname, ts with
        | "set", num :: rest => (match num.toNat?, pVal rest with
            | some n, some (v, rest') => fin (some (.set n v)) rest'
            | _, _ => "bad-op")
        | "clear", num :: rest => fin (num.toNat?.map .clear) rest
        | "mutable", num :: rest => fin (num.toNat?.map .mutable) rest
        | "append", num :: rest => (match num.toNat?, pVal rest with
            | some n, some (v, rest') => fin (some (.append n v)) rest'
            | _, _ => "bad-op")
        | "lset", num :: i :: rest => (match num.toNat?, i.toNat?, pVal rest with
            | some n, some i, some (v, rest') => fin (some (.listSet n i v)) rest'
            | _, _, _ => "bad-op")
        | "trunc", num :: k :: rest => (match num.toNat?, k.toNat? with
            | some n, some k => fin (some (.truncate n k)) rest
            | _, _ => "bad-op")
        | "mput", num :: rest => (match num.toNat?, pVal rest with
            | some n, some (k, rest') => (match pVal rest' with
              | some (v, rest'') => fin (some (.mapPut n k v)) rest''
              | none => "bad-op")
            | _, _ => "bad-op")
        | "mdel", num :: rest => (match num.toNat?, pVal rest with
            | some n, some (k, rest') => fin (some (.mapDel n k)) rest'
            | _, _ => "bad-op")
        | "setunk", h :: rest => fin ((bytesOfHex h).map .setUnknown) rest
        | "reset", rest => fin (some .reset) rest
        | _, _ => "bad-op"
      (S, r)
  | "which" :: mi :: o :: ts => match mi.toNat?, o.toNat?, pMsg ts with
    | some mi, some o, some (m, []) => (S, match whichOneof (S.msg mi) m o with | some n => toString n | none => "-")
    | _, _, _ => (S, "bad-op")
  | "merge" :: mi :: ts =>
    let (a, b) := splitBar ts
    match mi.toNat?, pMsg a, pMsg b with
    | some mi, some (x, []), some (y, []) => (S, sMsg q S mi (mergeMsg S mi x y))
    | _, _, _ => (S, "bad-op")
  | "equal" :: mi :: ts =>
    let (a, b) := splitBar ts
    match mi.toNat?, pMsg a, pMsg b with
    | some mi, some (x, []), some (y, []) => (S, if eqMsg S mi x y then "1" else "0")
    | _, _, _ => (S, "bad-op")
  | _ => (S, "bad-op")

partial def msgLoop (q : Bool) (h out : IO.FS.Stream) (S : Schema) : IO Unit := do
  let line ← h.getLine
  if line.isEmpty then
    out.flush
    return ()
  let (S', ans) := msgStep q S (words (line.trimAscii.toString))
  out.putStrLn ans
  out.flush
  msgLoop q h out S'

def main : IO Unit := do
  -- PBMODEL_QUIET_NAN=1: print float32 NaNs with the quiet bit set (what a Go harness sees through protoreflect)
  let q := (← IO.getEnv "PBMODEL_QUIET_NAN") == some "1"
  msgLoop q (← IO.getStdin) (← IO.getStdout) { msgs := [] }
