import PbVerif.Driver.Util
import PbVerif.Model.WktJson
/- `pbmodel_wktjson`: executes Model.WktJson on request lines (engine `wktjson`, property C23).
Strings travel as lower-case hex of their UTF-8 bytes (`-` = empty). -/
open Driver WktJson

namespace WktJsonDriver

def strOfHex (h : String) : Option Str := do
  let bs ← bytesOfHex h
  let s ← String.fromUTF8? (ByteArray.mk (bs.map (fun b => UInt8.ofNat b.toNat)).toArray)
  pure s.toList

def hexOfStr (s : Str) : String :=
  hexOfBytes ((String.ofList s).toUTF8.toList.map (fun b => BitVec.ofNat 8 b.toNat))

def showPair : Option (Int × Int) → String
  | none => "none"
  | some (a, b) => s!"{a} {b}"

def showText : Option Str → String
  | none => "err"
  | some s => "ok " ++ hexOfStr s

def showList : Option (List Str) → String
  | none => "err"
  | some l => l.foldl (fun acc x => acc ++ " " ++ hexOfStr x) "ok"

def strsOfHex : List String → Option (List Str)
  | [] => some []
  | h :: r => do
    let x ← strOfHex h
    let xs ← strsOfHex r
    pure (x :: xs)

/-! Token streams of trees.  `PValue`: `U` unset, `N` null, `D<bits>` number, `S<hex>` string, `T`/`F`,
`{` (`K<hex>` value)* `}`, `[` value* `]`.  `JValue`: `n`, `t`/`f`, `#<bits>`, `s<hex>`,
`{` (`k<hex>` value)* `}`, `[` value* `]`. -/

mutual
def tokP : PValue → List String
  | .unset => ["U"]
  | .null => ["N"]
  | .num b => [s!"D{b}"]
  | .str s => ["S" ++ hexOfStr s]
  | .bool b => [if b then "T" else "F"]
  | .struct fs => "{" :: tokPF fs
  | .list vs => "[" :: tokPL vs
def tokPF : PFields → List String
  | .nil => ["}"]
  | .cons k v r => ("K" ++ hexOfStr k) :: (tokP v ++ tokPF r)
def tokPL : PList → List String
  | .nil => ["]"]
  | .cons v r => tokP v ++ tokPL r
end

mutual
def tokJ : JValue → List String
  | .null => ["n"]
  | .bool b => [if b then "t" else "f"]
  | .num b => [s!"#{b}"]
  | .str s => ["s" ++ hexOfStr s]
  | .obj ms => "{" :: tokJM ms
  | .arr es => "[" :: tokJE es
def tokJM : JMembers → List String
  | .nil => ["}"]
  | .cons k v r => ("k" ++ hexOfStr k) :: (tokJ v ++ tokJM r)
def tokJE : JElems → List String
  | .nil => ["]"]
  | .cons v r => tokJ v ++ tokJE r
end

def dropFirst (s : String) : String := String.ofList (s.toList.drop 1)

mutual
/-- parse one `PValue` from the token list (fuel = number of tokens) -/
def parseP : Nat → List String → Option (PValue × List String)
  | 0, _ => none
  | _, [] => none
  | fuel + 1, t :: r =>
    if t == "U" then some (.unset, r)
    else if t == "N" then some (.null, r)
    else if t == "T" then some (.bool true, r)
    else if t == "F" then some (.bool false, r)
    else if t == "{" then (parsePF fuel r).map fun (fs, r) => (.struct fs, r)
    else if t == "[" then (parsePL fuel r).map fun (vs, r) => (.list vs, r)
    else if t.startsWith "D" then (dropFirst t).toNat?.map fun b => (.num b, r)
    else if t.startsWith "S" then (strOfHex (dropFirst t)).map fun s => (.str s, r)
    else none
def parsePF : Nat → List String → Option (PFields × List String)
  | 0, _ => none
  | _, [] => none
  | fuel + 1, t :: r =>
    if t == "}" then some (.nil, r)
    else if t.startsWith "K" then
      (strOfHex (dropFirst t)).bind fun k =>
      (parseP fuel r).bind fun (v, r) =>
      (parsePF fuel r).map fun (fs, r) => (.cons k v fs, r)
    else none
def parsePL : Nat → List String → Option (PList × List String)
  | 0, _ => none
  | _, [] => none
  | fuel + 1, t :: r =>
    if t == "]" then some (.nil, r)
    else
      (parseP fuel (t :: r)).bind fun (v, r) =>
      (parsePL fuel r).map fun (vs, r) => (.cons v vs, r)
end

mutual
def parseJ : Nat → List String → Option (JValue × List String)
  | 0, _ => none
  | _, [] => none
  | fuel + 1, t :: r =>
    if t == "n" then some (.null, r)
    else if t == "t" then some (.bool true, r)
    else if t == "f" then some (.bool false, r)
    else if t == "{" then (parseJM fuel r).map fun (ms, r) => (.obj ms, r)
    else if t == "[" then (parseJE fuel r).map fun (es, r) => (.arr es, r)
    else if t.startsWith "#" then (dropFirst t).toNat?.map fun b => (.num b, r)
    else if t.startsWith "s" then (strOfHex (dropFirst t)).map fun s => (.str s, r)
    else none
def parseJM : Nat → List String → Option (JMembers × List String)
  | 0, _ => none
  | _, [] => none
  | fuel + 1, t :: r =>
    if t == "}" then some (.nil, r)
    else if t.startsWith "k" then
      (strOfHex (dropFirst t)).bind fun k =>
      (parseJ fuel r).bind fun (v, r) =>
      (parseJM fuel r).map fun (ms, r) => (.cons k v ms, r)
    else none
def parseJE : Nat → List String → Option (JElems × List String)
  | 0, _ => none
  | _, [] => none
  | fuel + 1, t :: r =>
    if t == "]" then some (.nil, r)
    else
      (parseJ fuel (t :: r)).bind fun (v, r) =>
      (parseJE fuel r).map fun (es, r) => (.cons v es, r)
end

def showToks : Option (List String) → String
  | none => "err"
  | some l => l.foldl (fun acc x => acc ++ " " ++ x) "ok"

def boolStr (b : Bool) : String := if b then "1" else "0"

def step : List String → String
  | ["durparse", h] => match strOfHex h with
    | some s => showPair (unmarshalDuration s) | none => "bad-op"
  | ["durscan", h] => match strOfHex h with
    | some s => showPair (parseDuration s) | none => "bad-op"
  | ["durfmt", a, b] => match a.toInt?, b.toInt? with
    | some a, some b => showText (fmtDuration a b) | _, _ => "bad-op"
  | ["tsparse", h] => match strOfHex h with
    | some s => showPair (unmarshalTimestamp s) | none => "bad-op"
  | ["timeparse", h] => match strOfHex h with
    | some s => showPair ((parseTime s).map fun (a, b) => (a, (b : Int))) | none => "bad-op"
  | ["tsfmt", a, b] => match a.toInt?, b.toInt? with
    | some a, some b => showText (fmtTimestamp a b) | _, _ => "bad-op"
  | ["civil", z] => match z.toInt? with
    | some z => let (y, m, d) := civilFromDays z; s!"{y} {m} {d}" | none => "bad-op"
  | ["days", y, m, d] => match y.toInt?, m.toInt?, d.toInt? with
    | some y, some m, some d => toString (daysFromCivil y m d) | _, _, _ => "bad-op"
  | "fmmarshal" :: hs => match strsOfHex hs with
    | some ps => showText (marshalFieldMask ps) | none => "bad-op"
  | ["fmunmarshal", h] => match strOfHex h with
    | some s => showList (unmarshalFieldMask s) | none => "bad-op"
  | ["camel", h] => match strOfHex h with
    | some s => hexOfStr (jsonCamelCase s) | none => "bad-op"
  | ["snake", h] => match strOfHex h with
    | some s => hexOfStr (jsonSnakeCase s) | none => "bad-op"
  | ["fullname", h] => match strOfHex h with
    | some s => boolStr (fullNameValid s) | none => "bad-op"
  | "valmarshal" :: toks => match parseP (toks.length + 1) toks with
    | some (v, []) => showToks ((marshalValue v).map tokJ) | _ => "bad-op"
  | "valunmarshal" :: toks => match parseJ (toks.length + 1) toks with
    | some (j, []) => showToks ((unmarshalValue j).map tokP) | _ => "bad-op"
  | ["dispatch", parent, short] =>
    let sh : Option Wkt → String := fun o => match o with | none => "none" | some w => reprStr w
    s!"{sh (wellKnownTypeMarshaler parent short)} {sh (wellKnownTypeUnmarshaler parent short)}"
  | _ => "bad-op"

end WktJsonDriver

def main : IO Unit := Driver.run WktJsonDriver.step
