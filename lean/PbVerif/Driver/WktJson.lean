import PbVerif.Driver.Util
import PbVerif.Model.WktJson
/- `pbmodel_wktjson`: executes Model.WktJson on request lines (engine `wktjson`, property C23).
Strings travel as lower-case hex of their UTF-8 bytes (`-` = empty). -/
open Driver WktJson

namespace WktJsonDriver

def strOfHex (h : String) : Option Str := do
  let bs ← bytesOfHex h
  let s ← String.fromUTF8? (ByteArray.mk (bs.map (fun b => UInt8.ofNat b.toNat)).toArray)
  pure s.toList

def hexOfStr (s : Str) : String :=
  hexOfBytes ((String.ofList s).toUTF8.toList.map (fun b => BitVec.ofNat 8 b.toNat))

def showPair : Option (Int × Int) → String
  | none => "none"
  | some (a, b) => s!"{a} {b}"

def showText : Option Str → String
  | none => "err"
  | some s => "ok " ++ hexOfStr s

def step : List String → String
  | ["durparse", h] => match strOfHex h with
    | some s => showPair (unmarshalDuration s) | none => "bad-op"
  | ["durscan", h] => match strOfHex h with
    | some s => showPair (parseDuration s) | none => "bad-op"
  | ["durfmt", a, b] => match a.toInt?, b.toInt? with
    | some a, some b => showText (fmtDuration a b) | _, _ => "bad-op"
  | ["tsparse", h] => match strOfHex h with
    | some s => showPair (unmarshalTimestamp s) | none => "bad-op"
  | ["timeparse", h] => match strOfHex h with
    | some s => showPair ((parseTime s).map fun (a, b) => (a, (b : Int))) | none => "bad-op"
  | ["tsfmt", a, b] => match a.toInt?, b.toInt? with
    | some a, some b => showText (fmtTimestamp a b) | _, _ => "bad-op"
  | ["civil", z] => match z.toInt? with
    | some z => let (y, m, d) := civilFromDays z; s!"{y} {m} {d}" | none => "bad-op"
  | ["days", y, m, d] => match y.toInt?, m.toInt?, d.toInt? with
    | some y, some m, some d => toString (daysFromCivil y m d) | _, _, _ => "bad-op"
  | _ => "bad-op"

end WktJsonDriver

def main : IO Unit := Driver.run WktJsonDriver.step
