import PbVerif.Driver.Util
import PbVerif.Model.StructAny
/-
`pbmodel_structany`: executes Model.StructAny on request lines (C45).

Byte strings are hex tokens (`-` = empty), float bit patterns and integers are decimal.

Go value trees (pre-order tokens):
  z | b0 | b1 | i<ty> <int> | u<ty> <nat> | g <bits32> | d <bits64> | j <hex> | s <hex> | y <hex>
  | m<nil> <n> (<hexkey> <tree>)^n | l<nil> <n> <tree>^n | x <tag>          (<ty> 0..4, <nil> 0|1)
Value trees:
  U | N | D <bits64> | S <hex> | B0 | B1 | M <n> (<hexkey> <tree>)^n | L <n> <tree>^n
Renderings contain no blanks:
  Go value:  z b0 b1 i<ty>:<int> u<ty>:<nat> g:<bits> d:<bits> j:<hex> s:<hex> y:<hex> m<nil>{k=v,…} l<nil>[v,…] x:<tag>
  Value:     U N D:<bits>|D:nan S:<hex> B0 B1 M{k=v,…} L[v,…]
  JSON:      n t f #<bits> "<hex> {k=v,…} [v,…]   or E<kind>

Requests:
  nv <k> (<hex> <bits>|e)^k <tree>   NewValue with the json.Number outcomes given as a table →
        ok <Value> <AsInterface> <normalize> <protoJSON> <goJSON∘AsInterface>
      | err <kind> <possible kinds, comma separated> <normalize>
  ai <valuetree>                     → <AsInterface> <wf 0|1> <NewValue∘AsInterface: ok:<Value>|err:<kind>> <protoJSON> <goJSON∘AsInterface>
  i2f <int> → bits      f32 <bits32> → bits|nan      b64 <hex> → hex      utf8 <hex> → 0|1
  reg <hexname> m|o → ok        (adds to the resolver; state of this process)
  name <hexurl> → <hex suffix> <hex MessageName>
  is <hexurl> <hexname> → 0|1
  fn <hex> → 0|1                      FullName.IsValid
  new <hexname> <hexbytes> → <hexurl> <hexbytes>
  uto <hexurl> <hexvalue> <hexdstname> → ok <hexname> <hexvalue> | err <kind>
  unew <hexurl> <hexvalue> → ok <hexname> <hexvalue> | err <kind>
  url <hexurl> <hexvalue> <hexdstname> → <hex suffix> <hex MessageName> <fn suffix> <is> <uto answer> ; <unew answer>
Anything else → `bad-op`.
-/
open Driver Model Model.StructAny

namespace StructAnyDriver

def bit (b : Bool) : String := if b then "1" else "0"
def flagOf (s : String) : Option Bool :=
  if s == "1" then some true else if s == "0" then some false else none

def intTyOf : String → Option IntTy
  | "0" => some .int | "1" => some .i8 | "2" => some .i16 | "3" => some .i32 | "4" => some .i64 | _ => none
def uintTyOf : String → Option UIntTy
  | "0" => some .uint | "1" => some .u8 | "2" => some .u16 | "3" => some .u32 | "4" => some .u64 | _ => none
def intTyIx : IntTy → String
  | .int => "0" | .i8 => "1" | .i16 => "2" | .i32 => "3" | .i64 => "4"
def uintTyIx : UIntTy → String
  | .uint => "0" | .u8 => "1" | .u16 => "2" | .u32 => "3" | .u64 => "4"

/-! ### parsing (fuel = number of tokens) -/

mutual
def parseVal : Nat → List String → Option (GoVal × List String)
  | 0, _ => none
  | fuel + 1, ws =>
    match ws with
    | "z" :: r => some (.nil, r)
    | "b0" :: r => some (.bool false, r)
    | "b1" :: r => some (.bool true, r)
    | "g" :: b :: r => b.toNat?.bind fun n => if n < 2 ^ 32 then some (.f32 (BitVec.ofNat 32 n), r) else none
    | "d" :: b :: r => b.toNat?.bind fun n => if n < 2 ^ 64 then some (.f64 (BitVec.ofNat 64 n), r) else none
    | "j" :: h :: r => (bytesOfHex h).map fun s => (.jnum s, r)
    | "s" :: h :: r => (bytesOfHex h).map fun s => (.str s, r)
    | "y" :: h :: r => (bytesOfHex h).map fun s => (.bytes s, r)
    | "x" :: t :: r => t.toNat?.map fun n => (.unsupported n, r)
    | tag :: a :: r =>
      match tag.toList with
      | ['i', c] => (intTyOf (String.singleton c)).bind fun t => a.toInt?.map fun v => (.int t v, r)
      | ['u', c] => (uintTyOf (String.singleton c)).bind fun t => a.toNat?.map fun v => (.uint t v, r)
      | ['m', c] => (flagOf (String.singleton c)).bind fun n => a.toNat?.bind fun k =>
          (parseMap fuel k r).map fun (m, r') => (.map n m, r')
      | ['l', c] => (flagOf (String.singleton c)).bind fun n => a.toNat?.bind fun k =>
          (parseList fuel k r).map fun (l, r') => (.slice n l, r')
      | _ => none
    | _ => none
def parseMap : Nat → Nat → List String → Option (GoMap × List String)
  | 0, _, _ => none
  | _, 0, ws => some (.nil, ws)
  | fuel + 1, k + 1, ws =>
    match ws with
    | h :: r => (bytesOfHex h).bind fun key => (parseVal fuel r).bind fun (v, r') =>
        (parseMap fuel k r').map fun (t, r'') => (.cons key v t, r'')
    | [] => none
def parseList : Nat → Nat → List String → Option (GoList × List String)
  | 0, _, _ => none
  | _, 0, ws => some (.nil, ws)
  | fuel + 1, k + 1, ws =>
    (parseVal fuel ws).bind fun (v, r') => (parseList fuel k r').map fun (t, r'') => (.cons v t, r'')
end

mutual
def parsePV : Nat → List String → Option (PV × List String)
  | 0, _ => none
  | fuel + 1, ws =>
    match ws with
    | "U" :: r => some (.unset, r)
    | "N" :: r => some (.null, r)
    | "B0" :: r => some (.bool false, r)
    | "B1" :: r => some (.bool true, r)
    | "D" :: b :: r => b.toNat?.bind fun n => if n < 2 ^ 64 then some (.number (BitVec.ofNat 64 n), r) else none
    | "S" :: h :: r => (bytesOfHex h).map fun s => (.string s, r)
    | "M" :: a :: r => a.toNat?.bind fun k => (parsePFields fuel k r).map fun (m, r') => (.struct m, r')
    | "L" :: a :: r => a.toNat?.bind fun k => (parsePList fuel k r).map fun (l, r') => (.list l, r')
    | _ => none
def parsePFields : Nat → Nat → List String → Option (PFields × List String)
  | 0, _, _ => none
  | _, 0, ws => some (.nil, ws)
  | fuel + 1, k + 1, ws =>
    match ws with
    | h :: r => (bytesOfHex h).bind fun key => (parsePV fuel r).bind fun (v, r') =>
        (parsePFields fuel k r').map fun (t, r'') => (.cons key v t, r'')
    | [] => none
def parsePList : Nat → Nat → List String → Option (PList × List String)
  | 0, _, _ => none
  | _, 0, ws => some (.nil, ws)
  | fuel + 1, k + 1, ws =>
    (parsePV fuel ws).bind fun (v, r') => (parsePList fuel k r').map fun (t, r'') => (.cons v t, r'')
end

/-- `<k> (<hex> <bits>|e)^k` → the table and the remaining tokens -/
def parseTable : Nat → List String → Option (List (Str × Option F64) × List String)
  | 0, ws => some ([], ws)
  | k + 1, h :: b :: r =>
    (bytesOfHex h).bind fun s =>
      (if b == "e" then some none else b.toNat?.bind fun n => if n < 2 ^ 64 then some (some (BitVec.ofNat 64 n)) else none).bind
        fun o => (parseTable k r).map fun (t, r') => ((s, o) :: t, r')
  | _, _ => none

def tableFn (t : List (Str × Option F64)) (s : Str) : Option F64 :=
  match t with
  | [] => none
  | (k, o) :: r => if k = s then o else tableFn r s

/-! ### rendering -/

mutual
def showVal : GoVal → String
  | .nil => "z"
  | .bool b => "b" ++ bit b
  | .int t v => "i" ++ intTyIx t ++ ":" ++ toString v
  | .uint t v => "u" ++ uintTyIx t ++ ":" ++ toString v
  | .f32 b => "g:" ++ toString b.toNat
  | .f64 b => "d:" ++ toString b.toNat
  | .jnum s => "j:" ++ hexOfBytes s
  | .str s => "s:" ++ hexOfBytes s
  | .bytes s => "y:" ++ hexOfBytes s
  | .map n m => "m" ++ bit n ++ "{" ++ showMap m ++ "}"
  | .slice n l => "l" ++ bit n ++ "[" ++ showList l ++ "]"
  | .unsupported t => "x:" ++ toString t
def showMap : GoMap → String
  | .nil => ""
  | .cons k v t => hexOfBytes k ++ "=" ++ showVal v ++ "," ++ showMap t
def showList : GoList → String
  | .nil => ""
  | .cons v t => showVal v ++ "," ++ showList t
end

def showNum (b : F64) : String := if f64IsNaN b then "nan" else toString b.toNat

mutual
def showPV : PV → String
  | .unset => "U"
  | .null => "N"
  | .number b => "D:" ++ showNum b
  | .string s => "S:" ++ hexOfBytes s
  | .bool b => "B" ++ bit b
  | .struct f => "M{" ++ showPFields f ++ "}"
  | .list l => "L[" ++ showPList l ++ "]"
def showPFields : PFields → String
  | .nil => ""
  | .cons k v t => hexOfBytes k ++ "=" ++ showPV v ++ "," ++ showPFields t
def showPList : PList → String
  | .nil => ""
  | .cons v t => showPV v ++ "," ++ showPList t
end

mutual
def showJ : J → String
  | .null => "n"
  | .bool b => if b then "t" else "f"
  | .num b => "#" ++ showNum b
  | .str s => "\"" ++ hexOfBytes s
  | .obj o => "{" ++ showJObj o ++ "}"
  | .arr a => "[" ++ showJArr a ++ "]"
def showJObj : JObj → String
  | .nil => ""
  | .cons k v t => hexOfBytes k ++ "=" ++ showJ v ++ "," ++ showJObj t
def showJArr : JArr → String
  | .nil => ""
  | .cons v t => showJ v ++ "," ++ showJArr t
end

def showErr : Err → String
  | .utf8 => "utf8" | .type => "type" | .number => "number"

def showJErr : JErr → String
  | .unset => "Eunset" | .nonfinite => "Enonfinite" | .utf8 => "Eutf8" | .unmodelled => "Eunmodelled"

def showJRes : Except JErr J → String
  | .ok j => showJ j
  | .error e => showJErr e

def showAnyErr : AnyErr → String
  | .marshal => "marshal" | .mismatch => "mismatch" | .emptyURL => "emptyurl" | .notFound => "notfound"
  | .wrongType => "wrongtype" | .decode => "decode"

/-- the error kinds present in a list, in the fixed order utf8,type,number -/
def showErrSet (es : List Err) : String :=
  let ks := [Err.utf8, Err.type, Err.number].filter (fun e => es.contains e)
  if ks.isEmpty then "-" else String.intercalate "," (ks.map showErr)

/-- messages of the driver's codec are (name, bytes) pairs: the binary codec itself is property C03's subject -/
def pairCodec : Codec (Str × Str) :=
  { nameOf := fun m => m.1, marshal := fun m => some m.2, unmarshal := fun n b => some (n, b) }

def showAnyRes : Except AnyErr (Str × Str) → String
  | .ok m => s!"ok {hexOfBytes m.1} {hexOfBytes m.2}"
  | .error e => s!"err {showAnyErr e}"

def step (reg : Resolver) : List String → Resolver × String
  | "nv" :: k :: ws =>
    (reg,
      match k.toNat?.bind (fun k => parseTable k ws) with
      | none => "bad-op"
      | some (tbl, ws) =>
        match parseVal (ws.length + 1) ws with
        | some (v, []) =>
          let P := goParams (tableFn tbl)
          (match newValue P v with
           | .ok p =>
             s!"ok {showPV p} {showVal (asInterface p)} {showVal (normalize P v)} {showJRes (protoJSON p)} {showJRes (goJSON (asInterface p))}"
           | .error e => s!"err {showErr e} {showErrSet (possibleErrs P v)} {showVal (normalize P v)}")
        | _ => "bad-op")
  | "ai" :: ws =>
    (reg,
      match parsePV (ws.length + 1) ws with
      | some (p, []) =>
        let P := goParams (fun _ => none)
        let back := match newValue P (asInterface p) with
          | .ok q => "ok:" ++ showPV q
          | .error e => "err:" ++ showErr e
        s!"{showVal (asInterface p)} {bit p.wf} {back} {showJRes (protoJSON p)} {showJRes (goJSON (asInterface p))}"
      | _ => "bad-op")
  | ["i2f", i] => (reg, match i.toInt? with
    | some i => toString (intToF64 i).toNat
    | none => "bad-op")
  | ["f32", b] => (reg, match b.toNat? with
    | some n => if n < 2 ^ 32 then showNum (f32ToF64 (BitVec.ofNat 32 n)) else "bad-op"
    | none => "bad-op")
  | ["b64", h] => (reg, match bytesOfHex h with
    | some b => hexOfBytes (b64 b)
    | none => "bad-op")
  | ["utf8", h] => (reg, match bytesOfHex h with
    | some b => bit (Utf8.valid b)
    | none => "bad-op")
  | ["reg", h, k] =>
    match bytesOfHex h, k with
    | some n, "m" => (reg ++ [(n, true)], "ok")
    | some n, "o" => (reg ++ [(n, false)], "ok")
    | _, _ => (reg, "bad-op")
  | ["name", h] => (reg, match bytesOfHex h with
    | some u => s!"{hexOfBytes (messageNameRaw u)} {hexOfBytes (messageName u)}"
    | none => "bad-op")
  | ["is", h, n] => (reg, match bytesOfHex h, bytesOfHex n with
    | some u, some n => bit (messageIs u n)
    | _, _ => "bad-op")
  | ["fn", h] => (reg, match bytesOfHex h with
    | some n => bit (fullNameValid n)
    | none => "bad-op")
  | ["new", n, b] => (reg, match bytesOfHex n, bytesOfHex b with
    | some n, some b =>
      (match new pairCodec (n, b) with
       | .ok a => s!"{hexOfBytes a.typeURL} {hexOfBytes a.value}"
       | .error e => s!"err {showAnyErr e}")
    | _, _ => "bad-op")
  | ["uto", u, v, d] => (reg, match bytesOfHex u, bytesOfHex v, bytesOfHex d with
    | some u, some v, some d => showAnyRes (unmarshalTo pairCodec ⟨u, v⟩ d)
    | _, _, _ => "bad-op")
  | ["url", u, v, d] => (reg, match bytesOfHex u, bytesOfHex v, bytesOfHex d with
    | some u, some v, some d =>
      let raw := messageNameRaw u
      s!"{hexOfBytes raw} {hexOfBytes (messageName u)} {bit (fullNameValid raw)} {bit (messageIs u d)} {showAnyRes (unmarshalTo pairCodec ⟨u, v⟩ d)} ; {showAnyRes (unmarshalNew pairCodec reg ⟨u, v⟩)}"
    | _, _, _ => "bad-op")
  | ["unew", u, v] => (reg, match bytesOfHex u, bytesOfHex v with
    | some u, some v => showAnyRes (unmarshalNew pairCodec reg ⟨u, v⟩)
    | _, _ => "bad-op")
  | _ => (reg, "bad-op")

/-- `Driver.loop` with a state (the resolver built by `reg` requests) -/
partial def loop (h : IO.FS.Stream) (out : IO.FS.Stream) (reg : Resolver) : IO Unit := do
  let line ← h.getLine
  if line.isEmpty then
    out.flush
    return ()
  let ws := words (line.trimAscii.toString)
  let (reg', ans) := step reg ws
  out.putStrLn ans
  out.flush
  loop h out reg'

end StructAnyDriver

def main : IO Unit := do
  StructAnyDriver.loop (← IO.getStdin) (← IO.getStdout) []
