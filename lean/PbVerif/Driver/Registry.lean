import PbVerif.Driver.Util
import PbVerif.Model.Registry
/-
`pbmodel_registry`: one request line = one whole history on fresh registries:
    run <op> ; <op> ; …          →  <answer> ; <answer> ; …
    wf F <path> n:<pkg> <decl>… .  →  1 | 0

ops (full names are written `n:<dotted>`, the empty name is `n:`; URLs `u:<text>`):
    regfile F <path> n:<pkg> <decl>… .     decl := M <name> <mdecl>… . | E <name> <value>… . |
                                                   X <name> n:<extendee> <number> | S <name> <method>… .
                                           mdecl := decl (without S) | f <name> | o <name>
    find n:… | findpath <path> | numfiles | rangefiles | numpkg n:… | rangepkg n:… | specfind n:… | spectag n:…
    regmsg n:… | regenum n:… | regext n:… n:<extendee> <number>
    findmsg n:… | findurl u:… | findenum n:… | findext n:… | findextnum n:… <number>
    nummsgs | numenums | numexts | rangemsgs | rangeenums | rangeexts | numextmsg n:… | rangeextmsg n:…
Every op is answered twice over: by the concrete model and by the abstract specification; when the two
differ the answer is `SPEC-MISMATCH …` (the theorems of Props/C33 say this never happens).
-/
open Driver Model.Registry

namespace RegistryDriver

structure Acc where
  enums : List EnumD := []
  msgs : List MsgD := []
  exts : List ExtD := []
  fields : List Name := []
  oneofs : List Name := []
  svcs : List SvcD := []

def stripPrefix (p s : String) : Option String :=
  if s.startsWith p then some (String.ofList (s.toList.drop p.length)) else none

def parseFull (s : String) : Option FullName := (stripPrefix "n:" s).map nameOfString

def showFull (n : FullName) : String := "n:" ++ ".".intercalate n

def takeNames : List String → List Name → Option (List Name × List String)
  | [], _ => none
  | t :: r, acc => if t = "." then some (acc.reverse, r) else takeNames r (t :: acc)

/-- body of a message or of a file, up to the closing "." -/
def parseBody : Nat → List String → Acc → Option (Acc × List String)
  | 0, _, _ => none
  | fuel + 1, toks, acc =>
    match toks with
    | "." :: r => some (acc, r)
    | "M" :: n :: r =>
      match parseBody fuel r {} with
      | some (b, r') =>
        if b.svcs.isEmpty then
          parseBody fuel r' { acc with msgs := acc.msgs ++ [MsgD.mk n b.enums (MsgL.ofList b.msgs) b.exts b.fields b.oneofs] }
        else none
      | none => none
    | "E" :: n :: r =>
      match takeNames r [] with
      | some (vs, r') => parseBody fuel r' { acc with enums := acc.enums ++ [⟨n, vs⟩] }
      | none => none
    | "S" :: n :: r =>
      match takeNames r [] with
      | some (ms, r') => parseBody fuel r' { acc with svcs := acc.svcs ++ [⟨n, ms⟩] }
      | none => none
    | "X" :: n :: e :: k :: r =>
      match parseFull e, k.toNat? with
      | some e, some k => parseBody fuel r { acc with exts := acc.exts ++ [⟨n, e, k⟩] }
      | _, _ => none
    | "f" :: n :: r => parseBody fuel r { acc with fields := acc.fields ++ [n] }
    | "o" :: n :: r => parseBody fuel r { acc with oneofs := acc.oneofs ++ [n] }
    | _ => none

def parseFile : List String → Option FileD
  | "F" :: path :: pkg :: r =>
    match parseFull pkg, parseBody (r.length + 1) r {} with
    | some pkg, some (b, []) =>
      if b.fields.isEmpty && b.oneofs.isEmpty then
        some { path := path, pkg := pkg, enums := b.enums, msgs := MsgL.ofList b.msgs, exts := b.exts, svcs := b.svcs }
      else none
    | _, _ => none
  | _ => none

def showKind : Kind → String
  | .message => "message" | .enum => "enum" | .enumValue => "enumvalue" | .extension => "extension"
  | .field => "field" | .oneof => "oneof" | .service => "service" | .method => "method"

def showFile (f : FileD) : String := f.path ++ "|" ++ showFull f.pkg

def showList (xs : List String) : String := if xs.isEmpty then "-" else ",".intercalate xs

def showFRes : FRes → String
  | .regOk => "ok"
  | .errPath => "err-path"
  | .errPkg n => "err-pkg " ++ showFull n
  | .errName n => "err-name " ++ showFull n
  | .panic => "panic"
  | .found d => showKind d.kind ++ " " ++ showFull d.full
  | .notFound => "notfound"
  | .file f => "file " ++ showFile f
  | .multiple => "multiple"
  | .num n => toString n
  | .files fs => "files " ++ showList (fs.map showFile)

def showType (t : TypeD) : String :=
  match t.kind with
  | .message => "message " ++ showFull t.full
  | .enum => "enum " ++ showFull t.full
  | .extension => "extension " ++ showFull t.full ++ " " ++ showFull t.extendee ++ " " ++ toString t.number

def showTRes : TRes → String
  | .regOk => "ok"
  | .errName => "err-name"
  | .errExtNum => "err-extnum"
  | .found t => showType t
  | .wrongType => "wrongtype"
  | .notFound => "notfound"
  | .num n => toString n
  | .types ts => "types " ++ showList (ts.map (fun t => (showType t).replace " " "|"))

inductive Op
  | f (op : FOp)
  | t (op : TOp)
  | specTag (n : FullName)

def parseOp : List String → Option Op
  | "regfile" :: r => (parseFile r).map (fun f => .f (.register f))
  | ["find", n] => (parseFull n).map (fun n => .f (.find n))
  | ["findpath", p] => some (.f (.findPath p))
  | ["numfiles"] => some (.f .numFiles)
  | ["rangefiles"] => some (.f .rangeFiles)
  | ["numpkg", n] => (parseFull n).map (fun n => .f (.numByPkg n))
  | ["rangepkg", n] => (parseFull n).map (fun n => .f (.rangeByPkg n))
  | ["spectag", n] => (parseFull n).map .specTag
  | ["regmsg", n] => (parseFull n).map (fun n => .t (.regMessage n))
  | ["regenum", n] => (parseFull n).map (fun n => .t (.regEnum n))
  | ["regext", n, e, k] =>
    match parseFull n, parseFull e, k.toNat? with
    | some n, some e, some k => some (.t (.regExtension n e k))
    | _, _, _ => none
  | ["findmsg", n] => (parseFull n).map (fun n => .t (.findMessage n))
  | ["findurl", u] => (stripPrefix "u:" u).map (fun u => .t (.findMessageURL u))
  | ["findenum", n] => (parseFull n).map (fun n => .t (.findEnum n))
  | ["findext", n] => (parseFull n).map (fun n => .t (.findExtension n))
  | ["findextnum", n, k] =>
    match parseFull n, k.toNat? with
    | some n, some k => some (.t (.findExtensionByNumber n k))
    | _, _ => none
  | ["nummsgs"] => some (.t .numMessages)
  | ["numenums"] => some (.t .numEnums)
  | ["numexts"] => some (.t .numExtensions)
  | ["rangemsgs"] => some (.t .rangeMessages)
  | ["rangeenums"] => some (.t .rangeEnums)
  | ["rangeexts"] => some (.t .rangeExtensions)
  | ["numextmsg", n] => (parseFull n).map (fun n => .t (.numExtensionsByMessage n))
  | ["rangeextmsg", n] => (parseFull n).map (fun n => .t (.rangeExtensionsByMessage n))
  | _ => none

/-- split the token list at ";" -/
def splitOps : List String → List String → List (List String) → List (List String)
  | [], cur, acc => (cur.reverse :: acc).reverse
  | t :: r, cur, acc => if t = ";" then splitOps r [] (cur.reverse :: acc) else splitOps r (t :: cur) acc

structure St where
  files : Files := {}
  types : Types := {}
  sfiles : List FileD := []
  stypes : List TypeD := []

def showTag : Option Spec.Tag → String
  | none => "free" | some .package => "package" | some .declaration => "declaration"

def stepOp (s : St) : Op → St × String
  | .f op =>
    let (r', res) := s.files.step op
    let (a', sres) := Spec.step s.sfiles op
    let x := showFRes res
    let y := showFRes sres
    ({ s with files := r', sfiles := a' }, if x = y then x else "SPEC-MISMATCH " ++ x ++ " / " ++ y)
  | .t op =>
    let (r', res) := s.types.step op
    let (a', sres) := Spec.stepT s.stypes op
    let x := showTRes res
    let y := showTRes sres
    ({ s with types := r', stypes := a' }, if x = y then x else "SPEC-MISMATCH " ++ x ++ " / " ++ y)
  | .specTag n => (s, showTag (Spec.tag s.sfiles n))

def runOps : St → List (List String) → List String → Option (List String)
  | _, [], acc => some acc.reverse
  | s, ws :: r, acc =>
    match parseOp ws with
    | none => none
    | some op =>
      let (s', ans) := stepOp s op
      runOps s' r (ans :: acc)

def step : List String → String
  | "run" :: r =>
    match runOps {} (splitOps r [] []) [] with
    | some answers => " ; ".intercalate answers
    | none => "bad-op"
  | "wf" :: r =>
    match parseFile r with
    | some f => if f.wf then "1" else "0"
    | none => "bad-op"
  | _ => "bad-op"

end RegistryDriver

def main : IO Unit := Driver.run RegistryDriver.step
