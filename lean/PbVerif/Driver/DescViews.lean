import PbVerif.Driver.Util
import PbVerif.Model.DescViews
/- `pbmodel_descviews`: executes Model.DescViews on request lines (C36).

  fhas <k> n1..nk s1 e1 s2 e2 ..     FieldRanges{List}.Has(n_i)            -> k chars 0/1 ("-" if k=0)
  ehas <k> n1..nk s1 e1 ..           EnumRanges{List}.Has(n_i)             -> k chars 0/1
  fcheck <0|1> s1 e1 ..              FieldRanges.CheckValid(isMessageSet)  -> 1 (nil) / 0 (error)
  echeck s1 e1 ..                    EnumRanges.CheckValid()               -> 1 / 0
  first <k> p1..pk el1 el2 ..        generated list, one map; el = comma-separated key tokens -> k answers (index|nil)
  oneof <k> p1..pk key1 key2 ..      OneofFields, one map (one key per member) -> k answers (index|nil)
  names <k> p1..pk s1 s2 ..          Names.Has(p_i) chars, then CheckValid -> "0101 1"
  fnums <k> p1..pk n1 n2 ..          FieldNumbers.Has(p_i)                 -> k chars
  required c:n ..                    c in o|r|p                            -> RequiredNumbers list ("-" if empty)
  members <k> o0 o1 ..               oneof index of every field or "-"     -> member indices of oneof k
  children <pkg|-> <m|e>name .. | <m|e> n1 n2 ..   chain from the file to the parent, then the child names
                                     -> "index:fullName:name:parentOfFullName" per child, then "depth=<d> file=<pkg|->"
-/
open Driver Model.DescViews

def ints (ws : List String) : Option (List Int) := ws.mapM String.toInt?

def pairs : List Int → Option (List Rng)
  | [] => some []
  | [_] => none
  | a :: b :: r => (pairs r).map (fun t => ⟨a, b⟩ :: t)

def bits (bs : List Bool) : String :=
  if bs.isEmpty then "-" else String.ofList (bs.map fun b => if b then '1' else '0')

def showIdx : Option Nat → String
  | none => "nil"
  | some i => toString i

def unwordsOr (d : String) (ws : List String) : String :=
  if ws.isEmpty then d else " ".intercalate ws

/-- split `k p1..pk rest` -/
def splitProbes (ws : List String) : Option (List String × List String) :=
  match ws with
  | [] => none
  | k :: r => match k.toNat? with
    | none => none
    | some k => if k ≤ r.length then some (r.take k, r.drop k) else none

def hasStep (has : List Rng → Int → Bool) (ws : List String) : String :=
  match splitProbes ws with
  | none => "bad-op"
  | some (ps, rest) =>
    match ints ps, (ints rest).bind pairs with
    | some ns, some rs => bits (ns.map (has rs))
    | _, _ => "bad-op"

def parseField (s : String) : Option FieldInfo :=
  match s.splitOn ":" with
  | [c, n] =>
    (match c with
      | "o" => some Card.optional | "r" => some Card.required | "p" => some Card.repeated | _ => none).bind fun c =>
    n.toInt?.map fun n => { number := n, card := c, oneof := none }
  | _ => none

def parseOneof (s : String) : Option FieldInfo :=
  if s == "-" then some { number := 0, card := Card.optional, oneof := none }
  else s.toNat?.map fun k => { number := 0, card := Card.optional, oneof := some k }

def strOf (s : String) : Str := if s == "-" then [] else s.toList
def showStr (s : Str) : String := if s.isEmpty then "-" else String.ofList s

/-- `<m|e>name` -/
def parseStep (s : String) : Option (Bool × Str) :=
  match s.toList with
  | 'm' :: nm => some (false, nm)
  | 'e' :: nm => some (true, nm)
  | _ => none

def buildChain (d : Desc) : List (Bool × Str) → Desc
  | [] => d
  | (e, nm) :: rest => buildChain (Desc.child d e nm 0) rest

def splitBar (ws : List String) : List String × List String :=
  (ws.takeWhile (· ≠ "|"), (ws.dropWhile (· ≠ "|")).drop 1)

def filePkg : Desc → Str
  | .file pkg => pkg
  | .child _ _ _ _ => ['?']

def step : List String → String
  | "fhas" :: ws => hasStep fieldHas ws
  | "ehas" :: ws => hasStep enumHas ws
  | "fcheck" :: ms :: ws =>
    (match ms, (ints ws).bind pairs with
      | "0", some rs => if fieldCheckValid false rs then "1" else "0"
      | "1", some rs => if fieldCheckValid true rs then "1" else "0"
      | _, _ => "bad-op")
  | "echeck" :: ws =>
    (match (ints ws).bind pairs with
      | some rs => if enumCheckValid rs then "1" else "0"
      | none => "bad-op")
  | "first" :: ws =>
    (match splitProbes ws with
      | none => "bad-op"
      | some (ps, els) =>
        let l : List (List String) := els.map (fun e => e.splitOn ",")
        unwordsOr "-" (ps.map fun p => showIdx (byKeyFirst (fun (d : List String) => d) l p)))
  | "oneof" :: ws =>
    (match splitProbes ws with
      | none => "bad-op"
      | some (ps, keys) => unwordsOr "-" (ps.map fun p => showIdx (byKeyOneof (fun (d : String) => d) keys p)))
  | "names" :: ws =>
    (match splitProbes ws with
      | none => "bad-op"
      | some (ps, l) => bits (ps.map (namesHas l)) ++ " " ++ (if namesCheckValid l then "1" else "0"))
  | "fnums" :: ws =>
    (match splitProbes ws with
      | none => "bad-op"
      | some (ps, l) =>
        match ints ps, ints l with
        | some ps, some l => bits (ps.map (fieldNumbersHas l))
        | _, _ => "bad-op")
  | "required" :: ws =>
    (match ws.mapM parseField with
      | some fs => unwordsOr "-" ((requiredNumbers fs).map toString)
      | none => "bad-op")
  | "members" :: k :: ws =>
    (match k.toNat?, ws.mapM parseOneof with
      | some k, some fs => unwordsOr "-" ((oneofMembers k fs).map toString)
      | _, _ => "bad-op")
  | "children" :: pkg :: ws =>
    let (chain, kids) := splitBar ws
    (match chain.mapM parseStep, kids with
      | some chain, flag :: names =>
        if flag ≠ "m" ∧ flag ≠ "e" then "bad-op" else
        let parent := buildChain (Desc.file (strOf pkg)) chain
        let ds := construct parent (flag == "e") (names.map String.toList)
        let items := ds.map fun d =>
          s!"{d.index}:{showStr d.fullName}:{showStr d.name}:{showStr (parentOf d.fullName)}"
        let tail := match ds with
          | [] => s!"depth={parent.depth} file={showStr (filePkg parent.parentFile)}"
          | d :: _ => s!"depth={d.depth} file={showStr (filePkg d.parentFile)} top={showIdx ((Desc.ancestor d.depth d).map fun f => f.depth)} beyond={showIdx ((Desc.ancestor (d.depth + 1) d).map fun f => f.depth)}"
        unwordsOr "-" items ++ " " ++ tail
      | _, _ => "bad-op")
  | _ => "bad-op"

def main : IO Unit := Driver.run step
