import PbVerif.Driver.Util
import PbVerif.Model.Delim
/-
`pbmodel_delim`: executes Model.Delim on request lines (engine `delim`, C27).

  um <maxSize> <term> <stream>                          → result of `unmarshalFrom`
  umr <g|b> <B> <hints> <maxSize> <term> <stream>       → result of `unmarshalFromR` (reader kind, bufio size, chunk oracle)
  readall <maxSize> <term> <stream>                     → `n=<k> <body>… final <result>`
  encvarint <n> | encfixed <len> <n> | consvarint <hex> | frame <stream> | consts

<term>   = eof | e<code>
<stream> = segments joined by `+`, each lower-case hex or `<count>*<hh>`; `-` is the empty stream
<hints>  = decimal chunk sizes joined by `,`; `-` is the empty list
results  = ok <len> <body> rest=<k> | eof rest=<k> | ueof rest=<k> | toolarge <size> <max> rest=<k>
         | overflow rest=<k> | rerr <code> rest=<k> | panic-alloc <size> rest=<k>
<body>   = hex when len ≤ 256, otherwise `#` + FNV-1a-64 of the bytes
-/
open Driver Model.Delim
abbrev Bytes := List (BitVec 8)

def parseSeg (seg : String) : Option Bytes :=
  match seg.splitOn "*" with
  | [h] => bytesOfHex h
  | [n, h] => do
    let k ← n.toNat?
    let bs ← bytesOfHex h
    match bs with
    | [b] => some (List.replicate k b)
    | _ => none
  | _ => none

def parseStream (s : String) : Option Bytes :=
  if s == "-" then some [] else
  (s.splitOn "+").foldl (fun acc seg => do
    let a ← acc
    let b ← parseSeg seg
    pure (a ++ b)) (some [])

def parseTerm (s : String) : Option Term :=
  if s == "eof" then some .eof
  else if s.startsWith "e" then (s.drop 1).toNat?.map Term.err
  else none

def parseHints (s : String) : Option (List Nat) :=
  if s == "-" then some [] else
  (s.splitOn ",").foldr (fun x acc => do
    let t ← acc
    let n ← x.toNat?
    pure (n :: t)) (some [])

def parseKind (k b : String) : Option ReaderKind :=
  if k == "g" then some .generic
  else if k == "b" then b.toNat?.map ReaderKind.bufio
  else none

def fnv (bs : Bytes) : UInt64 :=
  bs.foldl (fun h b => (h ^^^ b.toNat.toUInt64) * 1099511628211) 14695981039346656037

def showBody (b : Bytes) : String :=
  if b.length ≤ 256 then hexOfBytes b else s!"#{(fnv b).toNat}"

def showResult : Result → String
  | .ok b => s!"ok {b.length} {showBody b}"
  | .eof => "eof"
  | .unexpectedEOF => "ueof"
  | .sizeTooLarge size mx => s!"toolarge {size} {mx}"
  | .overflow => "overflow"
  | .readerErr e => s!"rerr {e}"
  | .panicAlloc n => s!"panic-alloc {n}"

def showRes (x : Result × Bytes) : String := s!"{showResult x.1} rest={x.2.length}"

def showVarint : VarintRes → String
  | .ok v n => s!"{v} {n}"
  | .truncated => "truncated"
  | .overflow => "overflow"

def delimStep : List String → String
  | ["um", m, t, s] => match m.toInt?, parseTerm t, parseStream s with
    | some m, some t, some s => showRes (unmarshalFrom m t s)
    | _, _, _ => "bad-op"
  | ["umr", k, b, h, m, t, s] => match parseKind k b, parseHints h, m.toInt?, parseTerm t, parseStream s with
    | some rk, some h, some m, some t, some s => showRes (unmarshalFromR rk h m t s)
    | _, _, _, _, _ => "bad-op"
  | ["readall", m, t, s] => match m.toInt?, parseTerm t, parseStream s with
    | some m, some t, some s =>
      match readAll m t s with
      | some (bs, r, rest) =>
        s!"n={bs.length}" ++ String.join (bs.map fun b => s!" {b.length}:{showBody b}") ++ s!" final {showRes (r, rest)}"
      | none => "out-of-fuel"
    | _, _, _ => "bad-op"
  | ["encvarint", n] => match n.toNat? with
    | some n => if n < 2^64 then hexOfBytes (encodeVarint n) else "bad-op"
    | none => "bad-op"
  | ["encfixed", l, n] => match l.toNat?, n.toNat? with
    | some l, some n => if l < 10 ∧ n < 128 ^ (l + 1) then hexOfBytes (encFixed l n) else "bad-op"
    | _, _ => "bad-op"
  | ["consvarint", h] => match bytesOfHex h with
    | some b => showVarint (consumeVarint b)
    | none => "bad-op"
  | ["frame", s] => match parseStream s with
    | some b => if b.length ≤ 4096 then hexOfBytes (frame b) else "bad-op"
    | none => "bad-op"
  | ["consts"] => s!"{defaultMaxSize} {maxInt} {maxAlloc} {maxVarintLen64}"
  | _ => "bad-op"

def main : IO Unit := Driver.run delimStep
