import PbVerif.Driver.Util
import PbVerif.Model.Range
/-
`pbmodel_range`: executes Model.Range on request lines (property C32).

  run <mode> <oracle> <msg…>   → `<result> <event> …`     Options{Stable:true}.Range under the oracle
  pre <mode> <msg…>            → `<step[=value]> …`        pre-order of the populated values (spec side)
  wf <msg…>                    → 1 | 0

mode    v = events carry the canonical rendering of the value, n = steps only
oracle  `-` (always nil) or a comma list `i:b` (Break) / `i:t` (Terminate) / `i:e<code>` (error)
        for callback invocation i (pushes and pops counted together, from 0)
msg     pre-order token stream
          msg   := m <type> <nfields> <unknown-hex|-> field*        plain message
                 | a <type> <nfields> <unknown-hex|-> field* msg    resolvable Any, followed by its body
          field := <number> val
          val   := s:<token> | y:<hex> | ( msg | [ <n> elem* | { <n> (key elem)*
          elem  := s:<token> | y:<hex> | ( msg
          key   := kb:0 | kb:1 | ki:<int> | ku:<nat> | ks:<hex>
result  ok | err<code>
event   +<step>[=<value>] (push) | -<step>[=<value>] (pop);  step := R:<type> | F:<n> | U | L:<i> | K:<key> | A:<type>
value   the val grammar above with `,` instead of blanks
-/
open Driver Model.Range

namespace RangeDriver

def hexNat (bs : List Nat) : String :=
  String.ofList (bs.foldr (fun b acc => hexDigit (b / 16) :: hexDigit (b % 16) :: acc) [])

def natsOfHexAux : List Char → Option (List Nat)
  | [] => some []
  | [_] => none
  | a :: b :: r => do
    let x ← hexVal a
    let y ← hexVal b
    let t ← natsOfHexAux r
    pure ((x * 16 + y) :: t)

def natsOfHex (s : String) : Option (List Nat) :=
  if s == "-" then some [] else natsOfHexAux s.toList

def after (pre : String) (s : String) : Option String :=
  if s.startsWith pre then some ((s.drop pre.length).toString) else none

def parseKey (s : String) : Option Key :=
  match after "kb:" s with
  | some "0" => some (.bool false)
  | some "1" => some (.bool true)
  | some _ => none
  | none =>
  match after "ki:" s with
  | some t => t.toInt?.map Key.int
  | none =>
  match after "ku:" s with
  | some t => t.toNat?.map Key.uint
  | none =>
  match after "ks:" s with
  | some t => (natsOfHex t).map Key.str
  | none => none

def parseScalar (s : String) : Option Scalar :=
  match after "s:" s with
  | some t => some (.tok t)
  | none =>
  match after "y:" s with
  | some t => (natsOfHex t).map Scalar.bytes
  | none => none

abbrev P (α : Type) := List String → Option (α × List String)

mutual
  partial def parseMsg : P Msg
    | "m" :: ty :: nf :: unk :: r => do
      let n ← nf.toNat?
      let u ← natsOfHex unk
      let (fs, r) ← parseFields n r
      pure (.plain ty fs u, r)
    | "a" :: ty :: nf :: unk :: r => do
      let n ← nf.toNat?
      let u ← natsOfHex unk
      let (fs, r) ← parseFields n r
      let (body, r) ← parseMsg r
      pure (.any ty fs u body, r)
    | _ => none
  partial def parseFields : Nat → P Fields
    | 0, r => some (.nil, r)
    | n + 1, num :: r => do
      let k ← num.toNat?
      let (v, r) ← parseVal r
      let (rest, r) ← parseFields n r
      pure (.cons k v rest, r)
    | _, _ => none
  partial def parseVal : P Val
    | "(" :: r => do
      let (m, r) ← parseMsg r
      pure (.msg m, r)
    | "[" :: n :: r => do
      let n ← n.toNat?
      let (es, r) ← parseElems n r
      pure (.list es, r)
    | "{" :: n :: r => do
      let n ← n.toNat?
      let (kvs, r) ← parseEntries n r
      pure (.map kvs, r)
    | t :: r => do
      let s ← parseScalar t
      pure (.scalar s, r)
    | [] => none
  partial def parseElem : P Elem
    | "(" :: r => do
      let (m, r) ← parseMsg r
      pure (.msg m, r)
    | t :: r => do
      let s ← parseScalar t
      pure (.scalar s, r)
    | [] => none
  partial def parseElems : Nat → P Elems
    | 0, r => some (.nil, r)
    | n + 1, r => do
      let (e, r) ← parseElem r
      let (rest, r) ← parseElems n r
      pure (.cons e rest, r)
  partial def parseEntries : Nat → P Entries
    | 0, r => some (.nil, r)
    | n + 1, k :: r => do
      let k ← parseKey k
      let (e, r) ← parseElem r
      let (rest, r) ← parseEntries n r
      pure (.cons k e rest, r)
    | _, _ => none
end

def parseWhole (ws : List String) : Option Msg :=
  match parseMsg ws with
  | some (m, []) => some m
  | _ => none

def renderKey : Key → String
  | .bool b => if b then "kb:1" else "kb:0"
  | .int i => s!"ki:{i}"
  | .uint n => s!"ku:{n}"
  | .str s => "ks:" ++ (if s.isEmpty then "-" else hexNat s)

def renderScalar : Scalar → String
  | .tok s => "s:" ++ s
  | .bytes b => "y:" ++ hexNat b

def fieldsLen : Fields → Nat
  | .nil => 0
  | .cons _ _ r => 1 + fieldsLen r

def elemsLen : Elems → Nat
  | .nil => 0
  | .cons _ r => 1 + elemsLen r

def entriesLen : Entries → Nat
  | .nil => 0
  | .cons _ _ r => 1 + entriesLen r

/- token lists (reverse accumulation avoided: trees are small) -/
mutual
  def tokMsg : Msg → List String
    | .plain ty fs unk =>
      "m" :: ty :: toString (fieldsLen fs) :: (if unk.isEmpty then "-" else hexNat unk) :: tokFields fs
    | .any ty fs unk body =>
      "a" :: ty :: toString (fieldsLen fs) :: (if unk.isEmpty then "-" else hexNat unk) :: (tokFields fs ++ tokMsg body)
  def tokFields : Fields → List String
    | .nil => []
    | .cons n v r => toString n :: (tokVal v ++ tokFields r)
  def tokVal : Val → List String
    | .scalar s => [renderScalar s]
    | .msg m => "(" :: tokMsg m
    | .list es => "[" :: toString (elemsLen es) :: tokElems es
    | .map kvs => "{" :: toString (entriesLen kvs) :: tokEntries kvs
  def tokElem : Elem → List String
    | .scalar s => [renderScalar s]
    | .msg m => "(" :: tokMsg m
  def tokElems : Elems → List String
    | .nil => []
    | .cons e r => tokElem e ++ tokElems r
  def tokEntries : Entries → List String
    | .nil => []
    | .cons k e r => renderKey k :: (tokElem e ++ tokEntries r)
end

def renderVal (v : Val) : String := ",".intercalate (tokVal v)

def renderStep : Step → String
  | .root ty => "R:" ++ ty
  | .field n => s!"F:{n}"
  | .unknown => "U"
  | .listIndex i => s!"L:{i}"
  | .mapIndex k => "K:" ++ renderKey k
  | .anyExpand ty => "A:" ++ ty

def renderSV (withVal : Bool) (s : Step) (v : Val) : String :=
  if withVal then renderStep s ++ "=" ++ renderVal v else renderStep s

def renderEvent (withVal : Bool) : Event → String
  | .push s v => "+" ++ renderSV withVal s v
  | .pop s v => "-" ++ renderSV withVal s v

def renderRes : Res → String
  | .ok => "ok"
  | .brk => "BUG-break"      -- `range` never returns these (C32.result_from_callbacks)
  | .term => "BUG-terminate"
  | .err c => s!"err{c}"

def parseAction (s : String) : Option Res :=
  if s == "b" then some .brk
  else if s == "t" then some .term
  else match after "e" s with
    | some c => c.toNat?.map Res.err
    | none => none

def parseOracle (s : String) : Option (List (Nat × Res)) :=
  if s == "-" then some [] else
  (s.splitOn ",").mapM fun item =>
    match item.splitOn ":" with
    | [i, a] => do
      let i ← i.toNat?
      let a ← parseAction a
      pure (i, a)
    | _ => none

def oracleOf (l : List (Nat × Res)) : Oracle := fun i =>
  match l.find? (fun p => p.1 == i) with
  | some p => p.2
  | none => .ok

def parseMode (s : String) : Option Bool :=
  if s == "v" then some true else if s == "n" then some false else none

def step : List String → String
  | "run" :: mode :: orc :: rest =>
    match parseMode mode, parseOracle orc, parseWhole rest with
    | some wv, some l, some m =>
      if wfMsg m then
        let r := range (oracleOf l) m
        " ".intercalate (renderRes r.2 :: r.1.map (renderEvent wv))
      else "ill-formed"
    | _, _, _ => "bad-op"
  | "pre" :: mode :: rest =>
    match parseMode mode, parseWhole rest with
    | some wv, some m =>
      if wfMsg m then " ".intercalate ("pre" :: (preMsg m).map (fun sv => renderSV wv sv.1 sv.2))
      else "ill-formed"
    | _, _ => "bad-op"
  | "wf" :: rest =>
    match parseWhole rest with
    | some m => if wfMsg m then "1" else "0"
    | none => "bad-op"
  | _ => "bad-op"

end RangeDriver

def main : IO Unit := Driver.run RangeDriver.step
