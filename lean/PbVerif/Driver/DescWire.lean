import PbVerif.Driver.Util
import PbVerif.Model.Desc
/- Token grammar of the abstract schema on the line protocol (parser and printer).

  FILE := file <path> <pkg> <syn> <edition> <ov> enums <n> ENUM* msgs <n> MSG* exts <n> FLD* svcs <n> SVC*
  ENUM := enum <name> <alias> <ov> vals <n> (<name> <num|~>)* rr <n> (<s> <e>)* rn <n> <name>*
  MSG  := msg <name> <mapEntry> <messageSet> <ov> flds <n> FLD* oneofs <n> (<name> <ov>)* nested <n> MSG*
          enums <n> ENUM* exts <n> FLD* xr <n> (<s> <e>)* rr <n> (<s> <e>)* rn <n> <name>*
  FLD  := fld <name> <num|~> <label|~> <type> <typeName|~> <extendee|~> <oneof|~> <json|~> <p3opt> <def ~|0|1>
          <defLit> <packed ~|0|1> <lazy> <ov>
  SVC  := svc <name> <n> (<name> <in> <out>)*
  EXTS := externs <n> ( xmsg <full> <mapEntry> <messageSet> <imported> xr <n> (<s> <e>)*
                      | xenum <full> <closed> <imported> vals <n> (<name> <num>)* | xother <full> <imported> )*
  strings: lower-case hex, `-` = empty, `~` = absent;  ov: `-` | code=value(,code=value)*
-/
open Driver Desc

namespace DescWire

abbrev P := StateT (List String) (Except String)

def next : P String := do
  match (← get) with
  | [] => throw "eof"
  | t :: r => set r; pure t

def expect (kw : String) : P Unit := do
  let t ← next
  if t == kw then pure () else throw s!"expected {kw} got {t}"

def pNat : P Nat := do
  match (← next).toNat? with | some n => pure n | none => throw "nat"

def pInt : P Int := do
  match (← next).toInt? with | some n => pure n | none => throw "int"

def strOfHex (t : String) : Option Str := (bytesOfHex t).map fun bs => bs.map (·.toNat)

def pStr : P Str := do
  match strOfHex (← next) with | some s => pure s | none => throw "hex"

def pOptStr : P (Option Str) := do
  let t ← next
  if t == "~" then pure none else
  match strOfHex t with | some s => pure (some s) | none => throw "hex"

def pBool : P Bool := do
  let t ← next
  if t == "1" then pure true else if t == "0" then pure false else throw "bool"

def pOptBool : P (Option Bool) := do
  let t ← next
  if t == "~" then pure none else if t == "1" then pure (some true) else if t == "0" then pure (some false) else throw "optbool"

def pOptInt : P (Option Int) := do
  let t ← next
  if t == "~" then pure none else match t.toInt? with | some n => pure (some n) | none => throw "optint"

def pOptNat : P (Option Nat) := do
  let t ← next
  if t == "~" then pure none else match t.toNat? with | some n => pure (some n) | none => throw "optnat"

def parseOvTok (s : String) : Option Overrides :=
  if s == "-" then some Overrides.empty else
  (s.splitOn ",").foldl (fun acc kv => acc.bind fun o =>
    match kv.splitOn "=" with
    | [k, v] => match k.toNat?, v.toNat? with
      | some k, some v => (Feature.all.find? (fun f => f.code == k)).map fun f => o.set f v
      | _, _ => none
    | _ => none) (some Overrides.empty)

def pOv : P Overrides := do
  match parseOvTok (← next) with | some o => pure o | none => throw "ov"

def pMany {α} (p : P α) : Nat → P (List α)
  | 0 => pure []
  | n + 1 => do let x ← p; let xs ← pMany p n; pure (x :: xs)

def pCounted {α} (kw : String) (p : P α) : P (List α) := do
  expect kw
  let n ← pNat
  pMany p n

def pRange : P (Int × Int) := do let s ← pInt; let e ← pInt; pure (s, e)

def pField : P FieldP := do
  expect "fld"
  let name ← pStr
  let number ← pOptInt
  let label ← pOptNat
  let type ← pNat
  let typeName ← pOptStr
  let extendee ← pOptStr
  let oneofIndex ← pOptInt
  let jsonName ← pOptStr
  let p3 ← pBool
  let defOk ← pOptBool
  let defLit ← pStr
  let packed ← pOptBool
  let lazy ← pBool
  let ov ← pOv
  pure { name, number, label, type, typeName, extendee, oneofIndex, jsonName, proto3Optional := p3
         defaultOk := defOk, defaultLit := defLit, packed, lazy, features := ov }

def pEnum : P EnumP := do
  expect "enum"
  let name ← pStr
  let alias ← pBool
  let ov ← pOv
  let vals ← pCounted "vals" (do let n ← pStr; let k ← pOptInt; pure ({ name := n, number := k } : EnumValueP))
  let rr ← pCounted "rr" pRange
  let rn ← pCounted "rn" pStr
  pure { name, values := vals, resRanges := rr, resNames := rn, allowAlias := alias, features := ov }

def pMsg : Nat → P MessageP
  | 0 => throw "fuel"
  | fuel + 1 => do
    expect "msg"
    let name ← pStr
    let me ← pBool
    let ms ← pBool
    let ov ← pOv
    let flds ← pCounted "flds" pField
    let oneofs ← pCounted "oneofs" (do let n ← pStr; let o ← pOv; pure ({ name := n, features := o } : OneofP))
    let nested ← pCounted "nested" (pMsg fuel)
    let enums ← pCounted "enums" pEnum
    let exts ← pCounted "exts" pField
    let xr ← pCounted "xr" pRange
    let rr ← pCounted "rr" pRange
    let rn ← pCounted "rn" pStr
    pure (.mk name flds oneofs (MessagePList.ofList nested) enums exts xr rr rn me ms ov)

def pSvc : P ServiceP := do
  expect "svc"
  let name ← pStr
  let n ← pNat
  let ms ← pMany (do let a ← pStr; let i ← pStr; let o ← pStr; pure ({ name := a, input := i, output := o } : MethodP)) n
  pure { name, methods := ms }

def pFile (fuel : Nat) : P FileP := do
  expect "file"
  let path ← pStr
  let pkg ← pStr
  let syn ← pNat
  let edition ← pNat
  let ov ← pOv
  let enums ← pCounted "enums" pEnum
  let msgs ← pCounted "msgs" (pMsg fuel)
  let exts ← pCounted "exts" pField
  let svcs ← pCounted "svcs" pSvc
  pure { path, pkg, syn, edition, features := ov, messages := MessagePList.ofList msgs, enums, exts, services := svcs }

def pExtern : P Extern := do
  let t ← next
  if t == "xmsg" then do
    let full ← pStr; let me ← pBool; let ms ← pBool; let imp ← pBool
    let xr ← pCounted "xr" pRange
    pure { fullName := full, kind := .msg me ms xr, imported := imp }
  else if t == "xenum" then do
    let full ← pStr; let closed ← pBool; let imp ← pBool
    let vals ← pCounted "vals" (do let n ← pStr; let k ← pInt; pure (n, k))
    pure { fullName := full, kind := .enum closed vals, imported := imp }
  else if t == "xother" then do
    let full ← pStr; let imp ← pBool
    pure { fullName := full, kind := .other, imported := imp }
  else throw "extern"

/-! printer -/

def hexOfStr (s : Str) : String := hexOfBytes (s.map fun n => BitVec.ofNat 8 n)
def showOptStr : Option Str → String | none => "~" | some s => hexOfStr s
def showB (b : Bool) : String := if b then "1" else "0"
def showOptB : Option Bool → String | none => "~" | some b => showB b
def showOptI : Option Int → String | none => "~" | some n => toString n
def showOptN : Option Nat → String | none => "~" | some n => toString n

def showOv (o : Overrides) : String :=
  let ps := Feature.all.filterMap fun f => (o.get f).map fun v => s!"{f.code}={v}"
  if ps.isEmpty then "-" else ",".intercalate ps

def showRanges (kw : String) (l : List (Int × Int)) : String :=
  s!"{kw} {l.length}" ++ String.join (l.map fun r => s!" {r.1} {r.2}")

def showNames (kw : String) (l : List Str) : String :=
  s!"{kw} {l.length}" ++ String.join (l.map fun n => " " ++ hexOfStr n)

def showField (f : FieldP) : String :=
  s!"fld {hexOfStr f.name} {showOptI f.number} {showOptN f.label} {f.type} {showOptStr f.typeName} {showOptStr f.extendee} {showOptI f.oneofIndex} {showOptStr f.jsonName} {showB f.proto3Optional} {showOptB f.defaultOk} {hexOfStr f.defaultLit} {showOptB f.packed} {showB f.lazy} {showOv f.features}"

def showEnum (e : EnumP) : String :=
  s!"enum {hexOfStr e.name} {showB e.allowAlias} {showOv e.features} vals {e.values.length}" ++
    String.join (e.values.map fun v => s!" {hexOfStr v.name} {showOptI v.number}") ++ " " ++
    showRanges "rr" e.resRanges ++ " " ++ showNames "rn" e.resNames

mutual
def showMsg : MessageP → String
  | .mk name flds oneofs nested enums exts xr rr rn me ms ov =>
    s!"msg {hexOfStr name} {showB me} {showB ms} {showOv ov} flds {flds.length}" ++
      String.join (flds.map fun f => " " ++ showField f) ++
      s!" oneofs {oneofs.length}" ++ String.join (oneofs.map fun o => s!" {hexOfStr o.name} {showOv o.features}") ++
      " nested " ++ showMsgs nested ++
      s!" enums {enums.length}" ++ String.join (enums.map fun e => " " ++ showEnum e) ++
      s!" exts {exts.length}" ++ String.join (exts.map fun f => " " ++ showField f) ++
      " " ++ showRanges "xr" xr ++ " " ++ showRanges "rr" rr ++ " " ++ showNames "rn" rn
def showMsgs : MessagePList → String
  | ms => toString (lenP ms) ++ showMsgsAux ms
def showMsgsAux : MessagePList → String
  | .nil => ""
  | .cons m ms => " " ++ showMsg m ++ showMsgsAux ms
def lenP : MessagePList → Nat
  | .nil => 0
  | .cons _ ms => lenP ms + 1
end

def showFile (p : FileP) : String :=
  s!"file {hexOfStr p.path} {hexOfStr p.pkg} {p.syn} {p.edition} {showOv p.features} enums {p.enums.length}" ++
    String.join (p.enums.map fun e => " " ++ showEnum e) ++
    " msgs " ++ showMsgs p.messages ++
    s!" exts {p.exts.length}" ++ String.join (p.exts.map fun f => " " ++ showField f) ++
    s!" svcs {p.services.length}" ++ String.join (p.services.map fun s =>
      s!" svc {hexOfStr s.name} {s.methods.length}" ++ String.join (s.methods.map fun m =>
        s!" {hexOfStr m.name} {hexOfStr m.input} {hexOfStr m.output}"))

def ruleName (r : Rule) : String := (reprStr r).replace "Desc.Rule." ""

/-- `newfile <allow> <legacy> <dump> externs … file …` -/
def newfileStep (ws : List String) : String :=
  let go : P String := do
    let allow ← pBool
    let legacy ← pBool
    let dump ← pBool
    let externs ← pCounted "externs" pExtern
    let p ← pFile 64
    let rest ← get
    if !rest.isEmpty then throw "trailing tokens"
    let env : Env := { allowUnresolvable := allow, protoLegacy := legacy, externs }
    match newFile env p with
    | .ok d => pure (if dump then "ok " ++ showFile (toProto d) else "ok")
    | .error r => pure ("error " ++ ruleName r)
  match go.run ws with
  | .ok (s, _) => s
  | .error _ => "bad-op"

end DescWire
