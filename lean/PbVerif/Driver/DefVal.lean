import PbVerif.Driver.Util
import PbVerif.Model.DefVal
/- `pbmodel_defval`: executes Model.DefVal on request lines (see go/harness/defval/main.go for the verbs).

Strings are hex (`-` = empty).  Values: `b:0|1  i32:<dec>  i64:<dec>  u32:<dec>  u64:<dec>  f32:<8 hex>|nan
f64:<16 hex>|nan  s:<hex>  y:<hex>  e:<dec>`.  An enum value is `<namehex>:<dec>`, a list of them is comma-separated,
`_` stands for "none"/"empty list".  The float codec is supplied per request by the harness (the text that
strconv.FormatFloat produced, the bits that strconv.ParseFloat(s, 64) and ParseFloat(s, 32) produced, `_` = error/not applicable): the model
contributes the control flow around it (special tokens, widening, narrowing). -/
open Driver Model.DefVal

namespace DefValDriver

def natOfHexChars : List Char → Option Nat
  | cs => cs.foldl (fun acc c => acc.bind fun a => (hexVal c).map fun d => a * 16 + d) (some 0)

def natOfHex (s : String) : Option Nat := if s.isEmpty then none else natOfHexChars s.toList

def hexOfNat (width : Nat) (n : Nat) : String :=
  String.ofList ((List.range width).reverse.map fun i => hexDigit (n / 16 ^ i % 16))

def kindOf : String → Option Kind
  | "bool" => some .bool | "enum" => some .enum | "int32" => some .int32 | "sint32" => some .sint32
  | "uint32" => some .uint32 | "int64" => some .int64 | "sint64" => some .sint64 | "uint64" => some .uint64
  | "sfixed32" => some .sfixed32 | "fixed32" => some .fixed32 | "float" => some .float
  | "sfixed64" => some .sfixed64 | "fixed64" => some .fixed64 | "double" => some .double
  | "string" => some .string | "bytes" => some .bytes | "message" => some .message | "group" => some .group
  | _ => none

def formatOf : String → Option Format
  | "D" => some .descriptor | "G" => some .goTag | _ => none

def valueOf (s : String) : Option Value :=
  match s.splitOn ":" with
  | ["b", "0"] => some (.bool false)
  | ["b", "1"] => some (.bool true)
  | ["i32", d] => d.toInt?.map fun v => .int32 (BitVec.ofInt 32 v)
  | ["i64", d] => d.toInt?.map fun v => .int64 (BitVec.ofInt 64 v)
  | ["u32", d] => d.toNat?.map fun v => .uint32 (BitVec.ofNat 32 v)
  | ["u64", d] => d.toNat?.map fun v => .uint64 (BitVec.ofNat 64 v)
  | ["f32", h] => (natOfHex h).map fun v => .float32 (BitVec.ofNat 32 v)
  | ["f64", h] => (natOfHex h).map fun v => .float64 (BitVec.ofNat 64 v)
  | ["s", h] => (bytesOfHex h).map .string
  | ["y", h] => (bytesOfHex h).map .bytes
  | ["e", d] => d.toInt?.map fun v => .enum (BitVec.ofInt 32 v)
  | _ => none

def showValue : Value → String
  | .bool b => if b then "b:1" else "b:0"
  | .int32 v => s!"i32:{v.toInt}"
  | .int64 v => s!"i64:{v.toInt}"
  | .uint32 v => s!"u32:{v.toNat}"
  | .uint64 v => s!"u64:{v.toNat}"
  | .float32 b => if isNaN32 b then "f32:nan" else "f32:" ++ hexOfNat 8 b.toNat
  | .float64 b => if isNaN64 b then "f64:nan" else "f64:" ++ hexOfNat 16 b.toNat
  | .string s => "s:" ++ hexOfBytes s
  | .bytes b => "y:" ++ hexOfBytes b
  | .enum n => s!"e:{n.toInt}"

def evOf (s : String) : Option EnumValue :=
  match s.splitOn ":" with
  | [n, d] => do
    let name ← bytesOfHex n
    let num ← d.toInt?
    pure ⟨name, BitVec.ofInt 32 num⟩
  | _ => none

def showEv : Option EnumValue → String
  | none => "_"
  | some ev => s!"{hexOfBytes ev.name}:{ev.number.toInt}"

def evsOf (s : String) : Option (List EnumValue) :=
  if s == "_" then some [] else (s.splitOn ",").mapM evOf

def optEvOf (s : String) : Option (Option EnumValue) :=
  if s == "_" then some none else (evOf s).map some

/-- codec from the strconv results that the harness supplies with the request -/
def codec (fmt : List Model.DefVal.Byte) (p64 : Option (BitVec 64)) (p32 : BitVec 64) : FloatCodec :=
  { format32 := fun _ => fmt, format64 := fun _ => fmt, parse64 := fun _ => p64, parse32 := fun _ => p32 }

def optBits (w : Nat) (s : String) : Option (Option (BitVec w)) :=
  if s == "_" then some none else (natOfHex s).map fun n => some (BitVec.ofNat w n)

def showRes (r : Option (Value × Option EnumValue)) : String :=
  match r with
  | none => "err"
  | some (v, ev) => s!"ok {showValue v} {showEv ev}"

def step : List String → String
  | ["marshalBytes", h] => match bytesOfHex h with
    | some b => hexOfBytes (marshalBytes b) | none => "bad-op"
  | ["unmarshalBytes", h] => match bytesOfHex h with
    | some s => (match unmarshalBytesRes s with
      | .ok v => "ok " ++ hexOfBytes v
      | .eof => "err"
      | .syntax => "err"
      | .unsupported => "unsupported")
    | none => "bad-op"
  | ["formatInt", d] => match d.toInt? with
    | some v => hexOfBytes (formatInt v) | none => "bad-op"
  | ["formatUint", d] => match d.toNat? with
    | some v => hexOfBytes (formatUint v) | none => "bad-op"
  | ["parseInt", bits, h] => match bits.toNat?, bytesOfHex h with
    | some n, some s => (match parseInt n s with | some v => s!"ok {v}" | none => "err")
    | _, _ => "bad-op"
  | ["parseUint", bits, h] => match bits.toNat?, bytesOfHex h with
    | some n, some s => (match parseUint n s with | some v => s!"ok {v}" | none => "err")
    | _, _ => "bad-op"
  | ["widen", h] => match natOfHex h with
    | some n => showValue (.float64 (widen (BitVec.ofNat 32 n))) | none => "bad-op"
  | ["narrow", h] => match natOfHex h with
    | some n => showValue (.float32 (narrow (BitVec.ofNat 64 n))) | none => "bad-op"
  | ["marshal", f, k, v, ev, fmt] =>
    match formatOf f, kindOf k, valueOf v, optEvOf ev, bytesOfHex fmt with
    | some f, some k, some v, some ev, some fmt =>
      (match marshal (codec fmt none 0#64) v ev k f with
       | some s => "ok " ++ hexOfBytes s
       | none => "err")
    | _, _, _, _, _ => "bad-op"
  | ["unmarshal", f, k, h, evs, p64, p32] =>
    -- p32: the float64 bits that `v, _ = ParseFloat(s, 32)` leaves; `_` (= not a float kind / not reached) is 0
    match formatOf f, kindOf k, bytesOfHex h, evsOf evs, optBits 64 p64, optBits 64 p32 with
    | some f, some k, some s, some evs, some p64, some p32 =>
      showRes (unmarshal (codec [] p64 (p32.getD 0#64)) s k evs f)
    | _, _, _, _, _, _ => "bad-op"
  | _ => "bad-op"

end DefValDriver

def main : IO Unit := Driver.run DefValDriver.step
