def hello := "world"
