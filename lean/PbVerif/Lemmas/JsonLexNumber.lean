import PbVerif.Model.JsonLex
/-
Helper lemmas for C21/C22: `parseNumber` (decode_number.go) against the RFC 8259 number grammar.

`parseNumber` accepts exactly the RFC 8259 numbers that are followed by a delimiter or the end of input
(since repo commit be83e9c, which repaired DESIGN.md finding 4).
-/
namespace JsonLex
open RFC

/-! ### byte-class facts (decided over all 256 bytes) -/

theorem digit_notDelim : ∀ c : Byte, isDigit c = true → isNotDelim c = true := by decide
theorem digit19_digit : ∀ c : Byte, isDigit19 c = true → isDigit c = true := by decide
theorem digit19_ne_zero : ∀ c : Byte, isDigit19 c = true → c ≠ 0x30#8 := by decide
theorem digit_zero_or_19 : ∀ c : Byte, isDigit c = true → c = 0x30#8 ∨ isDigit19 c = true := by decide
theorem digit_ne_minus : ∀ c : Byte, isDigit c = true → c ≠ 0x2d#8 := by decide
theorem digit_ne_plus : ∀ c : Byte, isDigit c = true → c ≠ 0x2b#8 := by decide
theorem digit_ne_dot : ∀ c : Byte, isDigit c = true → c ≠ 0x2e#8 := by decide
theorem digit_ne_e : ∀ c : Byte, isDigit c = true → c ≠ 0x65#8 ∧ c ≠ 0x45#8 := by decide
theorem delim_not_digit : ∀ c : Byte, isNotDelim c = false → isDigit c = false := by decide
theorem delim_ne_dot : ∀ c : Byte, isNotDelim c = false → c ≠ 0x2e#8 := by decide
theorem delim_ne_e : ∀ c : Byte, isNotDelim c = false → c ≠ 0x65#8 ∧ c ≠ 0x45#8 := by decide
theorem delim_ne_minus : ∀ c : Byte, isNotDelim c = false → c ≠ 0x2d#8 := by decide
theorem e_notDelim : ∀ c : Byte, (c = 0x65#8 ∨ c = 0x45#8) → isNotDelim c = true := by decide
theorem e_not_digit : ∀ c : Byte, (c = 0x65#8 ∨ c = 0x45#8) → isDigit c = false := by decide
theorem sign_not_digit : ∀ c : Byte, (c = 0x2b#8 ∨ c = 0x2d#8) → isDigit c = false := by decide
theorem sign_notDelim : ∀ c : Byte, (c = 0x2b#8 ∨ c = 0x2d#8) → isNotDelim c = true := by decide
theorem dot_not_digit : isDigit (0x2e#8) = false := by decide
theorem dot_notDelim : isNotDelim (0x2e#8) = true := by decide

/-! ### digit runs -/

/-- the first byte of `r`, if there is one, is a delimiter (`!isNotDelim`) -/
def DelimOK (r : Bytes) : Prop := ∀ c ∈ r.head?, isNotDelim c = false
/-- the first byte of `r`, if there is one, is not a digit -/
def NoDigitHead (r : Bytes) : Prop := ∀ c ∈ r.head?, isDigit c = false

theorem DelimOK.nil : DelimOK [] := by simp [DelimOK]
theorem DelimOK.cons {c : Byte} {t : Bytes} : DelimOK (c :: t) ↔ isNotDelim c = false := by simp [DelimOK]
theorem NoDigitHead.nil : NoDigitHead [] := by simp [NoDigitHead]
theorem NoDigitHead.cons {c : Byte} {t : Bytes} : NoDigitHead (c :: t) ↔ isDigit c = false := by simp [NoDigitHead]

theorem DelimOK.noDigitHead {r : Bytes} (h : DelimOK r) : NoDigitHead r := by
  cases r with
  | nil => exact NoDigitHead.nil
  | cons c t => exact NoDigitHead.cons.2 (delim_not_digit c (DelimOK.cons.1 h))

theorem AllDigits.nil : AllDigits [] := by simp [AllDigits]
theorem AllDigits.cons {c : Byte} {t : Bytes} : AllDigits (c :: t) ↔ isDigit c = true ∧ AllDigits t := by
  simp [AllDigits]
theorem AllDigits.append {a b : Bytes} : AllDigits (a ++ b) ↔ AllDigits a ∧ AllDigits b := by
  simp only [AllDigits, List.mem_append]
  constructor
  · intro h; exact ⟨fun d hd => h d (Or.inl hd), fun d hd => h d (Or.inr hd)⟩
  · rintro ⟨h1, h2⟩ d (hd | hd)
    · exact h1 d hd
    · exact h2 d hd

theorem allDigits_takeWhile (s : Bytes) : AllDigits (s.takeWhile isDigit) := by
  induction s with
  | nil => simp [AllDigits]
  | cons c t ih =>
    by_cases h : isDigit c = true
    · rw [List.takeWhile_cons_of_pos h]; exact AllDigits.cons.2 ⟨h, ih⟩
    · rw [List.takeWhile_cons_of_neg h]; exact AllDigits.nil

theorem noDigitHead_dropWhile (s : Bytes) : NoDigitHead (s.dropWhile isDigit) := by
  induction s with
  | nil => simp [NoDigitHead]
  | cons c t ih =>
    by_cases h : isDigit c = true
    · rw [List.dropWhile_cons_of_pos h]; exact ih
    · rw [List.dropWhile_cons_of_neg h]; exact NoDigitHead.cons.2 (by simpa using h)

theorem takeWhile_digits_append {ds r : Bytes} (hds : AllDigits ds) (hr : NoDigitHead r) :
    (ds ++ r).takeWhile isDigit = ds := by
  rw [List.takeWhile_append_of_pos hds]
  cases r with
  | nil => simp
  | cons c t =>
    have := NoDigitHead.cons.1 hr
    rw [List.takeWhile_cons_of_neg (by simp [this])]; simp

theorem dropWhile_digits_append {ds r : Bytes} (hds : AllDigits ds) (hr : NoDigitHead r) :
    (ds ++ r).dropWhile isDigit = r := by
  rw [List.dropWhile_append_of_pos hds]
  cases r with
  | nil => simp
  | cons c t =>
    have := NoDigitHead.cons.1 hr
    rw [List.dropWhile_cons_of_neg (by simp [this])]

theorem digitsLen_append {ds r : Bytes} (hds : AllDigits ds) (hr : NoDigitHead r) :
    digitsLen (ds ++ r) = ds.length := by
  unfold digitsLen; rw [takeWhile_digits_append hds hr]

theorem dropDigits_append {ds r : Bytes} (hds : AllDigits ds) (hr : NoDigitHead r) :
    dropDigits (ds ++ r) = r := dropWhile_digits_append hds hr

/-- every byte string splits into its leading digit run and a rest that does not start with a digit -/
theorem digit_split (s : Bytes) : ∃ ds r, s = ds ++ r ∧ AllDigits ds ∧ NoDigitHead r ∧
    digitsLen s = ds.length ∧ dropDigits s = r ∧ s.takeWhile isDigit = ds :=
  ⟨s.takeWhile isDigit, s.dropWhile isDigit, List.takeWhile_append_dropWhile.symm,
    allDigits_takeWhile s, noDigitHead_dropWhile s, rfl, rfl, rfl⟩

/-! ### the language of the current code -/

/-- `[ minus ] int [ frac ]` followed by an exponent part `e` with `E e rest` (`rest` = what follows) -/
inductive NumberG (E : Bytes → Bytes → Prop) : Bytes → Bytes → Prop
  | mk (m i f e rest : Bytes) : MinusOpt m → IntPart i → FracOpt f → E e rest →
      NumberG E (m ++ (i ++ (f ++ e))) rest

/-- what the stages before the exponent need to know about an exponent stage `expF` accepting `E` -/
structure ExpStage (expF : Bytes → Bytes → Nat → Option Nat) (E : Bytes → Bytes → Prop) : Prop where
  sound : ∀ {input pre s : Bytes} {k : Nat}, input = pre ++ s → expF input s pre.length = some k →
    ∃ e rest, s = e ++ rest ∧ k = pre.length + e.length ∧ DelimOK rest ∧ E e rest
  complete : ∀ {input pre e rest : Bytes}, input = pre ++ (e ++ rest) → E e rest → DelimOK rest →
    expF input (e ++ rest) pre.length = some (pre.length + e.length)
  head : ∀ {e rest : Bytes}, E e rest → DelimOK rest →
    ∀ c ∈ (e ++ rest).head?, isDigit c = false ∧ c ≠ 0x2e#8

/-! ### numDelim -/

theorem getElem?_append_length {α} (pre s : List α) : (pre ++ s)[pre.length]? = s.head? := by
  rw [List.getElem?_append_right (Nat.le_refl _), Nat.sub_self, List.head?_eq_getElem?]

theorem numDelim_iff {input pre s : Bytes} (h : input = pre ++ s) (k : Nat) :
    numDelim input pre.length = some k ↔ k = pre.length ∧ DelimOK s := by
  subst h
  unfold numDelim
  rw [getElem?_append_length]
  cases s with
  | nil => simp [DelimOK.nil]; exact eq_comm
  | cons c t =>
    simp only [List.head?_cons, DelimOK.cons]
    cases hc : isNotDelim c <;> simp [eq_comm]

/-- `numDelim` with the count written as a sum -/
theorem numDelim_iff' {input pre e rest : Bytes} (h : input = pre ++ (e ++ rest)) (k : Nat) :
    numDelim input (pre.length + e.length) = some k ↔ k = pre.length + e.length ∧ DelimOK rest := by
  have h' : input = (pre ++ e) ++ rest := by rw [h, List.append_assoc]
  have := numDelim_iff h' k
  rwa [List.length_append] at this

/-! ### exponent stage -/

theorem numExp_sound {input pre s : Bytes} (h : input = pre ++ s) {k : Nat}
    (hk : numExp input s pre.length = some k) :
    ∃ e rest, s = e ++ rest ∧ k = pre.length + e.length ∧ DelimOK rest ∧ ExpOpt e := by
  have noexp : numDelim input pre.length = some k →
      ∃ e rest, s = e ++ rest ∧ k = pre.length + e.length ∧ DelimOK rest ∧ ExpOpt e := by
    intro hnd
    obtain ⟨hkk, hdl⟩ := (numDelim_iff h k).1 hnd
    exact ⟨[], s, rfl, by simpa using hkk, hdl, ExpOpt.none⟩
  rcases s with _ | ⟨c0, _ | ⟨c1, t⟩⟩
  · exact noexp (by simpa [numExp] using hk)
  · exact noexp (by simpa [numExp] using hk)
  · simp only [numExp] at hk
    split at hk
    next he =>
      split at hk
      next hs =>
        cases t with
        | nil => simp at hk
        | cons d t' =>
          simp only at hk
          split at hk
          next hdg =>
            obtain ⟨ds, r, ht, hds, hr, hlen, -, -⟩ := digit_split t'
            have hlen' : digitsLen (d :: t') = ds.length + 1 := by
              unfold digitsLen at hlen ⊢
              rw [List.takeWhile_cons_of_pos hdg]; simp [hlen]
            have hin : input = pre ++ ((c0 :: c1 :: d :: ds) ++ r) := by rw [h]; simp [ht]
            have hk' : numDelim input (pre.length + (c0 :: c1 :: d :: ds).length) = some k := by
              rw [← hk, hlen']; simp only [List.length_cons]; congr 1; omega
            obtain ⟨hkk, hdl⟩ := (numDelim_iff' hin k).1 hk'
            have hsg : SignOpt [c1] := by
              rcases hs with rfl | rfl
              · exact SignOpt.plus
              · exact SignOpt.minus
            exact ⟨c0 :: c1 :: d :: ds, r, by simp [ht], hkk, hdl, ExpOpt.some c0 [c1] d ds he hsg hdg hds⟩
          next => simp at hk
      next hs =>
        split at hk
        next hdg =>
          obtain ⟨ds, r, ht, hds, hr, hlen, -, -⟩ := digit_split t
          have hlen' : digitsLen (c1 :: t) = ds.length + 1 := by
            unfold digitsLen at hlen ⊢
            rw [List.takeWhile_cons_of_pos hdg]; simp [hlen]
          have hin : input = pre ++ ((c0 :: c1 :: ds) ++ r) := by rw [h]; simp [ht]
          have hk' : numDelim input (pre.length + (c0 :: c1 :: ds).length) = some k := by
            rw [← hk, hlen']; simp only [List.length_cons]; congr 1; omega
          obtain ⟨hkk, hdl⟩ := (numDelim_iff' hin k).1 hk'
          exact ⟨c0 :: c1 :: ds, r, by simp [ht], hkk, hdl, ExpOpt.some c0 [] c1 ds he SignOpt.none hdg hds⟩
        next => simp at hk
    next he => exact noexp hk

theorem numExp_complete {input pre e rest : Bytes} (h : input = pre ++ (e ++ rest))
    (he : ExpOpt e) (hd : DelimOK rest) :
    numExp input (e ++ rest) pre.length = some (pre.length + e.length) := by
  have key : ∀ a b, a = pre.length + e.length → b = a → numDelim input a = some b := by
    intro a b ha hb; subst hb; subst ha
    exact (numDelim_iff' h _).2 ⟨rfl, hd⟩
  cases he with
  | none =>
    rcases rest with _ | ⟨c0, _ | ⟨c1, t⟩⟩
    · simp only [List.nil_append, numExp]; exact key _ _ (by simp) (by simp)
    · simp only [List.nil_append, numExp]; exact key _ _ (by simp) (by simp)
    · have := delim_ne_e c0 (DelimOK.cons.1 hd)
      simp only [List.nil_append, numExp]
      rw [if_neg (by simp [this.1, this.2])]
      exact key _ _ (by simp) (by simp)
  | some e0 sg d ds he0 hsg hdg hds =>
    have hdl : digitsLen ((d :: ds) ++ rest) = (d :: ds).length :=
      digitsLen_append (AllDigits.cons.2 ⟨hdg, hds⟩) hd.noDigitHead
    have hdl' : digitsLen (d :: (ds ++ rest)) = ds.length + 1 := by simpa using hdl
    cases hsg with
    | none =>
      have h1 := digit_ne_plus d hdg
      have h2 := digit_ne_minus d hdg
      simp only [List.nil_append, List.cons_append, numExp, if_pos he0, h1, h2, or_self, if_false, hdl',
        hdg, if_true]
      exact key _ _ (by simp <;> omega) (by simp <;> omega)
    | plus =>
      simp only [List.cons_append, List.nil_append, numExp, if_pos he0, true_or, if_true, hdl', hdg]
      exact key _ _ (by simp <;> omega) (by simp <;> omega)
    | minus =>
      simp only [List.cons_append, List.nil_append, numExp, if_pos he0, or_true, if_true, hdl', hdg]
      exact key _ _ (by simp <;> omega) (by simp <;> omega)

/-! ### what follows the fraction -/

/-- what follows the fraction does not start with a digit or a decimal point -/
theorem exp_head {e rest : Bytes} (he : ExpOpt e) (hd : DelimOK rest) :
    ∀ c ∈ (e ++ rest).head?, isDigit c = false ∧ c ≠ 0x2e#8 := by
  intro c hc
  have hE : ∀ x : Byte, (x = 0x65#8 ∨ x = 0x45#8) → isDigit x = false ∧ x ≠ 0x2e#8 := by decide
  cases he with
  | none =>
    cases rest with
    | nil => simp at hc
    | cons r t =>
      simp at hc; subst hc
      exact ⟨delim_not_digit _ (DelimOK.cons.1 hd), delim_ne_dot _ (DelimOK.cons.1 hd)⟩
  | some e0 sg d ds he0 _ _ _ => simp at hc; subst hc; exact hE _ he0

/-- the exponent stage accepts exactly the RFC `[ exp ]` -/
theorem expStage_numExp : ExpStage numExp (fun e _ => ExpOpt e) :=
  ⟨fun h hk => numExp_sound h hk, fun h he hd => numExp_complete h he hd, fun he hd => exp_head he hd⟩

/-! ### fraction stage -/

section Generic
variable {expF : Bytes → Bytes → Nat → Option Nat} {E : Bytes → Bytes → Prop} (X : ExpStage expF E)
include X

theorem numFrac_sound {input pre s : Bytes} (h : input = pre ++ s) {k : Nat}
    (hk : numFracG expF input s pre.length = some k) :
    ∃ f e rest, s = f ++ (e ++ rest) ∧ k = pre.length + f.length + e.length ∧ DelimOK rest ∧
      FracOpt f ∧ E e rest := by
  have nofrac : expF input s pre.length = some k →
      ∃ f e rest, s = f ++ (e ++ rest) ∧ k = pre.length + f.length + e.length ∧ DelimOK rest ∧
        FracOpt f ∧ E e rest := by
    intro hx
    obtain ⟨e, rest, hs, hkk, hd, he⟩ := X.sound h hx
    exact ⟨[], e, rest, by simpa using hs, by simpa using hkk, hd, FracOpt.none, he⟩
  rcases s with _ | ⟨c0, _ | ⟨c1, t⟩⟩
  · exact nofrac (by simpa [numFracG] using hk)
  · exact nofrac (by simpa [numFracG] using hk)
  · simp only [numFracG] at hk
    split at hk
    next hc =>
      obtain ⟨rfl, hc1⟩ := hc
      obtain ⟨ds, r, ht, hds, hr, hlen, hdrop, -⟩ := digit_split t
      have hin : input = (pre ++ (0x2e#8 :: c1 :: ds)) ++ r := by rw [h]; simp [ht]
      have hcount : pre.length + 2 + digitsLen t = (pre ++ (0x2e#8 :: c1 :: ds)).length := by
        rw [hlen]; simp <;> omega
      rw [hdrop, hcount] at hk
      obtain ⟨e, rest, hs, hkk, hd, he⟩ := X.sound hin hk
      refine ⟨0x2e#8 :: c1 :: ds, e, rest, by simp [ht, hs], ?_, hd, FracOpt.some c1 ds hc1 hds, he⟩
      rw [hkk]; simp
    next => exact nofrac hk

theorem numFrac_complete {input pre f e rest : Bytes} (h : input = pre ++ (f ++ (e ++ rest)))
    (hf : FracOpt f) (he : E e rest) (hd : DelimOK rest) :
    numFracG expF input (f ++ (e ++ rest)) pre.length = some (pre.length + f.length + e.length) := by
  have hhead := X.head he hd
  cases hf with
  | none =>
    have hx : expF input (e ++ rest) pre.length = some (pre.length + e.length) :=
      X.complete (by simpa using h) he hd
    simp only [List.nil_append, List.length_nil, Nat.add_zero]
    rcases hs : e ++ rest with _ | ⟨c0, _ | ⟨c1, t⟩⟩
    · rw [hs] at hx; simpa [numFracG] using hx
    · rw [hs] at hx; simpa [numFracG] using hx
    · rw [hs] at hx hhead
      have := (hhead c0 (by simp)).2
      simp only [numFracG]
      rw [if_neg (by simp [this])]; exact hx
  | some d ds hdg hds =>
    have hnd : NoDigitHead (e ++ rest) := fun c hc => (hhead c hc).1
    have h1 : digitsLen (ds ++ (e ++ rest)) = ds.length := digitsLen_append hds hnd
    have h2 : dropDigits (ds ++ (e ++ rest)) = e ++ rest := dropDigits_append hds hnd
    have hin : input = (pre ++ (0x2e#8 :: d :: ds)) ++ (e ++ rest) := by rw [h]; simp
    have hx := X.complete hin he hd
    simp only [List.cons_append, numFracG, hdg, and_self, if_true, h1, h2]
    have hcount : pre.length + 2 + ds.length = (pre ++ (0x2e#8 :: d :: ds)).length := by simp <;> omega
    rw [hcount, hx]; simp <;> omega

/-! ### integer stage -/

/-- what follows the integer part does not start with a digit -/
theorem afterInt_head {f e rest : Bytes} (hf : FracOpt f) (he : E e rest) (hd : DelimOK rest) :
    NoDigitHead (f ++ (e ++ rest)) := by
  cases hf with
  | none => exact fun c hc => (X.head he hd c (by simpa using hc)).1
  | some d ds _ _ => intro c hc; simp at hc; subst hc; exact dot_not_digit

theorem numInt_sound {input pre s : Bytes} (h : input = pre ++ s) {k : Nat}
    (hk : numIntG expF input s pre.length = some k) :
    ∃ i f e rest, s = i ++ (f ++ (e ++ rest)) ∧ k = pre.length + i.length + f.length + e.length ∧
      DelimOK rest ∧ IntPart i ∧ FracOpt f ∧ E e rest := by
  rcases s with _ | ⟨c, t⟩
  · simp [numIntG] at hk
  · simp only [numIntG] at hk
    split at hk
    next hc =>
      subst hc
      have hin : input = (pre ++ [0x30#8]) ++ t := by rw [h]; simp
      have hcount : pre.length + 1 = (pre ++ [0x30#8]).length := by simp
      rw [hcount] at hk
      obtain ⟨f, e, rest, hs, hkk, hd, hf, he⟩ := numFrac_sound X hin hk
      refine ⟨[0x30#8], f, e, rest, by simp [hs], ?_, hd, IntPart.zero, hf, he⟩
      rw [hkk]; simp
    next hc =>
      split at hk
      next h19 =>
        obtain ⟨ds, r, ht, hds, hr, hlen, hdrop, -⟩ := digit_split t
        have hin : input = (pre ++ (c :: ds)) ++ r := by rw [h]; simp [ht]
        have hcount : pre.length + 1 + digitsLen t = (pre ++ (c :: ds)).length := by
          rw [hlen]; simp <;> omega
        rw [hdrop, hcount] at hk
        obtain ⟨f, e, rest, hs, hkk, hd, hf, he⟩ := numFrac_sound X hin hk
        refine ⟨c :: ds, f, e, rest, by simp [ht, hs], ?_, hd, IntPart.nonzero c ds h19 hds, hf, he⟩
        rw [hkk]; simp
      next => simp at hk

theorem numInt_complete {input pre i f e rest : Bytes} (h : input = pre ++ (i ++ (f ++ (e ++ rest))))
    (hi : IntPart i) (hf : FracOpt f) (he : E e rest) (hd : DelimOK rest) :
    numIntG expF input (i ++ (f ++ (e ++ rest))) pre.length =
      some (pre.length + i.length + f.length + e.length) := by
  cases hi with
  | zero =>
    have hin : input = (pre ++ [0x30#8]) ++ (f ++ (e ++ rest)) := by rw [h]; simp
    have hx := numFrac_complete X hin hf he hd
    simp only [List.cons_append, List.nil_append, numIntG, if_true]
    have hcount : pre.length + 1 = (pre ++ [0x30#8]).length := by simp
    rw [hcount, hx]; simp
  | nonzero c ds h19 hds =>
    have hnd := afterInt_head X hf he hd
    have h1 : digitsLen (ds ++ (f ++ (e ++ rest))) = ds.length := digitsLen_append hds hnd
    have h2 : dropDigits (ds ++ (f ++ (e ++ rest))) = f ++ (e ++ rest) := dropDigits_append hds hnd
    have hin : input = (pre ++ (c :: ds)) ++ (f ++ (e ++ rest)) := by rw [h]; simp
    have hx := numFrac_complete X hin hf he hd
    simp only [List.cons_append, numIntG, if_neg (digit19_ne_zero c h19), h19, if_true, h1, h2]
    have hcount : pre.length + 1 + ds.length = (pre ++ (c :: ds)).length := by simp <;> omega
    rw [hcount, hx]; simp <;> omega

/-! ### parseNumber -/

omit X in
theorem intPart_head {i : Bytes} (hi : IntPart i) : ∃ c t, i = c :: t ∧ isDigit c = true := by
  cases hi with
  | zero => exact ⟨_, _, rfl, by decide⟩
  | nonzero c ds h _ => exact ⟨c, ds, rfl, digit19_digit c h⟩

/-- the exact language of `parseNumberG expF` when the exponent stage accepts exactly `E` -/
theorem parseNumberG_exact (s : Bytes) (n : Nat) :
    parseNumberG expF s = some n ↔
      ∃ p rest, s = p ++ rest ∧ p.length = n ∧ DelimOK rest ∧ NumberG E p rest := by
  constructor
  · intro hk
    rcases s with _ | ⟨c, t⟩
    · simp [parseNumberG] at hk
    · simp only [parseNumberG] at hk
      split at hk
      next hc =>
        subst hc
        rcases t with _ | ⟨d, t'⟩
        · simp at hk
        · simp only at hk
          have hin : (0x2d#8 :: d :: t') = [0x2d#8] ++ (d :: t') := rfl
          obtain ⟨i, f, e, rest, hs, hkk, hd, hi, hf, he⟩ := numInt_sound X (pre := [0x2d#8]) hin hk
          refine ⟨[0x2d#8] ++ (i ++ (f ++ e)), rest, by simp [hs], ?_, hd,
            NumberG.mk _ _ _ _ _ MinusOpt.minus hi hf he⟩
          rw [hkk]; simp <;> omega
      next hc =>
        have hin : (c :: t) = [] ++ (c :: t) := rfl
        obtain ⟨i, f, e, rest, hs, hkk, hd, hi, hf, he⟩ := numInt_sound X (pre := []) hin hk
        refine ⟨[] ++ (i ++ (f ++ e)), rest, by simp [hs], ?_, hd,
          NumberG.mk _ _ _ _ _ MinusOpt.none hi hf he⟩
        rw [hkk]; simp <;> omega
  · rintro ⟨p, rest, rfl, rfl, hd, hp⟩
    cases hp with
    | mk m i f e rest hm hi hf he =>
      obtain ⟨c, t, rfl, hc⟩ := intPart_head hi
      cases hm with
      | none =>
        have hx := numInt_complete X (input := [] ++ ((c :: t) ++ (f ++ (e ++ rest)))) (pre := []) rfl hi hf he hd
        simp only [List.nil_append, List.cons_append, List.append_assoc, parseNumberG,
          if_neg (digit_ne_minus c hc)]
        simp only [List.nil_append, List.cons_append, List.length_nil] at hx
        rw [hx]; simp <;> omega
      | minus =>
        have hx := numInt_complete X (input := [0x2d#8] ++ ((c :: t) ++ (f ++ (e ++ rest)))) (pre := [0x2d#8]) rfl hi hf he hd
        simp only [List.nil_append, List.cons_append, List.append_assoc, parseNumberG, if_true]
        simp only [List.nil_append, List.cons_append, List.length_cons, List.length_nil] at hx
        rw [hx]; simp <;> omega

end Generic

theorem numberG_iff {p rest : Bytes} : NumberG (fun e _ => ExpOpt e) p rest ↔ Number p := by
  constructor
  · rintro ⟨m, i, f, e, rest, hm, hi, hf, he⟩; exact Number.mk m i f e hm hi hf he
  · rintro ⟨m, i, f, e, hm, hi, hf, he⟩; exact NumberG.mk m i f e rest hm hi hf he

/-- **The exact language of `parseNumber`: the RFC 8259 numbers** (followed by a delimiter or nothing). -/
theorem parseNumber_exact (s : Bytes) (n : Nat) :
    parseNumber s = some n ↔ ∃ p rest, s = p ++ rest ∧ p.length = n ∧ DelimOK rest ∧ Number p := by
  unfold parseNumber
  rw [parseNumberG_exact expStage_numExp s n]
  simp only [numberG_iff]

end JsonLex
