import PbVerif.Model.JsonLex
/-
Helper lemmas for C21/C22: `parseNumber` (decode_number.go) against the RFC 8259 number grammar.

The exact language of the *current* code is the RFC grammar plus "dangling exponents": an exponent
marker and optional sign with no digit, provided at least one more byte follows (DESIGN.md finding 4).
-/
namespace JsonLex
open RFC

/-! ### byte-class facts (decided over all 256 bytes) -/

theorem digit_notDelim : ∀ c : Byte, isDigit c = true → isNotDelim c = true := by decide
theorem digit19_digit : ∀ c : Byte, isDigit19 c = true → isDigit c = true := by decide
theorem digit19_ne_zero : ∀ c : Byte, isDigit19 c = true → c ≠ 0x30#8 := by decide
theorem digit_zero_or_19 : ∀ c : Byte, isDigit c = true → c = 0x30#8 ∨ isDigit19 c = true := by decide
theorem digit_ne_minus : ∀ c : Byte, isDigit c = true → c ≠ 0x2d#8 := by decide
theorem digit_ne_plus : ∀ c : Byte, isDigit c = true → c ≠ 0x2b#8 := by decide
theorem digit_ne_dot : ∀ c : Byte, isDigit c = true → c ≠ 0x2e#8 := by decide
theorem digit_ne_e : ∀ c : Byte, isDigit c = true → c ≠ 0x65#8 ∧ c ≠ 0x45#8 := by decide
theorem delim_not_digit : ∀ c : Byte, isNotDelim c = false → isDigit c = false := by decide
theorem delim_ne_dot : ∀ c : Byte, isNotDelim c = false → c ≠ 0x2e#8 := by decide
theorem delim_ne_e : ∀ c : Byte, isNotDelim c = false → c ≠ 0x65#8 ∧ c ≠ 0x45#8 := by decide
theorem delim_ne_minus : ∀ c : Byte, isNotDelim c = false → c ≠ 0x2d#8 := by decide
theorem e_notDelim : ∀ c : Byte, (c = 0x65#8 ∨ c = 0x45#8) → isNotDelim c = true := by decide
theorem e_not_digit : ∀ c : Byte, (c = 0x65#8 ∨ c = 0x45#8) → isDigit c = false := by decide
theorem sign_not_digit : ∀ c : Byte, (c = 0x2b#8 ∨ c = 0x2d#8) → isDigit c = false := by decide
theorem sign_notDelim : ∀ c : Byte, (c = 0x2b#8 ∨ c = 0x2d#8) → isNotDelim c = true := by decide
theorem dot_not_digit : isDigit (0x2e#8) = false := by decide
theorem dot_notDelim : isNotDelim (0x2e#8) = true := by decide

/-! ### digit runs -/

/-- the first byte of `r`, if there is one, is a delimiter (`!isNotDelim`) -/
def DelimOK (r : Bytes) : Prop := ∀ c ∈ r.head?, isNotDelim c = false
/-- the first byte of `r`, if there is one, is not a digit -/
def NoDigitHead (r : Bytes) : Prop := ∀ c ∈ r.head?, isDigit c = false

theorem DelimOK.nil : DelimOK [] := by simp [DelimOK]
theorem DelimOK.cons {c : Byte} {t : Bytes} : DelimOK (c :: t) ↔ isNotDelim c = false := by simp [DelimOK]
theorem NoDigitHead.nil : NoDigitHead [] := by simp [NoDigitHead]
theorem NoDigitHead.cons {c : Byte} {t : Bytes} : NoDigitHead (c :: t) ↔ isDigit c = false := by simp [NoDigitHead]

theorem DelimOK.noDigitHead {r : Bytes} (h : DelimOK r) : NoDigitHead r := by
  cases r with
  | nil => exact NoDigitHead.nil
  | cons c t => exact NoDigitHead.cons.2 (delim_not_digit c (DelimOK.cons.1 h))

theorem AllDigits.nil : AllDigits [] := by simp [AllDigits]
theorem AllDigits.cons {c : Byte} {t : Bytes} : AllDigits (c :: t) ↔ isDigit c = true ∧ AllDigits t := by
  simp [AllDigits]
theorem AllDigits.append {a b : Bytes} : AllDigits (a ++ b) ↔ AllDigits a ∧ AllDigits b := by
  simp only [AllDigits, List.mem_append]
  constructor
  · intro h; exact ⟨fun d hd => h d (Or.inl hd), fun d hd => h d (Or.inr hd)⟩
  · rintro ⟨h1, h2⟩ d (hd | hd)
    · exact h1 d hd
    · exact h2 d hd

theorem allDigits_takeWhile (s : Bytes) : AllDigits (s.takeWhile isDigit) := by
  induction s with
  | nil => simp [AllDigits]
  | cons c t ih =>
    by_cases h : isDigit c = true
    · rw [List.takeWhile_cons_of_pos h]; exact AllDigits.cons.2 ⟨h, ih⟩
    · rw [List.takeWhile_cons_of_neg h]; exact AllDigits.nil

theorem noDigitHead_dropWhile (s : Bytes) : NoDigitHead (s.dropWhile isDigit) := by
  induction s with
  | nil => simp [NoDigitHead]
  | cons c t ih =>
    by_cases h : isDigit c = true
    · rw [List.dropWhile_cons_of_pos h]; exact ih
    · rw [List.dropWhile_cons_of_neg h]; exact NoDigitHead.cons.2 (by simpa using h)

theorem takeWhile_digits_append {ds r : Bytes} (hds : AllDigits ds) (hr : NoDigitHead r) :
    (ds ++ r).takeWhile isDigit = ds := by
  rw [List.takeWhile_append_of_pos hds]
  cases r with
  | nil => simp
  | cons c t =>
    have := NoDigitHead.cons.1 hr
    rw [List.takeWhile_cons_of_neg (by simp [this])]; simp

theorem dropWhile_digits_append {ds r : Bytes} (hds : AllDigits ds) (hr : NoDigitHead r) :
    (ds ++ r).dropWhile isDigit = r := by
  rw [List.dropWhile_append_of_pos hds]
  cases r with
  | nil => simp
  | cons c t =>
    have := NoDigitHead.cons.1 hr
    rw [List.dropWhile_cons_of_neg (by simp [this])]

theorem digitsLen_append {ds r : Bytes} (hds : AllDigits ds) (hr : NoDigitHead r) :
    digitsLen (ds ++ r) = ds.length := by
  unfold digitsLen; rw [takeWhile_digits_append hds hr]

theorem dropDigits_append {ds r : Bytes} (hds : AllDigits ds) (hr : NoDigitHead r) :
    dropDigits (ds ++ r) = r := dropWhile_digits_append hds hr

/-- every byte string splits into its leading digit run and a rest that does not start with a digit -/
theorem digit_split (s : Bytes) : ∃ ds r, s = ds ++ r ∧ AllDigits ds ∧ NoDigitHead r ∧
    digitsLen s = ds.length ∧ dropDigits s = r ∧ s.takeWhile isDigit = ds :=
  ⟨s.takeWhile isDigit, s.dropWhile isDigit, List.takeWhile_append_dropWhile.symm,
    allDigits_takeWhile s, noDigitHead_dropWhile s, rfl, rfl, rfl⟩

/-! ### the language of the current code -/

/-- an exponent marker and optional sign, with no digit -/
inductive DanglingExp : Bytes → Prop
  | mk (e : Byte) (sg : Bytes) : (e = 0x65#8 ∨ e = 0x45#8) → SignOpt sg → DanglingExp (e :: sg)

/-- what the exponent stage of the current `parseNumber` accepts in front of `rest` -/
def ExpLoose (e rest : Bytes) : Prop := ExpOpt e ∨ (DanglingExp e ∧ rest ≠ [])

/-- `[ minus ] int [ frac ]` followed by an `ExpLoose` exponent -/
inductive NumberLoose : Bytes → Bytes → Prop
  | mk (m i f e rest : Bytes) : MinusOpt m → IntPart i → FracOpt f → ExpLoose e rest →
      NumberLoose (m ++ (i ++ (f ++ e))) rest

/-! ### numDelim -/

theorem getElem?_append_length {α} (pre s : List α) : (pre ++ s)[pre.length]? = s.head? := by
  rw [List.getElem?_append_right (Nat.le_refl _), Nat.sub_self, List.head?_eq_getElem?]

theorem numDelim_iff {input pre s : Bytes} (h : input = pre ++ s) (k : Nat) :
    numDelim input pre.length = some k ↔ k = pre.length ∧ DelimOK s := by
  subst h
  unfold numDelim
  rw [getElem?_append_length]
  cases s with
  | nil => simp [DelimOK.nil]; exact eq_comm
  | cons c t =>
    simp only [List.head?_cons, DelimOK.cons]
    cases hc : isNotDelim c <;> simp [eq_comm]

/-- `numDelim` with the count written as a sum -/
theorem numDelim_iff' {input pre e rest : Bytes} (h : input = pre ++ (e ++ rest)) (k : Nat) :
    numDelim input (pre.length + e.length) = some k ↔ k = pre.length + e.length ∧ DelimOK rest := by
  have h' : input = (pre ++ e) ++ rest := by rw [h, List.append_assoc]
  have := numDelim_iff h' k
  rwa [List.length_append] at this

/-! ### exponent stage -/

theorem numExp_sound {input pre s : Bytes} (h : input = pre ++ s) {k : Nat}
    (hk : numExp input s pre.length = some k) :
    ∃ e rest, s = e ++ rest ∧ k = pre.length + e.length ∧ DelimOK rest ∧ ExpLoose e rest := by
  have noexp : numDelim input pre.length = some k →
      ∃ e rest, s = e ++ rest ∧ k = pre.length + e.length ∧ DelimOK rest ∧ ExpLoose e rest := by
    intro hd
    obtain ⟨rfl, hd⟩ := (numDelim_iff h k).1 hd
    exact ⟨[], s, rfl, rfl, hd, Or.inl ExpOpt.none⟩
  rcases s with _ | ⟨c0, _ | ⟨c1, t⟩⟩
  · exact noexp (by simpa [numExp] using hk)
  · exact noexp (by simpa [numExp] using hk)
  · simp only [numExp] at hk
    split at hk
    next he =>
      split at hk
      next hs =>
        -- sign present
        cases t with
        | nil => simp at hk
        | cons d t' =>
          simp only at hk
          obtain ⟨ds, r, ht, hds, hr, hlen, -, -⟩ := digit_split (d :: t')
          have hin : input = pre ++ ((c0 :: c1 :: ds) ++ r) := by
            rw [h]; simp [ht]
          have hk' : numDelim input (pre.length + (c0 :: c1 :: ds).length) = some k := by
            rw [← hk, hlen]; simp only [List.length_cons]; congr 1; omega
          obtain ⟨rfl, hd⟩ := (numDelim_iff' hin k).1 hk'
          refine ⟨c0 :: c1 :: ds, r, by simp [ht], rfl, hd, ?_⟩
          have hsg : SignOpt [c1] := by
            rcases hs with rfl | rfl
            · exact SignOpt.plus
            · exact SignOpt.minus
          cases ds with
          | nil =>
            refine Or.inr ⟨DanglingExp.mk c0 [c1] he hsg, ?_⟩
            simp at ht; simp [← ht]
          | cons d0 ds' =>
            exact Or.inl (ExpOpt.some c0 [c1] d0 ds' he hsg (AllDigits.cons.1 hds).1 (AllDigits.cons.1 hds).2)
      next hs =>
        -- no sign
        obtain ⟨ds, r, ht, hds, hr, hlen, -, -⟩ := digit_split (c1 :: t)
        have hin : input = pre ++ ((c0 :: ds) ++ r) := by
          rw [h]; simp [ht]
        have hk' : numDelim input (pre.length + (c0 :: ds).length) = some k := by
          rw [← hk, hlen]; simp only [List.length_cons]; congr 1; omega
        obtain ⟨rfl, hd⟩ := (numDelim_iff' hin k).1 hk'
        refine ⟨c0 :: ds, r, by simp [ht], rfl, hd, ?_⟩
        cases ds with
        | nil =>
          refine Or.inr ⟨DanglingExp.mk c0 [] he SignOpt.none, ?_⟩
          simp at ht; simp [← ht]
        | cons d0 ds' =>
          exact Or.inl (ExpOpt.some c0 [] d0 ds' he SignOpt.none (AllDigits.cons.1 hds).1 (AllDigits.cons.1 hds).2)
    next he => exact noexp hk

theorem numExp_complete {input pre e rest : Bytes} (h : input = pre ++ (e ++ rest))
    (he : ExpLoose e rest) (hd : DelimOK rest) :
    numExp input (e ++ rest) pre.length = some (pre.length + e.length) := by
  have fin : numDelim input (pre.length + e.length) = some (pre.length + e.length) :=
    (numDelim_iff' h _).2 ⟨rfl, hd⟩
  rcases he with he | ⟨he, hne⟩
  · cases he with
    | none =>
      -- no exponent: the rest starts with a delimiter, which is not `e`/`E`
      simp only [List.nil_append, List.length_nil, Nat.add_zero] at fin ⊢
      rcases rest with _ | ⟨c0, _ | ⟨c1, t⟩⟩
      · simpa [numExp] using fin
      · simpa [numExp] using fin
      · have := delim_ne_e c0 (DelimOK.cons.1 hd)
        simp only [numExp]
        rw [if_neg (by simp [this.1, this.2])]
        exact fin
    | some e0 sg d ds he0 hsg hdg hds =>
      have hdl : digitsLen ((d :: ds) ++ rest) = (d :: ds).length :=
        digitsLen_append (AllDigits.cons.2 ⟨hdg, hds⟩) hd.noDigitHead
      cases hsg with
      | none =>
        simp only [List.nil_append, List.cons_append, numExp]
        rw [if_pos he0, if_neg (by
          have := digit_ne_plus d hdg; have := digit_ne_minus d hdg; simp [*])]
        have : digitsLen (d :: (ds ++ rest)) = (d :: ds).length := by simpa using hdl
        rw [this, ← fin]; simp only [List.length_cons, List.nil_append]; congr 1; omega
      | plus =>
        simp only [List.cons_append, List.nil_append, numExp]
        rw [if_pos he0, if_pos (Or.inl rfl)]
        have : digitsLen (d :: (ds ++ rest)) = (d :: ds).length := by simpa using hdl
        simp only
        rw [this, ← fin]; simp only [List.length_cons, List.length_append, List.length_nil]; congr 1; omega
      | minus =>
        simp only [List.cons_append, List.nil_append, numExp]
        rw [if_pos he0, if_pos (Or.inr rfl)]
        have : digitsLen (d :: (ds ++ rest)) = (d :: ds).length := by simpa using hdl
        simp only
        rw [this, ← fin]; simp only [List.length_cons, List.length_append, List.length_nil]; congr 1; omega
  · obtain ⟨c, t, rfl⟩ := List.exists_cons_of_ne_nil hne
    have hc := DelimOK.cons.1 hd
    have hdl : digitsLen (c :: t) = 0 := by
      unfold digitsLen; rw [List.takeWhile_cons_of_neg (by simp [delim_not_digit c hc])]; rfl
    cases he with
    | mk e0 sg he0 hsg =>
      cases hsg with
      | none =>
        simp only [List.cons_append, List.nil_append, numExp]
        rw [if_pos he0, if_neg (by
          have := delim_ne_minus c hc
          have : c ≠ 0x2b#8 := by intro h; subst h; simp [isNotDelim] at hc
          simp [*])]
        rw [hdl, ← fin]; simp
      | plus =>
        simp only [List.cons_append, List.nil_append, numExp]
        rw [if_pos he0, if_pos (Or.inl rfl)]
        simp only
        rw [hdl, ← fin]; simp
      | minus =>
        simp only [List.cons_append, List.nil_append, numExp]
        rw [if_pos he0, if_pos (Or.inr rfl)]
        simp only
        rw [hdl, ← fin]; simp

end JsonLex
