import PbVerif.Lemmas.JsonTextRoundJ3
/-
Text round trip, part 1: what the field loop does with the fields printed for ONE populated field
(a singular field: one `name: value`; a repeated field: one `name: value` per element).
-/
namespace JT
open Pb

variable (C : TCodec) (D : DOpts) (X : SchemaX)

/-- spec of one printed value -/
def VSpecT (fx : FieldX) (limit : Int) (v : Val) (tv : TV) : Prop :=
  match v with
  | .msg m => fx.f.kind.isMessage = true ∧ tdMsgV C D X fx.f.sub limit tv = .ok (normMsg X fx.f.sub m)
  | sc => fx.f.kind.isMessage = false ∧ ∃ t, tv = .scalar t ∧ tdTok C fx t = .ok (normVal X fx sc)

theorem tdFieldVal_singular (mi : Nat) (fx : FieldX) (limit : Int) (m : Msg) (tv : TV)
    (hc1 : fx.f.card ≠ .repeated) (hc2 : fx.f.card ≠ .map) :
    tdFieldVal C D X mi fx limit m tv =
      if fx.f.kind.isMessage then storeMsg (X.msg mi) m fx (tdMsgV C D X fx.f.sub limit tv)
      else storeScalar (X.msg mi) m fx ((tdScalar C fx tv).map some) := by
  unfold tdFieldVal
  cases hc : fx.f.card <;> first | rfl | exact absurd hc hc1 | exact absurd hc hc2

theorem tdFieldVal_repeated (mi : Nat) (fx : FieldX) (limit : Int) (m : Msg) (tv : TV) (hc : fx.f.card = .repeated) :
    tdFieldVal C D X mi fx limit m tv = storeList m fx (tdList C D X fx limit tv) := by
  unfold tdFieldVal
  rw [hc]

/-- the state after the block of one field -/
def afterField (fx : FieldX) (s : LoopSt) (acc' : Fields) : LoopSt :=
  if isSingular fx then ⟨s.sn.set fx.f.num, soAfter fx s.so, .mk acc' []⟩ else ⟨s.sn, s.so, .mk acc' []⟩

/-- spec of the fields printed for one populated field -/
def BSpec (fx : FieldX) (limit : Int) (fv : FVal) (tvs : List TV) : Prop :=
  ∀ mi (s : LoopSt) acc, resolveText X (X.msg mi) (fieldName fx) = .found fx → s.m = .mk acc [] →
    SortedFrom 0 acc → acc.get? fx.f.num = none → NoOther (X.msg mi) fx acc → s.sn.has fx.f.num = false →
    (∀ o, fx.oneofIdx = some o → s.so.has o = false) →
    foldE (tdStep C D X mi limit) (tvs.map fun v => (fieldName fx, true, v)) s =
      .ok (afterField fx s (acc.set fx.f.num (normFVal X fx fv)))

theorem sepOK_true (fx : FieldX) : sepOK fx true = true := by simp [sepOK]

/-- the head of a not yet seen singular field whose oneof is not set -/
theorem tdHead_singular_value (mi : Nat) (limit : Int) (tv : TV) (sn so : Ints) (fx : FieldX)
    (hr : resolveText X (X.msg mi) (fieldName fx) = .found fx) (hsing : isSingular fx = true)
    (hsn : sn.has fx.f.num = false) (hso : ∀ o, fx.oneofIdx = some o → so.has o = false) :
    tdHead D X (X.msg mi) limit (fieldName fx) true tv sn so = .value fx (sn.set fx.f.num) (soAfter fx so) := by
  rw [tdHead_found_eq D X (X.msg mi) limit _ _ _ _ _ fx hr]
  simp only [hsing, if_true, sepOK_true, hsn, Bool.false_eq_true, if_false]
  unfold soAfter
  cases ho : fx.oneofIdx with
  | none => rfl
  | some o => simp [hso o ho]

theorem tdMsgV_nonmsg' (mi : Nat) (limit : Int) (v : TV) (m : Msg) (hv : ∀ fs, v ≠ .msg fs) :
    tdMsgV C D X mi limit v ≠ .ok m := by
  intro h
  cases v with
  | msg fs => exact hv fs rfl
  | scalar _ | list _ =>
    simp only [tdMsgV] at h
    split at h
    · cases h
    · split at h <;> cases h

/-- a singular field -/
theorem BSpec_one (fx : FieldX) (limit : Int) (v : Val) (tv : TV)
    (hc1 : fx.f.card ≠ .repeated) (hc2 : fx.f.card ≠ .map) (hz : ¬ (fx.f.card = .implicit ∧ v.isZero = true))
    (hv : VSpecT C D X fx limit v tv) : BSpec C D X fx limit (.one v) [tv] := by
  intro mi s acc hr hm hs hg hno hsn hso
  have hsing : isSingular fx = true := by
    cases hc : fx.f.card <;> simp_all [isSingular]
  simp only [List.map_cons, List.map_nil, foldE_one]
  unfold tdStep
  simp only
  rw [tdHead_singular_value D X mi limit _ _ _ fx hr hsing hsn hso]
  simp only
  rw [tdFieldVal_singular C D X mi fx limit _ _ hc1 hc2, hm]
  unfold afterField
  simp only [hsing, if_true]
  cases v with
  | msg m =>
    obtain ⟨hk, hd⟩ := hv
    simp only [hk, if_true, hd, storeMsg, normFVal, normVal, Msg.fields, Msg.unknown]
    rw [clearOneofFor_id (X.msg mi) fx acc hs hno]
  | num n =>
    obtain ⟨hk, t, rfl, hd⟩ := hv
    simp only [hk, Bool.false_eq_true, if_false, tdScalar, hd, Except.map, storeScalar, normFVal, Msg.fields, Msg.unknown]
    rw [setSingular_fresh (X.msg mi) fx acc _ hs hno]
    intro ⟨hi, hzz⟩
    apply hz
    refine ⟨hi, ?_⟩
    simp only [normVal, Val.isZero, beq_iff_eq] at hzz ⊢
    unfold normNum at hzz
    cases hkk : fx.f.kind <;> simp only [hkk] at hzz <;> try exact hzz
    · split at hzz
      · simp [nan32] at hzz
      · exact hzz
    · split at hzz
      · simp [nan64] at hzz
      · exact hzz
  | bytes b =>
    obtain ⟨hk, t, rfl, hd⟩ := hv
    simp only [hk, Bool.false_eq_true, if_false, tdScalar, hd, Except.map, storeScalar, normFVal, Msg.fields, Msg.unknown]
    rw [setSingular_fresh (X.msg mi) fx acc _ hs hno]
    simpa [normVal] using hz

theorem snocV_isNil (pre : Vals) (x : Val) : (pre.append (.cons x .nil)).isNil = false := by
  cases pre <;> rfl

theorem set_set (k : Nat) (a b : FVal) : ∀ fs : Fields, (fs.set k a).set k b = fs.set k b
  | .nil => by simp [Fields.set]
  | .cons n x tl => by
    simp only [Fields.set]
    by_cases h1 : k < n
    · simp [h1, Fields.set]
    · simp only [h1, if_false]
      by_cases h2 : k = n
      · subst h2
        simp [Fields.set]
      · simp only [h2, if_false, Fields.set, h1]
        rw [set_set k a b tl]

/-- printed list elements against the list values -/
def ESpecT (fx : FieldX) (limit : Int) : Vals → List TV → Prop
  | .nil, [] => True
  | .cons v tl, t :: l => VSpecT C D X fx limit v t ∧ ESpecT fx limit tl l
  | _, _ => False

/-- `unmarshalList` on a single value -/
theorem tdList_single (fx : FieldX) (limit : Int) (v : Val) (tv : TV) (hv : VSpecT C D X fx limit v tv) :
    tdList C D X fx limit tv = .ok (.cons (normVal X fx v) .nil) := by
  cases v with
  | msg m =>
    obtain ⟨hk, hd⟩ := hv
    cases tv with
    | msg fs =>
      rw [tdMsgV] at hd
      rw [tdList]
      simp only [hk, if_true]
      split
      · rename_i h; simp [h] at hd
      · rename_i h
        simp only [h, if_false] at hd
        split
        · rename_i h2; simp [h2] at hd
        · rename_i h2
          simp only [h2, Bool.false_eq_true, if_false] at hd
          rw [hd]
          rfl
    | scalar t => exact absurd hd (tdMsgV_nonmsg' C D X _ limit _ _ (by intro fs h; cases h))
    | list es => exact absurd hd (tdMsgV_nonmsg' C D X _ limit _ _ (by intro fs h; cases h))
  | num n =>
    obtain ⟨hk, t, rfl, hd⟩ := hv
    simp [tdList, hk, hd, Except.map]
  | bytes b =>
    obtain ⟨hk, t, rfl, hd⟩ := hv
    simp [tdList, hk, hd, Except.map]

theorem Vals.append_assoc' : ∀ a b c : Vals, (a.append b).append c = a.append (b.append c)
  | .nil, _, _ => rfl
  | .cons v tl, b, c => by simp [Vals.append, Vals.append_assoc' tl b c]

theorem Vals.nil_append' (b : Vals) : Vals.nil.append b = b := rfl

/-- the elements of a repeated field, one `name: value` each, appended to what is there -/
theorem fold_elems (mi : Nat) (fx : FieldX) (limit : Int) (hc : fx.f.card = .repeated)
    (hr : resolveText X (X.msg mi) (fieldName fx) = .found fx) :
    ∀ (vs : Vals) (tvs : List TV), ESpecT C D X fx limit vs tvs → ∀ (pre : Vals) (acc0 : Fields) (s : LoopSt),
      s.m = .mk acc0 [] → acc0.get? fx.f.num = (if pre.isNil then none else some (.many pre)) →
      foldE (tdStep C D X mi limit) (tvs.map fun v => (fieldName fx, true, v)) s =
        .ok ⟨s.sn, s.so, .mk (if vs.isNil then acc0 else acc0.set fx.f.num (.many (pre.append (normVals X fx vs)))) []⟩
  | .nil, [], _, pre, acc0, s, hm, _ => by
    simp only [List.map_nil, foldE, Vals.isNil, if_true]
    rw [← hm]
  | .nil, _ :: _, h, _, _, _, _, _ => h.elim
  | .cons _ _, [], h, _, _, _, _, _ => h.elim
  | .cons v tl, tv :: l, ⟨hv, ht⟩, pre, acc0, s, hm, hg => by
    have hsing : isSingular fx = false := by simp [isSingular, hc]
    simp only [List.map_cons, foldE]
    have hstep : tdStep C D X mi limit s (fieldName fx, true, tv) =
        .ok ⟨s.sn, s.so, .mk (acc0.set fx.f.num (.many (pre.append (.cons (normVal X fx v) .nil)))) []⟩ := by
      unfold tdStep
      simp only
      rw [tdHead_found_eq D X (X.msg mi) limit _ _ _ _ _ fx hr]
      simp only [hsing, Bool.false_eq_true, if_false, hc, sepOK_true, Bool.not_true, Bool.and_false]
      rw [tdFieldVal_repeated C D X mi fx limit _ _ hc, tdList_single C D X fx limit v tv hv, hm]
      simp only [storeList, Msg.fields, Msg.unknown, appendList, Vals.isNil, Bool.false_eq_true, if_false]
      cases pre with
      | nil => simp [Vals.isNil] at hg; simp [hg, Vals.append]
      | cons a b => simp [Vals.isNil] at hg; simp [hg]
    rw [hstep]
    simp only
    have ih := fold_elems mi fx limit hc hr tl l ht (pre.append (.cons (normVal X fx v) .nil))
      (acc0.set fx.f.num (.many (pre.append (.cons (normVal X fx v) .nil)))) ⟨s.sn, s.so, _⟩ rfl
      (by rw [get?_set]; simp [snocV_isNil])
    rw [ih]
    simp only [Vals.isNil, normVals]
    congr 2
    cases tl with
    | nil => simp [normVals, Vals.isNil]
    | cons a b =>
      simp only [Vals.isNil, Bool.false_eq_true, if_false]
      rw [set_set, Vals.append_assoc']
      rfl

/-- a repeated field -/
theorem BSpec_many (fx : FieldX) (limit : Int) (vs : Vals) (tvs : List TV) (hc : fx.f.card = .repeated)
    (hn : vs.isNil = false) (he : ESpecT C D X fx limit vs tvs) : BSpec C D X fx limit (.many vs) tvs := by
  intro mi s acc hr hm _ hg _ _ _
  rw [fold_elems C D X mi fx limit hc hr vs tvs he .nil acc s hm (by simp [Vals.isNil, hg])]
  have hsing : isSingular fx = false := by simp [isSingular, hc]
  have hnm : fx.f.card ≠ .map := by rw [hc]; decide
  simp [afterField, hsing, hn, normFVal, hnm, Vals.append]

end JT
