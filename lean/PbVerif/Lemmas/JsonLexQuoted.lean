import PbVerif.Model.JsonLex
import PbVerif.Lemmas.JsonLexNumber
import PbVerif.Lemmas.JsonLexDecoder
/-
Helper lemmas for C22: the String case of `unmarshalInt`/`unmarshalUint` (protojson/decode.go):
a quoted number is accepted iff the string content is exactly an RFC 8259 number.
-/
set_option linter.unusedSimpArgs false
namespace JsonLex
open RFC

/-! ### strings.TrimSpace leaves the string unchanged -/

theorem isPrefixOf_cons_ne {a c : Byte} {e t : Bytes} (h : a ≠ c) : (a :: e).isPrefixOf (c :: t) = false := by
  simp [List.isPrefixOf, h]

theorem numStart_not_space : ∀ c : Byte, (c = 0x2d#8 ∨ isDigit c = true) →
    ¬ 0x09#8 = c ∧ ¬ 0x0a#8 = c ∧ ¬ 0x0b#8 = c ∧ ¬ 0x0c#8 = c ∧ ¬ 0x0d#8 = c ∧ ¬ 0x20#8 = c ∧ ¬ 0xC2#8 = c ∧
    ¬ 0xE1#8 = c ∧ ¬ 0xE2#8 = c ∧ ¬ 0xE3#8 = c := by decide

theorem digit_not_space_end : ∀ l : Byte, isDigit l = true →
    ¬ 0x09#8 = l ∧ ¬ 0x0a#8 = l ∧ ¬ 0x0b#8 = l ∧ ¬ 0x0c#8 = l ∧ ¬ 0x0d#8 = l ∧ ¬ 0x20#8 = l ∧ ¬ 0x85#8 = l ∧
    ¬ 0xA0#8 = l ∧ ¬ 0x80#8 = l ∧ ¬ 0x81#8 = l ∧ ¬ 0x82#8 = l ∧ ¬ 0x83#8 = l ∧ ¬ 0x84#8 = l ∧ ¬ 0x86#8 = l ∧
    ¬ 0x87#8 = l ∧ ¬ 0x88#8 = l ∧ ¬ 0x89#8 = l ∧ ¬ 0x8A#8 = l ∧ ¬ 0xA8#8 = l ∧ ¬ 0xA9#8 = l ∧ ¬ 0xAF#8 = l ∧
    ¬ 0x9F#8 = l := by decide

/-- a string that starts with `-` or a digit and ends with a digit has no space to trim -/
theorem trimSpaceUnchanged_of_number {c l : Byte} {t a : Bytes} (hs : c :: t = a ++ [l])
    (hc : c = 0x2d#8 ∨ isDigit c = true) (hl : isDigit l = true) : trimSpaceUnchanged (c :: t) = true := by
  obtain ⟨a1, a2, a3, a4, a5, a6, a7, a8, a9, a10⟩ := numStart_not_space c hc
  obtain ⟨b1, b2, b3, b4, b5, b6, b7, b8, b9, b10, b11, b12, b13, b14, b15, b16, b17, b18, b19, b20, b21, b22⟩ :=
    digit_not_space_end l hl
  have hrev : (c :: t).reverse = l :: a.reverse := by rw [hs]; simp
  unfold trimSpaceUnchanged
  rw [hrev]
  simp [spaceEncodings, List.any, List.isPrefixOf, a1, a2, a3, a4, a5, a6, a7, a8, a9, a10,
    b1, b2, b3, b4, b5, b6, b7, b8, b9, b10, b11, b12, b13, b14, b15, b16, b17, b18, b19, b20, b21, b22]

theorem isWs_cases : ∀ c : Byte, isWs c = true → c = 0x20#8 ∨ c = 0x09#8 ∨ c = 0x0a#8 ∨ c = 0x0d#8 := by decide

theorem trim_no_ws_head {c : Byte} {t : Bytes} (h : trimSpaceUnchanged (c :: t) = true) : isWs c = false := by
  cases hw : isWs c with
  | false => rfl
  | true =>
    exfalso
    rcases isWs_cases c hw with rfl | rfl | rfl | rfl <;>
      simp [trimSpaceUnchanged, spaceEncodings, List.any, List.isPrefixOf] at h

theorem trim_no_ws_last {a : Bytes} {l : Byte} (h : trimSpaceUnchanged (a ++ [l]) = true) : isWs l = false := by
  cases hw : isWs l with
  | false => rfl
  | true =>
    exfalso
    have hrev : (a ++ [l]).reverse = l :: a.reverse := by simp
    unfold trimSpaceUnchanged at h
    rw [hrev] at h
    rcases isWs_cases l hw with rfl | rfl | rfl | rfl <;>
      simp [spaceEncodings, List.any, List.isPrefixOf] at h

theorem dropWs_of_head {c : Byte} {t : Bytes} (h : isWs c = false) : dropWs (c :: t) = c :: t := by
  unfold dropWs; rw [List.dropWhile_cons_of_neg (by simp [h])]

/-! ### the two `Read`s of the String case -/

variable {pn : Bytes → Option Nat}

theorem lexTokG_cases {c : Byte} {inp : Bytes} {tok : Token} {n : Nat} (hl : lexTokG pn c inp = .ok (tok, n)) :
    (tok.kind = .number ∧ pn inp = some n ∧ tok.raw = inp.take n) ∨ (tok.kind ≠ .number ∧ tok.kind ≠ .eof) := by
  have lit : ∀ {k : Kind} {lit : Bytes} {b : Bool}, k ≠ .number → k ≠ .eof → lexLit k lit b inp = .ok (tok, n) →
      (tok.kind ≠ .number ∧ tok.kind ≠ .eof) := by
    intro k lit b h1 h2 h
    unfold lexLit at h; split at h
    · simp only [Except.ok.injEq, Prod.mk.injEq] at h; rw [← h.1]; exact ⟨h1, h2⟩
    · cases h
  unfold lexTokG at hl
  split at hl
  · exact Or.inr (lit (by simp) (by simp) hl)
  split at hl
  · exact Or.inr (lit (by simp) (by simp) hl)
  split at hl
  · exact Or.inr (lit (by simp) (by simp) hl)
  split at hl
  · unfold lexNumber at hl
    split at hl
    next m hm =>
      simp only [Except.ok.injEq, Prod.mk.injEq] at hl
      obtain ⟨rfl, rfl⟩ := hl
      exact Or.inl ⟨rfl, hm, rfl⟩
    next => cases hl
  split at hl
  · unfold lexString at hl; split at hl
    · cases hl
    · simp only [Except.ok.injEq, Prod.mk.injEq] at hl; rw [← hl.1]; exact Or.inr ⟨by simp, by simp⟩
  · unfold lexPunct at hl
    repeat' split at hl
    all_goals first
      | (cases hl; done)
      | (simp only [Except.ok.injEq, Prod.mk.injEq] at hl; rw [← hl.1]; exact Or.inr ⟨by simp, by simp⟩)

/-- a Number token comes from the number case of `parseNext` -/
theorem parseNextG_number {s rest : Bytes} {tok : Token} (h : parseNextG pn s = .ok (tok, rest))
    (hk : tok.kind = .number) :
    ∃ n, pn (dropWs s) = some n ∧ tok.raw = (dropWs s).take n ∧ rest = dropWs ((dropWs s).drop n) := by
  unfold parseNextG at h
  split at h
  next => simp only [Except.ok.injEq, Prod.mk.injEq] at h; rw [← h.1] at hk; cases hk
  next c t hd =>
    split at h
    · cases h
    next tok' n hl =>
      simp only [Except.ok.injEq, Prod.mk.injEq] at h
      obtain ⟨rfl, rfl⟩ := h
      rcases lexTokG_cases hl with ⟨_, h2, h3⟩ | ⟨h1, _⟩
      · rw [hd]; exact ⟨n, h2, h3, rfl⟩
      · exact absurd hk h1

/-- an EOF token comes from the empty case of `parseNext` -/
theorem parseNextG_eof {s rest : Bytes} {tok : Token} (h : parseNextG pn s = .ok (tok, rest))
    (hk : tok.kind = .eof) : dropWs s = [] := by
  unfold parseNextG at h
  split at h
  next hd => exact hd
  next c t hd =>
    split at h
    · cases h
    next tok' n hl =>
      simp only [Except.ok.injEq, Prod.mk.injEq] at h
      obtain ⟨rfl, rfl⟩ := h
      rcases lexTokG_cases hl with ⟨h1, _, _⟩ | ⟨_, h2⟩
      · rw [h1] at hk; cases hk
      · exact absurd hk h2

theorem readG_top_number {fuel : Nat} {s : Bytes} {tok : Token} {st1 : DState}
    (h : readG pn (fuel + 1) { inp := s } = .ok (tok, st1)) (hk : tok.kind = .number) :
    ∃ rest, parseNextG pn s = .ok (tok, rest) ∧ st1 = { lastKind := .number, stack := [], inp := rest } := by
  rw [readG] at h
  simp only at h
  split at h
  · cases h
  next tok0 rest hp =>
    split at h
    next hstr =>
      unfold readString at h
      simp only [isValueNext, decide_true, if_true, Except.ok.injEq, Prod.mk.injEq] at h
      rw [← h.1, hstr] at hk; cases hk
    next hstr =>
      split at h
      · split at h <;> cases h
      next stack' hc =>
        split at h
        next hcomma => rw [hcomma] at hc; simp [checkSeq] at hc
        next hcomma =>
          simp only [Except.ok.injEq, Prod.mk.injEq] at h
          obtain ⟨rfl, rfl⟩ := h
          rw [hk] at hc
          simp [checkSeq, isValueNext] at hc
          exact ⟨rest, hp, by rw [hk, hc]⟩

theorem readG_after_number_eof {fuel : Nat} {rest : Bytes} {next : Token} {st2 : DState}
    (h : readG pn (fuel + 1) { lastKind := .number, stack := [], inp := rest } = .ok (next, st2))
    (hk : next.kind = .eof) : dropWs rest = [] := by
  rw [readG] at h
  simp only at h
  split at h
  · cases h
  next tok0 r hp =>
    split at h
    next hstr =>
      unfold readString at h
      simp [isValueNext] at h
    next hstr =>
      split at h
      · split at h <;> cases h
      next stack' hc =>
        split at h
        next hcomma => rw [hcomma] at hc; simp [checkSeq] at hc
        next hcomma =>
          simp only [Except.ok.injEq, Prod.mk.injEq] at h
          obtain ⟨rfl, rfl⟩ := h
          exact parseNextG_eof hp hk

theorem numStart_not_ws : ∀ c : Byte, (c = 0x2d#8 ∨ isDigit c = true) →
    isWs c = false ∧ c ≠ 0x6e#8 ∧ c ≠ 0x74#8 ∧ c ≠ 0x66#8 := by decide

/-- `parseNext` on a string that is a number from its first to its last byte -/
theorem parseNextG_whole_number {c : Byte} {t : Bytes} (hc : c = 0x2d#8 ∨ isDigit c = true)
    (hp : pn (c :: t) = some (c :: t).length) :
    parseNextG pn (c :: t) = .ok ({ kind := .number, raw := c :: t }, []) := by
  obtain ⟨h1, h2, h3, h4⟩ := numStart_not_ws c hc
  unfold parseNextG
  rw [dropWs_of_head h1]
  simp only [lexTokG, h2, h3, h4, if_false, hc, if_true, lexNumber, hp]
  simp [dropWs]

theorem dropWs_idem (x : Bytes) : dropWs (dropWs x) = dropWs x := by
  induction x with
  | nil => rfl
  | cons c t ih =>
    by_cases h : isWs c = true
    · have : dropWs (c :: t) = dropWs t := by unfold dropWs; rw [List.dropWhile_cons_of_pos h]
      rw [this]; exact ih
    · have : dropWs (c :: t) = c :: t := dropWs_of_head (by simpa using h)
      rw [this, this]

theorem number_head {s : Bytes} (h : Number s) : ∃ c t, s = c :: t ∧ (c = 0x2d#8 ∨ isDigit c = true) := by
  obtain ⟨m, i, f, e, hm, hi, _, _⟩ := h
  obtain ⟨c, t, rfl, hc⟩ := intPart_head hi
  cases hm with
  | none => exact ⟨c, t ++ (f ++ e), by simp, Or.inr hc⟩
  | minus => exact ⟨0x2d#8, c :: t ++ (f ++ e), by simp, Or.inl rfl⟩

theorem number_last_digit {s : Bytes} (h : Number s) : ∃ a l, s = a ++ [l] ∧ isDigit l = true := by
  -- via the exact language of parseNumber: the accepted prefix of an RFC number ends in a digit
  obtain ⟨m, i, f, e, hm, hi, hf, he⟩ := h
  have key : ∀ (pre ds : Bytes), ds ≠ [] → AllDigits ds → ∃ a l, pre ++ ds = a ++ [l] ∧ isDigit l = true := by
    intro pre ds hne hd
    rcases List.eq_nil_or_concat ds with h | ⟨a, l, h⟩
    · exact absurd h hne
    · rw [List.concat_eq_append] at h
      exact ⟨pre ++ a, l, by rw [h]; simp, hd l (by rw [h]; simp)⟩
  cases he with
  | some e0 sg d ds _ _ hd hds =>
    have := key (m ++ (i ++ (f ++ e0 :: sg))) (d :: ds) (by simp) (AllDigits.cons.2 ⟨hd, hds⟩)
    simpa using this
  | none =>
    cases hf with
    | some d ds hd hds =>
      have := key (m ++ (i ++ [0x2e#8])) (d :: ds) (by simp) (AllDigits.cons.2 ⟨hd, hds⟩)
      simpa using this
    | none =>
      have hid : AllDigits i ∧ i ≠ [] := by
        cases hi with
        | zero => exact ⟨by intro d hd; simp at hd; subst hd; decide, by simp⟩
        | nonzero c ds hc hds => exact ⟨AllDigits.cons.2 ⟨digit19_digit c hc, hds⟩, by simp⟩
      have := key m i hid.2 hid.1
      simpa using this

/-- **the String case of unmarshalInt/unmarshalUint**: the quoted content is converted iff it is,
from its first to its last byte, an RFC 8259 number (no surrounding space is tolerated; the explicit
`strings.TrimSpace` comparison adds nothing to that) -/
theorem quotedNumber_iff (s raw : Bytes) : quotedNumber s = some raw ↔ raw = s ∧ Number s := by
  constructor
  · intro h
    unfold quotedNumber at h
    split at h
    · cases h
    next htrim =>
    simp only [Bool.not_eq_true, Bool.not_eq_false] at htrim
    split at h
    · cases h
    next tok st1 h1 =>
    split at h
    · cases h
    next next st2 h2 =>
    split at h
    · cases h
    next hk =>
    simp only [ne_eq, Decidable.not_not] at hk
    split at h
    next hnum =>
      have hraw : tok.raw = raw := Option.some.inj h
      unfold read at h1 h2
      obtain ⟨rest, hp, rfl⟩ := readG_top_number h1 hnum
      have hrest := readG_after_number_eof h2 hk
      obtain ⟨n, hpn, hr, hrest'⟩ := parseNextG_number hp hnum
      -- no leading whitespace
      have hs0 : dropWs s = s := by
        rcases s with _ | ⟨c, t⟩
        · rfl
        · exact dropWs_of_head (trim_no_ws_head htrim)
      rw [hs0] at hpn hr hrest'
      obtain ⟨p, r, hs, hn, _, hnumber⟩ := (parseNumber_exact s n).1 hpn
      have htake : s.take n = p := by rw [hs, ← hn]; exact List.take_left' rfl
      have hdrop : s.drop n = r := by rw [hs, ← hn]; simp
      -- everything after the number is whitespace, hence empty
      have hrws : AllWs r := by
        have : dropWs r = [] := by
          rw [hdrop] at hrest'
          have h3 : dropWs rest = rest := by
            rw [hrest']; exact dropWs_idem _
          rw [← hrest', ← h3]; exact hrest
        exact dropWs_eq_nil this
      have hr0 : r = [] := by
        rcases List.eq_nil_or_concat r with h | ⟨a, l, h⟩
        · exact h
        · rw [List.concat_eq_append] at h
          have hl : isWs l = true := hrws l (by rw [h]; simp)
          have : trimSpaceUnchanged ((p ++ a) ++ [l]) = true := by
            rw [List.append_assoc, ← h, ← hs]; exact htrim
          rw [trim_no_ws_last this] at hl; cases hl
      subst hr0
      rw [List.append_nil] at hs
      subst hs
      exact ⟨by rw [← hraw, hr, htake], hnumber⟩
    next => cases h
  · rintro ⟨rfl, hnum⟩
    obtain ⟨c, t, rfl, hc⟩ := number_head hnum
    obtain ⟨a, l, hal, hl⟩ := number_last_digit hnum
    have htrim := trimSpaceUnchanged_of_number hal hc hl
    have hpn : parseNumber (c :: t) = some (c :: t).length := by
      exact (parseNumber_exact (c :: t) (c :: t).length).2 ⟨c :: t, [], by simp, rfl, DelimOK.nil, hnum⟩
    have hp := parseNextG_whole_number (pn := parseNumber) hc hpn
    have h1 : read ((c :: t).length + 1) { inp := c :: t } =
        .ok ({ kind := .number, raw := c :: t }, { lastKind := .number, stack := [], inp := [] }) := by
      unfold read; rw [readG]; simp [hp, checkSeq, isValueNext]
    have h2 : read (([] : Bytes).length + 1) { lastKind := .number, stack := [], inp := [] } =
        .ok ({ kind := .eof }, { lastKind := .eof, stack := [], inp := [] }) := by
      unfold read; rw [readG]; simp [parseNextG, dropWs, checkSeq]
    unfold quotedNumber
    simp only [htrim, not_true_eq_false, if_false, h1, h2]
    simp

end JsonLex
