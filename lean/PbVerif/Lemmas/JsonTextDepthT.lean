import PbVerif.Lemmas.JsonTextDepth
/-
Text format: message nesting as `prototext.unmarshalMessage` / `unmarshalMap` / `skipMessageValue` count it —
the values skipped for unknown / reserved names included (/repo 5d21ab7) — and "accepted ⇒ depth ≤ limit".
-/
namespace JT
open Pb

mutual
/-- message nesting of a value as `skipValue` / `skipMessageValue` walk it -/
def bdepth : TV → Nat
  | .scalar _ => 0
  | .msg fs => 1 + bdepthFields fs
  | .list es => bdepthElems es
def bdepthFields : TFields → Nat
  | .nil => 0
  | .cons _ _ v tl => max (bdepth v) (bdepthFields tl)
def bdepthElems : TElems → Nat
  | .nil => 0
  | .cons v tl =>
    max (match v with
         | .msg fs => 1 + bdepthFields fs
         | .scalar _ => 0
         | .list _ => 0)
      (bdepthElems tl)
end

mutual
/-- the skip path honours the limit -/
theorem skipT_depth : ∀ (v : TV) (limit : Int), 0 ≤ limit → skipT limit v = .ok () → (bdepth v : Int) ≤ limit
  | .scalar _, limit, h0, _ => by simp [bdepth]; exact h0
  | .msg fs, limit, h0, h => by
    rw [skipT] at h
    rw [bdepth]
    split at h
    · cases h
    · have := skipTFields_depth fs (limit - 1) (by omega) h
      omega
  | .list es, limit, h0, h => by
    rw [skipT] at h
    rw [bdepth]
    exact skipTElems_depth es limit h0 h
theorem skipTFields_depth : ∀ (fs : TFields) (limit : Int), 0 ≤ limit → skipTFields limit fs = .ok () →
    (bdepthFields fs : Int) ≤ limit
  | .nil, limit, h0, _ => by simp [bdepthFields]; exact h0
  | .cons _ _ v tl, limit, h0, h => by
    rw [skipTFields] at h
    rw [bdepthFields]
    cases hv : skipT limit v with
    | error e => simp [hv] at h
    | ok u =>
      simp only [hv] at h
      have h1 := skipT_depth v limit h0 hv
      have h2 := skipTFields_depth tl limit h0 h
      omega
theorem skipTElems_depth : ∀ (es : TElems) (limit : Int), 0 ≤ limit → skipTElems limit es = .ok () →
    (bdepthElems es : Int) ≤ limit
  | .nil, limit, h0, _ => by simp [bdepthElems]; exact h0
  | .cons (.scalar t) tl, limit, h0, h => by
    simp only [skipTElems] at h
    rw [bdepthElems]
    have h2 := skipTElems_depth tl limit h0 h
    omega
  | .cons (.list es) tl, limit, h0, h => by
    simp only [skipTElems] at h
    rw [bdepthElems]
    have h2 := skipTElems_depth tl limit h0 h
    omega
  | .cons (.msg fs) tl, limit, h0, h => by
    simp only [skipTElems] at h
    rw [bdepthElems]
    split at h
    · cases h
    · cases hv : skipTFields (limit - 1) fs with
      | error e => simp [hv] at h
      | ok u =>
        simp only [hv] at h
        have h1 := skipTFields_depth fs (limit - 1) (by omega) hv
        have h2 := skipTElems_depth tl limit h0 h
        omega
end

mutual
/-- … and nothing else makes it fail: within the limit it succeeds -/
theorem skipT_ok : ∀ (v : TV) (limit : Int), (bdepth v : Int) ≤ limit → skipT limit v = .ok ()
  | .scalar _, _, _ => rfl
  | .msg fs, limit, h => by
    rw [bdepth] at h
    rw [skipT]
    have : ¬ (limit - 1 < 0) := by omega
    simp only [this, if_false]
    exact skipTFields_ok fs (limit - 1) (by omega)
  | .list es, limit, h => by
    rw [bdepth] at h
    rw [skipT]
    exact skipTElems_ok es limit h
theorem skipTFields_ok : ∀ (fs : TFields) (limit : Int), (bdepthFields fs : Int) ≤ limit → skipTFields limit fs = .ok ()
  | .nil, _, _ => rfl
  | .cons _ _ v tl, limit, h => by
    rw [bdepthFields] at h
    rw [skipTFields, skipT_ok v limit (by omega)]
    exact skipTFields_ok tl limit (by omega)
theorem skipTElems_ok : ∀ (es : TElems) (limit : Int), (bdepthElems es : Int) ≤ limit → skipTElems limit es = .ok ()
  | .nil, _, _ => rfl
  | .cons (.scalar t) tl, limit, h => by
    rw [bdepthElems] at h
    simp only [skipTElems]
    exact skipTElems_ok tl limit (by omega)
  | .cons (.list es) tl, limit, h => by
    rw [bdepthElems] at h
    simp only [skipTElems]
    exact skipTElems_ok tl limit (by omega)
  | .cons (.msg fs) tl, limit, h => by
    rw [bdepthElems] at h
    simp only [skipTElems]
    have : ¬ (limit - 1 < 0) := by omega
    simp only [this, if_false]
    rw [skipTFields_ok fs (limit - 1) (by omega)]
    exact skipTElems_ok tl limit (by omega)
end

/-- the nesting of the value of a field with an unknown / reserved name, when it is skipped -/
def skippedDepth (skipped : Bool) (v : TV) : Nat := if skipped then bdepth v else 0

mutual
/-- levels needed to decode `v` as a message of type `mi` -/
def tdepthV (D : DOpts) (X : SchemaX) (mi : Nat) : TV → Nat
  | .msg fs => 1 + tdepthFields D X mi fs
  | _ => 1
def tdepthFields (D : DOpts) (X : SchemaX) (mi : Nat) : TFields → Nat
  | .nil => 0
  | .cons name _ v tl =>
    max (match resolveText X (X.msg mi) name with
         | .found fx =>
           (match fx.f.card with
            | .repeated => if fx.f.kind.isMessage then tdepthList D X fx.f.sub v else 0
            | .map => tdepthMap D X fx v
            | _ => if fx.f.kind.isMessage then tdepthV D X fx.f.sub v else 0)
         | .unknown s => skippedDepth (D.discard || (X.msg mi).reserved.contains s) v
         | _ => 0)
      (tdepthFields D X mi tl)
def tdepthList (D : DOpts) (X : SchemaX) (sub : Nat) : TV → Nat
  | .list es => tdepthElems D X sub es
  | .msg fs => 1 + tdepthFields D X sub fs
  | .scalar _ => 0
def tdepthElems (D : DOpts) (X : SchemaX) (sub : Nat) : TElems → Nat
  | .nil => 0
  | .cons v tl =>
    max (match v with
         | .msg fs => 1 + tdepthFields D X sub fs
         | .scalar _ => 0
         | .list _ => 0)
      (tdepthElems D X sub tl)
/-- one level for the map field occurrence itself (`unmarshalMap`) -/
def tdepthMap (D : DOpts) (X : SchemaX) (fx : FieldX) : TV → Nat
  | .msg fs => 1 + tdepthEntry D X fx fs
  | .list es => 1 + tdepthEntryList D X fx es
  | .scalar _ => 1
def tdepthEntryList (D : DOpts) (X : SchemaX) (fx : FieldX) : TElems → Nat
  | .nil => 0
  | .cons v tl =>
    max (match v with
         | .msg fs => tdepthEntry D X fx fs
         | .scalar _ => 0
         | .list _ => 0)
      (tdepthEntryList D X fx tl)
def tdepthEntry (D : DOpts) (X : SchemaX) (fx : FieldX) : TFields → Nat
  | .nil => 0
  | .cons name _ v tl =>
    max (match name with
         | .ident s =>
           if s = sKey then 0
           else if s = sValue then
             (match (X.msg fx.f.sub).find 2 with
              | some vf => if vf.f.kind.isMessage then tdepthV D X vf.f.sub v else 0
              | none => 0)
           else skippedDepth D.discard v
         | .type _ => skippedDepth D.discard v
         | .number _ => skippedDepth D.discard v)
      (tdepthEntry D X fx tl)
end

theorem tdMsgV_nonmsg (C : TCodec) (D : DOpts) (X : SchemaX) (mi : Nat) (limit : Int) (v : TV) (m : Msg)
    (hv : ∀ fs, v ≠ .msg fs) : tdMsgV C D X mi limit v ≠ .ok m := by
  intro h
  cases v with
  | msg fs => exact hv fs rfl
  | scalar _ | list _ =>
    simp only [tdMsgV] at h
    split at h
    · cases h
    · split at h <;> cases h

/-- what the entry head says about the name, given a non-error outcome -/
theorem tdEntryHead_cases (D : DOpts) (ed : MsgX) (limit : Int) (name : TName) (sep : Bool) (v : TV) (st : EntrySt) :
    (∃ e, tdEntryHead D ed limit name sep v st = .error e) ∨
    (tdEntryHead D ed limit name sep v st = .skip ∧ D.discard = true ∧
      skipT limit v = .ok () ∧ (∀ s, name = .ident s → s ≠ sKey ∧ s ≠ sValue)) ∨
    (∃ kf, tdEntryHead D ed limit name sep v st = .key kf ∧ name = .ident sKey) ∨
    (∃ vf, tdEntryHead D ed limit name sep v st = .valMsg vf ∧ name = .ident sValue ∧ ed.find 2 = some vf ∧
      vf.f.kind.isMessage = true) ∨
    (∃ vf, tdEntryHead D ed limit name sep v st = .valScalar vf ∧ name = .ident sValue ∧ ed.find 2 = some vf ∧
      vf.f.kind.isMessage = false) := by
  have hunk : (∃ e, entryUnknown D limit v = .error e) ∨
      (entryUnknown D limit v = .skip ∧ D.discard = true ∧ skipT limit v = .ok ()) := by
    unfold entryUnknown
    by_cases hd : D.discard = true
    · simp only [hd, Bool.not_true, Bool.false_eq_true, if_false]
      cases hs : skipT limit v with
      | error e => exact .inl ⟨e, rfl⟩
      | ok u => exact .inr ⟨rfl, trivial, rfl⟩
    · have : D.discard = false := by simpa using hd
      simp [this]
  unfold tdEntryHead
  cases h1 : ed.find 1 with
  | none => exact .inl ⟨_, rfl⟩
  | some kf =>
    cases h2 : ed.find 2 with
    | none => exact .inl ⟨_, rfl⟩
    | some vf =>
      simp only
      cases name with
      | type s =>
        simp only
        rcases hunk with ⟨e, he⟩ | ⟨h, hd, hl⟩
        · exact .inl ⟨e, he⟩
        · exact .inr (.inl ⟨h, hd, hl, by intro s hs; cases hs⟩)
      | number n =>
        simp only
        rcases hunk with ⟨e, he⟩ | ⟨h, hd, hl⟩
        · exact .inl ⟨e, he⟩
        · exact .inr (.inl ⟨h, hd, hl, by intro s hs; cases hs⟩)
      | ident s =>
        simp only
        by_cases hk : s = sKey
        · rw [if_pos hk]
          split
          · exact .inl ⟨_, rfl⟩
          · split
            · exact .inl ⟨_, rfl⟩
            · exact .inr (.inr (.inl ⟨kf, rfl, by rw [hk]⟩))
        · rw [if_neg hk]
          by_cases hv : s = sValue
          · rw [if_pos hv]
            split
            · exact .inl ⟨_, rfl⟩
            · split
              · exact .inl ⟨_, rfl⟩
              · split
                · rename_i hm
                  exact .inr (.inr (.inr (.inl ⟨vf, rfl, by rw [hv], rfl, hm⟩)))
                · rename_i hm
                  exact .inr (.inr (.inr (.inr ⟨vf, rfl, by rw [hv], rfl, by simpa using hm⟩)))
          · rw [if_neg hv]
            rcases hunk with ⟨e, he⟩ | ⟨h, hd, hl⟩
            · exact .inl ⟨e, he⟩
            · refine .inr (.inl ⟨h, hd, hl, ?_⟩)
              intro s' hs'
              cases hs'
              exact ⟨hk, hv⟩

theorem max3 {a b : Nat} {l : Int} (h1 : (a : Int) ≤ l) (h2 : (b : Int) ≤ l) : ((max a b : Nat) : Int) ≤ l := by
  omega

mutual
theorem tdMsgV_depth (C : TCodec) (D : DOpts) (X : SchemaX) :
    ∀ (v : TV) (mi : Nat) (limit : Int) (m : Msg),
      tdMsgV C D X mi limit v = .ok m → (tdepthV D X mi v : Int) ≤ limit
  | .msg fs, mi, limit, m, h => by
    rw [tdMsgV] at h
    rw [tdepthV]
    split at h
    · cases h
    · split at h
      · cases h
      · have := tdFields_depth C D X fs mi (limit - 1) {} {} Msg.empty m (by omega) h
        omega
  | .scalar _, mi, limit, m, h => absurd h (tdMsgV_nonmsg C D X mi limit _ m (by intro fs hh; cases hh))
  | .list _, mi, limit, m, h => absurd h (tdMsgV_nonmsg C D X mi limit _ m (by intro fs hh; cases hh))
theorem tdFields_depth (C : TCodec) (D : DOpts) (X : SchemaX) :
    ∀ (fs : TFields) (mi : Nat) (limit : Int) (sn so : Ints) (m0 m : Msg), 0 ≤ limit →
      tdFields C D X mi limit fs sn so m0 = .ok m → (tdepthFields D X mi fs : Int) ≤ limit
  | .nil, _, _, _, _, _, _, h0, _ => by simp [tdepthFields]; exact h0
  | .cons name sep v tl, mi, limit, sn, so, m0, m, h0, h => by
    rw [tdFields_cons] at h
    rw [tdepthFields]
    cases hd : tdHead D X (X.msg mi) limit name sep v sn so with
    | error e => simp [hd] at h
    | skip sn' =>
      simp only [hd] at h
      have h2 := tdFields_depth C D X tl mi limit sn' so m0 m h0 h
      obtain ⟨s0, hr, _, hl⟩ := tdHead_skip_cases D X (X.msg mi) limit name sep v sn so sn' hd
      simp only [hr, skippedDepth]
      apply max3 _ h2
      split
      · exact skipT_depth v limit h0 hl
      · simpa using h0
    | value fx sn' so' =>
      simp only [hd] at h
      have hr := tdHead_value_found D X (X.msg mi) limit name sep v sn so sn' so' fx hd
      simp only [hr]
      cases hv : tdFieldVal C D X mi fx limit m0 v with
      | error e => simp [hv] at h
      | ok m' =>
        simp only [hv] at h
        have h2 := tdFields_depth C D X tl mi limit sn' so' m' m h0 h
        apply max3 _ h2
        unfold tdFieldVal at hv
        cases hcard : fx.f.card <;> simp only [hcard] at hv ⊢
        case repeated =>
          obtain ⟨vs, hvs⟩ := storeList_ok hv
          exact tdList_depth C D X v fx limit vs h0 hvs
        case map =>
          obtain ⟨vs, hvs⟩ := storeMap_ok hv
          exact tdMap_depth C D X v fx limit _ vs h0 hvs
        all_goals
          (by_cases hk : fx.f.kind.isMessage = true
           · simp only [hk, if_true] at hv ⊢
             obtain ⟨sub, hsub⟩ := storeMsg_ok hv
             exact tdMsgV_depth C D X v fx.f.sub limit sub hsub
           · have hk' : fx.f.kind.isMessage = false := by simpa using hk
             simp only [hk', Bool.false_eq_true, if_false]
             simpa using h0)
theorem tdList_depth (C : TCodec) (D : DOpts) (X : SchemaX) :
    ∀ (v : TV) (fx : FieldX) (limit : Int) (vs : Vals), 0 ≤ limit → tdList C D X fx limit v = .ok vs →
      ((if fx.f.kind.isMessage then tdepthList D X fx.f.sub v else 0 : Nat) : Int) ≤ limit
  | .list es, fx, limit, vs, h0, h => by
    rw [tdList] at h
    rw [tdepthList]
    exact tdElems_depth C D X es fx limit vs h0 h
  | .msg fs, fx, limit, vs, h0, h => by
    rw [tdList] at h
    rw [tdepthList]
    by_cases hk : fx.f.kind.isMessage = true
    · simp only [hk, if_true] at h ⊢
      split at h
      · cases h
      · split at h
        · cases h
        · cases hf : tdFields C D X fx.f.sub (limit - 1) fs {} {} Msg.empty with
          | error e => simp [hf, Except.map] at h
          | ok sub =>
            have := tdFields_depth C D X fs fx.f.sub (limit - 1) {} {} Msg.empty sub (by omega) hf
            omega
    · have hk' : fx.f.kind.isMessage = false := by simpa using hk
      simp only [hk', Bool.false_eq_true, if_false]
      simpa using h0
  | .scalar t, fx, limit, vs, h0, h => by
    rw [tdepthList]
    split <;> simpa using h0
theorem tdElems_depth (C : TCodec) (D : DOpts) (X : SchemaX) :
    ∀ (es : TElems) (fx : FieldX) (limit : Int) (vs : Vals), 0 ≤ limit → tdElems C D X fx limit es = .ok vs →
      ((if fx.f.kind.isMessage then tdepthElems D X fx.f.sub es else 0 : Nat) : Int) ≤ limit
  | .nil, fx, limit, vs, h0, _ => by simp [tdepthElems]; exact h0
  | .cons (.msg fs) tl, fx, limit, vs, h0, h => by
    rw [tdElems] at h
    rw [tdepthElems]
    by_cases hk : fx.f.kind.isMessage = true
    · simp only [hk, if_true] at h ⊢
      split at h
      · cases h
      · split at h
        · cases h
        · cases hf : tdFields C D X fx.f.sub (limit - 1) fs {} {} Msg.empty with
          | error e => simp [hf] at h
          | ok sub =>
            simp only [hf] at h
            cases ht : tdElems C D X fx limit tl with
            | error e => simp [ht, Except.map] at h
            | ok vs' =>
              have h1 := tdFields_depth C D X fs fx.f.sub (limit - 1) {} {} Msg.empty sub (by omega) hf
              have h2 := tdElems_depth C D X tl fx limit vs' h0 ht
              simp only [hk, if_true] at h2
              omega
    · have hk' : fx.f.kind.isMessage = false := by simpa using hk
      simp only [hk', Bool.false_eq_true, if_false]
      simpa using h0
  | .cons (.scalar t) tl, fx, limit, vs, h0, h => by
    by_cases hk : fx.f.kind.isMessage = true
    · simp [tdElems, hk] at h
    · have hk' : fx.f.kind.isMessage = false := by simpa using hk
      simp only [hk', Bool.false_eq_true, if_false]
      simpa using h0
  | .cons (.list es) tl, fx, limit, vs, h0, h => by
    by_cases hk : fx.f.kind.isMessage = true
    · simp [tdElems, hk] at h
    · have hk' : fx.f.kind.isMessage = false := by simpa using hk
      simp only [hk', Bool.false_eq_true, if_false]
      simpa using h0
theorem tdMap_depth (C : TCodec) (D : DOpts) (X : SchemaX) :
    ∀ (v : TV) (fx : FieldX) (limit : Int) (cur vs : Vals), 0 ≤ limit → tdMap C D X fx limit cur v = .ok vs →
      (tdepthMap D X fx v : Int) ≤ limit
  | .msg fs, fx, limit, cur, vs, h0, h => by
    rw [tdMap] at h
    rw [tdepthMap]
    split at h
    · cases h
    · cases he : tdEntry C D X fx (limit - 1) fs {} with
      | error e => simp [he] at h
      | ok kv =>
        have := tdEntry_depth C D X fs fx (limit - 1) {} kv (by omega) he
        omega
  | .list es, fx, limit, cur, vs, h0, h => by
    rw [tdMap] at h
    rw [tdepthMap]
    split at h
    · cases h
    · have := tdEntryList_depth C D X es fx (limit - 1) cur vs (by omega) h
      omega
  | .scalar _, fx, limit, cur, vs, h0, h => by
    rw [tdMap] at h
    split at h <;> cases h
theorem tdEntryList_depth (C : TCodec) (D : DOpts) (X : SchemaX) :
    ∀ (es : TElems) (fx : FieldX) (limit : Int) (cur vs : Vals), 0 ≤ limit →
      tdEntryList C D X fx limit es cur = .ok vs → (tdepthEntryList D X fx es : Int) ≤ limit
  | .nil, _, _, _, _, h0, _ => by simp [tdepthEntryList]; exact h0
  | .cons (.msg fs) tl, fx, limit, cur, vs, h0, h => by
    rw [tdEntryList] at h
    rw [tdepthEntryList]
    cases he : tdEntry C D X fx limit fs {} with
    | error e => simp [he] at h
    | ok kv =>
      simp only [he] at h
      have h1 := tdEntry_depth C D X fs fx limit {} kv h0 he
      have h2 := tdEntryList_depth C D X tl fx limit _ vs h0 h
      omega
  | .cons (.scalar _) tl, fx, limit, cur, vs, h0, h => by
    simp [tdEntryList] at h
  | .cons (.list _) tl, fx, limit, cur, vs, h0, h => by
    simp [tdEntryList] at h
theorem tdEntry_depth (C : TCodec) (D : DOpts) (X : SchemaX) :
    ∀ (fs : TFields) (fx : FieldX) (limit : Int) (st : EntrySt) (kv : Val × Val), 0 ≤ limit →
      tdEntry C D X fx limit fs st = .ok kv → (tdepthEntry D X fx fs : Int) ≤ limit
  | .nil, _, _, _, _, h0, _ => by simp [tdepthEntry]; exact h0
  | .cons name sep v tl, fx, limit, st, kv, h0, h => by
    rw [tdEntry] at h
    unfold tdepthEntry
    rcases tdEntryHead_cases D (X.msg fx.f.sub) limit name sep v st with
      ⟨e, he⟩ | ⟨he, hd, hl, hname⟩ | ⟨kf, he, hname⟩ | ⟨vf, he, hname, h2, hm⟩ | ⟨vf, he, hname, h2, hm⟩
    · simp [he] at h
    · simp only [he] at h
      have a2 := tdEntry_depth C D X tl fx limit st kv h0 h
      apply max3 _ a2
      have hsk : (skippedDepth D.discard v : Int) ≤ limit := by
        simp only [skippedDepth, hd, if_true]
        exact skipT_depth v limit h0 hl
      cases name with
      | ident s =>
        obtain ⟨hk, hv⟩ := hname s rfl
        simp only [hk, hv, if_false]
        exact hsk
      | type s => exact hsk
      | number n => exact hsk
    · simp only [he] at h
      subst hname
      simp only [if_true]
      cases hs : tdScalar C kf v with
      | error e => simp [hs] at h
      | ok k =>
        simp only [hs] at h
        have a2 := tdEntry_depth C D X tl fx limit _ kv h0 h
        omega
    · simp only [he] at h
      subst hname
      have hne : sValue ≠ sKey := by decide
      simp only [hne, if_false, if_true, h2, hm]
      cases hs : tdMsgV C D X vf.f.sub limit v with
      | error e => simp [hs] at h
      | ok sub =>
        simp only [hs] at h
        have a1 := tdMsgV_depth C D X v vf.f.sub limit sub hs
        have a2 := tdEntry_depth C D X tl fx limit _ kv h0 h
        omega
    · simp only [he] at h
      subst hname
      have hne : sValue ≠ sKey := by decide
      simp only [hne, if_false, if_true, h2, hm, Bool.false_eq_true]
      cases hs : tdScalar C vf v with
      | error e => simp [hs] at h
      | ok x =>
        simp only [hs] at h
        have a2 := tdEntry_depth C D X tl fx limit _ kv h0 h
        omega
end

end JT
