import PbVerif.Lemmas.MsgRound
import PbVerif.Lemmas.MsgGroup
/-
UTF-8 on the decoding side: enforced string fields reject invalid UTF-8 (singular, repeated, map key).
-/
namespace Pb
open Spec

/-- the scalar decoder on a length-delimited payload of an enforced string field with invalid UTF-8 -/
theorem decScalar_bad_utf8 {f : Field} (hk : f.kind = .string) (hu : f.utf8 = true) {p : List Byte}
    (hp : p.length < 2 ^ 64) (hbad : utf8Valid p = false) (rest : List Byte) :
    decScalar f 2 (encVarint p.length ++ (p ++ rest)) = some (.error .utf8) := by
  unfold decScalar
  simp [hk, Kind.wireType, decBytes_enc' hp, hu, hbad]

/-- … and with valid UTF-8 (or no enforcement, or a bytes field) the payload is stored as is -/
theorem decScalar_good_bytes {f : Field} (hk : f.kind = .string ∨ f.kind = .bytes) {p : List Byte}
    (hp : p.length < 2 ^ 64) (hok : ¬ (f.kind = .string ∧ f.utf8 = true ∧ utf8Valid p = false)) (rest : List Byte) :
    decScalar f 2 (encVarint p.length ++ (p ++ rest)) = some (.ok (.bytes p)) := by
  unfold decScalar
  rcases hk with hk | hk
  · by_cases hu : f.utf8 = true
    · have : utf8Valid p = true := by
        cases hv : utf8Valid p with
        | true => rfl
        | false => exact absurd ⟨hk, hu, hv⟩ hok
      simp [hk, Kind.wireType, decBytes_enc' hp, hu, this]
    · simp [hk, Kind.wireType, decBytes_enc' hp, hu]
  · simp [hk, Kind.wireType, decBytes_enc' hp]

theorem decField_bad_utf8 {S : Schema} {mi : Nat} {m : Msg} {f : Field} (hk : f.kind = .string) (hu : f.utf8 = true)
    (hc : f.card ≠ .map) {p : List Byte} (hp : p.length < 2 ^ 64) (hbad : utf8Valid p = false) (rest : List Byte)
    (depth : Int) (dis : Bool) (fuel : Nat) :
    decField (fuel + 1) S mi m f 2 (encVarint p.length ++ (p ++ rest)) depth dis = .err .utf8 := by
  have hs := decScalar_bad_utf8 hk hu hp hbad rest
  unfold decField
  cases hcard : f.card <;> simp only [hcard] at hc ⊢ <;> first
    | contradiction
    | simp [hk, Kind.isMessage, Kind.isNumeric, hs]

/-- **decoding rejects invalid UTF-8 in an enforced string field** (singular or repeated), wherever
the record stands after well-formed fields, whatever follows it -/
theorem dec_bad_utf8_record {S : Schema} {mi : Nat} {m : Msg} {f : Field}
    (hfind : (S.msg mi).find f.num = some f) (h1 : 1 ≤ f.num) (h2 : f.num ≤ maxValidNumber)
    (hk : f.kind = .string) (hu : f.utf8 = true) (hc : f.card ≠ .map) {p : List Byte} (hp : p.length < 2 ^ 64)
    (hbad : utf8Valid p = false) (rest : List Byte) (depth : Int) (dis : Bool) :
    DecTo S mi depth dis m (tagBytes f.num 2 ++ (encVarint p.length ++ (p ++ rest))) (.error .utf8) := by
  refine DecTo_known_err h1 h2 (by omega) hfind ?_
  intro fuel hf
  cases fuel with
  | zero => omega
  | succ fu => exact decField_bad_utf8 hk hu hc hp hbad rest depth dis fu


/-- the entry loop on a key (record 1) or a scalar value (record 2) that is an enforced string with
invalid UTF-8 -/
theorem decEntry_bad_utf8 {S : Schema} {kf vf : Field} {k v : Option Val} {num : Nat} {g : Field}
    (hnum : (num = 1 ∧ g = kf) ∨ (num = 2 ∧ g = vf ∧ vf.kind.isMessage = false))
    (hk : g.kind = .string) (hu : g.utf8 = true) {p : List Byte} (hp : p.length < 2 ^ 64)
    (hbad : utf8Valid p = false) (rest : List Byte) (depth : Int) (dis : Bool) (fuel : Nat) :
    decEntry (fuel + 1) S kf vf k v (tagBytes num 2 ++ (encVarint p.length ++ (p ++ rest))) depth dis = .error .utf8 := by
  have hn : 1 ≤ num ∧ num ≤ 2 := by rcases hnum with ⟨h, _⟩ | ⟨h, _⟩ <;> omega
  have htag := decTag_enc (num := num) (typ := 2) (by omega) (by omega) (by omega) (encVarint p.length ++ (p ++ rest))
  have hs := decScalar_bad_utf8 hk hu hp hbad rest
  conv => lhs; unfold decEntry
  split
  · rename_i heq; exact absurd heq (tagBytes_ne_nil _ _ _)
  · unfold tagBytes
    rw [htag]
    have : ¬ num > maxValidNumber := by unfold maxValidNumber; omega
    rcases hnum with ⟨rfl, rfl⟩ | ⟨rfl, rfl, hm⟩
    · simp only [this, if_false, if_true, List.drop_left, hs]
    · have h21 : ¬ (2 = 1) := by omega
      simp only [this, if_false, h21, if_true, hm, Bool.false_eq_true, List.drop_left, hs]

theorem decField_map_err_gen {S : Schema} {mi : Nat} {m : Msg} {f kf vf : Field} {val body : List Byte}
    {depth : Int} {dis : Bool} {n : Nat} {e : DErr} (fuel : Nat)
    (hc : f.card = .map) (hd : ¬ depth - 1 < 0) (hb : decBytes val = .ok (body, n))
    (hk : (S.msg f.sub).find 1 = some kf) (hv : (S.msg f.sub).find 2 = some vf)
    (he : decEntry fuel S kf vf none (if vf.kind.isMessage then some (.msg Msg.empty) else none) body
        (depth - 1) dis = .error e) :
    decField (fuel + 1) S mi m f 2 val depth dis = .err e := by
  unfold decField
  simp only [hc, hd, if_false, ne_eq, not_true_eq_false, hb, hk, hv, he]

/-- a map entry whose key is an enforced string with invalid UTF-8 is rejected -/
theorem dec_bad_utf8_map_key {S : Schema} {mi : Nat} {m : Msg} {f kf vf : Field}
    (hfind : (S.msg mi).find f.num = some f) (h1 : 1 ≤ f.num) (h2 : f.num ≤ maxValidNumber)
    (hc : f.card = .map) (hkf : (S.msg f.sub).find 1 = some kf) (hvf : (S.msg f.sub).find 2 = some vf)
    (hk : kf.kind = .string) (hu : kf.utf8 = true) {p restE : List Byte} (hp : p.length < 2 ^ 64)
    (hbad : utf8Valid p = false) (hbody : (tagBytes 1 2 ++ (encVarint p.length ++ (p ++ restE))).length < 2 ^ 64)
    (rest : List Byte) (depth : Int) (hd : ¬ depth - 1 < 0) (dis : Bool) :
    DecTo S mi depth dis m
      (tagBytes f.num 2 ++ (encVarint (tagBytes 1 2 ++ (encVarint p.length ++ (p ++ restE))).length ++
        ((tagBytes 1 2 ++ (encVarint p.length ++ (p ++ restE))) ++ rest))) (.error .utf8) := by
  refine DecTo_known_err h1 h2 (by omega) hfind ?_
  intro fuel hf
  have htag := tagBytes_pos f.num 2
  have hvl := encVarint_length_pos (tagBytes 1 2 ++ (encVarint p.length ++ (p ++ restE))).length
  have hkt := tagBytes_pos 1 2
  simp only [List.length_append] at hf hvl
  match fuel, hf with
  | 0, hf => omega
  | 1, hf => omega
  | fu + 2, _ =>
    exact decField_map_err_gen (fu + 1) hc hd (decBytes_enc' hbody rest) hkf hvf
      (decEntry_bad_utf8 (Or.inl ⟨rfl, rfl⟩) hk hu hp hbad restE (depth - 1) dis fu)

/-- a map entry whose (scalar) value is an enforced string with invalid UTF-8 is rejected -/
theorem dec_bad_utf8_map_value {S : Schema} {mi : Nat} {m : Msg} {f kf vf : Field}
    (hfind : (S.msg mi).find f.num = some f) (h1 : 1 ≤ f.num) (h2 : f.num ≤ maxValidNumber)
    (hc : f.card = .map) (hkf : (S.msg f.sub).find 1 = some kf) (hvf : (S.msg f.sub).find 2 = some vf)
    (hk : vf.kind = .string) (hu : vf.utf8 = true) {p restE : List Byte} (hp : p.length < 2 ^ 64)
    (hbad : utf8Valid p = false) (hbody : (tagBytes 2 2 ++ (encVarint p.length ++ (p ++ restE))).length < 2 ^ 64)
    (rest : List Byte) (depth : Int) (hd : ¬ depth - 1 < 0) (dis : Bool) :
    DecTo S mi depth dis m
      (tagBytes f.num 2 ++ (encVarint (tagBytes 2 2 ++ (encVarint p.length ++ (p ++ restE))).length ++
        ((tagBytes 2 2 ++ (encVarint p.length ++ (p ++ restE))) ++ rest))) (.error .utf8) := by
  refine DecTo_known_err h1 h2 (by omega) hfind ?_
  intro fuel hf
  have htag := tagBytes_pos f.num 2
  have hvl := encVarint_length_pos (tagBytes 2 2 ++ (encVarint p.length ++ (p ++ restE))).length
  have hkt := tagBytes_pos 2 2
  simp only [List.length_append] at hf hvl
  have hvm : vf.kind.isMessage = false := by simp [hk, Kind.isMessage]
  match fuel, hf with
  | 0, hf => omega
  | 1, hf => omega
  | fu + 2, _ =>
    exact decField_map_err_gen (fu + 1) hc hd (decBytes_enc' hbody rest) hkf hvf
      (decEntry_bad_utf8 (Or.inr ⟨rfl, rfl, hvm⟩) hk hu hp hbad restE (depth - 1) dis fu)

end Pb
