import PbVerif.Model.Delim
/-
Helper lemmas for C27 (engine `delim`): varint spec, the size loop, io.ReadFull chunking.
Core Lean only.
-/
namespace Model.Delim

theorem toNat_ofNat8 (x : Nat) (h : x < 256) : (BitVec.ofNat 8 x).toNat = x := by
  simp only [BitVec.toNat_ofNat]; omega

theorem encodeVarint_lt {n : Nat} (h : n < 128) : encodeVarint n = [BitVec.ofNat 8 n] := by
  rw [encodeVarint]; simp [h]

theorem encodeVarint_ge {n : Nat} (h : ¬ n < 128) :
    encodeVarint n = BitVec.ofNat 8 (n % 128 + 128) :: encodeVarint (n / 128) := by
  rw [encodeVarint]; simp [h]

theorem encodeVarint_ne_nil (n : Nat) : encodeVarint n ≠ [] := by
  by_cases h : n < 128
  · rw [encodeVarint_lt h]; simp
  · rw [encodeVarint_ge h]; simp

/-- a value below `2·128^k` takes at most `k+1` bytes -/
theorem encodeVarint_length_le : ∀ (k n : Nat), n < 2 * 128 ^ k → (encodeVarint n).length ≤ k + 1
  | 0, n, h => by
    have : n < 128 := by simp at h; omega
    rw [encodeVarint_lt this]; simp
  | k+1, n, h => by
    by_cases hn : n < 128
    · rw [encodeVarint_lt hn]; simp
    · rw [encodeVarint_ge hn]
      have : n / 128 < 2 * 128 ^ k := by
        rw [Nat.pow_succ] at h; omega
      have := encodeVarint_length_le k (n / 128) this
      simp only [List.length_cons]; omega

/-- `ConsumeVarint(AppendVarint(nil, n) ++ tl) = (n, len)` — with `k+1` bytes allowed, for `n < 2·128^k` -/
theorem consumeVarintAux_encode : ∀ (k n : Nat) (tl : List Byte), n < 2 * 128 ^ k →
    consumeVarintAux (k + 1) (encodeVarint n ++ tl) = .ok n (encodeVarint n).length
  | 0, n, tl, h => by
    have h2 : n < 2 := by simpa using h
    have : n < 128 := by omega
    rw [encodeVarint_lt this]
    simp only [List.cons_append, List.nil_append, consumeVarintAux, if_true, List.length_cons, List.length_nil]
    rw [toNat_ofNat8 n (by omega)]; simp [h2]
  | k+1, n, tl, h => by
    by_cases hn : n < 128
    · rw [encodeVarint_lt hn]
      simp only [List.cons_append, List.nil_append, consumeVarintAux, List.length_cons, List.length_nil]
      rw [toNat_ofNat8 n (by omega)]; simp [hn]
    · rw [encodeVarint_ge hn]
      have hq : n / 128 < 2 * 128 ^ k := by
        rw [Nat.pow_succ] at h; omega
      have ih := consumeVarintAux_encode k (n / 128) tl hq
      simp only [List.cons_append, consumeVarintAux, List.length_cons]
      rw [toNat_ofNat8 (n % 128 + 128) (by omega), ih]
      have : ¬ (n % 128 + 128 < 128) := by omega
      simp only [Nat.succ_ne_zero, if_false, this]
      congr 1; omega

/-- the size loop stops exactly behind a byte string that `ConsumeVarint` accepts as one whole varint -/
theorem sizeLoop_of_consume (t : Term) : ∀ (k : Nat) (first : Bool) (enc tl : List Byte) (v : Nat),
    consumeVarintAux k enc = .ok v enc.length → sizeLoop t k first (enc ++ tl) = .bytes enc tl
  | _, _, [], _, _, h => by simp [consumeVarintAux] at h
  | 0, _, _ :: _, _, _, h => by simp [consumeVarintAux] at h
  | k+1, first, b :: bs, tl, v, h => by
    simp only [consumeVarintAux] at h
    simp only [List.cons_append, sizeLoop]
    by_cases hk : k = 0
    · simp only [hk, if_true] at h
      split at h
      · simp only [VarintRes.ok.injEq, List.length_cons] at h
        have : bs = [] := List.eq_nil_of_length_eq_zero (by omega)
        subst this
        have : b.toNat < 128 := by omega
        simp [this]
      · simp at h
    · simp only [hk, if_false] at h
      by_cases hb : b.toNat < 128
      · simp only [hb, if_true, VarintRes.ok.injEq, List.length_cons] at h
        have : bs = [] := List.eq_nil_of_length_eq_zero (by omega)
        subst this
        simp [hb]
      · simp only [hb, if_false] at h
        simp only [hb, if_false]
        cases hc : consumeVarintAux k bs with
        | ok v' n' =>
          rw [hc] at h
          simp only [VarintRes.ok.injEq, List.length_cons] at h
          have hn : n' = bs.length := by omega
          subst hn
          rw [sizeLoop_of_consume t k false bs tl v' hc]
        | truncated => rw [hc] at h; simp at h
        | overflow => rw [hc] at h; simp at h

/-- a reader that ends strictly inside an accepted size varint: the loop is left with the bytes read so far
(`io.EOF`, `i ≠ 0`) or returns the reader's error -/
theorem sizeLoop_cut (t : Term) : ∀ (k : Nat) (first : Bool) (p q : List Byte) (v : Nat),
    consumeVarintAux k (p ++ q) = .ok v (p ++ q).length → q ≠ [] → (first = true → p ≠ []) →
    sizeLoop t k first p = (match t with | .eof => .bytes p [] | .err e => .ret (.err e))
  | 0, _, [], q, v, h, hq, _ => by
    cases q with
    | nil => exact absurd rfl hq
    | cons a q => simp [consumeVarintAux] at h
  | 0, _, _ :: _, q, v, h, _, _ => by simp [consumeVarintAux] at h
  | k+1, first, [], q, v, h, hq, hf => by
    cases first with
    | true => exact absurd rfl (hf rfl)
    | false => cases t <;> simp [sizeLoop]
  | k+1, first, b :: p, q, v, h, hq, _ => by
    have hql : 0 < q.length := List.length_pos_iff.mpr hq
    simp only [List.cons_append, consumeVarintAux, List.length_cons, List.length_append] at h
    by_cases hk : k = 0
    · simp only [hk, if_true] at h
      split at h
      · simp only [VarintRes.ok.injEq] at h; omega
      · simp at h
    · simp only [hk, if_false] at h
      by_cases hb : b.toNat < 128
      · simp only [hb, if_true, VarintRes.ok.injEq] at h; omega
      · simp only [hb, if_false] at h
        cases hc : consumeVarintAux k (p ++ q) with
        | ok v' n' =>
          rw [hc] at h
          simp only [VarintRes.ok.injEq] at h
          have hn : n' = (p ++ q).length := by simp only [List.length_append]; omega
          subst hn
          have ih := sizeLoop_cut t k false p q v' hc hq (by simp)
          simp only [sizeLoop, hb, if_false, ih]
          cases t <;> rfl
        | truncated => rw [hc] at h; simp at h
        | overflow => rw [hc] at h; simp at h

/-- a strict prefix of an accepted size varint is a truncated varint -/
theorem consumeVarintAux_cut : ∀ (k : Nat) (p q : List Byte) (v : Nat),
    consumeVarintAux k (p ++ q) = .ok v (p ++ q).length → q ≠ [] → consumeVarintAux k p = .truncated
  | _, [], _, _, _, _ => by simp [consumeVarintAux]
  | 0, _ :: _, q, v, h, _ => by simp [consumeVarintAux] at h
  | k+1, b :: p, q, v, h, hq => by
    have hlen : 2 ≤ (b :: p ++ q).length := by
      cases q with
      | nil => exact absurd rfl hq
      | cons a q => simp only [List.cons_append, List.length_cons, List.length_append]; omega
    simp only [List.cons_append, consumeVarintAux] at h
    simp only [List.cons_append] at hlen
    by_cases hk : k = 0
    · simp only [hk, if_true] at h
      split at h
      · simp only [VarintRes.ok.injEq] at h; omega
      · simp at h
    · simp only [hk, if_false] at h
      by_cases hb : b.toNat < 128
      · simp only [hb, if_true, VarintRes.ok.injEq] at h; omega
      · simp only [hb, if_false] at h
        cases hc : consumeVarintAux k (p ++ q) with
        | ok v' n' =>
          rw [hc] at h
          simp only [VarintRes.ok.injEq, List.length_cons] at h
          have hn : n' = (p ++ q).length := by omega
          subst hn
          have ih := consumeVarintAux_cut k p q v' hc hq
          simp only [consumeVarintAux, hk, hb, if_false, ih]
        | truncated => rw [hc] at h; simp at h
        | overflow => rw [hc] at h; simp at h

/-- `k` continuation bytes followed by any byte: the loop (with `k+1` iterations left) takes them all -/
theorem sizeLoop_cont (t : Term) : ∀ (cs : List Byte) (first : Bool) (b : Byte) (tl : List Byte),
    (∀ c ∈ cs, 128 ≤ c.toNat) →
    sizeLoop t (cs.length + 1) first (cs ++ b :: tl) = .bytes (cs ++ [b]) tl
  | [], first, b, tl, _ => by
    simp only [List.length_nil, List.nil_append, sizeLoop]
    split <;> rfl
  | c :: cs, first, b, tl, h => by
    have hc : ¬ c.toNat < 128 := by
      have := h c (by simp); omega
    have ih := sizeLoop_cont t cs false b tl (fun x hx => h x (by simp [hx]))
    simp only [List.length_cons, List.cons_append, sizeLoop, hc, if_false, ih]

/-- `k` continuation bytes and a last byte `≥ 2` where only `k+1` bytes are allowed: overflow -/
theorem consumeVarintAux_overflow : ∀ (cs : List Byte) (b : Byte),
    (∀ c ∈ cs, 128 ≤ c.toNat) → 2 ≤ b.toNat → consumeVarintAux (cs.length + 1) (cs ++ [b]) = .overflow
  | [], b, _, hb => by
    have : ¬ b.toNat < 2 := by omega
    simp [consumeVarintAux, this]
  | c :: cs, b, h, hb => by
    have hc : ¬ c.toNat < 128 := by
      have := h c (by simp); omega
    have ih := consumeVarintAux_overflow cs b (fun x hx => h x (by simp [hx])) hb
    simp only [List.length_cons, List.cons_append, consumeVarintAux, hc, if_false, ih]
    simp

/-- fewer continuation bytes than allowed, nothing behind them: truncated -/
theorem consumeVarintAux_allcont : ∀ (k : Nat) (cs : List Byte),
    (∀ c ∈ cs, 128 ≤ c.toNat) → cs.length < k → consumeVarintAux k cs = .truncated
  | _, [], _, _ => by simp [consumeVarintAux]
  | 0, _ :: _, _, hl => by simp at hl
  | k+1, c :: cs, h, hl => by
    have hc : ¬ c.toNat < 128 := by
      have := h c (by simp); omega
    have hk : k ≠ 0 := by simp only [List.length_cons] at hl; omega
    have ih := consumeVarintAux_allcont k cs (fun x hx => h x (by simp [hx]))
      (by simp only [List.length_cons] at hl; omega)
    simp only [consumeVarintAux, hk, hc, if_false, ih]

/-! ### io.ReadFull is independent of how the reader chunks its data -/

theorem chunk_bounds (hint need avail : Nat) (h1 : 0 < need) (h2 : 0 < avail) :
    1 ≤ chunk hint need avail ∧ chunk hint need avail ≤ need ∧ chunk hint need avail ≤ avail := by
  simp only [chunk]; omega

theorem readFullAux_eq (t : Term) : ∀ (need : Nat) (hints : List Nat) (got s : List Byte),
    readFullAux t hints need got s =
      if need ≤ s.length then (.ok (got ++ s.take need), s.drop need) else (endErr t (got ++ s), []) := by
  intro need
  induction need using Nat.strongRecOn with
  | _ need ih =>
    intro hints got s
    rw [readFullAux.eq_def]
    by_cases h0 : need = 0
    · subst h0; simp
    · simp only [h0, if_false]
      cases s with
      | nil => simp [h0]
      | cons b s' =>
        simp only
        have hb := chunk_bounds (hints.headD (need + s'.length + 1)) need (s'.length + 1) (by omega) (by omega)
        generalize chunk (hints.headD (need + s'.length + 1)) need (s'.length + 1) = c at hb
        obtain ⟨c1, c2, c3⟩ := hb
        rw [ih (need - c) (by omega)]
        have hl : ((b :: s').drop c).length = s'.length + 1 - c := by simp
        rw [hl]
        by_cases hn : need ≤ (b :: s').length
        · have hn' : need ≤ s'.length + 1 := by simpa using hn
          have : need - c ≤ s'.length + 1 - c := by omega
          simp only [this, hn, if_true, List.append_assoc, List.drop_drop]
          have e1 : c + (need - c) = need := by omega
          rw [← List.take_add, e1]
        · have hn' : ¬ need ≤ s'.length + 1 := by simpa using hn
          have : ¬ need - c ≤ s'.length + 1 - c := by omega
          simp only [this, hn, if_false, List.append_assoc, List.take_append_drop]

theorem readFull_eq (t : Term) (hints : List Nat) (n : Nat) (s : List Byte) :
    readFull t hints n s =
      if n ≤ s.length then (.ok (s.take n), s.drop n) else (endErr t s, []) := by
  simp [readFull, readFullAux_eq]

theorem readBodyFallback_eq (t : Term) (hints : List Nat) (size : Nat) (s : List Byte) :
    readBodyFallback t hints size s = readBody t size s := by
  simp only [readBodyFallback, readBody, readFull_eq]
  by_cases h : size > maxAlloc
  · simp [h]
  · simp only [h, if_false]
    by_cases hs : size ≤ s.length
    · simp [hs]
    · simp only [hs, if_false]
      cases t with
      | err e => simp [endErr, Term.short]
      | eof =>
        simp only [endErr, Term.short]
        by_cases he : s.isEmpty <;> simp [he]

theorem readBodyR_eq (rk : ReaderKind) (t : Term) (hints : List Nat) (size : Nat) (s : List Byte)
    (hB : ∀ B, rk = .bufio B → B ≤ maxAlloc) :
    readBodyR rk t hints size s = readBody t size s := by
  cases rk with
  | generic => simp [readBodyR, readBodyFallback_eq]
  | bufio B =>
    have hB' := hB B rfl
    simp only [readBodyR, peek]
    by_cases h1 : size > B
    · simp [h1, readBodyFallback_eq]
    · simp only [h1, if_false]
      by_cases h2 : size ≤ s.length
      · have : ¬ size > maxAlloc := by omega
        simp [h2, readBody, this]
      · simp [h2, readBodyFallback_eq]

/-! ### the size loop splits the stream; fuel of `readAll` -/

/-- the size loop splits the stream: what it returns as size bytes and rest is the stream -/
theorem sizeLoop_split (t : Term) : ∀ (k : Nat) (first : Bool) (s buf rest : List Byte),
    sizeLoop t k first s = .bytes buf rest → s = buf ++ rest
  | 0, _, s, buf, rest, h => by
    simp only [sizeLoop, SizeRead.bytes.injEq] at h
    obtain ⟨rfl, rfl⟩ := h; rfl
  | k+1, first, [], buf, rest, h => by
    simp only [sizeLoop] at h
    cases t with
    | eof =>
      cases first <;> simp at h
      obtain ⟨rfl, rfl⟩ := h; rfl
    | err e => simp at h
  | k+1, first, b :: s, buf, rest, h => by
    simp only [sizeLoop] at h
    by_cases hb : b.toNat < 128
    · simp only [hb, if_true, SizeRead.bytes.injEq] at h
      obtain ⟨rfl, rfl⟩ := h; rfl
    · simp only [hb, if_false] at h
      cases hc : sizeLoop t k false s with
      | bytes bs r =>
        rw [hc] at h
        simp only [SizeRead.bytes.injEq] at h
        obtain ⟨rfl, rfl⟩ := h
        rw [sizeLoop_split t k false s bs r hc]; rfl
      | ret e => rw [hc] at h; simp at h

theorem sizeLoop_ret (t : Term) : ∀ (k : Nat) (first : Bool) (s : List Byte) (e : Term),
    sizeLoop t k first s = .ret e → e = t ∧ (first = true → t = .eof → s = [])
  | 0, _, s, e, h => by simp [sizeLoop] at h
  | k+1, first, [], e, h => by
    simp only [sizeLoop] at h
    cases t with
    | eof => cases first <;> simp at h; exact ⟨h.symm, fun _ _ => rfl⟩
    | err c => simp at h; exact ⟨h.symm, fun _ _ => rfl⟩
  | k+1, first, b :: s, e, h => by
    simp only [sizeLoop] at h
    by_cases hb : b.toNat < 128
    · simp [hb] at h
    · simp only [hb, if_false] at h
      cases hc : sizeLoop t k false s with
      | bytes bs r => rw [hc] at h; simp at h
      | ret e' =>
        rw [hc] at h
        simp only [SizeRead.ret.injEq] at h
        subst h
        have ih := sizeLoop_ret t k false s e' hc
        refine ⟨ih.1, ?_⟩
        intro _ ht
        -- with `t = eof` and `first = false` the loop never returns
        exfalso
        subst ht
        clear ih
        revert hc
        exact sizeLoop_false_eof k s e'
where
  sizeLoop_false_eof : ∀ (k : Nat) (s : List Byte) (e : Term), sizeLoop .eof k false s ≠ .ret e
    | 0, s, e => by simp [sizeLoop]
    | k+1, [], e => by simp [sizeLoop]
    | k+1, b :: s, e => by
      simp only [sizeLoop]
      by_cases hb : b.toNat < 128
      · simp [hb]
      · simp only [hb, if_false]
        cases hc : sizeLoop .eof k false s with
        | bytes bs r => simp
        | ret e' => exact absurd hc (sizeLoop_false_eof k s e')

/-- every outcome leaves the reader at a suffix of the stream -/
theorem rest_suffix (maxSize : Int) (t : Term) (s : List Byte) :
    ∃ used, s = used ++ (unmarshalFrom maxSize t s).2 := by
  simp only [unmarshalFrom, unmarshalWith]
  cases hs : sizeLoop t maxVarintLen64 true s with
  | ret e => exact ⟨s, by simp⟩
  | bytes buf rest =>
    have hsp := sizeLoop_split t _ _ _ _ _ hs
    simp only [afterSize]
    cases consumeVarint buf with
    | truncated => exact ⟨buf, hsp⟩
    | overflow => exact ⟨buf, hsp⟩
    | ok v n =>
      simp only
      cases tooLarge maxSize v with
      | some mx => exact ⟨buf, hsp⟩
      | none =>
        simp only [readBody]
        split
        · exact ⟨buf, hsp⟩
        · split
          · exact ⟨buf ++ rest.take v, by rw [hsp]; simp⟩
          · exact ⟨s, by simp⟩

/-- a successful call consumes at least one byte -/
theorem ok_rest_lt (maxSize : Int) (t : Term) (s body rest : List Byte)
    (h : unmarshalFrom maxSize t s = (.ok body, rest)) : rest.length < s.length := by
  simp only [unmarshalFrom, unmarshalWith] at h
  cases hs : sizeLoop t maxVarintLen64 true s with
  | ret e => rw [hs] at h; cases e <;> simp [Term.clean] at h
  | bytes buf rest0 =>
    rw [hs] at h
    have hsp := sizeLoop_split t _ _ _ _ _ hs
    simp only [afterSize] at h
    cases hc : consumeVarint buf with
    | truncated => rw [hc] at h; simp at h
    | overflow => rw [hc] at h; simp at h
    | ok v n =>
      rw [hc] at h
      simp only at h
      have hne : buf ≠ [] := by
        intro e; subst e; simp [consumeVarint, consumeVarintAux] at hc
      have hbl : 0 < buf.length := List.length_pos_iff.mpr hne
      cases htl : tooLarge maxSize v with
      | some mx => rw [htl] at h; simp at h
      | none =>
        rw [htl] at h
        simp only [readBody] at h
        split at h
        · simp at h
        · split at h
          · simp only [Prod.mk.injEq, Result.ok.injEq] at h
            rw [hsp, ← h.2]; simp; omega
          · cases t <;> simp [Term.short] at h

theorem readAllFuel_isSome (maxSize : Int) (t : Term) : ∀ (fuel : Nat) (s : List Byte),
    s.length < fuel → (readAllFuel maxSize t fuel s).isSome
  | 0, s, h => by omega
  | fuel+1, s, h => by
    simp only [readAllFuel]
    cases hu : unmarshalFrom maxSize t s with
    | mk r rest =>
      cases r with
      | ok b =>
        have := ok_rest_lt maxSize t s b rest hu
        have ih := readAllFuel_isSome maxSize t fuel rest (by omega)
        simp only [Option.isSome_map]; exact ih
      | _ => simp

theorem readAllFuel_succ (maxSize : Int) (t : Term) : ∀ (fuel : Nat) (s : List Byte) x,
    readAllFuel maxSize t fuel s = some x → readAllFuel maxSize t (fuel + 1) s = some x
  | 0, s, x, h => by simp [readAllFuel] at h
  | fuel+1, s, x, h => by
    rw [readAllFuel] at h ⊢
    cases hu : unmarshalFrom maxSize t s with
    | mk r rest =>
      rw [hu] at h
      cases r with
      | ok b =>
        simp only [Option.map_eq_some_iff] at h ⊢
        obtain ⟨y, hy, hxy⟩ := h
        exact ⟨y, readAllFuel_succ maxSize t fuel rest y hy, hxy⟩
      | _ => simpa using h

theorem readAllFuel_le (maxSize : Int) (t : Term) (f g : Nat) (s : List Byte) x (hfg : f ≤ g)
    (h : readAllFuel maxSize t f s = some x) : readAllFuel maxSize t g s = some x := by
  induction hfg with
  | refl => exact h
  | step _ ih => exact readAllFuel_succ maxSize t _ s x ih

/-- `readAll` never runs out of fuel -/
theorem readAll_isSome (maxSize : Int) (t : Term) (s : List Byte) : (readAll maxSize t s).isSome :=
  readAllFuel_isSome maxSize t _ s (by omega)

theorem readAllFuel_eq_readAll (maxSize : Int) (t : Term) (fuel : Nat) (s : List Byte) (h : s.length < fuel) :
    readAllFuel maxSize t fuel s = readAll maxSize t s := by
  have hs := readAll_isSome maxSize t s
  obtain ⟨x, hx⟩ := Option.isSome_iff_exists.mp hs
  rw [hx]
  exact readAllFuel_le maxSize t _ _ s x (by omega) hx


end Model.Delim
