import PbVerif.Gen.ImplFast
import PbVerif.Lemmas.WireBridge
/-
T1 tie for the varint fast paths that internal/impl inlines instead of calling
protowire.ConsumeVarint (codec_gen.go consume*, decode.go / lazy.go / validate.go /
codec_extension.go tag loops, validate.go length prefix).

`Gen.ImplFast.*` is regenerated on every run by /verif/go/gen-implfast from the text of the first
occurrence of each shape in the current tree (all other occurrences are checked to be AST-equal
to it modulo variable names).  This file proves, for EVERY byte string, that the inlined code
returns exactly what the translated `Gen.Wire.consumeVarint` returns, and therefore (C02 bridge)
what `Spec.decVarint` specifies.  Kernel-only: no bv_decide.
-/
set_option linter.unusedSimpArgs false
namespace ImplFast
open Gen.Wire Gen.ImplFast WireBridge

/-! ### small facts -/

theorem bind_pair_id {α β : Type} (o : Option (α × β)) :
    (o.bind fun (a, b) => some (a, b)) = o := by
  cases o with
  | none => rfl
  | some p => rfl

theorem ult8 (x : Byte) : BitVec.ult x 128#8 = decide (x.toNat < 128) := by
  simp [BitVec.ult]

/-- `uint64(b[0] & 0x7f)` is `uint64(b[0]) - 0x80` when the continuation bit is set -/
theorem and127_hi (x : Byte) (h : ¬ x.toNat < 128) :
    (x &&& 127#8).setWidth 64 = x.setWidth 64 - 128#64 := by
  apply BitVec.eq_of_toNat_eq
  have hx := x.isLt
  have hm : x.toNat &&& 127 = x.toNat % 128 := by
    have := Nat.and_two_pow_sub_one_eq_mod x.toNat 7
    simpa using this
  simp only [BitVec.toNat_setWidth, BitVec.toNat_and, BitVec.toNat_ofNat, BitVec.toNat_sub]
  rw [show (127 % 2 ^ 8) = 127 from rfl, hm]
  omega

/-- the same fact in the form `simp` normalises the left side to -/
theorem and127_hi' (x : Byte) (h : ¬ x.toNat < 128) :
    x.setWidth 64 &&& 127#64 = x.setWidth 64 - 128#64 := by
  apply BitVec.eq_of_toNat_eq
  have hx := x.isLt
  have hm : x.toNat &&& 127 = x.toNat % 128 := by
    have := Nat.and_two_pow_sub_one_eq_mod x.toNat 7
    simpa using this
  simp only [BitVec.toNat_setWidth, BitVec.toNat_and, BitVec.toNat_ofNat, BitVec.toNat_sub]
  rw [show (127 % 2 ^ 64) = 127 from rfl, Nat.mod_eq_of_lt (show x.toNat < 2 ^ 64 by omega), hm]
  omega

/-- one-byte varint: what `ConsumeVarint` returns when the first byte has no continuation bit -/
theorem cv_one (x0 : Byte) (r : List Byte) (h0 : x0.toNat < 128) :
    consumeVarint (x0 :: r) = some (x0.setWidth 64, 1#64) := by
  rw [gen_eq_cvAux]
  have u := ult_setWidth x0 128 (by omega)
  simp [cvAux, u, h0]

/-- two-byte varint -/
theorem cv_two (x0 x1 : Byte) (r : List Byte) (h0 : ¬ x0.toNat < 128) (h1 : x1.toNat < 128) :
    consumeVarint (x0 :: x1 :: r) = some (x0.setWidth 64 - 128#64 + (x1.setWidth 64 <<< 7), 2#64) := by
  rw [gen_eq_cvAux]
  have u0 := ult_setWidth x0 128 (by omega)
  have u1 := ult_setWidth x1 128 (by omega)
  simp [cvAux, u0, u1, h0, h1]

/-! ### shape (a): `v, n` fast path of the codec_gen.go consume functions -/

/-- The inlined fast path computes exactly `protowire.ConsumeVarint(b)`: same value, same length,
same error encodings, for every byte string. -/
theorem implFastVarint_eq_consumeVarint (b : List Byte) : implFastVarint b = consumeVarint b := by
  rcases b with _ | ⟨x0, _ | ⟨x1, rest⟩⟩
  · simp [implFastVarint, bind_pair_id]
  · by_cases h0 : x0.toNat < 128
    · simp [implFastVarint, ult8, h0, cv_one]
    · simp [implFastVarint, ult8, h0, bind_pair_id]
  · by_cases h0 : x0.toNat < 128
    · simp [implFastVarint, ult8, h0, cv_one]
    · by_cases h1 : x1.toNat < 128
      · simp [implFastVarint, ult8, h0, h1, cv_two, and127_hi, and127_hi' _ h0]
      · simp [implFastVarint, ult8, h0, h1, bind_pair_id]

/-! ### shape (b): `tag` / `size` fast path that advances the slice -/

/-- the slow path alone: `x, n = protowire.ConsumeVarint(b); if n < 0 { fail }; b = b[n:]` -/
def slowAdvance (b : List Byte) : Option (BitVec 64 × List Byte × Bool) :=
  (consumeVarint b).bind fun (v, n) =>
    if BitVec.slt n 0#64 then some (0#64, [], false)
    else (Go.slice b (some n) none).bind fun r => some (v, r, true)

theorem slice1 (x0 : Byte) (r : List Byte) (hb : (x0 :: r).length < 2 ^ 63) :
    Go.slice (x0 :: r) (some 1#64) none = some r := by
  have := slice_from (x0 :: r) 1 hb (by simp)
  simpa using this

theorem slice2 (x0 x1 : Byte) (r : List Byte) (hb : (x0 :: x1 :: r).length < 2 ^ 63) :
    Go.slice (x0 :: x1 :: r) (some 2#64) none = some r := by
  have := slice_from (x0 :: x1 :: r) 2 hb (by simp)
  simpa using this

theorem slt1 : BitVec.slt 1#64 0#64 = false := by decide
theorem slt2 : BitVec.slt 2#64 0#64 = false := by decide

/-- Inside `for len(b) > 0 { … }` (so `b ≠ []`) the inlined tag fast path is the slow path. -/
theorem implFastTag_eq_slow (b : List Byte) (hne : b ≠ []) (hb : b.length < 2 ^ 63) :
    implFastTag b = slowAdvance b := by
  rcases b with _ | ⟨x0, _ | ⟨x1, rest⟩⟩
  · exact absurd rfl hne
  · by_cases h0 : x0.toNat < 128
    · simp [implFastTag, slowAdvance, ult8, h0, cv_one, slice1 x0 [] hb, slt1]
    · simp [implFastTag, slowAdvance, ult8, h0]
  · by_cases h0 : x0.toNat < 128
    · simp [implFastTag, slowAdvance, ult8, h0, cv_one, slice1 x0 (x1 :: rest) hb, slt1]
    · by_cases h1 : x1.toNat < 128
      · simp [implFastTag, slowAdvance, ult8, h0, h1, cv_two, and127_hi, and127_hi' _ h0, slice2 x0 x1 rest hb, slt2]
      · simp [implFastTag, slowAdvance, ult8, h0, h1]

/-- Without the loop guard the unguarded `b[0]` of the tag fast path is a run-time panic. -/
theorem implFastTag_nil : implFastTag [] = none := by
  simp [implFastTag]

/-- The length-prefix fast path of validate.go checks `len(b) >= 1` itself: no precondition. -/
theorem implFastSize_eq_slow (b : List Byte) (hb : b.length < 2 ^ 63) :
    implFastSize b = slowAdvance b := by
  rcases b with _ | ⟨x0, _ | ⟨x1, rest⟩⟩
  · simp [implFastSize, slowAdvance]
  · by_cases h0 : x0.toNat < 128
    · simp [implFastSize, slowAdvance, ult8, h0, cv_one, slice1 x0 [] hb, slt1]
    · simp [implFastSize, slowAdvance, ult8, h0]
  · by_cases h0 : x0.toNat < 128
    · simp [implFastSize, slowAdvance, ult8, h0, cv_one, slice1 x0 (x1 :: rest) hb, slt1]
    · by_cases h1 : x1.toNat < 128
      · simp [implFastSize, slowAdvance, ult8, h0, h1, cv_two, and127_hi, and127_hi' _ h0, slice2 x0 x1 rest hb, slt2]
      · simp [implFastSize, slowAdvance, ult8, h0, h1]

/-- specification view of "consume a varint and advance" -/
def advanceSpec (b : List Byte) : BitVec 64 × List Byte × Bool :=
  match Spec.decVarint b with
  | .ok (v, n) => (BitVec.ofNat 64 v, b.drop n, true)
  | .error _ => (0#64, [], false)

theorem slt_code (e : Spec.WErr) : BitVec.slt (BitVec.ofInt 64 e.code) 0#64 = true := by
  cases e <;> decide

theorem slowAdvance_spec (b : List Byte) (hb : b.length < 2 ^ 63) :
    slowAdvance b = some (advanceSpec b) := by
  unfold slowAdvance advanceSpec
  rw [consumeVarint_spec]
  cases hd : Spec.decVarint b with
  | error e => simp [goVarint, slt_code]
  | ok p =>
    obtain ⟨w, n⟩ := p
    obtain ⟨h1, h2, hn, _⟩ := decVarint_bounds b w n hd
    simp [goVarint, slt_small_false n h1 h2, slice_from b n hb hn]

/-! ### the tag split `num = tag >> 3` (range-checked), `wtyp = tag & 7` -/

theorem shr3_toNat (w : Nat) (hw : w < 2 ^ 64) : (BitVec.ofNat 64 w >>> 3).toNat = w / 8 := by
  simp only [BitVec.toNat_ushiftRight, BitVec.toNat_ofNat, Nat.mod_eq_of_lt hw, Nat.shiftRight_eq_div_pow]

theorem and7 (w : Nat) (hw : w < 2 ^ 64) : (BitVec.ofNat 64 w &&& 7#64).setWidth 8 = BitVec.ofNat 8 (w % 8) := by
  apply BitVec.eq_of_toNat_eq
  have hm : w &&& 7 = w % 8 := by
    have := Nat.and_two_pow_sub_one_eq_mod w 3
    simpa using this
  simp only [BitVec.toNat_setWidth, BitVec.toNat_and, BitVec.toNat_ofNat, Nat.mod_eq_of_lt hw]
  rw [show (7 % 2 ^ 64) = 7 from rfl, hm]

theorem shr3_setWidth (w : Nat) (hw : w < 2 ^ 64) :
    (BitVec.ofNat 64 w >>> 3).setWidth 32 = BitVec.ofNat 32 (w / 8) := by
  apply BitVec.eq_of_toNat_eq
  simp only [BitVec.toNat_setWidth, shr3_toNat w hw, BitVec.toNat_ofNat]

/-- the split of internal/impl on a 64-bit tag value, arithmetically -/
theorem implTagSplit_ofNat (w : Nat) (hw : w < 2 ^ 64) :
    implTagSplit (BitVec.ofNat 64 w) =
      if w / 8 < 1 ∨ 536870911 < w / 8 then (0#32, 0#8, false)
      else (BitVec.ofNat 32 (w / 8), BitVec.ofNat 8 (w % 8), true) := by
  unfold implTagSplit
  have h3 := shr3_toNat w hw
  have hlo : BitVec.ult (BitVec.ofNat 64 w >>> 3) 1#64 = decide (w / 8 < 1) := by
    simp only [BitVec.ult, h3]; rfl
  have hhi : BitVec.ult 536870911#64 (BitVec.ofNat 64 w >>> 3) = decide (536870911 < w / 8) := by
    simp only [BitVec.ult, h3]; rfl
  simp only [hlo, hhi, shr3_setWidth w hw, and7 w hw]
  by_cases h : w / 8 < 1 ∨ 536870911 < w / 8
  · rcases h with h | h <;> simp [h]
  · have h1 : ¬ w / 8 < 1 := fun x => h (Or.inl x)
    have h2 : ¬ 536870911 < w / 8 := fun x => h (Or.inr x)
    simp [h1, h2]

theorem implTagSplitUnchecked_ofNat (w : Nat) (hw : w < 2 ^ 64) :
    implTagSplitUnchecked (BitVec.ofNat 64 w) = (BitVec.ofNat 32 (w / 8), BitVec.ofNat 8 (w % 8)) := by
  unfold implTagSplitUnchecked
  simp only [shr3_setWidth w hw, and7 w hw]

/-! ### the varint-skip ladder of impl.Validate (validate.go, `case protowire.VarintType:`)

`if len(b) >= 10 { switch { case b[0] < 0x80: b = b[1:] … case b[9] < 0x80 && b[9] < 2: b = b[10:]; default: fail } }
 else { switch { case len(b) > 0 && b[0] < 0x80: b = b[1:] … case len(b) > 9 && b[9] < 2: b = b[10:]; default: fail } }`
It never calls ConsumeVarint and only needs the LENGTH of the varint. -/

/-- recursive shape of the ladder: the input that remains after the varint, or failure -/
def skipAux (i : Nat) : List Byte → (List Byte × Bool)
  | [] => ([], false)
  | x :: r =>
    if i ≥ 9 then (if x.toNat < 2 then (r, true) else ([], false))
    else if x.toNat < 128 then (r, true)
    else skipAux (i + 1) r

theorem ult8_2 (x : Byte) : BitVec.ult x 2#8 = decide (x.toNat < 2) := by
  simp [BitVec.ult]

/-- `b[k:]` for a literal k, as an unconditional rewrite: `none` is the slice-bounds panic -/
theorem slice_ite (b : List Byte) (hb : b.length < 2 ^ 63) (k : Nat) (hk : k < 2 ^ 63) :
    Go.slice b (some (BitVec.ofNat 64 k)) none = if k ≤ b.length then some (b.drop k) else none := by
  by_cases h : k ≤ b.length
  · rw [if_pos h]; exact slice_from b k hb h
  · rw [if_neg h]
    unfold Go.slice
    have h1 : k % 2 ^ 64 = k := Nat.mod_eq_of_lt (by omega)
    have h2 : b.length % 2 ^ 64 = b.length := Nat.mod_eq_of_lt (by omega)
    simp only [Option.getD_some, Option.getD_none, msb_ofNat_false k hk, msb_ofNat_false _ hb,
      Bool.or_self, Bool.false_eq_true, ↓reduceIte, BitVec.toNat_ofNat, h1, h2]
    rw [if_neg (by omega)]

/-- the translated ladder (both switches) is the recursive ladder; in particular it never panics -/
theorem skip_eq_aux (b : List Byte) (hb : b.length < 2 ^ 63) :
    implValidateSkipVarint b = some (skipAux 0 b) := by
  have s1 := slice_ite b hb 1 (by decide)
  have s2 := slice_ite b hb 2 (by decide)
  have s3 := slice_ite b hb 3 (by decide)
  have s4 := slice_ite b hb 4 (by decide)
  have s5 := slice_ite b hb 5 (by decide)
  have s6 := slice_ite b hb 6 (by decide)
  have s7 := slice_ite b hb 7 (by decide)
  have s8 := slice_ite b hb 8 (by decide)
  have s9 := slice_ite b hb 9 (by decide)
  have s10 := slice_ite b hb 10 (by decide)
  simp only [implValidateSkipVarint, s1, s2, s3, s4, s5, s6, s7, s8, s9, s10]
  clear s1 s2 s3 s4 s5 s6 s7 s8 s9 s10
  rcases b with _ | ⟨x0, _ | ⟨x1, _ | ⟨x2, _ | ⟨x3, _ | ⟨x4, _ | ⟨x5, _ | ⟨x6, _ | ⟨x7, _ | ⟨x8, _ | ⟨x9, rest⟩⟩⟩⟩⟩⟩⟩⟩⟩⟩
  all_goals try simp [skipAux, ult8, ult8_2, apply_ite some]
  -- ten or more bytes: `b[9] < 0x80 && b[9] < 2` is `b[9] < 2`
  by_cases h2 : x9.toNat < 2
  · have h128 : x9.toNat < 128 := by omega
    simp [h2, h128]
  · by_cases h128 : x9.toNat < 128 <;> simp [h2, h128]

/-- the ladder against the specification decoder: it skips exactly the bytes `decVarint` consumes
and fails exactly when `decVarint` fails (truncated or overflow — Validate does not distinguish) -/
theorem skipAux_spec (b : List Byte) : ∀ (i : Nat), i ≤ 9 →
    skipAux i b = match Spec.decVarintAux i b with
      | .ok (_, n) => (b.drop n, true)
      | .error _ => ([], false) := by
  induction b with
  | nil => intro i _; simp [skipAux, Spec.decVarintAux]
  | cons x r ih =>
    intro i hi
    unfold skipAux Spec.decVarintAux
    by_cases h9 : i ≥ 9
    · by_cases hx : x.toNat < 2 <;> simp [h9, hx]
    · by_cases hx : x.toNat < 128
      · simp [h9, hx]
      · simp only [h9, hx, ↓reduceIte]
        rw [ih (i + 1) (by omega)]
        cases hd : Spec.decVarintAux (i + 1) r with
        | error e => rfl
        | ok p => obtain ⟨w, n⟩ := p; simp

/-- skipping over continuation bytes -/
theorem skipAux_cont (p : List Byte) (hp : ∀ x ∈ p, ¬ x.toNat < 128) (r : List Byte) :
    ∀ (i : Nat), i + p.length ≤ 9 → skipAux i (p ++ r) = skipAux (i + p.length) r := by
  induction p with
  | nil => intro i _; simp
  | cons x q ih =>
    intro i hi
    simp only [List.length_cons] at hi
    have hx : ¬ x.toNat < 128 := hp x (by simp)
    have h9 : ¬ i ≥ 9 := by omega
    simp only [List.cons_append, skipAux, h9, hx, ↓reduceIte, List.length_cons]
    rw [ih (fun y hy => hp y (by simp [hy])) (i + 1) (by omega)]
    congr 1; omega

/-- what "consume a varint VALUE and advance" is when only the length matters -/
def slowSkip (b : List Byte) : Option (List Byte × Bool) :=
  (consumeVarint b).bind fun (_, n) =>
    if BitVec.slt n 0#64 then some ([], false)
    else (Go.slice b (some n) none).bind fun r => some (r, true)

theorem slowSkip_spec (b : List Byte) (hb : b.length < 2 ^ 63) :
    slowSkip b = some (match Spec.decVarint b with
      | .ok (_, n) => (b.drop n, true)
      | .error _ => ([], false)) := by
  unfold slowSkip
  rw [consumeVarint_spec]
  cases hd : Spec.decVarint b with
  | error e => simp [goVarint, slt_code]
  | ok p =>
    obtain ⟨w, n⟩ := p
    obtain ⟨h1, h2, hn, _⟩ := decVarint_bounds b w n hd
    simp [goVarint, slt_small_false n h1 h2, slice_from b n hb hn]

theorem skip_eq_slow (b : List Byte) (hb : b.length < 2 ^ 63) :
    implValidateSkipVarint b = slowSkip b := by
  rw [skip_eq_aux b hb, slowSkip_spec b hb, skipAux_spec b 0 (by omega)]
  rfl

end ImplFast
