import PbVerif.Gen.ImplFast
import PbVerif.Lemmas.WireBridge
/-
T1 tie for the varint fast paths that internal/impl inlines instead of calling
protowire.ConsumeVarint (codec_gen.go consume*, decode.go / lazy.go / validate.go /
codec_extension.go tag loops, validate.go length prefix).

`Gen.ImplFast.*` is regenerated on every run by /verif/go/gen-implfast from the text of the first
occurrence of each shape in the current tree (all other occurrences are checked to be AST-equal
to it modulo variable names).  This file proves, for EVERY byte string, that the inlined code
returns exactly what the translated `Gen.Wire.consumeVarint` returns, and therefore (C02 bridge)
what `Spec.decVarint` specifies.  Kernel-only: no bv_decide.
-/
set_option linter.unusedSimpArgs false
namespace ImplFast
open Gen.Wire Gen.ImplFast WireBridge

/-! ### small facts -/

theorem bind_pair_id {α β : Type} (o : Option (α × β)) :
    (o.bind fun (a, b) => some (a, b)) = o := by
  cases o with
  | none => rfl
  | some p => rfl

theorem ult8 (x : Byte) : BitVec.ult x 128#8 = decide (x.toNat < 128) := by
  simp [BitVec.ult]

/-- `uint64(b[0] & 0x7f)` is `uint64(b[0]) - 0x80` when the continuation bit is set -/
theorem and127_hi (x : Byte) (h : ¬ x.toNat < 128) :
    (x &&& 127#8).setWidth 64 = x.setWidth 64 - 128#64 := by
  apply BitVec.eq_of_toNat_eq
  have hx := x.isLt
  have hm : x.toNat &&& 127 = x.toNat % 128 := by
    have := Nat.and_two_pow_sub_one_eq_mod x.toNat 7
    simpa using this
  simp only [BitVec.toNat_setWidth, BitVec.toNat_and, BitVec.toNat_ofNat, BitVec.toNat_sub]
  rw [show (127 % 2 ^ 8) = 127 from rfl, hm]
  omega

/-- the same fact in the form `simp` normalises the left side to -/
theorem and127_hi' (x : Byte) (h : ¬ x.toNat < 128) :
    x.setWidth 64 &&& 127#64 = x.setWidth 64 - 128#64 := by
  apply BitVec.eq_of_toNat_eq
  have hx := x.isLt
  have hm : x.toNat &&& 127 = x.toNat % 128 := by
    have := Nat.and_two_pow_sub_one_eq_mod x.toNat 7
    simpa using this
  simp only [BitVec.toNat_setWidth, BitVec.toNat_and, BitVec.toNat_ofNat, BitVec.toNat_sub]
  rw [show (127 % 2 ^ 64) = 127 from rfl, Nat.mod_eq_of_lt (show x.toNat < 2 ^ 64 by omega), hm]
  omega

/-- one-byte varint: what `ConsumeVarint` returns when the first byte has no continuation bit -/
theorem cv_one (x0 : Byte) (r : List Byte) (h0 : x0.toNat < 128) :
    consumeVarint (x0 :: r) = some (x0.setWidth 64, 1#64) := by
  rw [gen_eq_cvAux]
  have u := ult_setWidth x0 128 (by omega)
  simp [cvAux, u, h0]

/-- two-byte varint -/
theorem cv_two (x0 x1 : Byte) (r : List Byte) (h0 : ¬ x0.toNat < 128) (h1 : x1.toNat < 128) :
    consumeVarint (x0 :: x1 :: r) = some (x0.setWidth 64 - 128#64 + (x1.setWidth 64 <<< 7), 2#64) := by
  rw [gen_eq_cvAux]
  have u0 := ult_setWidth x0 128 (by omega)
  have u1 := ult_setWidth x1 128 (by omega)
  simp [cvAux, u0, u1, h0, h1]

/-! ### shape (a): `v, n` fast path of the codec_gen.go consume functions -/

/-- The inlined fast path computes exactly `protowire.ConsumeVarint(b)`: same value, same length,
same error encodings, for every byte string. -/
theorem implFastVarint_eq_consumeVarint (b : List Byte) : implFastVarint b = consumeVarint b := by
  rcases b with _ | ⟨x0, _ | ⟨x1, rest⟩⟩
  · simp [implFastVarint, bind_pair_id]
  · by_cases h0 : x0.toNat < 128
    · simp [implFastVarint, ult8, h0, cv_one]
    · simp [implFastVarint, ult8, h0, bind_pair_id]
  · by_cases h0 : x0.toNat < 128
    · simp [implFastVarint, ult8, h0, cv_one]
    · by_cases h1 : x1.toNat < 128
      · simp [implFastVarint, ult8, h0, h1, cv_two, and127_hi, and127_hi' _ h0]
      · simp [implFastVarint, ult8, h0, h1, bind_pair_id]

/-! ### shape (b): `tag` / `size` fast path that advances the slice -/

/-- the slow path alone: `x, n = protowire.ConsumeVarint(b); if n < 0 { fail }; b = b[n:]` -/
def slowAdvance (b : List Byte) : Option (BitVec 64 × List Byte × Bool) :=
  (consumeVarint b).bind fun (v, n) =>
    if BitVec.slt n 0#64 then some (0#64, [], false)
    else (Go.slice b (some n) none).bind fun r => some (v, r, true)

theorem slice1 (x0 : Byte) (r : List Byte) (hb : (x0 :: r).length < 2 ^ 63) :
    Go.slice (x0 :: r) (some 1#64) none = some r := by
  have := slice_from (x0 :: r) 1 hb (by simp)
  simpa using this

theorem slice2 (x0 x1 : Byte) (r : List Byte) (hb : (x0 :: x1 :: r).length < 2 ^ 63) :
    Go.slice (x0 :: x1 :: r) (some 2#64) none = some r := by
  have := slice_from (x0 :: x1 :: r) 2 hb (by simp)
  simpa using this

theorem slt1 : BitVec.slt 1#64 0#64 = false := by decide
theorem slt2 : BitVec.slt 2#64 0#64 = false := by decide

/-- Inside `for len(b) > 0 { … }` (so `b ≠ []`) the inlined tag fast path is the slow path. -/
theorem implFastTag_eq_slow (b : List Byte) (hne : b ≠ []) (hb : b.length < 2 ^ 63) :
    implFastTag b = slowAdvance b := by
  rcases b with _ | ⟨x0, _ | ⟨x1, rest⟩⟩
  · exact absurd rfl hne
  · by_cases h0 : x0.toNat < 128
    · simp [implFastTag, slowAdvance, ult8, h0, cv_one, slice1 x0 [] hb, slt1]
    · simp [implFastTag, slowAdvance, ult8, h0]
  · by_cases h0 : x0.toNat < 128
    · simp [implFastTag, slowAdvance, ult8, h0, cv_one, slice1 x0 (x1 :: rest) hb, slt1]
    · by_cases h1 : x1.toNat < 128
      · simp [implFastTag, slowAdvance, ult8, h0, h1, cv_two, and127_hi, and127_hi' _ h0, slice2 x0 x1 rest hb, slt2]
      · simp [implFastTag, slowAdvance, ult8, h0, h1]

/-- Without the loop guard the unguarded `b[0]` of the tag fast path is a run-time panic. -/
theorem implFastTag_nil : implFastTag [] = none := by
  simp [implFastTag]

/-- The length-prefix fast path of validate.go checks `len(b) >= 1` itself: no precondition. -/
theorem implFastSize_eq_slow (b : List Byte) (hb : b.length < 2 ^ 63) :
    implFastSize b = slowAdvance b := by
  rcases b with _ | ⟨x0, _ | ⟨x1, rest⟩⟩
  · simp [implFastSize, slowAdvance]
  · by_cases h0 : x0.toNat < 128
    · simp [implFastSize, slowAdvance, ult8, h0, cv_one, slice1 x0 [] hb, slt1]
    · simp [implFastSize, slowAdvance, ult8, h0]
  · by_cases h0 : x0.toNat < 128
    · simp [implFastSize, slowAdvance, ult8, h0, cv_one, slice1 x0 (x1 :: rest) hb, slt1]
    · by_cases h1 : x1.toNat < 128
      · simp [implFastSize, slowAdvance, ult8, h0, h1, cv_two, and127_hi, and127_hi' _ h0, slice2 x0 x1 rest hb, slt2]
      · simp [implFastSize, slowAdvance, ult8, h0, h1]

/-- specification view of "consume a varint and advance" -/
def advanceSpec (b : List Byte) : BitVec 64 × List Byte × Bool :=
  match Spec.decVarint b with
  | .ok (v, n) => (BitVec.ofNat 64 v, b.drop n, true)
  | .error _ => (0#64, [], false)

theorem slt_code (e : Spec.WErr) : BitVec.slt (BitVec.ofInt 64 e.code) 0#64 = true := by
  cases e <;> decide

theorem slowAdvance_spec (b : List Byte) (hb : b.length < 2 ^ 63) :
    slowAdvance b = some (advanceSpec b) := by
  unfold slowAdvance advanceSpec
  rw [consumeVarint_spec]
  cases hd : Spec.decVarint b with
  | error e => simp [goVarint, slt_code]
  | ok p =>
    obtain ⟨w, n⟩ := p
    obtain ⟨h1, h2, hn, _⟩ := decVarint_bounds b w n hd
    simp [goVarint, slt_small_false n h1 h2, slice_from b n hb hn]

/-! ### the tag split `num = tag >> 3` (range-checked), `wtyp = tag & 7` -/

theorem shr3_toNat (w : Nat) (hw : w < 2 ^ 64) : (BitVec.ofNat 64 w >>> 3).toNat = w / 8 := by
  simp only [BitVec.toNat_ushiftRight, BitVec.toNat_ofNat, Nat.mod_eq_of_lt hw, Nat.shiftRight_eq_div_pow]

theorem and7 (w : Nat) (hw : w < 2 ^ 64) : (BitVec.ofNat 64 w &&& 7#64).setWidth 8 = BitVec.ofNat 8 (w % 8) := by
  apply BitVec.eq_of_toNat_eq
  have hm : w &&& 7 = w % 8 := by
    have := Nat.and_two_pow_sub_one_eq_mod w 3
    simpa using this
  simp only [BitVec.toNat_setWidth, BitVec.toNat_and, BitVec.toNat_ofNat, Nat.mod_eq_of_lt hw]
  rw [show (7 % 2 ^ 64) = 7 from rfl, hm]

theorem shr3_setWidth (w : Nat) (hw : w < 2 ^ 64) :
    (BitVec.ofNat 64 w >>> 3).setWidth 32 = BitVec.ofNat 32 (w / 8) := by
  apply BitVec.eq_of_toNat_eq
  simp only [BitVec.toNat_setWidth, shr3_toNat w hw, BitVec.toNat_ofNat]

/-- the split of internal/impl on a 64-bit tag value, arithmetically -/
theorem implTagSplit_ofNat (w : Nat) (hw : w < 2 ^ 64) :
    implTagSplit (BitVec.ofNat 64 w) =
      if w / 8 < 1 ∨ 536870911 < w / 8 then (0#32, 0#8, false)
      else (BitVec.ofNat 32 (w / 8), BitVec.ofNat 8 (w % 8), true) := by
  unfold implTagSplit
  have h3 := shr3_toNat w hw
  have hlo : BitVec.ult (BitVec.ofNat 64 w >>> 3) 1#64 = decide (w / 8 < 1) := by
    simp only [BitVec.ult, h3]; rfl
  have hhi : BitVec.ult 536870911#64 (BitVec.ofNat 64 w >>> 3) = decide (536870911 < w / 8) := by
    simp only [BitVec.ult, h3]; rfl
  simp only [hlo, hhi, shr3_setWidth w hw, and7 w hw]
  by_cases h : w / 8 < 1 ∨ 536870911 < w / 8
  · rcases h with h | h <;> simp [h]
  · have h1 : ¬ w / 8 < 1 := fun x => h (Or.inl x)
    have h2 : ¬ 536870911 < w / 8 := fun x => h (Or.inr x)
    simp [h1, h2]

theorem implTagSplitUnchecked_ofNat (w : Nat) (hw : w < 2 ^ 64) :
    implTagSplitUnchecked (BitVec.ofNat 64 w) = (BitVec.ofNat 32 (w / 8), BitVec.ofNat 8 (w % 8)) := by
  unfold implTagSplitUnchecked
  simp only [shr3_setWidth w hw, and7 w hw]

end ImplFast
