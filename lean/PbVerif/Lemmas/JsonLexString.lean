import PbVerif.Model.JsonLex
/-
Helper lemmas for C21: `utf8.DecodeRune` against RFC 3629 §4 and `Decoder.parseString`
(decode_string.go) against the RFC 8259 string grammar.
-/
set_option linter.unusedSimpArgs false
namespace JsonLex
open RFC

/-! ### utf8.DecodeRune and the RFC 3629 grammar -/

theorem isCont_iff {b : Byte} : isCont b = true ↔ 0x80#8 ≤ b ∧ b ≤ 0xBF#8 := by
  simp [isCont]

/-- a character of the RFC 3629 grammar decodes to itself: `DecodeRune` consumes exactly its bytes,
returns the byte itself for a one-byte character and a value ≥ 0x80 otherwise -/
theorem decodeRune_utf8Char {u : Bytes} (hu : Utf8Char u) (t : Bytes) :
    ∃ r, decodeRune (u ++ t) = (r, u.length) ∧ (∀ a, u = [a] → r = a.toNat) ∧ (2 ≤ u.length → 0x80 ≤ r) := by
  cases hu with
  | one a h =>
    have ha : a < 0x80#8 := by bv_omega
    exact ⟨a.toNat, by simp [decodeRune, ha], by intro x hx; simp at hx; subst hx; rfl, by simp⟩
  | two a b h1 h2 hb =>
    have ha : ¬ a < 0x80#8 := by bv_omega
    rw [isCont_iff] at hb
    simp only [List.cons_append, List.nil_append, decodeRune, if_neg ha, h1, h2, and_self, if_true, isCont,
      hb, decide_true, Bool.and_self]
    exact ⟨_, rfl, by simp, fun _ => by bv_omega⟩
  | threeE0 b c h1 h2 hc =>
    rw [isCont_iff] at hc
    simp only [List.cons_append, List.nil_append, decodeRune, isCont, hc]
    simp only [decide_true, Bool.and_self, and_true, BitVec.reduceLT, BitVec.reduceLE, BitVec.reduceEq,
      if_true, if_false, and_self, and_false, reduceIte, ne_eq, not_true_eq_false, not_false_eq_true]
    rw [if_pos ⟨h1, h2⟩]
    exact ⟨_, rfl, by simp, fun _ => by bv_omega⟩
  | threeE1 a b c h1 h2 hb hc =>
    have ha : ¬ a < 0x80#8 := by bv_omega
    have ha2 : ¬ (0xC2#8 ≤ a ∧ a ≤ 0xDF#8) := by bv_omega
    have ha3 : 0xE0#8 ≤ a ∧ a ≤ 0xEF#8 := by bv_omega
    have e0 : a ≠ 0xE0#8 := by bv_omega
    have ed : a ≠ 0xED#8 := by bv_omega
    rw [isCont_iff] at hb hc
    simp only [List.cons_append, List.nil_append, decodeRune, if_neg ha, if_neg ha2, if_pos ha3, if_neg e0,
      if_neg ed, hb, hc, isCont, and_self, decide_true, Bool.and_self, if_true]
    exact ⟨_, rfl, by simp, fun _ => by bv_omega⟩
  | threeED b c h1 h2 hc =>
    rw [isCont_iff] at hc
    simp only [List.cons_append, List.nil_append, decodeRune, isCont, hc]
    simp only [decide_true, Bool.and_self, and_true, BitVec.reduceLT, BitVec.reduceLE, BitVec.reduceEq,
      if_true, if_false, and_self, and_false, reduceIte, ne_eq, not_true_eq_false, not_false_eq_true]
    rw [if_pos ⟨h1, h2⟩]
    exact ⟨_, rfl, by simp, fun _ => by bv_omega⟩
  | threeEE a b c h1 h2 hb hc =>
    have ha : ¬ a < 0x80#8 := by bv_omega
    have ha2 : ¬ (0xC2#8 ≤ a ∧ a ≤ 0xDF#8) := by bv_omega
    have ha3 : 0xE0#8 ≤ a ∧ a ≤ 0xEF#8 := by bv_omega
    have e0 : a ≠ 0xE0#8 := by bv_omega
    have ed : a ≠ 0xED#8 := by bv_omega
    rw [isCont_iff] at hb hc
    simp only [List.cons_append, List.nil_append, decodeRune, if_neg ha, if_neg ha2, if_pos ha3, if_neg e0,
      if_neg ed, hb, hc, isCont, and_self, decide_true, Bool.and_self, if_true]
    exact ⟨_, rfl, by simp, fun _ => by bv_omega⟩
  | fourF0 b c d h1 h2 hc hd =>
    rw [isCont_iff] at hc hd
    simp only [List.cons_append, List.nil_append, decodeRune, isCont, hc, hd]
    simp only [decide_true, Bool.and_self, and_true, BitVec.reduceLT, BitVec.reduceLE, BitVec.reduceEq,
      if_true, if_false, and_self, and_false, reduceIte, ne_eq, not_true_eq_false, not_false_eq_true]
    rw [if_pos ⟨h1, h2⟩]
    exact ⟨_, rfl, by simp, fun _ => by bv_omega⟩
  | fourF1 a b c d h1 h2 hb hc hd =>
    have ha : ¬ a < 0x80#8 := by bv_omega
    have ha2 : ¬ (0xC2#8 ≤ a ∧ a ≤ 0xDF#8) := by bv_omega
    have ha3 : ¬ (0xE0#8 ≤ a ∧ a ≤ 0xEF#8) := by bv_omega
    have ha4 : 0xF0#8 ≤ a ∧ a ≤ 0xF4#8 := by bv_omega
    have f0 : a ≠ 0xF0#8 := by bv_omega
    have f4 : a ≠ 0xF4#8 := by bv_omega
    rw [isCont_iff] at hb hc hd
    simp only [List.cons_append, List.nil_append, decodeRune, if_neg ha, if_neg ha2, if_neg ha3, if_pos ha4,
      if_neg f0, if_neg f4, hb, hc, hd, isCont, and_self, decide_true, Bool.and_self, if_true]
    exact ⟨_, rfl, by simp, fun _ => by bv_omega⟩
  | fourF4 b c d h1 h2 hc hd =>
    rw [isCont_iff] at hc hd
    simp only [List.cons_append, List.nil_append, decodeRune, isCont, hc, hd]
    simp only [decide_true, Bool.and_self, and_true, BitVec.reduceLT, BitVec.reduceLE, BitVec.reduceEq,
      if_true, if_false, and_self, and_false, reduceIte, ne_eq, not_true_eq_false, not_false_eq_true]
    rw [if_pos ⟨h1, h2⟩]
    exact ⟨_, rfl, by simp, fun _ => by bv_omega⟩


theorem lead3_cases : ∀ a : Byte, 0xE0#8 ≤ a → a ≤ 0xEF#8 →
    a = 0xE0#8 ∨ (0xE1#8 ≤ a ∧ a ≤ 0xEC#8) ∨ a = 0xED#8 ∨ (0xEE#8 ≤ a ∧ a ≤ 0xEF#8) := by decide
theorem lead4_cases : ∀ a : Byte, 0xF0#8 ≤ a → a ≤ 0xF4#8 →
    a = 0xF0#8 ∨ (0xF1#8 ≤ a ∧ a ≤ 0xF3#8) ∨ a = 0xF4#8 := by decide

/-- whatever `DecodeRune` does not reject is a character of the RFC 3629 grammar -/
theorem decodeRune_sound (a : Byte) (t : Bytes)
    (h : ¬ ((decodeRune (a :: t)).1 = runeError ∧ (decodeRune (a :: t)).2 = 1)) :
    ∃ u t', a :: t = u ++ t' ∧ Utf8Char u ∧ u.length = (decodeRune (a :: t)).2 ∧
      (∀ x, u = [x] → (decodeRune (a :: t)).1 = x.toNat) ∧ (2 ≤ u.length → 0x80 ≤ (decodeRune (a :: t)).1) := by
  have fromChar : ∀ u t', a :: t = u ++ t' → Utf8Char u →
      ∃ u t', a :: t = u ++ t' ∧ Utf8Char u ∧ u.length = (decodeRune (a :: t)).2 ∧
      (∀ x, u = [x] → (decodeRune (a :: t)).1 = x.toNat) ∧ (2 ≤ u.length → 0x80 ≤ (decodeRune (a :: t)).1) := by
    intro u t' hs hu
    obtain ⟨r, hr, h1, h2⟩ := decodeRune_utf8Char hu t'
    rw [← hs] at hr
    exact ⟨u, t', hs, hu, by rw [hr], by rw [hr]; exact h1, by rw [hr]; exact h2⟩
  by_cases h1 : a < 0x80#8
  · exact fromChar [a] t rfl (Utf8Char.one a (by bv_omega))
  by_cases h2 : 0xC2#8 ≤ a ∧ a ≤ 0xDF#8
  · rcases t with _ | ⟨b, t'⟩
    · exact absurd (by simp [decodeRune, h1, h2]) h
    · by_cases hb : isCont b = true
      · exact fromChar [a, b] t' rfl (Utf8Char.two a b h2.1 h2.2 hb)
      · exact absurd (by simp [decodeRune, h1, h2, hb]) h
  by_cases h3 : 0xE0#8 ≤ a ∧ a ≤ 0xEF#8
  · rcases t with _ | ⟨b, _ | ⟨c, t'⟩⟩
    · exact absurd (by simp [decodeRune, h1, h2, h3]) h
    · exact absurd (by simp [decodeRune, h1, h2, h3]) h
    · by_cases hbc : ((if a = 0xE0#8 then 0xA0#8 else 0x80#8) ≤ b ∧ b ≤ (if a = 0xED#8 then 0x9F#8 else 0xBF#8) ∧ isCont c = true)
      · obtain ⟨hlo, hhi, hc⟩ := hbc
        rcases lead3_cases a h3.1 h3.2 with rfl | hr | rfl | hr
        · exact fromChar [0xE0#8, b, c] t' rfl (Utf8Char.threeE0 b c (by simpa using hlo) (by simpa using hhi) hc)
        · have e0 : a ≠ 0xE0#8 := by bv_omega
          have ed : a ≠ 0xED#8 := by bv_omega
          rw [if_neg e0] at hlo; rw [if_neg ed] at hhi
          exact fromChar [a, b, c] t' rfl (Utf8Char.threeE1 a b c hr.1 hr.2 (isCont_iff.2 ⟨hlo, hhi⟩) hc)
        · exact fromChar [0xED#8, b, c] t' rfl (Utf8Char.threeED b c (by simpa using hlo) (by simpa using hhi) hc)
        · have e0 : a ≠ 0xE0#8 := by bv_omega
          have ed : a ≠ 0xED#8 := by bv_omega
          rw [if_neg e0] at hlo; rw [if_neg ed] at hhi
          exact fromChar [a, b, c] t' rfl (Utf8Char.threeEE a b c hr.1 hr.2 (isCont_iff.2 ⟨hlo, hhi⟩) hc)
      · exact absurd (by simp only [decodeRune, if_neg h1, if_neg h2, if_pos h3, if_neg hbc]; simp) h
  by_cases h4 : 0xF0#8 ≤ a ∧ a ≤ 0xF4#8
  · rcases t with _ | ⟨b, _ | ⟨c, _ | ⟨d, t'⟩⟩⟩
    · exact absurd (by simp [decodeRune, h1, h2, h3, h4]) h
    · exact absurd (by simp [decodeRune, h1, h2, h3, h4]) h
    · exact absurd (by simp [decodeRune, h1, h2, h3, h4]) h
    · by_cases hbc : ((if a = 0xF0#8 then 0x90#8 else 0x80#8) ≤ b ∧ b ≤ (if a = 0xF4#8 then 0x8F#8 else 0xBF#8) ∧ isCont c = true ∧ isCont d = true)
      · obtain ⟨hlo, hhi, hc, hd⟩ := hbc
        rcases lead4_cases a h4.1 h4.2 with rfl | hr | rfl
        · exact fromChar [0xF0#8, b, c, d] t' rfl (Utf8Char.fourF0 b c d (by simpa using hlo) (by simpa using hhi) hc hd)
        · have f0 : a ≠ 0xF0#8 := by bv_omega
          have f4 : a ≠ 0xF4#8 := by bv_omega
          rw [if_neg f0] at hlo; rw [if_neg f4] at hhi
          exact fromChar [a, b, c, d] t' rfl (Utf8Char.fourF1 a b c d hr.1 hr.2 (isCont_iff.2 ⟨hlo, hhi⟩) hc hd)
        · exact fromChar [0xF4#8, b, c, d] t' rfl (Utf8Char.fourF4 b c d (by simpa using hlo) (by simpa using hhi) hc hd)
      · exact absurd (by simp only [decodeRune, if_neg h1, if_neg h2, if_neg h3, if_pos h4, if_neg hbc]; simp) h
  · exact absurd (by simp only [decodeRune, if_neg h1, if_neg h2, if_neg h3, if_neg h4]; simp) h


theorem RFC.Utf8Char.length_pos {u : Bytes} (h : Utf8Char u) : 1 ≤ u.length := by
  cases h <;> simp

/-- a result below 0x80 that is not an error is the first byte itself, one byte long -/
theorem decodeRune_ascii (a : Byte) (t : Bytes)
    (h : ¬ ((decodeRune (a :: t)).1 = runeError ∧ (decodeRune (a :: t)).2 = 1))
    (hlt : (decodeRune (a :: t)).1 < 0x80) :
    (decodeRune (a :: t)).1 = a.toNat ∧ (decodeRune (a :: t)).2 = 1 ∧ a < 0x80#8 := by
  obtain ⟨u, t', hs, hu, hlen, h1, h2⟩ := decodeRune_sound a t h
  have hl := hu.length_pos
  have : u.length = 1 := by
    rcases Nat.lt_or_ge u.length 2 with h | h
    · omega
    · have := h2 h; omega
  obtain ⟨x, rfl⟩ : ∃ x, u = [x] := by
    rcases u with _ | ⟨x, _ | _⟩ <;> simp at this
    exact ⟨x, rfl⟩
  simp at hs
  obtain ⟨rfl, rfl⟩ := hs
  have := h1 a rfl
  refine ⟨this, by rw [← hlen]; rfl, ?_⟩
  rw [this] at hlt; bv_omega

/-! ### the string grammar of the decoder -/

/-- one character or escape of a string literal as `parseString` accepts it (first index), with the
bytes it denotes (second index): the RFC 8259 `char`, except that a `\uXXXX` escape naming a
surrogate must be the high half of a well-formed pair `\uD800–DBFF \uDC00–DFFF`. -/
inductive DChar : Bytes → Bytes → Prop
  | unescaped (u : Bytes) : Utf8Char u → (∀ a, u = [a] → 0x20#8 ≤ a ∧ a ≠ 0x22#8 ∧ a ≠ 0x5c#8) → DChar u u
  | self (e : Byte) : (e = 0x22#8 ∨ e = 0x5c#8 ∨ e = 0x2f#8) → DChar [0x5c#8, e] [e]
  | b : DChar [0x5c#8, 0x62#8] [0x08#8]
  | f : DChar [0x5c#8, 0x66#8] [0x0c#8]
  | n : DChar [0x5c#8, 0x6e#8] [0x0a#8]
  | r : DChar [0x5c#8, 0x72#8] [0x0d#8]
  | t : DChar [0x5c#8, 0x74#8] [0x09#8]
  | hex (h1 h2 h3 h4 : Byte) (v : Nat) : parseHex4 [h1, h2, h3, h4] = some v → isSurrogate v = false →
      DChar [0x5c#8, 0x75#8, h1, h2, h3, h4] (encodeRune v)
  | pair (h1 h2 h3 h4 l1 l2 l3 l4 : Byte) (hi lo : Nat) :
      parseHex4 [h1, h2, h3, h4] = some hi → parseHex4 [l1, l2, l3, l4] = some lo →
      0xD800 ≤ hi → hi < 0xDC00 → 0xDC00 ≤ lo → lo < 0xE000 →
      DChar [0x5c#8, 0x75#8, h1, h2, h3, h4, 0x5c#8, 0x75#8, l1, l2, l3, l4]
        (encodeRune ((hi - 0xD800) * 1024 + (lo - 0xDC00) + 0x10000))

/-- a sequence of such characters and what it denotes -/
inductive DChars : Bytes → Bytes → Prop
  | nil : DChars [] []
  | cons (c d cs ds : Bytes) : DChar c d → DChars cs ds → DChars (c ++ cs) (d ++ ds)

theorem DChar.length_pos {c d : Bytes} (h : DChar c d) : 1 ≤ c.length := by
  cases h with
  | unescaped u hu _ => exact hu.length_pos
  | _ => simp

theorem parseHex4_cons (h1 h2 h3 h4 : Byte) (t : Bytes) :
    parseHex4 (h1 :: h2 :: h3 :: h4 :: t) = parseHex4 [h1, h2, h3, h4] := by
  simp [parseHex4]

theorem decodeSurrogates_ne_error (hi lo : Nat) :
    decodeSurrogates hi lo ≠ runeError ↔ (0xD800 ≤ hi ∧ hi < 0xDC00 ∧ 0xDC00 ≤ lo ∧ lo < 0xE000) := by
  unfold decodeSurrogates runeError
  split
  · next h => simp only [h, and_self, iff_true]; omega
  · next h => simp [h]

/-! ### parseString: the escape block -/

theorem strEscapeU_sound {t2 d rest : Bytes} (h : strEscapeU t2 = .ok (d, rest)) :
    ∃ c, t2 = c ++ rest ∧ DChar (0x5c#8 :: 0x75#8 :: c) d := by
  unfold strEscapeU at h
  split at h
  · cases h
  next hlen =>
  rcases t2 with _ | ⟨h1, _ | ⟨h2, _ | ⟨h3, _ | ⟨h4, t3⟩⟩⟩⟩ <;> try (simp at hlen; done)
  rw [parseHex4_cons] at h
  split at h
  · cases h
  next v hv =>
  simp only [List.drop_succ_cons, List.drop_zero] at h
  split at h
  next hsur =>
    split at h
    · cases h
    next hlen2 =>
    rcases t3 with _ | ⟨b0, _ | ⟨b1, t4⟩⟩
    · simp at hlen2
    · simp at hlen2
    · simp only at h
      rcases t4 with _ | ⟨l1, _ | ⟨l2, _ | ⟨l3, _ | ⟨l4, t5⟩⟩⟩⟩ <;> try (simp at hlen2 <;> omega)
      rw [parseHex4_cons] at h
      split at h
      · cases h
      next lo hlo =>
      split at h
      · cases h
      next hok =>
      simp only [not_or, Decidable.not_not] at hok
      obtain ⟨hb0, hb1, hne⟩ := hok
      subst hb0; subst hb1
      have hrng := (decodeSurrogates_ne_error v lo).1 hne
      simp only [List.drop_succ_cons, List.drop_zero, Except.ok.injEq, Prod.mk.injEq] at h
      obtain ⟨rfl, rfl⟩ := h
      have hval : decodeSurrogates v lo = (v - 0xD800) * 1024 + (lo - 0xDC00) + 0x10000 := by
        unfold decodeSurrogates; rw [if_pos hrng]
      refine ⟨[h1, h2, h3, h4, 0x5c#8, 0x75#8, l1, l2, l3, l4], by simp, ?_⟩
      rw [hval]
      exact DChar.pair h1 h2 h3 h4 l1 l2 l3 l4 v lo hv hlo hrng.1 hrng.2.1 hrng.2.2.1 hrng.2.2.2
  next hsur =>
    simp only [Except.ok.injEq, Prod.mk.injEq] at h; obtain ⟨rfl, rfl⟩ := h
    exact ⟨[h1, h2, h3, h4], by simp, DChar.hex h1 h2 h3 h4 v hv (by simpa using hsur)⟩

theorem strEscape_cons (e : Byte) (t2 : Bytes) : strEscape (e :: t2) =
    if e = 0x22#8 ∨ e = 0x5c#8 ∨ e = 0x2f#8 then .ok ([e], t2)
    else if e = 0x62#8 then .ok ([0x08#8], t2)
    else if e = 0x66#8 then .ok ([0x0c#8], t2)
    else if e = 0x6e#8 then .ok ([0x0a#8], t2)
    else if e = 0x72#8 then .ok ([0x0d#8], t2)
    else if e = 0x74#8 then .ok ([0x09#8], t2)
    else if e = 0x75#8 then strEscapeU t2
    else .error .syntax := rfl

theorem strEscape_sound {t d rest : Bytes} (h : strEscape t = .ok (d, rest)) :
    ∃ c, t = c ++ rest ∧ DChar (0x5c#8 :: c) d := by
  rcases t with _ | ⟨e, t2⟩
  · simp [strEscape] at h
  · rw [strEscape_cons] at h
    split at h
    next he =>
      simp only [Except.ok.injEq, Prod.mk.injEq] at h; obtain ⟨rfl, rfl⟩ := h
      exact ⟨[e], rfl, DChar.self e he⟩
    next =>
    split at h
    next he =>
      simp only [Except.ok.injEq, Prod.mk.injEq] at h; obtain ⟨rfl, rfl⟩ := h
      exact ⟨[e], rfl, he ▸ DChar.b⟩
    next =>
    split at h
    next he =>
      simp only [Except.ok.injEq, Prod.mk.injEq] at h; obtain ⟨rfl, rfl⟩ := h
      exact ⟨[e], rfl, he ▸ DChar.f⟩
    next =>
    split at h
    next he =>
      simp only [Except.ok.injEq, Prod.mk.injEq] at h; obtain ⟨rfl, rfl⟩ := h
      exact ⟨[e], rfl, he ▸ DChar.n⟩
    next =>
    split at h
    next he =>
      simp only [Except.ok.injEq, Prod.mk.injEq] at h; obtain ⟨rfl, rfl⟩ := h
      exact ⟨[e], rfl, he ▸ DChar.r⟩
    next =>
    split at h
    next he =>
      simp only [Except.ok.injEq, Prod.mk.injEq] at h; obtain ⟨rfl, rfl⟩ := h
      exact ⟨[e], rfl, he ▸ DChar.t⟩
    next =>
    split at h
    next he =>
      subst he
      obtain ⟨c, rfl, hd⟩ := strEscapeU_sound h
      exact ⟨0x75#8 :: c, rfl, hd⟩
    next => cases h

theorem strEscape_complete {c d : Bytes} (h : DChar (0x5c#8 :: c) d) (rest : Bytes) :
    strEscape (c ++ rest) = .ok (d, rest) := by
  generalize hx : (0x5c#8 :: c) = x at h
  cases h with
  | unescaped u hu hside =>
    -- a backslash is not an unescaped character
    exfalso
    subst hx
    cases hu with
    | one _ _ => exact (hside _ rfl).2.2 rfl
    | two _ _ h1 _ _ => revert h1; decide
    | threeE1 _ _ _ h1 _ _ _ => revert h1; decide
    | threeEE _ _ _ h1 _ _ _ => revert h1; decide
    | fourF1 _ _ _ _ h1 _ _ _ _ => revert h1; decide
  | self e he =>
    simp only [List.cons.injEq, true_and] at hx; subst hx
    simp [strEscape, he]
  | b => simp only [List.cons.injEq, true_and] at hx; subst hx; simp [strEscape]
  | f => simp only [List.cons.injEq, true_and] at hx; subst hx; simp [strEscape]
  | n => simp only [List.cons.injEq, true_and] at hx; subst hx; simp [strEscape]
  | r => simp only [List.cons.injEq, true_and] at hx; subst hx; simp [strEscape]
  | t => simp only [List.cons.injEq, true_and] at hx; subst hx; simp [strEscape]
  | hex h1 h2 h3 h4 v hv hs =>
    simp only [List.cons.injEq, true_and] at hx; subst hx
    simp [strEscape, strEscapeU, parseHex4_cons, hv, hs]
  | pair h1 h2 h3 h4 l1 l2 l3 l4 hi lo hhi hlo a1 a2 a3 a4 =>
    simp only [List.cons.injEq, true_and] at hx; subst hx
    have hs : isSurrogate hi = true := by simp [isSurrogate]; omega
    have hval : decodeSurrogates hi lo = (hi - 0xD800) * 1024 + (lo - 0xDC00) + 0x10000 := by
      unfold decodeSurrogates; rw [if_pos ⟨a1, a2, a3, a4⟩]
    have hne : decodeSurrogates hi lo ≠ runeError := (decodeSurrogates_ne_error hi lo).2 ⟨a1, a2, a3, a4⟩
    have hne' : ¬ ((hi - 0xD800) * 1024 + (lo - 0xDC00) + 0x10000 = runeError) := hval ▸ hne
    simp [strEscape, strEscapeU, parseHex4_cons, hhi, hlo, hs, hval]
    rw [if_neg (by omega), if_neg (by omega), if_neg hne']

/-! ### parseString: the loop -/

theorem strLoop_succ_cons (fuel : Nat) (a : Byte) (t out : Bytes) :
    strLoop (fuel + 1) (a :: t) out =
      if (decodeRune (a :: t)).1 = runeError ∧ (decodeRune (a :: t)).2 = 1 then .error .syntax
      else if (decodeRune (a :: t)).1 < 0x20 then .error .syntax
      else if (decodeRune (a :: t)).1 = 0x22 then .ok (out, t)
      else if (decodeRune (a :: t)).1 = 0x5c then
        match strEscape t with
        | .error e => .error e
        | .ok (d, rest) => strLoop fuel rest (out ++ d)
      else strLoop fuel ((a :: t).drop (decodeRune (a :: t)).2) (out ++ (a :: t).take (decodeRune (a :: t)).2) := by
  rw [strLoop]; rfl

theorem strLoop_sound : ∀ (fuel : Nat) (inp out o rest : Bytes),
    strLoop fuel inp out = .ok (o, rest) →
    ∃ cs content, inp = cs ++ 0x22#8 :: rest ∧ o = out ++ content ∧ DChars cs content := by
  intro fuel
  induction fuel with
  | zero => intro inp out o rest h; simp [strLoop] at h
  | succ fuel ih =>
    intro inp out o rest h
    rcases inp with _ | ⟨a, t⟩
    · simp [strLoop] at h
    · rw [strLoop_succ_cons] at h
      split at h
      · cases h
      next herr =>
      split at h
      · cases h
      next hctl =>
      split at h
      next hq =>
        -- closing quote
        obtain ⟨h1, _, _⟩ := decodeRune_ascii a t herr (by omega)
        have ha : a = 0x22#8 := by rw [hq] at h1; bv_omega
        simp only [Except.ok.injEq, Prod.mk.injEq] at h
        obtain ⟨rfl, rfl⟩ := h
        exact ⟨[], [], by simp [ha], by simp, DChars.nil⟩
      next hq =>
      split at h
      next hbs =>
        -- escape
        obtain ⟨h1, _, _⟩ := decodeRune_ascii a t herr (by omega)
        have ha : a = 0x5c#8 := by rw [hbs] at h1; bv_omega
        subst ha
        split at h
        · cases h
        next d r hesc =>
        obtain ⟨c, rfl, hd⟩ := strEscape_sound hesc
        obtain ⟨cs, content, rfl, rfl, hcs⟩ := ih _ _ _ _ h
        exact ⟨(0x5c#8 :: c) ++ cs, d ++ content, by simp, by simp, DChars.cons _ _ _ _ hd hcs⟩
      next hbs =>
        -- an ordinary character, copied
        obtain ⟨u, t', hs, hu, hlen, h1, h2⟩ := decodeRune_sound a t herr
        have htake : (a :: t).take (decodeRune (a :: t)).2 = u := by rw [← hlen, hs]; simp
        have hdrop : (a :: t).drop (decodeRune (a :: t)).2 = t' := by rw [← hlen, hs]; simp
        rw [htake, hdrop] at h
        obtain ⟨cs, content, rfl, rfl, hcs⟩ := ih _ _ _ _ h
        refine ⟨u ++ cs, u ++ content, by rw [hs]; simp, by simp, DChars.cons _ _ _ _ (DChar.unescaped u hu ?_) hcs⟩
        intro x hx
        have hr := h1 x hx
        rw [hr] at hctl hq hbs
        refine ⟨by bv_omega, ?_, ?_⟩
        · intro hx2; subst hx2; exact hq rfl
        · intro hx2; subst hx2; exact hbs rfl

/-! ### parseString: completeness of the loop -/

theorem strLoop_step_escape (c' d more out : Bytes) (fuel : Nat) (hd : DChar (0x5c#8 :: c') d) :
    strLoop (fuel + 1) ((0x5c#8 :: c') ++ more) out = strLoop fuel more (out ++ d) := by
  have hdr : decodeRune (0x5c#8 :: (c' ++ more)) = (0x5c, 1) := by simp [decodeRune]
  rw [List.cons_append, strLoop_succ_cons, hdr]
  simp only [runeError]
  rw [if_neg (by omega), if_neg (by omega), if_neg (by omega), if_pos trivial, strEscape_complete hd more]

theorem strLoop_step_unescaped (u more out : Bytes) (fuel : Nat) (hu : Utf8Char u)
    (hside : ∀ a, u = [a] → 0x20#8 ≤ a ∧ a ≠ 0x22#8 ∧ a ≠ 0x5c#8) :
    strLoop (fuel + 1) (u ++ more) out = strLoop fuel more (out ++ u) := by
  obtain ⟨r, hr, h1, h2⟩ := decodeRune_utf8Char hu more
  have hlen := hu.length_pos
  obtain ⟨a, u', rfl⟩ : ∃ a u', u = a :: u' := by
    cases u with
    | nil => simp at hlen
    | cons a u' => exact ⟨a, u', rfl⟩
  -- the value of the rune: not an error, not a control character, not a quote or backslash
  have hprops : ¬ (r = runeError ∧ (a :: u').length = 1) ∧ ¬ r < 0x20 ∧ r ≠ 0x22 ∧ r ≠ 0x5c := by
    rcases Nat.lt_or_ge (a :: u').length 2 with hl | hl
    · have hu' : u' = [] := by
        cases u' with
        | nil => rfl
        | cons _ _ => simp at hl; omega
      subst hu'
      have hr1 := h1 a rfl
      obtain ⟨s1, s2, s3⟩ := hside a rfl
      have ha : a ≤ 0x7F#8 := by
        cases hu with
        | one _ h => exact h
      subst hr1
      refine ⟨?_, ?_, ?_, ?_⟩
      · unfold runeError; rintro ⟨h, -⟩; bv_omega
      · bv_omega
      · intro h; apply s2; bv_omega
      · intro h; apply s3; bv_omega
    · have := h2 hl
      refine ⟨?_, by omega, by omega, by omega⟩
      rintro ⟨-, h⟩; omega
  rw [List.cons_append, strLoop_succ_cons]
  rw [List.cons_append] at hr
  rw [hr]
  simp only
  rw [if_neg hprops.1, if_neg hprops.2.1, if_neg hprops.2.2.1, if_neg hprops.2.2.2]
  congr 1
  · rw [← List.cons_append]; simp
  · rw [← List.cons_append]; simp

theorem strLoop_complete {cs content : Bytes} (h : DChars cs content) :
    ∀ (fuel : Nat) (out rest : Bytes), cs.length < fuel →
      strLoop fuel (cs ++ 0x22#8 :: rest) out = .ok (out ++ content, rest) := by
  induction h with
  | nil =>
    intro fuel out rest hf
    obtain ⟨f, rfl⟩ : ∃ f, fuel = f + 1 := ⟨fuel - 1, by simp at hf; omega⟩
    have hdr : decodeRune (0x22#8 :: rest) = (0x22, 1) := by simp [decodeRune]
    rw [List.nil_append, strLoop_succ_cons, hdr]
    simp only [runeError]
    rw [if_neg (by omega), if_neg (by omega), if_pos trivial]; simp
  | cons c d cs ds hd _ ih =>
    intro fuel out rest hf
    have hpos := hd.length_pos
    obtain ⟨f, rfl⟩ : ∃ f, fuel = f + 1 := ⟨fuel - 1, by omega⟩
    have hf' : cs.length < f := by simp at hf; omega
    have hrec := ih f (out ++ d) rest hf'
    rw [List.append_assoc] at hrec
    rw [List.append_assoc]
    cases hd with
    | unescaped _ hu hside => rw [strLoop_step_unescaped _ _ out f hu hside, hrec]
    | self e he => rw [strLoop_step_escape [e] _ _ out f (DChar.self e he), hrec]
    | b => rw [strLoop_step_escape _ _ _ out f DChar.b, hrec]
    | f => rw [strLoop_step_escape _ _ _ out _ DChar.f, hrec]
    | n => rw [strLoop_step_escape _ _ _ out f DChar.n, hrec]
    | r => rw [strLoop_step_escape _ _ _ out f DChar.r, hrec]
    | t => rw [strLoop_step_escape _ _ _ out f DChar.t, hrec]
    | hex h1 h2 h3 h4 v hv hs => rw [strLoop_step_escape _ _ _ out f (DChar.hex h1 h2 h3 h4 v hv hs), hrec]
    | pair h1 h2 h3 h4 l1 l2 l3 l4 hi lo a1 a2 a3 a4 a5 a6 =>
      rw [strLoop_step_escape _ _ _ out f (DChar.pair h1 h2 h3 h4 l1 l2 l3 l4 hi lo a1 a2 a3 a4 a5 a6), hrec]

/-! ### parseString -/

/-- **The exact language of `parseString`**: `"`, characters and escapes `cs` (with surrogate escapes
in well-formed pairs only), `"`; the value is what `cs` denotes; `n` counts both quotes. -/
theorem parseString_exact (inp content : Bytes) (n : Nat) :
    parseString inp = .ok (content, n) ↔
      ∃ cs rest, inp = 0x22#8 :: (cs ++ 0x22#8 :: rest) ∧ n = cs.length + 2 ∧ DChars cs content := by
  constructor
  · intro h
    rcases inp with _ | ⟨q, t⟩
    · simp [parseString] at h
    · simp only [parseString] at h
      split at h
      · cases h
      next hq =>
      simp only [ne_eq, Decidable.not_not] at hq
      subst hq
      split at h
      · cases h
      next o rest hl =>
      obtain ⟨cs, c, rfl, rfl, hcs⟩ := strLoop_sound _ _ _ _ _ hl
      simp only [Except.ok.injEq, Prod.mk.injEq] at h
      obtain ⟨rfl, rfl⟩ := h
      exact ⟨cs, rest, rfl, by simp; omega, by simpa using hcs⟩
  · rintro ⟨cs, rest, rfl, rfl, hcs⟩
    have := strLoop_complete hcs ((cs ++ 0x22#8 :: rest).length + 1) [] rest (by simp; omega)
    simp only [parseString, ne_eq, not_true_eq_false, if_false, this, List.nil_append]
    simp; omega

/-! ### the decoder's strings inside the RFC grammar -/

theorem hexVal_isSome_iff : ∀ c : Byte, (hexVal c).isSome = isHex c := by decide

theorem parseHex4_isHex {h1 h2 h3 h4 : Byte} {v : Nat} (h : parseHex4 [h1, h2, h3, h4] = some v) :
    isHex h1 = true ∧ isHex h2 = true ∧ isHex h3 = true ∧ isHex h4 = true := by
  simp only [parseHex4] at h
  rw [← hexVal_isSome_iff, ← hexVal_isSome_iff, ← hexVal_isSome_iff, ← hexVal_isSome_iff]
  cases a1 : hexVal h1 <;> cases a2 : hexVal h2 <;> cases a3 : hexVal h3 <;> cases a4 : hexVal h4 <;>
    simp [a1, a2, a3, a4] at h ⊢

theorem isHex_parseHex4 {h1 h2 h3 h4 : Byte} (a1 : isHex h1 = true) (a2 : isHex h2 = true)
    (a3 : isHex h3 = true) (a4 : isHex h4 = true) : ∃ v, parseHex4 [h1, h2, h3, h4] = some v := by
  rw [← hexVal_isSome_iff] at a1 a2 a3 a4
  obtain ⟨x1, e1⟩ := Option.isSome_iff_exists.1 a1
  obtain ⟨x2, e2⟩ := Option.isSome_iff_exists.1 a2
  obtain ⟨x3, e3⟩ := Option.isSome_iff_exists.1 a3
  obtain ⟨x4, e4⟩ := Option.isSome_iff_exists.1 a4
  exact ⟨x1 * 4096 + x2 * 256 + x3 * 16 + x4, by simp [parseHex4, e1, e2, e3, e4]⟩

theorem JChars.append {a b : Bytes} (ha : JChars a) (hb : JChars b) : JChars (a ++ b) := by
  induction ha with
  | nil => simpa using hb
  | cons c cs hc _ ih => rw [List.append_assoc]; exact JChars.cons c _ hc ih

theorem JChars.single {c : Bytes} (h : JChar c) : JChars c := by
  have := JChars.cons c [] h JChars.nil
  simpa using this

/-- what the decoder accepts as one character is one or (for a surrogate pair) two RFC `char`s -/
theorem DChar.jchars {c d : Bytes} (h : DChar c d) : JChars c := by
  cases h with
  | unescaped _ hu hside => exact JChars.single (JChar.unescaped _ hu hside)
  | self e he => exact JChars.single (JChar.simple e (by rcases he with rfl | rfl | rfl <;> decide))
  | b => exact JChars.single (JChar.simple _ (by decide))
  | f => exact JChars.single (JChar.simple _ (by decide))
  | n => exact JChars.single (JChar.simple _ (by decide))
  | r => exact JChars.single (JChar.simple _ (by decide))
  | t => exact JChars.single (JChar.simple _ (by decide))
  | hex h1 h2 h3 h4 v hv _ =>
    obtain ⟨a1, a2, a3, a4⟩ := parseHex4_isHex hv
    exact JChars.single (JChar.hex h1 h2 h3 h4 a1 a2 a3 a4)
  | pair h1 h2 h3 h4 l1 l2 l3 l4 hi lo hhi hlo _ _ _ _ =>
    obtain ⟨a1, a2, a3, a4⟩ := parseHex4_isHex hhi
    obtain ⟨b1, b2, b3, b4⟩ := parseHex4_isHex hlo
    exact JChars.append (a := [0x5c#8, 0x75#8, h1, h2, h3, h4]) (b := [0x5c#8, 0x75#8, l1, l2, l3, l4])
      (JChars.single (JChar.hex h1 h2 h3 h4 a1 a2 a3 a4)) (JChars.single (JChar.hex l1 l2 l3 l4 b1 b2 b3 b4))

theorem DChars.jchars {cs content : Bytes} (h : DChars cs content) : JChars cs := by
  induction h with
  | nil => exact JChars.nil
  | cons c d cs ds hd _ ih => exact JChars.append hd.jchars ih

/-- an RFC `char` that is not the `\uXXXX` escape of a surrogate -/
inductive JCharNS : Bytes → Prop
  | unescaped (u : Bytes) : Utf8Char u → (∀ a, u = [a] → 0x20#8 ≤ a ∧ a ≠ 0x22#8 ∧ a ≠ 0x5c#8) → JCharNS u
  | simple (c : Byte) : isSimpleEscape c = true → JCharNS [0x5c#8, c]
  | hex (h1 h2 h3 h4 : Byte) (v : Nat) : parseHex4 [h1, h2, h3, h4] = some v → isSurrogate v = false →
      JCharNS [0x5c#8, 0x75#8, h1, h2, h3, h4]

/-- a sequence of RFC `char`s in which surrogate escapes occur only as well-formed pairs -/
inductive JCharsWF : Bytes → Prop
  | nil : JCharsWF []
  | cons (c cs : Bytes) : JCharNS c → JCharsWF cs → JCharsWF (c ++ cs)
  | pair (h1 h2 h3 h4 l1 l2 l3 l4 : Byte) (hi lo : Nat) (cs : Bytes) :
      parseHex4 [h1, h2, h3, h4] = some hi → parseHex4 [l1, l2, l3, l4] = some lo →
      0xD800 ≤ hi → hi < 0xDC00 → 0xDC00 ≤ lo → lo < 0xE000 → JCharsWF cs →
      JCharsWF ([0x5c#8, 0x75#8, h1, h2, h3, h4, 0x5c#8, 0x75#8, l1, l2, l3, l4] ++ cs)

theorem JCharNS.dchar {c : Bytes} (h : JCharNS c) : ∃ d, DChar c d := by
  cases h with
  | unescaped _ hu hside => exact ⟨_, DChar.unescaped _ hu hside⟩
  | simple e he =>
    have : ∀ e : Byte, isSimpleEscape e = true →
        (e = 0x22#8 ∨ e = 0x5c#8 ∨ e = 0x2f#8) ∨ e = 0x62#8 ∨ e = 0x66#8 ∨ e = 0x6e#8 ∨ e = 0x72#8 ∨ e = 0x74#8 := by
      decide
    rcases this e he with h | rfl | rfl | rfl | rfl | rfl
    · exact ⟨_, DChar.self e h⟩
    · exact ⟨_, DChar.b⟩
    · exact ⟨_, DChar.f⟩
    · exact ⟨_, DChar.n⟩
    · exact ⟨_, DChar.r⟩
    · exact ⟨_, DChar.t⟩
  | hex h1 h2 h3 h4 v hv hs => exact ⟨_, DChar.hex h1 h2 h3 h4 v hv hs⟩

theorem JCharsWF.dchars {cs : Bytes} (h : JCharsWF cs) : ∃ content, DChars cs content := by
  induction h with
  | nil => exact ⟨[], DChars.nil⟩
  | cons c cs hc _ ih =>
    obtain ⟨d, hd⟩ := hc.dchar
    obtain ⟨ds, hds⟩ := ih
    exact ⟨d ++ ds, DChars.cons c d cs ds hd hds⟩
  | pair h1 h2 h3 h4 l1 l2 l3 l4 hi lo cs a1 a2 a3 a4 a5 a6 _ ih =>
    obtain ⟨ds, hds⟩ := ih
    exact ⟨_ ++ ds, DChars.cons _ _ cs ds (DChar.pair h1 h2 h3 h4 l1 l2 l3 l4 hi lo a1 a2 a3 a4 a5 a6) hds⟩

theorem DChars.wf {cs content : Bytes} (h : DChars cs content) : JCharsWF cs := by
  induction h with
  | nil => exact JCharsWF.nil
  | cons c d cs ds hd _ ih =>
    cases hd with
    | unescaped _ hu hside => exact JCharsWF.cons _ _ (JCharNS.unescaped _ hu hside) ih
    | self e he => exact JCharsWF.cons _ _ (JCharNS.simple e (by rcases he with rfl | rfl | rfl <;> decide)) ih
    | b => exact JCharsWF.cons _ _ (JCharNS.simple _ (by decide)) ih
    | f => exact JCharsWF.cons _ _ (JCharNS.simple _ (by decide)) ih
    | n => exact JCharsWF.cons _ _ (JCharNS.simple _ (by decide)) ih
    | r => exact JCharsWF.cons _ _ (JCharNS.simple _ (by decide)) ih
    | t => exact JCharsWF.cons _ _ (JCharNS.simple _ (by decide)) ih
    | hex h1 h2 h3 h4 v hv hs => exact JCharsWF.cons _ _ (JCharNS.hex h1 h2 h3 h4 v hv hs) ih
    | pair h1 h2 h3 h4 l1 l2 l3 l4 hi lo a1 a2 a3 a4 a5 a6 =>
      exact JCharsWF.pair h1 h2 h3 h4 l1 l2 l3 l4 hi lo cs a1 a2 a3 a4 a5 a6 ih

end JsonLex
