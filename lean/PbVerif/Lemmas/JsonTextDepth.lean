import PbVerif.Lemmas.JsonTextLoopT
/-
Nesting depth of documents as the decoders count it, and the theorems "accepted ⇒ depth ≤ limit":

  * JSON: every message object costs one level (`unmarshalMessage`), lists and maps cost nothing;
    a discarded unknown value (`skipJSONValue`) is limited by its container nesting.
  * text: every message costs one level, every map field occurrence one more (`unmarshalMap`);
    skipped values (unknown / reserved names) cost nothing in the code as it is (finding 10) and
    their message nesting after the repair.
-/
namespace JT
open Pb

/-! ## JSON -/

mutual
/-- nesting of arrays/objects (scalars: 0) -/
def cdepth : JV → Nat
  | .arr es => 1 + cdepthElems es
  | .obj ms => 1 + cdepthMembers ms
  | _ => 0
def cdepthElems : JElems → Nat
  | .nil => 0
  | .cons v tl => max (cdepth v) (cdepthElems tl)
def cdepthMembers : JMembers → Nat
  | .nil => 0
  | .cons _ v tl => max (cdepth v) (cdepthMembers tl)
end

mutual
/-- `skipJSONValue` succeeds iff every container it opens fits under the limit -/
theorem skipJ_ok_iff (limit : Int) : ∀ (v : JV) (opn : Nat),
    skipJ limit opn v = .ok () ↔ cdepth v = 0 ∨ ((opn + cdepth v : Nat) : Int) ≤ limit
  | .null, _ | .bool _, _ | .num _, _ | .str _, _ => by simp [skipJ, cdepth]
  | .arr es, opn => by
    rw [skipJ, cdepth]
    split
    · rename_i h
      simp only [reduceCtorEq, false_iff]
      omega
    · rename_i h
      rw [skipJElems_ok_iff limit es (opn + 1)]
      omega
  | .obj ms, opn => by
    rw [skipJ, cdepth]
    split
    · rename_i h
      simp only [reduceCtorEq, false_iff]
      omega
    · rename_i h
      rw [skipJMembers_ok_iff limit ms (opn + 1)]
      omega
theorem skipJElems_ok_iff (limit : Int) : ∀ (es : JElems) (opn : Nat),
    skipJElems limit opn es = .ok () ↔ cdepthElems es = 0 ∨ ((opn + cdepthElems es : Nat) : Int) ≤ limit
  | .nil, _ => by simp [skipJElems, cdepthElems]
  | .cons v tl, opn => by
    rw [skipJElems, cdepthElems]
    cases hv : skipJ limit opn v with
    | error e =>
      have hneg : ¬ (cdepth v = 0 ∨ ((opn + cdepth v : Nat) : Int) ≤ limit) := fun hc => by
        have := (skipJ_ok_iff limit v opn).mpr hc
        rw [hv] at this
        cases this
      simp only [reduceCtorEq, false_iff]
      omega
    | ok u =>
      have := (skipJ_ok_iff limit v opn).mp (by rw [hv])
      simp only
      rw [skipJElems_ok_iff limit tl opn]
      omega
theorem skipJMembers_ok_iff (limit : Int) : ∀ (ms : JMembers) (opn : Nat),
    skipJMembers limit opn ms = .ok () ↔ cdepthMembers ms = 0 ∨ ((opn + cdepthMembers ms : Nat) : Int) ≤ limit
  | .nil, _ => by simp [skipJMembers, cdepthMembers]
  | .cons _ v tl, opn => by
    rw [skipJMembers, cdepthMembers]
    cases hv : skipJ limit opn v with
    | error e =>
      have hneg : ¬ (cdepth v = 0 ∨ ((opn + cdepth v : Nat) : Int) ≤ limit) := fun hc => by
        have := (skipJ_ok_iff limit v opn).mpr hc
        rw [hv] at this
        cases this
      simp only [reduceCtorEq, false_iff]
      omega
    | ok u =>
      have := (skipJ_ok_iff limit v opn).mp (by rw [hv])
      simp only
      rw [skipJMembers_ok_iff limit tl opn]
      omega
end

mutual
/-- message levels needed to decode `v` as a message of type `mi` (top message = 1) -/
def jdepth (D : DOpts) (X : SchemaX) (mi : Nat) : JV → Nat
  | .obj ms => 1 + jdMembers D X mi ms
  | _ => 1
def jdMembers (D : DOpts) (X : SchemaX) (mi : Nat) : JMembers → Nat
  | .nil => 0
  | .cons key v tl =>
    max (match resolveJSON X (X.msg mi) key with
         | .found fx =>
           if v.isNull && !fx.valueMsg && !fx.nullEnum then 0 else
           match fx.f.card with
           | .repeated => if fx.f.kind.isMessage then jdList D X fx.f.sub v else 0
           | .map => jdMap D X fx v
           | _ => if fx.f.kind.isMessage then jdepth D X fx.f.sub v else 0
         | .unknown => if D.discard then cdepth v else 0
         | .badExt => 0)
      (jdMembers D X mi tl)
def jdList (D : DOpts) (X : SchemaX) (sub : Nat) : JV → Nat
  | .arr es => jdElems D X sub es
  | _ => 0
def jdElems (D : DOpts) (X : SchemaX) (sub : Nat) : JElems → Nat
  | .nil => 0
  | .cons v tl => max (jdepth D X sub v) (jdElems D X sub tl)
def jdMap (D : DOpts) (X : SchemaX) (fx : FieldX) : JV → Nat
  | .obj ms => jdEntries D X fx ms
  | _ => 0
def jdEntries (D : DOpts) (X : SchemaX) (fx : FieldX) : JMembers → Nat
  | .nil => 0
  | .cons _ v tl =>
    max (match (X.msg fx.f.sub).find 2 with
         | some vf => if vf.f.kind.isMessage then jdepth D X vf.f.sub v else 0
         | none => 0)
      (jdEntries D X fx tl)
end

theorem storeList_ok {m : Msg} {fx : FieldX} {r : Except Err Vals} {m' : Msg} (h : storeList m fx r = .ok m') :
    ∃ vs, r = .ok vs := by
  cases r with
  | error e => simp [storeList] at h
  | ok vs => exact ⟨vs, rfl⟩

theorem storeMap_ok {m : Msg} {fx : FieldX} {r : Except Err Vals} {m' : Msg} (h : storeMap m fx r = .ok m') :
    ∃ vs, r = .ok vs := by
  cases r with
  | error e => simp [storeMap] at h
  | ok vs => exact ⟨vs, rfl⟩

theorem storeMsg_ok {d : MsgX} {m : Msg} {fx : FieldX} {r : Except Err Msg} {m' : Msg} (h : storeMsg d m fx r = .ok m') :
    ∃ sub, r = .ok sub := by
  cases r with
  | error e => simp [storeMsg] at h
  | ok sub => exact ⟨sub, rfl⟩

/-- a non-object never decodes as a message -/
theorem dMsg_nonobj (C : JCodec) (D : DOpts) (X : SchemaX) (mi : Nat) (limit : Int) (v : JV) (m : Msg)
    (hv : ∀ ms, v ≠ .obj ms) : dMsg C D X mi limit v ≠ .ok m := by
  intro h
  cases v with
  | obj ms => exact hv ms rfl
  | null | bool _ | num _ | str _ | arr _ =>
    simp only [dMsg] at h
    split at h
    · cases h
    · split at h <;> cases h

mutual
theorem dMsg_depth (C : JCodec) (D : DOpts) (X : SchemaX) : ∀ (v : JV) (mi : Nat) (limit : Int) (m : Msg),
    dMsg C D X mi limit v = .ok m → (jdepth D X mi v : Int) ≤ limit
  | .obj ms, mi, limit, m, h => by
    rw [dMsg] at h
    rw [jdepth]
    split at h
    · cases h
    · split at h
      · cases h
      · have := dMembers_depth C D X ms mi (limit - 1) {} {} Msg.empty m (by omega) h
        omega
  | .null, mi, limit, m, h => absurd h (dMsg_nonobj C D X mi limit _ m (by intro ms hh; cases hh))
  | .bool _, mi, limit, m, h => absurd h (dMsg_nonobj C D X mi limit _ m (by intro ms hh; cases hh))
  | .num _, mi, limit, m, h => absurd h (dMsg_nonobj C D X mi limit _ m (by intro ms hh; cases hh))
  | .str _, mi, limit, m, h => absurd h (dMsg_nonobj C D X mi limit _ m (by intro ms hh; cases hh))
  | .arr _, mi, limit, m, h => absurd h (dMsg_nonobj C D X mi limit _ m (by intro ms hh; cases hh))
theorem dMembers_depth (C : JCodec) (D : DOpts) (X : SchemaX) : ∀ (ms : JMembers) (mi : Nat) (limit : Int) (sn so : Ints)
    (m0 m : Msg), 0 ≤ limit → dMembers C D X mi limit ms sn so m0 = .ok m → (jdMembers D X mi ms : Int) ≤ limit
  | .nil, _, _, _, _, _, _, h0, _ => by simp [jdMembers]; exact h0
  | .cons key v tl, mi, limit, sn, so, m0, m, h0, h => by
    rw [dMembers_cons] at h
    rw [jdMembers]
    cases hd : dHead D X (X.msg mi) limit key v sn so with
    | error e => simp [hd] at h
    | skip sn' =>
      simp only [hd] at h
      have h2 := dMembers_depth C D X tl mi limit sn' so m0 m h0 h
      rcases dHead_skip_cases D X (X.msg mi) limit key v sn so sn' hd with ⟨hr, hdis, hs, _⟩ | ⟨fx, hr, hn, _⟩
      · have h1 := (skipJ_ok_iff limit v 0).mp hs
        simp only [hr, hdis, if_true]
        omega
      · simp only [hr, hn, if_true]
        omega
    | value fx sn' so' =>
      simp only [hd] at h
      obtain ⟨hr, hn⟩ := dHead_value_cases D X (X.msg mi) limit key v sn so sn' so' fx hd
      simp only [hr, hn, Bool.false_eq_true, if_false]
      cases hv : dFieldVal C D X mi fx limit m0 v with
      | error e => simp [hv] at h
      | ok m' =>
        simp only [hv] at h
        have h2 := dMembers_depth C D X tl mi limit sn' so' m' m h0 h
        unfold dFieldVal at hv
        cases hc : fx.f.card <;> simp only [hc] at hv ⊢
        case repeated =>
          obtain ⟨vs, hvs⟩ := storeList_ok hv
          have h1 := dList_depth C D X v fx limit vs h0 hvs
          split <;> simp_all <;> omega
        case map =>
          obtain ⟨vs, hvs⟩ := storeMap_ok hv
          have h1 := dMap_depth C D X v fx limit _ vs h0 hvs
          omega
        all_goals
          (by_cases hk : fx.f.kind.isMessage = true
           · simp only [hk, if_true] at hv ⊢
             obtain ⟨sub, hsub⟩ := storeMsg_ok hv
             have h1 := dMsg_depth C D X v fx.f.sub limit sub hsub
             omega
           · have hk' : fx.f.kind.isMessage = false := by simpa using hk
             simp only [hk', Bool.false_eq_true, if_false]
             omega)
theorem dList_depth (C : JCodec) (D : DOpts) (X : SchemaX) : ∀ (v : JV) (fx : FieldX) (limit : Int) (vs : Vals),
    0 ≤ limit → dList C D X fx limit v = .ok vs →
      ((if fx.f.kind.isMessage then jdList D X fx.f.sub v else 0 : Nat) : Int) ≤ limit
  | .arr es, fx, limit, vs, h0, h => by
    rw [dList] at h
    rw [jdList]
    exact dElems_depth C D X es fx limit vs h0 h
  | .null, fx, limit, vs, h0, h | .bool _, fx, limit, vs, h0, h | .num _, fx, limit, vs, h0, h
  | .str _, fx, limit, vs, h0, h | .obj _, fx, limit, vs, h0, h => by
    simp [dList] at h
theorem dElems_depth (C : JCodec) (D : DOpts) (X : SchemaX) : ∀ (es : JElems) (fx : FieldX) (limit : Int) (vs : Vals),
    0 ≤ limit → dElems C D X fx limit es = .ok vs →
      ((if fx.f.kind.isMessage then jdElems D X fx.f.sub es else 0 : Nat) : Int) ≤ limit
  | .nil, fx, limit, vs, h0, _ => by simp [jdElems]; exact h0
  | .cons v tl, fx, limit, vs, h0, h => by
    rw [dElems] at h
    rw [jdElems]
    by_cases hk : fx.f.kind.isMessage = true
    · simp only [hk, if_true] at h ⊢
      cases hv : dMsg C D X fx.f.sub limit v with
      | error e => simp [hv] at h
      | ok sub =>
        simp only [hv] at h
        cases ht : dElems C D X fx limit tl with
        | error e => simp [ht, Except.map] at h
        | ok vs' =>
          have h1 := dMsg_depth C D X v fx.f.sub limit sub hv
          have h2 := dElems_depth C D X tl fx limit vs' h0 ht
          simp only [hk, if_true] at h2
          omega
    · simp only [hk, if_false]
      simpa using h0
theorem dMap_depth (C : JCodec) (D : DOpts) (X : SchemaX) : ∀ (v : JV) (fx : FieldX) (limit : Int) (cur vs : Vals),
    0 ≤ limit → dMap C D X fx limit cur v = .ok vs → (jdMap D X fx v : Int) ≤ limit
  | .obj ms, fx, limit, cur, vs, h0, h => by
    rw [dMap] at h
    rw [jdMap]
    exact dEntries_depth C D X ms fx limit cur vs h0 h
  | .null, fx, limit, cur, vs, h0, h | .bool _, fx, limit, cur, vs, h0, h | .num _, fx, limit, cur, vs, h0, h
  | .str _, fx, limit, cur, vs, h0, h | .arr _, fx, limit, cur, vs, h0, h => by
    simp [dMap] at h
theorem dEntries_depth (C : JCodec) (D : DOpts) (X : SchemaX) : ∀ (ms : JMembers) (fx : FieldX) (limit : Int) (cur vs : Vals),
    0 ≤ limit → dEntries C D X fx limit ms cur = .ok vs → (jdEntries D X fx ms : Int) ≤ limit
  | .nil, _, _, _, _, h0, _ => by simp [jdEntries]; exact h0
  | .cons key v tl, fx, limit, cur, vs, h0, h => by
    rw [dEntries] at h
    rw [jdEntries]
    cases h1 : (X.msg fx.f.sub).find 1 with
    | none => simp [h1] at h
    | some kf =>
      cases h2 : (X.msg fx.f.sub).find 2 with
      | none => simp [h1, h2] at h
      | some vf =>
        simp only [h1, h2] at h ⊢
        cases hk : dKey C kf key with
        | error e => simp [hk] at h
        | ok k =>
          simp only [hk] at h
          split at h
          · cases h
          · by_cases hm : vf.f.kind.isMessage = true
            · simp only [hm, if_true] at h ⊢
              cases hv : dMsg C D X vf.f.sub limit v with
              | error e => simp [hv] at h
              | ok sub =>
                simp only [hv] at h
                have a1 := dMsg_depth C D X v vf.f.sub limit sub hv
                have a2 := dEntries_depth C D X tl fx limit _ vs h0 h
                omega
            · have hm' : vf.f.kind.isMessage = false := by simpa using hm
              simp only [hm', Bool.false_eq_true, if_false] at h ⊢
              cases hv : dScalar C D vf v with
              | error e => simp [hv] at h
              | ok ox =>
                cases ox with
                | none =>
                  simp only [hv] at h
                  have a2 := dEntries_depth C D X tl fx limit _ vs h0 h
                  omega
                | some x =>
                  simp only [hv] at h
                  have a2 := dEntries_depth C D X tl fx limit _ vs h0 h
                  omega
end

end JT
