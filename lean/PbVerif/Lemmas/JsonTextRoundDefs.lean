import PbVerif.Lemmas.JsonTextFields
import PbVerif.Lemmas.JsonTextScalarT
import PbVerif.Lemmas.JsonTextLoopT
/-
The fragment of the round-trip theorems (C20, C24): which messages (`RepMsg`), which schemas (`SchemaJ`, `SchemaT`).

OUTSIDE the fragment (stated in Props/C20, C24): map fields *populated* in the message (unpopulated ones are
inside: `{}` under EmitUnpopulated), well-known types with a special JSON form, Any, MessageSets, required-field
checks; messages nested deeper than the RecursionLimit of the decoder (they do not round-trip: Marshal has no
limit, Unmarshal has).
-/
namespace JT
open Pb

/-- at most one populated member per oneof (`protoreflect` guarantees it for every real message) -/
def OneofExcl (d : MsgX) (fs : Fields) : Prop :=
  ∀ a b fa fb o, (fs.get? a).isSome → (fs.get? b).isSome → d.find a = some fa → d.find b = some fb →
    fa.oneofIdx = some o → fb.oneofIdx = some o → a = b

mutual
/-- **representable message of type `mi` nested at most `limit` deep**: fields in ascending order, all declared,
values of the Go type of their field (`wf : FieldX → Val → Bool` is the scalar condition: `wfScalarJ` for JSON —
every string valid UTF-8 —, `wfScalarT` for text), implicit-presence fields non-zero, lists non-empty, one member
per oneof, no populated map field, no well-known type -/
def RepMsg (wf : FieldX → Val → Bool) (X : SchemaX) (mi : Nat) (limit : Int) : Msg → Prop
  | .mk fs _ =>
    1 ≤ limit ∧ (X.msg mi).wkt = false ∧ (X.msg mi).any = false ∧ OneofExcl (X.msg mi) fs ∧
      RepFields wf X (X.msg mi) 0 (limit - 1) fs
def RepFields (wf : FieldX → Val → Bool) (X : SchemaX) (d : MsgX) (lb : Nat) (limit : Int) : Fields → Prop
  | .nil => True
  | .cons num fv tl =>
    lb ≤ num ∧
    (match d.find num with
     | some fx => RepFVal wf X fx limit fv
     | none => False) ∧
    RepFields wf X d (num + 1) limit tl
def RepFVal (wf : FieldX → Val → Bool) (X : SchemaX) (fx : FieldX) (limit : Int) : FVal → Prop
  | .one v =>
    fx.f.card ≠ .repeated ∧ fx.f.card ≠ .map ∧ RepVal wf X fx limit v ∧ ¬ (fx.f.card = .implicit ∧ v.isZero = true)
  | .many vs => fx.f.card = .repeated ∧ vs.isNil = false ∧ RepVals wf X fx limit vs
def RepVal (wf : FieldX → Val → Bool) (X : SchemaX) (fx : FieldX) (limit : Int) : Val → Prop
  | .msg m => fx.f.kind.isMessage = true ∧ RepMsg wf X fx.f.sub limit m
  | .num n => wf fx (.num n) = true
  | .bytes b => wf fx (.bytes b) = true
def RepVals (wf : FieldX → Val → Bool) (X : SchemaX) (fx : FieldX) (limit : Int) : Vals → Prop
  | .nil => True
  | .cons v tl => RepVal wf X fx limit v ∧ RepVals wf X fx limit tl
end

theorem RepFields.sorted {wf : FieldX → Val → Bool} {X : SchemaX} {d : MsgX} {limit : Int} :
    ∀ {lb : Nat} {fs : Fields}, RepFields wf X d lb limit fs → SortedFrom lb fs
  | _, .nil, _ => trivial
  | _, .cons _ _ _, ⟨h1, _, h3⟩ => ⟨h1, RepFields.sorted h3⟩

/-- every populated field is declared and its value representable -/
theorem RepFields.get {wf : FieldX → Val → Bool} {X : SchemaX} {d : MsgX} {limit : Int} :
    ∀ {lb : Nat} {fs : Fields}, RepFields wf X d lb limit fs → ∀ {k : Nat} {fv : FVal}, fs.get? k = some fv →
      ∃ fx, d.find k = some fx ∧ RepFVal wf X fx limit fv
  | _, .nil, _, _, _, h => by simp [Fields.get?] at h
  | _, .cons n x tl, ⟨_, h2, h3⟩, k, fv, h => by
    simp only [Fields.get?] at h
    by_cases hn : n = k
    · subst hn
      simp only [if_true, Option.some.injEq] at h
      subst h
      cases hf : d.find n with
      | none => rw [hf] at h2; exact h2.elim
      | some fx => rw [hf] at h2; exact ⟨fx, rfl, h2⟩
    · simp only [hn, if_false] at h
      exact RepFields.get h3 h

/-- schema hypotheses common to both formats -/
structure SchemaOK (X : SchemaX) : Prop where
  /-- field numbers are pairwise distinct within a message -/
  nums_nodup : ∀ i, ((X.msg i).fields.map (·.f.num)).Nodup
  /-- no google.protobuf.Value / NullValue typed fields (fragment) -/
  plain : ∀ i fx, fx ∈ (X.msg i).fields → fx.nullEnum = false ∧ fx.valueMsg = false
  enums : ∀ i fx, fx ∈ (X.msg i).fields → namesDistinct fx.enums ∧ namesNoDash fx.enums
  /-- a member of a real oneof carries that oneof's index -/
  oneofOK : ∀ i fx o, fx ∈ (X.msg i).fields → fx.f.oneof = some o → fx.oneofIdx = some o

/-- what the JSON mapping needs in addition, for the option record `o` -/
structure SchemaJ (X : SchemaX) (o : JOpts) : Prop extends SchemaOK X where
  /-- the name a field is printed under resolves to that field -/
  name_self : ∀ i fx, fx ∈ (X.msg i).fields → resolveJSON X (X.msg i) (outName o fx) = .found fx
  /-- implicit-presence fields are scalars whose default is the zero value -/
  implicitOK : ∀ i fx, fx ∈ (X.msg i).fields → fx.f.card = .implicit →
    wfScalarJ fx (defaultScalar fx.f) = true ∧ (defaultScalar fx.f).isZero = true ∧
      normScalar fx (defaultScalar fx.f) = defaultScalar fx.f
  /-- `HasPresence()` is false exactly for implicit, repeated and map fields -/
  presenceOK : ∀ i fx, fx ∈ (X.msg i).fields → fx.presence = false →
    fx.f.card = .implicit ∨ fx.f.card = .repeated ∨ fx.f.card = .map

/-- what the text format needs in addition -/
structure SchemaT (X : SchemaX) : Prop extends SchemaOK X where
  name_self : ∀ i fx, fx ∈ (X.msg i).fields → resolveText X (X.msg i) (fieldName fx) = .found fx

theorem find_of_mem : ∀ (l : List FieldX), (l.map (·.f.num)).Nodup → ∀ fx, fx ∈ l →
    l.find? (·.f.num == fx.f.num) = some fx
  | [], _, _, h => by cases h
  | a :: tl, hnd, fx, h => by
    have ⟨ha, htl⟩ := List.nodup_cons.mp hnd
    simp only [List.find?_cons]
    by_cases hx : a = fx
    · subst hx; simp
    · have hin : fx ∈ tl := by
        cases h with
        | head => exact absurd rfl hx
        | tail _ h' => exact h'
      have hne : (a.f.num == fx.f.num) = false := by
        simp only [beq_eq_false_iff_ne, ne_eq]
        intro e
        apply ha
        show a.f.num ∈ _
        rw [e]
        exact List.mem_map.mpr ⟨fx, hin, rfl⟩
      simp only [hne]
      exact find_of_mem tl htl fx hin

theorem SchemaOK.find_self {X : SchemaX} (h : SchemaOK X) (i : Nat) (fx : FieldX) (hm : fx ∈ (X.msg i).fields) :
    (X.msg i).find fx.f.num = some fx :=
  find_of_mem _ (h.nums_nodup i) fx hm

theorem find_mem {d : MsgX} {k : Nat} {fx : FieldX} (h : d.find k = some fx) : fx ∈ d.fields ∧ fx.f.num = k := by
  unfold MsgX.find at h
  refine ⟨List.mem_of_find?_eq_some h, ?_⟩
  have := List.find?_some h
  simpa using this

theorem wfScalarJ_notMessage {fx : FieldX} {v : Val} (h : wfScalarJ fx v = true) : fx.f.kind.isMessage = false := by
  unfold wfScalarJ at h
  cases v with
  | msg _ => simp at h
  | num n => cases hk : fx.f.kind <;> simp [hk] at h <;> rfl
  | bytes b => cases hk : fx.f.kind <;> simp [hk] at h <;> rfl

theorem wfScalarT_notMessage {ok32 : Nat → Bool} {fx : FieldX} {v : Val} (h : wfScalarT ok32 fx v = true) :
    fx.f.kind.isMessage = false := by
  unfold wfScalarT at h
  cases v with
  | msg _ => simp at h
  | num n => cases hk : fx.f.kind <;> simp [hk] at h <;> rfl
  | bytes b => cases hk : fx.f.kind <;> simp [hk] at h <;> rfl

theorem normVal_scalar (X : SchemaX) (fx : FieldX) (v : Val) (h : ∀ m, v ≠ .msg m) : normVal X fx v = normScalar fx v := by
  cases v with
  | msg m => exact absurd rfl (h m)
  | num n => rfl
  | bytes b => rfl

end JT
