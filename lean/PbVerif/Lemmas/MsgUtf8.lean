import PbVerif.Model.Msg
/-
UTF-8: `Pb.utf8Valid` (Go's utf8.Valid) accepts exactly the concatenations of UTF-8 encodings of
Unicode scalar values.  Core-only.
-/
namespace Pb
open Spec

/-! ### UTF-8: `utf8Valid` accepts exactly the concatenations of encodings of Unicode scalar values -/

/-- Unicode scalar value: a code point that is not a surrogate -/
def isScalar (c : Nat) : Bool := c < 0xD800 || (0xE000 ≤ c && c < 0x110000)

/-- the UTF-8 encoding of a scalar value (Unicode Table 3-6) -/
def encodeRune (c : Nat) : List Byte :=
  if c < 0x80 then [BitVec.ofNat 8 c]
  else if c < 0x800 then [BitVec.ofNat 8 (0xC0 + c / 64), BitVec.ofNat 8 (0x80 + c % 64)]
  else if c < 0x10000 then
    [BitVec.ofNat 8 (0xE0 + c / 4096), BitVec.ofNat 8 (0x80 + c / 64 % 64), BitVec.ofNat 8 (0x80 + c % 64)]
  else
    [BitVec.ofNat 8 (0xF0 + c / 262144), BitVec.ofNat 8 (0x80 + c / 4096 % 64),
     BitVec.ofNat 8 (0x80 + c / 64 % 64), BitVec.ofNat 8 (0x80 + c % 64)]

theorem toNat_ofNat8 {n : Nat} (h : n < 256) : (BitVec.ofNat 8 n).toNat = n := by
  simp only [BitVec.toNat_ofNat]; omega

/-- one encoded scalar is accepted and consumed -/
theorem utf8ValidAux_rune (c : Nat) (hc : isScalar c = true) (fuel : Nat) (rest : List Byte) :
    utf8ValidAux (fuel + 1) (encodeRune c ++ rest) = utf8ValidAux fuel rest := by
  simp only [isScalar, Bool.or_eq_true, Bool.and_eq_true, decide_eq_true_eq] at hc
  unfold encodeRune
  by_cases h1 : c < 0x80
  · simp only [h1, if_true, List.cons_append, List.nil_append, utf8ValidAux, toNat_ofNat8 (show c < 256 by omega)]
  · by_cases h2 : c < 0x800
    · simp only [h1, h2, if_true, if_false, List.cons_append, List.nil_append, utf8ValidAux,
        toNat_ofNat8 (show 0xC0 + c / 64 < 256 by omega), toNat_ofNat8 (show 0x80 + c % 64 < 256 by omega)]
      have a1 : ¬ (0xC0 + c / 64 < 0x80) := by omega
      have a2 : ¬ (0xC0 + c / 64 < 0xC2) := by omega
      have a3 : 0xC0 + c / 64 < 0xE0 := by omega
      have a4 : 0x80 ≤ 0x80 + c % 64 := by omega
      have a5 : 0x80 + c % 64 ≤ 0xBF := by omega
      simp [a1, a2, a3, a4, a5]
    · by_cases h3 : c < 0x10000
      · simp only [h1, h2, h3, if_true, if_false, List.cons_append, List.nil_append, utf8ValidAux,
          toNat_ofNat8 (show 0xE0 + c / 4096 < 256 by omega), toNat_ofNat8 (show 0x80 + c / 64 % 64 < 256 by omega),
          toNat_ofNat8 (show 0x80 + c % 64 < 256 by omega)]
        have a1 : ¬ (0xE0 + c / 4096 < 0x80) := by omega
        have a2 : ¬ (0xE0 + c / 4096 < 0xC2) := by omega
        have a3 : ¬ (0xE0 + c / 4096 < 0xE0) := by omega
        have a4 : 0xE0 + c / 4096 < 0xF0 := by omega
        have b1 : (if 0xE0 + c / 4096 = 0xE0 then 0xA0 else 0x80) ≤ 0x80 + c / 64 % 64 := by split <;> omega
        have b2 : 0x80 + c / 64 % 64 ≤ (if 0xE0 + c / 4096 = 0xED then 0x9F else 0xBF) := by split <;> omega
        have c1 : 0x80 ≤ 0x80 + c % 64 := by omega
        have c2 : 0x80 + c % 64 ≤ 0xBF := by omega
        simp [a1, a2, a3, a4, c1, c2]
        intro _; constructor <;> split <;> omega
      · simp only [h1, h2, h3, if_false, List.cons_append, List.nil_append, utf8ValidAux,
          toNat_ofNat8 (show 0xF0 + c / 262144 < 256 by omega), toNat_ofNat8 (show 0x80 + c / 4096 % 64 < 256 by omega),
          toNat_ofNat8 (show 0x80 + c / 64 % 64 < 256 by omega), toNat_ofNat8 (show 0x80 + c % 64 < 256 by omega)]
        have a1 : ¬ (0xF0 + c / 262144 < 0x80) := by omega
        have a2 : ¬ (0xF0 + c / 262144 < 0xC2) := by omega
        have a3 : ¬ (0xF0 + c / 262144 < 0xE0) := by omega
        have a4 : ¬ (0xF0 + c / 262144 < 0xF0) := by omega
        have a5 : 0xF0 + c / 262144 < 0xF5 := by omega
        have b1 : (if 0xF0 + c / 262144 = 0xF0 then 0x90 else 0x80) ≤ 0x80 + c / 4096 % 64 := by split <;> omega
        have b2 : 0x80 + c / 4096 % 64 ≤ (if 0xF0 + c / 262144 = 0xF4 then 0x8F else 0xBF) := by split <;> omega
        have c1 : 0x80 ≤ 0x80 + c / 64 % 64 := by omega
        have c2 : 0x80 + c / 64 % 64 ≤ 0xBF := by omega
        have d1 : 0x80 ≤ 0x80 + c % 64 := by omega
        have d2 : 0x80 + c % 64 ≤ 0xBF := by omega
        simp [a1, a2, a3, a4, a5, c1, c2, d1, d2]
        intro _; constructor <;> split <;> omega


theorem byte_eq_ofNat (x : Byte) (n : Nat) (h : x.toNat = n) : x = BitVec.ofNat 8 n := by
  apply BitVec.eq_of_toNat_eq
  have := x.isLt
  simp only [BitVec.toNat_ofNat]; omega

/-- conversely: whatever `utf8Valid` accepts starts with the encoding of a scalar value -/
theorem utf8ValidAux_inv (fuel : Nat) (x : Byte) (r : List Byte) (h : utf8ValidAux (fuel + 1) (x :: r) = true) :
    ∃ c rest, isScalar c = true ∧ x :: r = encodeRune c ++ rest ∧ utf8ValidAux fuel rest = true := by
  unfold utf8ValidAux at h
  simp only at h
  have hx := x.isLt
  by_cases h1 : x.toNat < 0x80
  · simp only [h1, if_true] at h
    refine ⟨x.toNat, r, by simp [isScalar]; omega, ?_, h⟩
    simp only [encodeRune, h1, if_true, List.cons_append, List.nil_append]
    rw [← byte_eq_ofNat x _ rfl]
  · simp only [h1, if_false] at h
    by_cases h2 : x.toNat < 0xC2
    · simp [h2] at h
    · simp only [h2, if_false] at h
      by_cases h3 : x.toNat < 0xE0
      · simp only [h3, if_true] at h
        cases r with
        | nil => simp at h
        | cons y r1 =>
          simp only [Bool.and_eq_true, decide_eq_true_eq] at h
          obtain ⟨⟨hy1, hy2⟩, hr⟩ := h
          refine ⟨(x.toNat - 0xC0) * 64 + (y.toNat - 0x80), r1, by simp [isScalar]; omega, ?_, hr⟩
          have e1 : ¬ ((x.toNat - 0xC0) * 64 + (y.toNat - 0x80) < 0x80) := by omega
          have e2 : (x.toNat - 0xC0) * 64 + (y.toNat - 0x80) < 0x800 := by omega
          simp only [encodeRune, e1, e2, if_true, if_false, List.cons_append, List.nil_append]
          rw [← byte_eq_ofNat x _ (by omega), ← byte_eq_ofNat y _ (by omega)]
      · simp only [h3, if_false] at h
        by_cases h4 : x.toNat < 0xF0
        · simp only [h4, if_true] at h
          match r, h with
          | [], h => simp at h
          | [_], h => simp at h
          | y :: z :: r1, h =>
            simp only [Bool.and_eq_true, decide_eq_true_eq] at h
            obtain ⟨⟨⟨hy1, hy2⟩, hz1, hz2⟩, hr⟩ := h
            have hy1' : (if x.toNat = 0xE0 then 0xA0 else 0x80) ≤ y.toNat := hy1
            have hy2' : y.toNat ≤ (if x.toNat = 0xED then 0x9F else 0xBF) := hy2
            have hyl : 0x80 ≤ y.toNat := by split at hy1' <;> omega
            have hyh : y.toNat ≤ 0xBF := by split at hy2' <;> omega
            have hE0 : x.toNat = 0xE0 → 0xA0 ≤ y.toNat := by intro e; simp only [e, if_true] at hy1'; exact hy1'
            have hED : x.toNat = 0xED → y.toNat ≤ 0x9F := by intro e; simp only [e, if_true] at hy2'; exact hy2'
            refine ⟨(x.toNat - 0xE0) * 4096 + (y.toNat - 0x80) * 64 + (z.toNat - 0x80), r1, ?_, ?_, hr⟩
            · simp only [isScalar, Bool.or_eq_true, Bool.and_eq_true, decide_eq_true_eq]
              by_cases e : x.toNat = 0xED
              · have := hED e; omega
              · omega
            · have e1 : ¬ ((x.toNat - 0xE0) * 4096 + (y.toNat - 0x80) * 64 + (z.toNat - 0x80) < 0x80) := by
                by_cases e : x.toNat = 0xE0
                · have := hE0 e; omega
                · omega
              have e2 : ¬ ((x.toNat - 0xE0) * 4096 + (y.toNat - 0x80) * 64 + (z.toNat - 0x80) < 0x800) := by
                by_cases e : x.toNat = 0xE0
                · have := hE0 e; omega
                · omega
              have e3 : (x.toNat - 0xE0) * 4096 + (y.toNat - 0x80) * 64 + (z.toNat - 0x80) < 0x10000 := by omega
              simp only [encodeRune, e1, e2, e3, if_true, if_false, List.cons_append, List.nil_append]
              rw [← byte_eq_ofNat x _ (by omega), ← byte_eq_ofNat y _ (by omega), ← byte_eq_ofNat z _ (by omega)]
        · simp only [h4, if_false] at h
          by_cases h5 : x.toNat < 0xF5
          · simp only [h5, if_true] at h
            match r, h with
            | [], h => simp at h
            | [_], h => simp at h
            | [_, _], h => simp at h
            | y :: z :: w :: r1, h =>
              simp only [Bool.and_eq_true, decide_eq_true_eq] at h
              obtain ⟨⟨⟨⟨hy1, hy2⟩, hz1, hz2⟩, hw1, hw2⟩, hr⟩ := h
              have hy1' : (if x.toNat = 0xF0 then 0x90 else 0x80) ≤ y.toNat := hy1
              have hy2' : y.toNat ≤ (if x.toNat = 0xF4 then 0x8F else 0xBF) := hy2
              have hyl : 0x80 ≤ y.toNat := by split at hy1' <;> omega
              have hyh : y.toNat ≤ 0xBF := by split at hy2' <;> omega
              have hF0 : x.toNat = 0xF0 → 0x90 ≤ y.toNat := by intro e; simp only [e, if_true] at hy1'; exact hy1'
              have hF4 : x.toNat = 0xF4 → y.toNat ≤ 0x8F := by intro e; simp only [e, if_true] at hy2'; exact hy2'
              refine ⟨(x.toNat - 0xF0) * 262144 + (y.toNat - 0x80) * 4096 + (z.toNat - 0x80) * 64 + (w.toNat - 0x80),
                r1, ?_, ?_, hr⟩
              · simp only [isScalar, Bool.or_eq_true, Bool.and_eq_true, decide_eq_true_eq]
                by_cases e : x.toNat = 0xF4
                · have := hF4 e; omega
                · by_cases e' : x.toNat = 0xF0
                  · have := hF0 e'; omega
                  · omega
              · have e3 : ¬ ((x.toNat - 0xF0) * 262144 + (y.toNat - 0x80) * 4096 + (z.toNat - 0x80) * 64 +
                    (w.toNat - 0x80) < 0x10000) := by
                  by_cases e : x.toNat = 0xF0
                  · have := hF0 e; omega
                  · omega
                have e1 : ¬ ((x.toNat - 0xF0) * 262144 + (y.toNat - 0x80) * 4096 + (z.toNat - 0x80) * 64 +
                    (w.toNat - 0x80) < 0x80) := by omega
                have e2 : ¬ ((x.toNat - 0xF0) * 262144 + (y.toNat - 0x80) * 4096 + (z.toNat - 0x80) * 64 +
                    (w.toNat - 0x80) < 0x800) := by omega
                simp only [encodeRune, e1, e2, e3, if_false, List.cons_append, List.nil_append]
                rw [← byte_eq_ofNat x _ (by omega), ← byte_eq_ofNat y _ (by omega), ← byte_eq_ofNat z _ (by omega),
                  ← byte_eq_ofNat w _ (by omega)]
          · simp [h5] at h

def encodeRunes (rs : List Nat) : List Byte := (rs.map encodeRune).flatten

theorem encodeRune_length_pos (c : Nat) : 1 ≤ (encodeRune c).length := by
  unfold encodeRune; repeat' split
  all_goals simp

theorem utf8ValidAux_of_runes : ∀ (rs : List Nat) (fuel : Nat), (∀ c ∈ rs, isScalar c = true) →
    (encodeRunes rs).length + 1 ≤ fuel → utf8ValidAux fuel (encodeRunes rs) = true
  | [], fuel, _, hf => by
    cases fuel with
    | zero => omega
    | succ f => simp [encodeRunes, utf8ValidAux]
  | c :: rs, fuel, hs, hf => by
    cases fuel with
    | zero => omega
    | succ f =>
      have hpos := encodeRune_length_pos c
      have e : encodeRunes (c :: rs) = encodeRune c ++ encodeRunes rs := by simp [encodeRunes]
      rw [e] at hf ⊢
      rw [utf8ValidAux_rune c (hs c (by simp)) f]
      apply utf8ValidAux_of_runes rs f (fun c' hc' => hs c' (by simp [hc']))
      simp only [List.length_append] at hf; omega

theorem runes_of_utf8ValidAux : ∀ (fuel : Nat) (b : List Byte), utf8ValidAux fuel b = true →
    ∃ rs, (∀ c ∈ rs, isScalar c = true) ∧ b = encodeRunes rs
  | 0, b, h => by simp [utf8ValidAux] at h
  | fuel + 1, [], _ => ⟨[], by simp, by simp [encodeRunes]⟩
  | fuel + 1, x :: r, h => by
    obtain ⟨c, rest, hc, he, hr⟩ := utf8ValidAux_inv fuel x r h
    obtain ⟨rs, hrs, hre⟩ := runes_of_utf8ValidAux fuel rest hr
    refine ⟨c :: rs, ?_, ?_⟩
    · intro c' hc'
      simp only [List.mem_cons] at hc'
      rcases hc' with rfl | hc'
      · exact hc
      · exact hrs c' hc'
    · rw [he, hre]; simp [encodeRunes]

/-- **`utf8Valid` = well-formed UTF-8 (Unicode Table 3-7)**: exactly the byte strings that are
concatenations of encodings of scalar values (no surrogates, no overlong forms, ≤ U+10FFFF) -/
theorem utf8Valid_iff (b : List Byte) :
    utf8Valid b = true ↔ ∃ rs : List Nat, (∀ c ∈ rs, isScalar c = true) ∧ b = encodeRunes rs := by
  constructor
  · exact runes_of_utf8ValidAux _ b
  · rintro ⟨rs, hs, rfl⟩
    exact utf8ValidAux_of_runes rs _ hs (Nat.le_refl _)

end Pb
