import PbVerif.Lemmas.MsgUtf8
import PbVerif.Lemmas.MsgAlg
/-
Marshal's UTF-8 check (`badUtf8Msg`) characterised by positions.
-/
namespace Pb
open Spec

/-- some string position for which UTF-8 validation is enforced holds invalid UTF-8: a singular
value or a list element of an enforced string field of the message, or (recursively) of a message
nested in one of its fields — map keys/values are fields 1/2 of the entry messages -/
inductive BadStr (S : Schema) : Nat → Msg → Prop
  | str {mi : Nat} {fs : Fields} {u : List Byte} {num : Nat} {fv : FVal} {f : Field} {b : List Byte} :
      (num, fv) ∈ fs.toList → (S.msg mi).find num = some f → f.kind = .string → f.utf8 = true →
      (fv = .one (.bytes b) ∨ ∃ vs, fv = .many vs ∧ Val.bytes b ∈ vs.toList) → utf8Valid b = false →
      BadStr S mi (.mk fs u)
  | sub {mi : Nat} {fs : Fields} {u : List Byte} {num : Nat} {fv : FVal} {f : Field} {x : Msg} :
      (num, fv) ∈ fs.toList → (S.msg mi).find num = some f →
      (fv = .one (.msg x) ∨ ∃ vs, fv = .many vs ∧ Val.msg x ∈ vs.toList) → BadStr S f.sub x →
      BadStr S mi (.mk fs u)

theorem badUtf8Vals_iff (S : Schema) (f : Field) : ∀ vs : Vals,
    badUtf8Vals S f vs = true ↔ ∃ v, v ∈ vs.toList ∧ badUtf8Val S f v = true
  | .nil => by simp [badUtf8Vals, Vals.toList]
  | .cons v tl => by
    simp only [badUtf8Vals, Bool.or_eq_true, badUtf8Vals_iff S f tl, Vals.toList, List.mem_cons]
    constructor
    · rintro (h | ⟨w, hw, hb⟩)
      · exact ⟨v, Or.inl rfl, h⟩
      · exact ⟨w, Or.inr hw, hb⟩
    · rintro ⟨w, (rfl | hw), hb⟩
      · exact Or.inl hb
      · exact Or.inr ⟨w, hw, hb⟩

theorem badUtf8Fields_iff (S : Schema) (d : MsgD) : ∀ fs : Fields,
    badUtf8Fields S d fs = true ↔ ∃ num fv f, (num, fv) ∈ fs.toList ∧ d.find num = some f ∧ badUtf8FVal S f fv = true
  | .nil => by simp [badUtf8Fields, Fields.toList]
  | .cons n x tl => by
    simp only [badUtf8Fields, Bool.or_eq_true, badUtf8Fields_iff S d tl, Fields.toList, List.mem_cons]
    constructor
    · rintro (h | ⟨num, fv, f, hm, hf, hb⟩)
      · cases hf : d.find n with
        | none => simp [hf] at h
        | some f => simp only [hf] at h; exact ⟨n, x, f, Or.inl rfl, hf, h⟩
      · exact ⟨num, fv, f, Or.inr hm, hf, hb⟩
    · rintro ⟨num, fv, f, (he | hm), hf, hb⟩
      · cases he; left; simp only [hf]; exact hb
      · exact Or.inr ⟨num, fv, f, hm, hf, hb⟩

/-- one level of `badUtf8Msg`, in terms of positions -/
theorem badUtf8Msg_step (S : Schema) (mi : Nat) (fs : Fields) (u : List Byte) :
    badUtf8Msg S mi (.mk fs u) = true ↔
      ∃ num fv f, (num, fv) ∈ fs.toList ∧ (S.msg mi).find num = some f ∧
        ((∃ b, (fv = .one (.bytes b) ∨ ∃ vs, fv = .many vs ∧ Val.bytes b ∈ vs.toList) ∧
            f.kind = .string ∧ f.utf8 = true ∧ utf8Valid b = false) ∨
         (∃ x, (fv = .one (.msg x) ∨ ∃ vs, fv = .many vs ∧ Val.msg x ∈ vs.toList) ∧ badUtf8Msg S f.sub x = true)) := by
  have hval : ∀ (f : Field) (v : Val), badUtf8Val S f v = true ↔
      (∃ b, v = .bytes b ∧ f.kind = .string ∧ f.utf8 = true ∧ utf8Valid b = false) ∨
      (∃ x, v = .msg x ∧ badUtf8Msg S f.sub x = true) := by
    intro f v
    cases v with
    | num n => simp [badUtf8Val]
    | bytes b => simp [badUtf8Val, and_assoc]
    | msg x => simp [badUtf8Val]
  simp only [badUtf8Msg, badUtf8Fields_iff]
  constructor
  · rintro ⟨num, fv, f, hm, hf, hb⟩
    refine ⟨num, fv, f, hm, hf, ?_⟩
    cases fv with
    | one v =>
      simp only [badUtf8FVal, hval] at hb
      rcases hb with ⟨b, rfl, h1, h2, h3⟩ | ⟨x, rfl, hx⟩
      · exact Or.inl ⟨b, Or.inl rfl, h1, h2, h3⟩
      · exact Or.inr ⟨x, Or.inl rfl, hx⟩
    | many vs =>
      simp only [badUtf8FVal, badUtf8Vals_iff] at hb
      obtain ⟨v, hv, hbv⟩ := hb
      rw [hval] at hbv
      rcases hbv with ⟨b, rfl, h1, h2, h3⟩ | ⟨x, rfl, hx⟩
      · exact Or.inl ⟨b, Or.inr ⟨vs, rfl, hv⟩, h1, h2, h3⟩
      · exact Or.inr ⟨x, Or.inr ⟨vs, rfl, hv⟩, hx⟩
  · rintro ⟨num, fv, f, hm, hf, hb⟩
    refine ⟨num, fv, f, hm, hf, ?_⟩
    rcases hb with ⟨b, hfv, h1, h2, h3⟩ | ⟨x, hfv, hx⟩
    · rcases hfv with rfl | ⟨vs, rfl, hv⟩
      · simp only [badUtf8FVal, hval]; exact Or.inl ⟨b, rfl, h1, h2, h3⟩
      · simp only [badUtf8FVal, badUtf8Vals_iff]
        exact ⟨_, hv, (hval f _).mpr (Or.inl ⟨b, rfl, h1, h2, h3⟩)⟩
    · rcases hfv with rfl | ⟨vs, rfl, hv⟩
      · simp only [badUtf8FVal, hval]; exact Or.inr ⟨x, rfl, hx⟩
      · simp only [badUtf8FVal, badUtf8Vals_iff]
        exact ⟨_, hv, (hval f _).mpr (Or.inr ⟨x, rfl, hx⟩)⟩

theorem sizeOf_lt_of_mem_vals {x : Val} : ∀ {vs : Vals}, x ∈ vs.toList → sizeOf x < sizeOf vs
  | .nil, h => by simp [Vals.toList] at h
  | .cons v tl, h => by
    simp only [Vals.toList, List.mem_cons] at h
    rcases h with rfl | h
    · simp; omega
    · have := sizeOf_lt_of_mem_vals h; simp; omega

theorem sizeOf_lt_of_mem_fields {num : Nat} {fv : FVal} : ∀ {fs : Fields}, (num, fv) ∈ fs.toList →
    sizeOf fv < sizeOf fs
  | .nil, h => by simp [Fields.toList] at h
  | .cons n x tl, h => by
    simp only [Fields.toList, List.mem_cons, Prod.mk.injEq] at h
    rcases h with ⟨rfl, rfl⟩ | h
    · simp; omega
    · have := sizeOf_lt_of_mem_fields h; simp; omega

theorem badStr_of_bad (S : Schema) : ∀ (n : Nat) (mi : Nat) (m : Msg), sizeOf m ≤ n → badUtf8Msg S mi m = true →
    BadStr S mi m
  | 0, _, m, h, _ => by cases m; simp at h
  | n + 1, mi, .mk fs u, h, hb => by
    rw [badUtf8Msg_step] at hb
    obtain ⟨num, fv, f, hm, hf, hb⟩ := hb
    rcases hb with ⟨b, hfv, h1, h2, h3⟩ | ⟨x, hfv, hx⟩
    · exact .str hm hf h1 h2 hfv h3
    · refine .sub hm hf hfv (badStr_of_bad S n f.sub x ?_ hx)
      have h1 := sizeOf_lt_of_mem_fields hm
      simp at h
      rcases hfv with rfl | ⟨vs, rfl, hv⟩
      · simp at h1; omega
      · have := sizeOf_lt_of_mem_vals hv; simp at h1 this; omega

/-- **Marshal rejects a message exactly when some enforced string position holds invalid UTF-8** -/
theorem badUtf8Msg_iff (S : Schema) (mi : Nat) (m : Msg) : badUtf8Msg S mi m = true ↔ BadStr S mi m := by
  constructor
  · exact badStr_of_bad S (sizeOf m) mi m (Nat.le_refl _)
  · intro h
    induction h with
    | str hm hf h1 h2 hfv h3 =>
      rw [badUtf8Msg_step]; exact ⟨_, _, _, hm, hf, Or.inl ⟨_, hfv, h1, h2, h3⟩⟩
    | sub hm hf hfv _ ih =>
      rw [badUtf8Msg_step]; exact ⟨_, _, _, hm, hf, Or.inr ⟨_, hfv, ih⟩⟩

end Pb
