import PbVerif.Lemmas.MSetRound
/-
C47 helper lemmas, part 3: the lazily kept form of the fast path, the two paths on an unresolved
item, duplicate items, and totality of the loops (the fuel of the model always suffices).
-/
namespace MSet
open Spec

theorem IsVarint.length_pos {lp : Bytes} {n : Nat} (h : IsVarint lp n) : 1 ≤ lp.length := by
  have := (decVarint_len (h [])).1
  simpa using this

/-! ### unresolved item: what each path stores -/

/-- an item `type_id = t`, `message = p` whose length prefix is the byte string `lp` -/
def rawItem (t : Nat) (lp p : Bytes) : El := .item [.typeId t, .message lp p]

theorem rawItem_wf {t : Nat} {lp p : Bytes} (h1 : 1 ≤ t) (h2 : t < 2 ^ 31) (h : IsVarint lp p.length) :
    (rawItem t lp p).WF := by
  refine ⟨?_, ?_⟩
  · intro y hy
    simp only [List.mem_cons, List.not_mem_nil, or_false] at hy
    rcases hy with rfl | rfl
    · exact ⟨h1, h2⟩
    · exact h
  · simpa [toksLen, Tok.len] using h.lt

theorem rawItem_callback (w : Bool) {t : Nat} {lp p : Bytes} (h1 : 1 ≤ t) (h : IsVarint lp p.length) :
    (rawItem t lp p).callback w = some (t, if w then lp ++ p else p) := by
  have h0 : t ≠ 0 := by omega
  have hne : (lp ++ p).length ≠ 0 := by have := h.length_pos; simp only [List.length_append]; omega
  cases w
  · simp [rawItem, El.callback, stepTok, h0, finMsg, repMsg]
  · simp only [rawItem, El.callback, List.foldl_cons, List.foldl_nil, stepTok, h0, if_false, finMsg, repMsg,
      if_true, true_and, hne]

theorem unmarshalItems_rawItem (w : Bool) {t : Nat} {lp p : Bytes} (h1 : 1 ≤ t) (h2 : t < 2 ^ 31)
    (h : IsVarint lp p.length) :
    unmarshalItems w (rawItem t lp p).enc = .ok [(t, if w then lp ++ p else p)] := by
  have := unmarshalItems_els w [rawItem t lp p] (by
    intro x hx
    simp only [List.mem_cons, List.not_mem_nil, or_false] at hx
    subst hx; exact rawItem_wf h1 h2 h)
  simpa [encEls, rawItem_callback w h1 h] using this

/-- fast path: the unknown record keeps the length prefix AS RECEIVED;
reflection path: the prefix is rewritten minimally -/
theorem decodeSet_rawItem_unknown (known : Nat → Bool) (w : Bool) {t : Nat} {lp p : Bytes}
    (h1 : 1 ≤ t) (h2 : t < 2 ^ 31) (h : IsVarint lp p.length) (hk : known t = false) :
    decodeSet known w (rawItem t lp p).enc =
      .ok ⟨[], tag t wBytes ++ (if w then lp else encVarint p.length) ++ p⟩ := by
  unfold decodeSet
  rw [unmarshalItems_rawItem w h1 h2 h]
  cases w <;> simp [applyItems, applyItem, hk, Content.empty, encBytes, List.append_assoc]

/-! ### duplicate items of one extension -/

theorem decodeSet_duplicate_items (known : Nat → Bool) (w : Bool) {t : Nat} {p1 p2 : Bytes}
    (h1 : 1 ≤ t) (h2 : t < 2 ^ 31) (hp1 : p1.length < 2 ^ 64) (hp2 : p2.length < 2 ^ 64) (hk : known t = true) :
    decodeSet known w (encodeItem t p1 ++ encodeItem t p2) = .ok ⟨[(t, p1 ++ p2)], []⟩ := by
  have he : encodeItem t p1 ++ encodeItem t p2 = encodeItems [(t, p1), (t, p2)] := by simp [encodeItems]
  unfold decodeSet
  rw [he, unmarshalItems_encodeItems w _ (by
    intro x hx
    simp only [List.mem_cons, List.not_mem_nil, or_false] at hx
    rcases hx with rfl | rfl
    · exact ⟨h1, h2, hp1⟩
    · exact ⟨h1, h2, hp2⟩)]
  cases w
  · simp [applyItems, applyItem, cbValue, hk, Content.empty, mergeItem]
  · have d1 := decBytes_enc hp1 []
    have d2 := decBytes_enc hp2 []
    simp only [List.append_nil] at d1 d2
    simp [applyItems, applyItem, cbValue, hk, Content.empty, mergeItem, d1, d2]

/-! ### the lazily kept form -/

def lazyOthers (t : Nat) : List (Bytes × Bytes) → List Tok
  | [] => []
  | (lp, p) :: r => .other t 2 (lp ++ p) :: lazyOthers t r

def lazyRecords (t : Nat) : List (Bytes × Bytes) → Bytes
  | [] => []
  | (lp, p) :: r => lazyRecord t (lp ++ p) ++ lazyRecords t r

theorem encToks_lazyOthers (t : Nat) : ∀ rs, encToks (lazyOthers t rs) = lazyRecords t rs
  | [] => rfl
  | (lp, p) :: r => by simp [lazyOthers, lazyRecords, encToks, Tok.enc, lazyRecord, wBytes, encToks_lazyOthers t r]

/-- what `marshalMessageSetField` writes for an extension kept as raw records (one per occurrence
in the input): ONE item whose message field is the first record and in which every further
record stands as a field with the extension's own number -/
theorem encodeLazyItem_records (t : Nat) (lp p : Bytes) (rs : List (Bytes × Bytes)) :
    encodeLazyItem t (lazyRecords t ((lp, p) :: rs)) =
      (El.item (.typeId t :: .message lp p :: lazyOthers t rs)).enc := by
  have hd : (tag t 2 ++ (lp ++ (p ++ lazyRecords t rs))).drop (sizeTag t) = lp ++ (p ++ lazyRecords t rs) := by
    rw [sizeTag_eq t 2]; exact List.drop_left' rfl
  simp only [encodeLazyItem, lazyRecords, lazyRecord, List.append_assoc, appendFieldEnd, appendFieldStart,
    El.enc, encToks, Tok.enc, encToks_lazyOthers, fieldItem, fieldTypeID, fieldMessage, wStartGroup, wVarint,
    wBytes, wEndGroup, List.nil_append, hd]

theorem lazyOthers_wf {t : Nat} (h1 : 1 ≤ t) (h2 : t < 2 ^ 31) (h3 : t ≠ 3) :
    ∀ rs : List (Bytes × Bytes), (∀ r ∈ rs, IsVarint r.1 r.2.length) → ∀ x ∈ lazyOthers t rs, x.WF
  | [], _, x, hx => by simp [lazyOthers] at hx
  | (lp, p) :: r, hv, x, hx => by
    simp only [lazyOthers, List.mem_cons] at hx
    rcases hx with rfl | hx
    · refine ⟨h1, h2, by omega, by omega, by omega, by omega, ?_⟩
      intro rest
      have := decBytes_raw (hv (lp, p) (by simp)) rest
      rw [consumeFieldValue_bytes, List.append_assoc, this]
      simp [Except.map]
    · exact lazyOthers_wf h1 h2 h3 r (fun y hy => hv y (by simp [hy])) x hx

theorem foldl_lazyOthers (t : Nat) (s : Nat × MsgSt) : ∀ rs, (lazyOthers t rs).foldl stepTok s = s
  | [] => rfl
  | (lp, p) :: r => by simp only [lazyOthers, List.foldl_cons, stepTok]; exact foldl_lazyOthers t s r

theorem toksLen_lazyOthers (t : Nat) : ∀ rs, toksLen (lazyOthers t rs) = 0
  | [] => rfl
  | (lp, p) :: r => by simp [lazyOthers, toksLen, Tok.len, toksLen_lazyOthers t r]

/-- decoding that item again (either path): only the FIRST occurrence is seen; the others are
skipped as foreign fields of the item -/
theorem decodeSet_lazyItem (known : Nat → Bool) (w : Bool) {t : Nat} {lp p : Bytes} (rs : List (Bytes × Bytes))
    (h1 : 1 ≤ t) (h2 : t < 2 ^ 31) (h3 : t ≠ 3) (h : IsVarint lp p.length)
    (hrs : ∀ r ∈ rs, IsVarint r.1 r.2.length) (hk : known t = true) :
    decodeSet known w (encodeLazyItem t (lazyRecords t ((lp, p) :: rs))) = .ok ⟨[(t, p)], []⟩ := by
  rw [encodeLazyItem_records]
  have hwf : (El.item (.typeId t :: .message lp p :: lazyOthers t rs)).WF := by
    refine ⟨?_, ?_⟩
    · intro y hy
      simp only [List.mem_cons] at hy
      rcases hy with rfl | rfl | hy
      · exact ⟨h1, h2⟩
      · exact h
      · exact lazyOthers_wf h1 h2 h3 rs hrs y hy
    · simpa [toksLen, Tok.len, toksLen_lazyOthers] using h.lt
  have hu := unmarshalItems_els w [El.item (.typeId t :: .message lp p :: lazyOthers t rs)] (by
    intro x hx
    simp only [List.mem_cons, List.not_mem_nil, or_false] at hx
    subst hx; exact hwf)
  have h0 : t ≠ 0 := by omega
  have hne : (lp ++ p).length ≠ 0 := by have := h.length_pos; simp only [List.length_append]; omega
  simp only [encEls, List.append_nil] at hu
  unfold decodeSet
  rw [hu]
  have hd := decBytes_raw h []
  simp only [List.append_nil] at hd
  cases w
  · simp [El.callback, stepTok, foldl_lazyOthers, h0, finMsg, repMsg, applyItems, applyItem, hk, Content.empty, mergeItem]
  · have hlp : lp ≠ [] := by
      intro hc; have := h.length_pos; simp [hc] at this
    simp [El.callback, stepTok, foldl_lazyOthers, h0, finMsg, repMsg, hlp, applyItems, applyItem, hk, Content.empty,
      mergeItem, hd]

theorem encodeLazyItem_length (t : Nat) (lb : Bytes) (h : sizeTag t ≤ lb.length) :
    (encodeLazyItem t lb).length = sizeLazyItem t lb := by
  simp only [encodeLazyItem, appendFieldEnd, appendFieldStart, List.length_append, List.length_nil,
    List.length_drop, sizeLazyItem, sizeField, sizeVarint, sizeTag_eq fieldItem wStartGroup,
    sizeTag_eq fieldTypeID wVarint, sizeTag_eq fieldMessage wBytes]
  have := sizeTag_eq fieldItem wEndGroup
  rw [sizeTag_eq fieldItem wStartGroup] at this
  omega

/-! ### totality: the loop budgets of the model are never exhausted -/

theorem addMsg_error {w : Bool} {msg : Option Bytes} {raw m : Bytes} {e : Err}
    (h : addMsg w msg raw m = .error e) : e = .panic := by
  unfold addMsg at h
  split at h
  · simp at h
  · split at h
    · split at h
      · simp only [Except.error.injEq] at h; exact h.symm
      · simp at h
    · simp at h

theorem consumeFieldValue_le' {num typ : Nat} {b : Bytes} {d : Int} {n : Nat}
    (h : consumeFieldValue num typ b d = .ok n) : n ≤ b.length := by
  unfold consumeFieldValue at h
  split at h
  · rename_i r hr; subst h; exact (fieldValueLen_le _).1 _ _ _ _ _ hr
  · simp at h

theorem itemLoop_ne_fuel (w : Bool) (ilen : Nat) : ∀ (fuel : Nat) (b : Bytes) (t : Nat) (msg : Option Bytes),
    b.length < fuel → itemLoop w ilen fuel b t msg ≠ .error .fuel
  | 0, _, _, _, h => by omega
  | fuel + 1, b, t, msg, h => by
    unfold itemLoop
    split
    · simp
    · rename_i num wtyp n hn
      have hl := decTag_len hn
      simp only
      split
      · simp
      · split
        · split
          · simp
          · rename_i v k hv
            have := decVarint_len hv
            split
            · simp
            · exact itemLoop_ne_fuel w ilen fuel _ _ _ (by simp only [List.length_drop]; omega)
        · split
          · split
            · simp
            · rename_i m k hm
              split
              · rename_i e he
                rw [addMsg_error he]; simp
              · exact itemLoop_ne_fuel w ilen fuel _ _ _ (by simp only [List.length_drop]; omega)
          · split
            · simp
            · exact itemLoop_ne_fuel w ilen fuel _ _ _ (by simp only [List.length_drop]; omega)

theorem consumeItem_ne_fuel (w : Bool) (b : Bytes) : consumeItem w b ≠ .error .fuel :=
  itemLoop_ne_fuel w _ _ b 0 none (by omega)

theorem itemsLoop_ne_fuel (w : Bool) : ∀ (fuel : Nat) (b : Bytes), b.length < fuel → itemsLoop w fuel b ≠ .error .fuel
  | 0, _, h => by omega
  | fuel + 1, b, h => by
    unfold itemsLoop
    split
    · simp
    · split
      · simp
      · rename_i num wtyp n hn
        have hl := decTag_len hn
        simp only
        split
        · split
          · simp
          · exact itemsLoop_ne_fuel w fuel _ (by simp only [List.length_drop]; omega)
        · split
          · rename_i e he
            intro hc
            simp only [Except.error.injEq] at hc
            subst hc
            exact consumeItem_ne_fuel w _ he
          · have ih := itemsLoop_ne_fuel w fuel (List.drop ‹Nat› (List.drop n b)) (by simp only [List.length_drop]; omega)
            split
            · exact ih
            · split
              · rename_i e he
                intro hc
                simp only [Except.error.injEq] at hc
                subst hc
                exact ih he
              · simp

theorem unmarshalItems_ne_fuel (w : Bool) (b : Bytes) : unmarshalItems w b ≠ .error .fuel :=
  itemsLoop_ne_fuel w _ b (by omega)

theorem appendUnknownLoop_ne_fuel : ∀ (fuel : Nat) (b u : Bytes), u.length < fuel → appendUnknownLoop fuel b u ≠ .error .fuel
  | 0, _, _, h => by omega
  | fuel + 1, b, u, h => by
    unfold appendUnknownLoop
    split
    · simp
    · split
      · simp
      · rename_i num typ n hn
        have hl := decTag_len hn
        split
        · simp
        · simp only
          split
          · simp
          · exact appendUnknownLoop_ne_fuel fuel _ _ (by simp only [List.length_drop]; omega)

end MSet
