import PbVerif.Lemmas.MSetRound
/-
C47 helper lemmas, part 3: the lazily kept form of the fast path, the two paths on an unresolved
item, duplicate items, and totality of the loops (the fuel of the model always suffices).
-/
namespace MSet
open Spec

theorem IsVarint.length_pos {lp : Bytes} {n : Nat} (h : IsVarint lp n) : 1 ≤ lp.length := by
  have := (decVarint_len (h [])).1
  simpa using this

/-! ### unresolved item: what each path stores -/

/-- an item `type_id = t`, `message = p` whose length prefix is the byte string `lp` -/
def rawItem (t : Nat) (lp p : Bytes) : El := .item [.typeId t, .message lp p]

theorem rawItem_wf {t : Nat} {lp p : Bytes} (h1 : 1 ≤ t) (h2 : t < 2 ^ 31) (h : IsVarint lp p.length) :
    (rawItem t lp p).WF := by
  refine ⟨?_, ?_⟩
  · intro y hy
    simp only [List.mem_cons, List.not_mem_nil, or_false] at hy
    rcases hy with rfl | rfl
    · exact ⟨h1, h2⟩
    · exact h
  · simpa [toksLen, Tok.len] using h.lt

theorem rawItem_callback (w : Bool) {t : Nat} {lp p : Bytes} (h1 : 1 ≤ t) (h : IsVarint lp p.length) :
    (rawItem t lp p).callback w = some (t, if w then lp ++ p else p) := by
  have h0 : t ≠ 0 := by omega
  have hne : (lp ++ p).length ≠ 0 := by have := h.length_pos; simp only [List.length_append]; omega
  cases w
  · simp [rawItem, El.callback, stepTok, h0, finMsg, repMsg]
  · simp only [rawItem, El.callback, List.foldl_cons, List.foldl_nil, stepTok, h0, if_false, finMsg, repMsg,
      if_true, true_and, hne]

theorem unmarshalItems_rawItem (w : Bool) {t : Nat} {lp p : Bytes} (h1 : 1 ≤ t) (h2 : t < 2 ^ 31)
    (h : IsVarint lp p.length) :
    unmarshalItems w (rawItem t lp p).enc = .ok [(t, if w then lp ++ p else p)] := by
  have := unmarshalItems_els w [rawItem t lp p] (by
    intro x hx
    simp only [List.mem_cons, List.not_mem_nil, or_false] at hx
    subst hx; exact rawItem_wf h1 h2 h)
  simpa [encEls, rawItem_callback w h1 h] using this

/-- an unresolved item is kept byte for byte — length prefix as received — on both paths -/
theorem decodeSet_rawItem_unknown (known : Nat → Bool) (w : Bool) {t : Nat} {lp p : Bytes}
    (h1 : 1 ≤ t) (h2 : t < 2 ^ 31) (h : IsVarint lp p.length) (hk : known t = false) :
    decodeSet known w (rawItem t lp p).enc = .ok ⟨[], tag t wBytes ++ lp ++ p⟩ := by
  unfold decodeSet
  rw [unmarshalItems_rawItem true h1 h2 h]
  simp [applyItems, applyItem, hk, Content.empty, List.append_assoc]

/-! ### duplicate items of one extension -/

theorem decodeSet_duplicate_items (known : Nat → Bool) (w : Bool) {t : Nat} {p1 p2 : Bytes}
    (h1 : 1 ≤ t) (h2 : t < 2 ^ 31) (hp1 : p1.length < 2 ^ 64) (hp2 : p2.length < 2 ^ 64) (hk : known t = true) :
    decodeSet known w (encodeItem t p1 ++ encodeItem t p2) = .ok ⟨[(t, p1 ++ p2)], []⟩ := by
  have he : encodeItem t p1 ++ encodeItem t p2 = encodeItems [(t, p1), (t, p2)] := by simp [encodeItems]
  unfold decodeSet
  rw [he, unmarshalItems_encodeItems true _ (by
    intro x hx
    simp only [List.mem_cons, List.not_mem_nil, or_false] at hx
    rcases hx with rfl | rfl
    · exact ⟨h1, h2, hp1⟩
    · exact ⟨h1, h2, hp2⟩)]
  have d1 := decBytes_enc hp1 []
  have d2 := decBytes_enc hp2 []
  simp only [List.append_nil] at d1 d2
  simp [applyItems, applyItem, cbValue, hk, Content.empty, mergeItem, d1, d2]

/-! ### the lazily kept form: one message field per record -/

def lazyRecords (t : Nat) : List (Bytes × Bytes) → Bytes
  | [] => []
  | (lp, p) :: r => lazyRecord t (lp ++ p) ++ lazyRecords t r

def lazyMsgs : List (Bytes × Bytes) → List Tok
  | [] => []
  | (lp, p) :: r => .message lp p :: lazyMsgs r

/-- concatenation of the payloads -/
def lazyPayload : List (Bytes × Bytes) → Bytes
  | [] => []
  | (_, p) :: r => p ++ lazyPayload r

theorem lazyRecords_length_ge (t : Nat) : ∀ rs : List (Bytes × Bytes), rs.length ≤ (lazyRecords t rs).length
  | [] => by simp [lazyRecords]
  | (lp, p) :: r => by
    have := lazyRecords_length_ge t r
    have := tag_length_pos t wBytes
    simp only [lazyRecords, lazyRecord, List.length_cons, List.length_append]; omega

/-- the loop of `marshalMessageSetField` over the records of the lazy buffer -/
theorem lazyFieldsLoop_records (t : Nat) : ∀ (rs : List (Bytes × Bytes)) (fuel : Nat) (b : Bytes),
    (∀ r ∈ rs, IsVarint r.1 r.2.length) → rs.length < fuel →
    lazyFieldsLoop (sizeTag t) fuel b (lazyRecords t rs) = .ok (b ++ encToks (lazyMsgs rs))
  | [], fuel, b, _, hf => by
    obtain ⟨f, rfl⟩ : ∃ f, fuel = f + 1 := ⟨fuel - 1, by simp at hf; omega⟩
    simp [lazyFieldsLoop, lazyRecords, lazyMsgs, encToks]
  | (lp, p) :: r, fuel, b, hv, hf => by
    obtain ⟨f, rfl⟩ : ∃ f, fuel = f + 1 := ⟨fuel - 1, by simp at hf; omega⟩
    have hlp := hv (lp, p) (by simp)
    have ih := lazyFieldsLoop_records t r f (b ++ tag fieldMessage wBytes ++ (lp ++ p))
      (fun y hy => hv y (by simp [hy])) (by simp at hf; omega)
    have hts : sizeTag t = (tag t 2).length := sizeTag_eq t 2
    have hne : (tag t 2 ++ (lp ++ (p ++ lazyRecords t r))).length ≠ 0 := by
      have := tag_length_pos t 2; simp only [List.length_append]; omega
    have hlt : ¬ (tag t 2 ++ (lp ++ (p ++ lazyRecords t r))).length < (tag t 2).length := by
      simp only [List.length_append]; omega
    have hd : (lp ++ (p ++ lazyRecords t r)).drop (lp.length + p.length) = lazyRecords t r := by
      rw [← List.append_assoc]; exact List.drop_left' (by simp)
    have htk : (lp ++ (p ++ lazyRecords t r)).take (lp.length + p.length) = lp ++ p := by
      rw [← List.append_assoc]; exact List.take_left' (by simp)
    simp only [lazyRecords, lazyRecord, wBytes, List.append_assoc, lazyFieldsLoop, hts, hne, hlt, if_false,
      List.drop_left', decBytes_raw hlp, hd, htk]
    simp only [wBytes, List.append_assoc, hts] at ih
    rw [ih]
    simp [lazyMsgs, encToks, Tok.enc, fieldMessage, List.append_assoc]

/-- what `marshalMessageSetField` writes for an extension kept as raw records: ONE item, one
message field per record -/
theorem encodeLazyItem_records (t : Nat) (rs : List (Bytes × Bytes)) (hv : ∀ r ∈ rs, IsVarint r.1 r.2.length) :
    encodeLazyItem t (lazyRecords t rs) = .ok (El.item (.typeId t :: lazyMsgs rs)).enc := by
  unfold encodeLazyItem
  rw [lazyFieldsLoop_records t rs _ _ hv (by have := lazyRecords_length_ge t rs; omega)]
  simp [appendFieldEnd, appendFieldStart, El.enc, encToks, Tok.enc, fieldItem, fieldTypeID, wStartGroup,
    wVarint, wEndGroup, List.append_assoc]

theorem lazyMsgs_wf : ∀ rs : List (Bytes × Bytes), (∀ r ∈ rs, IsVarint r.1 r.2.length) → ∀ x ∈ lazyMsgs rs, x.WF
  | [], _, x, hx => by simp [lazyMsgs] at hx
  | (lp, p) :: r, hv, x, hx => by
    simp only [lazyMsgs, List.mem_cons] at hx
    rcases hx with rfl | hx
    · exact hv (lp, p) (by simp)
    · exact lazyMsgs_wf r (fun y hy => hv y (by simp [hy])) x hx

theorem toksLen_lazyMsgs : ∀ rs : List (Bytes × Bytes), toksLen (lazyMsgs rs) = (lazyPayload rs).length
  | [] => rfl
  | (lp, p) :: r => by simp [lazyMsgs, toksLen, Tok.len, lazyPayload, toksLen_lazyMsgs r]

def MsgSt.payload : MsgSt → Bytes
  | none => []
  | some (_, p) => p

theorem MsgSt.len_eq (m : MsgSt) : m.len = m.payload.length := by
  cases m with
  | none => rfl
  | some x => rfl

/-- folding over message fields only: the type id stays, the payloads are appended, the state
stays well-formed -/
theorem foldl_lazyMsgs : ∀ (rs : List (Bytes × Bytes)) (t : Nat) (m : MsgSt),
    (∀ r ∈ rs, IsVarint r.1 r.2.length) → m.WF → m.payload.length + (lazyPayload rs).length < 2 ^ 64 →
    ((lazyMsgs rs).foldl stepTok (t, m)).1 = t ∧
    ((lazyMsgs rs).foldl stepTok (t, m)).2.payload = m.payload ++ lazyPayload rs ∧
    ((lazyMsgs rs).foldl stepTok (t, m)).2.WF
  | [], t, m, _, hm, _ => by simp [lazyMsgs, lazyPayload, hm]
  | (lp, p) :: r, t, m, hv, hm, hb => by
    have hlp := hv (lp, p) (by simp)
    simp only [lazyPayload, List.length_append] at hb
    have hs := stepTok_wf t m (.message lp p) hm hlp (by rw [MsgSt.len_eq]; simp only [Tok.len]; omega)
    have h1 : (stepTok (t, m) (.message lp p)).1 = t := by
      cases m with
      | none => rfl
      | some y => rfl
    have hp : (stepTok (t, m) (.message lp p)).2.payload = m.payload ++ p := by
      cases m with
      | none => rfl
      | some y => rfl
    have ih := foldl_lazyMsgs r (stepTok (t, m) (.message lp p)).1 (stepTok (t, m) (.message lp p)).2
      (fun y hy => hv y (by simp [hy])) hs.1 (by rw [hp]; simp only [List.length_append]; omega)
    simp only [lazyMsgs, List.foldl_cons, lazyPayload]
    refine ⟨by rw [ih.1, h1], by rw [ih.2.1, hp, List.append_assoc], ih.2.2⟩

/-- the value delivered for an item whose accumulated message state is `m`, read back by
`ConsumeBytes`: the payload -/
theorem decBytes_finMsg (m : MsgSt) (hm : m.WF) :
    ∃ k, decBytes (finMsg true (repMsg true m)) = .ok (m.payload, k) := by
  cases m with
  | none =>
    have := decBytes_enc (p := []) (by simp) []
    simp only [encBytes, List.append_nil, List.length_nil] at this
    exact ⟨_, by simpa [finMsg, repMsg, MsgSt.payload] using this⟩
  | some x =>
    obtain ⟨lp, p⟩ := x
    have hlp : lp ≠ [] := by
      intro hc; have := IsVarint.length_pos hm; simp [hc] at this
    have hd := decBytes_raw hm []
    simp only [List.append_nil] at hd
    exact ⟨_, by simpa [finMsg, repMsg, MsgSt.payload, hlp] using hd⟩

/-- LAZY ROUND TRIP: decoding the item written for a lazily kept extension (either path) gives the
extension with the payloads of ALL its occurrences appended — exactly what decoding the original
items eagerly gives -/
theorem decodeSet_lazyItem (known : Nat → Bool) (w : Bool) {t : Nat} (rs : List (Bytes × Bytes))
    (h1 : 1 ≤ t) (h2 : t < 2 ^ 31) (hrs : ∀ r ∈ rs, IsVarint r.1 r.2.length)
    (hlen : (lazyPayload rs).length < 2 ^ 64) (hk : known t = true) :
    ∃ b, encodeLazyItem t (lazyRecords t rs) = .ok b ∧
      decodeSet known w b = .ok ⟨[(t, lazyPayload rs)], []⟩ := by
  refine ⟨_, encodeLazyItem_records t rs hrs, ?_⟩
  have hwf : (El.item (.typeId t :: lazyMsgs rs)).WF := by
    refine ⟨?_, ?_⟩
    · intro y hy
      simp only [List.mem_cons] at hy
      rcases hy with rfl | hy
      · exact ⟨h1, h2⟩
      · exact lazyMsgs_wf rs hrs y hy
    · simpa [toksLen, Tok.len, toksLen_lazyMsgs] using hlen
  have hu := unmarshalItems_els true [El.item (.typeId t :: lazyMsgs rs)] (by
    intro x hx
    simp only [List.mem_cons, List.not_mem_nil, or_false] at hx
    subst hx; exact hwf)
  have h0 : t ≠ 0 := by omega
  obtain ⟨f1, f2, f3⟩ := foldl_lazyMsgs rs t none hrs trivial (by simpa [MsgSt.payload] using hlen)
  obtain ⟨k, hk'⟩ := decBytes_finMsg _ f3
  simp only [encEls, List.append_nil] at hu
  unfold decodeSet
  rw [hu]
  simp only [List.filterMap_cons, List.filterMap_nil, El.callback, List.foldl_cons, stepTok, f1, h0, if_false,
    applyItems, applyItem, hk, if_true, hk', Content.empty, mergeItem]
  rw [f2]; rfl

/-- `sizeMessageSet` and `marshalMessageSetField` walk the lazy buffer in lockstep -/
theorem lazySizeLoop_fields (ts : Nat) : ∀ (fuel : Nat) (b lb out : Bytes) (n : Nat),
    lazyFieldsLoop ts fuel b lb = .ok out →
    ∃ k, out.length = b.length + k ∧ lazySizeLoop ts fuel n lb = .ok (n + k)
  | 0, _, _, _, _, h => by simp [lazyFieldsLoop] at h
  | fuel + 1, b, lb, out, n, h => by
    unfold lazyFieldsLoop at h
    unfold lazySizeLoop
    split at h
    · rename_i h0
      simp only [Except.ok.injEq] at h; subst h
      exact ⟨0, by simp, by simp [h0]⟩
    · rename_i h0
      simp only [h0, if_false]
      split at h
      · simp at h
      · rename_i hts
        simp only [hts, if_false]
        simp only [] at h
        split at h
        · simp at h
        · rename_i pl m hm
          obtain ⟨k', hk1, hk2⟩ := lazySizeLoop_fields ts fuel _ _ out (n + (sizeTag fieldMessage + m)) h
          have hle := decBytes_len hm
          refine ⟨sizeTag fieldMessage + m + k', ?_, ?_⟩
          · rw [hk1]
            simp only [List.length_append, List.length_take, sizeTag_eq fieldMessage wBytes]
            omega
          · rw [hk2]; congr 1; omega

theorem encodeLazyItem_length {t : Nat} {lb out : Bytes} (h : encodeLazyItem t lb = .ok out) :
    sizeLazyItem t lb = .ok out.length := by
  unfold encodeLazyItem at h
  split at h
  · simp at h
  · rename_i b hb
    simp only [Except.ok.injEq] at h; subst h
    obtain ⟨k, h1, h2⟩ := lazySizeLoop_fields _ _ _ _ _ (sizeField t) hb
    unfold sizeLazyItem
    rw [h2]
    congr 1
    simp only [appendFieldEnd, appendFieldStart, List.length_append, List.length_nil] at h1 ⊢
    simp only [sizeField, sizeVarint, sizeTag_eq fieldItem wStartGroup, sizeTag_eq fieldTypeID wVarint]
    have := sizeTag_eq fieldItem wEndGroup
    rw [sizeTag_eq fieldItem wStartGroup] at this
    omega

/-! ### historical: the code before the repairs 2afca19 / ff1f95d (regression examples only) -/
namespace Old

/-- `marshalMessageSetField` before 2afca19: `lb[xi.tagsize:]` behind a single message tag -/
def encodeLazyItem (t : Nat) (lb : Bytes) : Bytes :=
  appendFieldEnd (appendFieldStart [] t ++ tag fieldMessage wBytes ++ lb.drop (sizeTag t))

def lazyOthers (t : Nat) : List (Bytes × Bytes) → List Tok
  | [] => []
  | (lp, p) :: r => .other t 2 (lp ++ p) :: lazyOthers t r

theorem encToks_lazyOthers (t : Nat) : ∀ rs, encToks (lazyOthers t rs) = lazyRecords t rs
  | [] => rfl
  | (lp, p) :: r => by simp [lazyOthers, lazyRecords, encToks, Tok.enc, lazyRecord, wBytes, encToks_lazyOthers t r]

theorem encodeLazyItem_records (t : Nat) (lp p : Bytes) (rs : List (Bytes × Bytes)) :
    encodeLazyItem t (lazyRecords t ((lp, p) :: rs)) =
      (El.item (.typeId t :: .message lp p :: lazyOthers t rs)).enc := by
  have hd : (tag t 2 ++ (lp ++ (p ++ lazyRecords t rs))).drop (sizeTag t) = lp ++ (p ++ lazyRecords t rs) := by
    rw [sizeTag_eq t 2]; exact List.drop_left' rfl
  simp only [encodeLazyItem, lazyRecords, lazyRecord, List.append_assoc, appendFieldEnd, appendFieldStart,
    El.enc, encToks, Tok.enc, encToks_lazyOthers, fieldItem, fieldTypeID, fieldMessage, wStartGroup, wVarint,
    wBytes, wEndGroup, List.nil_append, hd]

theorem lazyOthers_wf {t : Nat} (h1 : 1 ≤ t) (h2 : t < 2 ^ 31) (h3 : t ≠ 3) :
    ∀ rs : List (Bytes × Bytes), (∀ r ∈ rs, IsVarint r.1 r.2.length) → ∀ x ∈ lazyOthers t rs, x.WF
  | [], _, x, hx => by simp [lazyOthers] at hx
  | (lp, p) :: r, hv, x, hx => by
    simp only [lazyOthers, List.mem_cons] at hx
    rcases hx with rfl | hx
    · refine ⟨h1, h2, by omega, by omega, by omega, by omega, ?_⟩
      intro rest
      have := decBytes_raw (hv (lp, p) (by simp)) rest
      rw [consumeFieldValue_bytes, List.append_assoc, this]
      simp [Except.map]
    · exact lazyOthers_wf h1 h2 h3 r (fun y hy => hv y (by simp [hy])) x hx

theorem foldl_lazyOthers (t : Nat) (s : Nat × MsgSt) : ∀ rs, (lazyOthers t rs).foldl stepTok s = s
  | [] => rfl
  | (lp, p) :: r => by simp only [lazyOthers, List.foldl_cons, stepTok]; exact foldl_lazyOthers t s r

theorem toksLen_lazyOthers (t : Nat) : ∀ rs, toksLen (lazyOthers t rs) = 0
  | [] => rfl
  | (lp, p) :: r => by simp [lazyOthers, toksLen, Tok.len, toksLen_lazyOthers t r]

/-- the OLD lazily kept form decodes to the FIRST occurrence only -/
theorem decodeSet_lazyItem (known : Nat → Bool) (w : Bool) {t : Nat} {lp p : Bytes} (rs : List (Bytes × Bytes))
    (h1 : 1 ≤ t) (h2 : t < 2 ^ 31) (h3 : t ≠ 3) (h : IsVarint lp p.length)
    (hrs : ∀ r ∈ rs, IsVarint r.1 r.2.length) (hk : known t = true) :
    decodeSet known w (encodeLazyItem t (lazyRecords t ((lp, p) :: rs))) = .ok ⟨[(t, p)], []⟩ := by
  rw [encodeLazyItem_records]
  have hwf : (El.item (.typeId t :: .message lp p :: lazyOthers t rs)).WF := by
    refine ⟨?_, ?_⟩
    · intro y hy
      simp only [List.mem_cons] at hy
      rcases hy with rfl | rfl | hy
      · exact ⟨h1, h2⟩
      · exact h
      · exact lazyOthers_wf h1 h2 h3 rs hrs y hy
    · simpa [toksLen, Tok.len, toksLen_lazyOthers] using h.lt
  have hu := unmarshalItems_els true [El.item (.typeId t :: .message lp p :: lazyOthers t rs)] (by
    intro x hx
    simp only [List.mem_cons, List.not_mem_nil, or_false] at hx
    subst hx; exact hwf)
  have h0 : t ≠ 0 := by omega
  simp only [encEls, List.append_nil] at hu
  unfold decodeSet
  rw [hu]
  have hd := decBytes_raw h []
  simp only [List.append_nil] at hd
  have hlp : lp ≠ [] := by
    intro hc; have := h.length_pos; simp [hc] at this
  simp [El.callback, stepTok, foldl_lazyOthers, h0, finMsg, repMsg, hlp, applyItems, applyItem, hk, Content.empty,
    mergeItem, hd]

/-- the reflection path before ff1f95d: `messageset.Unmarshal(b, false, fn)`, an unresolved item
stored with `AppendBytes(v)` (length prefix rewritten minimally) -/
def applyItemRefl (known : Nat → Bool) (s : Content) (t : Nat) (v : Bytes) : Content :=
  if known t then { s with items := mergeItem s.items t v }
  else { s with unknown := s.unknown ++ tag t wBytes ++ encBytes v }

def decodeSetRefl (known : Nat → Bool) (b : Bytes) : Except Err Content :=
  match unmarshalItems false b with
  | .error e => .error e
  | .ok cs => .ok (cs.foldl (fun s x => applyItemRefl known s x.1 x.2) Content.empty)

theorem decodeSetRefl_rawItem_unknown (known : Nat → Bool) {t : Nat} {lp p : Bytes}
    (h1 : 1 ≤ t) (h2 : t < 2 ^ 31) (h : IsVarint lp p.length) (hk : known t = false) :
    decodeSetRefl known (rawItem t lp p).enc = .ok ⟨[], tag t wBytes ++ encVarint p.length ++ p⟩ := by
  unfold decodeSetRefl
  rw [unmarshalItems_rawItem false h1 h2 h]
  simp [applyItemRefl, hk, Content.empty, encBytes, List.append_assoc]

end Old

/-! ### totality: the loop budgets of the model are never exhausted -/

theorem addMsg_error {w : Bool} {msg : Option Bytes} {raw m : Bytes} {e : Err}
    (h : addMsg w msg raw m = .error e) : e = .panic := by
  unfold addMsg at h
  split at h
  · simp at h
  · split at h
    · split at h
      · simp only [Except.error.injEq] at h; exact h.symm
      · simp at h
    · simp at h

theorem consumeFieldValue_le' {num typ : Nat} {b : Bytes} {d : Int} {n : Nat}
    (h : consumeFieldValue num typ b d = .ok n) : n ≤ b.length := by
  unfold consumeFieldValue at h
  split at h
  · rename_i r hr; subst h; exact (fieldValueLen_le _).1 _ _ _ _ _ hr
  · simp at h

theorem itemLoop_ne_fuel (w : Bool) (ilen : Nat) : ∀ (fuel : Nat) (b : Bytes) (t : Nat) (msg : Option Bytes),
    b.length < fuel → itemLoop w ilen fuel b t msg ≠ .error .fuel
  | 0, _, _, _, h => by omega
  | fuel + 1, b, t, msg, h => by
    unfold itemLoop
    split
    · simp
    · rename_i num wtyp n hn
      have hl := decTag_len hn
      simp only
      split
      · simp
      · split
        · split
          · simp
          · rename_i v k hv
            have := decVarint_len hv
            split
            · simp
            · exact itemLoop_ne_fuel w ilen fuel _ _ _ (by simp only [List.length_drop]; omega)
        · split
          · split
            · simp
            · rename_i m k hm
              split
              · rename_i e he
                rw [addMsg_error he]; simp
              · exact itemLoop_ne_fuel w ilen fuel _ _ _ (by simp only [List.length_drop]; omega)
          · split
            · simp
            · exact itemLoop_ne_fuel w ilen fuel _ _ _ (by simp only [List.length_drop]; omega)

theorem consumeItem_ne_fuel (w : Bool) (b : Bytes) : consumeItem w b ≠ .error .fuel :=
  itemLoop_ne_fuel w _ _ b 0 none (by omega)

theorem itemsLoop_ne_fuel (w : Bool) : ∀ (fuel : Nat) (b : Bytes), b.length < fuel → itemsLoop w fuel b ≠ .error .fuel
  | 0, _, h => by omega
  | fuel + 1, b, h => by
    unfold itemsLoop
    split
    · simp
    · split
      · simp
      · rename_i num wtyp n hn
        have hl := decTag_len hn
        simp only
        split
        · split
          · simp
          · exact itemsLoop_ne_fuel w fuel _ (by simp only [List.length_drop]; omega)
        · split
          · rename_i e he
            intro hc
            simp only [Except.error.injEq] at hc
            subst hc
            exact consumeItem_ne_fuel w _ he
          · have ih := itemsLoop_ne_fuel w fuel (List.drop ‹Nat› (List.drop n b)) (by simp only [List.length_drop]; omega)
            split
            · exact ih
            · split
              · rename_i e he
                intro hc
                simp only [Except.error.injEq] at hc
                subst hc
                exact ih he
              · simp

theorem unmarshalItems_ne_fuel (w : Bool) (b : Bytes) : unmarshalItems w b ≠ .error .fuel :=
  itemsLoop_ne_fuel w _ b (by omega)

theorem appendUnknownLoop_ne_fuel : ∀ (fuel : Nat) (b u : Bytes), u.length < fuel → appendUnknownLoop fuel b u ≠ .error .fuel
  | 0, _, _, h => by omega
  | fuel + 1, b, u, h => by
    unfold appendUnknownLoop
    split
    · simp
    · split
      · simp
      · rename_i num typ n hn
        have hl := decTag_len hn
        split
        · simp
        · simp only
          split
          · simp
          · exact appendUnknownLoop_ne_fuel fuel _ _ (by simp only [List.length_drop]; omega)

end MSet
