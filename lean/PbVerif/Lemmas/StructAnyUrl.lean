import PbVerif.Model.StructAny
/-
Helper lemmas for C45, part B (anypb): `strings.LastIndexByte`, the type-URL suffix, `FullName.IsValid`
excludes '/', `MessageIs` in terms of the suffix.
-/
open Model Model.StructAny

namespace Model.StructAny.Lem

theorem lastIndexByte_none_iff (c : Byte) (s : Str) : lastIndexByte c s = none ↔ c ∉ s := by
  induction s with
  | nil => simp [lastIndexByte]
  | cons b r ih =>
    simp only [lastIndexByte, List.mem_cons, not_or]
    cases h : lastIndexByte c r with
    | some i =>
      have : ¬ c ∉ r := fun hn => by rw [ih.mpr hn] at h; cases h
      simp [this]
    | none =>
      have hr := ih.mp h
      by_cases hb : b = c
      · simp [hb]
      · simp [hb, hr]; exact fun h => hb h.symm

/-- `LastIndexByte` finds the split `s = p ++ c :: n` with `c ∉ n`, and `i = len(p)` -/
theorem lastIndexByte_some {c : Byte} {s : Str} {i : Nat} (h : lastIndexByte c s = some i) :
    ∃ p n, s = p ++ c :: n ∧ p.length = i ∧ c ∉ n := by
  induction s generalizing i with
  | nil => simp [lastIndexByte] at h
  | cons b r ih =>
    simp only [lastIndexByte] at h
    cases hr : lastIndexByte c r with
    | some j =>
      simp only [hr, Option.some.injEq] at h
      obtain ⟨p, n, hs, hl, hn⟩ := ih hr
      exact ⟨b :: p, n, by simp [hs], by simp [hl, h], hn⟩
    | none =>
      simp only [hr] at h
      by_cases hb : b = c
      · simp only [hb, if_true, Option.some.injEq] at h
        exact ⟨[], r, by simp [hb], by simp [h], (lastIndexByte_none_iff c r).mp hr⟩
      · simp [hb] at h

theorem lastIndexByte_append (c : Byte) (p n : Str) (h : c ∉ n) :
    lastIndexByte c (p ++ c :: n) = some p.length := by
  induction p with
  | nil => simp [lastIndexByte, (lastIndexByte_none_iff c n).mpr h]
  | cons b p ih => simp [lastIndexByte, ih]

theorem messageNameRaw_append_slash (p n : Str) (h : SLASH ∉ n) : messageNameRaw (p ++ SLASH :: n) = n := by
  simp only [messageNameRaw, lastIndexByte_append SLASH p n h]
  rw [show p ++ SLASH :: n = (p ++ [SLASH]) ++ n by simp]
  rw [show p.length + 1 = (p ++ [SLASH]).length by simp]
  exact List.drop_left

theorem messageNameRaw_of_noslash {url : Str} (h : SLASH ∉ url) : messageNameRaw url = url := by
  simp [messageNameRaw, (lastIndexByte_none_iff SLASH url).mpr h]

/-- every URL splits as `url = name` (no slash at all) or `url = p ++ "/" ++ name`, with no slash in `name` -/
theorem messageNameRaw_split (url : Str) :
    SLASH ∉ messageNameRaw url ∧
      (url = messageNameRaw url ∨ ∃ p, url = p ++ SLASH :: messageNameRaw url) := by
  cases h : lastIndexByte SLASH url with
  | none =>
    have hn := (lastIndexByte_none_iff SLASH url).mp h
    rw [messageNameRaw_of_noslash hn]
    exact ⟨hn, .inl rfl⟩
  | some i =>
    obtain ⟨p, n, hs, _, hn⟩ := lastIndexByte_some h
    subst hs
    rw [messageNameRaw_append_slash p n hn]
    exact ⟨hn, .inr ⟨p, rfl⟩⟩

theorem messageNameRaw_spec (url n : Str) :
    messageNameRaw url = n ↔ SLASH ∉ n ∧ (url = n ∨ ∃ p, url = p ++ SLASH :: n) := by
  constructor
  · intro h; subst h; exact messageNameRaw_split url
  · rintro ⟨hn, h | ⟨p, h⟩⟩
    · subst h; exact messageNameRaw_of_noslash hn
    · subst h; exact messageNameRaw_append_slash p n hn

theorem fullNameGo_noslash (b : Bool) (s : Str) (h : fullNameGo b s = true) : SLASH ∉ s := by
  induction s generalizing b with
  | nil => simp
  | cons c r ih =>
    simp only [fullNameGo] at h
    simp only [List.mem_cons, not_or]
    split at h
    · simp only [Bool.and_eq_true] at h
      refine ⟨?_, ih _ h.2⟩
      intro hc; subst hc; exact absurd h.1 (by decide)
    · split at h
      · rename_i hd
        refine ⟨?_, ih _ h⟩
        intro hc; subst hc; revert hd; decide
      · simp only [Bool.and_eq_true] at h
        refine ⟨?_, ih _ h.2⟩
        intro hc; subst hc; exact absurd h.1 (by decide)

theorem fullNameValid_noslash {s : Str} (h : fullNameValid s = true) : SLASH ∉ s :=
  fullNameGo_noslash true s h

theorem fullNameValid_ne_nil {s : Str} (h : fullNameValid s = true) : s ≠ [] := by
  intro hs; subst hs; simp [fullNameValid, fullNameGo] at h

/-- `MessageIs` compares exactly the suffix after the last '/' (for names without '/') -/
theorem messageIs_iff (url name : Str) (hn : SLASH ∉ name) :
    messageIs url name = true ↔ messageNameRaw url = name := by
  rw [messageNameRaw_spec]
  simp only [messageIs, Bool.and_eq_true, Bool.or_eq_true, beq_iff_eq, List.isSuffixOf_iff_suffix]
  constructor
  · rintro ⟨⟨p, hp⟩, h⟩
    refine ⟨hn, ?_⟩
    subst hp
    rcases h with h | h
    · left
      simp only [List.length_append] at h
      have : p = [] := List.eq_nil_of_length_eq_zero (by omega)
      simp [this]
    · right
      rcases List.eq_nil_or_concat p with hp | ⟨p', b, hp⟩
      · subst hp; simp at h; exact absurd (List.mem_of_getElem? h) hn
      · subst hp
        refine ⟨p', ?_⟩
        simp only [List.concat_eq_append, List.length_append, List.length_cons, List.length_nil] at h
        rw [show p'.length + (0 + 1) + name.length - name.length - 1 = p'.length by omega] at h
        rw [List.append_assoc, List.getElem?_append_right (Nat.le_refl _)] at h
        simp at h
        simp [h]
  · rintro ⟨_, h | ⟨p, h⟩⟩
    · subst h; exact ⟨List.suffix_refl _, .inl rfl⟩
    · subst h
      refine ⟨⟨p ++ [SLASH], by simp⟩, .inr ?_⟩
      simp only [List.length_append, List.length_cons]
      rw [show p.length + (name.length + 1) - name.length - 1 = p.length by omega]
      rw [List.getElem?_append_right (Nat.le_refl _)]
      simp

end Model.StructAny.Lem
