import PbVerif.Lemmas.MSet
/-
Set-level lemmas for C47: `encodeItem` as an element, the `AppendUnknown` law, the callbacks of
`unmarshalMessageSet` on encoder output, and `Size = length`.
-/
namespace MSet
open Spec

/-- an encoded extension, as an element: `type_id` then `message` with the minimal length prefix -/
def itemEl (x : Nat × Bytes) : El := .item [.typeId x.1, .message (encVarint x.2.length) x.2]

/-- admissible extension: field number 1 … 2^31-1 (what `ConsumeTag`/the type-id check accept),
payload shorter than 2^64 bytes (what a varint length can express) -/
def ItemWF (x : Nat × Bytes) : Prop := 1 ≤ x.1 ∧ x.1 < 2 ^ 31 ∧ x.2.length < 2 ^ 64

theorem encodeItem_eq (t : Nat) (p : Bytes) : encodeItem t p = (itemEl (t, p)).enc := by
  simp [encodeItem, appendFieldEnd, appendFieldStart, itemEl, El.enc, encToks, Tok.enc, encBytes,
    fieldItem, fieldTypeID, fieldMessage, wStartGroup, wVarint, wBytes, wEndGroup]

theorem encodeItems_eq : ∀ l : List (Nat × Bytes), encodeItems l = encEls (l.map itemEl)
  | [] => rfl
  | (t, p) :: r => by simp only [encodeItems, List.map_cons, encEls, encodeItem_eq, encodeItems_eq r]

theorem encodeItems_append : ∀ a b : List (Nat × Bytes), encodeItems (a ++ b) = encodeItems a ++ encodeItems b
  | [], b => rfl
  | (t, p) :: r, b => by simp only [List.cons_append, encodeItems, encodeItems_append r b, List.append_assoc]

theorem itemEl_wf {x : Nat × Bytes} (h : ItemWF x) : (itemEl x).WF := by
  obtain ⟨h1, h2, h3⟩ := h
  refine ⟨?_, ?_⟩
  · intro y hy
    simp only [List.mem_cons, List.not_mem_nil, or_false] at hy
    rcases hy with rfl | rfl
    · exact ⟨h1, h2⟩
    · exact isVarint_enc h3
  · simpa [toksLen, Tok.len] using h3

/-- the value handed to the callback for an encoded extension: the payload, with its (minimal)
length prefix on the fast path -/
def cbValue (w : Bool) (x : Nat × Bytes) : Nat × Bytes := (x.1, if w then encBytes x.2 else x.2)

theorem itemEl_callback (w : Bool) {x : Nat × Bytes} (h : 1 ≤ x.1) : (itemEl x).callback w = some (cbValue w x) := by
  have h0 : x.1 ≠ 0 := by omega
  have hne : (encVarint x.2.length ++ x.2).length ≠ 0 := by
    have := encVarint_length_pos x.2.length; simp only [List.length_append]; omega
  cases w
  · simp [itemEl, El.callback, stepTok, h0, finMsg, repMsg, cbValue]
  · simp only [itemEl, El.callback, List.foldl_cons, List.foldl_nil, stepTok, h0, if_false, finMsg, repMsg,
      if_true, true_and, hne, cbValue, encBytes]

/-- `messageset.Unmarshal` on the encoder's output: one callback per item, in order -/
theorem unmarshalItems_encodeItems (w : Bool) (l : List (Nat × Bytes)) (hwf : ∀ x ∈ l, ItemWF x) :
    unmarshalItems w (encodeItems l) = .ok (l.map (cbValue w)) := by
  rw [encodeItems_eq, unmarshalItems_els w _ (by
    intro y hy
    obtain ⟨x, hx, rfl⟩ := List.mem_map.1 hy
    exact itemEl_wf (hwf x hx))]
  congr 1
  induction l with
  | nil => rfl
  | cons x r ih =>
    have hx := hwf x (by simp)
    simp only [List.map_cons, List.filterMap_cons, itemEl_callback w hx.1]
    rw [ih (fun y hy => hwf y (by simp [hy]))]

/-! ### `AppendUnknown` -/

theorem appendUnknownLoop_encodeUnknown : ∀ (us : List (Nat × Bytes)) (fuel : Nat) (b : Bytes),
    (∀ x ∈ us, ItemWF x) → us.length < fuel →
    appendUnknownLoop fuel b (encodeUnknown us) = .ok (b ++ encodeItems us)
  | [], fuel, b, _, hf => by
    obtain ⟨f, rfl⟩ : ∃ f, fuel = f + 1 := ⟨fuel - 1, by simp at hf; omega⟩
    simp [appendUnknownLoop, encodeUnknown, encodeItems]
  | (t, p) :: r, fuel, b, hwf, hf => by
    obtain ⟨f, rfl⟩ : ∃ f, fuel = f + 1 := ⟨fuel - 1, by simp at hf; omega⟩
    obtain ⟨h1, h2, h3⟩ := hwf (t, p) (by simp)
    have ih := appendUnknownLoop_encodeUnknown r f
      (appendFieldEnd (appendFieldStart b t ++ tag fieldMessage wBytes ++ encBytes p))
      (fun y hy => hwf y (by simp [hy])) (by simp at hf; omega)
    have hne : (tag t 2 ++ (encBytes p ++ encodeUnknown r)).length ≠ 0 := by
      have := tag_length_pos t 2; simp only [List.length_append]; omega
    have hd : (encBytes p ++ encodeUnknown r).drop (encBytes p).length = encodeUnknown r := List.drop_left' rfl
    have htk : (encBytes p ++ encodeUnknown r).take (encBytes p).length = encBytes p := List.take_left' rfl
    simp only [encodeUnknown, wBytes, List.append_assoc, appendUnknownLoop, hne, if_false,
      decTag_tag h1 h2 (by omega : 2 < 8), List.drop_left', decBytes_enc h3, hd, htk, ne_eq, not_true_eq_false]
    simp only [wBytes, List.append_assoc] at ih
    rw [ih]
    simp [encodeItems, encodeItem, appendFieldEnd, appendFieldStart, List.append_assoc, wBytes]

theorem encodeUnknown_length_ge : ∀ us : List (Nat × Bytes), us.length ≤ (encodeUnknown us).length
  | [] => by simp [encodeUnknown]
  | (t, p) :: r => by
    have := encodeUnknown_length_ge r
    have := tag_length_pos t wBytes
    simp only [encodeUnknown, List.length_cons, List.length_append]; omega

/-- the `AppendUnknown` law: unknown records `(t, p)` are re-emitted AS ITEMS -/
theorem appendUnknown_encodeUnknown (b : Bytes) (us : List (Nat × Bytes)) (hwf : ∀ x ∈ us, ItemWF x) :
    appendUnknown b (encodeUnknown us) = .ok (b ++ encodeItems us) :=
  appendUnknownLoop_encodeUnknown us _ b hwf (by have := encodeUnknown_length_ge us; omega)

/-! ### the callbacks of `unmarshalMessageSet` -/

theorem mergeItem_new : ∀ (acc : List (Nat × Bytes)) (t : Nat) (p : Bytes), (∀ a ∈ acc, a.1 ≠ t) →
    mergeItem acc t p = acc ++ [(t, p)]
  | [], _, _, _ => rfl
  | (t', p') :: r, t, p, h => by
    have h1 : ¬ t' = t := h (t', p') (by simp)
    simp only [mergeItem, h1, if_false, List.cons_append]
    rw [mergeItem_new r t p (fun a ha => h a (by simp [ha]))]

theorem applyItems_append (known : Nat → Bool) (w : Bool) : ∀ (a b : List (Nat × Bytes)) (s s' : Content),
    applyItems known w s a = .ok s' → applyItems known w s (a ++ b) = applyItems known w s' b
  | [], b, s, s', h => by simp only [applyItems, Except.ok.injEq] at h; subst h; rfl
  | (t, v) :: r, b, s, s', h => by
    simp only [List.cons_append, applyItems] at h ⊢
    cases hs : applyItem known w s t v with
    | error e => simp [hs] at h
    | ok s1 =>
      simp only [hs] at h ⊢
      exact applyItems_append known w r b s1 s' h

theorem applyItems_known (known : Nat → Bool) (w : Bool) (u : Bytes) : ∀ (l acc : List (Nat × Bytes)),
    (∀ x ∈ l, known x.1 = true ∧ x.2.length < 2 ^ 64) → (acc ++ l).Pairwise (fun a b => a.1 ≠ b.1) →
    applyItems known w ⟨acc, u⟩ (l.map (cbValue true)) = .ok ⟨acc ++ l, u⟩
  | [], acc, _, _ => by simp [applyItems]
  | (t, p) :: r, acc, hk, hp => by
    obtain ⟨hkt, hlen⟩ := hk (t, p) (by simp)
    have hnew : ∀ a ∈ acc, a.1 ≠ t := by
      intro a ha
      exact (List.pairwise_append.1 hp).2.2 a ha (t, p) (by simp)
    have ih := applyItems_known known w u r (acc ++ [(t, p)]) (fun y hy => hk y (by simp [hy]))
      (by simpa [List.append_assoc] using hp)
    simp only [List.append_assoc, List.singleton_append] at ih
    have hd := decBytes_enc hlen []
    simp only [List.append_nil] at hd
    simp only [List.map_cons, applyItems, cbValue, if_true, applyItem, hkt, hd, mergeItem_new acc t p hnew]
    simpa using ih

theorem applyItems_unknown (known : Nat → Bool) (w : Bool) (acc : List (Nat × Bytes)) :
    ∀ (us : List (Nat × Bytes)) (u : Bytes), (∀ x ∈ us, known x.1 = false) →
    applyItems known w ⟨acc, u⟩ (us.map (cbValue true)) = .ok ⟨acc, u ++ encodeUnknown us⟩
  | [], u, _ => by simp [applyItems, encodeUnknown]
  | (t, p) :: r, u, hk => by
    have hkt := hk (t, p) (by simp)
    have ih := applyItems_unknown known w acc r (u ++ tag t wBytes ++ encBytes p) (fun y hy => hk y (by simp [hy]))
    simp only [List.map_cons, applyItems, cbValue, applyItem, hkt, Bool.false_eq_true, if_false, if_true]
    rw [ih]
    simp [encodeUnknown, List.append_assoc]

/-- decoding the encoder's output: the extensions in the order written, the unresolved items as
`(t, bytes)` unknown records — both paths -/
theorem decodeSet_encodeItems (known : Nat → Bool) (w : Bool) (its us : List (Nat × Bytes))
    (hi : ∀ x ∈ its, ItemWF x ∧ known x.1 = true) (hu : ∀ x ∈ us, ItemWF x ∧ known x.1 = false)
    (hd : its.Pairwise (fun a b => a.1 ≠ b.1)) :
    decodeSet known w (encodeItems (its ++ us)) = .ok ⟨its, encodeUnknown us⟩ := by
  unfold decodeSet
  rw [unmarshalItems_encodeItems true (its ++ us) (by
    intro x hx
    rcases List.mem_append.1 hx with h | h
    · exact (hi x h).1
    · exact (hu x h).1)]
  simp only [List.map_append]
  have h1 := applyItems_known known w [] its [] (fun x hx => ⟨(hi x hx).2, (hi x hx).1.2.2⟩) (by simpa using hd)
  have h2 := applyItems_unknown known w its us [] (fun x hx => (hu x hx).2)
  simp only [List.nil_append] at h1 h2
  show applyItems known w Content.empty _ = _
  rw [Content.empty, applyItems_append known w _ _ _ _ h1, h2]

/-! ### `Size = length` -/

theorem encodeItem_length (t : Nat) (p : Bytes) :
    (encodeItem t p).length = sizeField t + sizeTag fieldMessage + sizeBytes p.length := by
  simp only [encodeItem, appendFieldEnd, appendFieldStart, encBytes, List.length_append, List.length_nil,
    sizeField, sizeBytes, sizeVarint, sizeTag_eq fieldItem wStartGroup, sizeTag_eq fieldTypeID wVarint,
    sizeTag_eq fieldMessage wBytes]
  have := sizeTag_eq fieldItem wEndGroup
  rw [sizeTag_eq fieldItem wStartGroup] at this
  omega

theorem encodeItems_length : ∀ l : List (Nat × Bytes), (encodeItems l).length = sizeItems l
  | [] => rfl
  | (t, p) :: r => by
    simp only [encodeItems, sizeItems, List.length_append, encodeItem_length, encodeItems_length r]

theorem sizeItems_perm {a b : List (Nat × Bytes)} (h : a.Perm b) : sizeItems a = sizeItems b := by
  induction h with
  | nil => rfl
  | cons x _ ih => obtain ⟨t, p⟩ := x; simp only [sizeItems, ih]
  | swap x y l => obtain ⟨t, p⟩ := x; obtain ⟨t', p'⟩ := y; simp only [sizeItems]; omega
  | trans _ _ ih1 ih2 => rw [ih1, ih2]

/-- `SizeUnknown` and `AppendUnknown` run in lockstep -/
theorem sizeUnknownLoop_append : ∀ (fuel : Nat) (b u out : Bytes) (n : Nat),
    appendUnknownLoop fuel b u = .ok out →
    ∃ k, out.length = b.length + k ∧ sizeUnknownLoop fuel n u = some (n + k)
  | 0, _, _, _, _, h => by simp [appendUnknownLoop] at h
  | fuel + 1, b, u, out, n, h => by
    unfold appendUnknownLoop at h
    unfold sizeUnknownLoop
    split at h
    · rename_i h0
      simp only [Except.ok.injEq] at h; subst h
      exact ⟨0, by simp, by simp [h0]⟩
    · rename_i h0
      simp only [h0, if_false]
      split at h
      · simp at h
      · rename_i num typ k hk
        split at h
        · simp at h
        · rename_i ht
          simp only [ht, if_false]
          simp only [] at h
          split at h
          · simp at h
          · rename_i pl m hm
            obtain ⟨k', hk1, hk2⟩ := sizeUnknownLoop_append fuel _ _ out
              (n + (sizeField num + sizeTag fieldMessage + m)) h
            have hle := decBytes_len hm
            refine ⟨sizeField num + sizeTag fieldMessage + m + k', ?_, ?_⟩
            · rw [hk1]
              simp only [appendFieldEnd, appendFieldStart, List.length_append, List.length_take, sizeField,
                sizeVarint, sizeTag_eq fieldItem wStartGroup, sizeTag_eq fieldTypeID wVarint,
                sizeTag_eq fieldMessage wBytes]
              have := sizeTag_eq fieldItem wEndGroup
              rw [sizeTag_eq fieldItem wStartGroup] at this
              omega
            · rw [hk2]; congr 1; omega

/-- `SizeUnknown(u)` is the number of bytes `AppendUnknown(b, u)` appends -/
theorem sizeUnknown_append {b u out : Bytes} (h : appendUnknown b u = .ok out) :
    out.length = b.length + sizeUnknown u := by
  obtain ⟨k, h1, h2⟩ := sizeUnknownLoop_append _ b u out 0 h
  simp only [sizeUnknown, h2, h1, Nat.zero_add]

end MSet
