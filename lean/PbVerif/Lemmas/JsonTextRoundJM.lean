import PbVerif.Lemmas.JsonTextMapJ
import PbVerif.Lemmas.JsonTextRoundJ4
import PbVerif.Lemmas.JsonTextTotal
/-
JSON round trip including populated MAP fields: the fragment `RepMsgM` (= `RepMsg wfScalarJ` plus maps with
pairwise distinct keys, entries `{1 ↦ key, 2 ↦ value}`) and the mutual induction.
-/
namespace JT
open Pb

mutual
def RepMsgM (X : SchemaX) (mi : Nat) (limit : Int) : Msg → Prop
  | .mk fs _ =>
    1 ≤ limit ∧ (X.msg mi).wkt = false ∧ (X.msg mi).any = false ∧ OneofExcl (X.msg mi) fs ∧
      RepFieldsM X (X.msg mi) 0 (limit - 1) fs
def RepFieldsM (X : SchemaX) (d : MsgX) (lb : Nat) (limit : Int) : Fields → Prop
  | .nil => True
  | .cons num fv tl =>
    lb ≤ num ∧
    (match d.find num with
     | some fx => RepFValM X fx limit fv
     | none => False) ∧
    RepFieldsM X d (num + 1) limit tl
def RepFValM (X : SchemaX) (fx : FieldX) (limit : Int) : FVal → Prop
  | .one v =>
    fx.f.card ≠ .repeated ∧ fx.f.card ≠ .map ∧ RepValM X fx limit v ∧ ¬ (fx.f.card = .implicit ∧ v.isZero = true)
  | .many vs =>
    vs.isNil = false ∧
    ((fx.f.card = .repeated ∧ RepValsM X fx limit vs) ∨ (fx.f.card = .map ∧ RepEntriesM X fx limit vs))
def RepValM (X : SchemaX) (fx : FieldX) (limit : Int) : Val → Prop
  | .msg m => fx.f.kind.isMessage = true ∧ RepMsgM X fx.f.sub limit m
  | .num n => wfScalarJ fx (.num n) = true
  | .bytes b => wfScalarJ fx (.bytes b) = true
def RepValsM (X : SchemaX) (fx : FieldX) (limit : Int) : Vals → Prop
  | .nil => True
  | .cons v tl => RepValM X fx limit v ∧ RepValsM X fx limit tl
/-- map entries: `{1 ↦ key, 2 ↦ value}` messages, keys of a key kind and pairwise distinct -/
def RepEntriesM (X : SchemaX) (fx : FieldX) (limit : Int) : Vals → Prop
  | .nil => True
  | .cons e tl =>
    (match e with
     | .msg (.mk (.cons n1 (.one k) (.cons n2 (.one v) .nil)) _) =>
       n1 = 1 ∧ n2 = 2 ∧ lookupEntry tl k = none ∧
       (match (X.msg fx.f.sub).find 1, (X.msg fx.f.sub).find 2 with
        | some kf, some vf =>
          keyKindOK kf.f.kind = true ∧ wfScalarJ kf k = true ∧ RepValM X vf limit v
        | _, _ => False)
     | _ => False) ∧
    RepEntriesM X fx limit tl
end

theorem RepFieldsM.sorted {X : SchemaX} {d : MsgX} {limit : Int} :
    ∀ {lb : Nat} {fs : Fields}, RepFieldsM X d lb limit fs → SortedFrom lb fs
  | _, .nil, _ => trivial
  | _, .cons _ _ _, ⟨h1, _, h3⟩ => ⟨h1, RepFieldsM.sorted h3⟩

theorem sTrue_ne_sFalse : sTrue ≠ sFalse := by decide

variable (C : JCodec) (D : DOpts) (X : SchemaX) (o : JOpts)

/-- a map key through `k.String()` and `unmarshalMapKey` -/
theorem key_roundtrip (L : JLaws C) (kf : FieldX) (k : Val) (hk : keyKindOK kf.f.kind = true)
    (hw : wfScalarJ kf k = true) :
    ∃ jk ks, jScalar C o kf k = .ok jk ∧ keyString jk = some ks ∧ dKey C kf ks = .ok k := by
  cases k with
  | msg m => simp [wfScalarJ] at hw
  | bytes b =>
    unfold wfScalarJ at hw
    cases hkk : kf.f.kind <;> simp only [hkk, keyKindOK] at hk hw <;>
      first | (cases hk; done) | (cases hw; done) | skip
    exact ⟨.str b, b, by simp [jScalar, hkk, hw], rfl, by simp [dKey, hkk]⟩
  | num n =>
    unfold wfScalarJ at hw
    cases hkk : kf.f.kind <;> simp only [hkk, keyKindOK] at hk hw <;>
      first | (cases hk; done) | (cases hw; done) | skip
    case bool =>
      have hn : n ≤ 1 := by simpa using hw
      have : n = 0 ∨ n = 1 := by omega
      rcases this with rfl | rfl
      · exact ⟨.bool false, sFalse, by simp [jScalar, hkk], rfl, by simp [dKey, hkk, sTrue_ne_sFalse.symm]⟩
      · exact ⟨.bool true, sTrue, by simp [jScalar, hkk], rfl, by simp [dKey, hkk]⟩
    all_goals
      (simp only [Bool.and_eq_true, decide_eq_true_eq] at hw
       obtain ⟨hn, hr⟩ := hw
       have hs := signed64_range n hn)
    case int32 =>
      have hr' : inRange .int32 (signed64 n) = true := by simpa [goInt, isSigned] using hr
      exact ⟨.num (C.fmtInt (signed64 n)), _, by simp [jScalar, hkk], rfl, by
        simp [dKey, hkk, L.keyInt _ hs.1 (by omega), hr', unsigned64_signed64 n hn]⟩
    case sint32 =>
      have hr' : inRange .sint32 (signed64 n) = true := by simpa [goInt, isSigned] using hr
      exact ⟨.num (C.fmtInt (signed64 n)), _, by simp [jScalar, hkk], rfl, by
        simp [dKey, hkk, L.keyInt _ hs.1 (by omega), hr', unsigned64_signed64 n hn]⟩
    case sfixed32 =>
      have hr' : inRange .sfixed32 (signed64 n) = true := by simpa [goInt, isSigned] using hr
      exact ⟨.num (C.fmtInt (signed64 n)), _, by simp [jScalar, hkk], rfl, by
        simp [dKey, hkk, L.keyInt _ hs.1 (by omega), hr', unsigned64_signed64 n hn]⟩
    case uint32 =>
      have hr' : inRange .uint32 (n : Int) = true := by simpa [goInt, isSigned] using hr
      exact ⟨.num (C.fmtInt (n : Int)), _, by simp [jScalar, hkk], rfl, by
        simp [dKey, hkk, L.keyInt (n : Int) (by omega) (by omega), hr', unsigned64_nat n hn]⟩
    case fixed32 =>
      have hr' : inRange .fixed32 (n : Int) = true := by simpa [goInt, isSigned] using hr
      exact ⟨.num (C.fmtInt (n : Int)), _, by simp [jScalar, hkk], rfl, by
        simp [dKey, hkk, L.keyInt (n : Int) (by omega) (by omega), hr', unsigned64_nat n hn]⟩
    case int64 =>
      have hr' : inRange .int64 (signed64 n) = true := by simpa [goInt, isSigned] using hr
      exact ⟨.str (C.fmtInt (signed64 n)), _, by simp [jScalar, hkk], rfl, by
        simp [dKey, hkk, L.keyInt _ hs.1 (by omega), hr', unsigned64_signed64 n hn]⟩
    case sint64 =>
      have hr' : inRange .sint64 (signed64 n) = true := by simpa [goInt, isSigned] using hr
      exact ⟨.str (C.fmtInt (signed64 n)), _, by simp [jScalar, hkk], rfl, by
        simp [dKey, hkk, L.keyInt _ hs.1 (by omega), hr', unsigned64_signed64 n hn]⟩
    case sfixed64 =>
      have hr' : inRange .sfixed64 (signed64 n) = true := by simpa [goInt, isSigned] using hr
      exact ⟨.str (C.fmtInt (signed64 n)), _, by simp [jScalar, hkk], rfl, by
        simp [dKey, hkk, L.keyInt _ hs.1 (by omega), hr', unsigned64_signed64 n hn]⟩
    case uint64 =>
      have hr' : inRange .uint64 (n : Int) = true := by simpa [goInt, isSigned] using hr
      exact ⟨.str (C.fmtInt (n : Int)), _, by simp [jScalar, hkk], rfl, by
        simp [dKey, hkk, L.keyInt (n : Int) (by omega) (by omega), hr', unsigned64_nat n hn]⟩
    case fixed64 =>
      have hr' : inRange .fixed64 (n : Int) = true := by simpa [goInt, isSigned] using hr
      exact ⟨.str (C.fmtInt (n : Int)), _, by simp [jScalar, hkk], rfl, by
        simp [dKey, hkk, L.keyInt (n : Int) (by omega) (by omega), hr', unsigned64_nat n hn]⟩

end JT
