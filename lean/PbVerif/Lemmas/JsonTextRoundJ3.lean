import PbVerif.Lemmas.JsonTextRoundJ2
/-
JSON round trip, part 3: the field loop over the members that `marshalMessage` prints
(`assemble`: descriptor order, populated and unpopulated fields) rebuilds the normalised field list.
-/
namespace JT
open Pb

variable (C : JCodec) (D : DOpts) (X : SchemaX)

/-- the rendered fields `r` against the message fields: same numbers, every value meets its spec -/
def LSpec (d : MsgX) (limit : Int) (r : List (Nat × JV)) (fs : Fields) (k : Nat) : Prop :=
  match lookupN r k, fs.get? k with
  | some jv, some fv => ∃ fx, d.find k = some fx ∧ FSpec C D X fx limit fv jv
  | none, none => True
  | _, _ => False

/-- what `assemble` prints for one field -/
def memberOf (o : JOpts) (r : List (Nat × JV)) (fx : FieldX) : Option (Str × JV) :=
  match lookupN r fx.f.num with
  | some v => some (outName o fx, v)
  | none => (unpopulated C o fx).map fun v => (outName o fx, v)

theorem assemble_eq (o : JOpts) (d : MsgX) (r : List (Nat × JV)) :
    assemble C o d r = d.fields.filterMap (memberOf C o r) := rfl

/-- loop invariant after the fields `Pre` of the descriptor -/
structure InvJ (d : MsgX) (fs : Fields) (Pre : List FieldX) (s : LoopSt) : Prop where
  acc : ∃ acc, s.m = .mk acc [] ∧ SortedFrom 0 acc ∧
    ∀ k, acc.get? k = if k ∈ Pre.map (·.f.num) then (normFields X d fs).get? k else none
  seen : ∀ n, s.sn.has n = true → n ∈ Pre.map (·.f.num)
  oneofs : ∀ o, s.so.has o = true → ∃ g ∈ Pre, (fs.get? g.f.num).isSome = true ∧ g.oneofIdx = some o

theorem foldE_one {σ α ε : Type} (step : σ → α → Except ε σ) (a : α) (s : σ) :
    foldE step [a] s = step s a := by
  simp only [foldE]
  cases step s a <;> rfl

theorem mem_append_single {α : Type} (x a : α) (l : List α) : x ∈ l ++ [a] ↔ x ∈ l ∨ x = a := by
  simp

/-- one field of the descriptor -/
theorem step_field (o : JOpts) (hS : SchemaJ X o) (L : JLaws C) (mi : Nat) (limit : Int) (fs : Fields)
    (r : List (Nat × JV)) (hR : ∀ k, LSpec C D X (X.msg mi) limit r fs k) (hex : OneofExcl (X.msg mi) fs)
    (Pre : List FieldX) (fx : FieldX) (hmem : fx ∈ (X.msg mi).fields) (hfresh : fx.f.num ∉ Pre.map (·.f.num))
    (hPre : ∀ g ∈ Pre, g ∈ (X.msg mi).fields)
    (s : LoopSt) (hI : InvJ X (X.msg mi) fs Pre s) :
    ∃ s', foldE (dStep C D X mi limit) (memberOf C o r fx).toList s = .ok s' ∧
      InvJ X (X.msg mi) fs (Pre ++ [fx]) s' := by
  obtain ⟨⟨acc, hm, hsort, hget⟩, hseen, hone⟩ := hI
  have hfind := hS.find_self mi fx hmem
  have hgn : acc.get? fx.f.num = none := by rw [hget]; simp [hfresh]
  have hsn : s.sn.has fx.f.num = false := by
    cases h : s.sn.has fx.f.num with
    | false => rfl
    | true => exact absurd (hseen _ h) hfresh
  -- the lookup of the target at this number
  have hT : (normFields X (X.msg mi) fs).get? fx.f.num = (fs.get? fx.f.num).map (normFVal X fx) := by
    rw [get?_normFields, hfind]
    cases fs.get? fx.f.num <;> rfl
  have hacc' : ∀ (acc' : Fields) (tv : Option FVal), (normFields X (X.msg mi) fs).get? fx.f.num = tv →
      (∀ k, acc'.get? k = if k = fx.f.num then tv else acc.get? k) →
      ∀ k, acc'.get? k = if k ∈ (Pre ++ [fx]).map (·.f.num) then (normFields X (X.msg mi) fs).get? k else none := by
    intro acc' tv htv h k
    rw [h k]
    by_cases hk : k = fx.f.num
    · subst hk
      simp [htv]
    · simp only [hk, if_false, List.map_append, List.map_cons, List.map_nil, List.mem_append, List.mem_singleton, or_false]
      rw [hget k]
  have hR' := hR fx.f.num
  unfold LSpec at hR'
  unfold memberOf
  cases hl : lookupN r fx.f.num with
  | some jv =>
    cases hg : fs.get? fx.f.num with
    | none => simp [hl, hg] at hR'
    | some fv =>
      simp only [hl, hg] at hR'
      obtain ⟨fx', hf', hspec⟩ := hR'
      rw [hfind] at hf'
      cases hf'
      obtain ⟨hnn, hdec⟩ := hspec
      simp only [Option.toList, foldE_one]
      obtain ⟨hne, hvm⟩ := hS.plain mi fx hmem
      -- the oneof of this field has not been set
      have hso : ∀ o', fx.f.card ≠ .repeated → fx.f.card ≠ .map → fx.oneofIdx = some o' → s.so.has o' = false := by
        intro o' _ _ ho
        cases h : s.so.has o' with
        | false => rfl
        | true =>
          obtain ⟨g, hgP, hgpop, hgo⟩ := hone o' h
          have := hex g.f.num fx.f.num g fx o' hgpop (by rw [hg]; rfl)
            (hS.find_self mi g (hPre g hgP)) hfind hgo ho
          exact absurd (this ▸ List.mem_map.mpr ⟨g, hgP, rfl⟩) hfresh
      have hno : NoOther (X.msg mi) fx acc := by
        intro o' hfo n fv' hgn' hne' f hf
        rw [pb_find] at hf
        cases hfn : (X.msg mi).find n with
        | none => rw [hfn] at hf; cases hf
        | some g =>
          rw [hfn] at hf
          simp only [Option.map_some, Option.some.injEq] at hf
          subst hf
          intro hgo
          have hgm := (find_mem hfn).1
          have hpop : (fs.get? n).isSome = true := by
            have := hget n
            rw [hgn'] at this
            split at this
            · rw [get?_normFields] at this
              cases hx : fs.get? n with
              | none => rw [hx] at this; cases h2 : (X.msg mi).find n <;> simp [h2] at this
              | some _ => rfl
            · cases this
          have := hex n fx.f.num g fx o' hpop (by rw [hg]; rfl) hfn hfind
            (hS.oneofOK mi g o' hgm hgo) (hS.oneofOK mi fx o' hmem hfo)
          exact hne' this
      unfold dStep
      simp only
      rw [dHead_found_value D X mi limit _ _ _ _ fx (hS.name_self mi fx hmem) hsn (by simp [hnn]) hso]
      simp only
      rw [hm, hdec mi acc hsort hgn hno]
      refine ⟨_, rfl, ⟨⟨_, rfl, sortedFrom_set _ (Nat.zero_le _) hsort, ?_⟩, ?_, ?_⟩⟩
      · apply hacc' _ (some (normFVal X fx fv)) (by rw [hT, hg]; rfl)
        intro k
        rw [get?_set]
        by_cases hk : k = fx.f.num
        · simp [hk]
        · have : ¬ fx.f.num = k := fun e => hk e.symm
          simp [hk, this]
      · intro n hn
        rw [Ints.has_set_iff] at hn
        simp only [List.map_append, List.map_cons, List.map_nil, List.mem_append, List.mem_singleton]
        rcases hn with hn | hn
        · exact .inr hn
        · exact .inl (hseen n hn)
      · intro o' ho'
        simp only at ho'
        have hpopfx : (fs.get? fx.f.num).isSome = true := by rw [hg]; rfl
        split at ho'
        · obtain ⟨g, hgP, h1, h2⟩ := hone o' ho'
          exact ⟨g, by simp [hgP], h1, h2⟩
        · cases hoi : fx.oneofIdx with
          | none =>
            simp only [hoi] at ho'
            obtain ⟨g, hgP, h1, h2⟩ := hone o' ho'
            exact ⟨g, by simp [hgP], h1, h2⟩
          | some o2 =>
            simp only [hoi] at ho'
            rw [Ints.has_set_iff] at ho'
            rcases ho' with h | h
            · subst h
              exact ⟨fx, by simp, hpopfx, hoi⟩
            · obtain ⟨g, hgP, h1, h2⟩ := hone o' h
              exact ⟨g, by simp [hgP], h1, h2⟩
  | none =>
    cases hg : fs.get? fx.f.num with
    | some fv => simp [hl, hg] at hR'
    | none =>
      have hTn : (normFields X (X.msg mi) fs).get? fx.f.num = none := by rw [hT, hg]; rfl
      have hinv : ∀ sn', (∀ n, sn'.has n = true → n = fx.f.num ∨ s.sn.has n = true) →
          InvJ X (X.msg mi) fs (Pre ++ [fx]) ⟨sn', s.so, s.m⟩ := by
        intro sn' hsn'
        refine ⟨⟨acc, hm, hsort, ?_⟩, ?_, ?_⟩
        · apply hacc' acc none hTn
          intro k
          by_cases hk : k = fx.f.num
          · subst hk; simp [hgn]
          · simp [hk]
        · intro n hn
          simp only [List.map_append, List.map_cons, List.map_nil, List.mem_append, List.mem_singleton]
          rcases hsn' n hn with h | h
          · exact .inr h
          · exact .inl (hseen n h)
        · intro o' ho'
          obtain ⟨g, hgP, h1, h2⟩ := hone o' ho'
          exact ⟨g, by simp [hgP], h1, h2⟩
      cases hu : unpopulated C o fx with
      | none =>
        simp only [Option.map_none, Option.toList, foldE]
        exact ⟨s, rfl, hinv s.sn (fun n hn => .inr hn)⟩
      | some dv =>
        simp only [Option.map_some, Option.toList, foldE_one]
        rw [dStep_unpopulated C D X o hS mi limit fx hmem dv hu L s acc hm hsort hgn hsn]
        refine ⟨_, rfl, hinv _ ?_⟩
        intro n hn
        exact (Ints.has_set_iff _ _ _).mp hn

/-- **the loop over everything `assemble` prints** -/
theorem fold_fields (o : JOpts) (hS : SchemaJ X o) (L : JLaws C) (mi : Nat) (limit : Int) (fs : Fields)
    (r : List (Nat × JV)) (hR : ∀ k, LSpec C D X (X.msg mi) limit r fs k) (hex : OneofExcl (X.msg mi) fs) :
    ∀ (Rest Pre : List FieldX) (s : LoopSt), (X.msg mi).fields = Pre ++ Rest → InvJ X (X.msg mi) fs Pre s →
      ∃ s', foldE (dStep C D X mi limit) (Rest.filterMap (memberOf C o r)) s = .ok s' ∧
        InvJ X (X.msg mi) fs (Pre ++ Rest) s'
  | [], Pre, s, _, hI => ⟨s, rfl, by simpa using hI⟩
  | fx :: Rest, Pre, s, hd, hI => by
    have hmem : fx ∈ (X.msg mi).fields := by rw [hd]; simp
    have hnd := hS.nums_nodup mi
    rw [hd] at hnd
    have hfresh : fx.f.num ∉ Pre.map (·.f.num) := by
      simp only [List.map_append, List.map_cons] at hnd
      have := (List.nodup_append.mp hnd).2.2
      intro hin
      exact this _ hin _ (List.mem_cons_self) rfl
    have hPre : ∀ g ∈ Pre, g ∈ (X.msg mi).fields := by
      intro g hg; rw [hd]; simp [hg]
    obtain ⟨s1, h1, hI1⟩ := step_field C D X o hS L mi limit fs r hR hex Pre fx hmem hfresh hPre s hI
    obtain ⟨s2, h2, hI2⟩ := fold_fields o hS L mi limit fs r hR hex Rest (Pre ++ [fx]) s1 (by rw [hd]; simp) hI1
    refine ⟨s2, ?_, by simpa using hI2⟩
    have : (fx :: Rest).filterMap (memberOf C o r) = (memberOf C o r fx).toList ++ Rest.filterMap (memberOf C o r) := by
      simp only [List.filterMap_cons]
      cases memberOf C o r fx <;> rfl
    rw [this, foldE_append, h1]
    exact h2

/-- the decoded message is the normal form -/
theorem dMembers_assemble (o : JOpts) (hS : SchemaJ X o) (L : JLaws C) (mi : Nat) (limit : Int) (fs : Fields)
    (r : List (Nat × JV)) (hsort : SortedFrom 0 fs) (hR : ∀ k, LSpec C D X (X.msg mi) limit r fs k)
    (hex : OneofExcl (X.msg mi) fs) :
    dMembers C D X mi limit (JMembers.ofList (assemble C o (X.msg mi) r)) {} {} Msg.empty =
      .ok (.mk (normFields X (X.msg mi) fs) []) := by
  rw [dMembers_eq_fold, JMembers.toList_ofList, assemble_eq]
  have h0 : InvJ X (X.msg mi) fs [] ⟨{}, {}, Msg.empty⟩ := by
    refine ⟨⟨.nil, rfl, trivial, fun k => by simp [Fields.get?]⟩, ?_, ?_⟩
    · intro n hn; simp [Ints.has_empty] at hn
    · intro o' ho; simp [Ints.has_empty] at ho
  obtain ⟨s', hf, ⟨acc, hm, hs, hget⟩, _, _⟩ :=
    fold_fields C D X o hS L mi limit fs r hR hex (X.msg mi).fields [] _ (by simp) h0
  rw [hf]
  simp only [Except.map, hm]
  congr 2
  apply sorted_ext hs (sortedFrom_normFields X (X.msg mi) hsort)
  intro k
  rw [hget k]
  simp only [List.nil_append]
  split
  · rfl
  · rename_i hk
    rw [get?_normFields]
    cases hfk : (X.msg mi).find k with
    | none => rfl
    | some g =>
      obtain ⟨hgm, hgn⟩ := find_mem hfk
      exact absurd (List.mem_map.mpr ⟨g, hgm, hgn⟩) hk

end JT
