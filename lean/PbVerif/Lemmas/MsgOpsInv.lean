import PbVerif.Model.MsgOps
import PbVerif.Lemmas.MsgInv
/-
Invariants of the reflection operations of Model/MsgOps.lean over arbitrary histories.
-/
namespace Pb
open Spec

/-! ### reflection operations keep the field list sorted and the oneofs exclusive -/

/-- list/map edits are only meaningful on repeated/map fields, which are never oneof members -/
def OpOK (d : MsgD) : Op → Prop
  | .append num _ => ∀ f, d.find num = some f → f.oneof = none
  | .mapPut num _ _ => ∀ f, d.find num = some f → f.oneof = none
  | _ => True

theorem sortedFrom_clearOneofFor {lb : Nat} (d : MsgD) (f : Field) {fs : Fields} (h : fs.sortedFrom lb) :
    (clearOneofFor d f fs).sortedFrom lb := by
  unfold clearOneofFor
  cases f.oneof with
  | none => exact h
  | some o => exact Fields.sortedFrom_clearOneof d o _ h

/-- **fields stay strictly ascending under every operation** -/
theorem step_sorted (d : MsgD) (m : Msg) (op : Op) (h : m.fields.sortedFrom 0) : (step d m op).fields.sortedFrom 0 := by
  cases m with
  | mk fs u =>
  simp only [Msg.fields] at h
  cases op with
  | set num v =>
    simp only [step]
    cases hf : d.find num with
    | none => exact h
    | some f =>
      have hn := MsgD.find_num_eq hf
      cases v with
      | msg x => simp only [Msg.fields]; exact Fields.sortedFrom_set _ (Nat.zero_le _) (sortedFrom_clearOneofFor d f h)
      | num n => simp only [Msg.fields]; exact sortedFrom_setSingular d f _ (Nat.zero_le _) h
      | bytes b => simp only [Msg.fields]; exact sortedFrom_setSingular d f _ (Nat.zero_le _) h
  | clear num => exact Fields.sortedFrom_erase num h
  | mutable num =>
    simp only [step]
    cases hf : d.find num with
    | none => exact h
    | some f =>
      simp only [Msg.fields, Msg.unknown]
      cases hg : (clearOneofFor d f fs).get? num with
      | some x => exact sortedFrom_clearOneofFor d f h
      | none => exact Fields.sortedFrom_set _ (Nat.zero_le _) (sortedFrom_clearOneofFor d f h)
  | append num v => exact sortedFrom_appendList _ (Nat.zero_le _) h
  | listSet num i v =>
    simp only [step, Msg.fields, Msg.unknown]
    cases hg : fs.get? num with
    | none => exact h
    | some fv =>
      cases fv with
      | one x => exact h
      | many vs => exact Fields.sortedFrom_set _ (Nat.zero_le _) h
  | truncate num n =>
    simp only [step, Msg.fields, Msg.unknown]
    cases hg : fs.get? num with
    | none => exact h
    | some fv =>
      cases fv with
      | one x => exact h
      | many vs =>
        cases hn : (vs.takeN n).isNil <;> simp only [hn, Bool.false_eq_true, if_true, if_false, Msg.fields]
        · exact Fields.sortedFrom_set _ (Nat.zero_le _) h
        · exact Fields.sortedFrom_erase num h
  | mapPut num k v => exact Fields.sortedFrom_set _ (Nat.zero_le _) h
  | mapDel num k =>
    simp only [step, Msg.fields, Msg.unknown]
    cases hg : fs.get? num with
    | none => exact h
    | some fv =>
      cases fv with
      | one x => exact h
      | many vs =>
        cases hn : (mapErase vs k).isNil <;> simp only [hn, Bool.false_eq_true, if_true, if_false, Msg.fields]
        · exact Fields.sortedFrom_set _ (Nat.zero_le _) h
        · exact Fields.sortedFrom_erase num h
  | setUnknown b => exact h
  | reset => trivial

/-- setting an already populated field adds no populated field -/
theorem AtMostOne_set_existing {d : MsgD} {fs : Fields} {k : Nat} (fv : FVal) (hk : (fs.get? k).isSome = true)
    (h : AtMostOne d fs) : AtMostOne d (fs.set k fv) := by
  apply AtMostOne_of_subset _ h
  intro n hn
  rw [Fields.get?_set] at hn
  split at hn
  · rename_i e; subst e; exact hk
  · exact hn

theorem AtMostOne_clearOneofFor' {d : MsgD} {fs : Fields} (f : Field) (h : AtMostOne d fs) :
    AtMostOne d (clearOneofFor d f fs) := AtMostOne_clearOneofFor f h

/-- **at most one member of each oneof is populated after every operation** -/
theorem step_atMostOne (d : MsgD) (m : Msg) (op : Op) (hop : OpOK d op) (h : AtMostOne d m.fields) :
    AtMostOne d (step d m op).fields := by
  cases m with
  | mk fs u =>
  simp only [Msg.fields] at h
  cases op with
  | set num v =>
    simp only [step]
    cases hf : d.find num with
    | none => exact h
    | some f =>
      have hn := MsgD.find_num_eq hf
      subst hn
      cases v with
      | msg x =>
        simp only [Msg.fields]
        exact AtMostOne_set _ hf (OthersCleared_clearOneofFor d f fs) (AtMostOne_clearOneofFor f h)
      | num n => exact AtMostOne_setSingular _ hf h
      | bytes b => exact AtMostOne_setSingular _ hf h
  | clear num => exact AtMostOne_erase num h
  | mutable num =>
    simp only [step]
    cases hf : d.find num with
    | none => exact h
    | some f =>
      have hn := MsgD.find_num_eq hf
      subst hn
      simp only [Msg.fields, Msg.unknown]
      cases hg : (clearOneofFor d f fs).get? f.num with
      | some x => exact AtMostOne_clearOneofFor f h
      | none => exact AtMostOne_set _ hf (OthersCleared_clearOneofFor d f fs) (AtMostOne_clearOneofFor f h)
  | append num v =>
    simp only [step, Msg.fields]
    rw [appendList_eq]
    split
    · exact h
    · cases hf : d.find num with
      | none =>
        intro n1 n2 f1 f2 o a1 a2 e1 e2 o1 o2
        rw [Fields.get?_set] at a1 a2
        have b1 : num ≠ n1 := by intro e; subst e; rw [hf] at e1; cases e1
        have b2 : num ≠ n2 := by intro e; subst e; rw [hf] at e2; cases e2
        simp only [b1, b2, if_false] at a1 a2
        exact h n1 n2 f1 f2 o a1 a2 e1 e2 o1 o2
      | some f =>
        have hn := MsgD.find_num_eq hf
        subst hn
        exact AtMostOne_set _ hf (OthersCleared_of_none (hop f hf) fs) h
  | listSet num i v =>
    simp only [step, Msg.fields, Msg.unknown]
    cases hg : fs.get? num with
    | none => exact h
    | some fv =>
      cases fv with
      | one x => exact h
      | many vs => exact AtMostOne_set_existing _ (by simp [hg]) h
  | truncate num n =>
    simp only [step, Msg.fields, Msg.unknown]
    cases hg : fs.get? num with
    | none => exact h
    | some fv =>
      cases fv with
      | one x => exact h
      | many vs =>
        cases hn : (vs.takeN n).isNil <;> simp only [hn, Bool.false_eq_true, if_true, if_false, Msg.fields]
        · exact AtMostOne_set_existing _ (by simp [hg]) h
        · exact AtMostOne_erase num h
  | mapPut num k v =>
    simp only [step, Msg.fields]
    cases hf : d.find num with
    | none =>
      intro n1 n2 f1 f2 o a1 a2 e1 e2 o1 o2
      rw [Fields.get?_set] at a1 a2
      have b1 : num ≠ n1 := by intro e; subst e; rw [hf] at e1; cases e1
      have b2 : num ≠ n2 := by intro e; subst e; rw [hf] at e2; cases e2
      simp only [b1, b2, if_false] at a1 a2
      exact h n1 n2 f1 f2 o a1 a2 e1 e2 o1 o2
    | some f =>
      have hn := MsgD.find_num_eq hf
      subst hn
      exact AtMostOne_set _ hf (OthersCleared_of_none (hop f hf) fs) h
  | mapDel num k =>
    simp only [step, Msg.fields, Msg.unknown]
    cases hg : fs.get? num with
    | none => exact h
    | some fv =>
      cases fv with
      | one x => exact h
      | many vs =>
        cases hn : (mapErase vs k).isNil <;> simp only [hn, Bool.false_eq_true, if_true, if_false, Msg.fields]
        · exact AtMostOne_set_existing _ (by simp [hg]) h
        · exact AtMostOne_erase num h
  | setUnknown b => exact h
  | reset => exact AtMostOne_nil d

/-- all states reachable from the empty message (or from any state with the properties) -/
theorem run_invariants (d : MsgD) : ∀ (ops : List Op) (m : Msg), (∀ op ∈ ops, OpOK d op) →
    m.fields.sortedFrom 0 → AtMostOne d m.fields →
    (run d m ops).fields.sortedFrom 0 ∧ AtMostOne d (run d m ops).fields
  | [], m, _, hs, ha => ⟨hs, ha⟩
  | op :: ops, m, hok, hs, ha => by
    simp only [run, List.foldl_cons]
    exact run_invariants d ops (step d m op) (fun o ho => hok o (by simp [ho])) (step_sorted d m op hs)
      (step_atMostOne d m op (hok op (by simp)) ha)

/-! ### presence -/

/-- an implicit-presence field never stores its zero value -/
def NoImplicitZero (d : MsgD) (fs : Fields) : Prop :=
  ∀ n f v, fs.get? n = some (.one v) → d.find n = some f → f.card = .implicit → v.isZero = false

theorem NoImplicitZero_nil (d : MsgD) : NoImplicitZero d .nil := by
  intro n f v h; simp [Fields.get?] at h

theorem NoImplicitZero_of_subset {d : MsgD} {fs fs' : Fields}
    (hsub : ∀ n v, fs'.get? n = some (.one v) → fs.get? n = some (.one v)) (h : NoImplicitZero d fs) :
    NoImplicitZero d fs' := fun n f v hg => h n f v (hsub n v hg)

theorem NoImplicitZero_erase {d : MsgD} {fs : Fields} (k : Nat) (h : NoImplicitZero d fs) :
    NoImplicitZero d (fs.erase k) := by
  apply NoImplicitZero_of_subset _ h
  intro n v hn; rw [Fields.get?_erase] at hn; split at hn
  · cases hn
  · exact hn

theorem NoImplicitZero_clearOneofFor {d : MsgD} {fs : Fields} (f : Field) (h : NoImplicitZero d fs) :
    NoImplicitZero d (clearOneofFor d f fs) := by
  unfold clearOneofFor
  cases f.oneof with
  | none => exact h
  | some o =>
    apply NoImplicitZero_of_subset _ h
    intro n v hn; rw [Fields.get?_clearOneof] at hn; split at hn
    · cases hn
    · exact hn

theorem NoImplicitZero_set {d : MsgD} {fs : Fields} (k : Nat) {fv : FVal}
    (hv : ∀ v, fv = .one v → ∀ f, d.find k = some f → f.card = .implicit → v.isZero = false)
    (h : NoImplicitZero d fs) : NoImplicitZero d (fs.set k fv) := by
  intro n f v hg hf hc
  rw [Fields.get?_set] at hg
  split at hg
  · rename_i e; subst e
    simp only [Option.some.injEq] at hg
    exact hv v hg f hf hc
  · exact h n f v hg hf hc

theorem NoImplicitZero_setSingular {d : MsgD} {fs : Fields} (f : Field) (hf : d.find f.num = some f) (v : Val)
    (h : NoImplicitZero d fs) : NoImplicitZero d (setSingular d f fs v) := by
  intro n g w hg hg' hc
  rw [get?_setSingular] at hg
  split at hg
  · rename_i e; subst e
    rw [hf] at hg'; cases hg'
    split at hg
    · cases hg
    · rename_i hz
      simp only [Option.some.injEq, FVal.one.injEq] at hg; subst hg
      simpa [hc] using hz
  · split at hg
    · cases hg
    · exact h n g w hg hg' hc

theorem step_noImplicitZero (d : MsgD) (m : Msg) (op : Op) (h : NoImplicitZero d m.fields) :
    NoImplicitZero d (step d m op).fields := by
  cases m with
  | mk fs u =>
  simp only [Msg.fields] at h
  have hmany : ∀ (k : Nat) (vs : Vals) {fs' : Fields}, NoImplicitZero d fs' → NoImplicitZero d (fs'.set k (.many vs)) :=
    fun k vs _ h' => NoImplicitZero_set k (by intro v hv; cases hv) h'
  have hmsg : ∀ (k : Nat) (x : Msg) {fs' : Fields}, NoImplicitZero d fs' → NoImplicitZero d (fs'.set k (.one (.msg x))) :=
    fun k x _ h' => NoImplicitZero_set k (by intro v hv; cases hv; intros; rfl) h'
  cases op with
  | set num v =>
    simp only [step]
    cases hf : d.find num with
    | none => exact h
    | some f =>
      have hn := MsgD.find_num_eq hf
      subst hn
      cases v with
      | msg x => simp only [Msg.fields]; exact hmsg _ x (NoImplicitZero_clearOneofFor f h)
      | num n => exact NoImplicitZero_setSingular f hf _ h
      | bytes b => exact NoImplicitZero_setSingular f hf _ h
  | clear num => exact NoImplicitZero_erase num h
  | mutable num =>
    simp only [step]
    cases hf : d.find num with
    | none => exact h
    | some f =>
      simp only [Msg.fields, Msg.unknown]
      cases hg : (clearOneofFor d f fs).get? num with
      | some x => exact NoImplicitZero_clearOneofFor f h
      | none => exact hmsg _ _ (NoImplicitZero_clearOneofFor f h)
  | append num v =>
    simp only [step, Msg.fields]
    rw [appendList_eq]; split
    · exact h
    · exact hmany _ _ h
  | listSet num i v =>
    simp only [step, Msg.fields, Msg.unknown]
    cases hg : fs.get? num with
    | none => exact h
    | some fv =>
      cases fv with
      | one x => exact h
      | many vs => exact hmany _ _ h
  | truncate num n =>
    simp only [step, Msg.fields, Msg.unknown]
    cases hg : fs.get? num with
    | none => exact h
    | some fv =>
      cases fv with
      | one x => exact h
      | many vs =>
        cases hn : (vs.takeN n).isNil <;> simp only [hn, Bool.false_eq_true, if_true, if_false, Msg.fields]
        · exact hmany _ _ h
        · exact NoImplicitZero_erase num h
  | mapPut num k v => exact hmany _ _ h
  | mapDel num k =>
    simp only [step, Msg.fields, Msg.unknown]
    cases hg : fs.get? num with
    | none => exact h
    | some fv =>
      cases fv with
      | one x => exact h
      | many vs =>
        cases hn : (mapErase vs k).isNil <;> simp only [hn, Bool.false_eq_true, if_true, if_false, Msg.fields]
        · exact hmany _ _ h
        · exact NoImplicitZero_erase num h
  | setUnknown b => exact h
  | reset => exact NoImplicitZero_nil d

theorem run_noImplicitZero (d : MsgD) : ∀ (ops : List Op) (m : Msg), NoImplicitZero d m.fields →
    NoImplicitZero d (run d m ops).fields
  | [], _, h => h
  | op :: ops, m, h => by
    simp only [run, List.foldl_cons]
    exact run_noImplicitZero d ops (step d m op) (step_noImplicitZero d m op h)

/-- binary decoding keeps the oneofs exclusive (top level of the destination; nested messages are
values of their own type and get the same property from their own decode) -/
theorem decField_atMostOne {S : Schema} (hS : schemaOK S = true) {mi : Nat} {m m' : Msg} {f : Field} {wt : Nat}
    {val : List Byte} {depth : Int} {dis : Bool} (fuel : Nat) (hf : (S.msg mi).find f.num = some f)
    (hm : AtMostOne (S.msg mi) m.fields) (h : decField fuel S mi m f wt val depth dis = .ok m') :
    AtMostOne (S.msg mi) m'.fields := by
  have hdecl := schemaOK_find hS hf
  cases m with
  | mk fs u =>
  simp only [Msg.fields] at hm
  cases fuel with
  | zero => simp [decField] at h
  | succ fu =>
  unfold decField at h
  simp only [Msg.fields, Msg.unknown] at h
  split at h
  · rename_i hc
    have ho : f.oneof = none := by
      simp only [fieldDeclOK, hc, true_or, if_true, Bool.and_eq_true, Option.isNone_iff_eq_none] at hdecl
      exact hdecl.1
    repeat' split at h
    all_goals first
      | (cases h; done)
      | (simp only [Step.ok.injEq] at h; subst h; exact AtMostOne_appendList _ hf ho hm)
  · rename_i hc
    have ho : f.oneof = none := by
      simp only [fieldDeclOK, hc, or_true, if_true, Bool.and_eq_true, Option.isNone_iff_eq_none] at hdecl
      exact hdecl.1
    repeat' (first | split at h | (dsimp only at h; split at h))
    all_goals first
      | (cases h; done)
      | (simp only [Step.ok.injEq] at h; subst h
         exact AtMostOne_set _ hf (OthersCleared_of_none ho fs) hm)
  · repeat' (first | split at h | (dsimp only at h; split at h))
    all_goals first
      | (cases h; done)
      | (simp only [Step.ok.injEq] at h; subst h
         first
           | exact AtMostOne_setSingular _ hf hm
           | (have hoc := OthersCleared_clearOneofFor (S.msg mi) f fs
              have hac := AtMostOne_clearOneofFor f hm
              simp only [‹f.oneof = some _›] at hoc hac
              exact AtMostOne_set _ hf hoc hac)
           | (have hoc := OthersCleared_clearOneofFor (S.msg mi) f fs
              have hac := AtMostOne_clearOneofFor f hm
              simp only [‹f.oneof = none›] at hoc hac
              exact AtMostOne_set _ hf hoc hac))

theorem decMsg_atMostOne {S : Schema} (hS : schemaOK S = true) : ∀ (fuel : Nat) (mi : Nat) (m : Msg) (b : List Byte)
    (depth : Int) (dis : Bool) (r : Msg), AtMostOne (S.msg mi) m.fields →
    decMsg fuel S mi m b depth dis = .ok r → AtMostOne (S.msg mi) r.fields
  | 0, _, _, _, _, _, _, _, h => by simp [decMsg] at h
  | fuel + 1, mi, m, b, depth, dis, r, hm, h => by
    unfold decMsg at h
    split at h
    · simp only [Except.ok.injEq] at h; subst h; exact hm
    · split at h
      · cases h
      · rename_i num wt tl ht
        simp only at h
        by_cases hmax : num > maxValidNumber
        · simp [hmax] at h
        · simp only [hmax, if_false] at h
          cases hfind : (S.msg mi).find num with
          | none =>
            simp only [hfind] at h
            split at h
            · cases h
            · refine decMsg_atMostOne hS fuel mi _ _ depth dis r ?_ h
              cases dis <;> simpa [Msg.fields] using hm
          | some f =>
            simp only [hfind] at h
            have hfn := MsgD.find_num_eq hfind
            subst hfn
            cases hstep : decField fuel S mi m f wt (b.drop tl) depth dis with
            | err e => simp [hstep] at h
            | ok m' =>
              simp only [hstep] at h
              split at h
              · cases h
              · exact decMsg_atMostOne hS fuel mi _ _ depth dis r (decField_atMostOne hS fuel hfind hm hstep) h
            | unknown =>
              simp only [hstep] at h
              split at h
              · cases h
              · refine decMsg_atMostOne hS fuel mi _ _ depth dis r ?_ h
                cases dis <;> simpa [Msg.fields] using hm

end Pb
