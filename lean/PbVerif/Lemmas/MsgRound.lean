import PbVerif.Lemmas.MsgDec
import PbVerif.Props.C04
/-
The round trip, value by value: each lemma says that when the rest of the buffer decodes to `R`
from the message extended by one value, then the buffer starting with the encoding of that value
decodes to `R` from the message without it.
-/
namespace Pb
open Spec

/-- the round-trip statement for one message, at any type, budget, depth and discard mode -/
def RoundMsg (S : Schema) (m : Msg) : Prop :=
  ∀ (mi : Nat) (g depth : Int) (dis : Bool), g ≤ defaultRecursionLimit → cwfMsg S mi g m = true →
    (depthMsg m : Int) ≤ depth + 1 →
    DecOK S mi depth dis Msg.empty (encMsg S mi m) (stripMsg dis m)

/-- wire-level facts about group records of declared fields (proved for all schemas in
`Lemmas/MsgGroup.lean`; trivially true of schemas without group fields) -/
def GroupScanOK (S : Schema) : Prop :=
  ∀ (mi : Nat) (f : Field) (g : Int) (sub : Msg) (rest : List Byte), (S.msg mi).find f.num = some f →
    f.kind = .group → g ≤ defaultRecursionLimit →
    1 ≤ f.num → f.num ≤ maxValidNumber →
    cwfVal S g f (.msg sub) = true →
    decSubBytes f 3 ((encMsg S f.sub sub ++ tagBytes f.num 4) ++ rest) = some (.ok (encMsg S f.sub sub)) ∧
    consumeFieldValue f.num 3 ((encMsg S f.sub sub ++ tagBytes f.num 4) ++ rest) =
      .ok (encMsg S f.sub sub ++ tagBytes f.num 4).length

/-- everything the record loop needs to know about the record of a sub-message value -/
theorem val_msg_facts {S : Schema} (hG : GroupScanOK S) {mi : Nat} {f : Field} {g depth : Int} {dis : Bool}
    {sub : Msg} (hfind : (S.msg mi).find f.num = some f) (h1 : 1 ≤ f.num) (h2 : f.num ≤ maxValidNumber)
    (hg : g ≤ defaultRecursionLimit) (hwf : cwfVal S g f (.msg sub) = true) (ih : RoundMsg S sub)
    (hdepth : (depthMsg sub : Int) ≤ depth) :
    ∃ (wt : Nat) (payload body : List Byte), wt < 8 ∧ f.kind.isMessage = true ∧
      encVal S f (.msg sub) = tagBytes f.num wt ++ payload ∧
      (∀ rest, decSubBytes f wt (payload ++ rest) = some (.ok body)) ∧
      (∀ rest, consumeFieldValue f.num wt (payload ++ rest) = .ok payload.length) ∧
      DecOK S f.sub (depth - 1) dis Msg.empty body (stripMsg dis sub) ∧
      body.length + 1 ≤ payload.length ∧ ¬ depth - 1 < 0 := by
  have hpos := depthMsg_pos sub
  have hd : ¬ depth - 1 < 0 := by omega
  have hwf' := hwf
  simp only [cwfVal, Bool.and_eq_true] at hwf
  obtain ⟨hmsg, hwf2⟩ := hwf
  by_cases hgrp : f.kind = .group
  · simp only [hgrp, if_true, Bool.and_eq_true, decide_eq_true_eq] at hwf2
    refine ⟨3, encMsg S f.sub sub ++ tagBytes f.num 4, encMsg S f.sub sub, by omega, hmsg, ?_, ?_, ?_, ?_, ?_, hd⟩
    · simp only [encVal, hgrp, if_true, List.append_assoc]
    · intro rest; exact (hG mi f g sub rest hfind hgrp hg h1 h2 hwf').1
    · intro rest; exact (hG mi f g sub rest hfind hgrp hg h1 h2 hwf').2
    · exact ih f.sub (g - 1) (depth - 1) dis (by omega) hwf2.2 (by omega)
    · have := tagBytes_pos f.num 4; simp only [List.length_append]; omega
  · simp only [hgrp, if_false, Bool.and_eq_true, decide_eq_true_eq] at hwf2
    have hlen : (encMsg S f.sub sub).length < 2 ^ 64 := by rw [← C04.size_eq_length]; exact hwf2.2
    refine ⟨2, encVarint (encMsg S f.sub sub).length ++ encMsg S f.sub sub, encMsg S f.sub sub, by omega, hmsg,
      ?_, ?_, ?_, ?_, ?_, hd⟩
    · simp only [encVal, hgrp, if_false, List.append_assoc]
    · intro rest; rw [List.append_assoc]; exact decSubBytes_message hgrp hlen rest
    · intro rest
      rw [List.append_assoc, consumeFieldValue_bytes, decBytes_enc' hlen]; simp [Except.map]
    · exact ih f.sub defaultRecursionLimit (depth - 1) dis (Int.le_refl _) hwf2.1 (by omega)
    · have := encVarint_length_pos (encMsg S f.sub sub).length; simp only [List.length_append]; omega

theorem encVal_scalar (S : Schema) (f : Field) {v : Val} (h : wfScalar f v = true) :
    encVal S f v = tagBytes f.num f.kind.wireType ++ encScalar f.kind v := by
  cases v with
  | msg m => simp [wfScalar] at h
  | num n => simp only [encVal]
  | bytes b => simp only [encVal]

/-- a singular field -/
theorem one_ok {S : Schema} (hG : GroupScanOK S) {mi : Nat} {f : Field} {g depth : Int} {dis : Bool} {v : Val}
    (hfind : (S.msg mi).find f.num = some f) (h1 : 1 ≤ f.num) (h2 : f.num ≤ maxValidNumber)
    (hg : g ≤ defaultRecursionLimit)
    (hc1 : f.card ≠ .repeated) (hc2 : f.card ≠ .map) (hwf : cwfVal S g f v = true)
    (hz : (f.card == .implicit && v.isZero) = false)
    {acc : Fields} {u rest : List Byte} {R : Except DErr Msg}
    (hacc : acc.allLt f.num) (hfree : ∀ o, f.oneof = some o → oneofFree (S.msg mi) o acc = true)
    (hdepth : (depthVal v : Int) ≤ depth)
    (IH : ∀ sub, v = .msg sub → RoundMsg S sub)
    (hrest : DecTo S mi depth dis (.mk (acc.snoc f.num (.one (stripVal dis v))) u) rest R) :
    DecTo S mi depth dis (.mk acc u) (encVal S f v ++ rest) R := by
  by_cases hm : f.kind.isMessage = true
  · cases v with
    | num n => simp [cwfVal, hm] at hwf
    | bytes b => simp [cwfVal, hm] at hwf
    | msg sub =>
      simp only [depthVal] at hdepth
      obtain ⟨wt, payload, body, hwt, hmsg, henc, hsub, hcons, hdec, hlen, hd⟩ :=
        val_msg_facts hG (dis := dis) hfind h1 h2 hg hwf (IH sub rfl) hdepth
      rw [henc, List.append_assoc]
      refine DecTo_known h1 h2 hwt hfind ?_ (hcons rest) (m' := .mk (acc.snoc f.num (.one (.msg (stripMsg dis sub)))) u) ?_
      · intro fuel hf
        cases fuel with
        | zero => omega
        | succ fu =>
          have htag := tagBytes_pos f.num wt
          simp only [List.length_append] at hf
          rw [decField_singular_msg (m := .mk acc u) (mi := mi) fu hc1 hc2 hmsg (hsub rest) hd hfree (Fields.get?_of_allLt hacc)
            (hdec fu (by omega))]
          simp only [Msg.fields, Msg.unknown, Fields.set_of_allLt _ hacc]
      · simpa only [stripVal] using hrest
  · have hm' : f.kind.isMessage = false := by simpa using hm
    have hs := cwfVal_scalar hm' hwf
    rw [encVal_scalar S f hs, List.append_assoc]
    rw [wfScalar_strip hs] at hrest
    refine DecTo_known h1 h2 (wireType_lt _) hfind ?_ (consume_scalar hs _ rest _) hrest
    intro fuel hf
    cases fuel with
    | zero => omega
    | succ fu =>
      rw [decField_singular_scalar fu hc1 hc2 hm' (decScalar_enc hs rest)]
      simp only [Msg.fields, Msg.unknown, setSingular_acc hacc hfree hz]

/-- one element of a repeated field, written as a record of its own -/
theorem elem_ok {S : Schema} (hG : GroupScanOK S) {mi : Nat} {f : Field} {g depth : Int} {dis : Bool} {v : Val}
    (hfind : (S.msg mi).find f.num = some f) (h1 : 1 ≤ f.num) (h2 : f.num ≤ maxValidNumber)
    (hg : g ≤ defaultRecursionLimit)
    (hc : f.card = .repeated) (hwf : cwfVal S g f v = true)
    {acc : Fields} {u rest : List Byte} {R : Except DErr Msg} (pre : Vals)
    (hacc : acc.allLt f.num)
    (hdepth : (depthVal v : Int) ≤ depth)
    (IH : ∀ sub, v = .msg sub → RoundMsg S sub)
    (hrest : DecTo S mi depth dis (.mk (accWith acc f.num (pre.append (.cons (stripVal dis v) .nil))) u) rest R) :
    DecTo S mi depth dis (.mk (accWith acc f.num pre) u) (encVal S f v ++ rest) R := by
  by_cases hm : f.kind.isMessage = true
  · cases v with
    | num n => simp [cwfVal, hm] at hwf
    | bytes b => simp [cwfVal, hm] at hwf
    | msg sub =>
      simp only [depthVal] at hdepth
      obtain ⟨wt, payload, body, hwt, hmsg, henc, hsub, hcons, hdec, hlen, hd⟩ :=
        val_msg_facts hG (dis := dis) hfind h1 h2 hg hwf (IH sub rfl) hdepth
      rw [henc, List.append_assoc]
      refine DecTo_known h1 h2 hwt hfind ?_ (hcons rest)
        (m' := .mk (accWith acc f.num (pre.append (.cons (.msg (stripMsg dis sub)) .nil))) u) ?_
      · intro fuel hf
        cases fuel with
        | zero => omega
        | succ fu =>
          have htag := tagBytes_pos f.num wt
          simp only [List.length_append] at hf
          rw [decField_repeated_msg fu hc hmsg (hsub rest) hd (hdec fu (by omega))]
          simp only [Msg.fields, Msg.unknown]
          rw [appendList_accWith hacc pre _ (by simp [Vals.isNil])]
      · simpa only [stripVal] using hrest
  · have hm' : f.kind.isMessage = false := by simpa using hm
    have hs := cwfVal_scalar hm' hwf
    rw [encVal_scalar S f hs, List.append_assoc]
    rw [wfScalar_strip hs] at hrest
    refine DecTo_known h1 h2 (wireType_lt _) hfind ?_ (consume_scalar hs _ rest _) hrest
    intro fuel hf
    cases fuel with
    | zero => omega
    | succ fu =>
      rw [decField_repeated_scalar fu hc hm' (decScalar_enc hs rest)]
      simp only [Msg.fields, Msg.unknown]
      rw [appendList_accWith hacc pre _ (by simp [Vals.isNil])]

/-- a repeated field written record by record -/
theorem vals_ok {S : Schema} (hG : GroupScanOK S) {mi : Nat} {f : Field} {g depth : Int} {dis : Bool}
    (hfind : (S.msg mi).find f.num = some f) (h1 : 1 ≤ f.num) (h2 : f.num ≤ maxValidNumber)
    (hg : g ≤ defaultRecursionLimit) (hc : f.card = .repeated)
    {acc : Fields} {u rest : List Byte} {R : Except DErr Msg} (hacc : acc.allLt f.num) :
    ∀ (vs pre : Vals), cwfVals S g f vs = true → (depthVals vs : Int) ≤ depth →
      (∀ sub, sizeOf sub < sizeOf vs → RoundMsg S sub) →
      DecTo S mi depth dis (.mk (accWith acc f.num (pre.append (stripVals dis vs))) u) rest R →
      DecTo S mi depth dis (.mk (accWith acc f.num pre) u) (encVals S f vs ++ rest) R
  | .nil, pre, _, _, _, hrest => by
    simpa [encVals, stripVals, Vals.append_nil] using hrest
  | .cons v tl, pre, hwf, hd, IH, hrest => by
    simp only [cwfVals, Bool.and_eq_true] at hwf
    simp only [depthVals] at hd
    simp only [encVals, List.append_assoc]
    apply elem_ok hG hfind h1 h2 hg hc hwf.1 pre hacc (by omega)
    · intro sub hv; subst hv; apply IH; simp; omega
    · apply vals_ok hG hfind h1 h2 hg hc hacc tl _ hwf.2 (by omega)
      · intro sub hs; apply IH; simp; omega
      · rw [Vals.append_assoc]; simpa [stripVals] using hrest

/-- a repeated numeric field written as one packed record -/
theorem packed_ok {S : Schema} {mi : Nat} {f : Field} {g depth : Int} {dis : Bool}
    (hfind : (S.msg mi).find f.num = some f) (h1 : 1 ≤ f.num) (h2 : f.num ≤ maxValidNumber)
    (hc : f.card = .repeated) (hnum : f.kind.isNumeric = true)
    {acc : Fields} {u rest : List Byte} {R : Except DErr Msg} (hacc : acc.allLt f.num)
    {vs : Vals} (hne : vs.isNil = false) (hwf : cwfVals S g f vs = true)
    (hsize : sizePacked f.kind vs < 2 ^ 64)
    (hrest : DecTo S mi depth dis (.mk (acc.snoc f.num (.many vs)) u) rest R) :
    DecTo S mi depth dis (.mk acc u)
      (tagBytes f.num 2 ++ encVarint (encPacked f.kind vs).length ++ encPacked f.kind vs ++ rest) R := by
  have hlen : (encPacked f.kind vs).length < 2 ^ 64 := by rw [← C04.sizePacked_eq]; exact hsize
  have e : tagBytes f.num 2 ++ encVarint (encPacked f.kind vs).length ++ encPacked f.kind vs ++ rest =
      tagBytes f.num 2 ++ ((encVarint (encPacked f.kind vs).length ++ encPacked f.kind vs) ++ rest) := by
    simp only [List.append_assoc]
  rw [e]
  refine DecTo_known h1 h2 (by omega) hfind ?_ ?_ hrest
  · intro fuel hf
    cases fuel with
    | zero => omega
    | succ fu =>
      rw [List.append_assoc]
      rw [decField_packed fu hc hnum (decBytes_enc' hlen rest) (decPacked_enc hnum vs hwf _ (Nat.le_refl _))]
      simp only [Msg.fields, Msg.unknown]
      have := appendList_accWith hacc .nil vs hne
      rw [accWith_nil, Vals.nil_append_eq, accWith_of_ne hne] at this
      rw [this]
  · rw [List.append_assoc, consumeFieldValue_bytes, decBytes_enc' hlen]; simp [Except.map]

/-- the entry loop succeeds with `R` for every adequate fuel -/
def EntOK (S : Schema) (kf vf : Field) (depth : Int) (dis : Bool) (k v : Option Val) (b : List Byte)
    (R : Except DErr (Option Val × Option Val)) : Prop :=
  ∀ fuel, b.length + 2 ≤ fuel → decEntry fuel S kf vf k v b depth dis = R

theorem EntOK_nil (S : Schema) (kf vf : Field) (depth : Int) (dis : Bool) (k v : Option Val) :
    EntOK S kf vf depth dis k v [] (.ok (k, v)) := by
  intro fuel hf
  cases fuel with
  | zero => omega
  | succ fu => simp [decEntry]

/-- the key record of a map entry -/
theorem EntOK_key {S : Schema} {kf vf : Field} {depth : Int} {dis : Bool} {k v : Option Val} {key : Val}
    {rest : List Byte} {R : Except DErr (Option Val × Option Val)} (hs : wfScalar kf key = true)
    (hrest : EntOK S kf vf depth dis (some key) v rest R) :
    EntOK S kf vf depth dis k v (tagBytes 1 kf.kind.wireType ++ (encScalar kf.kind key ++ rest)) R := by
  intro fuel hf
  cases fuel with
  | zero => omega
  | succ fu =>
    have htag := decTag_enc (num := 1) (typ := kf.kind.wireType) (by omega) (by omega) (wireType_lt _)
      (encScalar kf.kind key ++ rest)
    conv => lhs; unfold decEntry
    split
    · rename_i heq; exact absurd heq (tagBytes_ne_nil _ _ _)
    · unfold tagBytes
      rw [htag]
      have : ¬ 1 > maxValidNumber := by unfold maxValidNumber; omega
      simp only [this, if_false, if_true, List.drop_left, decScalar_enc hs rest, consume_scalar hs 1 rest _]
      apply hrest
      have := tagBytes_pos 1 kf.kind.wireType
      simp only [List.length_append] at hf ⊢; omega

/-- the value record of a map entry, scalar value -/
theorem EntOK_val_scalar {S : Schema} {kf vf : Field} {depth : Int} {dis : Bool} {k v : Option Val} {value : Val}
    {rest : List Byte} {R : Except DErr (Option Val × Option Val)} (hs : wfScalar vf value = true)
    (hrest : EntOK S kf vf depth dis k (some value) rest R) :
    EntOK S kf vf depth dis k v (tagBytes 2 vf.kind.wireType ++ (encScalar vf.kind value ++ rest)) R := by
  intro fuel hf
  cases fuel with
  | zero => omega
  | succ fu =>
    have htag := decTag_enc (num := 2) (typ := vf.kind.wireType) (by omega) (by omega) (wireType_lt _)
      (encScalar vf.kind value ++ rest)
    have hm := wfScalar_not_message hs
    conv => lhs; unfold decEntry
    split
    · rename_i heq; exact absurd heq (tagBytes_ne_nil _ _ _)
    · unfold tagBytes
      rw [htag]
      have : ¬ 2 > maxValidNumber := by unfold maxValidNumber; omega
      have h21 : ¬ (2 = 1) := by omega
      simp only [this, if_false, h21, if_true, hm, Bool.false_eq_true, List.drop_left, decScalar_enc hs rest,
        consume_scalar hs 2 rest _]
      apply hrest
      have := tagBytes_pos 2 vf.kind.wireType
      simp only [List.length_append] at hf ⊢; omega

/-- the value record of a map entry, message value -/
theorem EntOK_val_msg {S : Schema} {kf vf : Field} {depth : Int} {dis : Bool} {k : Option Val} {sub : Msg}
    {wt : Nat} {payload body rest : List Byte} {R : Except DErr (Option Val × Option Val)}
    (hwt : wt < 8) (hm : vf.kind.isMessage = true)
    (hsub : decSubBytes vf wt (payload ++ rest) = some (.ok body))
    (hcons : consumeFieldValue 2 wt (payload ++ rest) = .ok payload.length)
    (hdec : DecOK S vf.sub (depth - 1) dis Msg.empty body sub)
    (hlen : body.length + 1 ≤ payload.length) (hd : ¬ depth - 1 < 0)
    (hrest : EntOK S kf vf depth dis k (some (.msg sub)) rest R) :
    EntOK S kf vf depth dis k (some (.msg Msg.empty)) (tagBytes 2 wt ++ (payload ++ rest)) R := by
  intro fuel hf
  cases fuel with
  | zero => omega
  | succ fu =>
    have htag := decTag_enc (num := 2) (typ := wt) (by omega) (by omega) hwt (payload ++ rest)
    have hpos := tagBytes_pos 2 wt
    simp only [List.length_append] at hf
    conv => lhs; unfold decEntry
    split
    · rename_i heq; exact absurd heq (tagBytes_ne_nil _ _ _)
    · unfold tagBytes
      rw [htag]
      have : ¬ 2 > maxValidNumber := by unfold maxValidNumber; omega
      have h21 : ¬ (2 = 1) := by omega
      simp only [this, if_false, h21, if_true, hm, List.drop_left, hsub, hd, hdec fu (by omega), hcons]
      apply hrest
      omega

theorem cwfEntry_inv {S : Schema} {f kf vf : Field} {v : Val} (h : cwfEntry S f kf vf v = true) :
    ∃ key value, v = .msg (.mk (.cons 1 (.one key) (.cons 2 (.one value) .nil)) []) ∧
      wfScalar kf key = true ∧ cwfVal S 10000 vf value = true ∧
      sizeMsg S f.sub (.mk (.cons 1 (.one key) (.cons 2 (.one value) .nil)) []) < 2 ^ 64 := by
  unfold cwfEntry at h
  split at h
  · rename_i n1 k n2 v u
    simp only [Bool.and_eq_true, beq_iff_eq, List.isEmpty_iff, decide_eq_true_eq] at h
    obtain ⟨⟨⟨⟨⟨e1, e2⟩, eu⟩, hk⟩, hv⟩, hs⟩ := h
    subst e1; subst e2; subst eu
    exact ⟨k, v, rfl, hk, hv, hs⟩
  · simp at h

theorem get?_accWith_cases {acc : Fields} {k : Nat} (hacc : acc.allLt k) (pre : Vals) :
    ((accWith acc k pre).get? k = none ∧ pre = .nil) ∨ (accWith acc k pre).get? k = some (.many pre) := by
  cases hp : pre.isNil with
  | true =>
    have : pre = .nil := Vals.isNil_eq_true.mp hp
    subst this
    left; simp only [accWith_nil, Fields.get?_of_allLt hacc, and_self]
  | false => right; rw [accWith_of_ne hp, Fields.get?_snoc _ hacc]

/-- map field: one entry record -/
theorem decField_map {S : Schema} {mi : Nat} {m : Msg} {f kf vf : Field} {val body : List Byte}
    {depth : Int} {dis : Bool} {n : Nat} {key value : Val} {old : Vals} (fuel : Nat)
    (hc : f.card = .map) (hd : ¬ depth - 1 < 0) (hb : decBytes val = .ok (body, n))
    (hk : (S.msg f.sub).find 1 = some kf) (hv : (S.msg f.sub).find 2 = some vf)
    (hget : (m.fields.get? f.num = none ∧ old = .nil) ∨ m.fields.get? f.num = some (.many old))
    (he : decEntry fuel S kf vf none (if vf.kind.isMessage then some (.msg Msg.empty) else none) body
      (depth - 1) dis = .ok (some key, some value)) :
    decField (fuel + 1) S mi m f 2 val depth dis =
      .ok (.mk (m.fields.set f.num (.many (mapPut old key
        (Msg.mk (.cons 1 (.one key) (.cons 2 (.one value) .nil)) [])))) m.unknown) := by
  unfold decField
  simp only [hc, hd, if_false, ne_eq, not_true_eq_false, hb, hk, hv, he, Option.getD_some]
  rcases hget with ⟨h0, h1⟩ | h0
  · simp only [h0, h1]
  · simp only [h0]

/-- map field: one entry -/
theorem entry_ok {S : Schema} (hG : GroupScanOK S) {mi : Nat} {f kf vf : Field} {depth : Int} {dis : Bool}
    (hfind : (S.msg mi).find f.num = some f) (h1 : 1 ≤ f.num) (h2 : f.num ≤ maxValidNumber)
    (hc : f.card = .map) (hkg : f.kind ≠ .group)
    (hk : (S.msg f.sub).find 1 = some kf) (hv : (S.msg f.sub).find 2 = some vf)
    {acc : Fields} {u rest : List Byte} {R : Except DErr Msg} (pre : Vals) (hacc : acc.allLt f.num) {v : Val}
    (hwf : cwfEntry S f kf vf v = true)
    (hfree : ∀ e k, v = .msg e → entryKey e = some k → keyFree k pre = true)
    (hdepth : (depthVal v : Int) ≤ depth)
    (IH : ∀ sub, sizeOf sub < sizeOf v → RoundMsg S sub)
    (hrest : DecTo S mi depth dis (.mk (accWith acc f.num (pre.append (.cons (stripVal dis v) .nil))) u) rest R) :
    DecTo S mi depth dis (.mk (accWith acc f.num pre) u) (encVal S f v ++ rest) R := by
  obtain ⟨key, value, rfl, hks, hvs, hsz⟩ := cwfEntry_inv hwf
  have hkn := MsgD.find_num_eq hk
  have hvn := MsgD.find_num_eq hv
  have hbody : encMsg S f.sub (.mk (.cons 1 (.one key) (.cons 2 (.one value) .nil)) []) =
      encVal S kf key ++ encVal S vf value := by
    simp only [encMsg, encFields, hk, hv, encFVal, List.append_nil]
  have hlenb : (encVal S kf key ++ encVal S vf value).length < 2 ^ 64 := by
    rw [← hbody, ← C04.size_eq_length]; exact hsz
  have hfk := hfree _ key rfl (by simp [entryKey, Fields.get?])
  simp only [depthVal, depthMsg, depthFields, depthFVal] at hdepth
  have hd : ¬ depth - 1 < 0 := by omega
  -- the entry loop
  have hent : ∀ fuel, (encVal S kf key ++ encVal S vf value).length + 2 ≤ fuel →
      decEntry fuel S kf vf none (if vf.kind.isMessage then some (.msg Msg.empty) else none)
        (encVal S kf key ++ encVal S vf value) (depth - 1) dis = .ok (some key, some (stripVal dis value)) := by
    rw [encVal_scalar S kf hks, hkn, List.append_assoc]
    apply EntOK_key hks
    by_cases hm : vf.kind.isMessage = true
    · simp only [hm, if_true]
      cases value with
      | num n => simp [cwfVal, hm] at hvs
      | bytes b => simp [cwfVal, hm] at hvs
      | msg sub =>
        obtain ⟨wt, payload, body, hwt, hmsg, henc, hsub, hcons, hdec, hlen, hd2⟩ :=
          val_msg_facts hG (dis := dis) (depth := depth - 1) (mi := f.sub) (by rw [hvn]; exact hv) (by omega) (by unfold maxValidNumber; omega)
            (by unfold defaultRecursionLimit; omega) hvs
            (IH sub (by simp; omega)) (by simp only [depthVal] at hdepth; omega)
        rw [henc, hvn]
        have := EntOK_val_msg (kf := kf) (k := some key) (rest := []) hwt hm (hsub []) (hvn ▸ hcons [])
          hdec hlen hd2 (EntOK_nil S kf vf (depth - 1) dis _ _)
        simpa only [List.append_nil, stripVal] using this
    · have hm' : vf.kind.isMessage = false := by simpa using hm
      simp only [hm', Bool.false_eq_true, if_false]
      have hs := cwfVal_scalar hm' hvs
      rw [encVal_scalar S vf hs, hvn, wfScalar_strip hs]
      have := EntOK_val_scalar (kf := kf) (k := some key) (v := none) (rest := []) hs
        (EntOK_nil S kf vf (depth - 1) dis _ _)
      simpa only [List.append_nil] using this
  generalize encVal S kf key ++ encVal S vf value = B at hent hlenb hbody
  have henc : encVal S f (.msg (.mk (.cons 1 (.one key) (.cons 2 (.one value) .nil)) [])) =
      tagBytes f.num 2 ++ (encVarint B.length ++ B) := by
    simp only [encVal, hkg, if_false, hbody, List.append_assoc]
  rw [henc, List.append_assoc]
  refine DecTo_known h1 h2 (by omega) hfind ?_ ?_ hrest
  · intro fuel hf
    cases fuel with
    | zero => omega
    | succ fu =>
      have htag := tagBytes_pos f.num 2
      have hvl := encVarint_length_pos B.length
      simp only [List.length_append] at hf
      rw [List.append_assoc]
      rw [decField_map (m := .mk (accWith acc f.num pre) u) (mi := mi) fu hc hd (decBytes_enc' hlenb rest) hk hv
        (get?_accWith_cases hacc pre) (hent fu (by omega))]
      simp only [Msg.fields, Msg.unknown, mapPut_of_free _ _ hfk]
      rw [set_accWith hacc _ _ (by rw [Vals.isNil_append]; simp [Vals.isNil])]
      simp [stripVal, stripMsg, stripFields, stripFVal, wfScalar_strip hks]
  · rw [List.append_assoc, consumeFieldValue_bytes, decBytes_enc' hlenb]; simp [Except.map]

theorem valBEq_self_of_scalar {f : Field} {v : Val} (h : wfScalar f v = true) : valBEq v v = true := by
  cases v <;> simp [wfScalar, valBEq] at h ⊢

/-- a map field: all entries -/
theorem entries_ok {S : Schema} (hG : GroupScanOK S) {mi : Nat} {f kf vf : Field} {depth : Int} {dis : Bool}
    (hfind : (S.msg mi).find f.num = some f) (h1 : 1 ≤ f.num) (h2 : f.num ≤ maxValidNumber)
    (hc : f.card = .map) (hkg : f.kind ≠ .group)
    (hk : (S.msg f.sub).find 1 = some kf) (hv : (S.msg f.sub).find 2 = some vf)
    {acc : Fields} {u rest : List Byte} {R : Except DErr Msg} (hacc : acc.allLt f.num) :
    ∀ (vs pre : Vals), cwfEntries S f kf vf vs = true →
      (∀ k, keyFree k pre = true ∨ keyFree k vs = true) →
      (depthVals vs : Int) ≤ depth →
      (∀ sub, sizeOf sub < sizeOf vs → RoundMsg S sub) →
      DecTo S mi depth dis (.mk (accWith acc f.num (pre.append (stripVals dis vs))) u) rest R →
      DecTo S mi depth dis (.mk (accWith acc f.num pre) u) (encVals S f vs ++ rest) R
  | .nil, pre, _, _, _, _, hrest => by
    simpa [encVals, stripVals, Vals.append_nil] using hrest
  | .cons v tl, pre, hwf, hK, hd, IH, hrest => by
    simp only [cwfEntries, Bool.and_eq_true] at hwf
    obtain ⟨⟨hwe, hkt⟩, hwt⟩ := hwf
    obtain ⟨key, value, hveq, hks, hvs, hsz⟩ := cwfEntry_inv hwe
    subst hveq
    have hek : entryKey (.mk (.cons 1 (.one key) (.cons 2 (.one value) .nil)) []) = some key := by
      simp [entryKey, Fields.get?]
    simp only [hek] at hkt
    have hself := valBEq_self_of_scalar hks
    simp only [depthVals] at hd
    simp only [encVals, List.append_assoc]
    apply entry_ok hG hfind h1 h2 hc hkg hk hv pre hacc hwe _ (by omega)
    · intro sub hs; apply IH; simp at hs ⊢; omega
    · apply entries_ok hG hfind h1 h2 hc hkg hk hv hacc tl _ hwt _ (by omega)
      · intro sub hs; apply IH; simp; omega
      · rw [Vals.append_assoc]; simpa [stripVals] using hrest
      · intro k
        rw [keyFree_append]
        by_cases hkk : valBEq k key = true
        · have := valBEq_to_eq hkk; subst this; right; exact hkt
        · rcases hK k with hl | hr
          · left
            simp only [hl, Bool.true_and]
            simp [keyFree, stripVal, stripMsg, stripFields, stripFVal, entryKey, Fields.get?, wfScalar_strip hks, hkk]
          · right
            simp only [keyFree, Bool.and_eq_true] at hr; exact hr.2
    · intro e k he hke
      cases he
      rw [hek] at hke; cases hke
      rcases hK key with hl | hr
      · exact hl
      · simp [keyFree, hek, hself] at hr

/-- all records of one field -/
theorem fval_ok {S : Schema} (hG : GroupScanOK S) {mi : Nat} {f : Field} {g depth : Int} {dis : Bool}
    (hfind : (S.msg mi).find f.num = some f) (h1 : 1 ≤ f.num) (h2 : f.num ≤ maxValidNumber)
    (hg : g ≤ defaultRecursionLimit)
    {acc : Fields} {u rest : List Byte} {R : Except DErr Msg} (hacc : acc.allLt f.num)
    (hfree : ∀ o, f.oneof = some o → oneofFree (S.msg mi) o acc = true)
    {fv : FVal} (hwf : cwfFVal S g f fv = true) (hdepth : (depthFVal fv : Int) ≤ depth)
    (IH : ∀ sub, sizeOf sub < sizeOf fv → RoundMsg S sub)
    (hrest : DecTo S mi depth dis (.mk (acc.snoc f.num (stripFVal dis fv)) u) rest R) :
    DecTo S mi depth dis (.mk acc u) (encFVal S f fv ++ rest) R := by
  cases fv with
  | one v =>
    simp only [cwfFVal, Bool.and_eq_true, bne_iff_ne, ne_eq, Bool.not_eq_true'] at hwf
    obtain ⟨⟨⟨hc1, hc2⟩, hv⟩, hz⟩ := hwf
    simp only [encFVal]
    simp only [depthFVal] at hdepth
    apply one_ok hG hfind h1 h2 hg hc1 hc2 hv hz hacc hfree hdepth
    · intro sub hs; subst hs; apply IH; simp; omega
    · simpa only [stripFVal] using hrest
  | many vs =>
    simp only [cwfFVal, Bool.and_eq_true, Bool.not_eq_true'] at hwf
    obtain ⟨hne, hwf⟩ := hwf
    simp only [depthFVal] at hdepth
    simp only [stripFVal] at hrest
    have hsne : (stripVals dis vs).isNil = false := by rw [stripVals_isNil]; exact hne
    have hIH : ∀ sub, sizeOf sub < sizeOf vs → RoundMsg S sub := by
      intro sub hs; apply IH; simp; omega
    cases hc : f.card with
    | optional => simp [hc] at hwf
    | implicit => simp [hc] at hwf
    | required => simp [hc] at hwf
    | repeated =>
      simp only [hc, Bool.and_eq_true] at hwf
      obtain ⟨hvs, hpk⟩ := hwf
      simp only [encFVal, hne, Bool.not_false, Bool.and_true]
      by_cases hp : (f.packed && f.kind.isNumeric) = true
      · simp only [hp, if_true] at ⊢
        simp only [Bool.and_eq_true] at hp
        simp only [hp, and_self, if_true, decide_eq_true_eq] at hpk
        have hm := isMessage_false_of_numeric hp.2
        rw [stripVals_scalars hm dis vs hvs] at hrest
        exact packed_ok hfind h1 h2 hc hp.2 hacc hne hvs hpk hrest
      · simp only [hp]
        have := vals_ok hG hfind h1 h2 hg hc hacc (u := u) (rest := rest) (R := R) (dis := dis) vs .nil hvs hdepth hIH
        rw [accWith_nil, Vals.nil_append_eq, accWith_of_ne hsne] at this
        exact this hrest
    | map =>
      simp only [hc, Bool.and_eq_true, beq_iff_eq] at hwf
      obtain ⟨hkm, hwf⟩ := hwf
      have hkg : f.kind ≠ .group := by rw [hkm]; decide
      split at hwf
      · rename_i kf vf hk hv
        have hpk : (f.packed && f.kind.isNumeric && !vs.isNil) = false := by
          simp [hkm, Kind.isNumeric]
        simp only [encFVal, hpk, Bool.false_eq_true, if_false]
        have := entries_ok hG hfind h1 h2 hc hkg hk hv hacc (u := u) (rest := rest) (R := R) (dis := dis)
          vs .nil hwf (fun k => Or.inl (by simp [keyFree])) hdepth hIH
        rw [accWith_nil, Vals.nil_append_eq, accWith_of_ne hsne] at this
        exact this hrest
      · simp at hwf

/-- the record loop over a field list (the decoder-loop invariant) -/
theorem fields_ok {S : Schema} (hG : GroupScanOK S) {mi : Nat} {g depth : Int} {dis : Bool}
    (hg : g ≤ defaultRecursionLimit) {u rest : List Byte} {R : Except DErr Msg} :
    ∀ (fs : Fields) (lb : Nat) (acc : Fields), 1 ≤ lb → cwfFields S (S.msg mi) g lb fs = true →
      acc.allLt lb →
      (∀ o, oneofFree (S.msg mi) o acc = true ∨ oneofFree (S.msg mi) o fs = true) →
      (depthFields fs : Int) ≤ depth →
      (∀ sub, sizeOf sub < sizeOf fs → RoundMsg S sub) →
      DecTo S mi depth dis (.mk (acc.append (stripFields dis fs)) u) rest R →
      DecTo S mi depth dis (.mk acc u) (encFields S (S.msg mi) fs ++ rest) R
  | .nil, lb, acc, _, _, _, _, _, _, hrest => by
    simpa [encFields, stripFields, Fields.append_nil] using hrest
  | .cons num fv tl, lb, acc, hlb, hwf, hacc, hO, hd, IH, hrest => by
    simp only [cwfFields, Bool.and_eq_true, decide_eq_true_eq] at hwf
    obtain ⟨⟨⟨hl, hmax⟩, hf⟩, htl⟩ := hwf
    cases hfind : (S.msg mi).find num with
    | none => simp [hfind] at hf
    | some f =>
      simp only [hfind, Bool.and_eq_true] at hf
      obtain ⟨hfv, hone⟩ := hf
      have hn := MsgD.find_num_eq hfind
      subst hn
      simp only [depthFields] at hd
      simp only [encFields, hfind, List.append_assoc]
      have hacc' : acc.allLt f.num := Fields.allLt_mono hl hacc
      have hfree : ∀ o, f.oneof = some o → oneofFree (S.msg mi) o acc = true := by
        intro o ho
        rcases hO o with h | h
        · exact h
        · simp [oneofFree, hfind, ho] at h
      apply fval_ok hG hfind (by omega) hmax hg hacc' hfree hfv (by omega)
      · intro sub hs; apply IH; simp; omega
      · apply fields_ok hG hg tl (f.num + 1) _ (by omega) htl (Fields.allLt_snoc (by omega) _ hacc') _ (by omega)
        · intro sub hs; apply IH; simp; omega
        · rw [Fields.snoc_append]; simpa [stripFields] using hrest
        · intro o
          rw [oneofFree_snoc]
          by_cases ho : f.oneof = some o
          · right; simpa [ho] using hone
          · rcases hO o with h | h
            · left; simp [h, oneofFree, hfind, ho]
            · right; simp only [oneofFree, Bool.and_eq_true] at h; exact h.2

/-- **the round trip for every message** (given the wire-level group facts) -/
theorem roundMsg_all {S : Schema} (hG : GroupScanOK S) : ∀ (n : Nat) (m : Msg), sizeOf m ≤ n → RoundMsg S m
  | 0, m, h => by cases m; simp at h
  | n + 1, .mk fs unk, h => by
    intro mi g depth dis hg hwf hd
    simp only [cwfMsg, Bool.and_eq_true] at hwf
    simp only [depthMsg] at hd
    simp only [encMsg, stripMsg]
    apply fields_ok hG hg fs 1 .nil (Nat.le_refl _) hwf.1 trivial (fun o => Or.inl rfl) (by omega)
    · intro sub hs; apply roundMsg_all hG n; simp at h; omega
    · have := unk_loop S mi depth dis g hg _ unk (stripFields dis fs) [] hwf.2
      simpa using this

theorem roundMsg {S : Schema} (hG : GroupScanOK S) (m : Msg) : RoundMsg S m :=
  roundMsg_all hG (sizeOf m) m (Nat.le_refl _)

end Pb
