import PbVerif.Lemmas.RegistryRefine
/-
C33 helper lemmas, part 3: `FindDescriptorByName` (prefix walk + `findDescriptorInMessage`) computes
the abstract lookup "the declaration with that full name among all declarations of accepted files".
-/
namespace Model.Registry

theorem findLoop_some {D : List (FullName × Entry)} {name : FullName} {ps : List FullName} {d : Desc}
    (h : findLoop D name ps = some d) :
    ∃ p ∈ ps, ∃ e, alLookup p D = some e ∧ resolve e name (name.drop p.length) = some d := by
  induction ps with
  | nil => simp [findLoop] at h
  | cons p ps ih =>
    simp only [findLoop] at h
    cases hl : alLookup p D with
    | some e =>
      rw [hl] at h
      exact ⟨p, List.mem_cons_self, e, hl, h⟩
    | none =>
      rw [hl] at h
      obtain ⟨p', hp', e, h1, h2⟩ := ih h
      exact ⟨p', List.mem_cons_of_mem _ hp', e, h1, h2⟩

theorem findLoop_first {D : List (FullName × Entry)} {name : FullName} (ps : List FullName)
    (x : FullName) (e : Entry) (pw : ps.Pairwise (fun a b => b.length < a.length)) (hx : x ∈ ps)
    (he : alLookup x D = some e) (hlong : ∀ y ∈ ps, x.length < y.length → alLookup y D = none) :
    findLoop D name ps = resolve e name (name.drop x.length) := by
  induction ps with
  | nil => cases hx
  | cons q r ih =>
    rw [List.pairwise_cons] at pw
    simp only [findLoop]
    rcases List.mem_cons.mp hx with e' | e'
    · subst e'; rw [he]
    · rw [hlong q List.mem_cons_self (pw.1 x e')]
      exact ih pw.2 e' (fun y hy => hlong y (List.mem_cons_of_mem _ hy))

theorem findLoop_nil (name : FullName) (ps : List FullName) : findLoop [] name ps = none := by
  induction ps with
  | nil => rfl
  | cons p ps ih => simp [findLoop, alLookup, ih]

theorem mem_fileDecls (f : FileD) (d : Desc) :
    d ∈ f.decls ↔
      (∃ en ∈ f.enums, d = ⟨.enum, f.pkg ++ [en.name]⟩ ∨ ∃ v ∈ en.values, d = ⟨.enumValue, f.pkg ++ [v]⟩) ∨
      (∃ m ∈ f.msgs.toList, d ∈ m.decls f.pkg) ∨
      (∃ x ∈ f.exts, d = ⟨.extension, f.pkg ++ [x.name]⟩) ∨
      (∃ s ∈ f.svcs, d = ⟨.service, f.pkg ++ [s.name]⟩ ∨ ∃ m ∈ s.methods, d = ⟨.method, f.pkg ++ [s.name] ++ [m]⟩) := by
  simp only [FileD.decls, List.mem_append, List.mem_flatMap, enumDecls, svcDecls, List.mem_cons,
    List.mem_map, MsgL.decls_eq]
  constructor
  · rintro (((⟨en, hen, (h | ⟨v, hv, rfl⟩)⟩ | h) | ⟨x, hx, rfl⟩) | ⟨sv, hs, (h | ⟨m, hm, rfl⟩)⟩)
    · exact Or.inl ⟨en, hen, Or.inl h⟩
    · exact Or.inl ⟨en, hen, Or.inr ⟨v, hv, rfl⟩⟩
    · exact Or.inr (Or.inl h)
    · exact Or.inr (Or.inr (Or.inl ⟨x, hx, rfl⟩))
    · exact Or.inr (Or.inr (Or.inr ⟨sv, hs, Or.inl h⟩))
    · exact Or.inr (Or.inr (Or.inr ⟨sv, hs, Or.inr ⟨m, hm, rfl⟩⟩))
  · rintro (⟨en, hen, (h | ⟨v, hv, rfl⟩)⟩ | h | ⟨x, hx, rfl⟩ | ⟨sv, hs, (h | ⟨m, hm, rfl⟩)⟩)
    · exact Or.inl (Or.inl (Or.inl ⟨en, hen, Or.inl h⟩))
    · exact Or.inl (Or.inl (Or.inl ⟨en, hen, Or.inr ⟨v, hv, rfl⟩⟩))
    · exact Or.inl (Or.inl (Or.inr h))
    · exact Or.inl (Or.inr ⟨x, hx, rfl⟩)
    · exact Or.inr ⟨sv, hs, Or.inl h⟩
    · exact Or.inr ⟨sv, hs, Or.inr ⟨m, hm, rfl⟩⟩

/-- whatever the type switch of FindDescriptorByName returns for a top-level entry of `g` is a
declaration of `g` with the requested full name -/
theorem resolve_sound {g : FileD} {k : FullName} {e : Entry} {name : FullName} {suffix : List Name} {d : Desc}
    (hm : (k, e) ∈ topEntries g) (h : resolve e name suffix = some d) :
    d ∈ g.decls ∧ d.full = name := by
  rw [mem_fileDecls]
  rcases (mem_topEntries g k e).mp hm with ⟨en, hen, (⟨rfl, rfl⟩ | ⟨v, hv, rfl, rfl⟩)⟩ | ⟨m, hmm, rfl, rfl⟩ |
    ⟨x, hx, rfl, rfl⟩ | ⟨sv, hs, rfl, rfl⟩
  · simp only [resolve] at h
    split at h
    · rename_i e'; cases h; exact ⟨Or.inl ⟨en, hen, Or.inl rfl⟩, e'⟩
    · cases h
  · simp only [resolve] at h
    split at h
    · rename_i e'; cases h; exact ⟨Or.inl ⟨en, hen, Or.inr ⟨v, hv, rfl⟩⟩, e'⟩
    · cases h
  · simp only [resolve] at h
    split at h
    · rename_i e'; cases h
      refine ⟨Or.inr (Or.inl ⟨m, hmm, ?_⟩), e'⟩
      rw [MsgD.mem_decls]; exact Or.inl rfl
    · split at h
      · rename_i d' hd'
        split at h
        · rename_i e'; cases h
          exact ⟨Or.inr (Or.inl ⟨m, hmm, (findInMsg_sound _ m g.pkg _ d hd').1⟩), e'⟩
        · cases h
      · cases h
  · simp only [resolve] at h
    split at h
    · rename_i e'; cases h; exact ⟨Or.inr (Or.inr (Or.inl ⟨x, hx, rfl⟩)), e'⟩
    · cases h
  · simp only [resolve] at h
    split at h
    · rename_i e'; cases h; exact ⟨Or.inr (Or.inr (Or.inr ⟨sv, hs, Or.inl rfl⟩)), e'⟩
    · split at h
      · rename_i hmem
        split at h
        · rename_i e'; cases h
          exact ⟨Or.inr (Or.inr (Or.inr ⟨sv, hs, Or.inr ⟨_, hmem, rfl⟩⟩)), e'⟩
        · cases h
      · cases h

namespace Spec

theorem entry_of_top {a : List FileD} (v : Valid a) {g : FileD} (hg : g ∈ a) {K : FullName} {e : Entry}
    (hm : (K, e) ∈ topEntries g) : entry a K = some e :=
  entry_of_decl (alLookup_of_mem_nodup v.keys (List.mem_flatMap.mpr ⟨g, hg, hm⟩))

/-- nothing is registered strictly below a declaration -/
theorem entry_none_above {a : List FileD} (v : Valid a) {g : FileD} (hg : g ∈ a) {K : FullName} {e : Entry}
    (hm : (K, e) ∈ topEntries g) {q : FullName} (hq : q ≠ []) : entry a (K ++ q) = none := by
  rw [entry_eq_none_iff]
  have hK : K ∈ declNames a := mem_declNames.mpr ⟨g, hg, e, hm⟩
  have hKne : K ≠ [] := declNames_ne_nil hK
  have hKp := v.disj K hK
  rintro (h | h | h)
  · obtain ⟨g', hg', e', hm'⟩ := mem_declNames.mp h
    obtain ⟨n, hn⟩ := topEntries_key hm'
    obtain ⟨q', z, rfl⟩ := eq_concat_of_ne_nil q hq
    rw [← List.append_assoc] at hn
    have := (List.append_inj' hn (by simp)).1
    exact hKp (mem_pkgNames.mpr ⟨g', hg', hKne, this ▸ List.prefix_append K q'⟩)
  · simp [hKne] at h
  · obtain ⟨g', hg', _, hp⟩ := mem_pkgNames.mp h
    exact hKp (mem_pkgNames.mpr ⟨g', hg', hKne, (List.prefix_append K q).trans hp⟩)

end Spec

theorem find_at {D : List (FullName × Entry)} {name : FullName} {e : Entry} (hne : name ≠ [])
    (h : alLookup name D = some e) : findLoop D name (prefixesDesc name) = resolve e name [] := by
  rw [prefixesDesc_ne_nil _ hne]
  simp [findLoop, h]

theorem find_below {a : List FileD} {D : List (FullName × Entry)} (hD : ∀ k, alLookup k D = Spec.entry a k)
    (v : Spec.Valid a) {g : FileD} (hg : g ∈ a) {K : FullName} {e : Entry} (hm : (K, e) ∈ topEntries g)
    {s : List Name} (_hs : s ≠ []) :
    findLoop D (K ++ s) (prefixesDesc (K ++ s)) = resolve e (K ++ s) s := by
  have hKne : K ≠ [] := topEntries_key_ne_nil (List.mem_map.mpr ⟨(K, e), hm, rfl⟩)
  have := findLoop_first (D := D) (name := K ++ s) (prefixesDesc (K ++ s)) K e (prefixesDesc_pairwise _)
    ((mem_prefixesDesc _ _).mpr ⟨hKne, List.prefix_append K s⟩)
    (by rw [hD]; exact Spec.entry_of_top v hg hm)
    (by
      intro y hy hlen
      have hyp := ((mem_prefixesDesc _ _).mp hy).2
      have hKy : K <+: y := List.prefix_of_prefix_length_le (List.prefix_append K s) hyp (Nat.le_of_lt hlen)
      obtain ⟨q, rfl⟩ := hKy
      have hq : q ≠ [] := by intro e'; subst e'; simp at hlen
      rw [hD]; exact Spec.entry_none_above v hg hm hq)
  rw [this, List.drop_left]

theorem find_complete {a : List FileD} {D : List (FullName × Entry)} (hD : ∀ k, alLookup k D = Spec.entry a k)
    (v : Spec.Valid a) {g : FileD} (hg : g ∈ a) {d : Desc} (hd : d ∈ g.decls) :
    findLoop D d.full (prefixesDesc d.full) = some d := by
  have top : ∀ {K : FullName} {e : Entry}, (K, e) ∈ topEntries g →
      findLoop D K (prefixesDesc K) = resolve e K [] := by
    intro K e hm
    have hKne : K ≠ [] := topEntries_key_ne_nil (List.mem_map.mpr ⟨(K, e), hm, rfl⟩)
    exact find_at hKne (by rw [hD]; exact Spec.entry_of_top v hg hm)
  rcases (mem_fileDecls g d).mp hd with ⟨en, hen, (rfl | ⟨w, hw, rfl⟩)⟩ | ⟨m, hmm, hdm⟩ | ⟨x, hx, rfl⟩ |
    ⟨sv, hs, (rfl | ⟨m, hmm, rfl⟩)⟩
  · rw [top ((mem_topEntries g _ _).mpr (Or.inl ⟨en, hen, Or.inl ⟨rfl, rfl⟩⟩))]
    simp [resolve]
  · rw [top ((mem_topEntries g _ _).mpr (Or.inl ⟨en, hen, Or.inr ⟨w, hw, rfl, rfl⟩⟩))]
    simp [resolve]
  · have hmE : (g.pkg ++ [m.name], Entry.message (g.pkg ++ [m.name]) m) ∈ topEntries g :=
      (mem_topEntries g _ _).mpr (Or.inr (Or.inl ⟨m, hmm, rfl, rfl⟩))
    have wfm : m.wf = true := ((Spec.FileD.wf_iff g).mp (v.wf g hg)).2 m hmm
    rcases MsgD.findInMsg_complete m g.pkg d wfm hdm with rfl | ⟨n, rest, h1, h2⟩
    · rw [top hmE]; simp [resolve]
    · rw [h1, find_below hD v hg hmE (by simp)]
      have hne : ¬ g.pkg ++ [m.name] = g.pkg ++ [m.name] ++ n :: rest := by
        intro e
        have := congrArg List.length e
        simp at this
      simp only [resolve, hne, if_false, popName, h2, h1, if_true]
  · rw [top ((mem_topEntries g _ _).mpr (Or.inr (Or.inr (Or.inl ⟨x, hx, rfl, rfl⟩))))]
    simp [resolve]
  · rw [top ((mem_topEntries g _ _).mpr (Or.inr (Or.inr (Or.inr ⟨sv, hs, rfl, rfl⟩))))]
    simp [resolve]
  · have hsE : (g.pkg ++ [sv.name], Entry.svc (g.pkg ++ [sv.name]) sv) ∈ topEntries g :=
      (mem_topEntries g _ _).mpr (Or.inr (Or.inr (Or.inr ⟨sv, hs, rfl, rfl⟩)))
    show findLoop D (g.pkg ++ [sv.name] ++ [m]) (prefixesDesc (g.pkg ++ [sv.name] ++ [m])) = _
    rw [find_below hD v hg hsE (by simp)]
    have hne : ¬ g.pkg ++ [sv.name] = g.pkg ++ [sv.name] ++ [m] := by
      intro e
      have := congrArg List.length e
      simp at this
    simp only [resolve, hne, if_false, popName, hmm, if_true]

theorem find_sound {a : List FileD} {D : List (FullName × Entry)} (hD : ∀ k, alLookup k D = Spec.entry a k)
    {name : FullName} {d : Desc} (h : findLoop D name (prefixesDesc name) = some d) :
    d.full = name ∧ ∃ g ∈ a, d ∈ g.decls := by
  obtain ⟨p, _, e, h1, h2⟩ := findLoop_some h
  rw [hD] at h1
  unfold Spec.entry at h1
  cases hA : alLookup p (a.flatMap topEntries) with
  | some e' =>
    rw [hA] at h1
    simp only [Option.some.injEq] at h1
    subst h1
    obtain ⟨g, hg, hm⟩ := List.mem_flatMap.mp (mem_of_alLookup hA)
    obtain ⟨r1, r2⟩ := resolve_sound hm h2
    exact ⟨r2, g, hg, r1⟩
  | none =>
    rw [hA] at h1
    simp only at h1
    split at h1
    · simp only [Option.some.injEq] at h1
      subst h1
      simp [resolve] at h2
    · cases h1

/-- FindDescriptorByName on the concrete maps = lookup in the abstract table of declarations -/
theorem find_refines {r : Files} {a : List FileD} (inv : FInv r a) (v : Spec.Valid a) (n : FullName) :
    r.find n = Spec.find a n := by
  unfold Files.find Spec.find
  rcases inv.descs with ⟨e1, e2⟩ | hD
  · rw [e1, e2, findLoop_nil]; rfl
  · cases hs : (a.flatMap FileD.decls).find? (fun d => d.full = n) with
    | some d =>
      have h1 := List.mem_of_find?_eq_some hs
      have h2 := List.find?_some hs
      simp only [decide_eq_true_eq] at h2
      obtain ⟨g, hg, hd⟩ := List.mem_flatMap.mp h1
      rw [← h2]
      exact find_complete hD v hg hd
    | none =>
      rw [List.find?_eq_none] at hs
      cases hf : findLoop r.descs n (prefixesDesc n) with
      | none => rfl
      | some d =>
        obtain ⟨h1, g, hg, hd⟩ := find_sound hD hf
        exact absurd (by simpa using h1) (hs d (List.mem_flatMap.mpr ⟨g, hg, hd⟩))

end Model.Registry
