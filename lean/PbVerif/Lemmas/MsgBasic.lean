import PbVerif.Model.Msg
/-
Structural helper definitions and lemmas about `Fields`/`Vals` operations of `Model/Msg.lean`
(append, set on a sorted accumulator, oneof clearing, list append, map put), the recursive
"strip unknown fields" function and the nesting depth.  Core-only.
-/
namespace Pb
open Spec (Byte)

/-! ### append / snoc -/

def Fields.append : Fields → Fields → Fields
  | .nil, ys => ys
  | .cons n x tl, ys => .cons n x (Fields.append tl ys)

def Fields.snoc (fs : Fields) (k : Nat) (fv : FVal) : Fields := fs.append (.cons k fv .nil)

@[simp] theorem Fields.nil_append (ys : Fields) : Fields.nil.append ys = ys := rfl
@[simp] theorem Fields.cons_append (n x tl ys) : (Fields.cons n x tl).append ys = .cons n x (tl.append ys) := rfl

theorem Fields.append_nil : ∀ fs : Fields, fs.append .nil = fs
  | .nil => rfl
  | .cons n x tl => by simp [Fields.append_nil tl]

theorem Fields.snoc_append : ∀ (acc : Fields) (k : Nat) (fv : FVal) (fs : Fields),
    (acc.snoc k fv).append fs = acc.append (.cons k fv fs)
  | .nil, _, _, _ => rfl
  | .cons n x tl, k, fv, fs => by
    have := Fields.snoc_append tl k fv fs
    simp only [Fields.snoc] at this ⊢
    simp [this]

/-- every field number of the list is below `k` -/
def Fields.allLt (k : Nat) : Fields → Prop
  | .nil => True
  | .cons n _ tl => n < k ∧ Fields.allLt k tl

theorem Fields.allLt_mono {k k' : Nat} (h : k ≤ k') : ∀ {fs : Fields}, fs.allLt k → fs.allLt k'
  | .nil, _ => trivial
  | .cons _ _ _, ⟨a, b⟩ => ⟨by omega, Fields.allLt_mono h b⟩

theorem Fields.allLt_snoc {k k' : Nat} (hk : k < k') (fv : FVal) :
    ∀ {fs : Fields}, fs.allLt k → (fs.snoc k fv).allLt k'
  | .nil, _ => ⟨hk, trivial⟩
  | .cons _ _ _, ⟨a, b⟩ => ⟨by omega, Fields.allLt_snoc hk fv b⟩

theorem Fields.get?_of_allLt {k : Nat} : ∀ {fs : Fields}, fs.allLt k → fs.get? k = none
  | .nil, _ => rfl
  | .cons n x tl, ⟨a, b⟩ => by
    have : ¬ n = k := by omega
    simp only [Fields.get?, this, if_false]; exact Fields.get?_of_allLt b

theorem Fields.set_of_allLt {k : Nat} (fv : FVal) : ∀ {fs : Fields}, fs.allLt k → fs.set k fv = fs.snoc k fv
  | .nil, _ => rfl
  | .cons n x tl, ⟨a, b⟩ => by
    have h1 : ¬ k < n := by omega
    have h2 : ¬ k = n := by omega
    simp only [Fields.set, h1, h2, if_false, Fields.snoc, Fields.cons_append]
    congr 1; exact Fields.set_of_allLt fv b

theorem Fields.erase_of_allLt {k : Nat} : ∀ {fs : Fields}, fs.allLt k → fs.erase k = fs
  | .nil, _ => rfl
  | .cons n x tl, ⟨a, b⟩ => by
    have : ¬ n = k := by omega
    simp only [Fields.erase, this, if_false]; congr 1; exact Fields.erase_of_allLt b

theorem Fields.get?_snoc {k : Nat} (fv : FVal) : ∀ {fs : Fields}, fs.allLt k → (fs.snoc k fv).get? k = some fv
  | .nil, _ => by simp [Fields.snoc, Fields.get?]
  | .cons n x tl, ⟨a, b⟩ => by
    have : ¬ n = k := by omega
    simp only [Fields.snoc, Fields.cons_append, Fields.get?, this, if_false]
    exact Fields.get?_snoc fv b

theorem Fields.set_snoc {k : Nat} (fv fv' : FVal) : ∀ {fs : Fields}, fs.allLt k →
    (fs.snoc k fv).set k fv' = fs.snoc k fv'
  | .nil, _ => by simp [Fields.snoc, Fields.set]
  | .cons n x tl, ⟨a, b⟩ => by
    have h1 : ¬ k < n := by omega
    have h2 : ¬ k = n := by omega
    simp only [Fields.snoc, Fields.cons_append, Fields.set, h1, h2, if_false]
    congr 1; exact Fields.set_snoc fv fv' b

/-! ### oneofs -/

/-- no field of the list is a member of oneof `o` -/
def oneofFree (d : MsgD) (o : Nat) : Fields → Bool
  | .nil => true
  | .cons n _ tl =>
    (match d.find n with
     | some f => f.oneof != some o
     | none => true) && oneofFree d o tl

theorem clearOneof_of_free (d : MsgD) (o keep : Nat) : ∀ {fs : Fields}, oneofFree d o fs = true →
    Fields.clearOneof d o keep fs = fs
  | .nil, _ => rfl
  | .cons n x tl, h => by
    simp only [oneofFree, Bool.and_eq_true] at h
    have ih := clearOneof_of_free d o keep h.2
    simp only [Fields.clearOneof, ih]
    cases hf : d.find n with
    | none => rfl
    | some f =>
      have h1 := h.1; simp only [hf, bne_iff_ne, ne_eq] at h1
      simp [h1]

theorem oneofFree_snoc (d : MsgD) (o k : Nat) (fv : FVal) : ∀ (fs : Fields),
    oneofFree d o (fs.snoc k fv) = (oneofFree d o fs && oneofFree d o (.cons k fv .nil))
  | .nil => by simp [Fields.snoc, oneofFree]
  | .cons n x tl => by
    have := oneofFree_snoc d o k fv tl
    simp only [Fields.snoc, Fields.cons_append] at this ⊢
    simp only [oneofFree] at this ⊢
    rw [this]; simp [Bool.and_assoc]

theorem MsgD.find_num_eq {d : MsgD} {num : Nat} {f : Field} (h : d.find num = some f) : f.num = num := by
  unfold MsgD.find at h
  have := List.find?_some h
  simpa using this

/-! ### lists -/

@[simp] theorem Vals.nil_append_eq (ys : Vals) : Vals.nil.append ys = ys := rfl
@[simp] theorem Vals.cons_append (v tl ys) : (Vals.cons v tl).append ys = .cons v (tl.append ys) := rfl

theorem Vals.append_nil : ∀ vs : Vals, vs.append .nil = vs
  | .nil => rfl
  | .cons v tl => by simp [Vals.append_nil tl]

theorem Vals.append_assoc : ∀ a b c : Vals, (a.append b).append c = a.append (b.append c)
  | .nil, _, _ => rfl
  | .cons v tl, b, c => by simp [Vals.append_assoc tl b c]

theorem Vals.isNil_append (a b : Vals) : (a.append b).isNil = (a.isNil && b.isNil) := by
  cases a <;> cases b <;> simp [Vals.isNil, Vals.append]

theorem Vals.isNil_eq_true {a : Vals} : a.isNil = true ↔ a = .nil := by
  cases a <;> simp [Vals.isNil]

/-- the accumulator while the records of repeated field `k` are being read: `pre` are the
elements read so far (none yet: the field is absent) -/
def accWith (acc : Fields) (k : Nat) (pre : Vals) : Fields :=
  if pre.isNil then acc else acc.snoc k (.many pre)

theorem accWith_nil (acc : Fields) (k : Nat) : accWith acc k .nil = acc := by simp [accWith, Vals.isNil]

theorem accWith_of_ne {acc : Fields} {k : Nat} {pre : Vals} (h : pre.isNil = false) :
    accWith acc k pre = acc.snoc k (.many pre) := by simp [accWith, h]

theorem appendList_accWith {acc : Fields} {k : Nat} (hacc : acc.allLt k) (pre vs : Vals)
    (hvs : vs.isNil = false) :
    appendList (accWith acc k pre) k vs = accWith acc k (pre.append vs) := by
  have hne : (pre.append vs).isNil = false := by simp [Vals.isNil_append, hvs]
  rw [accWith_of_ne hne]
  unfold appendList
  simp only [hvs, Bool.false_eq_true, if_false]
  cases hp : pre.isNil with
  | true =>
    have : pre = .nil := Vals.isNil_eq_true.mp hp
    subst this
    simp only [accWith_nil, Fields.get?_of_allLt hacc, Vals.nil_append_eq]
    exact Fields.set_of_allLt _ hacc
  | false =>
    rw [accWith_of_ne hp, Fields.get?_snoc _ hacc]
    exact Fields.set_snoc _ _ hacc

theorem get?_accWith {acc : Fields} {k : Nat} (hacc : acc.allLt k) (pre : Vals) :
    (match (accWith acc k pre).get? k with
      | some (.many vs) => vs
      | _ => .nil) = pre := by
  cases hp : pre.isNil with
  | true =>
    have : pre = .nil := Vals.isNil_eq_true.mp hp
    subst this
    simp only [accWith_nil, Fields.get?_of_allLt hacc]
  | false => rw [accWith_of_ne hp, Fields.get?_snoc _ hacc]

theorem set_accWith {acc : Fields} {k : Nat} (hacc : acc.allLt k) (pre vs : Vals) (hvs : vs.isNil = false) :
    (accWith acc k pre).set k (.many vs) = accWith acc k vs := by
  rw [accWith_of_ne hvs]
  cases hp : pre.isNil with
  | true =>
    have : pre = .nil := Vals.isNil_eq_true.mp hp
    subst this
    rw [accWith_nil]; exact Fields.set_of_allLt _ hacc
  | false => rw [accWith_of_ne hp]; exact Fields.set_snoc _ _ hacc

/-! ### maps -/

/-- no entry of the list has a key equal to `k` -/
def keyFree (k : Val) : Vals → Bool
  | .nil => true
  | .cons (.msg old) tl =>
    (match entryKey old with
     | some k' => !valBEq k k'
     | none => true) && keyFree k tl
  | .cons _ tl => keyFree k tl

theorem mapPut_of_free (k : Val) (e : Msg) : ∀ {vs : Vals}, keyFree k vs = true →
    mapPut vs k e = vs.append (.cons (.msg e) .nil)
  | .nil, _ => rfl
  | .cons (.msg old) tl, h => by
    simp only [keyFree, Bool.and_eq_true] at h
    have ih := mapPut_of_free k e h.2
    simp only [mapPut, Vals.cons_append]
    cases hk : entryKey old with
    | none => simp [ih]
    | some k' =>
      have h1 := h.1; simp only [hk, Bool.not_eq_true'] at h1
      simp [h1, ih]
  | .cons (.num n) tl, h => by
    simp only [keyFree] at h; simp [mapPut, mapPut_of_free k e h]
  | .cons (.bytes b) tl, h => by
    simp only [keyFree] at h; simp [mapPut, mapPut_of_free k e h]

theorem keyFree_append (k : Val) : ∀ (a b : Vals), keyFree k (a.append b) = (keyFree k a && keyFree k b)
  | .nil, b => by simp [keyFree]
  | .cons (.msg old) tl, b => by simp [keyFree, keyFree_append k tl b, Bool.and_assoc]
  | .cons (.num n) tl, b => by simp [keyFree, keyFree_append k tl b]
  | .cons (.bytes x) tl, b => by simp [keyFree, keyFree_append k tl b]

theorem valBEq_to_eq {a b : Val} (h : valBEq a b = true) : a = b := by
  cases a <;> cases b <;> simp_all [valBEq]

theorem valBEq_comm (a b : Val) : valBEq a b = valBEq b a := by
  cases a <;> cases b <;> simp [valBEq, Bool.beq_comm] <;> exact Bool.eq_iff_iff.mpr ⟨Eq.symm, Eq.symm⟩

/-! ### removing unknown fields recursively (`DiscardUnknown`) -/

mutual
def stripMsg (dis : Bool) : Msg → Msg
  | .mk fs unk => .mk (stripFields dis fs) (if dis then [] else unk)
def stripFields (dis : Bool) : Fields → Fields
  | .nil => .nil
  | .cons n fv tl => .cons n (stripFVal dis fv) (stripFields dis tl)
def stripFVal (dis : Bool) : FVal → FVal
  | .one v => .one (stripVal dis v)
  | .many vs => .many (stripVals dis vs)
def stripVal (dis : Bool) : Val → Val
  | .msg m => .msg (stripMsg dis m)
  | .num n => .num n
  | .bytes b => .bytes b
def stripVals (dis : Bool) : Vals → Vals
  | .nil => .nil
  | .cons v tl => .cons (stripVal dis v) (stripVals dis tl)
end

mutual
theorem stripMsg_false : ∀ m : Msg, stripMsg false m = m
  | .mk fs unk => by simp [stripMsg, stripFields_false fs]
theorem stripFields_false : ∀ fs : Fields, stripFields false fs = fs
  | .nil => by simp [stripFields]
  | .cons n fv tl => by simp [stripFields, stripFVal_false fv, stripFields_false tl]
theorem stripFVal_false : ∀ fv : FVal, stripFVal false fv = fv
  | .one v => by simp [stripFVal, stripVal_false v]
  | .many vs => by simp [stripFVal, stripVals_false vs]
theorem stripVal_false : ∀ v : Val, stripVal false v = v
  | .msg m => by simp [stripVal, stripMsg_false m]
  | .num n => by simp [stripVal]
  | .bytes b => by simp [stripVal]
theorem stripVals_false : ∀ vs : Vals, stripVals false vs = vs
  | .nil => by simp [stripVals]
  | .cons v tl => by simp [stripVals, stripVal_false v, stripVals_false tl]
end

theorem stripVals_isNil (dis : Bool) (vs : Vals) : (stripVals dis vs).isNil = vs.isNil := by
  cases vs <;> simp [stripVals, Vals.isNil]

theorem stripVals_append (dis : Bool) : ∀ a b : Vals,
    stripVals dis (a.append b) = (stripVals dis a).append (stripVals dis b)
  | .nil, b => by simp [stripVals]
  | .cons v tl, b => by simp [stripVals, stripVals_append dis tl b]

/-! ### nesting depth (what `RecursionLimit` counts: one level per message, map entries included) -/

mutual
def depthMsg : Msg → Nat
  | .mk fs _ => 1 + depthFields fs
def depthFields : Fields → Nat
  | .nil => 0
  | .cons _ fv tl => max (depthFVal fv) (depthFields tl)
def depthFVal : FVal → Nat
  | .one v => depthVal v
  | .many vs => depthVals vs
def depthVal : Val → Nat
  | .msg m => depthMsg m
  | _ => 0
def depthVals : Vals → Nat
  | .nil => 0
  | .cons v tl => max (depthVal v) (depthVals tl)
end

theorem depthMsg_pos (m : Msg) : 1 ≤ depthMsg m := by
  cases m; simp [depthMsg]

end Pb
