import PbVerif.Lemmas.FastInitFixed
/-
(b) `checkInitializedPointer` pruned by `needsInitCheck` = `checkInitializedSlow`.

Key lemma (`quiet_msg`): a message type that does not reach a required field or an extension range is
initialized whatever its value.  The walk of `needsInitCheck` skips map-entry messages and extension
fields; `reachesM_iff` shows that under the descriptor rules for map entries (`MapOK`) and extension
ranges (`ExtOK`) this is the same reachability as the one `initMsg` follows in the value tree.
Core-only.
-/
namespace FastInit
open Pb

/-- fields whose values are messages in the value tree of Model/Msg.lean (a map field holds its entries) -/
def isSubField (f : Field) : Bool := f.kind.isMessage || decide (f.card = .map)

/-- reachability in the graph that `initMsg` follows: entries are nodes, extension fields are edges -/
inductive ReachesM (S : Schema) (xr : Nat → Bool) : Nat → Prop
  | here {i : Nat} : own S xr i = true → ReachesM S xr i
  | step {i : Nat} {f : Field} : f ∈ (S.msg i).fields → isSubField f = true → ReachesM S xr f.sub → ReachesM S xr i

/-- a map-entry message has no required field and no extension range, and its only message-valued
field is the plain (non-map, non-extension) value field 2 -/
def MapOK (S : Schema) (xr : Nat → Bool) : Prop :=
  ∀ i f, f ∈ (S.msg i).fields → f.card = .map →
    hasRequired (S.msg f.sub) = false ∧ xr f.sub = false ∧
    ∀ g ∈ (S.msg f.sub).fields, isSubField g = true →
      g.ext = false ∧ g.card ≠ .map ∧
      ∃ vf, (S.msg f.sub).find 2 = some vf ∧ vf.kind.isMessage = true ∧ vf.sub = g.sub

/-- extension fields extend messages that declare extension ranges -/
def ExtOK (S : Schema) (xr : Nat → Bool) : Prop :=
  ∀ i f, f ∈ (S.msg i).fields → f.ext = true → xr i = true

/-- Bool versions, to check concrete schemas -/
def mapOKB (S : Schema) (xr : Nat → Bool) : Bool :=
  (List.range S.msgs.length).all fun i => (S.msg i).fields.all fun f =>
    if f.card = .map then
      !hasRequired (S.msg f.sub) && !xr f.sub &&
      (S.msg f.sub).fields.all fun g =>
        !isSubField g ||
          (!g.ext && decide (g.card ≠ .map) &&
            match (S.msg f.sub).find 2 with
            | some vf => vf.kind.isMessage && vf.sub == g.sub
            | none => false)
    else true

def extOKB (S : Schema) (xr : Nat → Bool) : Bool :=
  (List.range S.msgs.length).all fun i => (S.msg i).fields.all fun f => !f.ext || xr i

theorem msg_out_of_range {S : Schema} {i : Nat} (h : S.msgs.length ≤ i) : (S.msg i).fields = [] := by
  unfold Schema.msg
  rw [List.getD_eq_getElem?_getD, List.getElem?_eq_none h]; rfl

theorem mapOK_of_B {S : Schema} {xr : Nat → Bool} (h : mapOKB S xr = true) : MapOK S xr := by
  intro i f hf hc
  by_cases hi : i < S.msgs.length
  · unfold mapOKB at h
    rw [List.all_eq_true] at h
    have h1 := h i (by simpa using hi)
    rw [List.all_eq_true] at h1
    have h2 := h1 f hf
    simp only [hc, if_true, Bool.and_eq_true, Bool.not_eq_true', List.all_eq_true] at h2
    refine ⟨h2.1.1, h2.1.2, fun g hg hs => ?_⟩
    have h3 := h2.2 g hg
    simp only [hs, Bool.not_true, Bool.false_or, Bool.and_eq_true, Bool.not_eq_true', decide_eq_true_eq] at h3
    refine ⟨h3.1.1, h3.1.2, ?_⟩
    have h4 := h3.2
    split at h4
    · rename_i vf hvf
      simp only [Bool.and_eq_true, beq_iff_eq] at h4
      exact ⟨vf, hvf, h4.1, h4.2⟩
    · cases h4
  · rw [msg_out_of_range (by omega)] at hf; cases hf

theorem extOK_of_B {S : Schema} {xr : Nat → Bool} (h : extOKB S xr = true) : ExtOK S xr := by
  intro i f hf he
  by_cases hi : i < S.msgs.length
  · unfold extOKB at h
    rw [List.all_eq_true] at h
    have h1 := h i (by simpa using hi)
    rw [List.all_eq_true] at h1
    simpa [he] using h1 f hf
  · rw [msg_out_of_range (by omega)] at hf; cases hf

/-! ### typing of values: a message value sits in a message-valued field -/

def isMsgVal : Val → Bool
  | .msg _ => true
  | _ => false

mutual
def tyMsg (S : Schema) (mi : Nat) : Msg → Bool
  | .mk fs _ => tyFields S (S.msg mi) fs
def tyFields (S : Schema) (d : MsgD) : Fields → Bool
  | .nil => true
  | .cons n fv tl =>
    (match d.find n with
     | some f => tyFVal S f fv
     | none => true) && tyFields S d tl
def tyFVal (S : Schema) (f : Field) : FVal → Bool
  | .one v => (decide (f.card ≠ .map) || !isMsgVal v) && tyVal S f v
  | .many vs => tyVals S f vs
def tyVal (S : Schema) (f : Field) : Val → Bool
  | .msg m => isSubField f && tyMsg S f.sub m
  | _ => true
def tyVals (S : Schema) (f : Field) : Vals → Bool
  | .nil => true
  | .cons v tl => tyVal S f v && tyVals S f tl
end

theorem find_mem {d : MsgD} {n : Nat} {f : Field} (h : d.find n = some f) : f ∈ d.fields :=
  List.mem_of_find?_eq_some h

theorem required_all_of_not_hasRequired {d : MsgD} (h : hasRequired d = false) (fs : Fields) :
    (d.fields.all fun f => f.card ≠ .required || (fs.get? f.num).isSome) = true := by
  rw [List.all_eq_true]
  intro f hf
  unfold hasRequired at h
  rw [List.any_eq_false] at h
  have := h f hf
  simp only [decide_eq_true_eq] at this
  simp [this]

theorem own_false_of_not_reachesM {S : Schema} {xr : Nat → Bool} {i : Nat} (h : ¬ ReachesM S xr i) :
    own S xr i = false := by
  cases ho : own S xr i with
  | false => rfl
  | true => exact absurd (.here ho) h

/-! ### key lemma -/

mutual
theorem quiet_msg (S : Schema) (xr : Nat → Bool) : ∀ (m : Msg) (mi : Nat), ¬ ReachesM S xr mi →
    tyMsg S mi m = true → initMsg S mi m = true
  | .mk fs u, mi, hq, ht => by
    rw [tyMsg] at ht
    rw [initMsg, Bool.and_eq_true]
    have ho := own_false_of_not_reachesM hq
    simp only [own, Bool.or_eq_false_iff] at ho
    exact ⟨required_all_of_not_hasRequired ho.1 fs, quiet_fields S xr fs mi hq ht⟩
theorem quiet_fields (S : Schema) (xr : Nat → Bool) : ∀ (fs : Fields) (mi : Nat), ¬ ReachesM S xr mi →
    tyFields S (S.msg mi) fs = true → initFields S (S.msg mi) fs = true
  | .nil, _, _, _ => by rw [initFields]
  | .cons n fv tl, mi, hq, ht => by
    rw [tyFields, Bool.and_eq_true] at ht
    rw [initFields, Bool.and_eq_true]
    refine ⟨?_, quiet_fields S xr tl mi hq ht.2⟩
    split
    · rename_i f hf
      have h1 := ht.1
      rw [hf] at h1
      exact quiet_fval S xr fv f (fun hs hr => hq (.step (find_mem hf) hs hr)) h1
    · rfl
theorem quiet_fval (S : Schema) (xr : Nat → Bool) : ∀ (fv : FVal) (f : Field),
    (isSubField f = true → ¬ ReachesM S xr f.sub) → tyFVal S f fv = true → initFVal S f fv = true
  | .one v, f, hq, ht => by
    rw [tyFVal, Bool.and_eq_true] at ht
    rw [initFVal]; exact quiet_val S xr v f hq ht.2
  | .many vs, f, hq, ht => by
    rw [tyFVal] at ht
    rw [initFVal]; exact quiet_vals S xr vs f hq ht
theorem quiet_val (S : Schema) (xr : Nat → Bool) : ∀ (v : Val) (f : Field),
    (isSubField f = true → ¬ ReachesM S xr f.sub) → tyVal S f v = true → initVal S f v = true
  | .msg m, f, hq, ht => by
    rw [tyVal, Bool.and_eq_true] at ht
    rw [initVal]; exact quiet_msg S xr m f.sub (hq ht.1) ht.2
  | .num _, _, _, _ => by simp [initVal]
  | .bytes _, _, _, _ => by simp [initVal]
theorem quiet_vals (S : Schema) (xr : Nat → Bool) : ∀ (vs : Vals) (f : Field),
    (isSubField f = true → ¬ ReachesM S xr f.sub) → tyVals S f vs = true → initVals S f vs = true
  | .nil, _, _, _ => by rw [initVals]
  | .cons v tl, f, hq, ht => by
    rw [tyVals, Bool.and_eq_true] at ht
    rw [initVals, Bool.and_eq_true]
    exact ⟨quiet_val S xr v f hq ht.1, quiet_vals S xr tl f hq ht.2⟩
end

/-! ### the two reachability notions agree -/

theorem mem_succs {S : Schema} {i j : Nat} : j ∈ succs S i ↔ ∃ f ∈ (S.msg i).fields, target S f = some j := by
  simp [succs, List.mem_filterMap]

/-- what `target` can be -/
theorem target_cases {S : Schema} {f : Field} {j : Nat} (h : target S f = some j) :
    f.ext = false ∧
    ((f.card = .map ∧ ∃ vf, (S.msg f.sub).find 2 = some vf ∧ vf.kind.isMessage = true ∧ vf.sub = j) ∨
     (f.card ≠ .map ∧ f.kind.isMessage = true ∧ f.sub = j)) := by
  unfold target at h
  split at h
  · cases h
  · rename_i he
    refine ⟨by simpa using he, ?_⟩
    split at h
    · rename_i hm
      split at h
      · rename_i vf hvf
        split at h
        · rename_i hk
          exact Or.inl ⟨hm, vf, hvf, hk, Option.some.inj h⟩
        · cases h
      · cases h
    · rename_i hm
      split at h
      · rename_i hk
        exact Or.inr ⟨hm, hk, Option.some.inj h⟩
      · cases h

theorem reachesM_of_reaches {S : Schema} {xr : Nat → Bool} {i : Nat} (h : Reaches S xr i) : ReachesM S xr i := by
  induction h with
  | here ho => exact .here ho
  | @step i j hj _ ih =>
    obtain ⟨f, hf, ht⟩ := mem_succs.1 hj
    obtain ⟨_, ⟨hm, vf, hvf, hk, rfl⟩ | ⟨_, hk, rfl⟩⟩ := target_cases ht
    · exact .step hf (by simp [isSubField, hm]) (.step (find_mem hvf) (by simp [isSubField, hk]) ih)
    · exact .step hf (by simp [isSubField, hk]) ih

/-- a map entry reaches exactly what its value message reaches -/
theorem reaches_entry {S : Schema} {xr : Nat → Bool} (hM : MapOK S xr) {i : Nat} {f : Field}
    (hf : f ∈ (S.msg i).fields) (hm : f.card = .map) (h : Reaches S xr f.sub) :
    ∃ vf, (S.msg f.sub).find 2 = some vf ∧ vf.kind.isMessage = true ∧ Reaches S xr vf.sub := by
  obtain ⟨hr, hx, hg⟩ := hM i f hf hm
  rcases reaches_iff.1 h with ho | ⟨j, hj, hrj⟩
  · simp [own, hr, hx] at ho
  · obtain ⟨g, hgm, ht⟩ := mem_succs.1 hj
    obtain ⟨_, ⟨hgmap, _⟩ | ⟨_, hk, rfl⟩⟩ := target_cases ht
    · exact absurd hgmap (hg g hgm (by simp [isSubField, hgmap])).2.1
    · obtain ⟨vf, hvf, hvk, hvs⟩ := (hg g hgm (by simp [isSubField, hk])).2.2
      exact ⟨vf, hvf, hvk, by rw [hvs]; exact hrj⟩

theorem reaches_of_reachesM {S : Schema} {xr : Nat → Bool} (hM : MapOK S xr) (hX : ExtOK S xr) {i : Nat}
    (h : ReachesM S xr i) : Reaches S xr i := by
  induction h with
  | here ho => exact .here ho
  | @step i f hf hs _ ih =>
    by_cases he : f.ext = true
    · exact .here (by simp [own, hX i f hf he])
    · by_cases hm : f.card = .map
      · obtain ⟨vf, hvf, hk, hr⟩ := reaches_entry hM hf hm ih
        refine .step (mem_succs.2 ⟨f, hf, ?_⟩) hr
        simp [target, he, hm, hvf, hk]
      · have hk : f.kind.isMessage = true := by simpa [isSubField, hm] using hs
        refine .step (mem_succs.2 ⟨f, hf, ?_⟩) ih
        simp [target, he, hm, hk]

theorem reachesM_iff {S : Schema} {xr : Nat → Bool} (hM : MapOK S xr) (hX : ExtOK S xr) (i : Nat) :
    ReachesM S xr i ↔ Reaches S xr i :=
  ⟨reaches_of_reachesM hM hX, reachesM_of_reaches⟩

/-! ### the pruned check equals the full check -/

section
set_option linter.unusedSectionVars false
variable (S : Schema) (xr : Nat → Bool) (nd : Nat → Bool)
  (hM : MapOK S xr) (hX : ExtOK S xr) (hnd : ∀ i, nd i = true ↔ Reaches S xr i)
include hM hX hnd

theorem quiet_of_nd_false {i : Nat} (h : nd i = false) : ¬ ReachesM S xr i := fun hr => by
  have := (hnd i).2 (reaches_of_reachesM hM hX hr)
  rw [h] at this; cases this

/-- nothing to check below a field the table prunes -/
theorem pruned_quiet {f : Field} (hc : f.card ≠ .map) (h : (f.kind.isMessage && nd f.sub) = false) :
    isSubField f = true → ¬ ReachesM S xr f.sub := by
  intro hs
  have hk : f.kind.isMessage = true := by simpa [isSubField, hc] using hs
  exact quiet_of_nd_false S xr nd hM hX hnd (by simpa [hk] using h)

theorem pruned_map_quiet {i : Nat} {f : Field} (hf : f ∈ (S.msg i).fields) (hc : f.card = .map)
    (h : ndMapValue S nd f = false) : ¬ ReachesM S xr f.sub := by
  intro hr
  obtain ⟨vf, hvf, hk, hrv⟩ := reaches_entry hM hf hc (reaches_of_reachesM hM hX hr)
  have := (hnd vf.sub).2 hrv
  simp [ndMapValue, hvf, hk, this] at h

mutual
theorem fast_msg : ∀ (m : Msg) (mi : Nat), tyMsg S mi m = true → initFastMsg S nd mi m = initMsg S mi m
  | .mk fs u, mi, ht => by
    rw [initFastMsg]
    split
    · rw [tyMsg] at ht
      rw [initMsg]
      dsimp only
      rw [fast_fields fs mi ht]
    · rename_i h
      exact (quiet_msg S xr _ mi (quiet_of_nd_false S xr nd hM hX hnd (by simpa using h)) ht).symm
theorem fast_fields : ∀ (fs : Fields) (mi : Nat), tyFields S (S.msg mi) fs = true →
    initFastFields S nd (S.msg mi) fs = initFields S (S.msg mi) fs
  | .nil, _, _ => by rw [initFastFields, initFields]
  | .cons n fv tl, mi, ht => by
    rw [tyFields, Bool.and_eq_true] at ht
    rw [initFastFields, initFields, fast_fields tl mi ht.2]
    congr 1
    have h1 := ht.1
    cases hf : (S.msg mi).find n with
    | some f =>
      rw [hf] at h1
      exact fast_fval fv f mi (find_mem hf) h1
    | none => rfl
theorem fast_fval : ∀ (fv : FVal) (f : Field) (mi : Nat), f ∈ (S.msg mi).fields → tyFVal S f fv = true →
    initFastFVal S nd f fv = initFVal S f fv
  | .one (.msg x), f, mi, hf, ht => by
    have ht' := ht
    rw [tyFVal, Bool.and_eq_true] at ht'
    have hc : f.card ≠ .map := by simpa [isMsgVal] using ht'.1
    rw [initFastFVal]
    split
    · rw [initFVal]; exact fast_val (.msg x) f ht'.2
    · rename_i h
      exact (quiet_fval S xr _ f (pruned_quiet S xr nd hM hX hnd hc (by simpa using h)) ht).symm
  | .one (.num _), f, mi, hf, ht => by simp [initFastFVal, initFastVal, initFVal, initVal]
  | .one (.bytes _), f, mi, hf, ht => by simp [initFastFVal, initFastVal, initFVal, initVal]
  | .many vs, f, mi, hf, ht => by
    have ht' := ht
    rw [tyFVal] at ht'
    rw [initFastFVal]
    split
    · rename_i hc
      split
      · rw [initFVal]; exact fast_entries vs f mi hf hc ht'
      · rename_i h
        exact (quiet_fval S xr _ f (fun _ => pruned_map_quiet S xr nd hM hX hnd hf hc (by simpa using h)) ht).symm
    · rename_i hc
      split
      · rw [initFVal]; exact fast_vals vs f ht'
      · rename_i h
        exact (quiet_fval S xr _ f (pruned_quiet S xr nd hM hX hnd hc (by simpa using h)) ht).symm
theorem fast_val : ∀ (v : Val) (f : Field), tyVal S f v = true → initFastVal S nd f v = initVal S f v
  | .msg m, f, ht => by
    rw [tyVal, Bool.and_eq_true] at ht
    rw [initFastVal, initVal]; exact fast_msg m f.sub ht.2
  | .num _, _, _ => by simp [initFastVal, initVal]
  | .bytes _, _, _ => by simp [initFastVal, initVal]
theorem fast_vals : ∀ (vs : Vals) (f : Field), tyVals S f vs = true → initFastVals S nd f vs = initVals S f vs
  | .nil, _, _ => by rw [initFastVals, initVals]
  | .cons v tl, f, ht => by
    rw [tyVals, Bool.and_eq_true] at ht
    rw [initFastVals, initVals, fast_val v f ht.1, fast_vals tl f ht.2]
theorem fast_entries : ∀ (vs : Vals) (f : Field) (mi : Nat), f ∈ (S.msg mi).fields → f.card = .map →
    tyVals S f vs = true → initFastEntries S nd (S.msg f.sub) vs = initVals S f vs
  | .nil, _, _, _, _, _ => by rw [initFastEntries, initVals]
  | .cons (.msg (.mk fs u)) tl, f, mi, hf, hc, ht => by
    rw [tyVals, Bool.and_eq_true, tyVal, Bool.and_eq_true, tyMsg] at ht
    rw [initFastEntries, initVals, initVal, initMsg, fast_entries tl f mi hf hc ht.2,
      fast_fields fs f.sub ht.1.2]
    rw [required_all_of_not_hasRequired (hM mi f hf hc).1 fs, Bool.true_and]
  | .cons (.num _) tl, f, mi, hf, hc, ht => by
    rw [tyVals, Bool.and_eq_true] at ht
    rw [initFastEntries, initVals, fast_entries tl f mi hf hc ht.2]
    · simp [initVal]
    · intro fs u h; cases h
  | .cons (.bytes _) tl, f, mi, hf, hc, ht => by
    rw [tyVals, Bool.and_eq_true] at ht
    rw [initFastEntries, initVals, fast_entries tl f mi hf hc ht.2]
    · simp [initVal]
    · intro fs u h; cases h
end

end

end FastInit
