import PbVerif.Model.Conc
/-
Invariants of the lazy-field protocol (Model.Conc.Lazy) for the protocol shape of the code:
publish = compare-and-swap from nil, result = re-loaded cell.  Everything is proved for all
reachable states, i.e. all schedules and any number of threads.
-/
namespace Conc.Lazy

variable {β α : Type}

/-- the protocol shape the theorems are about -/
structure Cfg.Safe (cfg : Cfg β α) : Prop where
  cas : cfg.publish = .cas
  reload : cfg.result = .reload

structure Inv (cfg : Cfg β α) (s : State α) : Prop where
  /-- a thread about to load finds the cell set -/
  load_set : ∀ i, s.pc i = .load → s.cell ≠ none
  /-- a returned object is the published one -/
  done_cell : ∀ i v, s.pc i = .done (some v) → s.cell = some v
  /-- an object waiting to be published is allocated, not yet published, not marked lost -/
  pub_fresh : ∀ i m, s.pc i = .publish m → m < s.next ∧ s.cell ≠ some m ∧ s.lost m = false
  /-- object identities are unique to the decoding thread -/
  pub_uniq : ∀ i j m, s.pc i = .publish m → s.pc j = .publish m → i = j
  /-- the published object is allocated and never a loser -/
  cell_ok : ∀ v, s.cell = some v → v < s.next ∧ s.lost v = false
  lost_alloc : ∀ m, s.lost m = true → m < s.next
  /-- every allocated object holds the decoding of the buffer -/
  heap_ok : ∀ m, m < s.next → s.heap m = some (cfg.decode cfg.buf)
  /-- presence: only threads that saw the bit set go on; `done none` only if it is clear -/
  pres_yes : ∀ i, s.pc i ≠ .checkPresent → s.pc i ≠ .done none → cfg.present = true
  pres_no : ∀ i, s.pc i = .done none → cfg.present = false

theorem inv_init (cfg : Cfg β α) : Inv cfg (init : State α) := by
  constructor <;> simp [init]

theorem inv_step {cfg : Cfg β α} (safe : cfg.Safe) {s t : State α} (h : Inv cfg s) (st : Step cfg s t) : Inv cfg t := by
  obtain ⟨h1, h2, h3, h4, h5, h6, h7, h8, h9⟩ := h
  have hc := safe.cas
  have hr : ∀ m, afterPublish cfg m = .load := by intro m; simp [afterPublish, safe.reload]
  cases st <;> constructor <;> simp only [upd, hr] <;> grind

theorem inv_reachable {cfg : Cfg β α} (safe : cfg.Safe) {s : State α} (r : Reachable cfg s) : Inv cfg s := by
  induction r with
  | init => exact inv_init cfg
  | step _ st ih => exact inv_step safe ih st

/-- the pointer cell changes at most once: a step never changes a set cell … -/
theorem step_cell_stable {cfg : Cfg β α} (safe : cfg.Safe) {s t : State α} (st : Step cfg s t) {v : Nat}
    (hv : s.cell = some v) : t.cell = some v := by
  have hc := safe.cas
  cases st <;> simp_all

/-- … and the only change is nil → a freshly decoded object -/
theorem step_cell_change {cfg : Cfg β α} {s t : State α} (st : Step cfg s t) (hne : t.cell ≠ s.cell) (safe : cfg.Safe) :
    s.cell = none ∧ ∃ i m, s.pc i = .publish m ∧ t.cell = some m := by
  have hc := safe.cas
  cases st <;> simp_all
  all_goals exact ⟨_, by assumption⟩

theorem steps_cell_stable {cfg : Cfg β α} (safe : cfg.Safe) {s t : State α} (h : Steps cfg s t) {v : Nat}
    (hv : s.cell = some v) : t.cell = some v := by
  induction h with
  | refl => exact hv
  | tail _ st ih => exact step_cell_stable safe st ih

/-- a finished thread keeps its result -/
theorem step_done_stable {cfg : Cfg β α} {s t : State α} (st : Step cfg s t) {i : Nat} {r : Option Nat}
    (hd : s.pc i = .done r) : t.pc i = .done r := by
  cases st <;> simp only [upd] <;> grind

/-- progress: every thread that has not returned has an enabled step (nobody is ever stuck,
in particular not at `load`) -/
theorem enabled {cfg : Cfg β α} (safe : cfg.Safe) {s : State α} (r : Reachable cfg s) (i : Nat)
    (hnd : ∀ res, s.pc i ≠ .done res) : ∃ t, Step cfg s t ∧ t.pc i ≠ s.pc i := by
  have inv := inv_reachable safe r
  have hr : ∀ m, afterPublish cfg m = .load := by intro m; simp [afterPublish, safe.reload]
  cases hpc : s.pc i with
  | checkPresent =>
    cases hp : cfg.present with
    | true => exact ⟨_, Step.present_yes s i hpc hp, by simp [upd]⟩
    | false => exact ⟨_, Step.present_no s i hpc hp, by simp [upd]⟩
  | checkNil =>
    cases hcell : s.cell with
    | none => exact ⟨_, Step.checkNil_nil s i hpc hcell, by simp [upd]⟩
    | some v => exact ⟨_, Step.checkNil_set s i v hpc hcell, by simp [upd]⟩
  | decode => exact ⟨_, Step.decode s i hpc, by simp [upd]⟩
  | publish m =>
    cases hcell : s.cell with
    | none => exact ⟨_, Step.cas_win s i m hpc safe.cas hcell, by simp [upd, hr]⟩
    | some v => exact ⟨_, Step.cas_lose s i m v hpc safe.cas hcell, by simp [upd, hr]⟩
  | load =>
    cases hcell : s.cell with
    | none => exact absurd hcell (inv.load_set i hpc)
    | some v => exact ⟨_, Step.load s i v hpc hcell, by simp [upd]⟩
  | done res => exact absurd hpc (hnd res)

end Conc.Lazy
