import PbVerif.Model.Conc
/-
Invariants of the lazy-field protocol (Model.Conc.Lazy) for the protocol shape of the code:
publish = compare-and-swap from nil, result = re-loaded cell.  Everything is proved for all
reachable states, i.e. all schedules and any number of threads.
-/
namespace Conc.Lazy

variable {β α : Type}

/-- the protocol shape the theorems are about -/
structure Cfg.Safe (cfg : Cfg β α) : Prop where
  cas : cfg.publish = .cas
  reload : cfg.result = .reload
  afterAll : cfg.timing = .afterAll

structure Inv (cfg : Cfg β α) (s : State α) : Prop where
  /-- a thread about to load finds the cell set -/
  load_set : ∀ i, s.pc i = .load → s.cell ≠ none
  /-- a returned object is the published one -/
  done_cell : ∀ i v, s.pc i = .done (some v) → s.cell = some v
  /-- an owned object is allocated, private (not published), not marked lost -/
  own_fresh : ∀ i m k b, s.pc i = .own m k b → m < s.next ∧ s.cell ≠ some m ∧ s.lost m = false ∧ k ≤ cfg.entries
  /-- while merging it holds the first k entries; at the CAS it is complete -/
  own_merging : ∀ i m k, s.pc i = .own m k false → s.heap m = some (cfg.decodeK cfg.buf k)
  own_publishing : ∀ i m k, s.pc i = .own m k true → s.heap m = some cfg.full
  /-- object identities are unique to the decoding thread -/
  own_uniq : ∀ i j m k k' b b', s.pc i = .own m k b → s.pc j = .own m k' b' → i = j
  /-- the published object is allocated, never a loser, and complete -/
  cell_ok : ∀ v, s.cell = some v → v < s.next ∧ s.lost v = false ∧ s.heap v = some cfg.full
  lost_alloc : ∀ m, s.lost m = true → m < s.next
  /-- presence: only threads that saw the bit set go on; `done none` only if it is clear -/
  pres_yes : ∀ i, s.pc i ≠ .checkPresent → s.pc i ≠ .done none → cfg.present = true
  pres_no : ∀ i, s.pc i = .done none → cfg.present = false

theorem inv_init (cfg : Cfg β α) : Inv cfg (init : State α) := by
  constructor <;> simp [init]

macro "lazy_close" : tactic =>
  `(tactic| (constructor <;> simp only [upd] at * <;> grind))

theorem inv_step {cfg : Cfg β α} (safe : cfg.Safe) {s t : State α} (h : Inv cfg s) (st : Step cfg s t) : Inv cfg t := by
  obtain ⟨h1, h2, h3, h4, h5, h6, h7, h8, h9, h10⟩ := h
  have hc := safe.cas
  have hr : ∀ m, afterPublish cfg m = .load := by intro m; simp [afterPublish, safe.reload]
  have hm : ∀ m k, afterMerge cfg m k = .own m k false := by intro m k; simp [afterMerge, safe.afterAll]
  have hl : ∀ m k, afterLoop cfg m k = .own m k true := by intro m k; simp [afterLoop, safe.afterAll]
  have ha : ∀ m k, afterCas cfg m k = .load := by intro m k; simp [afterCas, safe.afterAll, hr]
  cases st with
  | present_no i hpc hp => lazy_close
  | present_yes i hpc hp => lazy_close
  | checkNil_nil i hpc hn => lazy_close
  | checkNil_set i v hpc hv => lazy_close
  | alloc i hpc => lazy_close
  | merge i m k hpc hk =>
    rw [hm]
    have := h3 i m k false hpc
    lazy_close
  | merge_end i m k hpc hk =>
    rw [hl]
    have hf := h3 i m k false hpc
    have hke : k = cfg.entries := by omega
    have hfull : s.heap m = some cfg.full := by rw [h4 i m k hpc, hke]; rfl
    lazy_close
  | cas_win i m k hpc hp hn =>
    rw [ha]
    have := h3 i m k true hpc
    have := h5 i m k hpc
    lazy_close
  | cas_lose i m k v hpc hp hv =>
    rw [ha]
    have := h3 i m k true hpc
    lazy_close
  | store i m k hpc hp => rw [hc] at hp; cases hp
  | load i v hpc hv => lazy_close

theorem inv_reachable {cfg : Cfg β α} (safe : cfg.Safe) {s : State α} (r : Reachable cfg s) : Inv cfg s := by
  induction r with
  | init => exact inv_init cfg
  | step _ st ih => exact inv_step safe ih st

/-- the pointer cell changes at most once: a step never changes a set cell … -/
theorem step_cell_stable {cfg : Cfg β α} (safe : cfg.Safe) {s t : State α} (st : Step cfg s t) {v : Nat}
    (hv : s.cell = some v) : t.cell = some v := by
  have hc := safe.cas
  cases st <;> simp_all

/-- … and the only change is nil → a freshly decoded object -/
theorem step_cell_change {cfg : Cfg β α} {s t : State α} (st : Step cfg s t) (hne : t.cell ≠ s.cell) (safe : cfg.Safe) :
    s.cell = none ∧ ∃ i m k, s.pc i = .own m k true ∧ t.cell = some m := by
  have hc := safe.cas
  cases st <;> simp_all
  all_goals exact ⟨_, _, by assumption⟩

theorem steps_cell_stable {cfg : Cfg β α} (safe : cfg.Safe) {s t : State α} (h : Steps cfg s t) {v : Nat}
    (hv : s.cell = some v) : t.cell = some v := by
  induction h with
  | refl => exact hv
  | tail _ st ih => exact step_cell_stable safe st ih

/-- a finished thread keeps its result -/
theorem step_done_stable {cfg : Cfg β α} {s t : State α} (st : Step cfg s t) {i : Nat} {r : Option Nat}
    (hd : s.pc i = .done r) : t.pc i = .done r := by
  cases st <;> simp only [upd] <;> grind

/-- progress: every thread that has not returned has an enabled step (nobody is ever stuck,
in particular not at `load`) -/
theorem enabled {cfg : Cfg β α} (safe : cfg.Safe) {s : State α} (r : Reachable cfg s) (i : Nat)
    (hnd : ∀ res, s.pc i ≠ .done res) : ∃ t, Step cfg s t ∧ t.pc i ≠ s.pc i := by
  have inv := inv_reachable safe r
  have hr : ∀ m, afterPublish cfg m = .load := by intro m; simp [afterPublish, safe.reload]
  cases hpc : s.pc i with
  | checkPresent =>
    cases hp : cfg.present with
    | true => exact ⟨_, Step.present_yes s i hpc hp, by simp [upd]⟩
    | false => exact ⟨_, Step.present_no s i hpc hp, by simp [upd]⟩
  | checkNil =>
    cases hcell : s.cell with
    | none => exact ⟨_, Step.checkNil_nil s i hpc hcell, by simp [upd]⟩
    | some v => exact ⟨_, Step.checkNil_set s i v hpc hcell, by simp [upd]⟩
  | decode => exact ⟨_, Step.alloc s i hpc, by simp [upd]⟩
  | own m k b =>
    have hm : ∀ m k, afterMerge cfg m k = .own m k false := by intro m k; simp [afterMerge, safe.afterAll]
    have hl : ∀ m k, afterLoop cfg m k = .own m k true := by intro m k; simp [afterLoop, safe.afterAll]
    have ha : ∀ m k, afterCas cfg m k = .load := by intro m k; simp [afterCas, safe.afterAll, hr]
    cases b with
    | false =>
      by_cases hk : k < cfg.entries
      · exact ⟨_, Step.merge s i m k hpc hk, by simp [upd, hm]⟩
      · exact ⟨_, Step.merge_end s i m k hpc hk, by simp [upd, hl]⟩
    | true =>
      cases hcell : s.cell with
      | none => exact ⟨_, Step.cas_win s i m k hpc safe.cas hcell, by simp [upd, ha]⟩
      | some v => exact ⟨_, Step.cas_lose s i m k v hpc safe.cas hcell, by simp [upd, ha]⟩
  | load =>
    cases hcell : s.cell with
    | none => exact absurd hcell (inv.load_set i hpc)
    | some v => exact ⟨_, Step.load s i v hpc hcell, by simp [upd]⟩
  | done res => exact absurd hpc (hnd res)

end Conc.Lazy
